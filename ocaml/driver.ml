(* Generic driver for an extracted model: every property's Entry.v exposes
     entry : Z -> list Z -> list Z
   (selector, input tokens) -> output tokens.  One case per stdin line:
     <sel> <tok> <tok> ...        ->   <tok> <tok> ...
   Integers are converted between decimal text and Coq's Z with the extracted
   helpers only (no OCaml int in between), so 2^64-scale values are exact. *)
open Model

let z_of_digit (c : char) : z =
  let rec pos_of_int n = (* 1..9 *)
    if n = 1 then XH else if n land 1 = 0 then XO (pos_of_int (n / 2)) else XI (pos_of_int (n / 2)) in
  let d = Char.code c - 48 in
  if d = 0 then Z0 else Zpos (pos_of_int d)

let z_of_string (s : string) : z =
  let n = String.length s in
  let neg = n > 0 && s.[0] = '-' in
  let acc = ref Z0 in
  for i = (if neg then 1 else 0) to n - 1 do
    acc := z_mul10_add !acc (z_of_digit s.[i])
  done;
  if neg then z_neg !acc else !acc

let int_of_small_z (x : z) : int =
  let rec p = function XH -> 1 | XO q -> 2 * p q | XI q -> 2 * p q + 1 in
  match x with Z0 -> 0 | Zpos q -> p q | Zneg q -> - (p q)

let string_of_z (x : z) : string =
  match x with
  | Z0 -> "0"
  | _ ->
    let neg = (match x with Zneg _ -> true | _ -> false) in
    let buf = Buffer.create 24 in
    let cur = ref (if neg then z_neg x else x) in
    while !cur <> Z0 do
      let (q, r) = z_divmod10 !cur in
      Buffer.add_char buf (Char.chr (48 + int_of_small_z r));
      cur := q
    done;
    let s = Buffer.contents buf in
    let n = String.length s in
    let r = Bytes.create n in
    for i = 0 to n - 1 do Bytes.set r i s.[n - 1 - i] done;
    (if neg then "-" else "") ^ Bytes.to_string r

let () =
  let out = Buffer.create 65536 in
  (try
    while true do
      let line = input_line stdin in
      let toks = List.filter (fun s -> s <> "") (String.split_on_char ' ' line) in
      (match toks with
       | [] -> Buffer.add_string out "\n"
       | sel :: rest ->
         let res = entry (z_of_string sel) (List.map z_of_string rest) in
         Buffer.add_string out (String.concat " " (List.map string_of_z res));
         Buffer.add_char out '\n');
      if Buffer.length out > 60000 then (print_string (Buffer.contents out); Buffer.clear out)
    done
  with End_of_file -> ());
  print_string (Buffer.contents out)
