
type __ = Obj.t
let __ = let rec f _ = Obj.repr f in Obj.repr f

(** val implb : bool -> bool -> bool **)

let implb b1 b2 =
  if b1 then b2 else true

(** val negb : bool -> bool **)

let negb = function
| true -> false
| false -> true

type nat =
| O
| S of nat

(** val option_map : ('a1 -> 'a2) -> 'a1 option -> 'a2 option **)

let option_map f = function
| Some a -> Some (f a)
| None -> None

type ('a, 'b) sum =
| Inl of 'a
| Inr of 'b

(** val fst : ('a1 * 'a2) -> 'a1 **)

let fst = function
| (x, _) -> x

(** val snd : ('a1 * 'a2) -> 'a2 **)

let snd = function
| (_, y) -> y

(** val uncurry : ('a1 -> 'a2 -> 'a3) -> ('a1 * 'a2) -> 'a3 **)

let uncurry f = function
| (x, y) -> f x y

(** val prod_curry_subdef : ('a1 -> 'a2 -> 'a3) -> ('a1 * 'a2) -> 'a3 **)

let prod_curry_subdef =
  uncurry

(** val length : 'a1 list -> nat **)

let rec length = function
| [] -> O
| _ :: l' -> S (length l')

(** val app : 'a1 list -> 'a1 list -> 'a1 list **)

let rec app l m =
  match l with
  | [] -> m
  | a :: l1 -> a :: (app l1 m)

type comparison =
| Eq
| Lt
| Gt

(** val compOpp : comparison -> comparison **)

let compOpp = function
| Eq -> Eq
| Lt -> Gt
| Gt -> Lt

(** val id : __ -> __ **)

let id x =
  x

module Coq__1 = struct
 (** val add : nat -> nat -> nat **)
 let rec add n0 m =
   match n0 with
   | O -> m
   | S p -> S (add p m)
end
include Coq__1

(** val sub : nat -> nat -> nat **)

let rec sub n0 m =
  match n0 with
  | O -> n0
  | S k -> (match m with
            | O -> n0
            | S l -> sub k l)

type positive =
| XI of positive
| XO of positive
| XH

type n =
| N0
| Npos of positive

type z =
| Z0
| Zpos of positive
| Zneg of positive

(** val compose : ('a2 -> 'a3) -> ('a1 -> 'a2) -> 'a1 -> 'a3 **)

let compose g f x =
  g (f x)

(** val flip : ('a1 -> 'a2 -> 'a3) -> 'a2 -> 'a1 -> 'a3 **)

let flip f x y =
  f y x

(** val eqb : bool -> bool -> bool **)

let eqb b1 b2 =
  if b1 then b2 else if b2 then false else true

module Pos =
 struct
  type mask =
  | IsNul
  | IsPos of positive
  | IsNeg
 end

module Coq_Pos =
 struct
  (** val succ : positive -> positive **)

  let rec succ = function
  | XI p -> XO (succ p)
  | XO p -> XI p
  | XH -> XO XH

  (** val add : positive -> positive -> positive **)

  let rec add x y =
    match x with
    | XI p ->
      (match y with
       | XI q -> XO (add_carry p q)
       | XO q -> XI (add p q)
       | XH -> XO (succ p))
    | XO p ->
      (match y with
       | XI q -> XI (add p q)
       | XO q -> XO (add p q)
       | XH -> XI p)
    | XH -> (match y with
             | XI q -> XO (succ q)
             | XO q -> XI q
             | XH -> XO XH)

  (** val add_carry : positive -> positive -> positive **)

  and add_carry x y =
    match x with
    | XI p ->
      (match y with
       | XI q -> XI (add_carry p q)
       | XO q -> XO (add_carry p q)
       | XH -> XI (succ p))
    | XO p ->
      (match y with
       | XI q -> XO (add_carry p q)
       | XO q -> XI (add p q)
       | XH -> XO (succ p))
    | XH ->
      (match y with
       | XI q -> XI (succ q)
       | XO q -> XO (succ q)
       | XH -> XI XH)

  (** val pred_double : positive -> positive **)

  let rec pred_double = function
  | XI p -> XI (XO p)
  | XO p -> XI (pred_double p)
  | XH -> XH

  type mask = Pos.mask =
  | IsNul
  | IsPos of positive
  | IsNeg

  (** val succ_double_mask : mask -> mask **)

  let succ_double_mask = function
  | IsNul -> IsPos XH
  | IsPos p -> IsPos (XI p)
  | IsNeg -> IsNeg

  (** val double_mask : mask -> mask **)

  let double_mask = function
  | IsPos p -> IsPos (XO p)
  | x0 -> x0

  (** val double_pred_mask : positive -> mask **)

  let double_pred_mask = function
  | XI p -> IsPos (XO (XO p))
  | XO p -> IsPos (XO (pred_double p))
  | XH -> IsNul

  (** val sub_mask : positive -> positive -> mask **)

  let rec sub_mask x y =
    match x with
    | XI p ->
      (match y with
       | XI q -> double_mask (sub_mask p q)
       | XO q -> succ_double_mask (sub_mask p q)
       | XH -> IsPos (XO p))
    | XO p ->
      (match y with
       | XI q -> succ_double_mask (sub_mask_carry p q)
       | XO q -> double_mask (sub_mask p q)
       | XH -> IsPos (pred_double p))
    | XH -> (match y with
             | XH -> IsNul
             | _ -> IsNeg)

  (** val sub_mask_carry : positive -> positive -> mask **)

  and sub_mask_carry x y =
    match x with
    | XI p ->
      (match y with
       | XI q -> succ_double_mask (sub_mask_carry p q)
       | XO q -> double_mask (sub_mask p q)
       | XH -> IsPos (pred_double p))
    | XO p ->
      (match y with
       | XI q -> double_mask (sub_mask_carry p q)
       | XO q -> succ_double_mask (sub_mask_carry p q)
       | XH -> double_pred_mask p)
    | XH -> IsNeg

  (** val mul : positive -> positive -> positive **)

  let rec mul x y =
    match x with
    | XI p -> add y (XO (mul p y))
    | XO p -> XO (mul p y)
    | XH -> y

  (** val compare_cont : comparison -> positive -> positive -> comparison **)

  let rec compare_cont r x y =
    match x with
    | XI p ->
      (match y with
       | XI q -> compare_cont r p q
       | XO q -> compare_cont Gt p q
       | XH -> Gt)
    | XO p ->
      (match y with
       | XI q -> compare_cont Lt p q
       | XO q -> compare_cont r p q
       | XH -> Gt)
    | XH -> (match y with
             | XH -> r
             | _ -> Lt)

  (** val compare : positive -> positive -> comparison **)

  let compare =
    compare_cont Eq

  (** val min : positive -> positive -> positive **)

  let min p p' =
    match compare p p' with
    | Gt -> p'
    | _ -> p

  (** val eqb : positive -> positive -> bool **)

  let rec eqb p q =
    match p with
    | XI p0 -> (match q with
                | XI q0 -> eqb p0 q0
                | _ -> false)
    | XO p0 -> (match q with
                | XO q0 -> eqb p0 q0
                | _ -> false)
    | XH -> (match q with
             | XH -> true
             | _ -> false)

  (** val leb : positive -> positive -> bool **)

  let leb x y =
    match compare x y with
    | Gt -> false
    | _ -> true

  (** val iter_op : ('a1 -> 'a1 -> 'a1) -> positive -> 'a1 -> 'a1 **)

  let rec iter_op op p a =
    match p with
    | XI p0 -> op a (iter_op op p0 (op a a))
    | XO p0 -> iter_op op p0 (op a a)
    | XH -> a

  (** val to_nat : positive -> nat **)

  let to_nat x =
    iter_op Coq__1.add x (S O)

  (** val of_succ_nat : nat -> positive **)

  let rec of_succ_nat = function
  | O -> XH
  | S x -> succ (of_succ_nat x)

  (** val eq_dec : positive -> positive -> bool **)

  let rec eq_dec p x0 =
    match p with
    | XI p0 -> (match x0 with
                | XI p1 -> eq_dec p0 p1
                | _ -> false)
    | XO p0 -> (match x0 with
                | XO p1 -> eq_dec p0 p1
                | _ -> false)
    | XH -> (match x0 with
             | XH -> true
             | _ -> false)
 end

module N =
 struct
  (** val succ_double : n -> n **)

  let succ_double = function
  | N0 -> Npos XH
  | Npos p -> Npos (XI p)

  (** val double : n -> n **)

  let double = function
  | N0 -> N0
  | Npos p -> Npos (XO p)

  (** val sub : n -> n -> n **)

  let sub n0 m =
    match n0 with
    | N0 -> N0
    | Npos n' ->
      (match m with
       | N0 -> n0
       | Npos m' ->
         (match Coq_Pos.sub_mask n' m' with
          | Coq_Pos.IsPos p -> Npos p
          | _ -> N0))

  (** val compare : n -> n -> comparison **)

  let compare n0 m =
    match n0 with
    | N0 -> (match m with
             | N0 -> Eq
             | Npos _ -> Lt)
    | Npos n' -> (match m with
                  | N0 -> Gt
                  | Npos m' -> Coq_Pos.compare n' m')

  (** val leb : n -> n -> bool **)

  let leb x y =
    match compare x y with
    | Gt -> false
    | _ -> true

  (** val pos_div_eucl : positive -> n -> n * n **)

  let rec pos_div_eucl a b =
    match a with
    | XI a' ->
      let (q, r) = pos_div_eucl a' b in
      let r' = succ_double r in
      if leb b r' then ((succ_double q), (sub r' b)) else ((double q), r')
    | XO a' ->
      let (q, r) = pos_div_eucl a' b in
      let r' = double r in
      if leb b r' then ((succ_double q), (sub r' b)) else ((double q), r')
    | XH ->
      (match b with
       | N0 -> (N0, (Npos XH))
       | Npos p -> (match p with
                    | XH -> ((Npos XH), N0)
                    | _ -> (N0, (Npos XH))))
 end

module Z =
 struct
  (** val double : z -> z **)

  let double = function
  | Z0 -> Z0
  | Zpos p -> Zpos (XO p)
  | Zneg p -> Zneg (XO p)

  (** val succ_double : z -> z **)

  let succ_double = function
  | Z0 -> Zpos XH
  | Zpos p -> Zpos (XI p)
  | Zneg p -> Zneg (Coq_Pos.pred_double p)

  (** val pred_double : z -> z **)

  let pred_double = function
  | Z0 -> Zneg XH
  | Zpos p -> Zpos (Coq_Pos.pred_double p)
  | Zneg p -> Zneg (XI p)

  (** val pos_sub : positive -> positive -> z **)

  let rec pos_sub x y =
    match x with
    | XI p ->
      (match y with
       | XI q -> double (pos_sub p q)
       | XO q -> succ_double (pos_sub p q)
       | XH -> Zpos (XO p))
    | XO p ->
      (match y with
       | XI q -> pred_double (pos_sub p q)
       | XO q -> double (pos_sub p q)
       | XH -> Zpos (Coq_Pos.pred_double p))
    | XH ->
      (match y with
       | XI q -> Zneg (XO q)
       | XO q -> Zneg (Coq_Pos.pred_double q)
       | XH -> Z0)

  (** val add : z -> z -> z **)

  let add x y =
    match x with
    | Z0 -> y
    | Zpos x' ->
      (match y with
       | Z0 -> x
       | Zpos y' -> Zpos (Coq_Pos.add x' y')
       | Zneg y' -> pos_sub x' y')
    | Zneg x' ->
      (match y with
       | Z0 -> x
       | Zpos y' -> pos_sub y' x'
       | Zneg y' -> Zneg (Coq_Pos.add x' y'))

  (** val opp : z -> z **)

  let opp = function
  | Z0 -> Z0
  | Zpos x0 -> Zneg x0
  | Zneg x0 -> Zpos x0

  (** val sub : z -> z -> z **)

  let sub m n0 =
    add m (opp n0)

  (** val mul : z -> z -> z **)

  let mul x y =
    match x with
    | Z0 -> Z0
    | Zpos x' ->
      (match y with
       | Z0 -> Z0
       | Zpos y' -> Zpos (Coq_Pos.mul x' y')
       | Zneg y' -> Zneg (Coq_Pos.mul x' y'))
    | Zneg x' ->
      (match y with
       | Z0 -> Z0
       | Zpos y' -> Zneg (Coq_Pos.mul x' y')
       | Zneg y' -> Zpos (Coq_Pos.mul x' y'))

  (** val compare : z -> z -> comparison **)

  let compare x y =
    match x with
    | Z0 -> (match y with
             | Z0 -> Eq
             | Zpos _ -> Lt
             | Zneg _ -> Gt)
    | Zpos x' -> (match y with
                  | Zpos y' -> Coq_Pos.compare x' y'
                  | _ -> Gt)
    | Zneg x' ->
      (match y with
       | Zneg y' -> compOpp (Coq_Pos.compare x' y')
       | _ -> Lt)

  (** val leb : z -> z -> bool **)

  let leb x y =
    match compare x y with
    | Gt -> false
    | _ -> true

  (** val ltb : z -> z -> bool **)

  let ltb x y =
    match compare x y with
    | Lt -> true
    | _ -> false

  (** val eqb : z -> z -> bool **)

  let eqb x y =
    match x with
    | Z0 -> (match y with
             | Z0 -> true
             | _ -> false)
    | Zpos p -> (match y with
                 | Zpos q -> Coq_Pos.eqb p q
                 | _ -> false)
    | Zneg p -> (match y with
                 | Zneg q -> Coq_Pos.eqb p q
                 | _ -> false)

  (** val abs : z -> z **)

  let abs = function
  | Zneg p -> Zpos p
  | x -> x

  (** val to_nat : z -> nat **)

  let to_nat = function
  | Zpos p -> Coq_Pos.to_nat p
  | _ -> O

  (** val of_nat : nat -> z **)

  let of_nat = function
  | O -> Z0
  | S n1 -> Zpos (Coq_Pos.of_succ_nat n1)

  (** val of_N : n -> z **)

  let of_N = function
  | N0 -> Z0
  | Npos p -> Zpos p

  (** val to_pos : z -> positive **)

  let to_pos = function
  | Zpos p -> p
  | _ -> XH

  (** val quotrem : z -> z -> z * z **)

  let quotrem a b =
    match a with
    | Z0 -> (Z0, Z0)
    | Zpos a0 ->
      (match b with
       | Z0 -> (Z0, a)
       | Zpos b0 ->
         let (q, r) = N.pos_div_eucl a0 (Npos b0) in ((of_N q), (of_N r))
       | Zneg b0 ->
         let (q, r) = N.pos_div_eucl a0 (Npos b0) in
         ((opp (of_N q)), (of_N r)))
    | Zneg a0 ->
      (match b with
       | Z0 -> (Z0, a)
       | Zpos b0 ->
         let (q, r) = N.pos_div_eucl a0 (Npos b0) in
         ((opp (of_N q)), (opp (of_N r)))
       | Zneg b0 ->
         let (q, r) = N.pos_div_eucl a0 (Npos b0) in
         ((of_N q), (opp (of_N r))))

  (** val eq_dec : z -> z -> bool **)

  let eq_dec x y =
    match x with
    | Z0 -> (match y with
             | Z0 -> true
             | _ -> false)
    | Zpos p -> (match y with
                 | Zpos p0 -> Coq_Pos.eq_dec p p0
                 | _ -> false)
    | Zneg p -> (match y with
                 | Zneg p0 -> Coq_Pos.eq_dec p p0
                 | _ -> false)
 end

(** val z_lt_dec : z -> z -> bool **)

let z_lt_dec x y =
  match Z.compare x y with
  | Lt -> true
  | _ -> false

(** val z_le_dec : z -> z -> bool **)

let z_le_dec x y =
  match Z.compare x y with
  | Gt -> false
  | _ -> true

(** val rev : 'a1 list -> 'a1 list **)

let rec rev = function
| [] -> []
| x :: l' -> app (rev l') (x :: [])

(** val map : ('a1 -> 'a2) -> 'a1 list -> 'a2 list **)

let rec map f = function
| [] -> []
| a :: t -> (f a) :: (map f t)

(** val flat_map : ('a1 -> 'a2 list) -> 'a1 list -> 'a2 list **)

let rec flat_map f = function
| [] -> []
| x :: t -> app (f x) (flat_map f t)

(** val fold_left : ('a1 -> 'a2 -> 'a1) -> 'a2 list -> 'a1 -> 'a1 **)

let rec fold_left f l a0 =
  match l with
  | [] -> a0
  | b :: t -> fold_left f t (f a0 b)

(** val fold_right : ('a2 -> 'a1 -> 'a1) -> 'a1 -> 'a2 list -> 'a1 **)

let rec fold_right f a0 = function
| [] -> a0
| b :: t -> f b (fold_right f a0 t)

(** val existsb : ('a1 -> bool) -> 'a1 list -> bool **)

let rec existsb f = function
| [] -> false
| a :: l0 -> (||) (f a) (existsb f l0)

(** val forallb : ('a1 -> bool) -> 'a1 list -> bool **)

let rec forallb f = function
| [] -> true
| a :: l0 -> (&&) (f a) (forallb f l0)

(** val filter : ('a1 -> bool) -> 'a1 list -> 'a1 list **)

let rec filter f = function
| [] -> []
| x :: l0 -> if f x then x :: (filter f l0) else filter f l0

(** val firstn : nat -> 'a1 list -> 'a1 list **)

let rec firstn n0 l =
  match n0 with
  | O -> []
  | S n1 -> (match l with
             | [] -> []
             | a :: l0 -> a :: (firstn n1 l0))

type 'a dec = z list -> ('a * z list) option

(** val ret : 'a1 -> 'a1 dec **)

let ret a l =
  Some (a, l)

(** val fail : 'a1 dec **)

let fail _ =
  None

(** val bind : 'a1 dec -> ('a1 -> 'a2 dec) -> 'a2 dec **)

let bind p f l =
  match p l with
  | Some p0 -> let (a, r) = p0 in f a r
  | None -> None

(** val dZ : z dec **)

let dZ = function
| [] -> None
| x :: r -> Some (x, r)

(** val dBool : bool dec **)

let dBool =
  bind dZ (fun x -> ret (negb (Z.eqb x Z0)))

(** val dNat : nat dec **)

let dNat =
  bind dZ (fun x -> if Z.ltb x Z0 then fail else ret (Z.to_nat x))

(** val dPos : positive dec **)

let dPos =
  bind dZ (fun x -> if Z.leb x Z0 then fail else ret (Z.to_pos x))

(** val dRep : nat -> 'a1 dec -> 'a1 list dec **)

let rec dRep n0 p =
  match n0 with
  | O -> ret []
  | S k -> bind p (fun a -> bind (dRep k p) (fun r -> ret (a :: r)))

(** val dList : 'a1 dec -> 'a1 list dec **)

let dList p =
  bind dNat (fun n0 -> dRep n0 p)

(** val dPair : 'a1 dec -> 'a2 dec -> ('a1 * 'a2) dec **)

let dPair p q =
  bind p (fun a -> bind q (fun b -> ret (a, b)))

(** val run_dec : 'a1 dec -> z list -> 'a1 option **)

let run_dec p l =
  match p l with
  | Some p0 ->
    let (a, l0) = p0 in (match l0 with
                         | [] -> Some a
                         | _ :: _ -> None)
  | None -> None

(** val eBool : bool -> z list **)

let eBool b =
  (if b then Zpos XH else Z0) :: []

(** val ePos : positive -> z list **)

let ePos p =
  (Zpos p) :: []

(** val eList : ('a1 -> z list) -> 'a1 list -> z list **)

let eList e l =
  (Z.of_nat (length l)) :: (flat_map e l)

(** val bad_input : z list **)

let bad_input =
  (Zneg (XI (XI (XI (XI (XI (XI (XO (XO (XO (XI (XO (XO (XO (XO (XI (XO (XI
    (XI (XI XH)))))))))))))))))))) :: []

(** val z_mul10_add : z -> z -> z **)

let z_mul10_add a d =
  Z.add (Z.mul a (Zpos (XO (XI (XO XH))))) d

(** val z_divmod10 : z -> z * z **)

let z_divmod10 a =
  Z.quotrem a (Zpos (XO (XI (XO XH))))

(** val z_neg : z -> z **)

let z_neg =
  Z.opp

(** val ins_kv :
    positive -> 'a1 -> (positive * 'a1) list -> (positive * 'a1) list **)

let rec ins_kv k a l = match l with
| [] -> (k, a) :: []
| p :: r ->
  let (k', a') = p in
  if Coq_Pos.leb k k' then (k, a) :: l else (k', a') :: (ins_kv k a r)

(** val sort_kv : (positive * 'a1) list -> (positive * 'a1) list **)

let sort_kv l =
  fold_right (fun ka acc -> ins_kv (fst ka) (snd ka) acc) [] l

(** val sort_pos : positive list -> positive list **)

let sort_pos l =
  map fst (sort_kv (map (fun k -> (k, ())) l))

type decision = bool

(** val decide : decision -> bool **)

let decide decision1 =
  decision1

type ('a, 'b) relDecision = 'a -> 'b -> decision

(** val decide_rel : ('a1, 'a2) relDecision -> 'a1 -> 'a2 -> decision **)

let decide_rel relDecision0 =
  relDecision0

type 'a empty = 'a

(** val empty0 : 'a1 empty -> 'a1 **)

let empty0 empty1 =
  empty1

type 'a union = 'a -> 'a -> 'a

(** val union0 : 'a1 union -> 'a1 -> 'a1 -> 'a1 **)

let union0 union1 =
  union1

type 'a difference = 'a -> 'a -> 'a

(** val difference0 : 'a1 difference -> 'a1 -> 'a1 -> 'a1 **)

let difference0 difference1 =
  difference1

type ('a, 'b) singleton = 'a -> 'b

(** val singleton0 : ('a1, 'a2) singleton -> 'a1 -> 'a2 **)

let singleton0 singleton1 =
  singleton1

(** val list_to_set :
    ('a1, 'a2) singleton -> 'a2 empty -> 'a2 union -> 'a1 list -> 'a2 **)

let rec list_to_set h h0 h1 = function
| [] -> empty0 h0
| x :: l0 -> union0 h1 (singleton0 h x) (list_to_set h h0 h1 l0)

type ('a, 'b) filter0 = __ -> ('a -> decision) -> 'b -> 'b

(** val filter1 : ('a1, 'a2) filter0 -> ('a1 -> decision) -> 'a2 -> 'a2 **)

let filter1 filter2 h x =
  filter2 __ h x

type 'm mBind = __ -> __ -> (__ -> 'm) -> 'm -> 'm

(** val mbind : 'a1 mBind -> ('a2 -> 'a1) -> 'a1 -> 'a1 **)

let mbind mBind0 x x0 =
  Obj.magic mBind0 __ __ x x0

type 'm fMap = __ -> __ -> (__ -> __) -> 'm -> 'm

(** val fmap : 'a1 fMap -> ('a2 -> 'a3) -> 'a1 -> 'a1 **)

let fmap fMap0 x x0 =
  Obj.magic fMap0 __ __ x x0

type 'm oMap = __ -> __ -> (__ -> __ option) -> 'm -> 'm

(** val omap : 'a1 oMap -> ('a2 -> 'a3 option) -> 'a1 -> 'a1 **)

let omap oMap0 x x0 =
  Obj.magic oMap0 __ __ x x0

type ('k, 'a, 'm) lookup = 'k -> 'm -> 'a option

(** val lookup0 : ('a1, 'a2, 'a3) lookup -> 'a1 -> 'a3 -> 'a2 option **)

let lookup0 lookup1 =
  lookup1

type ('k, 'a, 'm) singletonM = 'k -> 'a -> 'm

(** val singletonM0 : ('a1, 'a2, 'a3) singletonM -> 'a1 -> 'a2 -> 'a3 **)

let singletonM0 singletonM1 =
  singletonM1

type ('k, 'a, 'm) insert = 'k -> 'a -> 'm -> 'm

(** val insert0 : ('a1, 'a2, 'a3) insert -> 'a1 -> 'a2 -> 'a3 -> 'a3 **)

let insert0 insert1 =
  insert1

type ('k, 'm) delete = 'k -> 'm -> 'm

(** val delete0 : ('a1, 'a2) delete -> 'a1 -> 'a2 -> 'a2 **)

let delete0 delete1 =
  delete1

type ('k, 'a, 'm) partialAlter = ('a option -> 'a option) -> 'k -> 'm -> 'm

(** val partial_alter :
    ('a1, 'a2, 'a3) partialAlter -> ('a2 option -> 'a2 option) -> 'a1 -> 'a3
    -> 'a3 **)

let partial_alter partialAlter0 =
  partialAlter0

type ('m, 'd) dom = 'm -> 'd

(** val dom0 : ('a1, 'a2) dom -> 'a1 -> 'a2 **)

let dom0 dom1 =
  dom1

type 'm merge =
  __ -> __ -> __ -> (__ option -> __ option -> __ option) -> 'm -> 'm -> 'm

(** val merge0 :
    'a1 merge -> ('a2 option -> 'a3 option -> 'a4 option) -> 'a1 -> 'a1 -> 'a1 **)

let merge0 merge1 x x0 x1 =
  Obj.magic merge1 __ __ __ x x0 x1

type ('a, 'm) unionWith = ('a -> 'a -> 'a option) -> 'm -> 'm -> 'm

(** val union_with :
    ('a1, 'a2) unionWith -> ('a1 -> 'a1 -> 'a1 option) -> 'a2 -> 'a2 -> 'a2 **)

let union_with unionWith0 =
  unionWith0

type ('a, 'm) differenceWith = ('a -> 'a -> 'a option) -> 'm -> 'm -> 'm

(** val difference_with :
    ('a1, 'a2) differenceWith -> ('a1 -> 'a1 -> 'a1 option) -> 'a2 -> 'a2 ->
    'a2 **)

let difference_with differenceWith0 =
  differenceWith0

type ('a, 'c) elements = 'c -> 'a list

(** val elements0 : ('a1, 'a2) elements -> 'a2 -> 'a1 list **)

let elements0 elements1 =
  elements1

type 'c size = 'c -> nat

(** val size0 : 'a1 size -> 'a1 -> nat **)

let size0 size1 =
  size1

(** val not_dec : decision -> decision **)

let not_dec = function
| true -> false
| false -> true

(** val and_dec : decision -> decision -> decision **)

let and_dec p_dec q_dec =
  if p_dec then q_dec else false

(** val bool_eq_dec : (bool, bool) relDecision **)

let bool_eq_dec x y =
  if x then if y then true else false else if y then false else true

(** val unit_eq_dec : (unit, unit) relDecision **)

let unit_eq_dec _ _ =
  true

(** val uncurry_dec : ('a1 -> 'a2 -> decision) -> ('a1 * 'a2) -> decision **)

let uncurry_dec p_dec = function
| (x, y) -> p_dec x y

(** val bool_decide : decision -> bool **)

let bool_decide = function
| true -> true
| false -> false

(** val from_option : ('a1 -> 'a2) -> 'a2 -> 'a1 option -> 'a2 **)

let from_option f y = function
| Some x -> f x
| None -> y

(** val is_Some_dec : 'a1 option -> decision **)

let is_Some_dec = function
| Some _ -> true
| None -> false

(** val option_eq_None_dec : 'a1 option -> decision **)

let option_eq_None_dec = function
| Some _ -> false
| None -> true

(** val option_eq_dec :
    ('a1, 'a1) relDecision -> ('a1 option, 'a1 option) relDecision **)

let option_eq_dec dec0 mx my =
  match mx with
  | Some x ->
    (match my with
     | Some y -> decide (decide_rel dec0 x y)
     | None -> false)
  | None -> (match my with
             | Some _ -> false
             | None -> true)

(** val option_bind : (__ -> __ option) -> __ option -> __ option **)

let option_bind f = function
| Some x -> f x
| None -> None

(** val option_fmap : (__ -> __) -> __ option -> __ option **)

let option_fmap =
  option_map

(** val option_union_with : ('a1, 'a1 option) unionWith **)

let option_union_with f mx my =
  match mx with
  | Some x -> (match my with
               | Some y -> f x y
               | None -> Some x)
  | None -> my

(** val option_difference_with : ('a1, 'a1 option) differenceWith **)

let option_difference_with f mx my =
  match mx with
  | Some x -> (match my with
               | Some y -> f x y
               | None -> Some x)
  | None -> None

module Coq0_Pos =
 struct
  (** val eq_dec : (positive, positive) relDecision **)

  let eq_dec =
    Coq_Pos.eq_dec

  (** val reverse_go : positive -> positive -> positive **)

  let rec reverse_go p1 = function
  | XI p3 -> reverse_go (XI p1) p3
  | XO p3 -> reverse_go (XO p1) p3
  | XH -> p1

  (** val reverse : positive -> positive **)

  let reverse =
    reverse_go XH
 end

module Coq_Z =
 struct
  (** val eq_dec : (z, z) relDecision **)

  let eq_dec =
    Z.eq_dec

  (** val le_dec : (z, z) relDecision **)

  let le_dec =
    z_le_dec

  (** val lt_dec : (z, z) relDecision **)

  let lt_dec =
    z_lt_dec
 end

(** val list_filter : ('a1 -> decision) -> 'a1 list -> 'a1 list **)

let rec list_filter x = function
| [] -> []
| x0 :: l0 ->
  if decide (x x0)
  then x0 :: (filter1 (fun _ -> list_filter) x l0)
  else filter1 (fun _ -> list_filter) x l0

(** val list_fmap : (__ -> __) -> __ list -> __ list **)

let rec list_fmap f = function
| [] -> []
| x :: l0 -> (f x) :: (list_fmap f l0)

(** val list_omap : (__ -> __ option) -> __ list -> __ list **)

let rec list_omap f = function
| [] -> []
| x :: l0 ->
  (match f x with
   | Some y -> y :: (list_omap f l0)
   | None -> list_omap f l0)

(** val elem_of_list_dec :
    ('a1, 'a1) relDecision -> ('a1, 'a1 list) relDecision **)

let rec elem_of_list_dec dec0 x = function
| [] -> false
| y :: l0 ->
  if decide (decide_rel dec0 x y) then true else elem_of_list_dec dec0 x l0

(** val list_eq_nil_dec : 'a1 list -> decision **)

let list_eq_nil_dec = function
| [] -> true
| _ :: _ -> false

(** val forall_Exists_dec : ('a1 -> bool) -> 'a1 list -> bool **)

let rec forall_Exists_dec dec0 = function
| [] -> true
| x :: l0 -> if dec0 x then forall_Exists_dec dec0 l0 else false

(** val forall_dec : ('a1 -> decision) -> 'a1 list -> decision **)

let forall_dec =
  forall_Exists_dec

type 'a countable = { encode : ('a -> positive);
                      decode : (positive -> 'a option) }

(** val pos_countable : positive countable **)

let pos_countable =
  { encode = (Obj.magic id); decode = (fun x -> Some x) }

(** val set_size : ('a1, 'a2) elements -> 'a2 size **)

let set_size h =
  compose length (elements0 h)

type ('k, 'a, 'm) finMapToList = 'm -> ('k * 'a) list

(** val map_to_list :
    ('a1, 'a2, 'a3) finMapToList -> 'a3 -> ('a1 * 'a2) list **)

let map_to_list finMapToList0 =
  finMapToList0

(** val diag_None :
    ('a1 option -> 'a2 option -> 'a3 option) -> 'a1 option -> 'a2 option ->
    'a3 option **)

let diag_None f mx my =
  match mx with
  | Some _ -> f mx my
  | None -> (match my with
             | Some _ -> f mx my
             | None -> None)

(** val map_insert :
    ('a1, 'a2, 'a3) partialAlter -> ('a1, 'a2, 'a3) insert **)

let map_insert h i x =
  partial_alter h (fun _ -> Some x) i

(** val map_delete : ('a1, 'a2, 'a3) partialAlter -> ('a1, 'a3) delete **)

let map_delete h =
  partial_alter h (fun _ -> None)

(** val map_singleton :
    ('a1, 'a2, 'a3) partialAlter -> 'a3 empty -> ('a1, 'a2, 'a3) singletonM **)

let map_singleton h h0 i x =
  insert0 (map_insert h) i x (empty0 h0)

(** val list_to_map :
    ('a1, 'a2, 'a3) insert -> 'a3 empty -> ('a1 * 'a2) list -> 'a3 **)

let list_to_map h h0 =
  fold_right (fun p -> insert0 h (fst p) (snd p)) (empty0 h0)

(** val map_union_with : 'a1 merge -> ('a2, 'a1) unionWith **)

let map_union_with h f =
  merge0 h (union_with option_union_with f)

(** val map_difference_with : 'a1 merge -> ('a2, 'a1) differenceWith **)

let map_difference_with h f =
  merge0 h (difference_with option_difference_with f)

(** val map_union : 'a1 merge -> 'a1 union **)

let map_union h =
  union_with (map_union_with h) (fun x _ -> Some x)

(** val map_difference : 'a1 merge -> 'a1 difference **)

let map_difference h =
  difference_with (map_difference_with h) (fun _ _ -> None)

(** val map_fold :
    ('a1, 'a2, 'a3) finMapToList -> ('a1 -> 'a2 -> 'a4 -> 'a4) -> 'a4 -> 'a3
    -> 'a4 **)

let map_fold h f b =
  compose (fold_right (prod_curry_subdef f) b) (map_to_list h)

(** val map_eq_dec_empty :
    'a2 fMap -> (__ -> ('a1, __, 'a2) lookup) -> (__ -> 'a2 empty) -> (__ ->
    ('a1, __, 'a2) partialAlter) -> 'a2 oMap -> 'a2 merge -> (__ -> ('a1, __,
    'a2) finMapToList) -> ('a1, 'a1) relDecision -> 'a2 -> decision **)

let map_eq_dec_empty _ _ _ _ _ _ h5 _ m =
  decide (list_eq_nil_dec (map_to_list (h5 __) m))

(** val map_Forall_dec :
    'a2 fMap -> (__ -> ('a1, __, 'a2) lookup) -> (__ -> 'a2 empty) -> (__ ->
    ('a1, __, 'a2) partialAlter) -> 'a2 oMap -> 'a2 merge -> (__ -> ('a1, __,
    'a2) finMapToList) -> ('a1, 'a1) relDecision -> ('a1 -> 'a3 -> decision)
    -> 'a2 -> decision **)

let map_Forall_dec _ _ _ _ _ _ h5 _ h7 m =
  decide (forall_dec (uncurry_dec (Obj.magic h7)) (map_to_list (h5 __) m))

type 'munit mapset' =
  'munit
  (* singleton inductive, whose constructor was Mapset *)

(** val mapset_car : 'a1 mapset' -> 'a1 **)

let mapset_car m =
  m

(** val mapset_empty : (__ -> 'a1 empty) -> 'a1 mapset' empty **)

let mapset_empty h1 =
  empty0 (h1 __)

(** val mapset_singleton :
    (__ -> 'a2 empty) -> (__ -> ('a1, __, 'a2) partialAlter) -> ('a1, 'a2
    mapset') singleton **)

let mapset_singleton h1 h2 x =
  singletonM0 (map_singleton (Obj.magic h2 __) (h1 __)) x ()

(** val mapset_union : 'a1 merge -> 'a1 mapset' union **)

let mapset_union h4 x1 x2 =
  union0 (map_union h4) x1 x2

(** val mapset_difference : 'a1 merge -> 'a1 mapset' difference **)

let mapset_difference h4 x1 x2 =
  difference0 (map_difference h4) x1 x2

(** val mapset_elements :
    (__ -> ('a1, __, 'a2) finMapToList) -> ('a1, 'a2 mapset') elements **)

let mapset_elements h5 x =
  fmap (Obj.magic (fun _ _ -> list_fmap)) fst
    (Obj.magic map_to_list (h5 __) x)

(** val mapset_eq_dec :
    ('a1, 'a1) relDecision -> ('a1 mapset', 'a1 mapset') relDecision **)

let mapset_eq_dec eqDecision1 x1 x2 =
  decide (decide_rel eqDecision1 x1 x2)

(** val mapset_elem_of_dec :
    (__ -> ('a1, __, 'a2) lookup) -> ('a1, 'a2 mapset') relDecision **)

let mapset_elem_of_dec h0 x x0 =
  decide
    (decide_rel (Obj.magic option_eq_dec unit_eq_dec)
      (lookup0 (h0 __) x (mapset_car x0)) (Some ()))

(** val mapset_dom_with :
    (__ -> 'a1 empty) -> 'a1 merge -> ('a2 -> bool) -> 'a1 -> 'a1 mapset' **)

let mapset_dom_with h1 h4 f m =
  merge0 h4 (fun x _ ->
    match x with
    | Some a -> if f a then Some () else None
    | None -> None) m (empty0 (h1 __))

(** val mapset_dom :
    (__ -> 'a1 empty) -> 'a1 merge -> ('a1, 'a1 mapset') dom **)

let mapset_dom h1 h4 =
  mapset_dom_with h1 h4 (fun _ -> true)

type 'a pmap_raw =
| PLeaf
| PNode of 'a option * 'a pmap_raw * 'a pmap_raw

(** val pmap_raw_eq_dec :
    ('a1, 'a1) relDecision -> ('a1 pmap_raw, 'a1 pmap_raw) relDecision **)

let rec pmap_raw_eq_dec eqDecision0 x y =
  match x with
  | PLeaf -> (match y with
              | PLeaf -> true
              | PNode (_, _, _) -> false)
  | PNode (o, p, p0) ->
    (match y with
     | PLeaf -> false
     | PNode (o0, p1, p2) ->
       if decide_rel (option_eq_dec eqDecision0) o o0
       then if pmap_raw_eq_dec eqDecision0 p p1
            then pmap_raw_eq_dec eqDecision0 p0 p2
            else false
       else false)

(** val pNode' :
    'a1 option -> 'a1 pmap_raw -> 'a1 pmap_raw -> 'a1 pmap_raw **)

let pNode' o l r =
  match l with
  | PLeaf ->
    (match o with
     | Some _ -> PNode (o, l, r)
     | None ->
       (match r with
        | PLeaf -> PLeaf
        | PNode (_, _, _) -> PNode (o, l, r)))
  | PNode (_, _, _) -> PNode (o, l, r)

(** val pempty_raw : 'a1 pmap_raw empty **)

let pempty_raw =
  PLeaf

(** val plookup_raw : (positive, 'a1, 'a1 pmap_raw) lookup **)

let rec plookup_raw i = function
| PLeaf -> None
| PNode (o, l, r) ->
  (match i with
   | XI i0 -> lookup0 plookup_raw i0 r
   | XO i0 -> lookup0 plookup_raw i0 l
   | XH -> o)

(** val psingleton_raw : positive -> 'a1 -> 'a1 pmap_raw **)

let rec psingleton_raw i x =
  match i with
  | XI i0 -> PNode (None, PLeaf, (psingleton_raw i0 x))
  | XO i0 -> PNode (None, (psingleton_raw i0 x), PLeaf)
  | XH -> PNode ((Some x), PLeaf, PLeaf)

(** val ppartial_alter_raw :
    ('a1 option -> 'a1 option) -> positive -> 'a1 pmap_raw -> 'a1 pmap_raw **)

let rec ppartial_alter_raw f i = function
| PLeaf -> (match f None with
            | Some x -> psingleton_raw i x
            | None -> PLeaf)
| PNode (o, l, r) ->
  (match i with
   | XI i0 -> pNode' o l (ppartial_alter_raw f i0 r)
   | XO i0 -> pNode' o (ppartial_alter_raw f i0 l) r
   | XH -> pNode' (f o) l r)

(** val pfmap_raw : ('a1 -> 'a2) -> 'a1 pmap_raw -> 'a2 pmap_raw **)

let rec pfmap_raw f = function
| PLeaf -> PLeaf
| PNode (o, l, r) ->
  PNode ((fmap (Obj.magic (fun _ _ -> option_fmap)) f (Obj.magic o)),
    (pfmap_raw f l), (pfmap_raw f r))

(** val pto_list_raw :
    positive -> 'a1 pmap_raw -> (positive * 'a1) list -> (positive * 'a1) list **)

let rec pto_list_raw j t acc =
  match t with
  | PLeaf -> acc
  | PNode (o, l, r) ->
    app (from_option (fun x -> ((Coq0_Pos.reverse j), x) :: []) [] o)
      (pto_list_raw (XO j) l (pto_list_raw (XI j) r acc))

(** val pomap_raw : ('a1 -> 'a2 option) -> 'a1 pmap_raw -> 'a2 pmap_raw **)

let rec pomap_raw f = function
| PLeaf -> PLeaf
| PNode (o, l, r) ->
  pNode' (mbind (Obj.magic (fun _ _ -> option_bind)) f (Obj.magic o))
    (pomap_raw f l) (pomap_raw f r)

(** val pmerge_raw :
    ('a1 option -> 'a2 option -> 'a3 option) -> 'a1 pmap_raw -> 'a2 pmap_raw
    -> 'a3 pmap_raw **)

let rec pmerge_raw f t1 t2 =
  match t1 with
  | PLeaf -> pomap_raw (compose (f None) (fun x -> Some x)) t2
  | PNode (o1, l1, r1) ->
    (match t2 with
     | PLeaf -> pomap_raw (compose (flip f None) (fun x -> Some x)) t1
     | PNode (o2, l2, r2) ->
       pNode' (diag_None f o1 o2) (pmerge_raw f l1 l2) (pmerge_raw f r1 r2))

type 'a pmap =
  'a pmap_raw
  (* singleton inductive, whose constructor was PMap *)

(** val pmap_car : 'a1 pmap -> 'a1 pmap_raw **)

let pmap_car p =
  p

(** val pmap_eq_dec :
    ('a1, 'a1) relDecision -> ('a1 pmap, 'a1 pmap) relDecision **)

let pmap_eq_dec eqDecision0 m1 m2 =
  pmap_raw_eq_dec eqDecision0 (pmap_car m1) (pmap_car m2)

(** val pempty : 'a1 pmap empty **)

let pempty =
  empty0 pempty_raw

(** val plookup : (positive, 'a1, 'a1 pmap) lookup **)

let plookup i m =
  lookup0 plookup_raw i (pmap_car m)

(** val ppartial_alter : (positive, 'a1, 'a1 pmap) partialAlter **)

let ppartial_alter f i m =
  partial_alter ppartial_alter_raw f i m

(** val pfmap : (__ -> __) -> __ pmap -> __ pmap **)

let pfmap f m =
  fmap (fun _ _ -> pfmap_raw) f m

(** val pto_list : (positive, 'a1, 'a1 pmap) finMapToList **)

let pto_list m =
  pto_list_raw XH m []

(** val pomap : (__ -> __ option) -> __ pmap -> __ pmap **)

let pomap f m =
  omap (fun _ _ -> pomap_raw) f m

(** val pmerge :
    (__ option -> __ option -> __ option) -> __ pmap -> __ pmap -> __ pmap **)

let pmerge =
  pmerge_raw

type ('k, 'a) gmap =
  'a pmap
  (* singleton inductive, whose constructor was GMap *)

(** val gmap_car :
    ('a1, 'a1) relDecision -> 'a1 countable -> ('a1, 'a2) gmap -> 'a2 pmap **)

let gmap_car _ _ g =
  g

(** val gmap_eq_eq :
    ('a1, 'a1) relDecision -> 'a1 countable -> ('a2, 'a2) relDecision ->
    (('a1, 'a2) gmap, ('a1, 'a2) gmap) relDecision **)

let gmap_eq_eq eqDecision0 h eqDecision1 m1 m2 =
  decide
    (decide_rel (pmap_eq_dec eqDecision1) (gmap_car eqDecision0 h m1)
      (gmap_car eqDecision0 h m2))

(** val gmap_lookup :
    ('a1, 'a1) relDecision -> 'a1 countable -> ('a1, 'a2, ('a1, 'a2) gmap)
    lookup **)

let gmap_lookup _ h i pat =
  lookup0 plookup (h.encode i) pat

(** val gmap_empty :
    ('a1, 'a1) relDecision -> 'a1 countable -> ('a1, 'a2) gmap empty **)

let gmap_empty _ _ =
  empty0 pempty

(** val gmap_partial_alter :
    ('a1, 'a1) relDecision -> 'a1 countable -> ('a1, 'a2, ('a1, 'a2) gmap)
    partialAlter **)

let gmap_partial_alter _ h f i pat =
  partial_alter ppartial_alter f (h.encode i) pat

(** val gmap_fmap :
    ('a1, 'a1) relDecision -> 'a1 countable -> (__ -> __) -> ('a1, __) gmap
    -> ('a1, __) gmap **)

let gmap_fmap _ _ f pat =
  fmap (fun _ _ -> pfmap) f pat

(** val gmap_omap :
    ('a1, 'a1) relDecision -> 'a1 countable -> (__ -> __ option) -> ('a1, __)
    gmap -> ('a1, __) gmap **)

let gmap_omap _ _ f pat =
  omap (fun _ _ -> pomap) f pat

(** val gmap_merge :
    ('a1, 'a1) relDecision -> 'a1 countable -> (__ option -> __ option -> __
    option) -> ('a1, __) gmap -> ('a1, __) gmap -> ('a1, __) gmap **)

let gmap_merge _ _ f pat pat0 =
  merge0 (fun _ _ _ -> pmerge) f pat pat0

(** val gmap_to_list :
    ('a1, 'a1) relDecision -> 'a1 countable -> ('a1, 'a2, ('a1, 'a2) gmap)
    finMapToList **)

let gmap_to_list _ h pat =
  omap (Obj.magic (fun _ _ -> list_omap)) (fun pat0 ->
    let (i, x) = pat0 in
    fmap (Obj.magic (fun _ _ -> option_fmap)) (fun x0 -> (x0, x)) (h.decode i))
    (map_to_list (Obj.magic pto_list) pat)

type 'k gset = ('k, unit) gmap mapset'

(** val gset_empty :
    ('a1, 'a1) relDecision -> 'a1 countable -> 'a1 gset empty **)

let gset_empty eqDecision0 h =
  mapset_empty (fun _ -> gmap_empty eqDecision0 h)

(** val gset_singleton :
    ('a1, 'a1) relDecision -> 'a1 countable -> ('a1, 'a1 gset) singleton **)

let gset_singleton eqDecision0 h =
  mapset_singleton (fun _ -> gmap_empty eqDecision0 h)
    (Obj.magic (fun _ -> gmap_partial_alter eqDecision0 h))

(** val gset_union :
    ('a1, 'a1) relDecision -> 'a1 countable -> 'a1 gset union **)

let gset_union eqDecision0 h =
  mapset_union (Obj.magic (fun _ _ _ -> gmap_merge eqDecision0 h))

(** val gset_difference :
    ('a1, 'a1) relDecision -> 'a1 countable -> 'a1 gset difference **)

let gset_difference eqDecision0 h =
  mapset_difference (Obj.magic (fun _ _ _ -> gmap_merge eqDecision0 h))

(** val gset_elements :
    ('a1, 'a1) relDecision -> 'a1 countable -> ('a1, 'a1 gset) elements **)

let gset_elements eqDecision0 h =
  mapset_elements (Obj.magic (fun _ -> gmap_to_list eqDecision0 h))

(** val gset_eq_dec :
    ('a1, 'a1) relDecision -> 'a1 countable -> ('a1 gset, 'a1 gset)
    relDecision **)

let gset_eq_dec eqDecision0 h =
  mapset_eq_dec (gmap_eq_eq eqDecision0 h unit_eq_dec)

(** val gset_elem_of_dec :
    ('a1, 'a1) relDecision -> 'a1 countable -> ('a1, 'a1 gset) relDecision **)

let gset_elem_of_dec eqDecision0 h =
  mapset_elem_of_dec (Obj.magic (fun _ -> gmap_lookup eqDecision0 h))

(** val gset_dom :
    ('a1, 'a1) relDecision -> 'a1 countable -> (('a1, 'a2) gmap, 'a1 gset) dom **)

let gset_dom eqDecision0 h m =
  mapset_dom (fun _ -> gmap_empty eqDecision0 h)
    (Obj.magic (fun _ _ _ -> gmap_merge eqDecision0 h)) (Obj.magic m)

type res = { cpu : z; mem : z; sc : (positive, z) gmap option }

(** val res_eq_dec : (res, res) relDecision **)

let res_eq_dec x y =
  let { cpu = cpu0; mem = mem0; sc = sc0 } = x in
  let { cpu = cpu1; mem = mem1; sc = sc1 } = y in
  if decide_rel Coq_Z.eq_dec cpu0 cpu1
  then if decide_rel Coq_Z.eq_dec mem0 mem1
       then decide_rel
              (option_eq_dec
                (gmap_eq_eq Coq0_Pos.eq_dec pos_countable Coq_Z.eq_dec)) sc0
              sc1
       else false
  else false

type dflt =
| DZero
| DInf

(** val pods_name : positive **)

let pods_name =
  XH

(** val ignored : positive -> bool **)

let ignored k =
  bool_decide (decide_rel Coq0_Pos.eq_dec k pods_name)

(** val empty_res : res **)

let empty_res =
  { cpu = Z0; mem = Z0; sc = None }

(** val scm : res -> (positive, z) gmap **)

let scm r =
  from_option (Obj.magic id)
    (empty0 (gmap_empty Coq0_Pos.eq_dec pos_countable)) r.sc

(** val sget : res -> positive -> z **)

let sget r k =
  from_option (Obj.magic id) Z0
    (lookup0 (gmap_lookup Coq0_Pos.eq_dec pos_countable) k (scm r))

(** val lt : z -> z -> bool **)

let lt l r =
  bool_decide (decide_rel Coq_Z.lt_dec l r)

(** val le : z -> z -> z -> bool **)

let le eps l r =
  (||) (bool_decide (decide_rel Coq_Z.lt_dec l r))
    (bool_decide (decide_rel Coq_Z.lt_dec (Z.abs (Z.sub l r)) eps))

(** val add0 : res -> res -> res **)

let add0 r rr =
  { cpu = (Z.add r.cpu rr.cpu); mem = (Z.add r.mem rr.mem); sc =
    (if bool_decide
          (decide_rel (gmap_eq_eq Coq0_Pos.eq_dec pos_countable Coq_Z.eq_dec)
            (scm rr) (empty0 (gmap_empty Coq0_Pos.eq_dec pos_countable)))
     then r.sc
     else Some
            (union_with
              (map_union_with
                (Obj.magic (fun _ _ _ ->
                  gmap_merge Coq0_Pos.eq_dec pos_countable))) (fun a b ->
              Some (Z.add a b)) (scm r) (scm rr))) }

(** val sub_f : z option -> z option -> z option **)

let sub_f a b =
  match a with
  | Some x -> (match b with
               | Some y -> Some (Z.sub x y)
               | None -> Some x)
  | None -> (match b with
             | Some y -> Some (Z.sub Z0 y)
             | None -> None)

(** val sub0 : res -> res -> res **)

let sub0 r rr =
  { cpu = (Z.sub r.cpu rr.cpu); mem = (Z.sub r.mem rr.mem); sc =
    (match r.sc with
     | Some m ->
       Some
         (merge0
           (Obj.magic (fun _ _ _ -> gmap_merge Coq0_Pos.eq_dec pos_countable))
           sub_f m (scm rr))
     | None -> None) }

(** val map_allb :
    (positive -> 'a1 -> bool) -> (positive, 'a1) gmap -> bool **)

let map_allb p m =
  bool_decide
    (map_Forall_dec
      (Obj.magic (fun _ _ -> gmap_fmap Coq0_Pos.eq_dec pos_countable))
      (Obj.magic (fun _ -> gmap_lookup Coq0_Pos.eq_dec pos_countable))
      (fun _ -> gmap_empty Coq0_Pos.eq_dec pos_countable)
      (Obj.magic (fun _ -> gmap_partial_alter Coq0_Pos.eq_dec pos_countable))
      (Obj.magic (fun _ _ -> gmap_omap Coq0_Pos.eq_dec pos_countable))
      (Obj.magic (fun _ _ _ -> gmap_merge Coq0_Pos.eq_dec pos_countable))
      (Obj.magic (fun _ -> gmap_to_list Coq0_Pos.eq_dec pos_countable))
      Coq0_Pos.eq_dec (fun i x -> decide_rel bool_eq_dec (p i x) true) m)

(** val map_anyb :
    (positive -> 'a1 -> bool) -> (positive, 'a1) gmap -> bool **)

let map_anyb p m =
  negb (map_allb (fun k v -> negb (p k v)) m)

(** val keys_where :
    (positive -> 'a1 -> bool) -> (positive, 'a1) gmap -> positive list **)

let keys_where p m =
  map fst
    (filter1 (fun _ -> list_filter) (fun x ->
      decide_rel bool_eq_dec (p (fst x) (snd x)) true)
      (map_to_list (gmap_to_list Coq0_Pos.eq_dec pos_countable) m))

(** val is_empty : z -> res -> bool **)

let is_empty eps r =
  (&&) ((&&) (lt r.cpu eps) (lt r.mem eps))
    (map_allb (fun k v -> (||) (ignored k) (lt v eps)) (scm r))

(** val has_missing : res -> res -> bool **)

let has_missing r rr =
  map_anyb (fun k _ ->
    negb
      (bool_decide
        (is_Some_dec
          (lookup0 (gmap_lookup Coq0_Pos.eq_dec pos_countable) k (scm r)))))
    (scm rr)

(** val cmp_at :
    (z -> z -> bool) -> res -> dflt -> bool -> positive -> z -> bool **)

let cmp_at f rr d missing k v =
  match lookup0 (gmap_lookup Coq0_Pos.eq_dec pos_countable) k (scm rr) with
  | Some w -> f v w
  | None -> (match d with
             | DZero -> f v Z0
             | DInf -> missing)

(** val all_sc : (z -> z -> bool) -> res -> res -> dflt -> bool **)

let all_sc f r rr d =
  map_allb (cmp_at f rr d true) (scm r)

(** val less_equal : z -> res -> res -> dflt -> bool **)

let less_equal eps r rr d =
  (&&)
    ((&&) ((&&) (le eps r.cpu rr.cpu) (le eps r.mem rr.mem))
      (match d with
       | DZero -> true
       | DInf -> negb (has_missing r rr))) (all_sc (le eps) r rr d)

(** val le_names :
    z -> res -> res -> dflt -> (bool * bool) * positive list **)

let le_names eps r rr d =
  (((negb (le eps r.cpu rr.cpu)), (negb (le eps r.mem rr.mem))),
    (keys_where (fun k v -> negb (cmp_at (le eps) rr d true k v)) (scm r)))

(** val names_none : ((bool * bool) * positive list) -> bool **)

let names_none = function
| (p, l) ->
  let (c, m) = p in
  (&&) ((&&) (negb c) (negb m)) (bool_decide (list_eq_nil_dec l))

(** val less_equal_names : z -> res -> res -> dflt -> bool **)

let less_equal_names eps r rr d =
  names_none (le_names eps r rr d)

(** val req_sel : positive -> z -> bool **)

let req_sel k q =
  (&&) (negb (ignored k)) (bool_decide (decide_rel Coq_Z.lt_dec Z0 q))

(** val le_dim_names : res -> res -> res -> (bool * bool) * positive list **)

let le_dim_names r rr req =
  let c =
    (&&) (bool_decide (decide_rel Coq_Z.lt_dec Z0 req.cpu))
      (bool_decide (decide_rel Coq_Z.lt_dec rr.cpu r.cpu))
  in
  let m =
    (&&) (bool_decide (decide_rel Coq_Z.lt_dec Z0 req.mem))
      (bool_decide (decide_rel Coq_Z.lt_dec rr.mem r.mem))
  in
  (match r.sc with
   | Some _ ->
     ((c, m),
       (keys_where (fun k q ->
         (&&) (req_sel k q)
           (bool_decide (decide_rel Coq_Z.lt_dec (sget rr k) (sget r k))))
         (scm req)))
   | None -> ((c, m), []))

(** val le_dim : res -> res -> res -> bool **)

let le_dim r rr req =
  names_none (le_dim_names r rr req)

(** val dRes : res dec **)

let dRes =
  bind dZ (fun c ->
    bind dZ (fun m ->
      bind dBool (fun nn ->
        bind (dList (dPair dPos dZ)) (fun kvs ->
          ret { cpu = c; mem = m; sc =
            (if nn
             then Some
                    (list_to_map
                      (map_insert
                        (gmap_partial_alter Coq0_Pos.eq_dec pos_countable))
                      (gmap_empty Coq0_Pos.eq_dec pos_countable) kvs)
             else None) }))))

(** val eRes : res -> z list **)

let eRes r =
  app (r.cpu :: (r.mem :: []))
    (match r.sc with
     | Some m ->
       (Zpos
         XH) :: (eList (fun kv -> (Zpos (fst kv)) :: ((snd kv) :: []))
                  (sort_kv
                    (map_to_list (gmap_to_list Coq0_Pos.eq_dec pos_countable)
                      m)))
     | None -> Z0 :: (Z0 :: []))

type status =
| Pending
| Allocated
| Pipelined
| Binding
| Bound
| Running
| Releasing
| Succeeded
| Failed
| Unknown

(** val status_eq_dec : (status, status) relDecision **)

let status_eq_dec x y =
  match x with
  | Pending -> (match y with
                | Pending -> true
                | _ -> false)
  | Allocated -> (match y with
                  | Allocated -> true
                  | _ -> false)
  | Pipelined -> (match y with
                  | Pipelined -> true
                  | _ -> false)
  | Binding -> (match y with
                | Binding -> true
                | _ -> false)
  | Bound -> (match y with
              | Bound -> true
              | _ -> false)
  | Running -> (match y with
                | Running -> true
                | _ -> false)
  | Releasing -> (match y with
                  | Releasing -> true
                  | _ -> false)
  | Succeeded -> (match y with
                  | Succeeded -> true
                  | _ -> false)
  | Failed -> (match y with
               | Failed -> true
               | _ -> false)
  | Unknown -> (match y with
                | Unknown -> true
                | _ -> false)

(** val skey : status -> positive **)

let skey = function
| Pending -> XH
| Allocated -> XO XH
| Pipelined -> XI XH
| Binding -> XO (XO XH)
| Bound -> XI (XO XH)
| Running -> XO (XI XH)
| Releasing -> XI (XI XH)
| Succeeded -> XO (XO (XO XH))
| Failed -> XI (XO (XO XH))
| Unknown -> XO (XI (XO XH))

(** val status_of_key : positive -> status option **)

let status_of_key = function
| XI p ->
  (match p with
   | XI p0 -> (match p0 with
               | XH -> Some Releasing
               | _ -> None)
   | XO p0 ->
     (match p0 with
      | XI _ -> None
      | XO p1 -> (match p1 with
                  | XH -> Some Failed
                  | _ -> None)
      | XH -> Some Bound)
   | XH -> Some Pipelined)
| XO p ->
  (match p with
   | XI p0 ->
     (match p0 with
      | XI _ -> None
      | XO p1 -> (match p1 with
                  | XH -> Some Unknown
                  | _ -> None)
      | XH -> Some Running)
   | XO p0 ->
     (match p0 with
      | XI _ -> None
      | XO p1 -> (match p1 with
                  | XH -> Some Succeeded
                  | _ -> None)
      | XH -> Some Binding)
   | XH -> Some Allocated)
| XH -> Some Pending

(** val allocated_status : status -> bool **)

let allocated_status = function
| Allocated -> true
| Binding -> true
| Bound -> true
| Running -> true
| _ -> false

type task = { t_id : positive; t_job : positive; t_sub : positive;
              t_role : positive; t_prio : z; t_req : res; t_init : res;
              t_best_effort : bool; t_preemptable : bool; t_status : 
              status; t_node : positive option }

(** val set_status : task -> status -> task **)

let set_status t s =
  { t_id = t.t_id; t_job = t.t_job; t_sub = t.t_sub; t_role = t.t_role;
    t_prio = t.t_prio; t_req = t.t_req; t_init = t.t_init; t_best_effort =
    t.t_best_effort; t_preemptable = t.t_preemptable; t_status = s; t_node =
    t.t_node }

(** val set_node : task -> positive option -> task **)

let set_node t n0 =
  { t_id = t.t_id; t_job = t.t_job; t_sub = t.t_sub; t_role = t.t_role;
    t_prio = t.t_prio; t_req = t.t_req; t_init = t.t_init; t_best_effort =
    t.t_best_effort; t_preemptable = t.t_preemptable; t_status = t.t_status;
    t_node = n0 }

(** val idx_add :
    (positive, positive gset) gmap -> status -> positive -> (positive,
    positive gset) gmap **)

let idx_add ix s t =
  insert0 (map_insert (gmap_partial_alter Coq0_Pos.eq_dec pos_countable))
    (skey s)
    (union0 (gset_union Coq0_Pos.eq_dec pos_countable)
      (singleton0 (gset_singleton Coq0_Pos.eq_dec pos_countable) t)
      (from_option (Obj.magic id)
        (empty0 (gset_empty Coq0_Pos.eq_dec pos_countable))
        (lookup0 (gmap_lookup Coq0_Pos.eq_dec pos_countable) (skey s) ix))) ix

(** val idx_del :
    (positive, positive gset) gmap -> status -> positive -> (positive,
    positive gset) gmap **)

let idx_del ix s t =
  match lookup0 (gmap_lookup Coq0_Pos.eq_dec pos_countable) (skey s) ix with
  | Some ts ->
    let ts' =
      difference0 (gset_difference Coq0_Pos.eq_dec pos_countable) ts
        (singleton0 (gset_singleton Coq0_Pos.eq_dec pos_countable) t)
    in
    if bool_decide
         (decide_rel (gset_eq_dec Coq0_Pos.eq_dec pos_countable) ts'
           (empty0 (gset_empty Coq0_Pos.eq_dec pos_countable)))
    then delete0
           (map_delete (gmap_partial_alter Coq0_Pos.eq_dec pos_countable))
           (skey s) ix
    else insert0
           (map_insert (gmap_partial_alter Coq0_Pos.eq_dec pos_countable))
           (skey s) ts' ix
  | None -> ix

type subjob = { sj_min : z; sj_tasks : positive gset;
                sj_index : (positive, positive gset) gmap }

type job = { j_id : positive; j_queue : positive; j_min : z;
             j_role_min : (positive, z) gmap; j_role_total : z;
             j_tasks : positive gset;
             j_index : (positive, positive gset) gmap; j_alloc : res;
             j_total : res; j_subs : (positive, subjob) gmap;
             j_task_sub : (positive, positive) gmap }

type node = { n_id : positive; n_has_node : bool; n_idle : res; n_used : 
              res; n_releasing : res; n_pipelined : res; n_alloc : res;
              n_tasks : (positive, task) gmap }

(** val empty_sub : job -> subjob **)

let empty_sub j =
  { sj_min = j.j_min; sj_tasks =
    (empty0 (gset_empty Coq0_Pos.eq_dec pos_countable)); sj_index =
    (empty0 (gmap_empty Coq0_Pos.eq_dec pos_countable)) }

(** val job_add : job -> task -> job **)

let job_add j t =
  let sj =
    from_option (Obj.magic id) (empty_sub j)
      (lookup0 (gmap_lookup Coq0_Pos.eq_dec pos_countable) t.t_sub j.j_subs)
  in
  { j_id = j.j_id; j_queue = j.j_queue; j_min = j.j_min; j_role_min =
  j.j_role_min; j_role_total = j.j_role_total; j_tasks =
  (union0 (gset_union Coq0_Pos.eq_dec pos_countable)
    (singleton0 (gset_singleton Coq0_Pos.eq_dec pos_countable) t.t_id)
    j.j_tasks); j_index = (idx_add j.j_index t.t_status t.t_id); j_alloc =
  (if allocated_status t.t_status then add0 j.j_alloc t.t_req else j.j_alloc);
  j_total = (add0 j.j_total t.t_req); j_subs =
  (insert0 (map_insert (gmap_partial_alter Coq0_Pos.eq_dec pos_countable))
    t.t_sub { sj_min = sj.sj_min; sj_tasks =
    (union0 (gset_union Coq0_Pos.eq_dec pos_countable)
      (singleton0 (gset_singleton Coq0_Pos.eq_dec pos_countable) t.t_id)
      sj.sj_tasks); sj_index = (idx_add sj.sj_index t.t_status t.t_id) }
    j.j_subs); j_task_sub =
  (insert0 (map_insert (gmap_partial_alter Coq0_Pos.eq_dec pos_countable))
    t.t_id t.t_sub j.j_task_sub) }

(** val job_del : job -> task -> job **)

let job_del j stored =
  let subs =
    match lookup0 (gmap_lookup Coq0_Pos.eq_dec pos_countable) stored.t_id
            j.j_task_sub with
    | Some sid ->
      (match lookup0 (gmap_lookup Coq0_Pos.eq_dec pos_countable) sid j.j_subs with
       | Some sj ->
         insert0
           (map_insert (gmap_partial_alter Coq0_Pos.eq_dec pos_countable))
           sid { sj_min = sj.sj_min; sj_tasks =
           (difference0 (gset_difference Coq0_Pos.eq_dec pos_countable)
             sj.sj_tasks
             (singleton0 (gset_singleton Coq0_Pos.eq_dec pos_countable)
               stored.t_id)); sj_index =
           (idx_del sj.sj_index stored.t_status stored.t_id) } j.j_subs
       | None -> j.j_subs)
    | None -> j.j_subs
  in
  { j_id = j.j_id; j_queue = j.j_queue; j_min = j.j_min; j_role_min =
  j.j_role_min; j_role_total = j.j_role_total; j_tasks =
  (difference0 (gset_difference Coq0_Pos.eq_dec pos_countable) j.j_tasks
    (singleton0 (gset_singleton Coq0_Pos.eq_dec pos_countable) stored.t_id));
  j_index = (idx_del j.j_index stored.t_status stored.t_id); j_alloc =
  (if allocated_status stored.t_status
   then sub0 j.j_alloc stored.t_req
   else j.j_alloc); j_total = (sub0 j.j_total stored.t_req); j_subs = subs;
  j_task_sub =
  (delete0 (map_delete (gmap_partial_alter Coq0_Pos.eq_dec pos_countable))
    stored.t_id j.j_task_sub) }

(** val job_update :
    (positive, task) gmap -> job -> task -> status -> job * task **)

let job_update heap0 j passed s =
  let j1 =
    if bool_decide
         (decide_rel (gset_elem_of_dec Coq0_Pos.eq_dec pos_countable)
           passed.t_id j.j_tasks)
    then (match lookup0 (gmap_lookup Coq0_Pos.eq_dec pos_countable)
                  passed.t_id heap0 with
          | Some stored -> job_del j stored
          | None -> j)
    else j
  in
  let p' = set_status passed s in ((job_add j1 p'), p')

type add_err =
| ErrDifferentNode
| ErrAlreadyOnNode
| ErrInsufficient

(** val node_with :
    node -> res -> res -> res -> res -> (positive, task) gmap -> node **)

let node_with n0 idle used rel pip ts =
  { n_id = n0.n_id; n_has_node = n0.n_has_node; n_idle = idle; n_used = used;
    n_releasing = rel; n_pipelined = pip; n_alloc = n0.n_alloc; n_tasks = ts }

(** val node_add : z -> node -> task -> (node * task, add_err) sum **)

let node_add eps n0 t =
  if bool_decide
       (and_dec (not_dec (option_eq_None_dec t.t_node))
         (not_dec
           (decide_rel (option_eq_dec Coq0_Pos.eq_dec) t.t_node (Some
             n0.n_id))))
  then Inr ErrDifferentNode
  else if bool_decide
            (is_Some_dec
              (lookup0 (gmap_lookup Coq0_Pos.eq_dec pos_countable) t.t_id
                n0.n_tasks))
       then Inr ErrAlreadyOnNode
       else let ti = set_node t (Some n0.n_id) in
            let r = t.t_req in
            let ok = fun n' -> Inl (n', (set_node t (Some n0.n_id))) in
            if negb n0.n_has_node
            then ok
                   (node_with n0 n0.n_idle n0.n_used n0.n_releasing
                     n0.n_pipelined
                     (insert0
                       (map_insert
                         (gmap_partial_alter Coq0_Pos.eq_dec pos_countable))
                       t.t_id ti n0.n_tasks))
            else (match t.t_status with
                  | Pipelined ->
                    ok
                      (node_with n0 n0.n_idle n0.n_used n0.n_releasing
                        (add0 n0.n_pipelined r)
                        (insert0
                          (map_insert
                            (gmap_partial_alter Coq0_Pos.eq_dec pos_countable))
                          t.t_id ti n0.n_tasks))
                  | Binding ->
                    if less_equal_names eps r n0.n_idle DZero
                    then ok
                           (node_with n0 (sub0 n0.n_idle r)
                             (add0 n0.n_used r) n0.n_releasing n0.n_pipelined
                             (insert0
                               (map_insert
                                 (gmap_partial_alter Coq0_Pos.eq_dec
                                   pos_countable)) t.t_id ti n0.n_tasks))
                    else Inr ErrInsufficient
                  | Releasing ->
                    ok
                      (node_with n0 (sub0 n0.n_idle r) (add0 n0.n_used r)
                        (add0 n0.n_releasing r) n0.n_pipelined
                        (insert0
                          (map_insert
                            (gmap_partial_alter Coq0_Pos.eq_dec pos_countable))
                          t.t_id ti n0.n_tasks))
                  | _ ->
                    ok
                      (node_with n0 (sub0 n0.n_idle r) (add0 n0.n_used r)
                        n0.n_releasing n0.n_pipelined
                        (insert0
                          (map_insert
                            (gmap_partial_alter Coq0_Pos.eq_dec pos_countable))
                          t.t_id ti n0.n_tasks)))

(** val node_remove : node -> positive -> node **)

let node_remove n0 tid =
  match lookup0 (gmap_lookup Coq0_Pos.eq_dec pos_countable) tid n0.n_tasks with
  | Some c ->
    let r = c.t_req in
    let ts =
      delete0 (map_delete (gmap_partial_alter Coq0_Pos.eq_dec pos_countable))
        tid n0.n_tasks
    in
    if negb n0.n_has_node
    then node_with n0 n0.n_idle n0.n_used n0.n_releasing n0.n_pipelined ts
    else (match c.t_status with
          | Pipelined ->
            node_with n0 n0.n_idle n0.n_used n0.n_releasing
              (sub0 n0.n_pipelined r) ts
          | Releasing ->
            node_with n0 (add0 n0.n_idle r) (sub0 n0.n_used r)
              (sub0 n0.n_releasing r) n0.n_pipelined ts
          | _ ->
            node_with n0 (add0 n0.n_idle r) (sub0 n0.n_used r) n0.n_releasing
              n0.n_pipelined ts)
  | None -> n0

(** val node_update : z -> node -> task -> (node * task, add_err) sum **)

let node_update eps n0 t =
  node_add eps (node_remove n0 t.t_id) t

(** val future_idle : node -> res **)

let future_idle n0 =
  sub0 (add0 n0.n_idle n0.n_releasing) n0.n_pipelined

type opkind =
| KEvict
| KPipeline
| KAllocate

(** val opkind_eq_dec : (opkind, opkind) relDecision **)

let opkind_eq_dec x y =
  match x with
  | KEvict -> (match y with
               | KEvict -> true
               | _ -> false)
  | KPipeline -> (match y with
                  | KPipeline -> true
                  | _ -> false)
  | KAllocate -> (match y with
                  | KAllocate -> true
                  | _ -> false)

type oprec = { op_kind : opkind; op_task : positive; op_prev : status }

type savedop = { so_kind : opkind; so_task : task; so_prev : status }

type hev = { he_alloc : bool; he_task : positive; he_status : status;
             he_node : positive option }

type sess = { heap : (positive, task) gmap; jobs : (positive, job) gmap;
              nodes : (positive, node) gmap; hshare : (positive, res) gmap;
              hlog : hev list; herr : positive gset;
              refuse_bind : positive gset; refuse_evict : positive gset;
              binds : (positive * positive option) list;
              evicts : positive list; stmts : (positive, oprec list) gmap;
              saved : (positive, savedop list) gmap; job_ready : bool }

(** val upd_heap : sess -> (positive, task) gmap -> sess **)

let upd_heap s h =
  { heap = h; jobs = s.jobs; nodes = s.nodes; hshare = s.hshare; hlog =
    s.hlog; herr = s.herr; refuse_bind = s.refuse_bind; refuse_evict =
    s.refuse_evict; binds = s.binds; evicts = s.evicts; stmts = s.stmts;
    saved = s.saved; job_ready = s.job_ready }

(** val upd_jobs : sess -> (positive, job) gmap -> sess **)

let upd_jobs s j =
  { heap = s.heap; jobs = j; nodes = s.nodes; hshare = s.hshare; hlog =
    s.hlog; herr = s.herr; refuse_bind = s.refuse_bind; refuse_evict =
    s.refuse_evict; binds = s.binds; evicts = s.evicts; stmts = s.stmts;
    saved = s.saved; job_ready = s.job_ready }

(** val upd_nodes : sess -> (positive, node) gmap -> sess **)

let upd_nodes s n0 =
  { heap = s.heap; jobs = s.jobs; nodes = n0; hshare = s.hshare; hlog =
    s.hlog; herr = s.herr; refuse_bind = s.refuse_bind; refuse_evict =
    s.refuse_evict; binds = s.binds; evicts = s.evicts; stmts = s.stmts;
    saved = s.saved; job_ready = s.job_ready }

(** val upd_handlers : sess -> (positive, res) gmap -> hev list -> sess **)

let upd_handlers s sh l =
  { heap = s.heap; jobs = s.jobs; nodes = s.nodes; hshare = sh; hlog = l;
    herr = s.herr; refuse_bind = s.refuse_bind; refuse_evict =
    s.refuse_evict; binds = s.binds; evicts = s.evicts; stmts = s.stmts;
    saved = s.saved; job_ready = s.job_ready }

(** val upd_logs :
    sess -> (positive * positive option) list -> positive list -> sess **)

let upd_logs s b e =
  { heap = s.heap; jobs = s.jobs; nodes = s.nodes; hshare = s.hshare; hlog =
    s.hlog; herr = s.herr; refuse_bind = s.refuse_bind; refuse_evict =
    s.refuse_evict; binds = b; evicts = e; stmts = s.stmts; saved = s.saved;
    job_ready = s.job_ready }

(** val upd_stmts : sess -> (positive, oprec list) gmap -> sess **)

let upd_stmts s st =
  { heap = s.heap; jobs = s.jobs; nodes = s.nodes; hshare = s.hshare; hlog =
    s.hlog; herr = s.herr; refuse_bind = s.refuse_bind; refuse_evict =
    s.refuse_evict; binds = s.binds; evicts = s.evicts; stmts = st; saved =
    s.saved; job_ready = s.job_ready }

(** val put_task : sess -> task -> sess **)

let put_task s t =
  upd_heap s
    (insert0 (map_insert (gmap_partial_alter Coq0_Pos.eq_dec pos_countable))
      t.t_id t s.heap)

(** val ssn_update_status : sess -> task -> status -> (bool * sess) * task **)

let ssn_update_status s p st =
  match lookup0 (gmap_lookup Coq0_Pos.eq_dec pos_countable) p.t_job s.jobs with
  | Some j ->
    let (j', p') = job_update s.heap j p st in
    ((true,
    (put_task
      (upd_jobs s
        (insert0
          (map_insert (gmap_partial_alter Coq0_Pos.eq_dec pos_countable))
          p.t_job j' s.jobs)) p')), p')
  | None -> ((false, s), p)

(** val h_alloc : sess -> task -> bool * sess **)

let h_alloc s p =
  let cur =
    from_option (Obj.magic id) empty_res
      (lookup0 (gmap_lookup Coq0_Pos.eq_dec pos_countable) p.t_job s.hshare)
  in
  ((bool_decide
     (decide_rel (gset_elem_of_dec Coq0_Pos.eq_dec pos_countable) p.t_id
       s.herr)),
  (upd_handlers s
    (insert0 (map_insert (gmap_partial_alter Coq0_Pos.eq_dec pos_countable))
      p.t_job (add0 cur p.t_req) s.hshare) ({ he_alloc = true; he_task =
    p.t_id; he_status = p.t_status; he_node = p.t_node } :: s.hlog)))

(** val h_dealloc : sess -> task -> sess **)

let h_dealloc s p =
  let cur =
    from_option (Obj.magic id) empty_res
      (lookup0 (gmap_lookup Coq0_Pos.eq_dec pos_countable) p.t_job s.hshare)
  in
  upd_handlers s
    (insert0 (map_insert (gmap_partial_alter Coq0_Pos.eq_dec pos_countable))
      p.t_job (sub0 cur p.t_req) s.hshare) ({ he_alloc = false; he_task =
    p.t_id; he_status = p.t_status; he_node = p.t_node } :: s.hlog)

(** val ssn_node_remove : sess -> task -> sess **)

let ssn_node_remove s p =
  match p.t_node with
  | Some nid ->
    (match lookup0 (gmap_lookup Coq0_Pos.eq_dec pos_countable) nid s.nodes with
     | Some n0 ->
       upd_nodes s
         (insert0
           (map_insert (gmap_partial_alter Coq0_Pos.eq_dec pos_countable))
           nid (node_remove n0 p.t_id) s.nodes)
     | None -> s)
  | None -> s

(** val ssn_node_update : z -> sess -> task -> (sess * task) * bool **)

let ssn_node_update eps s p =
  match p.t_node with
  | Some nid ->
    (match lookup0 (gmap_lookup Coq0_Pos.eq_dec pos_countable) nid s.nodes with
     | Some n0 ->
       (match node_update eps n0 p with
        | Inl p0 ->
          let (n', p') = p0 in
          (((put_task
              (upd_nodes s
                (insert0
                  (map_insert
                    (gmap_partial_alter Coq0_Pos.eq_dec pos_countable)) nid
                  n' s.nodes)) p'), p'), false)
        | Inr _ ->
          (((upd_nodes s
              (insert0
                (map_insert
                  (gmap_partial_alter Coq0_Pos.eq_dec pos_countable)) nid
                (node_remove n0 p.t_id) s.nodes)), p), true))
     | None -> ((s, p), false))
  | None -> ((s, p), false)

(** val unallocate_with : sess -> task -> sess **)

let unallocate_with s p =
  let (p0, p1) = ssn_update_status s p Pending in
  let (_, s1) = p0 in
  let s2 = ssn_node_remove s1 p1 in
  let s3 = h_dealloc s2 p1 in put_task s3 (set_node p1 None)

(** val unpipeline_with : sess -> task -> sess **)

let unpipeline_with =
  unallocate_with

(** val restore_status : status -> status **)

let restore_status = function
| Bound -> Bound
| _ -> Running

(** val unevict_with : z -> sess -> task -> status -> sess * bool **)

let unevict_with eps s p prev =
  let (p0, p1) = ssn_update_status s p (restore_status prev) in
  let (_, s1) = p0 in
  let (p2, fatal) = ssn_node_update eps s1 p1 in
  let (s2, p3) = p2 in let (_, s3) = h_alloc s2 p3 in (s3, fatal)

(** val push_op : sess -> positive -> opkind -> positive -> status -> sess **)

let push_op s sid k tid prev =
  upd_stmts s
    (insert0 (map_insert (gmap_partial_alter Coq0_Pos.eq_dec pos_countable))
      sid
      (app
        (from_option (Obj.magic id) []
          (lookup0 (gmap_lookup Coq0_Pos.eq_dec pos_countable) sid s.stmts))
        ({ op_kind = k; op_task = tid; op_prev = prev } :: [])) s.stmts)

type result =
| ROk
| RErr
| RFatal
| RNoTask

(** val place_with :
    z -> sess -> positive -> opkind -> task -> positive -> sess * result **)

let place_with eps s sid k p nid =
  let st = match k with
           | KAllocate -> Allocated
           | _ -> Pipelined in
  let (p0, p1) = ssn_update_status s p st in
  let (found, s1) = p0 in
  let p2 = set_node p1 (Some nid) in
  let s2 = put_task s1 p2 in
  (match lookup0 (gmap_lookup Coq0_Pos.eq_dec pos_countable) nid s2.nodes with
   | Some n0 ->
     (match node_add eps n0 p2 with
      | Inl p3 ->
        let (n', p') = p3 in
        let p4 =
          ((put_task
             (upd_nodes s2
               (insert0
                 (map_insert
                   (gmap_partial_alter Coq0_Pos.eq_dec pos_countable)) nid n'
                 s2.nodes)) p'), p')
        in
        let nodeok = true in
        let (s3, p5) = p4 in
        let (herr_, s4) = h_alloc s3 p5 in
        if (&&) ((&&) found nodeok) (negb herr_)
        then ((push_op s4 sid k p.t_id Pending), ROk)
        else ((unallocate_with s4 p5), RErr)
      | Inr _ ->
        let p3 = (s2, p2) in
        let nodeok = false in
        let (s3, p4) = p3 in
        let (herr_, s4) = h_alloc s3 p4 in
        if (&&) ((&&) found nodeok) (negb herr_)
        then ((push_op s4 sid k p.t_id Pending), ROk)
        else ((unallocate_with s4 p4), RErr))
   | None ->
     let p3 = (s2, p2) in
     let nodeok = false in
     let (s3, p4) = p3 in
     let (herr_, s4) = h_alloc s3 p4 in
     if (&&) ((&&) found nodeok) (negb herr_)
     then ((push_op s4 sid k p.t_id Pending), ROk)
     else ((unallocate_with s4 p4), RErr))

(** val with_task :
    sess -> positive -> (task -> sess * result) -> sess * result **)

let with_task s tid f =
  match lookup0 (gmap_lookup Coq0_Pos.eq_dec pos_countable) tid s.heap with
  | Some p -> f p
  | None -> (s, RNoTask)

(** val stmt_allocate :
    z -> sess -> positive -> positive -> positive -> sess * result **)

let stmt_allocate eps s sid tid nid =
  with_task s tid (fun p -> place_with eps s sid KAllocate p nid)

(** val stmt_pipeline :
    z -> sess -> positive -> positive -> positive -> sess * result **)

let stmt_pipeline eps s sid tid nid =
  with_task s tid (fun p -> place_with eps s sid KPipeline p nid)

(** val undo_op : z -> sess -> oprec -> sess **)

let undo_op eps s o =
  match lookup0 (gmap_lookup Coq0_Pos.eq_dec pos_countable) o.op_task s.heap with
  | Some p ->
    (match o.op_kind with
     | KEvict -> fst (unevict_with eps s p o.op_prev)
     | KPipeline -> unpipeline_with s p
     | KAllocate -> unallocate_with s p)
  | None -> s

(** val stmt_discard : z -> sess -> positive -> sess **)

let stmt_discard eps s sid =
  let ops =
    from_option (Obj.magic id) []
      (lookup0 (gmap_lookup Coq0_Pos.eq_dec pos_countable) sid s.stmts)
  in
  let s' = fold_left (undo_op eps) (rev ops) s in
  upd_stmts s'
    (insert0 (map_insert (gmap_partial_alter Coq0_Pos.eq_dec pos_countable))
      sid [] s'.stmts)

(** val commit_op : z -> sess -> oprec -> sess **)

let commit_op eps s o =
  match lookup0 (gmap_lookup Coq0_Pos.eq_dec pos_countable) o.op_task s.heap with
  | Some p ->
    (match o.op_kind with
     | KEvict ->
       if bool_decide
            (decide_rel (gset_elem_of_dec Coq0_Pos.eq_dec pos_countable)
              p.t_id s.refuse_evict)
       then fst (unevict_with eps s p o.op_prev)
       else upd_logs s s.binds (p.t_id :: s.evicts)
     | KPipeline -> s
     | KAllocate ->
       if bool_decide
            (decide_rel (gset_elem_of_dec Coq0_Pos.eq_dec pos_countable)
              p.t_id s.refuse_bind)
       then unallocate_with s p
       else let s1 = upd_logs s ((p.t_id, p.t_node) :: s.binds) s.evicts in
            let (p0, p2) = ssn_update_status s1 p Binding in
            let (found, s2) = p0 in
            if found then s2 else unallocate_with s2 p2)
  | None -> s

(** val stmt_commit : z -> sess -> positive -> sess **)

let stmt_commit eps s sid =
  let ops =
    from_option (Obj.magic id) []
      (lookup0 (gmap_lookup Coq0_Pos.eq_dec pos_countable) sid s.stmts)
  in
  let s' = fold_left (commit_op eps) ops s in
  upd_stmts s'
    (insert0 (map_insert (gmap_partial_alter Coq0_Pos.eq_dec pos_countable))
      sid [] s'.stmts)

(** val dispatch : sess -> positive -> sess * bool **)

let dispatch s tid =
  match lookup0 (gmap_lookup Coq0_Pos.eq_dec pos_countable) tid s.heap with
  | Some p ->
    if bool_decide
         (decide_rel (gset_elem_of_dec Coq0_Pos.eq_dec pos_countable) tid
           s.refuse_bind)
    then (s, false)
    else let s1 = upd_logs s ((tid, p.t_node) :: s.binds) s.evicts in
         let (p0, _) = ssn_update_status s1 p Binding in
         let (found, s2) = p0 in (s2, found)
  | None -> (s, true)

(** val dispatch_all : sess -> positive list -> sess * bool **)

let rec dispatch_all s = function
| [] -> (s, true)
| t :: r ->
  let (s1, ok) = dispatch s t in
  if ok
  then dispatch_all s1 r
  else ((match lookup0 (gmap_lookup Coq0_Pos.eq_dec pos_countable) t s1.heap with
         | Some p -> unallocate_with s1 p
         | None -> s1), false)

(** val ssn_place_with :
    z -> (sess -> job -> bool) -> sess -> opkind -> positive -> positive ->
    sess * result **)

let ssn_place_with eps jr s k tid nid =
  match lookup0 (gmap_lookup Coq0_Pos.eq_dec pos_countable) tid s.heap with
  | Some p ->
    let st = match k with
             | KAllocate -> Allocated
             | _ -> Pipelined in
    let (p0, p1) = ssn_update_status s p st in
    let (found, s1) = p0 in
    if negb found
    then (s, RErr)
    else let p2 = set_node p1 (Some nid) in
         let s2 = put_task s1 p2 in
         let revert =
           let (p3, pr) = ssn_update_status s2 p2 Pending in
           let (_, sr) = p3 in put_task sr (set_node pr None)
         in
         (match lookup0 (gmap_lookup Coq0_Pos.eq_dec pos_countable) nid
                  s2.nodes with
          | Some n0 ->
            (match node_add eps n0 p2 with
             | Inl p3 ->
               let (n', p4) = p3 in
               let s3 =
                 put_task
                   (upd_nodes s2
                     (insert0
                       (map_insert
                         (gmap_partial_alter Coq0_Pos.eq_dec pos_countable))
                       nid n' s2.nodes)) p4
               in
               let (_, s4) = h_alloc s3 p4 in
               (match k with
                | KAllocate ->
                  (match lookup0 (gmap_lookup Coq0_Pos.eq_dec pos_countable)
                           p.t_job s4.jobs with
                   | Some j ->
                     if jr s4 j
                     then let (s5, ok) =
                            dispatch_all s4
                              (elements0
                                (gset_elements Coq0_Pos.eq_dec pos_countable)
                                (from_option (Obj.magic id)
                                  (empty0
                                    (gset_empty Coq0_Pos.eq_dec pos_countable))
                                  (lookup0
                                    (gmap_lookup Coq0_Pos.eq_dec
                                      pos_countable) (skey Allocated)
                                    j.j_index)))
                          in
                          (s5, (if ok then ROk else RErr))
                     else (s4, ROk)
                   | None -> (s4, ROk))
                | _ -> (s4, ROk))
             | Inr _ -> (revert, RErr))
          | None -> (revert, RErr))
  | None -> (s, RNoTask)

(** val grid : z **)

let grid =
  Zpos (XO (XO (XO (XO XH))))

(** val mk_req : z -> z -> z -> res **)

let mk_req c m g =
  { cpu = (Z.mul c grid); mem = (Z.mul m grid); sc = (Some
    (if bool_decide (decide_rel Coq_Z.lt_dec Z0 g)
     then insert0
            (map_insert (gmap_partial_alter Coq0_Pos.eq_dec pos_countable))
            (XO (XO XH))
            (Z.mul
              (Z.mul g (Zpos (XO (XO (XO (XI (XO (XI (XI (XI (XI XH)))))))))))
              grid)
            (singletonM0
              (map_singleton
                (gmap_partial_alter Coq0_Pos.eq_dec pos_countable)
                (gmap_empty Coq0_Pos.eq_dec pos_countable)) XH grid)
     else singletonM0
            (map_singleton (gmap_partial_alter Coq0_Pos.eq_dec pos_countable)
              (gmap_empty Coq0_Pos.eq_dec pos_countable)) XH grid)) }

(** val mk_alloc : z -> z -> z -> z -> res **)

let mk_alloc c m p g =
  { cpu = (Z.mul c grid); mem = (Z.mul m grid); sc = (Some
    (if bool_decide (decide_rel Coq_Z.lt_dec Z0 g)
     then insert0
            (map_insert (gmap_partial_alter Coq0_Pos.eq_dec pos_countable))
            (XO (XO XH))
            (Z.mul
              (Z.mul g (Zpos (XO (XO (XO (XI (XO (XI (XI (XI (XI XH)))))))))))
              grid)
            (singletonM0
              (map_singleton
                (gmap_partial_alter Coq0_Pos.eq_dec pos_countable)
                (gmap_empty Coq0_Pos.eq_dec pos_countable)) XH (Z.mul p grid))
     else singletonM0
            (map_singleton (gmap_partial_alter Coq0_Pos.eq_dec pos_countable)
              (gmap_empty Coq0_Pos.eq_dec pos_countable)) XH (Z.mul p grid))) }

(** val dStatus : status dec **)

let dStatus =
  bind dPos (fun k ->
    match status_of_key k with
    | Some s -> ret s
    | None -> fail)

(** val dNodeRef : positive option dec **)

let dNodeRef =
  bind dZ (fun k -> ret (if Z.leb k Z0 then None else Some (Z.to_pos k)))

(** val eNodeRef : positive option -> z list **)

let eNodeRef = function
| Some k -> (Zpos k) :: []
| None -> Z0 :: []

type task_spec = { ts_id : positive; ts_job : positive; ts_role : positive;
                   ts_prio : z; ts_cpu : z; ts_mem : z; ts_gpu : z;
                   ts_status : status; ts_node : positive option;
                   ts_preempt : bool }

type node_spec = { ns_id : positive; ns_has : bool; ns_cpu : z; ns_mem : 
                   z; ns_pods : z; ns_gpu : z }

type job_spec = { js_id : positive; js_queue : positive; js_min : z;
                  js_role_min : (positive * z) list }

(** val dTaskSpec : task_spec dec **)

let dTaskSpec =
  bind dPos (fun i ->
    bind dPos (fun j ->
      bind dPos (fun r ->
        bind dZ (fun p ->
          bind dZ (fun c ->
            bind dZ (fun m ->
              bind dZ (fun g ->
                bind dStatus (fun s ->
                  bind dNodeRef (fun n0 ->
                    bind dBool (fun pr ->
                      ret { ts_id = i; ts_job = j; ts_role = r; ts_prio = p;
                        ts_cpu = c; ts_mem = m; ts_gpu = g; ts_status = s;
                        ts_node = n0; ts_preempt = pr }))))))))))

(** val dNodeSpec : node_spec dec **)

let dNodeSpec =
  bind dPos (fun i ->
    bind dBool (fun h ->
      bind dZ (fun c ->
        bind dZ (fun m ->
          bind dZ (fun p ->
            bind dZ (fun g ->
              ret { ns_id = i; ns_has = h; ns_cpu = c; ns_mem = m; ns_pods =
                p; ns_gpu = g }))))))

(** val dJobSpec : job_spec dec **)

let dJobSpec =
  bind dPos (fun i ->
    bind dPos (fun q ->
      bind dZ (fun m ->
        bind (dList (dPair dPos dZ)) (fun rm ->
          ret { js_id = i; js_queue = q; js_min = m; js_role_min = rm }))))

(** val task_of_spec : z -> task_spec -> task **)

let task_of_spec eps t =
  let r = mk_req t.ts_cpu t.ts_mem t.ts_gpu in
  { t_id = t.ts_id; t_job = t.ts_job; t_sub = XH; t_role = t.ts_role;
  t_prio = t.ts_prio; t_req = r; t_init = r; t_best_effort =
  (is_empty eps r); t_preemptable = t.ts_preempt; t_status = t.ts_status;
  t_node = t.ts_node }

(** val empty_job : job_spec -> job **)

let empty_job j =
  { j_id = j.js_id; j_queue = j.js_queue; j_min = j.js_min; j_role_min =
    (list_to_map
      (map_insert (gmap_partial_alter Coq0_Pos.eq_dec pos_countable))
      (gmap_empty Coq0_Pos.eq_dec pos_countable) j.js_role_min);
    j_role_total =
    (fold_left (fun acc kv -> Z.add acc (snd kv)) j.js_role_min Z0);
    j_tasks = (empty0 (gset_empty Coq0_Pos.eq_dec pos_countable)); j_index =
    (empty0 (gmap_empty Coq0_Pos.eq_dec pos_countable)); j_alloc = empty_res;
    j_total = empty_res; j_subs =
    (empty0 (gmap_empty Coq0_Pos.eq_dec pos_countable)); j_task_sub =
    (empty0 (gmap_empty Coq0_Pos.eq_dec pos_countable)) }

(** val empty_node : node_spec -> node **)

let empty_node n0 =
  let a =
    if n0.ns_has
    then mk_alloc n0.ns_cpu n0.ns_mem n0.ns_pods n0.ns_gpu
    else empty_res
  in
  { n_id = n0.ns_id; n_has_node = n0.ns_has; n_idle = a; n_used = empty_res;
  n_releasing = empty_res; n_pipelined = empty_res; n_alloc = a; n_tasks =
  (empty0 (gmap_empty Coq0_Pos.eq_dec pos_countable)) }

(** val on_node_status : status -> bool **)

let on_node_status = function
| Succeeded -> false
| Failed -> false
| _ -> true

(** val build :
    z -> node_spec list -> job_spec list -> task_spec list -> sess **)

let build eps nodes0 jobsl tasks =
  let ts = map (task_of_spec eps) tasks in
  let heap0 =
    list_to_map
      (map_insert (gmap_partial_alter Coq0_Pos.eq_dec pos_countable))
      (gmap_empty Coq0_Pos.eq_dec pos_countable)
      (map (fun t -> (t.t_id, t)) ts)
  in
  let jobs0 =
    list_to_map
      (map_insert (gmap_partial_alter Coq0_Pos.eq_dec pos_countable))
      (gmap_empty Coq0_Pos.eq_dec pos_countable)
      (map (fun j -> (j.js_id,
        (fold_left (fun acc t ->
          if bool_decide (decide_rel Coq0_Pos.eq_dec t.t_job j.js_id)
          then job_add acc t
          else acc) ts (empty_job j)))) jobsl)
  in
  let nodes1 =
    list_to_map
      (map_insert (gmap_partial_alter Coq0_Pos.eq_dec pos_countable))
      (gmap_empty Coq0_Pos.eq_dec pos_countable)
      (map (fun n0 -> (n0.ns_id,
        (fold_left (fun acc t ->
          if (&&)
               (bool_decide
                 (decide_rel (option_eq_dec Coq0_Pos.eq_dec) t.t_node (Some
                   n0.ns_id))) (on_node_status t.t_status)
          then (match node_add eps acc t with
                | Inl p -> let (acc', _) = p in acc'
                | Inr _ -> acc)
          else acc) ts (empty_node n0)))) nodes0)
  in
  let share0 =
    fold_left (fun acc t ->
      if (&&) (allocated_status t.t_status)
           (bool_decide
             (is_Some_dec
               (lookup0 (gmap_lookup Coq0_Pos.eq_dec pos_countable) t.t_job
                 jobs0)))
      then insert0
             (map_insert
               (Obj.magic gmap_partial_alter Coq0_Pos.eq_dec pos_countable))
             t.t_job
             (add0
               (from_option (Obj.magic id) empty_res
                 (lookup0 (gmap_lookup Coq0_Pos.eq_dec pos_countable) t.t_job
                   acc)) t.t_req) acc
      else acc) ts (empty0 (gmap_empty Coq0_Pos.eq_dec pos_countable))
  in
  { heap = heap0; jobs = jobs0; nodes = nodes1; hshare = (Obj.magic share0);
  hlog = []; herr = (empty0 (gset_empty Coq0_Pos.eq_dec pos_countable));
  refuse_bind = (empty0 (gset_empty Coq0_Pos.eq_dec pos_countable));
  refuse_evict = (empty0 (gset_empty Coq0_Pos.eq_dec pos_countable)); binds =
  []; evicts = []; stmts =
  (empty0 (gmap_empty Coq0_Pos.eq_dec pos_countable)); saved =
  (empty0 (gmap_empty Coq0_Pos.eq_dec pos_countable)); job_ready = true }

(** val eSet : positive gset -> z list **)

let eSet x =
  eList ePos
    (sort_pos (elements0 (gset_elements Coq0_Pos.eq_dec pos_countable) x))

(** val eIndex : (positive, positive gset) gmap -> z list **)

let eIndex ix =
  eList (fun kv -> (Zpos (fst kv)) :: (eSet (snd kv)))
    (sort_kv (map_to_list (gmap_to_list Coq0_Pos.eq_dec pos_countable) ix))

(** val eTaskBrief : task -> z list **)

let eTaskBrief t =
  app ((Zpos t.t_id) :: ((Zpos (skey t.t_status)) :: [])) (eNodeRef t.t_node)

(** val eJob : job -> z list **)

let eJob j =
  app ((Zpos j.j_id) :: [])
    (app (eSet j.j_tasks)
      (app (eIndex j.j_index)
        (app (eRes j.j_alloc)
          (app (eRes j.j_total)
            (eList (fun kv -> (Zpos
              (fst kv)) :: (app (eSet (snd kv).sj_tasks)
                             (eIndex (snd kv).sj_index)))
              (sort_kv
                (map_to_list (gmap_to_list Coq0_Pos.eq_dec pos_countable)
                  j.j_subs)))))))

(** val eNode : node -> z list **)

let eNode n0 =
  app ((Zpos n0.n_id) :: [])
    (app (eRes n0.n_idle)
      (app (eRes n0.n_used)
        (app (eRes n0.n_releasing)
          (app (eRes n0.n_pipelined)
            (eList (fun kv -> eTaskBrief (snd kv))
              (sort_kv
                (map_to_list (gmap_to_list Coq0_Pos.eq_dec pos_countable)
                  n0.n_tasks)))))))

(** val res_keys : res list -> positive list **)

let res_keys l =
  map fst
    (map_to_list (gmap_to_list Coq0_Pos.eq_dec pos_countable)
      (fold_right (fun r acc ->
        union0
          (map_union
            (Obj.magic (fun _ _ _ ->
              gmap_merge Coq0_Pos.eq_dec pos_countable))) (scm r) acc)
        (empty0 (gmap_empty Coq0_Pos.eq_dec pos_countable)) l))

(** val sum_req : task list -> res **)

let sum_req l =
  fold_right (fun t acc -> add0 acc t.t_req) empty_res l

(** val idx_set :
    (positive, positive gset) gmap -> status -> positive gset **)

let idx_set ix s =
  from_option (Obj.magic id)
    (empty0 (gset_empty Coq0_Pos.eq_dec pos_countable))
    (lookup0 (gmap_lookup Coq0_Pos.eq_dec pos_countable) (skey s) ix)

(** val idx_count : (positive, positive gset) gmap -> status -> z **)

let idx_count ix s =
  Z.of_nat
    (size0 (set_size (gset_elements Coq0_Pos.eq_dec pos_countable))
      (idx_set ix s))

(** val ready_num : (positive, positive gset) gmap -> z **)

let ready_num ix =
  Z.add
    (Z.add
      (Z.add (Z.add (idx_count ix Bound) (idx_count ix Binding))
        (idx_count ix Running)) (idx_count ix Allocated))
    (idx_count ix Succeeded)

(** val waiting_num : (positive, positive gset) gmap -> z **)

let waiting_num ix =
  idx_count ix Pipelined

(** val is_best_effort : (positive, task) gmap -> positive -> bool **)

let is_best_effort heap0 i =
  match lookup0 (gmap_lookup Coq0_Pos.eq_dec pos_countable) i heap0 with
  | Some t -> t.t_best_effort
  | None -> false

(** val count_set : (positive -> bool) -> positive gset -> z **)

let count_set p x =
  Z.of_nat
    (length
      (filter1 (fun _ -> list_filter) (fun x0 ->
        decide_rel bool_eq_dec (p x0) true)
        (elements0 (gset_elements Coq0_Pos.eq_dec pos_countable) x)))

(** val pending_be_num :
    (positive, task) gmap -> (positive, positive gset) gmap -> z **)

let pending_be_num heap0 ix =
  count_set (is_best_effort heap0) (idx_set ix Pending)

(** val is_ready :
    (positive, task) gmap -> (positive, positive gset) gmap -> z -> bool **)

let is_ready heap0 ix m =
  bool_decide
    (decide_rel Coq_Z.le_dec m
      (Z.add (ready_num ix) (pending_be_num heap0 ix)))

(** val is_pipelined :
    (positive, task) gmap -> (positive, positive gset) gmap -> z -> bool **)

let is_pipelined heap0 ix m =
  bool_decide
    (decide_rel Coq_Z.le_dec m
      (Z.add (Z.add (waiting_num ix) (ready_num ix))
        (pending_be_num heap0 ix)))

(** val has_role : (positive, task) gmap -> positive -> positive -> bool **)

let has_role heap0 r i =
  match lookup0 (gmap_lookup Coq0_Pos.eq_dec pos_countable) i heap0 with
  | Some t -> bool_decide (decide_rel Coq0_Pos.eq_dec t.t_role r)
  | None -> false

(** val role_occupied :
    (positive, task) gmap -> (positive, positive gset) gmap -> bool ->
    positive -> z **)

let role_occupied heap0 ix with_pipelined r =
  Z.add
    (Z.add
      (Z.add
        (Z.add
          (Z.add
            (Z.add (count_set (has_role heap0 r) (idx_set ix Bound))
              (count_set (has_role heap0 r) (idx_set ix Binding)))
            (count_set (has_role heap0 r) (idx_set ix Running)))
          (count_set (has_role heap0 r) (idx_set ix Allocated)))
        (count_set (has_role heap0 r) (idx_set ix Succeeded)))
      (if with_pipelined
       then count_set (has_role heap0 r) (idx_set ix Pipelined)
       else Z0))
    (count_set (fun i -> (&&) (has_role heap0 r i) (is_best_effort heap0 i))
      (idx_set ix Pending))

(** val roles_ok : (positive, task) gmap -> job -> bool -> bool **)

let roles_ok heap0 j with_pipelined =
  if bool_decide (decide_rel Coq_Z.lt_dec j.j_min j.j_role_total)
  then true
  else bool_decide
         (map_Forall_dec
           (Obj.magic (fun _ _ -> gmap_fmap Coq0_Pos.eq_dec pos_countable))
           (Obj.magic (fun _ -> gmap_lookup Coq0_Pos.eq_dec pos_countable))
           (fun _ -> gmap_empty Coq0_Pos.eq_dec pos_countable)
           (Obj.magic (fun _ ->
             gmap_partial_alter Coq0_Pos.eq_dec pos_countable))
           (Obj.magic (fun _ _ -> gmap_omap Coq0_Pos.eq_dec pos_countable))
           (Obj.magic (fun _ _ _ -> gmap_merge Coq0_Pos.eq_dec pos_countable))
           (Obj.magic (fun _ -> gmap_to_list Coq0_Pos.eq_dec pos_countable))
           Coq0_Pos.eq_dec (fun i x ->
           decide_rel bool_eq_dec
             (bool_decide
               (decide_rel Coq_Z.le_dec x
                 (role_occupied heap0 j.j_index with_pipelined i))) true)
           j.j_role_min)

(** val check_task_ready : (positive, task) gmap -> job -> bool **)

let check_task_ready heap0 j =
  roles_ok heap0 j false

(** val check_task_pipelined : (positive, task) gmap -> job -> bool **)

let check_task_pipelined heap0 j =
  roles_ok heap0 j true

(** val gang_job_ready : (positive, task) gmap -> job -> bool **)

let gang_job_ready heap0 j =
  (&&) (check_task_ready heap0 j) (is_ready heap0 j.j_index j.j_min)

(** val gang_job_pipelined : (positive, task) gmap -> job -> bool **)

let gang_job_pipelined heap0 j =
  (&&) (check_task_pipelined heap0 j) (is_pipelined heap0 j.j_index j.j_min)

(** val gang_sub_ready : (positive, task) gmap -> job -> bool **)

let gang_sub_ready =
  gang_job_ready

(** val gang_sub_pipelined : (positive, task) gmap -> job -> bool **)

let gang_sub_pipelined =
  gang_job_pipelined

type qattr = { q_open : bool; q_limit : res; q_has_plugin : bool }

type world = { w_sess : sess; w_queues : (positive, qattr) gmap;
               w_next_stmt : positive }

(** val queue_allocatable : world -> res -> qattr -> task -> bool **)

let queue_allocatable _ allocated q t =
  if negb q.q_has_plugin
  then true
  else (&&) q.q_open (le_dim (add0 allocated t.t_req) q.q_limit t.t_req)

type placement =
| PlacedAlloc
| PlacedPipe
| PlacedNone
| PlaceRefused

(** val try_place :
    z -> sess -> positive -> positive -> positive -> sess * placement **)

let try_place eps s sid tid nid =
  match lookup0 (gmap_lookup Coq0_Pos.eq_dec pos_countable) tid s.heap with
  | Some p ->
    (match lookup0 (gmap_lookup Coq0_Pos.eq_dec pos_countable) nid s.nodes with
     | Some n0 ->
       if negb (less_equal_names eps p.t_init (future_idle n0) DZero)
       then (s, PlacedNone)
       else if less_equal eps p.t_init n0.n_idle DZero
            then let (s', r) = stmt_allocate eps s sid tid nid in
                 (s', (match r with
                       | ROk -> PlacedAlloc
                       | _ -> PlaceRefused))
            else if less_equal eps p.t_init (future_idle n0) DZero
                 then let (s', r) = stmt_pipeline eps s sid tid nid in
                      (s',
                      (match r with
                       | ROk -> PlacedPipe
                       | _ -> PlaceRefused))
                 else (s, PlacedNone)
     | None -> (s, PlaceRefused))
  | None -> (s, PlaceRefused)

type decision0 =
| DCommit
| DKeep
| DDiscard

(** val decide0 : sess -> positive -> decision0 **)

let decide0 s jid =
  match lookup0 (gmap_lookup Coq0_Pos.eq_dec pos_countable) jid s.jobs with
  | Some j ->
    if (||) (gang_sub_ready s.heap j) (gang_sub_pipelined s.heap j)
    then if gang_job_ready s.heap j then DCommit else DKeep
    else DDiscard
  | None -> DDiscard

type cop =
| CAttempt of positive * (positive * positive) list
| CBackfill of positive * positive

type verdict =
| VOk
| VQueueRefuses of positive
| VNotPending of positive
| VNotBestEffort of positive

(** val share_of : sess -> positive -> res **)

let share_of s qid =
  map_fold (gmap_to_list Coq0_Pos.eq_dec pos_countable) (fun jid r acc ->
    match lookup0 (gmap_lookup Coq0_Pos.eq_dec pos_countable) jid s.jobs with
    | Some j ->
      if bool_decide (decide_rel Coq0_Pos.eq_dec j.j_queue qid)
      then add0 acc r
      else acc
    | None -> acc) empty_res s.hshare

(** val do_places :
    z -> world -> sess -> positive -> positive -> (positive * positive) list
    -> sess * verdict **)

let rec do_places eps w s sid jid = function
| [] -> (s, VOk)
| p :: r ->
  let (tid, nid) = p in
  (match lookup0 (gmap_lookup Coq0_Pos.eq_dec pos_countable) tid s.heap with
   | Some p0 ->
     if negb
          ((&&) (bool_decide (decide_rel status_eq_dec p0.t_status Pending))
            (bool_decide (decide_rel Coq0_Pos.eq_dec p0.t_job jid)))
     then (s, (VNotPending tid))
     else let qok =
            match lookup0 (gmap_lookup Coq0_Pos.eq_dec pos_countable) jid
                    s.jobs with
            | Some j ->
              (match lookup0 (gmap_lookup Coq0_Pos.eq_dec pos_countable)
                       j.j_queue w.w_queues with
               | Some q -> queue_allocatable w (share_of s j.j_queue) q p0
               | None -> true)
            | None -> true
          in
          if negb qok
          then (s, (VQueueRefuses tid))
          else let (s', _) = try_place eps s sid tid nid in
               do_places eps w s' sid jid r
   | None -> (s, (VNotPending tid)))

(** val step : z -> world -> cop -> world * verdict **)

let step eps w = function
| CAttempt (jid, places) ->
  let sid = w.w_next_stmt in
  let (s1, v) = do_places eps w w.w_sess sid jid places in
  let s2 =
    match decide0 s1 jid with
    | DCommit -> stmt_commit eps s1 sid
    | DKeep -> s1
    | DDiscard -> stmt_discard eps s1 sid
  in
  ({ w_sess = s2; w_queues = w.w_queues; w_next_stmt = (Coq_Pos.succ sid) },
  v)
| CBackfill (tid, nid) ->
  (match lookup0 (gmap_lookup Coq0_Pos.eq_dec pos_countable) tid w.w_sess.heap with
   | Some p ->
     if negb (bool_decide (decide_rel status_eq_dec p.t_status Pending))
     then (w, (VNotPending tid))
     else if negb p.t_best_effort
          then (w, (VNotBestEffort tid))
          else let (s1, _) =
                 ssn_place_with eps (fun s j -> gang_job_ready s.heap j)
                   w.w_sess KAllocate tid nid
               in
               ({ w_sess = s1; w_queues = w.w_queues; w_next_stmt =
               w.w_next_stmt }, VOk)
   | None -> (w, (VNotPending tid)))

type queue_spec = { qs_id : positive; qs_open : bool; qs_weight : z;
                    qs_cap_cpu : z; qs_cap_mem : z }

(** val dQueueSpec : queue_spec dec **)

let dQueueSpec =
  bind dPos (fun i ->
    bind dBool (fun o ->
      bind dZ (fun w ->
        bind dZ (fun c ->
          bind dZ (fun m ->
            ret { qs_id = i; qs_open = o; qs_weight = w; qs_cap_cpu = c;
              qs_cap_mem = m })))))

(** val dCycleJob : job_spec dec **)

let dCycleJob =
  bind dJobSpec (fun j -> bind dZ (fun _ -> ret j))

(** val dCop : cop dec **)

let dCop =
  bind dZ (fun k ->
    match k with
    | Zpos p ->
      (match p with
       | XI _ -> fail
       | XO p0 ->
         (match p0 with
          | XH ->
            bind dPos (fun t -> bind dPos (fun n0 -> ret (CBackfill (t, n0))))
          | _ -> fail)
       | XH ->
         bind dPos (fun j ->
           bind (dList (dPair dPos dPos)) (fun ps -> ret (CAttempt (j, ps)))))
    | _ -> fail)

type cycle_case = { cc_eps : z; cc_nodes : node_spec list;
                    cc_queues : queue_spec list; cc_jobs : job_spec list;
                    cc_tasks : task_spec list; cc_prop : bool;
                    cc_actions : z list; cc_limits : (positive * res) list;
                    cc_cops : cop list }

(** val dCycle : cycle_case dec **)

let dCycle =
  bind dZ (fun e ->
    bind (dList dNodeSpec) (fun ns ->
      bind (dList dQueueSpec) (fun qs ->
        bind (dList dCycleJob) (fun js ->
          bind (dList dTaskSpec) (fun ts ->
            bind dBool (fun pr ->
              bind (dList dZ) (fun acts ->
                bind (dList (dPair dPos dRes)) (fun lim ->
                  bind (dList dCop) (fun cops ->
                    ret { cc_eps = e; cc_nodes = ns; cc_queues = qs;
                      cc_jobs = js; cc_tasks = ts; cc_prop = pr; cc_actions =
                      acts; cc_limits = lim; cc_cops = cops })))))))))

(** val world_of : cycle_case -> world **)

let world_of c =
  let s = build c.cc_eps c.cc_nodes c.cc_jobs c.cc_tasks in
  let lim =
    list_to_map
      (map_insert (gmap_partial_alter Coq0_Pos.eq_dec pos_countable))
      (gmap_empty Coq0_Pos.eq_dec pos_countable) c.cc_limits
  in
  let qs =
    list_to_map
      (map_insert (gmap_partial_alter Coq0_Pos.eq_dec pos_countable))
      (gmap_empty Coq0_Pos.eq_dec pos_countable)
      (map (fun q -> (q.qs_id, { q_open = q.qs_open; q_limit =
        (from_option (Obj.magic id) empty_res
          (lookup0 (gmap_lookup Coq0_Pos.eq_dec pos_countable) q.qs_id lim));
        q_has_plugin = c.cc_prop })) c.cc_queues)
  in
  { w_sess = s; w_queues = qs; w_next_stmt = XH }

(** val eVerdict : verdict -> z **)

let eVerdict = function
| VOk -> Z0
| VQueueRefuses _ -> Zpos XH
| VNotPending _ -> Zpos (XO XH)
| VNotBestEffort _ -> Zpos (XI XH)

(** val new_prefix : 'a1 list -> 'a1 list -> 'a1 list **)

let new_prefix newl oldl =
  firstn (sub (length newl) (length oldl)) newl

(** val eCopStep : sess -> sess -> verdict -> z list **)

let eCopStep s s' v =
  app ((Zneg (XI (XO (XI (XO (XO (XI XH))))))) :: ((eVerdict v) :: []))
    (app
      (eList (fun e ->
        app ((if e.he_alloc then Zpos XH else Z0) :: ((Zpos
          e.he_task) :: ((Zpos (skey e.he_status)) :: [])))
          (eNodeRef e.he_node)) (rev (new_prefix s'.hlog s.hlog)))
      (app
        (eList (fun b -> (Zpos (fst b)) :: (eNodeRef (snd b)))
          (sort_kv (new_prefix s'.binds s.binds)))
        (eList ePos (sort_pos (new_prefix s'.evicts s.evicts)))))

(** val run_cops : z -> world -> cop list -> z list * world **)

let rec run_cops eps w = function
| [] -> ([], w)
| o :: r ->
  let (w', v) = step eps w o in
  let (out, wf) = run_cops eps w' r in
  ((app (eCopStep w.w_sess w'.w_sess v) out), wf)

(** val eFinal : sess -> z list **)

let eFinal s =
  app
    (eList (fun kv -> eTaskBrief (snd kv))
      (sort_kv
        (map_to_list (gmap_to_list Coq0_Pos.eq_dec pos_countable) s.heap)))
    (app
      (eList (fun kv -> eJob (snd kv))
        (sort_kv
          (map_to_list (gmap_to_list Coq0_Pos.eq_dec pos_countable) s.jobs)))
      (app
        (eList (fun kv -> eNode (snd kv))
          (sort_kv
            (map_to_list (gmap_to_list Coq0_Pos.eq_dec pos_countable) s.nodes)))
        (eList (fun kv -> (Zpos (fst kv)) :: (eRes (snd kv)))
          (sort_kv
            (map_to_list (gmap_to_list Coq0_Pos.eq_dec pos_countable)
              s.hshare)))))

(** val run_cycle_dump : cycle_case -> z list **)

let run_cycle_dump c =
  let (out, wf) = run_cops c.cc_eps (world_of c) c.cc_cops in
  app out
    (app ((Zneg (XO (XI (XI (XO (XO (XI XH))))))) :: []) (eFinal wf.w_sess))

(** val dTaskBrief : ((positive * status) * positive option) dec **)

let dTaskBrief =
  bind dPos (fun i ->
    bind dStatus (fun s -> bind dNodeRef (fun n0 -> ret ((i, s), n0))))

(** val dSet : positive gset dec **)

let dSet =
  bind (dList dPos) (fun l ->
    ret
      (list_to_set (gset_singleton Coq0_Pos.eq_dec pos_countable)
        (gset_empty Coq0_Pos.eq_dec pos_countable)
        (gset_union Coq0_Pos.eq_dec pos_countable) l))

(** val dIndex : (positive, positive gset) gmap dec **)

let dIndex =
  bind (dList (dPair dPos dSet)) (fun l ->
    ret
      (list_to_map
        (map_insert (gmap_partial_alter Coq0_Pos.eq_dec pos_countable))
        (gmap_empty Coq0_Pos.eq_dec pos_countable) l))

(** val dTaskFull : task dec **)

let dTaskFull =
  bind dPos (fun i ->
    bind dStatus (fun s ->
      bind dNodeRef (fun n0 ->
        bind dPos (fun j ->
          bind dZ (fun c ->
            bind dZ (fun m ->
              bind dZ (fun g ->
                let r = mk_req c m g in
                ret { t_id = i; t_job = j; t_sub = XH; t_role = XH; t_prio =
                  Z0; t_req = r; t_init = r; t_best_effort = false;
                  t_preemptable = false; t_status = s; t_node = n0 })))))))

(** val dJobDump : job dec **)

let dJobDump =
  bind dPos (fun i ->
    bind dSet (fun ts ->
      bind dIndex (fun ix ->
        bind dRes (fun al ->
          bind dRes (fun tot ->
            bind
              (dList
                (bind dPos (fun sid ->
                  bind dSet (fun st ->
                    bind dIndex (fun six ->
                      ret (sid, { sj_min = Z0; sj_tasks = st; sj_index =
                        six })))))) (fun subs ->
              let sm =
                list_to_map
                  (map_insert
                    (gmap_partial_alter Coq0_Pos.eq_dec pos_countable))
                  (gmap_empty Coq0_Pos.eq_dec pos_countable) subs
              in
              let tsub =
                list_to_map
                  (map_insert
                    (gmap_partial_alter Coq0_Pos.eq_dec pos_countable))
                  (gmap_empty Coq0_Pos.eq_dec pos_countable)
                  (flat_map (fun kv ->
                    map (fun t -> (t, (fst kv)))
                      (elements0
                        (gset_elements Coq0_Pos.eq_dec pos_countable)
                        (snd kv).sj_tasks)) subs)
              in
              ret { j_id = i; j_queue = XH; j_min = Z0; j_role_min =
                (empty0 (gmap_empty Coq0_Pos.eq_dec pos_countable));
                j_role_total = Z0; j_tasks = ts; j_index = ix; j_alloc = al;
                j_total = tot; j_subs = sm; j_task_sub = tsub }))))))

(** val dNodeDump : (positive, task) gmap -> node dec **)

let dNodeDump heap0 =
  bind dPos (fun i ->
    bind dRes (fun idle ->
      bind dRes (fun used ->
        bind dRes (fun rel ->
          bind dRes (fun pip ->
            bind dRes (fun al ->
              bind dBool (fun has ->
                bind (dList (Obj.magic dTaskBrief)) (fun cs ->
                  let copies =
                    list_to_map
                      (map_insert
                        (gmap_partial_alter Coq0_Pos.eq_dec pos_countable))
                      (gmap_empty Coq0_Pos.eq_dec pos_countable)
                      (omap (Obj.magic (fun _ _ -> list_omap)) (fun c ->
                        let (y, nd) = c in
                        let (tid, st) = y in
                        (match lookup0
                                 (gmap_lookup Coq0_Pos.eq_dec pos_countable)
                                 tid heap0 with
                         | Some t ->
                           Some (tid, (set_node (set_status t st) nd))
                         | None -> None)) cs)
                  in
                  ret { n_id = i; n_has_node = has; n_idle = idle; n_used =
                    used; n_releasing = rel; n_pipelined = pip; n_alloc = al;
                    n_tasks = copies }))))))))

type dump = { d_heap : (positive, task) gmap; d_jobs : (positive, job) gmap;
              d_nodes : (positive, node) gmap; d_share : (positive, res) gmap }

(** val dDump : dump dec **)

let dDump =
  bind (dList dTaskFull) (fun ts ->
    let heap0 =
      list_to_map
        (map_insert (gmap_partial_alter Coq0_Pos.eq_dec pos_countable))
        (gmap_empty Coq0_Pos.eq_dec pos_countable)
        (map (fun t -> (t.t_id, t)) ts)
    in
    bind (dList dJobDump) (fun js ->
      bind (dList (dNodeDump heap0)) (fun ns ->
        bind (dList (dPair dPos dRes)) (fun sh ->
          ret { d_heap = heap0; d_jobs =
            (list_to_map
              (map_insert (gmap_partial_alter Coq0_Pos.eq_dec pos_countable))
              (gmap_empty Coq0_Pos.eq_dec pos_countable)
              (map (fun j -> (j.j_id, j)) js)); d_nodes =
            (list_to_map
              (map_insert (gmap_partial_alter Coq0_Pos.eq_dec pos_countable))
              (gmap_empty Coq0_Pos.eq_dec pos_countable)
              (map (fun n0 -> (n0.n_id, n0)) ns)); d_share =
            (list_to_map
              (map_insert (gmap_partial_alter Coq0_Pos.eq_dec pos_countable))
              (gmap_empty Coq0_Pos.eq_dec pos_countable) sh) }))))

(** val spec_tasks : cycle_case -> task list **)

let spec_tasks c =
  map (task_of_spec c.cc_eps) c.cc_tasks

(** val final_status : dump -> task -> status **)

let final_status d t =
  match lookup0 (gmap_lookup Coq0_Pos.eq_dec pos_countable) t.t_id d.d_heap with
  | Some u -> u.t_status
  | None -> t.t_status

(** val visible_ready : dump -> task -> bool **)

let visible_ready d t =
  match final_status d t with
  | Pending -> t.t_best_effort
  | Allocated -> t.t_best_effort
  | Pipelined -> false
  | Releasing -> false
  | Failed -> false
  | Unknown -> false
  | _ -> true

(** val count_tasks : (task -> bool) -> task list -> z **)

let count_tasks p l =
  Z.of_nat (length (filter p l))

(** val gang_ok : cycle_case -> dump -> job_spec -> bool **)

let gang_ok c d j =
  let ts =
    filter (fun t ->
      bool_decide (decide_rel Coq0_Pos.eq_dec t.t_job j.js_id)) (spec_tasks c)
  in
  (&&)
    (bool_decide
      (decide_rel Coq_Z.le_dec j.js_min (count_tasks (visible_ready d) ts)))
    (let total = fold_left (fun acc kv -> Z.add acc (snd kv)) j.js_role_min Z0
     in
     if bool_decide (decide_rel Coq_Z.lt_dec j.js_min total)
     then true
     else forallb (fun rm ->
            bool_decide
              (decide_rel Coq_Z.le_dec (snd rm)
                (count_tasks (fun t ->
                  (&&) (visible_ready d t)
                    (bool_decide
                      (decide_rel Coq0_Pos.eq_dec t.t_role (fst rm)))) ts)))
            j.js_role_min)

(** val law_gang : cycle_case -> dump -> positive list -> bool **)

let law_gang c d bound =
  (&&)
    (forallb (fun j ->
      let has_bind =
        existsb (fun t ->
          (&&) (bool_decide (decide_rel Coq0_Pos.eq_dec t.t_job j.js_id))
            (bool_decide
              (decide_rel (elem_of_list_dec Coq0_Pos.eq_dec) t.t_id bound)))
          (spec_tasks c)
      in
      implb has_bind (gang_ok c d j)) c.cc_jobs)
    (forallb (fun t ->
      implb
        (bool_decide
          (decide_rel (elem_of_list_dec Coq0_Pos.eq_dec) t.t_id bound))
        (bool_decide (decide_rel status_eq_dec (final_status d t) Binding)))
      (spec_tasks c))

(** val on_node_at :
    cycle_case -> positive -> (positive, task) gmap -> (status -> bool) ->
    task list **)

let on_node_at c _ held pred =
  filter (fun t ->
    match lookup0 (gmap_lookup Coq0_Pos.eq_dec pos_countable) t.t_id held with
    | Some cpy -> pred cpy.t_status
    | None -> false) (spec_tasks c)

(** val sum_le : task list -> res -> bool **)

let sum_le l bound_ =
  let s = sum_req l in
  (&&)
    ((&&) (bool_decide (decide_rel Coq_Z.le_dec s.cpu bound_.cpu))
      (bool_decide (decide_rel Coq_Z.le_dec s.mem bound_.mem)))
    (forallb (fun k ->
      (||) (ignored k)
        (bool_decide (decide_rel Coq_Z.le_dec (sget s k) (sget bound_ k))))
      (res_keys (s :: (bound_ :: []))))

(** val node_initially_ok : cycle_case -> node_spec -> bool **)

let node_initially_ok c n0 =
  let alloc = mk_alloc n0.ns_cpu n0.ns_mem n0.ns_pods n0.ns_gpu in
  sum_le
    (filter (fun t ->
      (&&)
        (bool_decide
          (decide_rel (option_eq_dec Coq0_Pos.eq_dec) t.t_node (Some
            n0.ns_id))) (on_node_status t.t_status)) (spec_tasks c)) alloc

(** val law_nodes : cycle_case -> dump -> bool **)

let law_nodes c d =
  forallb (fun n0 ->
    match lookup0 (gmap_lookup Coq0_Pos.eq_dec pos_countable) n0.ns_id
            d.d_nodes with
    | Some nd ->
      implb (node_initially_ok c n0)
        (let alloc = mk_alloc n0.ns_cpu n0.ns_mem n0.ns_pods n0.ns_gpu in
         let used =
           on_node_at c n0.ns_id nd.n_tasks (fun s ->
             negb (bool_decide (decide_rel status_eq_dec s Pipelined)))
         in
         let staying =
           on_node_at c n0.ns_id nd.n_tasks (fun s ->
             (&&) (negb (bool_decide (decide_rel status_eq_dec s Pipelined)))
               (negb (bool_decide (decide_rel status_eq_dec s Releasing))))
         in
         let pipelined =
           on_node_at c n0.ns_id nd.n_tasks (fun s ->
             bool_decide (decide_rel status_eq_dec s Pipelined))
         in
         (&&) (sum_le used alloc) (sum_le (app staying pipelined) alloc))
    | None -> true) c.cc_nodes

(** val placed_status : status -> bool **)

let placed_status = function
| Allocated -> true
| Pipelined -> true
| Binding -> true
| _ -> false

(** val holds_quota : status -> bool **)

let holds_quota = function
| Pending -> false
| Releasing -> false
| Succeeded -> false
| Failed -> false
| Unknown -> false
| _ -> true

(** val queue_of_task : cycle_case -> task -> positive option **)

let queue_of_task c t =
  match filter (fun j ->
          bool_decide (decide_rel Coq0_Pos.eq_dec j.js_id t.t_job)) c.cc_jobs with
  | [] -> None
  | j :: _ -> Some j.js_queue

(** val newly_placed : dump -> task -> bool **)

let newly_placed d t =
  (&&)
    ((&&) (bool_decide (decide_rel status_eq_dec t.t_status Pending))
      (placed_status (final_status d t))) (negb t.t_best_effort)

(** val law_queues : cycle_case -> dump -> bool **)

let law_queues c d =
  if negb c.cc_prop
  then true
  else forallb (fun q ->
         let mine =
           filter (fun t ->
             bool_decide
               (decide_rel (option_eq_dec Coq0_Pos.eq_dec)
                 (queue_of_task c t) (Some q.qs_id))) (spec_tasks c)
         in
         let newl = filter (newly_placed d) mine in
         let lim =
           from_option (Obj.magic id) empty_res
             (lookup0 (gmap_lookup Coq0_Pos.eq_dec pos_countable) q.qs_id
               (list_to_map
                 (map_insert
                   (gmap_partial_alter Coq0_Pos.eq_dec pos_countable))
                 (gmap_empty Coq0_Pos.eq_dec pos_countable) c.cc_limits))
         in
         let cap = { cpu =
           (if bool_decide (decide_rel Coq_Z.lt_dec Z0 q.qs_cap_cpu)
            then Z.mul q.qs_cap_cpu grid
            else lim.cpu); mem =
           (if bool_decide (decide_rel Coq_Z.lt_dec Z0 q.qs_cap_mem)
            then Z.mul q.qs_cap_mem grid
            else lim.mem); sc = None }
         in
         let held =
           sum_req (filter (fun t -> holds_quota (final_status d t)) mine)
         in
         let asked = sum_req newl in
         (&&) ((||) q.qs_open (bool_decide (list_eq_nil_dec newl)))
           (implb (negb (bool_decide (list_eq_nil_dec newl)))
             ((&&)
               ((&&)
                 (implb (bool_decide (decide_rel Coq_Z.lt_dec Z0 asked.cpu))
                   ((&&)
                     (bool_decide (decide_rel Coq_Z.le_dec held.cpu lim.cpu))
                     (bool_decide (decide_rel Coq_Z.le_dec held.cpu cap.cpu))))
                 (implb (bool_decide (decide_rel Coq_Z.lt_dec Z0 asked.mem))
                   ((&&)
                     (bool_decide (decide_rel Coq_Z.le_dec held.mem lim.mem))
                     (bool_decide (decide_rel Coq_Z.le_dec held.mem cap.mem)))))
               (forallb (fun k ->
                 implb
                   ((&&) (negb (ignored k))
                     (bool_decide (decide_rel Coq_Z.lt_dec Z0 (sget asked k))))
                   (bool_decide
                     (decide_rel Coq_Z.le_dec (sget held k) (sget lim k))))
                 (res_keys (asked :: [])))))) c.cc_queues

(** val dLawIn : ((cycle_case * dump) * positive list) dec **)

let dLawIn =
  bind dCycle (fun c ->
    bind dDump (fun d -> bind (dList dPos) (fun b -> ret ((c, d), b))))

(** val cycle_entry : z -> z list -> z list **)

let cycle_entry sel toks =
  match sel with
  | Zpos p ->
    (match p with
     | XI p0 ->
       (match p0 with
        | XI p1 ->
          (match p1 with
           | XI p2 ->
             (match p2 with
              | XO p3 ->
                (match p3 with
                 | XO p4 ->
                   (match p4 with
                    | XI p5 ->
                      (match p5 with
                       | XH ->
                         (match run_dec dLawIn toks with
                          | Some p6 ->
                            let (p7, _) = p6 in
                            let (c, d) = p7 in eBool (law_queues c d)
                          | None -> bad_input)
                       | _ -> bad_input)
                    | _ -> bad_input)
                 | _ -> bad_input)
              | _ -> bad_input)
           | _ -> bad_input)
        | XO p1 ->
          (match p1 with
           | XI p2 ->
             (match p2 with
              | XO p3 ->
                (match p3 with
                 | XO p4 ->
                   (match p4 with
                    | XI p5 ->
                      (match p5 with
                       | XH ->
                         (match run_dec dLawIn toks with
                          | Some p6 ->
                            let (p7, b) = p6 in
                            let (c, d) = p7 in eBool (law_gang c d b)
                          | None -> bad_input)
                       | _ -> bad_input)
                    | _ -> bad_input)
                 | _ -> bad_input)
              | _ -> bad_input)
           | _ -> bad_input)
        | XH -> bad_input)
     | XO p0 ->
       (match p0 with
        | XI p1 ->
          (match p1 with
           | XI p2 ->
             (match p2 with
              | XO p3 ->
                (match p3 with
                 | XO p4 ->
                   (match p4 with
                    | XI p5 ->
                      (match p5 with
                       | XH ->
                         (match run_dec dLawIn toks with
                          | Some p6 ->
                            let (p7, _) = p6 in
                            let (c, d) = p7 in eBool (law_nodes c d)
                          | None -> bad_input)
                       | _ -> bad_input)
                    | _ -> bad_input)
                 | _ -> bad_input)
              | _ -> bad_input)
           | _ -> bad_input)
        | _ -> bad_input)
     | XH ->
       (match run_dec dCycle toks with
        | Some c -> run_cycle_dump c
        | None -> bad_input))
  | _ -> bad_input

type dim =
| DCpu
| DMem
| DSc of positive

(** val amt : res -> dim -> z **)

let amt r = function
| DCpu -> r.cpu
| DMem -> r.mem
| DSc k -> sget r k

(** val sum_amt : (task -> z) -> task list -> z **)

let sum_amt f l =
  fold_right (fun t acc -> Z.add (f t) acc) Z0 l

(** val used_amt : dim -> task -> z **)

let used_amt d c =
  if bool_decide (decide_rel status_eq_dec c.t_status Pipelined)
  then Z0
  else amt c.t_req d

(** val rel_amt : dim -> task -> z **)

let rel_amt d c =
  if bool_decide (decide_rel status_eq_dec c.t_status Releasing)
  then amt c.t_req d
  else Z0

(** val pip_amt : dim -> task -> z **)

let pip_amt d c =
  if bool_decide (decide_rel status_eq_dec c.t_status Pipelined)
  then amt c.t_req d
  else Z0

(** val fut_amt : node -> dim -> z **)

let fut_amt n0 d =
  Z.sub (Z.add (amt n0.n_idle d) (amt n0.n_releasing d))
    (amt n0.n_pipelined d)

(** val nonneg_b : res -> bool **)

let nonneg_b r =
  (&&)
    ((&&) (bool_decide (decide_rel Coq_Z.le_dec Z0 r.cpu))
      (bool_decide (decide_rel Coq_Z.le_dec Z0 r.mem)))
    (map_allb (fun _ v -> bool_decide (decide_rel Coq_Z.le_dec Z0 v)) (scm r))

(** val granular_b : z -> res -> bool **)

let granular_b eps r =
  let g = fun v ->
    (||) (bool_decide (decide_rel Coq_Z.eq_dec v Z0))
      (bool_decide (decide_rel Coq_Z.le_dec eps v))
  in
  (&&) ((&&) (g r.cpu) (g r.mem)) (map_allb (fun _ -> g) (scm r))

(** val task_pre_b : z -> task -> bool **)

let task_pre_b eps t =
  (&&)
    ((&&) (nonneg_b t.t_req)
      (bool_decide (decide_rel res_eq_dec t.t_req t.t_init)))
    (implb t.t_best_effort (is_empty eps t.t_init))

(** val task_ok_b : z -> task -> bool **)

let task_ok_b eps t =
  (&&) (task_pre_b eps t) (granular_b eps t.t_req)

(** val node_keys : node -> positive list **)

let node_keys n0 =
  elements0 (gset_elements Coq0_Pos.eq_dec pos_countable)
    (union0 (gset_union Coq0_Pos.eq_dec pos_countable)
      (union0 (gset_union Coq0_Pos.eq_dec pos_countable)
        (dom0 (gset_dom Coq0_Pos.eq_dec pos_countable) (scm n0.n_idle))
        (dom0 (gset_dom Coq0_Pos.eq_dec pos_countable) (scm n0.n_releasing)))
      (dom0 (gset_dom Coq0_Pos.eq_dec pos_countable) (scm n0.n_pipelined)))

(** val dim_okb : z -> node -> dim -> bool **)

let dim_okb eps n0 d =
  (&&) (bool_decide (decide_rel Coq_Z.lt_dec (Z.opp eps) (amt n0.n_idle d)))
    (bool_decide (decide_rel Coq_Z.lt_dec (Z.opp eps) (fut_amt n0 d)))

(** val nwc_b : z -> node -> bool **)

let nwc_b eps n0 =
  (&&)
    ((&&)
      ((&&) (match n0.n_idle.sc with
             | Some _ -> true
             | None -> false) (dim_okb eps n0 DCpu)) (dim_okb eps n0 DMem))
    (forallb (fun k -> (||) (ignored k) (dim_okb eps n0 (DSc k)))
      (node_keys n0))

(** val node_safe_b : z -> node -> bool **)

let node_safe_b eps n0 =
  (&&) (nwc_b eps n0)
    (bool_decide
      (map_Forall_dec
        (Obj.magic (fun _ _ -> gmap_fmap Coq0_Pos.eq_dec pos_countable))
        (Obj.magic (fun _ -> gmap_lookup Coq0_Pos.eq_dec pos_countable))
        (fun _ -> gmap_empty Coq0_Pos.eq_dec pos_countable)
        (Obj.magic (fun _ ->
          gmap_partial_alter Coq0_Pos.eq_dec pos_countable))
        (Obj.magic (fun _ _ -> gmap_omap Coq0_Pos.eq_dec pos_countable))
        (Obj.magic (fun _ _ _ -> gmap_merge Coq0_Pos.eq_dec pos_countable))
        (Obj.magic (fun _ -> gmap_to_list Coq0_Pos.eq_dec pos_countable))
        Coq0_Pos.eq_dec (fun _ x ->
        decide_rel bool_eq_dec (nonneg_b x.t_req) true) n0.n_tasks))

(** val no_evict_b : oprec list -> bool **)

let no_evict_b l =
  forallb (fun o ->
    negb (bool_decide (decide_rel opkind_eq_dec o.op_kind KEvict))) l

(** val sess_pre_b : (task -> bool) -> sess -> bool **)

let sess_pre_b tb s =
  (&&)
    (bool_decide
      (map_Forall_dec
        (Obj.magic (fun _ _ -> gmap_fmap Coq0_Pos.eq_dec pos_countable))
        (Obj.magic (fun _ -> gmap_lookup Coq0_Pos.eq_dec pos_countable))
        (fun _ -> gmap_empty Coq0_Pos.eq_dec pos_countable)
        (Obj.magic (fun _ ->
          gmap_partial_alter Coq0_Pos.eq_dec pos_countable))
        (Obj.magic (fun _ _ -> gmap_omap Coq0_Pos.eq_dec pos_countable))
        (Obj.magic (fun _ _ _ -> gmap_merge Coq0_Pos.eq_dec pos_countable))
        (Obj.magic (fun _ -> gmap_to_list Coq0_Pos.eq_dec pos_countable))
        Coq0_Pos.eq_dec (fun _ x ->
        and_dec (decide_rel bool_eq_dec (tb x) true)
          (is_Some_dec
            (lookup0 (gmap_lookup Coq0_Pos.eq_dec pos_countable) x.t_job
              s.jobs))) s.heap))
    (bool_decide
      (map_Forall_dec
        (Obj.magic (fun _ _ -> gmap_fmap Coq0_Pos.eq_dec pos_countable))
        (Obj.magic (fun _ -> gmap_lookup Coq0_Pos.eq_dec pos_countable))
        (fun _ -> gmap_empty Coq0_Pos.eq_dec pos_countable)
        (Obj.magic (fun _ ->
          gmap_partial_alter Coq0_Pos.eq_dec pos_countable))
        (Obj.magic (fun _ _ -> gmap_omap Coq0_Pos.eq_dec pos_countable))
        (Obj.magic (fun _ _ _ -> gmap_merge Coq0_Pos.eq_dec pos_countable))
        (Obj.magic (fun _ -> gmap_to_list Coq0_Pos.eq_dec pos_countable))
        Coq0_Pos.eq_dec (fun _ x ->
        decide_rel bool_eq_dec (no_evict_b x) true) s.stmts))

(** val world_ok_b : z -> world -> bool **)

let world_ok_b eps w =
  (&&) (sess_pre_b (task_ok_b eps) w.w_sess)
    (bool_decide
      (map_Forall_dec
        (Obj.magic (fun _ _ -> gmap_fmap Coq0_Pos.eq_dec pos_countable))
        (Obj.magic (fun _ -> gmap_lookup Coq0_Pos.eq_dec pos_countable))
        (fun _ -> gmap_empty Coq0_Pos.eq_dec pos_countable)
        (Obj.magic (fun _ ->
          gmap_partial_alter Coq0_Pos.eq_dec pos_countable))
        (Obj.magic (fun _ _ -> gmap_omap Coq0_Pos.eq_dec pos_countable))
        (Obj.magic (fun _ _ _ -> gmap_merge Coq0_Pos.eq_dec pos_countable))
        (Obj.magic (fun _ -> gmap_to_list Coq0_Pos.eq_dec pos_countable))
        Coq0_Pos.eq_dec (fun _ x ->
        decide_rel bool_eq_dec (node_safe_b eps x) true) w.w_sess.nodes))

(** val csum : (task -> z) -> (positive, task) gmap -> z **)

let csum f m =
  sum_amt f
    (map snd (map_to_list (gmap_to_list Coq0_Pos.eq_dec pos_countable) m))

(** val res_keys1 : res -> positive list **)

let res_keys1 r =
  elements0 (gset_elements Coq0_Pos.eq_dec pos_countable)
    (dom0 (gset_dom Coq0_Pos.eq_dec pos_countable) (scm r))

(** val acct_keys : node -> positive list **)

let acct_keys n0 =
  app (res_keys1 n0.n_idle)
    (app (res_keys1 n0.n_alloc)
      (app (res_keys1 n0.n_releasing)
        (app (res_keys1 n0.n_pipelined)
          (flat_map (fun c -> res_keys1 c.t_req)
            (map snd
              (map_to_list (gmap_to_list Coq0_Pos.eq_dec pos_countable)
                n0.n_tasks))))))

(** val acct_dim_b : node -> dim -> bool **)

let acct_dim_b n0 d =
  (&&)
    ((&&)
      (bool_decide
        (decide_rel Coq_Z.eq_dec (amt n0.n_idle d)
          (Z.sub (amt n0.n_alloc d) (csum (used_amt d) n0.n_tasks))))
      (bool_decide
        (decide_rel Coq_Z.eq_dec (amt n0.n_releasing d)
          (csum (rel_amt d) n0.n_tasks))))
    (bool_decide
      (decide_rel Coq_Z.eq_dec (amt n0.n_pipelined d)
        (csum (pip_amt d) n0.n_tasks)))

(** val node_acct_b : node -> bool **)

let node_acct_b n0 =
  (&&)
    (bool_decide
      (map_Forall_dec
        (Obj.magic (fun _ _ -> gmap_fmap Coq0_Pos.eq_dec pos_countable))
        (Obj.magic (fun _ -> gmap_lookup Coq0_Pos.eq_dec pos_countable))
        (fun _ -> gmap_empty Coq0_Pos.eq_dec pos_countable)
        (Obj.magic (fun _ ->
          gmap_partial_alter Coq0_Pos.eq_dec pos_countable))
        (Obj.magic (fun _ _ -> gmap_omap Coq0_Pos.eq_dec pos_countable))
        (Obj.magic (fun _ _ _ -> gmap_merge Coq0_Pos.eq_dec pos_countable))
        (Obj.magic (fun _ -> gmap_to_list Coq0_Pos.eq_dec pos_countable))
        Coq0_Pos.eq_dec (fun _ x ->
        decide_rel bool_eq_dec (nonneg_b x.t_req) true) n0.n_tasks))
    ((||) (negb n0.n_has_node)
      ((&&)
        ((&&)
          ((&&) (match n0.n_idle.sc with
                 | Some _ -> true
                 | None -> false) (acct_dim_b n0 DCpu)) (acct_dim_b n0 DMem))
        (forallb (fun k -> acct_dim_b n0 (DSc k)) (acct_keys n0))))

(** val nodes_acct_b : (positive, node) gmap -> bool **)

let nodes_acct_b ns =
  bool_decide
    (map_Forall_dec
      (Obj.magic (fun _ _ -> gmap_fmap Coq0_Pos.eq_dec pos_countable))
      (Obj.magic (fun _ -> gmap_lookup Coq0_Pos.eq_dec pos_countable))
      (fun _ -> gmap_empty Coq0_Pos.eq_dec pos_countable)
      (Obj.magic (fun _ -> gmap_partial_alter Coq0_Pos.eq_dec pos_countable))
      (Obj.magic (fun _ _ -> gmap_omap Coq0_Pos.eq_dec pos_countable))
      (Obj.magic (fun _ _ _ -> gmap_merge Coq0_Pos.eq_dec pos_countable))
      (Obj.magic (fun _ -> gmap_to_list Coq0_Pos.eq_dec pos_countable))
      Coq0_Pos.eq_dec (fun _ x ->
      decide_rel bool_eq_dec (node_acct_b x) true) ns)

type cache = { c_heap : (positive, task) gmap; c_jobs : (positive, job) gmap;
               c_nodes : (positive, node) gmap }

type bind_req = { b_job : positive; b_task : positive; b_node : positive;
                  b_decision_fails : bool }

type bind_res =
| BOk
| BNoJob
| BNoTask
| BNoNode
| BNotReady
| BDecision
| BRefused of add_err

(** val add_bind_task : z -> cache -> bind_req -> cache * bind_res **)

let add_bind_task eps c r =
  match lookup0 (gmap_lookup Coq0_Pos.eq_dec pos_countable) r.b_job c.c_jobs with
  | Some j ->
    if negb
         (bool_decide
           (decide_rel (gset_elem_of_dec Coq0_Pos.eq_dec pos_countable)
             r.b_task j.j_tasks))
    then (c, BNoTask)
    else (match lookup0 (gmap_lookup Coq0_Pos.eq_dec pos_countable) r.b_task
                  c.c_heap with
          | Some t ->
            (match lookup0 (gmap_lookup Coq0_Pos.eq_dec pos_countable)
                     r.b_node c.c_nodes with
             | Some n0 ->
               if negb n0.n_has_node
               then (c, BNotReady)
               else let orig = t.t_status in
                    let (j1, t1) = job_update c.c_heap j t Binding in
                    let h1 =
                      insert0
                        (map_insert
                          (gmap_partial_alter Coq0_Pos.eq_dec pos_countable))
                        r.b_task t1 c.c_heap
                    in
                    let revert = fun e ->
                      let (j2, t3) = job_update h1 j1 t1 orig in
                      ({ c_heap =
                      (insert0
                        (map_insert
                          (gmap_partial_alter Coq0_Pos.eq_dec pos_countable))
                        r.b_task t3 h1); c_jobs =
                      (insert0
                        (map_insert
                          (gmap_partial_alter Coq0_Pos.eq_dec pos_countable))
                        r.b_job j2 c.c_jobs); c_nodes = c.c_nodes }, e)
                    in
                    if r.b_decision_fails
                    then revert BDecision
                    else (match node_add eps n0 t1 with
                          | Inl p ->
                            let (n', t2) = p in
                            ({ c_heap =
                            (insert0
                              (map_insert
                                (gmap_partial_alter Coq0_Pos.eq_dec
                                  pos_countable)) r.b_task t2 h1); c_jobs =
                            (insert0
                              (map_insert
                                (gmap_partial_alter Coq0_Pos.eq_dec
                                  pos_countable)) r.b_job j1 c.c_jobs);
                            c_nodes =
                            (insert0
                              (map_insert
                                (gmap_partial_alter Coq0_Pos.eq_dec
                                  pos_countable)) r.b_node n' c.c_nodes) },
                            BOk)
                          | Inr e -> revert (BRefused e))
             | None -> (c, BNoNode))
          | None -> (c, BNoTask))
  | None -> (c, BNoJob)

(** val agent_add_bind_task :
    z -> (positive, node) gmap -> task -> positive -> (positive, node)
    gmap * bind_res **)

let agent_add_bind_task eps ns t nid =
  match lookup0 (gmap_lookup Coq0_Pos.eq_dec pos_countable) nid ns with
  | Some n0 ->
    if negb n0.n_has_node
    then (ns, BNotReady)
    else (match node_add eps n0 (set_status t Binding) with
          | Inl p ->
            let (n', _) = p in
            ((insert0
               (map_insert (gmap_partial_alter Coq0_Pos.eq_dec pos_countable))
               nid n' ns), BOk)
          | Inr e -> (ns, (BRefused e)))
  | None -> (ns, BNoNode)

type cache_ev =
| EvNode of positive * res
| EvTerminating of positive
| EvDelete of positive
| EvPodAdd of task
| EvUpdateUnbound of positive
| EvBoundArrives of positive
| EvRemoveNode of positive
| EvUnbind of positive * positive

(** val node_set_acc : node -> task -> node **)

let node_set_acc n0 t =
  let r = t.t_req in
  (match t.t_status with
   | Pipelined ->
     node_with n0 n0.n_idle n0.n_used n0.n_releasing (add0 n0.n_pipelined r)
       n0.n_tasks
   | Releasing ->
     node_with n0 (sub0 n0.n_idle r) (add0 n0.n_used r)
       (add0 n0.n_releasing r) n0.n_pipelined n0.n_tasks
   | _ ->
     node_with n0 (sub0 n0.n_idle r) (add0 n0.n_used r) n0.n_releasing
       n0.n_pipelined n0.n_tasks)

(** val node_set : node -> res -> node **)

let node_set n0 alloc =
  fold_left node_set_acc
    (map snd
      (map_to_list (gmap_to_list Coq0_Pos.eq_dec pos_countable) n0.n_tasks))
    { n_id = n0.n_id; n_has_node = true; n_idle = alloc; n_used = empty_res;
    n_releasing = empty_res; n_pipelined = empty_res; n_alloc = alloc;
    n_tasks = n0.n_tasks }

(** val fresh_node : positive -> res -> node **)

let fresh_node nid alloc =
  { n_id = nid; n_has_node = true; n_idle = alloc; n_used = empty_res;
    n_releasing = empty_res; n_pipelined = empty_res; n_alloc = alloc;
    n_tasks = (empty0 (gmap_empty Coq0_Pos.eq_dec pos_countable)) }

(** val placeholder : positive -> node **)

let placeholder nid =
  { n_id = nid; n_has_node = false; n_idle = empty_res; n_used = empty_res;
    n_releasing = empty_res; n_pipelined = empty_res; n_alloc = empty_res;
    n_tasks = (empty0 (gmap_empty Coq0_Pos.eq_dec pos_countable)) }

(** val terminated : status -> bool **)

let terminated = function
| Succeeded -> true
| Failed -> true
| _ -> false

(** val add_to_node :
    z -> (positive, node) gmap -> task -> (positive, node) gmap **)

let add_to_node eps ns t =
  match t.t_node with
  | Some i ->
    let n0 =
      from_option (Obj.magic id) (placeholder i)
        (lookup0 (gmap_lookup Coq0_Pos.eq_dec pos_countable) i ns)
    in
    if terminated t.t_status
    then insert0
           (map_insert (gmap_partial_alter Coq0_Pos.eq_dec pos_countable)) i
           n0 ns
    else (match node_add eps n0 t with
          | Inl p ->
            let (n', _) = p in
            insert0
              (map_insert (gmap_partial_alter Coq0_Pos.eq_dec pos_countable))
              i n' ns
          | Inr _ ->
            insert0
              (map_insert (gmap_partial_alter Coq0_Pos.eq_dec pos_countable))
              i n0 ns)
  | None -> ns

(** val remove_from_node :
    (positive, node) gmap -> task -> (positive, node) gmap **)

let remove_from_node ns t =
  match t.t_node with
  | Some i ->
    (match lookup0 (gmap_lookup Coq0_Pos.eq_dec pos_countable) i ns with
     | Some n0 ->
       if terminated t.t_status
       then ns
       else insert0
              (map_insert (gmap_partial_alter Coq0_Pos.eq_dec pos_countable))
              i (node_remove n0 t.t_id) ns
     | None -> ns)
  | None -> ns

(** val node_event :
    (positive, node) gmap -> positive -> res -> (positive, node) gmap **)

let node_event ns nid alloc =
  insert0 (map_insert (gmap_partial_alter Coq0_Pos.eq_dec pos_countable)) nid
    (match lookup0 (gmap_lookup Coq0_Pos.eq_dec pos_countable) nid ns with
     | Some n0 -> node_set n0 alloc
     | None -> fresh_node nid alloc) ns

(** val cache_event : z -> cache -> cache_ev -> cache **)

let cache_event eps c = function
| EvNode (nid, alloc) ->
  { c_heap = c.c_heap; c_jobs = c.c_jobs; c_nodes =
    (node_event c.c_nodes nid alloc) }
| EvTerminating tid ->
  (match lookup0 (gmap_lookup Coq0_Pos.eq_dec pos_countable) tid c.c_heap with
   | Some st ->
     let t' = set_status st Releasing in
     { c_heap =
     (insert0 (map_insert (gmap_partial_alter Coq0_Pos.eq_dec pos_countable))
       tid t' c.c_heap); c_jobs =
     (match lookup0 (gmap_lookup Coq0_Pos.eq_dec pos_countable) st.t_job
              c.c_jobs with
      | Some j ->
        insert0
          (map_insert (gmap_partial_alter Coq0_Pos.eq_dec pos_countable))
          st.t_job (job_add (job_del j st) t') c.c_jobs
      | None -> c.c_jobs); c_nodes =
     (add_to_node eps (remove_from_node c.c_nodes st) t') }
   | None -> c)
| EvDelete tid ->
  (match lookup0 (gmap_lookup Coq0_Pos.eq_dec pos_countable) tid c.c_heap with
   | Some st ->
     { c_heap =
       (delete0
         (map_delete (gmap_partial_alter Coq0_Pos.eq_dec pos_countable)) tid
         c.c_heap); c_jobs =
       (match lookup0 (gmap_lookup Coq0_Pos.eq_dec pos_countable) st.t_job
                c.c_jobs with
        | Some j ->
          insert0
            (map_insert (gmap_partial_alter Coq0_Pos.eq_dec pos_countable))
            st.t_job (job_del j st) c.c_jobs
        | None -> c.c_jobs); c_nodes = (remove_from_node c.c_nodes st) }
   | None -> c)
| EvPodAdd t ->
  { c_heap =
    (insert0 (map_insert (gmap_partial_alter Coq0_Pos.eq_dec pos_countable))
      t.t_id t c.c_heap); c_jobs =
    (match lookup0 (gmap_lookup Coq0_Pos.eq_dec pos_countable) t.t_job
             c.c_jobs with
     | Some j ->
       insert0
         (map_insert (gmap_partial_alter Coq0_Pos.eq_dec pos_countable))
         t.t_job (job_add j t) c.c_jobs
     | None -> c.c_jobs); c_nodes = (add_to_node eps c.c_nodes t) }
| EvUpdateUnbound tid ->
  (match lookup0 (gmap_lookup Coq0_Pos.eq_dec pos_countable) tid c.c_heap with
   | Some st ->
     if allocated_status st.t_status
     then c
     else let t' = set_node (set_status st Pending) None in
          { c_heap =
          (insert0
            (map_insert (gmap_partial_alter Coq0_Pos.eq_dec pos_countable))
            tid t' c.c_heap); c_jobs =
          (match lookup0 (gmap_lookup Coq0_Pos.eq_dec pos_countable) st.t_job
                   c.c_jobs with
           | Some j ->
             insert0
               (map_insert (gmap_partial_alter Coq0_Pos.eq_dec pos_countable))
               st.t_job (job_add (job_del j st) t') c.c_jobs
           | None -> c.c_jobs); c_nodes = (remove_from_node c.c_nodes st) }
   | None -> c)
| EvBoundArrives tid ->
  (match lookup0 (gmap_lookup Coq0_Pos.eq_dec pos_countable) tid c.c_heap with
   | Some st ->
     (match st.t_status with
      | Binding ->
        (match st.t_node with
         | Some _ ->
           let t' = set_status st Bound in
           { c_heap =
           (insert0
             (map_insert (gmap_partial_alter Coq0_Pos.eq_dec pos_countable))
             tid t' c.c_heap); c_jobs =
           (match lookup0 (gmap_lookup Coq0_Pos.eq_dec pos_countable)
                    st.t_job c.c_jobs with
            | Some j ->
              insert0
                (map_insert
                  (gmap_partial_alter Coq0_Pos.eq_dec pos_countable))
                st.t_job (job_add (job_del j st) t') c.c_jobs
            | None -> c.c_jobs); c_nodes =
           (add_to_node eps (remove_from_node c.c_nodes st) t') }
         | None -> c)
      | _ -> c)
   | None -> c)
| EvRemoveNode nid ->
  (match lookup0 (gmap_lookup Coq0_Pos.eq_dec pos_countable) nid c.c_nodes with
   | Some n0 ->
     { c_heap = c.c_heap; c_jobs = c.c_jobs; c_nodes =
       (if bool_decide
             (map_eq_dec_empty
               (Obj.magic (fun _ _ ->
                 gmap_fmap Coq0_Pos.eq_dec pos_countable))
               (Obj.magic (fun _ ->
                 gmap_lookup Coq0_Pos.eq_dec pos_countable)) (fun _ ->
               gmap_empty Coq0_Pos.eq_dec pos_countable)
               (Obj.magic (fun _ ->
                 gmap_partial_alter Coq0_Pos.eq_dec pos_countable))
               (Obj.magic (fun _ _ ->
                 gmap_omap Coq0_Pos.eq_dec pos_countable))
               (Obj.magic (fun _ _ _ ->
                 gmap_merge Coq0_Pos.eq_dec pos_countable))
               (Obj.magic (fun _ ->
                 gmap_to_list Coq0_Pos.eq_dec pos_countable)) Coq0_Pos.eq_dec
               n0.n_tasks)
        then delete0
               (map_delete (gmap_partial_alter Coq0_Pos.eq_dec pos_countable))
               nid c.c_nodes
        else insert0
               (map_insert (gmap_partial_alter Coq0_Pos.eq_dec pos_countable))
               nid { n_id = nid; n_has_node = false; n_idle = empty_res;
               n_used = empty_res; n_releasing = empty_res; n_pipelined =
               empty_res; n_alloc = empty_res; n_tasks = n0.n_tasks }
               c.c_nodes) }
   | None -> c)
| EvUnbind (tid, nid) ->
  (match lookup0 (gmap_lookup Coq0_Pos.eq_dec pos_countable) nid c.c_nodes with
   | Some n0 ->
     { c_heap = c.c_heap; c_jobs = c.c_jobs; c_nodes =
       (insert0
         (map_insert (gmap_partial_alter Coq0_Pos.eq_dec pos_countable)) nid
         (node_remove n0 tid) c.c_nodes) }
   | None -> c)

(** val find_binding :
    (positive, node) gmap -> positive -> positive option **)

let find_binding ns tid =
  map_fold (gmap_to_list Coq0_Pos.eq_dec pos_countable) (fun i n0 acc ->
    match lookup0 (gmap_lookup Coq0_Pos.eq_dec pos_countable) tid n0.n_tasks with
    | Some c ->
      if bool_decide (decide_rel status_eq_dec c.t_status Binding)
      then Some (match acc with
                 | Some a -> Coq_Pos.min a i
                 | None -> i)
      else acc
    | None -> acc) None ns

(** val agent_event :
    z -> (positive -> task option) -> (positive, node) gmap -> cache_ev ->
    (positive, node) gmap **)

let agent_event eps tasks ns = function
| EvNode (nid, alloc) -> node_event ns nid alloc
| EvTerminating tid ->
  (match tasks tid with
   | Some st ->
     add_to_node eps (remove_from_node ns st) (set_status st Releasing)
   | None -> ns)
| EvDelete tid ->
  (match tasks tid with
   | Some st -> remove_from_node ns st
   | None -> ns)
| EvPodAdd t -> add_to_node eps ns t
| EvUpdateUnbound _ -> ns
| EvBoundArrives tid ->
  (match tasks tid with
   | Some st ->
     (match find_binding ns tid with
      | Some i -> add_to_node eps ns (set_node (set_status st Bound) (Some i))
      | None -> ns)
   | None -> ns)
| EvRemoveNode nid ->
  delete0 (map_delete (gmap_partial_alter Coq0_Pos.eq_dec pos_countable)) nid
    ns
| EvUnbind (tid, nid) ->
  (match lookup0 (gmap_lookup Coq0_Pos.eq_dec pos_countable) nid ns with
   | Some n0 ->
     insert0 (map_insert (gmap_partial_alter Coq0_Pos.eq_dec pos_countable))
       nid (node_remove n0 tid) ns
   | None -> ns)

(** val flow_unbind :
    z -> (positive -> task option) -> positive list -> (positive, node) gmap
    -> (positive * positive) -> (positive, node) gmap **)

let flow_unbind eps tasks fails ns p =
  if bool_decide (decide_rel (elem_of_list_dec Coq0_Pos.eq_dec) (fst p) fails)
  then agent_event eps tasks ns (EvUnbind ((fst p), (snd p)))
  else ns

(** val flow_pass :
    positive list -> (positive * positive) list -> (positive * positive) list **)

let flow_pass fails pending =
  filter (fun p ->
    negb
      (bool_decide
        (decide_rel (elem_of_list_dec Coq0_Pos.eq_dec) (fst p) fails)))
    pending

(** val flow_batch :
    z -> (positive -> task option) -> positive list -> positive list ->
    (positive, node) gmap -> (positive * positive) list -> (positive, node)
    gmap * (positive * positive) list **)

let flow_batch eps tasks pre_fails bind_fails ns pending =
  let handed = flow_pass pre_fails pending in
  ((fold_left (flow_unbind eps tasks bind_fails) handed
     (fold_left (flow_unbind eps tasks pre_fails) pending ns)),
  (flow_pass bind_fails handed))

type cache_op =
| OpBind of bind_req
| OpEv of cache_ev

(** val cache_step : z -> cache -> cache_op -> cache * bind_res **)

let cache_step eps c = function
| OpBind r -> add_bind_task eps c r
| OpEv e -> ((cache_event eps c e), BOk)

(** val ops_state : z -> cache -> cache_op list -> cache **)

let ops_state eps c l =
  fold_left (fun c0 o -> fst (cache_step eps c0 o)) l c

(** val ops_results : z -> cache -> cache_op list -> bind_res option list **)

let rec ops_results eps c = function
| [] -> []
| o :: l' ->
  (match o with
   | OpBind _ -> Some (snd (cache_step eps c o))
   | OpEv _ -> None) :: (ops_results eps (fst (cache_step eps c o)) l')

(** val bnode_ok_b : z -> node -> bool **)

let bnode_ok_b eps n0 =
  (&&)
    ((&&) ((||) (negb n0.n_has_node) (nwc_b eps n0))
      (bool_decide
        (map_Forall_dec
          (Obj.magic (fun _ _ -> gmap_fmap Coq0_Pos.eq_dec pos_countable))
          (Obj.magic (fun _ -> gmap_lookup Coq0_Pos.eq_dec pos_countable))
          (fun _ -> gmap_empty Coq0_Pos.eq_dec pos_countable)
          (Obj.magic (fun _ ->
            gmap_partial_alter Coq0_Pos.eq_dec pos_countable))
          (Obj.magic (fun _ _ -> gmap_omap Coq0_Pos.eq_dec pos_countable))
          (Obj.magic (fun _ _ _ -> gmap_merge Coq0_Pos.eq_dec pos_countable))
          (Obj.magic (fun _ -> gmap_to_list Coq0_Pos.eq_dec pos_countable))
          Coq0_Pos.eq_dec (fun _ x ->
          and_dec (decide_rel bool_eq_dec (nonneg_b x.t_req) true)
            (not_dec (decide_rel status_eq_dec x.t_status Pipelined)))
          n0.n_tasks))) (node_acct_b n0)

(** val cinv_b : z -> cache -> bool **)

let cinv_b eps c =
  (&&)
    (bool_decide
      (map_Forall_dec
        (Obj.magic (fun _ _ -> gmap_fmap Coq0_Pos.eq_dec pos_countable))
        (Obj.magic (fun _ -> gmap_lookup Coq0_Pos.eq_dec pos_countable))
        (fun _ -> gmap_empty Coq0_Pos.eq_dec pos_countable)
        (Obj.magic (fun _ ->
          gmap_partial_alter Coq0_Pos.eq_dec pos_countable))
        (Obj.magic (fun _ _ -> gmap_omap Coq0_Pos.eq_dec pos_countable))
        (Obj.magic (fun _ _ _ -> gmap_merge Coq0_Pos.eq_dec pos_countable))
        (Obj.magic (fun _ -> gmap_to_list Coq0_Pos.eq_dec pos_countable))
        Coq0_Pos.eq_dec (fun _ x ->
        and_dec (decide_rel bool_eq_dec (nonneg_b x.t_req) true)
          (not_dec (decide_rel status_eq_dec x.t_status Pipelined))) c.c_heap))
    (bool_decide
      (map_Forall_dec
        (Obj.magic (fun _ _ -> gmap_fmap Coq0_Pos.eq_dec pos_countable))
        (Obj.magic (fun _ -> gmap_lookup Coq0_Pos.eq_dec pos_countable))
        (fun _ -> gmap_empty Coq0_Pos.eq_dec pos_countable)
        (Obj.magic (fun _ ->
          gmap_partial_alter Coq0_Pos.eq_dec pos_countable))
        (Obj.magic (fun _ _ -> gmap_omap Coq0_Pos.eq_dec pos_countable))
        (Obj.magic (fun _ _ _ -> gmap_merge Coq0_Pos.eq_dec pos_countable))
        (Obj.magic (fun _ -> gmap_to_list Coq0_Pos.eq_dec pos_countable))
        Coq0_Pos.eq_dec (fun _ x ->
        decide_rel bool_eq_dec (bnode_ok_b eps x) true) c.c_nodes))

(** val dListC : 'a1 dec -> 'a1 list dec **)

let dListC p = function
| [] -> None
| x :: r ->
  if (||) (Z.ltb x Z0) (Z.ltb (Z.of_nat (length r)) x)
  then None
  else dRep (Z.to_nat x) p r

(** val dJobSpecC : job_spec dec **)

let dJobSpecC =
  bind dPos (fun i ->
    bind dPos (fun q ->
      bind dZ (fun m ->
        bind (dListC (dPair dPos dZ)) (fun rm ->
          ret { js_id = i; js_queue = q; js_min = m; js_role_min = rm }))))

type item =
| IOp of cache_op
| IFlow of positive list
| IBatch of positive list * positive list

(** val ops_of : item list -> cache_op list **)

let ops_of l =
  omap (Obj.magic (fun _ _ -> list_omap)) (fun i ->
    match i with
    | IOp o -> Some o
    | _ -> None) (Obj.magic l)

type bind_case = { bc_eps : z; bc_nodes : node_spec list;
                   bc_jobs : job_spec list; bc_tasks : task_spec list;
                   bc_workers : z; bc_exact : bool; bc_items : item list }

(** val dBindOp : cache_op dec **)

let dBindOp =
  bind dZ (fun k ->
    match k with
    | Z0 ->
      bind dPos (fun j ->
        bind dPos (fun t ->
          bind dPos (fun n0 ->
            ret (OpBind { b_job = j; b_task = t; b_node = n0;
              b_decision_fails = false }))))
    | Zpos p ->
      (match p with
       | XI p0 ->
         (match p0 with
          | XI p1 ->
            (match p1 with
             | XH -> bind dPos (fun n0 -> ret (OpEv (EvRemoveNode n0)))
             | _ -> fail)
          | XO p1 ->
            (match p1 with
             | XH ->
               bind dPos (fun t ->
                 bind dBool (fun _ -> ret (OpEv (EvUpdateUnbound t))))
             | _ -> fail)
          | XH -> bind dPos (fun t -> ret (OpEv (EvDelete t))))
       | XO p0 ->
         (match p0 with
          | XI p1 ->
            (match p1 with
             | XH -> bind dPos (fun t -> ret (OpEv (EvBoundArrives t)))
             | _ -> fail)
          | XO p1 ->
            (match p1 with
             | XH ->
               bind dZ (fun e ->
                 bind dTaskSpec (fun t ->
                   ret (OpEv (EvPodAdd (task_of_spec e t)))))
             | _ -> fail)
          | XH -> bind dPos (fun t -> ret (OpEv (EvTerminating t))))
       | XH ->
         bind dNodeSpec (fun n0 ->
           ret (OpEv (EvNode (n0.ns_id,
             (mk_alloc n0.ns_cpu n0.ns_mem n0.ns_pods n0.ns_gpu))))))
    | Zneg _ -> fail)

(** val dBindReq : item dec **)

let dBindReq l = match l with
| [] -> bind dBindOp (fun o -> ret (IOp o)) l
| z0 :: r ->
  (match z0 with
   | Zpos p ->
     (match p with
      | XI p0 ->
        (match p0 with
         | XO p1 ->
           (match p1 with
            | XO p2 ->
              (match p2 with
               | XH -> bind (dListC dPos) (fun f -> ret (IFlow f)) r
               | _ -> bind dBindOp (fun o -> ret (IOp o)) l)
            | _ -> bind dBindOp (fun o -> ret (IOp o)) l)
         | _ -> bind dBindOp (fun o -> ret (IOp o)) l)
      | XO p0 ->
        (match p0 with
         | XI p1 ->
           (match p1 with
            | XO p2 ->
              (match p2 with
               | XH ->
                 bind (dListC dPos) (fun f ->
                   bind (dListC dPos) (fun g -> ret (IBatch (f, g)))) r
               | _ -> bind dBindOp (fun o -> ret (IOp o)) l)
            | _ -> bind dBindOp (fun o -> ret (IOp o)) l)
         | _ -> bind dBindOp (fun o -> ret (IOp o)) l)
      | XH -> bind dBindOp (fun o -> ret (IOp o)) l)
   | _ -> bind dBindOp (fun o -> ret (IOp o)) l)

(** val dBindCase : bind_case dec **)

let dBindCase =
  bind dZ (fun e ->
    bind (dListC dNodeSpec) (fun ns ->
      bind (dListC dJobSpecC) (fun js ->
        bind (dListC dTaskSpec) (fun ts ->
          bind dZ (fun g ->
            bind dBool (fun x ->
              bind (dListC dBindReq) (fun cs ->
                ret { bc_eps = e; bc_nodes = ns; bc_jobs = js; bc_tasks = ts;
                  bc_workers = g; bc_exact = x; bc_items = cs })))))))

(** val bc_calls : bind_case -> cache_op list **)

let bc_calls b =
  ops_of b.bc_items

(** val cache_of : bind_case -> cache **)

let cache_of b =
  let s = build b.bc_eps b.bc_nodes b.bc_jobs b.bc_tasks in
  { c_heap = s.heap; c_jobs = s.jobs; c_nodes = s.nodes }

(** val eBindRes : bool -> bind_res -> z list **)

let eBindRes exact r = match r with
| BOk -> Z0 :: []
| _ ->
  if negb exact
  then (Zpos XH) :: []
  else (match r with
        | BOk -> Z0 :: []
        | BNoJob -> (Zpos XH) :: []
        | BNoTask -> (Zpos (XO XH)) :: []
        | BNoNode -> (Zpos (XI XH)) :: []
        | BNotReady -> (Zpos (XO (XO (XO XH)))) :: []
        | BDecision -> (Zpos (XO (XO XH))) :: []
        | BRefused e ->
          (match e with
           | ErrDifferentNode -> (Zpos (XI (XO XH))) :: []
           | ErrAlreadyOnNode -> (Zpos (XO (XI XH))) :: []
           | ErrInsufficient -> (Zpos (XI (XI XH))) :: []))

(** val run_bind : bind_case -> z list **)

let run_bind b =
  let c = cache_of b in
  let c' = ops_state b.bc_eps c (bc_calls b) in
  app
    (eList (fun r ->
      match r with
      | Some x -> eBindRes b.bc_exact x
      | None -> (Zpos (XI (XO (XO XH)))) :: [])
      (ops_results b.bc_eps c (bc_calls b)))
    (app ((Zneg (XO (XI (XI (XI (XO (XI XH))))))) :: [])
      (app
        (eList (fun kv -> eTaskBrief (snd kv))
          (sort_kv
            (map_to_list (gmap_to_list Coq0_Pos.eq_dec pos_countable)
              c'.c_heap)))
        (app ((Zneg (XI (XI (XI (XI (XO (XI XH))))))) :: [])
          (app
            (eList (fun kv -> eJob (snd kv))
              (sort_kv
                (map_to_list (gmap_to_list Coq0_Pos.eq_dec pos_countable)
                  c'.c_jobs)))
            (app ((Zneg (XO (XO (XO (XO (XI (XI XH))))))) :: [])
              (eList (fun kv -> eNode (snd kv))
                (sort_kv
                  (map_to_list (gmap_to_list Coq0_Pos.eq_dec pos_countable)
                    c'.c_nodes))))))))

(** val run_agent : bind_case -> z list **)

let run_agent b =
  let c = cache_of b in
  let known =
    fold_left (fun m o ->
      match o with
      | OpBind _ -> m
      | OpEv e ->
        (match e with
         | EvPodAdd t ->
           insert0
             (map_insert (gmap_partial_alter Coq0_Pos.eq_dec pos_countable))
             t.t_id t m
         | _ -> m)) (bc_calls b) c.c_heap
  in
  let step0 = fun acc i ->
    let (p, bound) = acc in
    let (p0, pending) = p in
    let (ns, out) = p0 in
    (match i with
     | IOp o ->
       (match o with
        | OpBind r ->
          (match lookup0 (gmap_lookup Coq0_Pos.eq_dec pos_countable) r.b_task
                   known with
           | Some t ->
             let (ns', x) = agent_add_bind_task b.bc_eps ns t r.b_node in
             (((ns', (app out (eBindRes b.bc_exact x))),
             (match x with
              | BOk -> app pending ((r.b_task, r.b_node) :: [])
              | _ -> pending)), bound)
           | None ->
             (((ns, (app out ((Zpos (XO (XI (XO XH)))) :: []))), pending),
               bound))
        | OpEv e ->
          ((((agent_event b.bc_eps (fun i0 ->
               lookup0 (gmap_lookup Coq0_Pos.eq_dec pos_countable) i0 known)
               ns e), (app out ((Zpos (XI (XO (XO XH)))) :: []))), pending),
            bound))
     | IFlow fails ->
       let ns' =
         fold_left (fun ns0 p1 ->
           if bool_decide
                (decide_rel (elem_of_list_dec Coq0_Pos.eq_dec) (fst p1) fails)
           then agent_event b.bc_eps (fun i0 ->
                  lookup0 (gmap_lookup Coq0_Pos.eq_dec pos_countable) i0 known)
                  ns0 (EvUnbind ((fst p1), (snd p1)))
           else ns0) pending ns
       in
       let bound' =
         flat_map (fun p1 ->
           if bool_decide
                (decide_rel (elem_of_list_dec Coq0_Pos.eq_dec) (fst p1) fails)
           then []
           else (Zpos (fst p1)) :: ((Zpos (snd p1)) :: [])) pending
       in
       (((ns', (app out ((Zpos (XI (XO (XO XH)))) :: []))), []),
       (app bound bound'))
     | IBatch (pf, bf) ->
       let (ns', bd) =
         flow_batch b.bc_eps (fun i0 ->
           lookup0 (gmap_lookup Coq0_Pos.eq_dec pos_countable) i0 known) pf
           bf ns pending
       in
       (((ns', (app out ((Zpos (XI (XO (XO XH)))) :: []))), []),
       (app bound
         (flat_map (fun p1 -> (Zpos (fst p1)) :: ((Zpos (snd p1)) :: [])) bd))))
  in
  let (p, bound) = fold_left step0 b.bc_items (((c.c_nodes, []), []), []) in
  let (p0, _) = p in
  let (ns', out) = p0 in
  (Z.of_nat (length b.bc_items)) :: (app out
                                      (app ((Zneg (XO (XO (XO (XO (XI (XI
                                        XH))))))) :: [])
                                        (app
                                          (eList (fun kv -> eNode (snd kv))
                                            (sort_kv
                                              (map_to_list
                                                (gmap_to_list Coq0_Pos.eq_dec
                                                  pos_countable) ns')))
                                          (app ((Zneg (XI (XO (XO (XO (XI (XI
                                            XH))))))) :: []) bound))))

(** val sum_le_all : task list -> res -> bool **)

let sum_le_all l bound_ =
  let s = sum_req l in
  (&&)
    ((&&) (bool_decide (decide_rel Coq_Z.le_dec s.cpu bound_.cpu))
      (bool_decide (decide_rel Coq_Z.le_dec s.mem bound_.mem)))
    (forallb (fun k ->
      bool_decide (decide_rel Coq_Z.le_dec (sget s k) (sget bound_ k)))
      (res_keys (s :: (bound_ :: []))))

(** val law_bind : bind_case -> (positive * positive list) list -> bool **)

let law_bind b held =
  let ts = map (task_of_spec b.bc_eps) b.bc_tasks in
  forallb (fun n0 ->
    if negb n0.ns_has
    then true
    else let alloc = mk_alloc n0.ns_cpu n0.ns_mem n0.ns_pods n0.ns_gpu in
         let initially =
           filter (fun t ->
             (&&)
               (bool_decide
                 (decide_rel (option_eq_dec Coq0_Pos.eq_dec) t.t_node (Some
                   n0.ns_id))) (on_node_status t.t_status)) ts
         in
         let now_ids =
           flat_map snd
             (filter (fun h ->
               bool_decide (decide_rel Coq0_Pos.eq_dec (fst h) n0.ns_id))
               held)
         in
         implb (sum_le_all initially alloc)
           (sum_le_all
             (filter (fun t ->
               bool_decide
                 (decide_rel (elem_of_list_dec Coq0_Pos.eq_dec) t.t_id
                   now_ids)) ts) alloc)) b.bc_nodes

(** val dBindLaw : (bind_case * (positive * positive list) list) dec **)

let dBindLaw =
  bind dBindCase (fun b ->
    bind (dListC (dPair dPos (dListC dPos))) (fun h -> ret (b, h)))

(** val law_batch :
    ((positive list * positive
    list) * (((positive * positive) * bool) * bool) list) -> bool **)

let law_batch = function
| (p, cs) ->
  let (pf, bf) = p in
  forallb (fun c ->
    let (y, after) = c in
    let (y0, before) = y in
    let (t, _) = y0 in
    eqb after
      ((&&)
        ((&&) before
          (negb
            (bool_decide (decide_rel (elem_of_list_dec Coq0_Pos.eq_dec) t pf))))
        (negb
          (bool_decide (decide_rel (elem_of_list_dec Coq0_Pos.eq_dec) t bf)))))
    cs

(** val dBatchLaw :
    ((positive list * positive
    list) * (((positive * positive) * bool) * bool) list) list dec **)

let dBatchLaw =
  dListC
    (bind (dListC dPos) (fun pf ->
      bind (dListC dPos) (fun bf ->
        bind
          (dListC
            (bind dPos (fun t ->
              bind dPos (fun n0 ->
                bind dBool (fun x ->
                  bind dBool (fun y -> ret (((t, n0), x), y))))))) (fun cs ->
          ret ((pf, bf), cs)))))

(** val dEvictSpec :
    (((z * node_spec list) * job_spec list) * task_spec list) dec **)

let dEvictSpec =
  bind dZ (fun e ->
    bind (dListC dNodeSpec) (fun ns ->
      bind (dListC dJobSpecC) (fun js ->
        bind (dListC dTaskSpec) (fun ts ->
          bind (dListC dZ) (fun _ -> ret (((e, ns), js), ts))))))

(** val run_evict_initial :
    (((z * node_spec list) * job_spec list) * task_spec list) -> z list **)

let run_evict_initial = function
| (p, ts) ->
  let (p0, js) = p in
  let (e, ns) = p0 in
  eList (fun kv -> eNode (snd kv))
    (sort_kv
      (map_to_list (gmap_to_list Coq0_Pos.eq_dec pos_countable)
        (build e ns js ts).nodes))

(** val law_nodes_held :
    z -> node_spec list -> task_spec list -> (positive * (positive * status)
    list) list -> bool **)

let law_nodes_held eps ns tsp held =
  let ts = map (task_of_spec eps) tsp in
  forallb (fun n0 ->
    if negb n0.ns_has
    then true
    else let alloc = mk_alloc n0.ns_cpu n0.ns_mem n0.ns_pods n0.ns_gpu in
         let initially =
           filter (fun t ->
             (&&)
               (bool_decide
                 (decide_rel (option_eq_dec Coq0_Pos.eq_dec) t.t_node (Some
                   n0.ns_id))) (on_node_status t.t_status)) ts
         in
         let h =
           flat_map snd
             (filter (fun x ->
               bool_decide (decide_rel Coq0_Pos.eq_dec (fst x) n0.ns_id))
               held)
         in
         let sel = fun pred ->
           filter (fun t ->
             existsb (fun x ->
               (&&) (bool_decide (decide_rel Coq0_Pos.eq_dec (fst x) t.t_id))
                 (pred (snd x))) h) ts
         in
         let used =
           sel (fun s ->
             negb (bool_decide (decide_rel status_eq_dec s Pipelined)))
         in
         let staying =
           sel (fun s ->
             (&&) (negb (bool_decide (decide_rel status_eq_dec s Pipelined)))
               (negb (bool_decide (decide_rel status_eq_dec s Releasing))))
         in
         let pipelined =
           sel (fun s -> bool_decide (decide_rel status_eq_dec s Pipelined))
         in
         implb (sum_le initially alloc)
           ((&&) (sum_le used alloc) (sum_le (app staying pipelined) alloc)))
    ns

(** val dEvictLaw :
    (((z * node_spec list) * task_spec
    list) * (positive * (positive * status) list) list) dec **)

let dEvictLaw =
  bind dZ (fun e ->
    bind (dListC dNodeSpec) (fun ns ->
      bind (dListC dTaskSpec) (fun ts ->
        bind (dListC (dPair dPos (dListC (dPair dPos dStatus)))) (fun h ->
          ret (((e, ns), ts), h)))))

(** val entry : z -> z list -> z list **)

let entry sel toks =
  match sel with
  | Zpos p ->
    (match p with
     | XI p0 ->
       (match p0 with
        | XI p1 ->
          (match p1 with
           | XO p2 ->
             (match p2 with
              | XO p3 ->
                (match p3 with
                 | XI p4 ->
                   (match p4 with
                    | XI p5 ->
                      (match p5 with
                       | XH ->
                         (match run_dec dBindCase toks with
                          | Some b -> eBool (cinv_b b.bc_eps (cache_of b))
                          | None -> bad_input)
                       | _ -> cycle_entry sel toks)
                    | _ -> cycle_entry sel toks)
                 | _ -> cycle_entry sel toks)
              | _ -> cycle_entry sel toks)
           | _ -> cycle_entry sel toks)
        | XO p1 ->
          (match p1 with
           | XI p2 ->
             (match p2 with
              | XO p3 ->
                (match p3 with
                 | XI p4 ->
                   (match p4 with
                    | XI p5 ->
                      (match p5 with
                       | XH ->
                         (match run_dec dBatchLaw toks with
                          | Some l -> eBool (forallb law_batch l)
                          | None -> bad_input)
                       | _ -> cycle_entry sel toks)
                    | _ -> cycle_entry sel toks)
                 | _ -> cycle_entry sel toks)
              | _ -> cycle_entry sel toks)
           | XO p2 ->
             (match p2 with
              | XO p3 ->
                (match p3 with
                 | XI p4 ->
                   (match p4 with
                    | XI p5 ->
                      (match p5 with
                       | XH ->
                         (match run_dec dLawIn toks with
                          | Some p6 ->
                            let (p7, _) = p6 in
                            let (c, _) = p7 in
                            eBool
                              ((&&) (world_ok_b c.cc_eps (world_of c))
                                (nodes_acct_b (world_of c).w_sess.nodes))
                          | None -> bad_input)
                       | _ -> cycle_entry sel toks)
                    | _ -> cycle_entry sel toks)
                 | _ -> cycle_entry sel toks)
              | _ -> cycle_entry sel toks)
           | XH -> cycle_entry sel toks)
        | XH ->
          (match run_dec dBindCase toks with
           | Some b -> run_agent b
           | None -> bad_input))
     | XO p0 ->
       (match p0 with
        | XI p1 ->
          (match p1 with
           | XI _ -> cycle_entry sel toks
           | XO p2 ->
             (match p2 with
              | XO p3 ->
                (match p3 with
                 | XI p4 ->
                   (match p4 with
                    | XI p5 ->
                      (match p5 with
                       | XH ->
                         (match run_dec dEvictLaw toks with
                          | Some p6 ->
                            let (p7, h) = p6 in
                            let (p8, ts) = p7 in
                            let (e, ns) = p8 in
                            eBool (law_nodes_held e ns ts h)
                          | None -> bad_input)
                       | _ -> cycle_entry sel toks)
                    | _ -> cycle_entry sel toks)
                 | _ -> cycle_entry sel toks)
              | _ -> cycle_entry sel toks)
           | XH ->
             (match run_dec dBindCase toks with
              | Some b ->
                eList (fun r ->
                  match r with
                  | Some x -> eBindRes b.bc_exact x
                  | None -> (Zpos (XI (XO (XO XH)))) :: [])
                  (ops_results b.bc_eps (cache_of b) (bc_calls b))
              | None -> bad_input))
        | XO p1 ->
          (match p1 with
           | XI p2 ->
             (match p2 with
              | XO p3 ->
                (match p3 with
                 | XI p4 ->
                   (match p4 with
                    | XI p5 ->
                      (match p5 with
                       | XH ->
                         (match run_dec dBindLaw toks with
                          | Some p6 -> let (b, h) = p6 in eBool (law_bind b h)
                          | None -> bad_input)
                       | _ -> cycle_entry sel toks)
                    | _ -> cycle_entry sel toks)
                 | _ -> cycle_entry sel toks)
              | _ -> cycle_entry sel toks)
           | XO p2 ->
             (match p2 with
              | XO p3 ->
                (match p3 with
                 | XI p4 ->
                   (match p4 with
                    | XI p5 ->
                      (match p5 with
                       | XH ->
                         (match run_dec dBindLaw toks with
                          | Some p6 -> let (b, h) = p6 in eBool (law_bind b h)
                          | None -> bad_input)
                       | _ -> cycle_entry sel toks)
                    | _ -> cycle_entry sel toks)
                 | _ -> cycle_entry sel toks)
              | _ -> cycle_entry sel toks)
           | XH ->
             (match run_dec dEvictSpec toks with
              | Some x -> run_evict_initial x
              | None -> bad_input))
        | XH ->
          (match run_dec dBindCase toks with
           | Some b -> run_bind b
           | None -> bad_input))
     | XH -> cycle_entry sel toks)
  | _ -> cycle_entry sel toks
