
type __ = Obj.t

val implb : bool -> bool -> bool

val negb : bool -> bool

type nat =
| O
| S of nat

val option_map : ('a1 -> 'a2) -> 'a1 option -> 'a2 option

type ('a, 'b) sum =
| Inl of 'a
| Inr of 'b

val fst : ('a1 * 'a2) -> 'a1

val snd : ('a1 * 'a2) -> 'a2

val uncurry : ('a1 -> 'a2 -> 'a3) -> ('a1 * 'a2) -> 'a3

val prod_curry_subdef : ('a1 -> 'a2 -> 'a3) -> ('a1 * 'a2) -> 'a3

val length : 'a1 list -> nat

val app : 'a1 list -> 'a1 list -> 'a1 list

type comparison =
| Eq
| Lt
| Gt

val compOpp : comparison -> comparison

val id : __ -> __

val add : nat -> nat -> nat

val sub : nat -> nat -> nat

type positive =
| XI of positive
| XO of positive
| XH

type n =
| N0
| Npos of positive

type z =
| Z0
| Zpos of positive
| Zneg of positive

val compose : ('a2 -> 'a3) -> ('a1 -> 'a2) -> 'a1 -> 'a3

val flip : ('a1 -> 'a2 -> 'a3) -> 'a2 -> 'a1 -> 'a3

val eqb : bool -> bool -> bool

module Pos :
 sig
  type mask =
  | IsNul
  | IsPos of positive
  | IsNeg
 end

module Coq_Pos :
 sig
  val succ : positive -> positive

  val add : positive -> positive -> positive

  val add_carry : positive -> positive -> positive

  val pred_double : positive -> positive

  type mask = Pos.mask =
  | IsNul
  | IsPos of positive
  | IsNeg

  val succ_double_mask : mask -> mask

  val double_mask : mask -> mask

  val double_pred_mask : positive -> mask

  val sub_mask : positive -> positive -> mask

  val sub_mask_carry : positive -> positive -> mask

  val mul : positive -> positive -> positive

  val compare_cont : comparison -> positive -> positive -> comparison

  val compare : positive -> positive -> comparison

  val min : positive -> positive -> positive

  val eqb : positive -> positive -> bool

  val leb : positive -> positive -> bool

  val iter_op : ('a1 -> 'a1 -> 'a1) -> positive -> 'a1 -> 'a1

  val to_nat : positive -> nat

  val of_succ_nat : nat -> positive

  val eq_dec : positive -> positive -> bool
 end

module N :
 sig
  val succ_double : n -> n

  val double : n -> n

  val sub : n -> n -> n

  val compare : n -> n -> comparison

  val leb : n -> n -> bool

  val pos_div_eucl : positive -> n -> n * n
 end

module Z :
 sig
  val double : z -> z

  val succ_double : z -> z

  val pred_double : z -> z

  val pos_sub : positive -> positive -> z

  val add : z -> z -> z

  val opp : z -> z

  val sub : z -> z -> z

  val mul : z -> z -> z

  val compare : z -> z -> comparison

  val leb : z -> z -> bool

  val ltb : z -> z -> bool

  val eqb : z -> z -> bool

  val abs : z -> z

  val to_nat : z -> nat

  val of_nat : nat -> z

  val of_N : n -> z

  val to_pos : z -> positive

  val quotrem : z -> z -> z * z

  val eq_dec : z -> z -> bool
 end

val z_lt_dec : z -> z -> bool

val z_le_dec : z -> z -> bool

val rev : 'a1 list -> 'a1 list

val map : ('a1 -> 'a2) -> 'a1 list -> 'a2 list

val flat_map : ('a1 -> 'a2 list) -> 'a1 list -> 'a2 list

val fold_left : ('a1 -> 'a2 -> 'a1) -> 'a2 list -> 'a1 -> 'a1

val fold_right : ('a2 -> 'a1 -> 'a1) -> 'a1 -> 'a2 list -> 'a1

val existsb : ('a1 -> bool) -> 'a1 list -> bool

val forallb : ('a1 -> bool) -> 'a1 list -> bool

val filter : ('a1 -> bool) -> 'a1 list -> 'a1 list

val firstn : nat -> 'a1 list -> 'a1 list

type 'a dec = z list -> ('a * z list) option

val ret : 'a1 -> 'a1 dec

val fail : 'a1 dec

val bind : 'a1 dec -> ('a1 -> 'a2 dec) -> 'a2 dec

val dZ : z dec

val dBool : bool dec

val dNat : nat dec

val dPos : positive dec

val dRep : nat -> 'a1 dec -> 'a1 list dec

val dList : 'a1 dec -> 'a1 list dec

val dPair : 'a1 dec -> 'a2 dec -> ('a1 * 'a2) dec

val run_dec : 'a1 dec -> z list -> 'a1 option

val eBool : bool -> z list

val ePos : positive -> z list

val eList : ('a1 -> z list) -> 'a1 list -> z list

val bad_input : z list

val z_mul10_add : z -> z -> z

val z_divmod10 : z -> z * z

val z_neg : z -> z

val ins_kv : positive -> 'a1 -> (positive * 'a1) list -> (positive * 'a1) list

val sort_kv : (positive * 'a1) list -> (positive * 'a1) list

val sort_pos : positive list -> positive list

type decision = bool

val decide : decision -> bool

type ('a, 'b) relDecision = 'a -> 'b -> decision

val decide_rel : ('a1, 'a2) relDecision -> 'a1 -> 'a2 -> decision

type 'a empty = 'a

val empty0 : 'a1 empty -> 'a1

type 'a union = 'a -> 'a -> 'a

val union0 : 'a1 union -> 'a1 -> 'a1 -> 'a1

type 'a difference = 'a -> 'a -> 'a

val difference0 : 'a1 difference -> 'a1 -> 'a1 -> 'a1

type ('a, 'b) singleton = 'a -> 'b

val singleton0 : ('a1, 'a2) singleton -> 'a1 -> 'a2

val list_to_set :
  ('a1, 'a2) singleton -> 'a2 empty -> 'a2 union -> 'a1 list -> 'a2

type ('a, 'b) filter0 = __ -> ('a -> decision) -> 'b -> 'b

val filter1 : ('a1, 'a2) filter0 -> ('a1 -> decision) -> 'a2 -> 'a2

type 'm mBind = __ -> __ -> (__ -> 'm) -> 'm -> 'm

val mbind : 'a1 mBind -> ('a2 -> 'a1) -> 'a1 -> 'a1

type 'm fMap = __ -> __ -> (__ -> __) -> 'm -> 'm

val fmap : 'a1 fMap -> ('a2 -> 'a3) -> 'a1 -> 'a1

type 'm oMap = __ -> __ -> (__ -> __ option) -> 'm -> 'm

val omap : 'a1 oMap -> ('a2 -> 'a3 option) -> 'a1 -> 'a1

type ('k, 'a, 'm) lookup = 'k -> 'm -> 'a option

val lookup0 : ('a1, 'a2, 'a3) lookup -> 'a1 -> 'a3 -> 'a2 option

type ('k, 'a, 'm) singletonM = 'k -> 'a -> 'm

val singletonM0 : ('a1, 'a2, 'a3) singletonM -> 'a1 -> 'a2 -> 'a3

type ('k, 'a, 'm) insert = 'k -> 'a -> 'm -> 'm

val insert0 : ('a1, 'a2, 'a3) insert -> 'a1 -> 'a2 -> 'a3 -> 'a3

type ('k, 'm) delete = 'k -> 'm -> 'm

val delete0 : ('a1, 'a2) delete -> 'a1 -> 'a2 -> 'a2

type ('k, 'a, 'm) partialAlter = ('a option -> 'a option) -> 'k -> 'm -> 'm

val partial_alter :
  ('a1, 'a2, 'a3) partialAlter -> ('a2 option -> 'a2 option) -> 'a1 -> 'a3 ->
  'a3

type ('m, 'd) dom = 'm -> 'd

val dom0 : ('a1, 'a2) dom -> 'a1 -> 'a2

type 'm merge =
  __ -> __ -> __ -> (__ option -> __ option -> __ option) -> 'm -> 'm -> 'm

val merge0 :
  'a1 merge -> ('a2 option -> 'a3 option -> 'a4 option) -> 'a1 -> 'a1 -> 'a1

type ('a, 'm) unionWith = ('a -> 'a -> 'a option) -> 'm -> 'm -> 'm

val union_with :
  ('a1, 'a2) unionWith -> ('a1 -> 'a1 -> 'a1 option) -> 'a2 -> 'a2 -> 'a2

type ('a, 'm) differenceWith = ('a -> 'a -> 'a option) -> 'm -> 'm -> 'm

val difference_with :
  ('a1, 'a2) differenceWith -> ('a1 -> 'a1 -> 'a1 option) -> 'a2 -> 'a2 -> 'a2

type ('a, 'c) elements = 'c -> 'a list

val elements0 : ('a1, 'a2) elements -> 'a2 -> 'a1 list

type 'c size = 'c -> nat

val size0 : 'a1 size -> 'a1 -> nat

val not_dec : decision -> decision

val and_dec : decision -> decision -> decision

val bool_eq_dec : (bool, bool) relDecision

val unit_eq_dec : (unit, unit) relDecision

val uncurry_dec : ('a1 -> 'a2 -> decision) -> ('a1 * 'a2) -> decision

val bool_decide : decision -> bool

val from_option : ('a1 -> 'a2) -> 'a2 -> 'a1 option -> 'a2

val is_Some_dec : 'a1 option -> decision

val option_eq_None_dec : 'a1 option -> decision

val option_eq_dec :
  ('a1, 'a1) relDecision -> ('a1 option, 'a1 option) relDecision

val option_bind : (__ -> __ option) -> __ option -> __ option

val option_fmap : (__ -> __) -> __ option -> __ option

val option_union_with : ('a1, 'a1 option) unionWith

val option_difference_with : ('a1, 'a1 option) differenceWith

module Coq0_Pos :
 sig
  val eq_dec : (positive, positive) relDecision

  val reverse_go : positive -> positive -> positive

  val reverse : positive -> positive
 end

module Coq_Z :
 sig
  val eq_dec : (z, z) relDecision

  val le_dec : (z, z) relDecision

  val lt_dec : (z, z) relDecision
 end

val list_filter : ('a1 -> decision) -> 'a1 list -> 'a1 list

val list_fmap : (__ -> __) -> __ list -> __ list

val list_omap : (__ -> __ option) -> __ list -> __ list

val elem_of_list_dec : ('a1, 'a1) relDecision -> ('a1, 'a1 list) relDecision

val list_eq_nil_dec : 'a1 list -> decision

val forall_Exists_dec : ('a1 -> bool) -> 'a1 list -> bool

val forall_dec : ('a1 -> decision) -> 'a1 list -> decision

type 'a countable = { encode : ('a -> positive);
                      decode : (positive -> 'a option) }

val pos_countable : positive countable

val set_size : ('a1, 'a2) elements -> 'a2 size

type ('k, 'a, 'm) finMapToList = 'm -> ('k * 'a) list

val map_to_list : ('a1, 'a2, 'a3) finMapToList -> 'a3 -> ('a1 * 'a2) list

val diag_None :
  ('a1 option -> 'a2 option -> 'a3 option) -> 'a1 option -> 'a2 option -> 'a3
  option

val map_insert : ('a1, 'a2, 'a3) partialAlter -> ('a1, 'a2, 'a3) insert

val map_delete : ('a1, 'a2, 'a3) partialAlter -> ('a1, 'a3) delete

val map_singleton :
  ('a1, 'a2, 'a3) partialAlter -> 'a3 empty -> ('a1, 'a2, 'a3) singletonM

val list_to_map :
  ('a1, 'a2, 'a3) insert -> 'a3 empty -> ('a1 * 'a2) list -> 'a3

val map_union_with : 'a1 merge -> ('a2, 'a1) unionWith

val map_difference_with : 'a1 merge -> ('a2, 'a1) differenceWith

val map_union : 'a1 merge -> 'a1 union

val map_difference : 'a1 merge -> 'a1 difference

val map_fold :
  ('a1, 'a2, 'a3) finMapToList -> ('a1 -> 'a2 -> 'a4 -> 'a4) -> 'a4 -> 'a3 ->
  'a4

val map_eq_dec_empty :
  'a2 fMap -> (__ -> ('a1, __, 'a2) lookup) -> (__ -> 'a2 empty) -> (__ ->
  ('a1, __, 'a2) partialAlter) -> 'a2 oMap -> 'a2 merge -> (__ -> ('a1, __,
  'a2) finMapToList) -> ('a1, 'a1) relDecision -> 'a2 -> decision

val map_Forall_dec :
  'a2 fMap -> (__ -> ('a1, __, 'a2) lookup) -> (__ -> 'a2 empty) -> (__ ->
  ('a1, __, 'a2) partialAlter) -> 'a2 oMap -> 'a2 merge -> (__ -> ('a1, __,
  'a2) finMapToList) -> ('a1, 'a1) relDecision -> ('a1 -> 'a3 -> decision) ->
  'a2 -> decision

type 'munit mapset' =
  'munit
  (* singleton inductive, whose constructor was Mapset *)

val mapset_car : 'a1 mapset' -> 'a1

val mapset_empty : (__ -> 'a1 empty) -> 'a1 mapset' empty

val mapset_singleton :
  (__ -> 'a2 empty) -> (__ -> ('a1, __, 'a2) partialAlter) -> ('a1, 'a2
  mapset') singleton

val mapset_union : 'a1 merge -> 'a1 mapset' union

val mapset_difference : 'a1 merge -> 'a1 mapset' difference

val mapset_elements :
  (__ -> ('a1, __, 'a2) finMapToList) -> ('a1, 'a2 mapset') elements

val mapset_eq_dec :
  ('a1, 'a1) relDecision -> ('a1 mapset', 'a1 mapset') relDecision

val mapset_elem_of_dec :
  (__ -> ('a1, __, 'a2) lookup) -> ('a1, 'a2 mapset') relDecision

val mapset_dom_with :
  (__ -> 'a1 empty) -> 'a1 merge -> ('a2 -> bool) -> 'a1 -> 'a1 mapset'

val mapset_dom : (__ -> 'a1 empty) -> 'a1 merge -> ('a1, 'a1 mapset') dom

type 'a pmap_raw =
| PLeaf
| PNode of 'a option * 'a pmap_raw * 'a pmap_raw

val pmap_raw_eq_dec :
  ('a1, 'a1) relDecision -> ('a1 pmap_raw, 'a1 pmap_raw) relDecision

val pNode' : 'a1 option -> 'a1 pmap_raw -> 'a1 pmap_raw -> 'a1 pmap_raw

val pempty_raw : 'a1 pmap_raw empty

val plookup_raw : (positive, 'a1, 'a1 pmap_raw) lookup

val psingleton_raw : positive -> 'a1 -> 'a1 pmap_raw

val ppartial_alter_raw :
  ('a1 option -> 'a1 option) -> positive -> 'a1 pmap_raw -> 'a1 pmap_raw

val pfmap_raw : ('a1 -> 'a2) -> 'a1 pmap_raw -> 'a2 pmap_raw

val pto_list_raw :
  positive -> 'a1 pmap_raw -> (positive * 'a1) list -> (positive * 'a1) list

val pomap_raw : ('a1 -> 'a2 option) -> 'a1 pmap_raw -> 'a2 pmap_raw

val pmerge_raw :
  ('a1 option -> 'a2 option -> 'a3 option) -> 'a1 pmap_raw -> 'a2 pmap_raw ->
  'a3 pmap_raw

type 'a pmap =
  'a pmap_raw
  (* singleton inductive, whose constructor was PMap *)

val pmap_car : 'a1 pmap -> 'a1 pmap_raw

val pmap_eq_dec : ('a1, 'a1) relDecision -> ('a1 pmap, 'a1 pmap) relDecision

val pempty : 'a1 pmap empty

val plookup : (positive, 'a1, 'a1 pmap) lookup

val ppartial_alter : (positive, 'a1, 'a1 pmap) partialAlter

val pfmap : (__ -> __) -> __ pmap -> __ pmap

val pto_list : (positive, 'a1, 'a1 pmap) finMapToList

val pomap : (__ -> __ option) -> __ pmap -> __ pmap

val pmerge :
  (__ option -> __ option -> __ option) -> __ pmap -> __ pmap -> __ pmap

type ('k, 'a) gmap =
  'a pmap
  (* singleton inductive, whose constructor was GMap *)

val gmap_car :
  ('a1, 'a1) relDecision -> 'a1 countable -> ('a1, 'a2) gmap -> 'a2 pmap

val gmap_eq_eq :
  ('a1, 'a1) relDecision -> 'a1 countable -> ('a2, 'a2) relDecision -> (('a1,
  'a2) gmap, ('a1, 'a2) gmap) relDecision

val gmap_lookup :
  ('a1, 'a1) relDecision -> 'a1 countable -> ('a1, 'a2, ('a1, 'a2) gmap)
  lookup

val gmap_empty :
  ('a1, 'a1) relDecision -> 'a1 countable -> ('a1, 'a2) gmap empty

val gmap_partial_alter :
  ('a1, 'a1) relDecision -> 'a1 countable -> ('a1, 'a2, ('a1, 'a2) gmap)
  partialAlter

val gmap_fmap :
  ('a1, 'a1) relDecision -> 'a1 countable -> (__ -> __) -> ('a1, __) gmap ->
  ('a1, __) gmap

val gmap_omap :
  ('a1, 'a1) relDecision -> 'a1 countable -> (__ -> __ option) -> ('a1, __)
  gmap -> ('a1, __) gmap

val gmap_merge :
  ('a1, 'a1) relDecision -> 'a1 countable -> (__ option -> __ option -> __
  option) -> ('a1, __) gmap -> ('a1, __) gmap -> ('a1, __) gmap

val gmap_to_list :
  ('a1, 'a1) relDecision -> 'a1 countable -> ('a1, 'a2, ('a1, 'a2) gmap)
  finMapToList

type 'k gset = ('k, unit) gmap mapset'

val gset_empty : ('a1, 'a1) relDecision -> 'a1 countable -> 'a1 gset empty

val gset_singleton :
  ('a1, 'a1) relDecision -> 'a1 countable -> ('a1, 'a1 gset) singleton

val gset_union : ('a1, 'a1) relDecision -> 'a1 countable -> 'a1 gset union

val gset_difference :
  ('a1, 'a1) relDecision -> 'a1 countable -> 'a1 gset difference

val gset_elements :
  ('a1, 'a1) relDecision -> 'a1 countable -> ('a1, 'a1 gset) elements

val gset_eq_dec :
  ('a1, 'a1) relDecision -> 'a1 countable -> ('a1 gset, 'a1 gset) relDecision

val gset_elem_of_dec :
  ('a1, 'a1) relDecision -> 'a1 countable -> ('a1, 'a1 gset) relDecision

val gset_dom :
  ('a1, 'a1) relDecision -> 'a1 countable -> (('a1, 'a2) gmap, 'a1 gset) dom

type res = { cpu : z; mem : z; sc : (positive, z) gmap option }

val res_eq_dec : (res, res) relDecision

type dflt =
| DZero
| DInf

val pods_name : positive

val ignored : positive -> bool

val empty_res : res

val scm : res -> (positive, z) gmap

val sget : res -> positive -> z

val lt : z -> z -> bool

val le : z -> z -> z -> bool

val add0 : res -> res -> res

val sub_f : z option -> z option -> z option

val sub0 : res -> res -> res

val map_allb : (positive -> 'a1 -> bool) -> (positive, 'a1) gmap -> bool

val map_anyb : (positive -> 'a1 -> bool) -> (positive, 'a1) gmap -> bool

val keys_where :
  (positive -> 'a1 -> bool) -> (positive, 'a1) gmap -> positive list

val is_empty : z -> res -> bool

val has_missing : res -> res -> bool

val cmp_at : (z -> z -> bool) -> res -> dflt -> bool -> positive -> z -> bool

val all_sc : (z -> z -> bool) -> res -> res -> dflt -> bool

val less_equal : z -> res -> res -> dflt -> bool

val le_names : z -> res -> res -> dflt -> (bool * bool) * positive list

val names_none : ((bool * bool) * positive list) -> bool

val less_equal_names : z -> res -> res -> dflt -> bool

val req_sel : positive -> z -> bool

val le_dim_names : res -> res -> res -> (bool * bool) * positive list

val le_dim : res -> res -> res -> bool

val dRes : res dec

val eRes : res -> z list

type status =
| Pending
| Allocated
| Pipelined
| Binding
| Bound
| Running
| Releasing
| Succeeded
| Failed
| Unknown

val status_eq_dec : (status, status) relDecision

val skey : status -> positive

val status_of_key : positive -> status option

val allocated_status : status -> bool

type task = { t_id : positive; t_job : positive; t_sub : positive;
              t_role : positive; t_prio : z; t_req : res; t_init : res;
              t_best_effort : bool; t_preemptable : bool; t_status : 
              status; t_node : positive option }

val set_status : task -> status -> task

val set_node : task -> positive option -> task

val idx_add :
  (positive, positive gset) gmap -> status -> positive -> (positive, positive
  gset) gmap

val idx_del :
  (positive, positive gset) gmap -> status -> positive -> (positive, positive
  gset) gmap

type subjob = { sj_min : z; sj_tasks : positive gset;
                sj_index : (positive, positive gset) gmap }

type job = { j_id : positive; j_queue : positive; j_min : z;
             j_role_min : (positive, z) gmap; j_role_total : z;
             j_tasks : positive gset;
             j_index : (positive, positive gset) gmap; j_alloc : res;
             j_total : res; j_subs : (positive, subjob) gmap;
             j_task_sub : (positive, positive) gmap }

type node = { n_id : positive; n_has_node : bool; n_idle : res; n_used : 
              res; n_releasing : res; n_pipelined : res; n_alloc : res;
              n_tasks : (positive, task) gmap }

val empty_sub : job -> subjob

val job_add : job -> task -> job

val job_del : job -> task -> job

val job_update : (positive, task) gmap -> job -> task -> status -> job * task

type add_err =
| ErrDifferentNode
| ErrAlreadyOnNode
| ErrInsufficient

val node_with :
  node -> res -> res -> res -> res -> (positive, task) gmap -> node

val node_add : z -> node -> task -> (node * task, add_err) sum

val node_remove : node -> positive -> node

val node_update : z -> node -> task -> (node * task, add_err) sum

val future_idle : node -> res

type opkind =
| KEvict
| KPipeline
| KAllocate

val opkind_eq_dec : (opkind, opkind) relDecision

type oprec = { op_kind : opkind; op_task : positive; op_prev : status }

type savedop = { so_kind : opkind; so_task : task; so_prev : status }

type hev = { he_alloc : bool; he_task : positive; he_status : status;
             he_node : positive option }

type sess = { heap : (positive, task) gmap; jobs : (positive, job) gmap;
              nodes : (positive, node) gmap; hshare : (positive, res) gmap;
              hlog : hev list; herr : positive gset;
              refuse_bind : positive gset; refuse_evict : positive gset;
              binds : (positive * positive option) list;
              evicts : positive list; stmts : (positive, oprec list) gmap;
              saved : (positive, savedop list) gmap; job_ready : bool }

val upd_heap : sess -> (positive, task) gmap -> sess

val upd_jobs : sess -> (positive, job) gmap -> sess

val upd_nodes : sess -> (positive, node) gmap -> sess

val upd_handlers : sess -> (positive, res) gmap -> hev list -> sess

val upd_logs :
  sess -> (positive * positive option) list -> positive list -> sess

val upd_stmts : sess -> (positive, oprec list) gmap -> sess

val put_task : sess -> task -> sess

val ssn_update_status : sess -> task -> status -> (bool * sess) * task

val h_alloc : sess -> task -> bool * sess

val h_dealloc : sess -> task -> sess

val ssn_node_remove : sess -> task -> sess

val ssn_node_update : z -> sess -> task -> (sess * task) * bool

val unallocate_with : sess -> task -> sess

val unpipeline_with : sess -> task -> sess

val restore_status : status -> status

val unevict_with : z -> sess -> task -> status -> sess * bool

val push_op : sess -> positive -> opkind -> positive -> status -> sess

type result =
| ROk
| RErr
| RFatal
| RNoTask

val place_with :
  z -> sess -> positive -> opkind -> task -> positive -> sess * result

val with_task : sess -> positive -> (task -> sess * result) -> sess * result

val stmt_allocate :
  z -> sess -> positive -> positive -> positive -> sess * result

val stmt_pipeline :
  z -> sess -> positive -> positive -> positive -> sess * result

val undo_op : z -> sess -> oprec -> sess

val stmt_discard : z -> sess -> positive -> sess

val commit_op : z -> sess -> oprec -> sess

val stmt_commit : z -> sess -> positive -> sess

val dispatch : sess -> positive -> sess * bool

val dispatch_all : sess -> positive list -> sess * bool

val ssn_place_with :
  z -> (sess -> job -> bool) -> sess -> opkind -> positive -> positive ->
  sess * result

val grid : z

val mk_req : z -> z -> z -> res

val mk_alloc : z -> z -> z -> z -> res

val dStatus : status dec

val dNodeRef : positive option dec

val eNodeRef : positive option -> z list

type task_spec = { ts_id : positive; ts_job : positive; ts_role : positive;
                   ts_prio : z; ts_cpu : z; ts_mem : z; ts_gpu : z;
                   ts_status : status; ts_node : positive option;
                   ts_preempt : bool }

type node_spec = { ns_id : positive; ns_has : bool; ns_cpu : z; ns_mem : 
                   z; ns_pods : z; ns_gpu : z }

type job_spec = { js_id : positive; js_queue : positive; js_min : z;
                  js_role_min : (positive * z) list }

val dTaskSpec : task_spec dec

val dNodeSpec : node_spec dec

val dJobSpec : job_spec dec

val task_of_spec : z -> task_spec -> task

val empty_job : job_spec -> job

val empty_node : node_spec -> node

val on_node_status : status -> bool

val build : z -> node_spec list -> job_spec list -> task_spec list -> sess

val eSet : positive gset -> z list

val eIndex : (positive, positive gset) gmap -> z list

val eTaskBrief : task -> z list

val eJob : job -> z list

val eNode : node -> z list

val res_keys : res list -> positive list

val sum_req : task list -> res

val idx_set : (positive, positive gset) gmap -> status -> positive gset

val idx_count : (positive, positive gset) gmap -> status -> z

val ready_num : (positive, positive gset) gmap -> z

val waiting_num : (positive, positive gset) gmap -> z

val is_best_effort : (positive, task) gmap -> positive -> bool

val count_set : (positive -> bool) -> positive gset -> z

val pending_be_num :
  (positive, task) gmap -> (positive, positive gset) gmap -> z

val is_ready :
  (positive, task) gmap -> (positive, positive gset) gmap -> z -> bool

val is_pipelined :
  (positive, task) gmap -> (positive, positive gset) gmap -> z -> bool

val has_role : (positive, task) gmap -> positive -> positive -> bool

val role_occupied :
  (positive, task) gmap -> (positive, positive gset) gmap -> bool -> positive
  -> z

val roles_ok : (positive, task) gmap -> job -> bool -> bool

val check_task_ready : (positive, task) gmap -> job -> bool

val check_task_pipelined : (positive, task) gmap -> job -> bool

val gang_job_ready : (positive, task) gmap -> job -> bool

val gang_job_pipelined : (positive, task) gmap -> job -> bool

val gang_sub_ready : (positive, task) gmap -> job -> bool

val gang_sub_pipelined : (positive, task) gmap -> job -> bool

type qattr = { q_open : bool; q_limit : res; q_has_plugin : bool }

type world = { w_sess : sess; w_queues : (positive, qattr) gmap;
               w_next_stmt : positive }

val queue_allocatable : world -> res -> qattr -> task -> bool

type placement =
| PlacedAlloc
| PlacedPipe
| PlacedNone
| PlaceRefused

val try_place :
  z -> sess -> positive -> positive -> positive -> sess * placement

type decision0 =
| DCommit
| DKeep
| DDiscard

val decide0 : sess -> positive -> decision0

type cop =
| CAttempt of positive * (positive * positive) list
| CBackfill of positive * positive

type verdict =
| VOk
| VQueueRefuses of positive
| VNotPending of positive
| VNotBestEffort of positive

val share_of : sess -> positive -> res

val do_places :
  z -> world -> sess -> positive -> positive -> (positive * positive) list ->
  sess * verdict

val step : z -> world -> cop -> world * verdict

type queue_spec = { qs_id : positive; qs_open : bool; qs_weight : z;
                    qs_cap_cpu : z; qs_cap_mem : z }

val dQueueSpec : queue_spec dec

val dCycleJob : job_spec dec

val dCop : cop dec

type cycle_case = { cc_eps : z; cc_nodes : node_spec list;
                    cc_queues : queue_spec list; cc_jobs : job_spec list;
                    cc_tasks : task_spec list; cc_prop : bool;
                    cc_actions : z list; cc_limits : (positive * res) list;
                    cc_cops : cop list }

val dCycle : cycle_case dec

val world_of : cycle_case -> world

val eVerdict : verdict -> z

val new_prefix : 'a1 list -> 'a1 list -> 'a1 list

val eCopStep : sess -> sess -> verdict -> z list

val run_cops : z -> world -> cop list -> z list * world

val eFinal : sess -> z list

val run_cycle_dump : cycle_case -> z list

val dTaskBrief : ((positive * status) * positive option) dec

val dSet : positive gset dec

val dIndex : (positive, positive gset) gmap dec

val dTaskFull : task dec

val dJobDump : job dec

val dNodeDump : (positive, task) gmap -> node dec

type dump = { d_heap : (positive, task) gmap; d_jobs : (positive, job) gmap;
              d_nodes : (positive, node) gmap; d_share : (positive, res) gmap }

val dDump : dump dec

val spec_tasks : cycle_case -> task list

val final_status : dump -> task -> status

val visible_ready : dump -> task -> bool

val count_tasks : (task -> bool) -> task list -> z

val gang_ok : cycle_case -> dump -> job_spec -> bool

val law_gang : cycle_case -> dump -> positive list -> bool

val on_node_at :
  cycle_case -> positive -> (positive, task) gmap -> (status -> bool) -> task
  list

val sum_le : task list -> res -> bool

val node_initially_ok : cycle_case -> node_spec -> bool

val law_nodes : cycle_case -> dump -> bool

val placed_status : status -> bool

val holds_quota : status -> bool

val queue_of_task : cycle_case -> task -> positive option

val newly_placed : dump -> task -> bool

val law_queues : cycle_case -> dump -> bool

val dLawIn : ((cycle_case * dump) * positive list) dec

val cycle_entry : z -> z list -> z list

type dim =
| DCpu
| DMem
| DSc of positive

val amt : res -> dim -> z

val sum_amt : (task -> z) -> task list -> z

val used_amt : dim -> task -> z

val rel_amt : dim -> task -> z

val pip_amt : dim -> task -> z

val fut_amt : node -> dim -> z

val nonneg_b : res -> bool

val granular_b : z -> res -> bool

val task_pre_b : z -> task -> bool

val task_ok_b : z -> task -> bool

val node_keys : node -> positive list

val dim_okb : z -> node -> dim -> bool

val nwc_b : z -> node -> bool

val node_safe_b : z -> node -> bool

val no_evict_b : oprec list -> bool

val sess_pre_b : (task -> bool) -> sess -> bool

val world_ok_b : z -> world -> bool

val csum : (task -> z) -> (positive, task) gmap -> z

val res_keys1 : res -> positive list

val acct_keys : node -> positive list

val acct_dim_b : node -> dim -> bool

val node_acct_b : node -> bool

val nodes_acct_b : (positive, node) gmap -> bool

type cache = { c_heap : (positive, task) gmap; c_jobs : (positive, job) gmap;
               c_nodes : (positive, node) gmap }

type bind_req = { b_job : positive; b_task : positive; b_node : positive;
                  b_decision_fails : bool }

type bind_res =
| BOk
| BNoJob
| BNoTask
| BNoNode
| BNotReady
| BDecision
| BRefused of add_err

val add_bind_task : z -> cache -> bind_req -> cache * bind_res

val agent_add_bind_task :
  z -> (positive, node) gmap -> task -> positive -> (positive, node)
  gmap * bind_res

type cache_ev =
| EvNode of positive * res
| EvTerminating of positive
| EvDelete of positive
| EvPodAdd of task
| EvUpdateUnbound of positive
| EvBoundArrives of positive
| EvRemoveNode of positive
| EvUnbind of positive * positive

val node_set_acc : node -> task -> node

val node_set : node -> res -> node

val fresh_node : positive -> res -> node

val placeholder : positive -> node

val terminated : status -> bool

val add_to_node : z -> (positive, node) gmap -> task -> (positive, node) gmap

val remove_from_node : (positive, node) gmap -> task -> (positive, node) gmap

val node_event :
  (positive, node) gmap -> positive -> res -> (positive, node) gmap

val cache_event : z -> cache -> cache_ev -> cache

val find_binding : (positive, node) gmap -> positive -> positive option

val agent_event :
  z -> (positive -> task option) -> (positive, node) gmap -> cache_ev ->
  (positive, node) gmap

val flow_unbind :
  z -> (positive -> task option) -> positive list -> (positive, node) gmap ->
  (positive * positive) -> (positive, node) gmap

val flow_pass :
  positive list -> (positive * positive) list -> (positive * positive) list

val flow_batch :
  z -> (positive -> task option) -> positive list -> positive list ->
  (positive, node) gmap -> (positive * positive) list -> (positive, node)
  gmap * (positive * positive) list

type cache_op =
| OpBind of bind_req
| OpEv of cache_ev

val cache_step : z -> cache -> cache_op -> cache * bind_res

val ops_state : z -> cache -> cache_op list -> cache

val ops_results : z -> cache -> cache_op list -> bind_res option list

val bnode_ok_b : z -> node -> bool

val cinv_b : z -> cache -> bool

val dListC : 'a1 dec -> 'a1 list dec

val dJobSpecC : job_spec dec

type item =
| IOp of cache_op
| IFlow of positive list
| IBatch of positive list * positive list

val ops_of : item list -> cache_op list

type bind_case = { bc_eps : z; bc_nodes : node_spec list;
                   bc_jobs : job_spec list; bc_tasks : task_spec list;
                   bc_workers : z; bc_exact : bool; bc_items : item list }

val dBindOp : cache_op dec

val dBindReq : item dec

val dBindCase : bind_case dec

val bc_calls : bind_case -> cache_op list

val cache_of : bind_case -> cache

val eBindRes : bool -> bind_res -> z list

val run_bind : bind_case -> z list

val run_agent : bind_case -> z list

val sum_le_all : task list -> res -> bool

val law_bind : bind_case -> (positive * positive list) list -> bool

val dBindLaw : (bind_case * (positive * positive list) list) dec

val law_batch :
  ((positive list * positive list) * (((positive * positive) * bool) * bool)
  list) -> bool

val dBatchLaw :
  ((positive list * positive list) * (((positive * positive) * bool) * bool)
  list) list dec

val dEvictSpec : (((z * node_spec list) * job_spec list) * task_spec list) dec

val run_evict_initial :
  (((z * node_spec list) * job_spec list) * task_spec list) -> z list

val law_nodes_held :
  z -> node_spec list -> task_spec list -> (positive * (positive * status)
  list) list -> bool

val dEvictLaw :
  (((z * node_spec list) * task_spec list) * (positive * (positive * status)
  list) list) dec

val entry : z -> z list -> z list
