(* Executable statements of properties C01, C02 and C03 on what a real
   scheduling cycle left behind: the cluster spec it started from, the binds it
   sent, and the dump of its session at the end.  None of them calls the
   modelled actions; sums are recomputed from the task requests of the spec. *)
From stdpp Require Import gmap.
From Coq Require Import ZArith List.
From V Require Import Base.Codec Base.Res Base.ResCodec Sched.LedgerModel Sched.StmtModel Sched.LedgerCodec
                      Sched.LedgerInv Sched.DumpCodec Sched.GangModel Sched.CycleModel Sched.CycleCodec.
Import ListNotations.
Open Scope Z_scope.

Section Laws.
Variable c : cycle_case.
Variable d : dump.                       (* session at the end of the cycle *)
Variable bound : list positive.          (* tasks for which a bind was sent *)

Definition spec_tasks : list task := map (task_of_spec (cc_eps c)) (cc_tasks c).

Definition final_status (t : task) : status :=
  match d_heap d !! t_id t with Some u => t_status u | None => t_status t end.

(* ---------- C01 ---------- *)

(* what the cluster can see of a task after the cycle: bound / binding / running / succeeded
   pods, and pending pods with an empty request (a session-Allocated best-effort task is still a
   pending pod with an empty request outside) *)
Definition visible_ready (t : task) : bool :=
  match final_status t with
  | Binding | Bound | Running | Succeeded => true
  | Pending | Allocated => t_best_effort t
  | _ => false
  end.

Definition count_tasks (p : task -> bool) (l : list task) : Z := Z.of_nat (length (filter p l)).

Definition gang_ok (j : job_spec) : bool :=
  let ts := filter (fun t => bool_decide (t_job t = js_id j)) spec_tasks in
  bool_decide (js_min j <= count_tasks visible_ready ts) &&
  (let total := fold_left (fun acc kv => acc + snd kv) (js_role_min j) 0 in
   if bool_decide (js_min j < total) then true
   else forallb (fun rm => bool_decide (snd rm <= count_tasks (fun t => visible_ready t && bool_decide (t_role t = fst rm)) ts))
                (js_role_min j)).

Definition law_gang : bool :=
  forallb (fun j =>
     let has_bind := existsb (fun t => bool_decide (t_job t = js_id j) && bool_decide (t_id t ∈ bound)) spec_tasks in
     implb has_bind (gang_ok j)) (cc_jobs c) &&
  (* a bind request leaves the task Binding in the session *)
  forallb (fun t => implb (bool_decide (t_id t ∈ bound)) (bool_decide (final_status t = Binding))) spec_tasks.

(* ---------- C02 ---------- *)

Definition on_node_at (n : positive) (held : gmap positive task) (pred : status -> bool) : list task :=
  filter (fun t => match held !! t_id t with Some cpy => pred (t_status cpy) | None => false end) spec_tasks.

Definition sum_le (l : list task) (bound_ : res) : bool :=
  (* exact comparison per dimension on the grid, scalars missing on the right count as 0 *)
  let s := sum_req l in
  bool_decide (cpu s <= cpu bound_) && bool_decide (mem s <= mem bound_) &&
  (* the "pods" count is not part of the ledger guard (Resource.IsEmpty and the *WithDimension
     comparisons ignore it; the pod-count limit is the predicates plugin's business) *)
  forallb (fun k => ignored k || bool_decide (sget s k <= sget bound_ k)) (res_keys [s; bound_]).

Definition node_initially_ok (n : node_spec) : bool :=
  let alloc := mk_alloc (ns_cpu n) (ns_mem n) (ns_pods n) (ns_gpu n) in
  sum_le (filter (fun t => bool_decide (t_node t = Some (ns_id n)) && on_node_status (t_status t)) spec_tasks) alloc.

Definition law_nodes : bool :=
  forallb (fun n =>
     match d_nodes d !! ns_id n with
     | None => true
     | Some nd =>
       implb (node_initially_ok n)
         (let alloc := mk_alloc (ns_cpu n) (ns_mem n) (ns_pods n) (ns_gpu n) in
          let used := on_node_at (ns_id n) (n_tasks nd) (fun s => negb (bool_decide (s = Pipelined))) in
          let staying := on_node_at (ns_id n) (n_tasks nd)
                           (fun s => negb (bool_decide (s = Pipelined)) && negb (bool_decide (s = Releasing))) in
          let pipelined := on_node_at (ns_id n) (n_tasks nd) (fun s => bool_decide (s = Pipelined)) in
          sum_le used alloc && sum_le (staying ++ pipelined) alloc)
     end) (cc_nodes c).

(* ---------- C03 ---------- *)

Definition placed_status (s : status) : bool :=
  match s with Allocated | Pipelined | Binding => true | _ => false end.
Definition holds_quota (s : status) : bool :=
  match s with Allocated | Pipelined | Binding | Bound | Running => true | _ => false end.

Definition queue_of_task (t : task) : option positive :=
  match filter (fun j => bool_decide (js_id j = t_job t)) (cc_jobs c) with j :: _ => Some (js_queue j) | [] => None end.

Definition newly_placed (t : task) : bool :=
  bool_decide (t_status t = Pending) && placed_status (final_status t) && negb (t_best_effort t).

Definition law_queues : bool :=
  if negb (cc_prop c) then true else
  forallb (fun q =>
     let mine := filter (fun t => bool_decide (queue_of_task t = Some (qs_id q))) spec_tasks in
     let newl := filter newly_placed mine in
     let lim := default empty_res ((list_to_map (cc_limits c) : gmap positive res) !! qs_id q) in
     let cap := mkRes (if bool_decide (0 < qs_cap_cpu q) then qs_cap_cpu q * grid else lim.(cpu))
                      (if bool_decide (0 < qs_cap_mem q) then qs_cap_mem q * grid else lim.(mem)) None in
     let held := sum_req (filter (fun t => holds_quota (final_status t)) mine) in
     let asked := sum_req newl in
     (* no new placement for a queue that is not Open *)
     (qs_open q || bool_decide (newl = [])) &&
     (* on every dimension a newly placed task requests: held <= deserved and <= capability *)
     implb (negb (bool_decide (newl = [])))
       (implb (bool_decide (0 < cpu asked)) (bool_decide (cpu held <= cpu lim) && bool_decide (cpu held <= cpu cap)) &&
        implb (bool_decide (0 < mem asked)) (bool_decide (mem held <= mem lim) && bool_decide (mem held <= mem cap)) &&
        forallb (fun k => implb (negb (ignored k) && bool_decide (0 < sget asked k)) (bool_decide (sget held k <= sget lim k)))
                (res_keys [asked])))
    (cc_queues c).

End Laws.
