(* Model of pkg/scheduler/framework/statement.go (whole file) and of
   Session.Allocate / Pipeline / Evict / dispatch (session.go 716-908).

   Event handlers are a per-job ledger (share += req on allocate, -= on
   deallocate) with an event log, plus a scripted set of tasks for which the
   allocate callback reports Event.Err.  The cache is a pair of scripted
   refusal sets and two logs (accepted AddBindTask calls, accepted Evict calls).
   ssn.JobReady is a scripted boolean (no plugin logic here). *)
From stdpp Require Import gmap.
From Coq Require Import ZArith.
From V Require Import Base.Res Sched.LedgerModel.
Open Scope Z_scope.

Inductive opkind := KEvict | KPipeline | KAllocate.
Global Instance opkind_eq_dec : EqDecision opkind.
Proof. solve_decision. Defined.

(* a recorded operation: the kind and the task id (op.task is the canonical
   object heap[id]); saved statements carry detached clones instead *)
(* op_prev: the status the task had before an Evict operation (prevStatus) *)
Record oprec := mkOp { op_kind : opkind; op_task : positive; op_prev : status }.
Record savedop := mkSaved { so_kind : opkind; so_task : task; so_prev : status }.

(* one call of an event handler: allocate or deallocate, the task, and the status / node name
   the task object carried at that moment *)
Record hev := mkHev { he_alloc : bool; he_task : positive; he_status : status; he_node : option positive }.

Record sess := mkSess {
  heap : gmap positive task;
  jobs : gmap positive job;
  nodes : gmap positive node;
  hshare : gmap positive res;            (* handler ledger keyed by task.Job *)
  hlog : list hev;                       (* handler calls, newest first *)
  herr : gset positive;                  (* allocate callback sets Event.Err for these tasks *)
  refuse_bind : gset positive;           (* cache.AddBindTask refuses these tasks *)
  refuse_evict : gset positive;          (* cache.Evict refuses these tasks *)
  binds : list (positive * option positive);  (* accepted AddBindTask calls, newest first *)
  evicts : list positive;                (* accepted cache.Evict calls, newest first *)
  stmts : gmap positive (list oprec);    (* statements' operation lists (oldest first) *)
  saved : gmap positive (list savedop);
  job_ready : bool;
}.

Definition upd_heap (s : sess) (h : gmap positive task) : sess :=
  mkSess h (jobs s) (nodes s) (hshare s) (hlog s) (herr s) (refuse_bind s) (refuse_evict s)
         (binds s) (evicts s) (stmts s) (saved s) (job_ready s).
Definition upd_jobs (s : sess) (j : gmap positive job) : sess :=
  mkSess (heap s) j (nodes s) (hshare s) (hlog s) (herr s) (refuse_bind s) (refuse_evict s)
         (binds s) (evicts s) (stmts s) (saved s) (job_ready s).
Definition upd_nodes (s : sess) (n : gmap positive node) : sess :=
  mkSess (heap s) (jobs s) n (hshare s) (hlog s) (herr s) (refuse_bind s) (refuse_evict s)
         (binds s) (evicts s) (stmts s) (saved s) (job_ready s).
Definition upd_handlers (s : sess) (sh : gmap positive res) (l : list hev) : sess :=
  mkSess (heap s) (jobs s) (nodes s) sh l (herr s) (refuse_bind s) (refuse_evict s)
         (binds s) (evicts s) (stmts s) (saved s) (job_ready s).
Definition upd_logs (s : sess) (b : list (positive * option positive)) (e : list positive) : sess :=
  mkSess (heap s) (jobs s) (nodes s) (hshare s) (hlog s) (herr s) (refuse_bind s) (refuse_evict s)
         b e (stmts s) (saved s) (job_ready s).
Definition upd_stmts (s : sess) (st : gmap positive (list oprec)) : sess :=
  mkSess (heap s) (jobs s) (nodes s) (hshare s) (hlog s) (herr s) (refuse_bind s) (refuse_evict s)
         (binds s) (evicts s) st (saved s) (job_ready s).
Definition upd_saved (s : sess) (sv : gmap positive (list savedop)) : sess :=
  mkSess (heap s) (jobs s) (nodes s) (hshare s) (hlog s) (herr s) (refuse_bind s) (refuse_evict s)
         (binds s) (evicts s) (stmts s) sv (job_ready s).
Definition upd_faults (s : sess) (he rb re : gset positive) (jr : bool) : sess :=
  mkSess (heap s) (jobs s) (nodes s) (hshare s) (hlog s) he rb re
         (binds s) (evicts s) (stmts s) (saved s) jr.

Section WithEps.
Variable eps : Z.

Definition put_task (s : sess) (t : task) : sess := upd_heap s (<[t_id t := t]> (heap s)).

(* job.UpdateTaskStatus on the session's job, if found.  Returns (found, s') *)
Definition ssn_update_status (s : sess) (p : task) (st : status) : bool * sess * task :=
  match jobs s !! t_job p with
  | Some j =>
    let '(j', p') := job_update (heap s) j p st in
    (true, put_task (upd_jobs s (<[t_job p := j']> (jobs s))) p', p')
  | None => (false, s, p)
  end.

(* the handlers: AllocateFunc / DeallocateFunc over the per-job ledger *)
Definition h_alloc (s : sess) (p : task) : bool * sess :=
  let cur := default empty_res (hshare s !! t_job p) in
  (bool_decide (t_id p ∈ herr s),
   upd_handlers s (<[t_job p := add cur (t_req p)]> (hshare s)) (mkHev true (t_id p) (t_status p) (t_node p) :: hlog s)).
Definition h_dealloc (s : sess) (p : task) : sess :=
  let cur := default empty_res (hshare s !! t_job p) in
  upd_handlers s (<[t_job p := sub cur (t_req p)]> (hshare s)) (mkHev false (t_id p) (t_status p) (t_node p) :: hlog s).

(* node.RemoveTask on the session node named by the task's NodeName, if found *)
Definition ssn_node_remove (s : sess) (p : task) : sess :=
  match t_node p with
  | Some nid =>
    match nodes s !! nid with
    | Some n => upd_nodes s (<[nid := node_remove n (t_id p)]> (nodes s))
    | None => s
    end
  | None => s
  end.

(* node.UpdateTask(p) on the node named by p.NodeName (skipped when unknown).
   A failing re-add is klog.Fatalf in Go; the model leaves the task removed
   and reports it (third component) *)
Definition ssn_node_update (s : sess) (p : task) : sess * task * bool :=
  match t_node p with
  | Some nid =>
    match nodes s !! nid with
    | Some n =>
      match node_update eps n p with
      | inl (n', p') => (put_task (upd_nodes s (<[nid := n']> (nodes s))) p', p', false)
      | inr _ => (upd_nodes s (<[nid := node_remove n (t_id p)]> (nodes s)), p, true)
      end
    | None => (s, p, false)
    end
  | None => (s, p, false)
  end.

(* ---- undo primitives ---- *)

Definition unallocate_with (s : sess) (p : task) : sess :=
  let '(_, s1, p1) := ssn_update_status s p Pending in
  let s2 := ssn_node_remove s1 p1 in
  let s3 := h_dealloc s2 p1 in
  put_task s3 (set_node p1 None).

(* unPipeline has the same body (it additionally logs when the node is unknown) *)
Definition unpipeline_with := unallocate_with.

(* unevict restores the recorded pre-eviction status: Bound stays Bound,
   anything else is Running (victims are Running or Bound) *)
Definition restore_status (prev : status) : status :=
  match prev with Bound => Bound | _ => Running end.

Definition unevict_with (s : sess) (p : task) (prev : status) : sess * bool :=
  let '(_, s1, p1) := ssn_update_status s p (restore_status prev) in
  let '(s2, p2, fatal) := ssn_node_update s1 p1 in
  let '(_, s3) := h_alloc s2 p2 in
  (s3, fatal).

Definition push_op (s : sess) (sid : positive) (k : opkind) (tid : positive) (prev : status) : sess :=
  upd_stmts s (<[sid := default [] (stmts s !! sid) ++ [mkOp k tid prev]]> (stmts s)).

(* results of an operation *)
Inductive result := ROk | RErr | RFatal | RNoTask.

(* ---- Statement.Allocate / Pipeline: do, and roll back on any error ---- *)
Definition place_with (s : sess) (sid : positive) (k : opkind) (p : task) (nid : positive) : sess * result :=
  let st := match k with KAllocate => Allocated | _ => Pipelined end in
  let '(found, s1, p1) := ssn_update_status s p st in
  let p2 := set_node p1 (Some nid) in
  let s2 := put_task s1 p2 in
  let '(s3, p3, nodeok) :=
    match nodes s2 !! nid with
    | Some n =>
      match node_add eps n p2 with
      | inl (n', p') => (put_task (upd_nodes s2 (<[nid := n']> (nodes s2))) p', p', true)
      | inr _ => (s2, p2, false)
      end
    | None => (s2, p2, false)
    end in
  let '(herr_, s4) := h_alloc s3 p3 in
  if found && nodeok && negb herr_ then (push_op s4 sid k (t_id p) Pending, ROk)
  else (unallocate_with s4 p3, RErr).

(* [prev]: None = record the status the passed object has now (Statement.Evict);
   Some st = RecoverOperations re-recording the saved pre-eviction status *)
Definition stmt_evict_with (s : sess) (sid : positive) (p : task) (prev : option status) : sess * result :=
  let '(_, s1, p1) := ssn_update_status s p Releasing in
  let '(s2, p2, fatal) := ssn_node_update s1 p1 in
  let s3 := h_dealloc s2 p2 in
  (push_op s3 sid KEvict (t_id p) (default (t_status p) prev), if fatal then RFatal else ROk).

(* with the canonical object *)
Definition with_task (s : sess) (tid : positive) (f : task -> sess * result) : sess * result :=
  match heap s !! tid with Some p => f p | None => (s, RNoTask) end.

Definition stmt_allocate s sid tid nid := with_task s tid (fun p => place_with s sid KAllocate p nid).
Definition stmt_pipeline s sid tid nid := with_task s tid (fun p => place_with s sid KPipeline p nid).
Definition stmt_evict s sid tid := with_task s tid (fun p => stmt_evict_with s sid p None).

(* Evict as preempt/reclaim call it: with a clone of the node's copy *)
Definition stmt_evict_clone (s : sess) (sid tid : positive) : sess * result :=
  match heap s !! tid with
  | Some p =>
    match t_node p with
    | Some nid =>
      match nodes s !! nid with
      | Some n => match n_tasks n !! tid with
                  | Some c => stmt_evict_with s sid c None
                  | None => (s, RNoTask)
                  end
      | None => (s, RNoTask)
      end
    | None => (s, RNoTask)
    end
  | None => (s, RNoTask)
  end.

Definition stmt_unpipeline (s : sess) (tid : positive) : sess * result :=
  with_task s tid (fun p => (unpipeline_with s p, ROk)).

(* ---- Discard: undo in reverse order ---- *)
Definition undo_op (s : sess) (o : oprec) : sess :=
  match heap s !! op_task o with
  | None => s
  | Some p =>
    match op_kind o with
    | KEvict => fst (unevict_with s p (op_prev o))
    | KPipeline => unpipeline_with s p
    | KAllocate => unallocate_with s p
    end
  end.

Definition stmt_discard (s : sess) (sid : positive) : sess :=
  let ops := default [] (stmts s !! sid) in
  let s' := fold_left undo_op (rev ops) s in
  upd_stmts s' (<[sid := []]> (stmts s')).

(* ---- Commit ---- *)
Definition commit_op (s : sess) (o : oprec) : sess :=
  match heap s !! op_task o with
  | None => s
  | Some p =>
    match op_kind o with
    | KEvict =>
      if bool_decide (t_id p ∈ refuse_evict s) then fst (unevict_with s p (op_prev o))
      else upd_logs s (binds s) (t_id p :: evicts s)
    | KPipeline => s
    | KAllocate =>
      if bool_decide (t_id p ∈ refuse_bind s) then unallocate_with s p
      else
        let s1 := upd_logs s ((t_id p, t_node p) :: binds s) (evicts s) in
        let '(found, s2, p2) := ssn_update_status s1 p Binding in
        if found then s2 else unallocate_with s2 p2
    end
  end.

Definition stmt_commit (s : sess) (sid : positive) : sess :=
  let ops := default [] (stmts s !! sid) in
  let s' := fold_left commit_op ops s in
  upd_stmts s' (<[sid := []]> (stmts s')).

(* ---- Merge / SaveOperations / RecoverOperations ---- *)
Definition stmt_merge (s : sess) (sid src : positive) : sess :=
  if bool_decide (sid = src) then s else
  let a := default [] (stmts s !! sid) in
  let b := default [] (stmts s !! src) in
  upd_stmts s (<[src := []]> (<[sid := a ++ b]> (stmts s))).

Definition stmt_save (s : sess) (sid slot : positive) : sess :=
  let ops := default [] (stmts s !! sid) in
  let sv := omap (fun o => match heap s !! op_task o with
                           | Some p => Some (mkSaved (op_kind o) p (op_prev o)) | None => None end) ops in
  upd_saved s (<[slot := sv]> (saved s)).

(* RecoverOperations stops at the first failing Pipeline/Allocate *)
Fixpoint recover_ops (s : sess) (sid : positive) (l : list savedop) : sess * result :=
  match l with
  | [] => (s, ROk)
  | o :: r =>
    let p := so_task o in
    match so_kind o with
    | KEvict => let '(s1, _) := stmt_evict_with s sid p (Some (so_prev o)) in recover_ops s1 sid r
    | KPipeline =>
      match t_node p with
      | Some nid => let '(s1, res) := place_with s sid KPipeline p nid in
                    match res with ROk => recover_ops s1 sid r | _ => (s1, RErr) end
      | None => (s, RErr)
      end
    | KAllocate =>
      match t_node p with
      | Some nid => let '(s1, res) := place_with s sid KAllocate p nid in
                    match res with ROk => recover_ops s1 sid r | _ => (s1, RErr) end
      | None => (s, RErr)
      end
    end
  end.

Definition stmt_recover (s : sess) (sid slot : positive) : sess * result :=
  let l := default [] (saved s !! slot) in
  let '(s1, r) := recover_ops s sid l in
  (upd_saved s1 (delete slot (saved s1)), r).

(* ---- Session.Allocate / Pipeline / Evict (no statement) ---- *)

Definition dispatch (s : sess) (tid : positive) : sess * bool :=
  match heap s !! tid with
  | None => (s, true)
  | Some p =>
    if bool_decide (tid ∈ refuse_bind s) then (s, false)
    else
      let s1 := upd_logs s ((tid, t_node p) :: binds s) (evicts s) in
      let '(found, s2, _) := ssn_update_status s1 p Binding in
      (s2, found)
  end.

(* a task whose dispatch fails has its placement undone the way Statement.Commit does it for a
   refused bind (Session.undoAllocation: UpdateTaskStatus Pending, RemoveTask, Deallocate
   handlers, NodeName cleared) before the error is returned.  [Before this repair the loop
   returned with the task still Allocated on the node; see dispatch_all_prefix in C07/Refuted.v.] *)
Fixpoint dispatch_all (s : sess) (l : list positive) : sess * bool :=
  match l with
  | [] => (s, true)
  | t :: r => let '(s1, ok) := dispatch s t in
              if ok then dispatch_all s1 r
              else (match heap s1 !! t with Some p => unallocate_with s1 p | None => s1 end, false)
  end.

(* [jr]: ssn.JobReady as a function of the session and the job (scripted in C07, the gang
   plugin's answer in the action models) *)
Definition ssn_place_with (jr : sess -> job -> bool) (s : sess) (k : opkind) (tid nid : positive) : sess * result :=
  match heap s !! tid with
  | None => (s, RNoTask)
  | Some p =>
    let st := match k with KAllocate => Allocated | _ => Pipelined end in
    let '(found, s1, p1) := ssn_update_status s p st in
    if negb found then (s, RErr) else
    let p2 := set_node p1 (Some nid) in
    let s2 := put_task s1 p2 in
    (* revertPlacement: back to Pending, node name cleared *)
    let revert :=
      let '(_, sr, pr) := ssn_update_status s2 p2 Pending in
      put_task sr (set_node pr None) in
    match nodes s2 !! nid with
    | None => (revert, RErr)
    | Some n =>
      match node_add eps n p2 with
      | inr _ => (revert, RErr)
      | inl (n', p3) =>
        let s3 := put_task (upd_nodes s2 (<[nid := n']> (nodes s2))) p3 in
        let '(_, s4) := h_alloc s3 p3 in
        match k with
        | KAllocate =>
          match jobs s4 !! t_job p with
          | Some j =>
            if jr s4 j then
              (* for _, task := range job.TaskStatusIndex[Allocated]: ascending id here;
                 the harness only exercises order-insensitive situations *)
              let '(s5, ok) := dispatch_all s4 (elements (default ∅ (j_index j !! skey Allocated))) in
              (s5, if ok then ROk else RErr)
            else (s4, ROk)
          | None => (s4, ROk)
          end
        | _ => (s4, ROk)
        end
      end
    end
  end.

Definition ssn_place := ssn_place_with (fun s _ => job_ready s).

Definition ssn_evict (s : sess) (tid : positive) : sess * result :=
  match heap s !! tid with
  | None => (s, RNoTask)
  | Some p =>
    if bool_decide (tid ∈ refuse_evict s) then (s, RErr)
    else
      let s0 := upd_logs s (binds s) (tid :: evicts s) in
      let '(found, s1, p1) := ssn_update_status s0 p Releasing in
      if negb found then (s1, RErr) else
      let '(s2, p2, fatal) := ssn_node_update s1 p1 in
      (h_dealloc s2 p2, if fatal then RFatal else ROk)
  end.

(* ---- the operation alphabet of the C07 histories ---- *)
Inductive op :=
| OAllocate (sid tid nid : positive)
| OPipeline (sid tid nid : positive)
| OEvict (sid tid : positive)
| OEvictClone (sid tid : positive)
| OUnPipeline (tid : positive)
| ODiscard (sid : positive)
| OCommit (sid : positive)
| OMerge (sid src : positive)
| OSave (sid slot : positive)
| ORecover (sid slot : positive)
| OSsnAllocate (tid nid : positive)
| OSsnPipeline (tid nid : positive)
| OSsnEvict (tid : positive)
(* fault injection *)
| ODropJob (jid : positive)
| ODropNode (nid : positive)
| OSetFaults (herr rbind revict : list positive) (jr : bool).

Definition step (s : sess) (o : op) : sess * result :=
  match o with
  | OAllocate sid tid nid => stmt_allocate s sid tid nid
  | OPipeline sid tid nid => stmt_pipeline s sid tid nid
  | OEvict sid tid => stmt_evict s sid tid
  | OEvictClone sid tid => stmt_evict_clone s sid tid
  | OUnPipeline tid => stmt_unpipeline s tid
  | ODiscard sid => (stmt_discard s sid, ROk)
  | OCommit sid => (stmt_commit s sid, ROk)
  | OMerge sid src => (stmt_merge s sid src, ROk)
  | OSave sid slot => (stmt_save s sid slot, ROk)
  | ORecover sid slot => stmt_recover s sid slot
  | OSsnAllocate tid nid => ssn_place s KAllocate tid nid
  | OSsnPipeline tid nid => ssn_place s KPipeline tid nid
  | OSsnEvict tid => ssn_evict s tid
  | ODropJob jid => (upd_jobs s (delete jid (jobs s)), ROk)
  | ODropNode nid => (upd_nodes s (delete nid (nodes s)), ROk)
  | OSetFaults he rb re jr => (upd_faults s (list_to_set he) (list_to_set rb) (list_to_set re) jr, ROk)
  end.

Definition run (s : sess) (ops : list op) : sess := fold_left (fun s o => fst (step s o)) ops s.

End WithEps.
