(* Property C02, part 3: an executable form of the hypotheses of cycle_no_overcommit (sound, not
   complete: it asks Resreq = InitResreq, which is what NewTaskInfo produces for a pod without
   init containers), used (a) as law 113 on every generated cycle -- "the theorem applies to
   this input" -- and (b) for the non-vacuity examples, including the one showing that the
   granularity hypothesis cannot be dropped. *)
From stdpp Require Import gmap.
From Coq Require Import ZArith Lia.
From V Require Import Base.Res Base.ResLemmas Sched.LedgerModel Sched.StmtModel Sched.GangModel Sched.CycleModel
                      Sched.LedgerInvP Sched.NodeCapLemmas Sched.NodeCapLemmasCycle.
Open Scope Z_scope.

Definition nonneg_b (r : res) : bool :=
  bool_decide (0 <= cpu r) && bool_decide (0 <= mem r) && map_allb (fun _ v => bool_decide (0 <= v)) (scm r).

Definition granular_b (eps : Z) (r : res) : bool :=
  let g v := bool_decide (v = 0) || bool_decide (eps <= v) in
  g (cpu r) && g (mem r) && map_allb (fun _ v => g v) (scm r).

Lemma nonneg_b_sound r : nonneg_b r = true -> nonneg r.
Proof.
  unfold nonneg_b. rewrite !andb_true_iff, !bool_decide_eq_true, map_allb_spec. intros [[Hc Hm] Hs] d.
  destruct d as [| |k]; simpl; [exact Hc|exact Hm|]. unfold sget.
  destruct (scm r !! k) as [v|] eqn:E; simpl; [|lia]. specialize (Hs k v E). apply bool_decide_eq_true in Hs. exact Hs.
Qed.

Lemma granular_b_sound eps r : granular_b eps r = true -> granular eps r.
Proof.
  unfold granular_b. rewrite !andb_true_iff, !orb_true_iff, !bool_decide_eq_true, map_allb_spec. intros [[Hc Hm] Hs] d.
  destruct d as [| |k]; simpl; [exact Hc|exact Hm|]. unfold sget.
  destruct (scm r !! k) as [v|] eqn:E; simpl; [|left; reflexivity]. specialize (Hs k v E).
  rewrite orb_true_iff, !bool_decide_eq_true in Hs. exact Hs.
Qed.

(* everything task_ok asks except granularity *)
Definition task_pre (eps : Z) (t : task) : Prop :=
  nonneg (t_req t) /\ (forall d, amt (t_req t) d <= amt (t_init t) d) /\
  (t_best_effort t = true -> is_empty eps (t_init t) = true).
Definition task_pre_b (eps : Z) (t : task) : bool :=
  nonneg_b (t_req t) && bool_decide (t_req t = t_init t) && implb (t_best_effort t) (is_empty eps (t_init t)).
Definition task_ok_b (eps : Z) (t : task) : bool := task_pre_b eps t && granular_b eps (t_req t).

Lemma task_pre_b_sound eps t : task_pre_b eps t = true -> task_pre eps t.
Proof.
  unfold task_pre_b. rewrite !andb_true_iff, bool_decide_eq_true. intros [[Hn He] Hb].
  split; [apply nonneg_b_sound; exact Hn|]. split; [intros d; rewrite He; lia|].
  intros Hbe. rewrite Hbe in Hb. exact Hb.
Qed.

Lemma task_ok_b_sound eps t : task_ok_b eps t = true -> task_ok eps t.
Proof.
  unfold task_ok_b. rewrite andb_true_iff. intros [Hp Hg]. apply task_pre_b_sound in Hp as (H1 & H2 & H3).
  split; [exact H1|]. split; [apply granular_b_sound; exact Hg|]. split; assumption.
Qed.

(* ---- nodes ---- *)

Definition node_keys (n : node) : list positive :=
  elements ((dom (scm (n_idle n)) : gset positive) ∪ dom (scm (n_releasing n)) ∪ dom (scm (n_pipelined n))).

Definition dim_okb (eps : Z) (n : node) (d : dim) : bool :=
  bool_decide (- eps < amt (n_idle n) d) && bool_decide (- eps < fut_amt n d).

Definition nwc_b (eps : Z) (n : node) : bool :=
  match sc (n_idle n) with Some _ => true | None => false end &&
  dim_okb eps n DCpu && dim_okb eps n DMem &&
  forallb (fun k => ignored k || dim_okb eps n (DSc k)) (node_keys n).

Lemma nwc_b_sound eps n : 0 < eps -> nwc_b eps n = true -> node_within_capacity eps n.
Proof.
  intros Heps. unfold nwc_b. rewrite !andb_true_iff, forallb_forall. intros [[[Hs Hc] Hm] Hk].
  assert (Hd : forall d, guarded_dim d -> dim_okb eps n d = true).
  { intros [| |k] Hg; [exact Hc|exact Hm|].
    destruct (base.decide (k ∈ node_keys n)) as [Hin|Hout].
    - specialize (Hk k (proj1 (elem_of_list_In _ _) Hin)). apply orb_true_iff in Hk as [Hi|Hok]; [|exact Hok].
      unfold ignored in Hi. apply bool_decide_eq_true in Hi. subst k. exfalso. apply Hg. reflexivity.
    - unfold node_keys in Hout. rewrite elem_of_elements, !elem_of_union, !elem_of_dom in Hout.
      assert (Hz : forall r, ¬ is_Some (scm r !! k) -> sget r k = 0).
      { intros r Hr. unfold sget. destruct (scm r !! k); [exfalso; apply Hr; eauto|reflexivity]. }
      unfold dim_okb, fut_amt. simpl.
      rewrite (Hz (n_idle n)), (Hz (n_releasing n)), (Hz (n_pipelined n)) by tauto.
      rewrite andb_true_iff, !bool_decide_eq_true. lia. }
  split; [destruct (sc (n_idle n)); [discriminate|discriminate Hs]|].
  intros d Hg. specialize (Hd d Hg). unfold dim_okb, fut_amt in Hd.
  rewrite andb_true_iff, !bool_decide_eq_true in Hd. exact Hd.
Qed.

Definition node_safe_b (eps : Z) (n : node) : bool :=
  nwc_b eps n && bool_decide (map_Forall (fun _ c => nonneg_b (t_req c) = true) (n_tasks n)).

Lemma node_safe_b_sound eps n : 0 < eps -> node_safe_b eps n = true -> node_safe eps n.
Proof.
  intros Heps. unfold node_safe_b. rewrite andb_true_iff, bool_decide_eq_true. intros [Hc Hn].
  split; [apply nwc_b_sound; assumption|]. intros i c Hl. apply nonneg_b_sound. apply (Hn i c Hl).
Qed.

(* ---- sessions / worlds ---- *)

Definition no_evict_b (l : list oprec) : bool := forallb (fun o => negb (bool_decide (op_kind o = KEvict))) l.

Definition sess_pre_b (tb : task -> bool) (s : sess) : bool :=
  bool_decide (map_Forall (fun _ t => tb t = true /\ is_Some (jobs s !! t_job t)) (heap s)) &&
  bool_decide (map_Forall (fun _ l => no_evict_b l = true) (stmts s)).

Definition world_ok_b (eps : Z) (w : world) : bool :=
  sess_pre_b (task_ok_b eps) (w_sess w) &&
  bool_decide (map_Forall (fun _ n => node_safe_b eps n = true) (nodes (w_sess w))).

Lemma no_evict_b_sound l : no_evict_b l = true -> no_evict l.
Proof.
  unfold no_evict_b, no_evict. rewrite forallb_forall, Forall_forall. intros H o Ho.
  specialize (H o (proj1 (elem_of_list_In _ _) Ho)). apply negb_true_iff, bool_decide_eq_false in H. exact H.
Qed.

Theorem world_ok_b_sound eps w : 0 < eps -> world_ok_b eps w = true -> world_ok eps w.
Proof.
  intros Heps. unfold world_ok_b, sess_pre_b. rewrite !andb_true_iff, !bool_decide_eq_true. intros [[Hh Hst] Hn].
  split; [split|].
  - intros i t Hl. destruct (Hh i t Hl) as [H1 H2]. split; [apply task_ok_b_sound; exact H1|exact H2].
  - intros sid l Hl. apply no_evict_b_sound. apply (Hst sid l Hl).
  - intros i n Hl. apply node_safe_b_sound; [exact Heps|apply (Hn i n Hl)].
Qed.

(* ---------- non-vacuity: a world the theorem applies to, on which the skeleton really places ---------- *)

Definition ex_req (c : Z) : res := mkRes c 0 (Some {[1%positive := 16]}).
Definition ex_task (i : positive) (c : Z) (be : bool) : task :=
  mkTask i 1 1 1 0 (ex_req c) (ex_req c) be false Pending None.
Definition ex_job0 : job := mkJob 1 1 0 ∅ 0 ∅ ∅ empty_res empty_res ∅ ∅.
Definition ex_node (idle_cpu : Z) : node :=
  mkNode 1 true (mkRes idle_cpu 0 (Some {[1%positive := 160]})) (mkRes 0 0 (Some ∅)) (mkRes 0 0 (Some ∅)) (mkRes 0 0 (Some ∅))
         (mkRes idle_cpu 0 (Some {[1%positive := 160]})) ∅.
Definition ex_sess (ts : list task) (n : node) : sess :=
  mkSess (list_to_map (map (fun t => (t_id t, t)) ts)) {[1%positive := fold_left job_add ts ex_job0]} {[1%positive := n]}
         ∅ [] ∅ ∅ ∅ [] [] ∅ ∅ true.

(* two tasks of 8000 units on a node with 12000 idle: the first is allocated, the second refused *)
Definition ex_world : world := mkWorld (ex_sess [ex_task 1 8000 false; ex_task 2 8000 false] (ex_node 12000)) ∅ 1.
Definition ex_ops : list cop := [CAttempt 1 [(1, 1); (2, 1)]]%positive.

Example ex_world_ok : world_ok 2 ex_world.
Proof. apply world_ok_b_sound; [lia|vm_compute; reflexivity]. Qed.

Example ex_places :
  match nodes (w_sess (run 2 ex_world ex_ops)) !! 1%positive with
  | Some n => (cpu (n_idle n), map fst (map_to_list (n_tasks n)))
  | None => (0, [])
  end = (4000, [1%positive]).
Proof. vm_compute. reflexivity. Qed.

(* ---------- A.4: the granularity hypothesis is needed ---------- *)

(* Three "best-effort" tasks whose request is 1 unit of cpu (below eps = 2, so IsEmpty() holds,
   but not zero: such a request is not granular) are backfilled onto a full node.  Backfill tests
   nothing, each placement takes 1 unit, and Idle ends at -3 <= -eps.  Every other hypothesis of
   the theorem holds of this world. *)
Definition tiny_task (i : positive) : task :=
  mkTask i 1 1 1 0 (mkRes 1 0 None) (mkRes 1 0 None) true false Pending None.
Definition drift_world : world := mkWorld (ex_sess [tiny_task 1; tiny_task 2; tiny_task 3] (ex_node 0)) ∅ 1.
Definition drift_ops : list cop := [CBackfill 1 1; CBackfill 2 1; CBackfill 3 1]%positive.

Example drift_without_granularity :
  sess_pre_b (task_pre_b 2) (w_sess drift_world) = true /\
  nodes_safe 2 (nodes (w_sess drift_world)) /\
  exists n, nodes (w_sess (run 2 drift_world drift_ops)) !! 1%positive = Some n /\
            amt (n_idle n) DCpu = -3 /\ ~ node_within_capacity 2 n.
Proof.
  split; [vm_compute; reflexivity|]. split.
  - intros i n Hl. apply node_safe_b_sound; [lia|].
    assert (H : bool_decide (map_Forall (fun _ n => node_safe_b 2 n = true) (nodes (w_sess drift_world))) = true)
      by (vm_compute; reflexivity).
    apply bool_decide_eq_true in H. apply (H i n Hl).
  - destruct (nodes (w_sess (run 2 drift_world drift_ops)) !! 1%positive) as [n|] eqn:E; [|vm_compute in E; discriminate].
    exists n. split; [reflexivity|].
    assert (Hc : cpu (n_idle n) = -3).
    { assert (H : match nodes (w_sess (run 2 drift_world drift_ops)) !! 1%positive with Some n => cpu (n_idle n) | None => 0 end = -3)
        by (vm_compute; reflexivity).
      rewrite E in H. exact H. }
    split; [exact Hc|]. intros [_ H]. specialize (H DCpu). destruct H as [H _]; [discriminate|]. simpl in H. lia.
Qed.
