(* C01, sub-groups: the gang plugin's JobReady / JobPipelined of a job WITH sub-group policies in
   the property's wording: the policy-less conclusions (minMember, role minimums) and, for every
   policy with MinSubGroups <> 0, at least that many of its sub-groups have at least SubGroupSize
   tasks occupying a slot (counted over the sub-group's task list, not its index). *)
From stdpp Require Import gmap.
From Coq Require Import ZArith Lia.
From V Require Import Base.Res Sched.LedgerModel Sched.StmtModel Sched.GangModel Sched.LedgerInvP
                      Sched.GangLemmas Sched.GangValid Sched.SubGroupModel.
Open Scope Z_scope.

(* a sub-group is complete w.r.t. a notion p of "occupies a slot" *)
Definition sub_complete (p : task -> bool) (h : gmap positive task) (sj : subjob) : bool :=
  sj_min sj <=? count_tasks p (tasks_in h (sj_tasks sj)).

Definition subs_idx_ok (h : gmap positive task) (j : job) : Prop :=
  forall sid sj, j_subs j !! sid = Some sj -> idx_ok h (sj_tasks sj) (sj_index sj).

Lemma sub_inv_subs_idx_ok h j : job_inv h j -> subs_idx_ok h j.
Proof.
  intros (_ & _ & _ & _ & (_ & _ & Hsubs)) sid sj E. destruct (Hsubs sid sj E) as [_ Hix].
  by apply index_ok_idx_ok.
Qed.

Lemma subs_with_ext sg g (c1 c2 : subjob -> bool) :
  (forall sid sj, j_subs (sg_job sg) !! sid = Some sj -> c1 sj = c2 sj) -> subs_with sg g c1 = subs_with sg g c2.
Proof.
  intros H. unfold subs_with. f_equal. f_equal. apply List.filter_ext_in. intros [sid sj] Hin.
  apply elem_of_list_In, elem_of_map_to_list in Hin. simpl. by rewrite (H sid sj Hin).
Qed.

Lemma subs_with_ext_all sg (c1 c2 : subjob -> bool) :
  (forall sid sj, j_subs (sg_job sg) !! sid = Some sj -> c1 sj = c2 sj) ->
  (forall g m, sg_min_subs sg !! g = Some m -> m <> 0 -> m <= subs_with sg g c1) <->
  (forall g m, sg_min_subs sg !! g = Some m -> m <> 0 -> m <= subs_with sg g c2).
Proof.
  intros H. split; intros H' g m E Hm; specialize (H' g m E Hm);
    [rewrite <- (subs_with_ext sg g c1 c2 H)|rewrite (subs_with_ext sg g c1 c2 H)]; done.
Qed.

Lemma sub_ready_complete h sj : idx_ok h (sj_tasks sj) (sj_index sj) ->
  sub_ready h sj = sub_complete session_ready h sj.
Proof.
  intros Hix. unfold sub_ready, sub_complete. apply eq_true_iff_eq.
  rewrite (is_ready_spec h (sj_tasks sj)) by done. by rewrite Z.leb_le.
Qed.
Lemma sub_pipelined_complete h sj : idx_ok h (sj_tasks sj) (sj_index sj) ->
  sub_pipelined h sj = sub_complete session_pipelined h sj.
Proof.
  intros Hix. unfold sub_pipelined, sub_complete. apply eq_true_iff_eq.
  rewrite (is_pipelined_spec h (sj_tasks sj)) by done. by rewrite Z.leb_le.
Qed.

(* the sub-group clause: for every policy that requires sub-groups, enough of them are complete *)
Definition sub_groups_cond (p : task -> bool) (h : gmap positive task) (sg : sgjob) : Prop :=
  forall g m, sg_min_subs sg !! g = Some m -> m <> 0 -> m <= subs_with sg g (sub_complete p h).

Lemma check_sub_cond_spec sg (c : subjob -> bool) :
  check_sub_cond sg c = true <-> forall g m, sg_min_subs sg !! g = Some m -> m <> 0 -> m <= subs_with sg g c.
Proof.
  unfold check_sub_cond. rewrite forallb_forall. split.
  - intros H g m E Hm. apply elem_of_map_to_list, elem_of_list_In in E. specialize (H _ E). simpl in H.
    apply orb_true_iff in H as [H%Z.eqb_eq|H%Z.leb_le]; [done|done].
  - intros H [g m] Hin. apply elem_of_list_In, elem_of_map_to_list in Hin. simpl.
    destruct (Z.eqb_spec m 0) as [->|Hm]; [done|]. simpl. apply Z.leb_le. by apply H.
Qed.

Theorem gang_ready_sub_spec_idx h sg :
  idx_ok h (j_tasks (sg_job sg)) (j_index (sg_job sg)) -> subs_idx_ok h (sg_job sg) ->
  (gang_job_ready_sub h sg = true <-> gang_cond session_ready h (sg_job sg) /\ sub_groups_cond session_ready h sg) /\
  (gang_job_pipelined_sub h sg = true <-> gang_cond session_pipelined h (sg_job sg) /\ sub_groups_cond session_pipelined h sg).
Proof.
  intros Hix Hsubs. destruct (gang_ready_spec_idx h (sg_job sg) Hix) as [Hr Hp].
  unfold gang_job_ready_sub, gang_job_pipelined_sub, sub_groups_cond.
  unfold gang_job_ready, gang_job_pipelined in Hr, Hp.
  rewrite !andb_true_iff, !check_sub_cond_spec.
  rewrite (subs_with_ext_all sg (sub_ready h) (sub_complete session_ready h)),
          (subs_with_ext_all sg (sub_pipelined h) (sub_complete session_pipelined h)).
  - rewrite andb_true_iff in Hr, Hp. tauto.
  - intros sid sj E. apply sub_pipelined_complete. by eapply Hsubs.
  - intros sid sj E. apply sub_ready_complete. by eapply Hsubs.
Qed.

Theorem gang_ready_sub_spec h sg : job_inv h (sg_job sg) ->
  (gang_job_ready_sub h sg = true <-> gang_cond session_ready h (sg_job sg) /\ sub_groups_cond session_ready h sg) /\
  (gang_job_pipelined_sub h sg = true <-> gang_cond session_pipelined h (sg_job sg) /\ sub_groups_cond session_pipelined h sg).
Proof.
  intros Hj. apply gang_ready_sub_spec_idx; [by apply job_inv_idx_ok|by apply sub_inv_subs_idx_ok].
Qed.

(* the direction the property needs: JobReady implies the policy-less conclusions AND the sub-group clause *)
Corollary gang_ready_sub_sound h sg : job_inv h (sg_job sg) -> gang_job_ready_sub h sg = true ->
  gang_cond session_ready h (sg_job sg) /\
  forall g m, sg_min_subs sg !! g = Some m -> m <> 0 ->
    m <= subs_with sg g (fun sj => sj_min sj <=? count_tasks session_ready (tasks_in h (sj_tasks sj))).
Proof. intros Hj Hr. by apply (proj1 (gang_ready_sub_spec h sg Hj)). Qed.

(* ---------- non-vacuity ---------- *)
(* one policy, SubGroupSize 2, MinSubGroups 2, minMember 3; group 1 = {t1, t2}, group 2 = {t3, t4} *)
Definition ex_sg (st4 : status) : gmap positive task * sgjob :=
  build_sg 1 3 [] [mkPol (Some 2) (Some 2)]
    [mkSgTask 1 1 false Allocated 1 1; mkSgTask 2 1 false Running 1 1;
     mkSgTask 3 1 false Allocated 1 2; mkSgTask 4 1 false st4 1 2].

(* three occupied slots reach minMember 3, but group 2 has one: without the sub-group conjunct the
   job would be ready *)
Example ex_sg_incomplete :
  let '(h, sg) := ex_sg Pending in
  gang_job_ready h (sg_job sg) = true /\ gang_job_ready_sub h sg = false /\
  subs_with sg 1 (sub_ready h) = 1 /\ gang_job_valid_sub h sg = 0.
Proof. vm_compute. repeat split. Qed.

Example ex_sg_complete :
  let '(h, sg) := ex_sg Allocated in
  gang_job_ready_sub h sg = true /\ subs_with sg 1 (sub_ready h) = 2.
Proof. vm_compute. repeat split. Qed.

(* pipelined only: group 2 completes only with a Pipelined task *)
Example ex_sg_pipelined :
  let '(h, sg) := ex_sg Pipelined in
  gang_job_ready_sub h sg = false /\ gang_job_pipelined_sub h sg = true.
Proof. vm_compute. repeat split. Qed.
