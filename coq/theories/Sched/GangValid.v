(* C01: the gang plugin's JobValidFn (plugins/gang/gang.go 58-93) with JobInfo.CheckTaskValid
   (job_info.go 1073-1102) and ValidTaskNum (1178-1190), for jobs without sub-group policy
   (CheckSubJobValid is true when MinSubJobs is empty).  Executable definitions only. *)
From stdpp Require Import gmap.
From Coq Require Import ZArith.
From V Require Import Base.Res Sched.LedgerModel Sched.GangModel.
Open Scope Z_scope.

(* statuses ValidTaskNum / CheckTaskValid count: AllocatedStatus, Succeeded, Pipelined, Pending *)
Definition valid_statuses : list status := [Bound; Binding; Running; Allocated; Succeeded; Pipelined; Pending].

Definition valid_num (ix : gmap positive (gset positive)) : Z :=
  foldr (fun s acc => idx_count ix s + acc) 0 valid_statuses.

Definition role_valid (heap : gmap positive task) (ix : gmap positive (gset positive)) (r : positive) : Z :=
  foldr (fun s acc => count_set (has_role heap r) (idx_set ix s) + acc) 0 valid_statuses.

Definition check_task_valid (heap : gmap positive task) (j : job) : bool :=
  if bool_decide (j_min j < j_role_total j) then true
  else bool_decide (map_Forall (fun r m => bool_decide (m = 0 \/ m <= role_valid heap (j_index j) r) = true) (j_role_min j)).

(* 0 = valid, 1 = NotEnoughPodsOfTask, 2 = NotEnoughPods *)
Definition gang_job_valid (heap : gmap positive task) (j : job) : Z :=
  if negb (check_task_valid heap j) then 1
  else if bool_decide (valid_num (j_index j) < j_min j) then 2 else 0.
