(* decoders of the state dumps the harness takes from the implementation (law inputs) *)
From stdpp Require Import gmap.
From Coq Require Import ZArith List.
From V Require Import Base.Codec Base.Res Base.ResCodec Sched.LedgerModel Sched.StmtModel Sched.LedgerCodec Sched.LedgerInv.
Import ListNotations.
Open Scope Z_scope.

(* ---- dumps coming back from the implementation (law inputs) ---- *)
Definition dTaskBrief : dec (positive * status * option positive) :=
  let* i := dPos in let* s := dStatus in let* n := dNodeRef in ret (i, s, n).
Definition dSet : dec (gset positive) := let* l := dList dPos in ret (list_to_set l).
Definition dIndex : dec (gmap positive (gset positive)) :=
  let* l := dList (dPair dPos dSet) in ret (list_to_map l).

(* the law inputs carry, per task, the static fields too (job, request) so
   that sums can be recomputed: tasks are (id status node job cpu mem gpu) *)
Definition dTaskFull : dec task :=
  let* i := dPos in let* s := dStatus in let* n := dNodeRef in let* j := dPos in
  let* c := dZ in let* m := dZ in let* g := dZ in
  let r := mk_req c m g in
  ret (mkTask i j 1%positive 1%positive 0 r r false false s n).

Definition dJobDump : dec job :=
  let* i := dPos in let* ts := dSet in let* ix := dIndex in let* al := dRes in let* tot := dRes in
  let* subs := dList (let* sid := dPos in let* st := dSet in let* six := dIndex in ret (sid, mkSub 0 st six)) in
  let sm : gmap positive subjob := list_to_map subs in
  (* TaskToSubJob is rebuilt from the sub-jobs' task sets *)
  let tsub : gmap positive positive :=
    list_to_map (flat_map (fun kv => map (fun t => (t, fst kv)) (elements (sj_tasks (snd kv)))) subs) in
  ret (mkJob i 1%positive 0 ∅ 0 ts ix al tot sm tsub).

Definition dNodeDump (heap : gmap positive task) : dec node :=
  let* i := dPos in let* idle := dRes in let* used := dRes in let* rel := dRes in let* pip := dRes in
  let* al := dRes in let* has := dBool in
  let* cs := dList dTaskBrief in
  let copies : gmap positive task :=
    list_to_map (omap (fun c => let '(tid, st, nd) := c in
                        match heap !! tid with
                        | Some t => Some (tid, set_node (set_status t st) nd)
                        | None => None end) cs) in
  ret (mkNode i has idle used rel pip al copies).

Record dump := mkDump {
  d_heap : gmap positive task; d_jobs : gmap positive job; d_nodes : gmap positive node;
  d_share : gmap positive res }.

Definition dDump : dec dump :=
  let* ts := dList dTaskFull in
  let heap : gmap positive task := list_to_map (map (fun t => (t_id t, t)) ts) in
  let* js := dList dJobDump in
  let* ns := dList (dNodeDump heap) in
  let* sh := dList (dPair dPos dRes) in
  ret (mkDump heap (list_to_map (map (fun j => (j_id j, j)) js))
              (list_to_map (map (fun n => (n_id n, n)) ns)) (list_to_map sh)).

Definition dump_sameb (a b : dump) : bool :=
  map_sameb task_sameb (d_heap a) (d_heap b) &&
  map_sameb job_sameb (d_jobs a) (d_jobs b) &&
  map_sameb node_sameb (d_nodes a) (d_nodes b) &&
  share_sameb (d_share a) (d_share b).

(* law of one step: the invariant holds after it; an operation that reported an
   error left no trace; only Commit / Session.Allocate / Session.Evict reach the
   binder and the evictor *)
