(* C03, part 6 (second audit N1 / N2): the session the harness -- like the plugins' OnSessionOpen --
   builds from a cluster description satisfies `cover` (in fact phi = 0: the ledger IS the sum of
   the requests of the pods in an allocated status), provided the task ids are distinct and no
   task is Pipelined when the session opens.  The guard matters: `build`, proportion.go:146 and
   capacity.go:1115 all sum api.AllocatedStatus only, while a Pipelined task holds quota; with a
   Pipelined task in the input the ledger starts one request short (build_pipelined_not_covered).
   No session opens with a Pipelined task in Go (the status only exists inside a session). *)
From stdpp Require Import gmap.
From Coq Require Import ZArith Lia List.
From V Require Import Base.Res Base.ResLemmas Sched.LedgerModel Sched.StmtModel Sched.GangModel
                      Sched.CycleModel Sched.LedgerInvP Sched.LedgerInv Sched.LedgerCodec Sched.CycleCodec
                      Sched.LedgerLemmasSound Sched.LedgerLemmasSess Sched.LedgerLemmasTxn Sched.LedgerLemmasEx
                      Sched.QueueLemmasBase Sched.QueueLemmasReach Sched.QueueLemmas Sched.QueueLemmasHeld
                      Sched.QueueLemmasEx.
Open Scope Z_scope.

Lemma zsum_map {A B} (g : B -> Z) (h : A -> B) l : zsum g (map h l) = zsum (fun x => g (h x)) l.
Proof. induction l as [|x l IH]; simpl; [reflexivity|rewrite IH; reflexivity]. Qed.

Lemma zsum_ext_in {A} (g h : A -> Z) l : (forall x, In x l -> g x = h x) -> zsum g l = zsum h l.
Proof.
  induction l as [|x l IH]; intros H; simpl; [reflexivity|].
  rewrite (H x) by (left; reflexivity). rewrite IH; [reflexivity|]. intros y Hy. apply H. right. exact Hy.
Qed.

Section Build.
Variable J : gmap positive job.
Variable f : positive -> option positive.
Hypothesis f_known : forall j q, f j = Some q -> is_Some (J !! j).

Definition share_step (acc : gmap positive res) (t : task) : gmap positive res :=
  if allocated_status (t_status t) && bool_decide (is_Some (J !! t_job t)) then
    <[t_job t := add (default empty_res (acc !! t_job t)) (t_req t)]> acc
  else acc.

Definition share_term (q : positive) (d : dim) (t : task) : Z :=
  if allocated_status (t_status t) && bool_decide (is_Some (J !! t_job t)) then
    (if bool_decide (f (t_job t) = Some q) then amt (t_req t) d else 0)
  else 0.

Lemma fold_share q d ts : forall acc,
  msum f (fold_left share_step ts acc) q d = msum f acc q d + zsum (share_term q d) ts.
Proof.
  induction ts as [|t ts IH]; intros acc; simpl; [lia|].
  rewrite IH. unfold share_step, share_term at 2.
  destruct (allocated_status (t_status t) && bool_decide (is_Some (J !! t_job t))); [|lia].
  rewrite msum_insert. destruct (bool_decide (f (t_job t) = Some q)); [rewrite amt_add|]; lia.
Qed.

Lemma held_term_share q d t :
  t_status t <> Pipelined -> hterm f q d (t_id t, t) = share_term q d t.
Proof.
  intros Hp. unfold hterm, share_term. simpl. case_bool_decide as Hf.
  - destruct (f_known _ _ Hf) as [j Hj]. rewrite bool_decide_eq_true_2 by eauto. rewrite andb_true_r.
    unfold hol. destruct (t_status t); simpl; try lia. contradiction.
  - destruct (_ && _); lia.
Qed.
End Build.

Theorem cover_build eps ns js tsp :
  base.NoDup (map ts_id tsp) -> Forall (fun t => ts_status t <> Pipelined) tsp ->
  forall q d, phi (build eps ns js tsp) q d = 0.
Proof.
  intros Hnd Hnp q d. set (s := build eps ns js tsp). set (ts := map (task_of_spec eps) tsp).
  unfold phi. rewrite share_of_amt.
  assert (Hknown : forall j q0, jq s j = Some q0 -> is_Some (jobs s !! j)).
  { intros j q0 H. unfold jq in H. destruct (jobs s !! j); [eauto|discriminate]. }
  change (hshare s) with (fold_left (share_step (jobs s)) ts ∅).
  rewrite (fold_share (jobs s) (jq s) q d ts ∅).
  unfold msum at 1. rewrite map_to_list_empty. simpl.
  unfold held. change (heap s) with (list_to_map (map (fun t => (t_id t, t)) ts) : gmap positive task).
  assert (Hfst : (map (fun t => (t_id t, t)) ts).*1 = map ts_id tsp).
  { unfold ts. clear. induction tsp as [|t l IH]; simpl; [reflexivity|]. f_equal. exact IH. }
  rewrite (zsum_perm _ _ _ (map_to_list_to_map _ ltac:(rewrite Hfst; exact Hnd))).
  rewrite zsum_map. rewrite (zsum_ext_in (fun x => hterm (jq s) q d (t_id x, x)) (share_term (jobs s) (jq s) q d) ts); [rewrite Z.add_0_l; apply Z.sub_diag|].
  intros t Ht. apply (held_term_share (jobs s) (jq s) Hknown).
  unfold ts in Ht. apply in_map_iff in Ht as (tp & <- & Htp). rewrite Forall_forall in Hnp.
  apply (Hnp tp Htp).
Qed.

(* the decidable guard under which a cycle input is inside the main theorem *)
Definition hyp_guardb (c : cycle_case) : bool :=
  let w := world_of c in
  bool_decide (base.NoDup (map ts_id (cc_tasks c))) &&
  forallb (fun t => negb (bool_decide (ts_status t = Pipelined))) (cc_tasks c) &&
  world_okb w &&
  heap_nonnegb (heap (w_sess w)) && ledger_okb (heap (w_sess w)) (jobs (w_sess w)) (nodes (w_sess w)) &&
  sess_wfb (w_sess w).

(* every session built from a cluster description that passes the guard satisfies every
   hypothesis of C03_placed_pods_within_limit (law 121 evaluates the guard on every generated
   cycle case) *)
Theorem built_sessions_satisfy_hypotheses (c : cycle_case) :
  hyp_guardb c = true -> world_ok_held (world_of c).
Proof.
  unfold hyp_guardb. cbv zeta. rewrite !andb_true_iff, bool_decide_eq_true, forallb_forall.
  intros (((((Hnd & Hnp) & Hw) & Hnn) & Hl) & Hwf).
  assert (Hs : sess_ok (w_sess (world_of c))).
  { apply sess_ok_of_bools; [rewrite Hnn, Hl; reflexivity|exact Hwf|reflexivity]. }
  destruct Hs as (Hli & Hwfs & Hsv).
  split; [apply world_okb_ok, Hw|]. split; [exact Hli|]. split; [exact Hwfs|]. split; [exact Hsv|]. split.
  - intros sid _. reflexivity.
  - intros q d. simpl. rewrite (cover_build (cc_eps c) (cc_nodes c) (cc_jobs c) (cc_tasks c) Hnd); [lia|].
    apply Forall_forall. intros t Ht. specialize (Hnp t Ht).
    apply negb_true_iff, bool_decide_eq_false in Hnp. exact Hnp.
Qed.

(* ---------- the guard is needed: a Pipelined task at session open is not covered ---------- *)
Definition ex_case_pip : cycle_case :=
  mkCycle 2
    [mkNodeSpec 1 true 4000 100000 10 0]
    [mkQSpec 1 true 1 0 0]
    [mkJobSpec 1 1 1 []]
    [mkTaskSpec 1 1 1 0 600 100 0 Pipelined (Some 1%positive) false;
     mkTaskSpec 2 1 1 0 600 100 0 Pending None false]
    true [1] [(1%positive, mkRes 16000 1600000 None)] [].

Theorem build_pipelined_not_covered :
  hyp_guardb ex_case_pip = false /\ world_okb (world_of ex_case_pip) = true /\
  phi (w_sess (world_of ex_case_pip)) 1 DCpu = -9600 /\
  held (w_sess (CycleModel.run 2 (world_of ex_case_pip) [CAttempt 1 [(2%positive, 1%positive)]])) 1 DCpu = 19200.
Proof. vm_compute. repeat split; reflexivity. Qed.

(* ---------- a session that OPENS with a Running pod, and a second pod placed on top ---------- *)
Definition ex_case_run (lim : Z) : cycle_case :=
  mkCycle 2
    [mkNodeSpec 1 true 4000 100000 10 0]
    [mkQSpec 1 true 1 0 0]
    [mkJobSpec 1 1 1 []]
    [mkTaskSpec 1 1 1 0 600 100 0 Running (Some 1%positive) false;
     mkTaskSpec 2 1 1 0 600 100 0 Pending None false]
    true [1] [(1%positive, mkRes lim 1600000 None)] [].
Definition ops5 : list cop := [CAttempt 1 [(2%positive, 1%positive)]].

Example ex_run_ok_held : world_ok_held (world_of (ex_case_run 32000)).
Proof. apply built_sessions_satisfy_hypotheses. vm_compute. reflexivity. Qed.

(* limit 2 cpu: the second 600m pod is placed next to the running one; 19200 <= 32000 *)
Example ex_second_pod_placed :
  let w := world_of (ex_case_run 32000) in
  let s' := w_sess (CycleModel.run 2 w ops5) in
  held (w_sess w) 1 DCpu = 9600 /\ verdicts 2 w ops5 = [VOk] /\
  hlog s' = [mkHev true 2 Allocated (Some 1%positive)] /\ held s' 1 DCpu = 19200.
Proof. vm_compute. repeat split; reflexivity. Qed.

(* the main theorem instantiated there: a non-vacuous instance on top of a holding pod *)
Example ex_second_pod_within_limit :
  held (w_sess (CycleModel.run 2 (world_of (ex_case_run 32000)) ops5)) 1 DCpu <= 32000.
Proof.
  set (w := world_of (ex_case_run 32000)). set (s' := w_sess (CycleModel.run 2 w ops5)).
  assert (Hh : exists t, heap s' !! 2%positive = Some t /\ t_req t = mk_req 600 100 0 /\ t_job t = 1%positive).
  { vm_compute. eexists. repeat split. }
  destruct Hh as (t & Hh & Hr & Hj).
  refine (proj2 (placed_pods_within_limit 2 w ops5 ex_run_ok_held [mkHev true 2 Allocated (Some 1%positive)] _
            (mkHev true 2 Allocated (Some 1%positive)) t 1%positive
            (mkQ true (mkRes 32000 1600000 None) true) _ eq_refl Hh _ _ eq_refl) DCpu _).
  - vm_compute. reflexivity.
  - left.
  - unfold queue_of. rewrite Hj. vm_compute. reflexivity.
  - vm_compute. reflexivity.
  - rewrite Hr. vm_compute. reflexivity.
Qed.

(* with limit 1 cpu the same choice is refused: 19200 > 16000 *)
Example ex_second_pod_refused :
  verdicts 2 (world_of (ex_case_run 16000)) ops5 = [VQueueRefuses 2].
Proof. vm_compute. reflexivity. Qed.

(* ---------- within the capability (first-audit W9, restated on the placed pods) ----------
   [limits q d]: the queue's capability constrains dimension d (it lists d; cpu / memory > 0);
   only there is limit <= capability needed, and only there is the conclusion stated *)
Theorem placed_pods_within_capability eps (w : world) (ops : list cop)
    (capability : positive -> res) (limits : positive -> dim -> Prop) :
  world_ok_held w ->
  (forall q qa d, w_queues w !! q = Some qa -> limits q d -> amt (q_limit qa) d <= amt (capability q) d) ->
  let s' := w_sess (CycleModel.run eps w ops) in
  forall evs, hlog s' = evs ++ hlog (w_sess w) ->
  forall e t q qa,
    e ∈ evs -> he_alloc e = true -> heap s' !! he_task e = Some t -> queue_of s' t = Some q ->
    w_queues w !! q = Some qa -> q_has_plugin qa = true ->
    forall d, requested (t_req t) d -> limits q d -> held s' q d <= amt (capability q) d.
Proof.
  intros Hw Hcap s' evs Hl e t q qa Hin Ha Hh Hq HQ Hpl d Hd Hlim.
  destruct (placed_pods_within_limit eps w ops Hw evs Hl e t q qa Hin Ha Hh Hq HQ Hpl) as [_ Hb].
  specialize (Hb d Hd). specialize (Hcap q qa d HQ Hlim). fold s' in Hb. lia.
Qed.
