(* C01, audit W1: the run-dependent hypothesis [guarded] of the gang theorem is DERIVED for the
   action lists on which it holds.

   [kept_free]: the structure of one `allocate` run (allocate.go 305-356: a job is pushed back into
   the queue only after its statement was COMMITTED) with backfill placements interleaved anywhere:
   no job is attempted again after an attempt of it that was not committed.  It covers every
   choice list of an action list in which `allocate` occurs at most once ([allocate],
   [allocate, backfill], [backfill, allocate], [backfill, allocate, backfill], ...).
   [attempt_jobs_nodup]: the purely syntactic special case: every job is attempted at most once.

   Both imply [guarded] from a session with no Allocated task with a non-empty request (a fresh
   snapshot has none), so the gang theorem holds for them without any hypothesis on intermediate
   states of the run.  For `allocate` twice [kept_free] fails and so does the theorem (F10). *)
From stdpp Require Import gmap.
From Coq Require Import ZArith Lia.
From V Require Import Base.Res Sched.LedgerModel Sched.StmtModel Sched.GangModel Sched.CycleModel Sched.LedgerInvP
                      Sched.GangLemmas Sched.GangLemmasInv Sched.GangLemmasStmt Sched.GangLemmasCycle.
Open Scope Z_scope.

Section WithEps.
Variable eps : Z.

(* what allocate decides after the task loop of this attempt (allocate.go 343, 853-866) *)
Definition attempt_decision (w : world) (jid : positive) (places : list (positive * positive)) : decision :=
  CycleModel.decide (do_places eps w (w_sess w) (w_next_stmt w) jid places).1 jid.

Fixpoint kept_free (w : world) (K : gset positive) (ops : list cop) : Prop :=
  match ops with
  | [] => True
  | CAttempt jid places :: r =>
      jid ∉ K /\ places_non_be (w_sess w) places /\
      kept_free (step eps w (CAttempt jid places)).1
                (match attempt_decision w jid places with DCommit => K | _ => {[jid]} ∪ K end) r
  | CBackfill t n :: r => kept_free (step eps w (CBackfill t n)).1 K r
  end.

(* every tentative allocation with a non-empty request belongs to a job of K *)
Definition kinv (s : sess) (K : gset positive) : Prop :=
  forall i t, heap s !! i = Some t -> t_status t = Allocated -> t_best_effort t = false -> t_job t ∈ K.

Lemma kinv_mono s K K' : K ⊆ K' -> kinv s K -> kinv s K'.
Proof. intros Hsub H i t E Hs Hb. apply Hsub. by eapply H. Qed.

(* where an Allocated task with a non-empty request comes from, after an attempt *)
Lemma attempt_alloc_frame w jid places :
  winv w -> cop_guard w (CAttempt jid places) ->
  forall i t', heap (w_sess (step eps w (CAttempt jid places)).1) !! i = Some t' ->
    t_status t' = Allocated -> t_best_effort t' = false ->
    (exists t0, heap (w_sess w) !! i = Some t0 /\ t_status t0 = Allocated /\ t_best_effort t0 = false /\ t_job t0 = t_job t') \/
    (t_job t' = jid /\ attempt_decision w jid places <> DCommit).
Proof.
  intros (Hinv & Href & Hfresh) [Hg1 Hg2]. unfold attempt_decision. simpl.
  set (s0 := w_sess w) in *. set (sid := w_next_stmt w) in *.
  assert (Hsid : stmts s0 !! sid = None) by (apply Hfresh; lia).
  destruct (do_places_dp eps w s0 sid jid places s0 (dp_refl s0 sid jid Hinv Hsid) Hg2) as (s1 & v & E & Hdp).
  rewrite E. simpl.
  (* an Allocated non-best-effort task of s1 *)
  assert (Hs1 : forall i t1, heap s1 !! i = Some t1 -> t_status t1 = Allocated -> t_best_effort t1 = false ->
     (exists t0, heap s0 !! i = Some t0 /\ t_status t0 = Allocated /\ t_best_effort t0 = false /\ t_job t0 = t_job t1) \/
     (t_job t1 = jid /\ mkOp KAllocate i Pending ∈ default [] (stmts s1 !! sid))).
  { intros i t1 E1 Hst Hbe.
    destruct (dp_origin _ _ _ _ _ _ Hdp E1) as (t0 & E0 & (_ & Hj0 & _ & Hb0) & _).
    destruct (dp_heap _ _ _ _ Hdp i t0 E0) as (t1' & E1' & _ & Hc). rewrite E1 in E1'. injection E1' as <-.
    destruct Hc as [Hsame|[(u0 & Eu0 & _ & _ & Hju) [Hp|[Hp|[_ Hin]]]]]; try congruence.
    - left. exists t0. repeat split; congruence.
    - right. rewrite E0 in Eu0. injection Eu0 as <-. split; [congruence|done]. }
  destruct (CycleModel.decide s1 jid) eqn:Ed.
  - (* commit: every Allocate operation of the statement is Binding afterwards *)
    intros i t' E' Hst Hbe.
    unfold CycleModel.decide in Ed. destruct (jobs s1 !! jid) as [j1|] eqn:Ej1; [|done].
    unfold stmt_commit in E'. simpl in E'. set (ops := default [] (stmts s1 !! sid)) in *.
    pose proof (dp_inv _ _ _ _ Hdp) as Hinv1.
    assert (Href1 : refuse_bind s1 = ∅) by (rewrite (dp_refuse _ _ _ _ Hdp); done).
    assert (Hops : Forall (fun o => op_kind o <> KEvict /\ bindable s1 (op_task o)) ops).
    { apply Forall_forall. intros o Ho.
      pose proof (proj1 (Forall_forall _ _) (dp_ops _ _ _ _ Hdp) o Ho) as [Hk (u0 & Eu0 & _ & _ & Hj0)]. split; [done|].
      destruct (dp_heap _ _ _ _ Hdp _ _ Eu0) as (t1 & E1 & (_ & Hj1 & _) & _). exists t1. split; [done|].
      rewrite Hj1, Hj0. eauto. }
    pose proof (commit_fold eps s1 ops s1 [] (bound_batch_refl s1 Hinv1) Href1 Hops) as Hbb. simpl in Hbb.
    pose proof (bound_batch_alloc_kept _ _ _ Hbb i t' E' Hst Hbe) as E1.
    destruct (Hs1 i t' E1 Hst Hbe) as [?|[_ Hin]]; [by left|]. exfalso.
    assert (Hia : i ∈ alloc_tasks ops) by (apply elem_of_alloc_tasks; eexists; split; [exact Hin|done]).
    destruct (bb_done _ _ _ Hbb i Hia) as (t'' & E'' & Hb''). rewrite E' in E''. injection E'' as <-. congruence.
  - (* keep *)
    intros i t' E' Hst Hbe. destruct (Hs1 i t' E' Hst Hbe) as [?|[? _]]; [by left|right; split; done].
  - (* discard *)
    intros i t' E' Hst Hbe. unfold stmt_discard in E'. simpl in E'. set (ops := default [] (stmts s1 !! sid)) in *.
    assert (Hops : Forall (fun o => op_kind o <> KEvict) (rev ops)).
    { apply Forall_rev. eapply Forall_impl; [exact (dp_ops _ _ _ _ Hdp)|]. by intros o [? _]. }
    pose proof (discard_fold eps s1 (rev ops) s1 [] (undone_batch_refl s1 (dp_inv _ _ _ _ Hdp)) Hops) as Hub.
    destruct (heap s1 !! i) as [t1|] eqn:E1.
    + destruct (ub_heap _ _ _ Hub i t1 E1) as (t'' & E'' & (_ & Hj'' & _ & Hb'') & Hc).
      rewrite E' in E''. injection E'' as <-.
      destruct Hc as [Hsame|[Hp _]]; [|congruence].
      destruct (Hs1 i t1 E1) as [(t0 & ? & ? & ? & ?)|[? _]]; [congruence|congruence| |].
      * left. exists t0. repeat split; congruence.
      * right. split; [congruence|done].
    + rewrite (ub_dom _ _ _ Hub i E1) in E'. done.
Qed.

Lemma backfill_step_alloc_kept w tid nid : winv w ->
  alloc_kept (w_sess w) (w_sess (step eps w (CBackfill tid nid)).1).
Proof.
  intros (Hinv & Href & Hfresh). simpl.
  destruct (heap (w_sess w) !! tid) as [p|] eqn:Ep; [|apply alloc_kept_refl].
  destruct (bool_decide (t_status p = Pending)) eqn:Epend; simpl negb; cbv iota; [|apply alloc_kept_refl].
  apply bool_decide_eq_true in Epend.
  destruct (t_best_effort p) eqn:Ebe; simpl negb; cbv iota; [|apply alloc_kept_refl].
  destruct (backfill_spec eps (w_sess w) tid nid p Hinv Href Ep Epend Ebe) as (s' & r & E & _ & _ & Hak).
  rewrite E. simpl. exact Hak.
Qed.

Lemma kept_free_guarded ops : forall w K,
  winv w -> kinv (w_sess w) K -> kept_free w K ops -> guarded eps w ops.
Proof.
  induction ops as [|o ops IH]; intros w K Hw Hk Hf; [done|].
  destruct o as [jid places|tid nid].
  - destruct Hf as (HjK & Hnbe & Hf).
    assert (Hg : cop_guard w (CAttempt jid places)).
    { split; [|done]. intros i t E Hj Hs. destruct (t_best_effort t) eqn:Hb; [done|]. exfalso. apply HjK.
      rewrite <- Hj. by eapply Hk. }
    split; [done|]. destruct (step_spec eps w _ Hw Hg) as [Hw' _].
    eapply IH; [exact Hw'| |exact Hf].
    intros i t' E' Hs Hb.
    destruct (attempt_alloc_frame w jid places Hw Hg i t' E' Hs Hb) as [(t0 & E0 & Hs0 & Hb0 & Hj0)|[Hj Hd]].
    + rewrite <- Hj0. destruct (attempt_decision w jid places); [|apply elem_of_union; right|apply elem_of_union; right]; by eapply Hk.
    + destruct (attempt_decision w jid places); [done| |]; apply elem_of_union; left; by apply elem_of_singleton.
  - simpl in Hf. split; [done|]. destruct (step_spec eps w (CBackfill tid nid) Hw I) as [Hw' _].
    eapply IH; [exact Hw'| |exact Hf].
    intros i t' E' Hs Hb. pose proof (backfill_step_alloc_kept w tid nid Hw i t' E' Hs Hb) as E0. by eapply Hk.
Qed.

(* ---------- the purely syntactic special case: every job attempted at most once ---------- *)

Definition attempt_jobs (ops : list cop) : list positive :=
  omap (fun o => match o with CAttempt jid _ => Some jid | CBackfill _ _ => None end) ops.

(* the tasks an attempt names exist in the initial snapshot with a non-empty request *)
Definition static_non_be (s0 : sess) (ops : list cop) : Prop :=
  forall jid places tid nid, CAttempt jid places ∈ ops -> (tid, nid) ∈ places ->
    exists t0, heap s0 !! tid = Some t0 /\ t_best_effort t0 = false.

Lemma nodup_kept_free s0 ops : forall w K,
  winv w -> kinv (w_sess w) K -> persist s0 (w_sess w) ->
  NoDup (attempt_jobs ops) -> (forall j, j ∈ attempt_jobs ops -> j ∉ K) -> static_non_be s0 ops ->
  kept_free w K ops.
Proof.
  induction ops as [|o ops IH]; intros w K Hw Hk Hp Hnd HK Hst; [done|].
  destruct o as [jid places|tid nid].
  - simpl in Hnd. apply NoDup_cons in Hnd as [Hnotin Hnd].
    assert (HjK : jid ∉ K). { refine (HK jid _). simpl. apply elem_of_cons. by left. }
    assert (Hnbe : places_non_be (w_sess w) places).
    { intros tid nid t Hin Et. destruct (Hst jid places tid nid) as (t0 & E0 & Hb0); [apply elem_of_cons; by left|done|].
      destruct (proj1 Hp tid t0 E0) as (t' & Et' & (_ & _ & _ & Hb') & _). rewrite Et in Et'. injection Et' as <-. congruence. }
    simpl. split; [done|]. split; [done|].
    assert (Hg : cop_guard w (CAttempt jid places)).
    { split; [|done]. intros i t E Hj Hs. destruct (t_best_effort t) eqn:Hb; [done|]. exfalso. apply HjK.
      rewrite <- Hj. by eapply Hk. }
    destruct (step_spec eps w _ Hw Hg) as [Hw' (_ & _ & Hp' & _)].
    apply IH; [exact Hw'| |by eapply persist_trans|done| |].
    + intros i t' E' Hs Hb.
      destruct (attempt_alloc_frame w jid places Hw Hg i t' E' Hs Hb) as [(t0 & E0 & Hs0 & Hb0 & Hj0)|[Hj Hd]].
      * rewrite <- Hj0. destruct (attempt_decision w jid places); [|apply elem_of_union; right|apply elem_of_union; right]; by eapply Hk.
      * destruct (attempt_decision w jid places); [done| |]; apply elem_of_union; left; by apply elem_of_singleton.
    + intros j Hj. assert (j <> jid) by (intros ->; done). assert (j ∉ K). { refine (HK j _). simpl. apply elem_of_cons. by right. }
      destruct (attempt_decision w jid places); set_solver.
    + intros j pl t n Hin Hpl. eapply Hst; [apply elem_of_cons; right; exact Hin|exact Hpl].
  - simpl. simpl in Hnd, HK.
    destruct (step_spec eps w (CBackfill tid nid) Hw I) as [Hw' (_ & _ & Hp' & _)].
    apply IH; [exact Hw'| |by eapply persist_trans|done|done|].
    + intros i t' E' Hs Hb. pose proof (backfill_step_alloc_kept w tid nid Hw i t' E' Hs Hb) as E0. by eapply Hk.
    + intros j pl t n Hin Hpl. eapply Hst; [apply elem_of_cons; right; exact Hin|exact Hpl].
Qed.

End WithEps.
