(* C07 proofs, part A: amounts of resource vectors under add / sub, sums over task lists,
   sums over the copies a node holds and over the tasks of a job when one element is
   inserted or removed, and the status-index primitives.  For every eps (the ledger
   arithmetic does not depend on it). *)
From stdpp Require Import gmap.
From Coq Require Import ZArith Lia.
From V Require Import Base.Res Base.ResLemmas Sched.LedgerModel Sched.StmtModel Sched.GangModel
  Sched.LedgerInvP Sched.LedgerInv.
Open Scope Z_scope.

(* ---------- amounts ---------- *)

Lemma amt_add r x d : amt (add r x) d = amt r d + amt x d.
Proof. destruct d; simpl; [reflexivity|reflexivity|apply add_sget]. Qed.

Lemma amt_sub_some r x d : sc r <> None -> amt (sub r x) d = amt r d - amt x d.
Proof. intros H. destruct d; simpl; [reflexivity|reflexivity|apply sub_sget; exact H]. Qed.

Lemma sget_nil r k : sc r = None -> sget r k = 0.
Proof. intros H. unfold sget, scm. rewrite H. reflexivity. Qed.

(* amounts subtract exactly when the subtrahend is part of the minuend; this covers Go's
   nil-map quirk of Resource.sub (a nil scalar map drops the subtrahend's scalars: they are
   all 0 then) *)
Lemma amt_sub_part r x :
  (forall d, 0 <= amt x d <= amt r d) -> forall d, amt (sub r x) d = amt r d - amt x d.
Proof.
  intros H d. destruct (sc r) as [m|] eqn:Hm.
  - apply amt_sub_some. congruence.
  - destruct d as [| |k]; simpl; [reflexivity|reflexivity|].
    specialize (H (DSc k)). simpl in H.
    rewrite (sget_nil (sub r x) k) by (apply sub_nil_drops_scalars; exact Hm).
    rewrite (sget_nil r k Hm) in *. lia.
Qed.

Lemma sub_sc_some r x : sc r <> None -> sc (sub r x) <> None.
Proof. unfold sub. simpl. destruct (sc r); [discriminate|congruence]. Qed.

Lemma add_sc_some r x : sc r <> None -> sc (add r x) <> None.
Proof. unfold add. simpl. case_bool_decide; [auto|discriminate]. Qed.

Lemma res_eqv_amt r s : res_eqv r s <-> forall d, amt r d = amt s d.
Proof.
  split.
  - intros (Hc & Hm & Hs) [| |k]; simpl; auto.
  - intros H. split; [exact (H DCpu)|]. split; [exact (H DMem)|]. intros k. exact (H (DSc k)).
Qed.

Lemma res_eqv_refl r : res_eqv r r.
Proof. apply res_eqv_amt. reflexivity. Qed.
Lemma res_eqv_sym r s : res_eqv r s -> res_eqv s r.
Proof. rewrite !res_eqv_amt. intros H d. symmetry. apply H. Qed.
Lemma res_eqv_trans r s t : res_eqv r s -> res_eqv s t -> res_eqv r t.
Proof. rewrite !res_eqv_amt. intros H1 H2 d. rewrite H1. apply H2. Qed.

(* add then sub: the handler ledger is balanced whether or not the callback reported an error *)
Lemma add_sub_eqv r x : res_eqv (sub (add r x) x) r.
Proof. destruct (add_sub_pointwise r x) as (a & b & c). repeat split; assumption. Qed.

(* sub then add needs the subtrahend to be covered (or a non-nil scalar map) *)
Lemma sub_add_eqv r x : (forall d, 0 <= amt x d <= amt r d) -> res_eqv (add (sub r x) x) r.
Proof. intros H. apply res_eqv_amt. intros d. rewrite amt_add, amt_sub_part by exact H. lia. Qed.

Lemma add_eqv_proper r r' x : res_eqv r r' -> res_eqv (add r x) (add r' x).
Proof. rewrite !res_eqv_amt. intros H d. rewrite !amt_add, H. reflexivity. Qed.

(* ---------- sums ---------- *)

Lemma sum_amt_cons f t l : sum_amt f (t :: l) = f t + sum_amt f l.
Proof. reflexivity. Qed.

Lemma sum_amt_perm f l l' : l ≡ₚ l' -> sum_amt f l = sum_amt f l'.
Proof. induction 1; simpl; lia. Qed.

Lemma sum_amt_ext f g l : (forall t, t ∈ l -> f t = g t) -> sum_amt f l = sum_amt g l.
Proof.
  induction l as [|t l IH]; intros H; simpl; [reflexivity|].
  rewrite (H t) by left. rewrite IH; [reflexivity|]. intros x Hx. apply H. right. exact Hx.
Qed.

Lemma sum_amt_nonneg f l : (forall t, t ∈ l -> 0 <= f t) -> 0 <= sum_amt f l.
Proof.
  induction l as [|t l IH]; intros H; simpl; [lia|].
  assert (0 <= f t) by (apply H; left). assert (0 <= sum_amt f l) by (apply IH; intros; apply H; right; auto). lia.
Qed.

Lemma sum_amt_ge_elem f l t : (forall x, x ∈ l -> 0 <= f x) -> t ∈ l -> f t <= sum_amt f l.
Proof.
  intros Hnn Hin. apply elem_of_Permutation in Hin as [l' Hp].
  rewrite (sum_amt_perm f _ _ Hp). simpl.
  assert (0 <= sum_amt f l'); [|lia].
  apply sum_amt_nonneg. intros x Hx. apply Hnn. rewrite Hp. right. exact Hx.
Qed.

(* ---------- copies of a node ---------- *)

Lemma copies_insert (n : node) i c idle used rel pip :
  n_tasks n !! i = None ->
  copies (node_with n idle used rel pip (<[i := c]> (n_tasks n))) ≡ₚ c :: copies n.
Proof.
  intros Hn. unfold copies. simpl. rewrite map_to_list_insert by exact Hn. reflexivity.
Qed.

Lemma copies_delete (n : node) i c idle used rel pip :
  n_tasks n !! i = Some c ->
  copies n ≡ₚ c :: copies (node_with n idle used rel pip (delete i (n_tasks n))).
Proof.
  intros Hn. unfold copies. simpl.
  rewrite <- (map_to_list_delete (n_tasks n) i c Hn). reflexivity.
Qed.

Lemma elem_of_copies n c : c ∈ copies n <-> exists i, n_tasks n !! i = Some c.
Proof.
  unfold copies. rewrite elem_of_list_fmap. split.
  - intros ([i x] & -> & Hin). apply elem_of_map_to_list in Hin. eauto.
  - intros (i & Hi). exists (i, c). split; [reflexivity|]. apply elem_of_map_to_list. exact Hi.
Qed.

(* ---------- tasks of a job ---------- *)

Lemma elem_of_tasks_in h S t : t ∈ tasks_in h S <-> exists i, i ∈ S /\ h !! i = Some t.
Proof.
  unfold tasks_in. rewrite elem_of_list_omap. split.
  - intros (i & Hi & Hl). exists i. split; [apply elem_of_elements; exact Hi|exact Hl].
  - intros (i & Hi & Hl). exists i. split; [apply elem_of_elements; exact Hi|exact Hl].
Qed.

Lemma tasks_in_union_singleton h S i t :
  i ∉ S -> h !! i = Some t -> tasks_in h ({[i]} ∪ S) ≡ₚ t :: tasks_in h S.
Proof.
  intros Hni Hl. unfold tasks_in. rewrite (elements_union_singleton S i Hni). simpl. rewrite Hl. reflexivity.
Qed.

Lemma tasks_in_difference_singleton h S i t :
  i ∈ S -> h !! i = Some t -> tasks_in h S ≡ₚ t :: tasks_in h (S ∖ {[i]}).
Proof.
  intros Hi Hl.
  assert (HS : S = {[i]} ∪ (S ∖ {[i]})).
  { apply set_eq. intros x. rewrite elem_of_union, elem_of_difference, elem_of_singleton.
    destruct (decide (x = i)) as [->|]; tauto. }
  rewrite HS at 1. apply tasks_in_union_singleton; [set_solver|exact Hl].
Qed.

Lemma omap_cons' {A B} (f : A -> option B) x l :
  omap f (x :: l) = match f x with Some y => y :: omap f l | None => omap f l end.
Proof. reflexivity. Qed.

(* the list only depends on the heap entries of the members *)
Lemma tasks_in_ext h h' S : (forall i, i ∈ S -> h !! i = h' !! i) -> tasks_in h S = tasks_in h' S.
Proof.
  intros H. unfold tasks_in.
  assert (Hall : forall i, i ∈ elements S -> h !! i = h' !! i) by (intros i Hi; apply H, elem_of_elements, Hi).
  induction (elements S) as [|i l IH]; [reflexivity|].
  rewrite !omap_cons'. rewrite (Hall i) by left. rewrite IH; [reflexivity|]. intros x Hx. apply Hall. right. exact Hx.
Qed.

(* sums over the tasks of a set only depend on what the summand reads *)
Lemma sum_tasks_in_view (f : task -> Z) h h' S :
  (forall i, i ∈ S -> match h !! i, h' !! i with
                      | Some t, Some t' => f t = f t'
                      | None, None => True
                      | _, _ => False end) ->
  sum_amt f (tasks_in h S) = sum_amt f (tasks_in h' S).
Proof.
  intros H. unfold tasks_in.
  assert (Hall : forall i, i ∈ elements S -> match h !! i, h' !! i with
                      | Some t, Some t' => f t = f t'
                      | None, None => True
                      | _, _ => False end) by (intros i Hi; apply H, elem_of_elements, Hi).
  induction (elements S) as [|i l IH]; [reflexivity|].
  assert (Hi := Hall i ltac:(left)).
  assert (IH' : sum_amt f (omap (fun i => h !! i) l) = sum_amt f (omap (fun i => h' !! i) l))
    by (apply IH; intros x Hx; apply Hall; right; exact Hx).
  rewrite !omap_cons'.
  destruct (h !! i), (h' !! i); simpl; try contradiction; lia.
Qed.

(* ---------- status index ---------- *)

Lemma skey_inj s s' : skey s = skey s' -> s = s'.
Proof. destruct s, s'; simpl; intros H; try reflexivity; discriminate. Qed.

Lemma status_of_skey s : status_of_key (skey s) = Some s.
Proof. destruct s; reflexivity. Qed.

Lemma idx_set_add ix s t s' :
  idx_set (idx_add ix s t) s' = if decide (s = s') then {[t]} ∪ idx_set ix s else idx_set ix s'.
Proof.
  unfold idx_set, idx_add. destruct (decide (s = s')) as [->|Hne].
  - rewrite lookup_insert. reflexivity.
  - rewrite lookup_insert_ne; [reflexivity|]. intros H. apply Hne, skey_inj, H.
Qed.

Lemma idx_set_del ix s t s' :
  idx_set (idx_del ix s t) s' = if decide (s = s') then idx_set ix s ∖ {[t]} else idx_set ix s'.
Proof.
  unfold idx_set, idx_del. destruct (ix !! skey s) as [ts|] eqn:E.
  - case_bool_decide as He.
    + destruct (decide (s = s')) as [->|Hne].
      * rewrite lookup_delete. simpl. symmetry. exact He.
      * rewrite lookup_delete_ne; [reflexivity|]. intros H. apply Hne, skey_inj, H.
    + destruct (decide (s = s')) as [->|Hne].
      * rewrite lookup_insert. reflexivity.
      * rewrite lookup_insert_ne; [reflexivity|]. intros H. apply Hne, skey_inj, H.
  - destruct (decide (s = s')) as [->|Hne]; [|reflexivity].
    rewrite E. simpl. set_solver.
Qed.

Lemma idx_add_keys ix s t k x :
  (forall k x, ix !! k = Some x -> x <> ∅ /\ is_Some (status_of_key k)) ->
  idx_add ix s t !! k = Some x -> x <> ∅ /\ is_Some (status_of_key k).
Proof.
  intros H. unfold idx_add. destruct (decide (k = skey s)) as [->|Hne].
  - rewrite lookup_insert. intros [= <-]. split; [set_solver|]. rewrite status_of_skey. eauto.
  - rewrite lookup_insert_ne by congruence. apply H.
Qed.

Lemma idx_del_keys ix s t k x :
  (forall k x, ix !! k = Some x -> x <> ∅ /\ is_Some (status_of_key k)) ->
  idx_del ix s t !! k = Some x -> x <> ∅ /\ is_Some (status_of_key k).
Proof.
  intros H. unfold idx_del. destruct (ix !! skey s) as [ts|] eqn:E; [|apply H].
  case_bool_decide as He.
  - destruct (decide (k = skey s)) as [->|Hne].
    + rewrite lookup_delete. discriminate.
    + rewrite lookup_delete_ne by congruence. apply H.
  - destruct (decide (k = skey s)) as [->|Hne].
    + rewrite lookup_insert. intros [= <-]. split; [exact He|]. rewrite status_of_skey. eauto.
    + rewrite lookup_insert_ne by congruence. apply H.
Qed.

(* the index of a task set to which a fresh task is added *)
Lemma index_ok_add h ids ix t :
  index_ok h ids ix -> t_id t ∉ ids -> h !! t_id t = Some t ->
  index_ok h ({[t_id t]} ∪ ids) (idx_add ix (t_status t) (t_id t)).
Proof.
  intros [Hix Hk] Hni Hl. split.
  - intros s i. rewrite idx_set_add. destruct (decide (t_status t = s)) as [<-|Hne].
    + rewrite elem_of_union, elem_of_singleton, Hix. split.
      * intros [->|[Hi Ht]]; [|split; [set_solver|exact Ht]]. split; [set_solver|eauto].
      * intros [Hi (t' & Ht' & Hs)]. apply elem_of_union in Hi as [Hi|Hi]; [left; set_solver|right; eauto].
    + rewrite Hix. split.
      * intros [Hi Ht]. split; [set_solver|exact Ht].
      * intros [Hi (t' & Ht' & Hs)]. apply elem_of_union in Hi as [Hi|Hi]; [|eauto].
        apply elem_of_singleton in Hi. subst i. rewrite Hl in Ht'. inversion Ht'; subst. contradiction.
  - intros k x. apply idx_add_keys. exact Hk.
Qed.

(* ... and from which a member is removed (under the status it is stored with) *)
Lemma index_ok_del h ids ix t :
  index_ok h ids ix -> h !! t_id t = Some t ->
  index_ok h (ids ∖ {[t_id t]}) (idx_del ix (t_status t) (t_id t)).
Proof.
  intros [Hix Hk] Hl. split.
  - intros s i. rewrite idx_set_del. destruct (decide (t_status t = s)) as [<-|Hne].
    + rewrite !elem_of_difference, Hix. tauto.
    + rewrite Hix, elem_of_difference, elem_of_singleton. split; [|tauto].
      intros [Hi (t' & Ht' & Hs)]. split; [|eauto]. split; [exact Hi|].
      intros ->. rewrite Hl in Ht'. inversion Ht'; subst. contradiction.
  - intros k x. apply idx_del_keys. exact Hk.
Qed.

(* the index only reads the statuses of the members *)
Lemma index_ok_ext h h' ids ix :
  (forall i, i ∈ ids -> (t_status <$> h !! i) = (t_status <$> h' !! i)) ->
  index_ok h ids ix -> index_ok h' ids ix.
Proof.
  intros Hag [Hix Hk]. split; [|exact Hk].
  intros s i. rewrite Hix. split; intros [Hi (t & Ht & Hs)]; (split; [exact Hi|]);
    specialize (Hag i Hi); rewrite Ht in Hag; simpl in Hag.
  - destruct (h' !! i) as [t'|]; [|discriminate]. simpl in Hag. exists t'. split; [reflexivity|congruence].
  - destruct (h !! i) as [t'|]; [|discriminate]. simpl in Hag. exists t'. split; [reflexivity|congruence].
Qed.
