(* Property C02, part 1: what NodeInfo.AddTask / RemoveTask do to "the node is within capacity".

   Only inequalities are used about Resource.sub (whatever the nil-map exception does,
   r - x <= sub r x <= r for x >= 0); the idle vector always has a scalar map
   (sc (n_idle n) <> None is part of node_within_capacity), so Idle.sub is exact.  All for every
   eps > 0. *)
From stdpp Require Import gmap.
From Coq Require Import ZArith Lia.
From V Require Import Base.Res Base.ResLemmas Sched.LedgerModel Sched.StmtModel Sched.GangModel Sched.LedgerInvP.
Open Scope Z_scope.

(* ---------- amounts of add / sub ---------- *)

Lemma amt_add r x d : amt (add r x) d = amt r d + amt x d.
Proof. destruct d; simpl; [reflexivity|reflexivity|apply add_sget]. Qed.

Lemma amt_sub_exact r x d : sc r <> None -> amt (sub r x) d = amt r d - amt x d.
Proof. intros H. destruct d; simpl; [reflexivity|reflexivity|apply sub_sget; exact H]. Qed.

Lemma sget_nil r k : sc r = None -> sget r k = 0.
Proof. intros H. unfold sget, scm. rewrite H. reflexivity. Qed.

(* the two inequalities that hold whether or not the receiver has a scalar map *)
Lemma amt_sub_lower r x d : 0 <= amt x d -> amt r d - amt x d <= amt (sub r x) d.
Proof.
  intros Hx. destruct (sc r) as [m|] eqn:Hm.
  - rewrite amt_sub_exact by congruence. lia.
  - destruct d; simpl in *; try lia.
    rewrite (sget_nil (sub r x)) by (apply sub_nil_drops_scalars; exact Hm).
    rewrite (sget_nil r) by exact Hm. lia.
Qed.

Lemma amt_sub_upper r x d : 0 <= amt x d -> amt (sub r x) d <= amt r d.
Proof.
  intros Hx. destruct (sc r) as [m|] eqn:Hm.
  - rewrite amt_sub_exact by congruence. lia.
  - destruct d; simpl in *; try lia.
    rewrite (sget_nil (sub r x)) by (apply sub_nil_drops_scalars; exact Hm).
    rewrite (sget_nil r) by exact Hm. lia.
Qed.

Lemma sc_add_some r x : sc r <> None -> sc (add r x) <> None.
Proof. intros H. unfold add. simpl. case_bool_decide; [exact H|discriminate]. Qed.

Lemma sc_sub_some r x : sc r <> None -> sc (sub r x) <> None.
Proof. intros H. unfold sub. simpl. destruct (sc r); [discriminate|congruence]. Qed.

(* ---------- the two halves of node_within_capacity ---------- *)

(* what the node will have free once the releasing tasks are gone and the pipelined ones arrived *)
Definition fut_amt (n : node) (d : dim) : Z :=
  amt (n_idle n) d + amt (n_releasing n) d - amt (n_pipelined n) d.

Definition idle_ok (eps : Z) (n : node) : Prop :=
  sc (n_idle n) <> None /\ forall d, guarded_dim d -> - eps < amt (n_idle n) d.
Definition future_ok (eps : Z) (n : node) : Prop :=
  forall d, guarded_dim d -> - eps < fut_amt n d.

Lemma nwc_split eps n : node_within_capacity eps n <-> idle_ok eps n /\ future_ok eps n.
Proof.
  unfold node_within_capacity, idle_ok, future_ok, fut_amt. split.
  - intros [Hs H]. repeat split; try exact Hs; intros d Hd; apply (H d Hd).
  - intros [[Hs Hi] Hf]. split; [exact Hs|]. intros d Hd. split; [apply Hi|apply Hf]; exact Hd.
Qed.

(* FutureIdle() is exactly idle + releasing - pipelined when Idle has a scalar map *)
Lemma future_idle_amt n d : sc (n_idle n) <> None -> amt (future_idle n) d = fut_amt n d.
Proof.
  intros H. unfold future_idle, fut_amt.
  rewrite amt_sub_exact by (apply sc_add_some; exact H). rewrite amt_add. reflexivity.
Qed.

(* ---------- "the request fits": the pointwise content of the guards ---------- *)

Definition fits (eps : Z) (r : res) (avail : dim -> Z) : Prop :=
  forall d, guarded_dim d -> amt r d < avail d + eps.

Lemma fits_zero eps r avail :
  (forall d, guarded_dim d -> amt r d = 0) -> (forall d, guarded_dim d -> - eps < avail d) -> fits eps r avail.
Proof. intros Hz Ha d Hd. rewrite (Hz d Hd). specialize (Ha d Hd). lia. Qed.

Section Guards.
Variable eps : Z.
Hypothesis eps_pos : 0 < eps.

(* LessEqual(., Zero) on a vector r0 that dominates the request r (r0 = InitResreq, r = Resreq;
   r0 = r for the Binding re-check) *)
Lemma less_equal_fits r0 r x :
  less_equal eps r0 x DZero = true ->
  (forall d, amt r d <= amt r0 d) ->
  (forall d, guarded_dim d -> - eps < amt x d) ->
  fits eps r (amt x).
Proof.
  intros Hle Hdom Hx d Hd. apply (less_equal_zero_spec eps eps_pos) in Hle as (Hc & Hm & Hs).
  specialize (Hdom d). destruct d as [| |k]; simpl in *; try lia.
  destruct (scm r0 !! k) as [v|] eqn:E.
  - specialize (Hs k v E). rewrite (sget_lookup _ _ _ E) in Hdom. lia.
  - rewrite (sget_none _ _ E) in Hdom. specialize (Hx (DSc k) Hd). simpl in Hx. lia.
Qed.

Lemma less_equal_names_fits r0 r x :
  less_equal_names eps r0 x DZero = true ->
  (forall d, amt r d <= amt r0 d) ->
  (forall d, guarded_dim d -> - eps < amt x d) ->
  fits eps r (amt x).
Proof. rewrite (less_equal_names_zero eps). apply less_equal_fits. Qed.

(* without the "available amount is above -eps" side condition: dimensions the request lacks
   are simply not touched *)
Lemma less_equal_pointwise r x d :
  less_equal eps r x DZero = true -> amt r d = 0 \/ amt r d < amt x d + eps.
Proof.
  intros Hle. apply (less_equal_zero_spec eps eps_pos) in Hle as (Hc & Hm & Hs).
  destruct d as [| |k]; simpl; [right; lia|right; lia|].
  destruct (scm r !! k) as [v|] eqn:E.
  - right. rewrite (sget_lookup _ _ _ E). apply Hs. exact E.
  - left. apply sget_none. exact E.
Qed.

(* ---------- AddTask ---------- *)

(* the guard under which an AddTask keeps the node within capacity, by status of the added
   task: Binding is re-checked against Idle by AddTask itself, so only the future half is asked *)
Definition add_guard (n : node) (t : task) : Prop :=
  match t_status t with
  | Pipelined => fits eps (t_req t) (fut_amt n)
  | Binding => fits eps (t_req t) (fut_amt n)
  | Releasing => fits eps (t_req t) (amt (n_idle n))
  | _ => fits eps (t_req t) (amt (n_idle n)) /\ fits eps (t_req t) (fut_amt n)
  end.

Lemma node_add_ret n t n' t' : node_add eps n t = inl (n', t') -> t' = set_node t (Some (n_id n)).
Proof.
  unfold node_add. repeat case_bool_decide; try discriminate.
  destruct (n_has_node n); simpl; [|intros Hq; inversion Hq; reflexivity].
  destruct (t_status t); try (intros Hq; inversion Hq; reflexivity).
  destruct (less_equal_names _ _ _ _); [intros Hq; inversion Hq; reflexivity|discriminate].
Qed.

Lemma node_add_tasks n t n' t' :
  node_add eps n t = inl (n', t') -> n_tasks n' = <[t_id t := set_node t (Some (n_id n))]> (n_tasks n).
Proof.
  unfold node_add. repeat case_bool_decide; try discriminate.
  destruct (n_has_node n); simpl; [|intros Hq; inversion Hq; reflexivity].
  destruct (t_status t); try (intros Hq; inversion Hq; reflexivity).
  destruct (less_equal_names _ _ _ _); [intros Hq; inversion Hq; reflexivity|discriminate].
Qed.

Lemma nwc_intro n :
  sc (n_idle n) <> None ->
  (forall d, guarded_dim d -> - eps < amt (n_idle n) d /\ - eps < fut_amt n d) ->
  node_within_capacity eps n.
Proof. intros Hs H. split; [exact Hs|]. intros d Hd. apply (H d Hd). Qed.

Lemma nwc_elim n d :
  node_within_capacity eps n -> guarded_dim d -> - eps < amt (n_idle n) d /\ - eps < fut_amt n d.
Proof. intros [_ H] Hd. apply (H d Hd). Qed.

(* the ledger after "Idle.sub(r); Used.Add(r)" *)
Lemma take_idle_keeps n r used rel pip ts :
  node_within_capacity eps n ->
  fits eps r (amt (n_idle n)) -> fits eps r (fut_amt n) ->
  rel = n_releasing n -> pip = n_pipelined n ->
  node_within_capacity eps (node_with n (sub (n_idle n) r) used rel pip ts).
Proof.
  intros Hn Hi Hf -> ->. pose proof Hn as [Hs _]. apply nwc_intro; simpl.
  - apply sc_sub_some. exact Hs.
  - intros d Hd. unfold fut_amt. simpl. rewrite !amt_sub_exact by exact Hs.
    specialize (Hi d Hd). specialize (Hf d Hd). unfold fut_amt in Hf. lia.
Qed.

(* A.1 *)
Theorem node_add_guarded_keeps_capacity n t n' t' :
  node_within_capacity eps n -> nonneg (t_req t) -> add_guard n t ->
  node_add eps n t = inl (n', t') -> node_within_capacity eps n'.
Proof.
  intros Hn Hnn Hg. pose proof Hn as [Hs Hall]. unfold node_add.
  repeat case_bool_decide; try discriminate.
  destruct (n_has_node n); simpl.
  2:{ intros Hq; inversion Hq; subst. exact Hn. }
  unfold add_guard in Hg.
  destruct (t_status t) eqn:Est;
    try (destruct Hg as [Hi Hf]; intros Hq; inversion Hq; subst; apply take_idle_keeps; auto).
  - (* Pipelined *)
    intros Hq; inversion Hq; subst. apply nwc_intro; simpl; [exact Hs|].
    intros d Hd. destruct (nwc_elim n d Hn Hd) as [H1 H2]. split; [exact H1|].
    unfold fut_amt in *. simpl. rewrite amt_add. specialize (Hg d Hd). unfold fut_amt in Hg. lia.
  - (* Binding *)
    destruct (less_equal_names eps (t_req t) (n_idle n) DZero) eqn:Hle; [|discriminate].
    intros Hq; inversion Hq; subst. apply take_idle_keeps; auto.
    apply (less_equal_names_fits (t_req t)); [exact Hle|intros; lia|].
    intros d Hd. apply (nwc_elim n d Hn Hd).
  - (* Releasing: idle goes down, releasing goes up by the same amount *)
    intros Hq; inversion Hq; subst. apply nwc_intro; simpl; [apply sc_sub_some; exact Hs|].
    intros d Hd. destruct (nwc_elim n d Hn Hd) as [H1 H2].
    unfold fut_amt in *. simpl. rewrite amt_sub_exact by exact Hs. rewrite amt_add.
    specialize (Hg d Hd). lia.
Qed.

(* the Binding re-check alone keeps the "idle" half, for ANY request (no sign condition) *)
Theorem node_add_binding_keeps_idle n t n' t' :
  idle_ok eps n -> t_status t = Binding ->
  node_add eps n t = inl (n', t') -> idle_ok eps n'.
Proof.
  intros [Hs Hi] Est. unfold node_add. repeat case_bool_decide; try discriminate.
  destruct (n_has_node n); simpl.
  2:{ intros Hq; inversion Hq; subst. split; assumption. }
  rewrite Est. destruct (less_equal_names eps (t_req t) (n_idle n) DZero) eqn:Hle; [|discriminate].
  intros Hq; inversion Hq; subst. split; simpl; [apply sc_sub_some; exact Hs|].
  intros d Hd. rewrite amt_sub_exact by exact Hs.
  rewrite (less_equal_names_zero eps) in Hle.
  destruct (less_equal_pointwise (t_req t) (n_idle n) d Hle) as [Hz|Hlt]; [rewrite Hz|]; specialize (Hi d Hd); lia.
Qed.

(* On the bind path NO dimension is exempt: the re-check is LessEqualWithResourcesName over every key
   of the request, 'pods' included.  The same statement over ALL dimensions: *)
Definition idle_all_ok (n : node) : Prop := sc (n_idle n) <> None /\ forall d, - eps < amt (n_idle n) d.

Theorem node_add_binding_keeps_idle_all n t n' t' :
  idle_all_ok n -> t_status t = Binding ->
  node_add eps n t = inl (n', t') -> idle_all_ok n'.
Proof.
  intros [Hs Hi] Est. unfold node_add. repeat case_bool_decide; try discriminate.
  destruct (n_has_node n); simpl.
  2:{ intros Hq; inversion Hq; subst. split; assumption. }
  rewrite Est. destruct (less_equal_names eps (t_req t) (n_idle n) DZero) eqn:Hle; [|discriminate].
  intros Hq; inversion Hq; subst. split; simpl; [apply sc_sub_some; exact Hs|].
  intros d. rewrite amt_sub_exact by exact Hs.
  rewrite (less_equal_names_zero eps) in Hle.
  destruct (less_equal_pointwise (t_req t) (n_idle n) d Hle) as [Hz|Hlt]; [rewrite Hz|]; specialize (Hi d); lia.
Qed.

(* ... and the whole of it when nothing is pipelined beyond what is being released (true of every
   node of the scheduler cache, where no task is ever Pipelined) *)
Definition pip_le_rel (n : node) : Prop := forall d, amt (n_pipelined n) d <= amt (n_releasing n) d.

Theorem node_add_binding_keeps_capacity n t n' t' :
  node_within_capacity eps n -> pip_le_rel n -> t_status t = Binding ->
  node_add eps n t = inl (n', t') -> node_within_capacity eps n' /\ pip_le_rel n'.
Proof.
  intros Hn Hp Est Hadd. apply nwc_split in Hn as [Hi Hf].
  pose proof (node_add_binding_keeps_idle n t n' t' Hi Est Hadd) as Hi'.
  assert (Hsame : n_releasing n' = n_releasing n /\ n_pipelined n' = n_pipelined n).
  { revert Hadd. unfold node_add. repeat case_bool_decide; try discriminate.
    destruct (n_has_node n); simpl; [|intros Hq; inversion Hq; subst; auto].
    rewrite Est. destruct (less_equal_names _ _ _ _); [|discriminate].
    intros Hq; inversion Hq; subst; auto. }
  destruct Hsame as [Hr Hpp].
  assert (Hp' : pip_le_rel n') by (intros d; rewrite Hr, Hpp; apply Hp).
  split; [|exact Hp']. apply nwc_split. split; [exact Hi'|].
  intros d Hd. unfold fut_amt. destruct Hi' as [_ Hi']. specialize (Hi' d Hd). specialize (Hp' d). lia.
Qed.

(* ---------- RemoveTask ---------- *)

Theorem node_remove_keeps_capacity n tid :
  node_within_capacity eps n ->
  (forall c, n_tasks n !! tid = Some c -> nonneg (t_req c)) ->
  node_within_capacity eps (node_remove n tid).
Proof.
  intros Hn Hnn. pose proof Hn as [Hs _]. unfold node_remove.
  destruct (n_tasks n !! tid) as [c|] eqn:E; [|exact Hn].
  specialize (Hnn c eq_refl).
  destruct (n_has_node n); simpl; [|apply nwc_intro; simpl; [exact Hs|intros d Hd; apply (nwc_elim n d Hn Hd)]].
  destruct (t_status c); apply nwc_intro; simpl; try (apply sc_add_some; exact Hs); try exact Hs;
    intros d Hd; destruct (nwc_elim n d Hn Hd) as [H1 H2]; unfold fut_amt in *; simpl;
    rewrite ?amt_add; specialize (Hnn d);
    try (pose proof (amt_sub_lower (n_releasing n) (t_req c) d Hnn));
    try (pose proof (amt_sub_upper (n_pipelined n) (t_req c) d Hnn)); lia.
Qed.

Theorem node_remove_keeps_idle n tid :
  idle_ok eps n ->
  (forall c, n_tasks n !! tid = Some c -> nonneg (t_req c)) ->
  idle_ok eps (node_remove n tid).
Proof.
  intros [Hs Hi] Hnn. unfold node_remove.
  destruct (n_tasks n !! tid) as [c|] eqn:E; [|split; assumption].
  specialize (Hnn c eq_refl).
  destruct (n_has_node n); simpl; [|split; assumption].
  destruct (t_status c); split; simpl; try (apply sc_add_some; exact Hs); try exact Hs;
    intros d Hd; rewrite ?amt_add; specialize (Hi d Hd); specialize (Hnn d); lia.
Qed.

End Guards.

(* ---------- the literal forms of A.1 (boolean tests on the request itself) ---------- *)

Section Literal.
Variable eps : Z.
Hypothesis eps_pos : 0 < eps.

Lemma fut_above n : node_within_capacity eps n -> forall d, guarded_dim d -> - eps < amt (future_idle n) d.
Proof. intros Hn d Hd. rewrite future_idle_amt by apply Hn. apply (nwc_elim eps n d Hn Hd). Qed.

Lemma fits_future n r :
  node_within_capacity eps n -> fits eps r (amt (future_idle n)) -> fits eps r (fut_amt n).
Proof. intros Hn H d Hd. specialize (H d Hd). rewrite future_idle_amt in H by apply Hn. exact H. Qed.

Corollary node_add_allocated_keeps_capacity n t n' t' :
  node_within_capacity eps n -> nonneg (t_req t) -> granular eps (t_req t) ->
  t_status t = Allocated ->
  less_equal eps (t_req t) (n_idle n) DZero = true ->
  less_equal_names eps (t_req t) (future_idle n) DZero = true ->
  node_add eps n t = inl (n', t') -> node_within_capacity eps n'.
Proof.
  intros Hn Hnn _ Est H1 H2. apply (node_add_guarded_keeps_capacity eps eps_pos n t n' t' Hn Hnn).
  unfold add_guard. rewrite Est. split.
  - apply (less_equal_fits eps eps_pos (t_req t)); [exact H1|intros; lia|]. intros d Hd. apply (nwc_elim eps n d Hn Hd).
  - apply fits_future; [exact Hn|].
    apply (less_equal_names_fits eps eps_pos (t_req t)); [exact H2|intros; lia|]. apply fut_above. exact Hn.
Qed.

Corollary node_add_pipelined_keeps_capacity n t n' t' :
  node_within_capacity eps n -> nonneg (t_req t) -> granular eps (t_req t) ->
  t_status t = Pipelined ->
  less_equal eps (t_req t) (future_idle n) DZero = true ->
  node_add eps n t = inl (n', t') -> node_within_capacity eps n'.
Proof.
  intros Hn Hnn _ Est H1. apply (node_add_guarded_keeps_capacity eps eps_pos n t n' t' Hn Hnn).
  unfold add_guard. rewrite Est. apply fits_future; [exact Hn|].
  apply (less_equal_fits eps eps_pos (t_req t)); [exact H1|intros; lia|]. apply fut_above. exact Hn.
Qed.

End Literal.

(* The Binding re-check looks at Idle only: on a node that holds a pipelined task it can push
   FutureIdle below -eps.  (Session nodes never receive a Binding AddTask -- commit only changes
   the job-side status -- and cache nodes never hold Pipelined tasks; the theorem for the bind
   path therefore carries pip_le_rel.) *)
Definition refute_node : node :=
  mkNode 1 true (mkRes 10 0 (Some ∅)) (mkRes 0 0 (Some ∅)) (mkRes 0 0 (Some ∅)) (mkRes 10 0 (Some ∅))
         (mkRes 10 0 (Some ∅)) ∅.
Definition refute_task : task :=
  mkTask 7 1 1 1 0 (mkRes 10 0 None) (mkRes 10 0 None) false false Binding None.

Theorem binding_recheck_ignores_future_refuted :
  exists n t n' t',
    node_within_capacity 2 n /\ nonneg (t_req t) /\ granular 2 (t_req t) /\ t_status t = Binding /\
    node_add 2 n t = inl (n', t') /\ ~ node_within_capacity 2 n'.
Proof.
  exists refute_node, refute_task.
  destruct (node_add 2 refute_node refute_task) as [[n' t']|e] eqn:E; [|vm_compute in E; discriminate].
  exists n', t'. vm_compute in E. inversion E; subst; clear E.
  split; [|split; [|split; [|split; [reflexivity|split; [reflexivity|]]]]].
  - split; [discriminate|]. intros d _. destruct d; vm_compute; split; reflexivity.
  - intros d. destruct d; vm_compute; discriminate.
  - intros d. destruct d; vm_compute; [right; discriminate|left; reflexivity|left; reflexivity].
  - intros [_ H]. specialize (H DCpu). destruct H as [_ H]; [discriminate|]. vm_compute in H. discriminate.
Qed.
