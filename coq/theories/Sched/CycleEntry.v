(* entry shared by the action properties C01, C02, C03 *)
From stdpp Require Import gmap.
From Coq Require Import ZArith List.
From V Require Import Base.Codec Base.Res Base.ResCodec Sched.LedgerModel Sched.StmtModel Sched.LedgerCodec
                      Sched.LedgerInv Sched.DumpCodec Sched.GangModel Sched.CycleModel Sched.CycleCodec Sched.CycleLaws.
Import ListNotations.
Open Scope Z_scope.

Definition dLawIn : dec (cycle_case * dump * list positive) :=
  let* c := dCycle in let* d := dDump in let* b := dList dPos in ret (c, d, b).

Definition cycle_entry (sel : Z) (toks : list Z) : list Z :=
  match sel with
  | 1 => match run_dec dCycle toks with Some c => run_cycle_dump c | None => bad_input end
  | 101 => match run_dec dLawIn toks with Some (c, d, b) => eBool (law_gang c d b) | None => bad_input end
  | 102 => match run_dec dLawIn toks with Some (c, d, b) => eBool (law_nodes c d) | None => bad_input end
  | 103 => match run_dec dLawIn toks with Some (c, d, b) => eBool (law_queues c d) | None => bad_input end
  | _ => bad_input
  end.
