(* C07 proofs, part B: JobInfo.AddTaskInfo / DeleteTaskInfo / UpdateTaskStatus preserve the
   job invariant (sums, status index, sub-job bookkeeping). *)
From stdpp Require Import gmap.
From Coq Require Import ZArith Lia.
From V Require Import Base.Res Base.ResLemmas Sched.LedgerModel Sched.StmtModel Sched.GangModel
  Sched.LedgerInvP Sched.LedgerInv Sched.LedgerLemmasA.
Open Scope Z_scope.

(* what the job invariant reads of a task object *)
Definition tview (t : task) : status * res * positive := (t_status t, t_req t, t_job t).
Definition agree_on (S : gset positive) (h h' : gmap positive task) : Prop :=
  forall i, i ∈ S -> (tview <$> h !! i) = (tview <$> h' !! i).

Lemma agree_on_insert_notin S h i t : i ∉ S -> agree_on S h (<[i := t]> h).
Proof. intros Hni k Hk. rewrite lookup_insert_ne; [reflexivity|]. intros ->. contradiction. Qed.

Lemma agree_on_mono S S' h h' : S' ⊆ S -> agree_on S h h' -> agree_on S' h h'.
Proof. intros Hs H i Hi. apply H. set_solver. Qed.

Lemma agree_view S h h' i t :
  agree_on S h h' -> i ∈ S -> h !! i = Some t -> exists t', h' !! i = Some t' /\ tview t' = tview t.
Proof.
  intros H Hi Ht. specialize (H i Hi). rewrite Ht in H. simpl in H.
  destruct (h' !! i) as [t'|]; [|discriminate]. simpl in H. exists t'. split; [reflexivity|congruence].
Qed.

Lemma agree_on_sym S h h' : agree_on S h h' -> agree_on S h' h.
Proof. intros H i Hi. symmetry. apply H, Hi. Qed.

Lemma sum_view_agree (f : task -> Z) S h h' :
  (forall t t', tview t = tview t' -> f t = f t') ->
  agree_on S h h' -> sum_amt f (tasks_in h S) = sum_amt f (tasks_in h' S).
Proof.
  intros Hf Hag. apply sum_tasks_in_view. intros i Hi. specialize (Hag i Hi).
  destruct (h !! i), (h' !! i); simpl in Hag; try discriminate; [|exact I].
  apply Hf. congruence.
Qed.

Lemma sub_tasks_subset h j sid sj : sub_inv h j -> j_subs j !! sid = Some sj -> sj_tasks sj ⊆ j_tasks j.
Proof.
  intros (Hdom & _ & Hsj) Hl i Hi. destruct (Hsj sid sj Hl) as [Hmem _].
  apply Hmem in Hi. rewrite <- Hdom. apply elem_of_dom. eauto.
Qed.

Lemma job_inv_ext h h' j : agree_on (j_tasks j) h h' -> job_inv h j -> job_inv h' j.
Proof.
  intros Hag (Hm & Hix & Htot & Hal & Hsub).
  assert (Hst : forall S, S ⊆ j_tasks j -> forall i, i ∈ S -> (t_status <$> h !! i) = (t_status <$> h' !! i)).
  { intros S HS i Hi. specialize (Hag i (HS i Hi)).
    destruct (h !! i), (h' !! i); simpl in *; try discriminate; [|reflexivity]. unfold tview in Hag. congruence. }
  split; [|split; [|split; [|split]]].
  - intros i Hi. destruct (Hm i Hi) as (t & Ht & Hj).
    destruct (agree_view _ _ _ _ _ Hag Hi Ht) as (t' & Ht' & Hv). exists t'. split; [exact Ht'|].
    unfold tview in Hv. congruence.
  - eapply index_ok_ext; [|exact Hix]. apply (Hst (j_tasks j)). reflexivity.
  - intros d. rewrite Htot. apply sum_view_agree; [|exact Hag].
    intros t t' Hv. unfold req_amt, tview in *. congruence.
  - intros d. rewrite Hal. apply sum_view_agree; [|exact Hag].
    intros t t' Hv. unfold alloc_amt, tview in *. inversion Hv as [[H1 H2 H3]]. rewrite H1, H2. reflexivity.
  - pose proof Hsub as (Hdom & Hts & Hsj). split; [exact Hdom|]. split; [exact Hts|].
    intros sid sj Hl. destruct (Hsj sid sj Hl) as [Hmem Hi]. split; [exact Hmem|].
    eapply index_ok_ext; [|exact Hi]. apply Hst. eapply sub_tasks_subset; eauto.
Qed.

Lemma index_ok_empty h : index_ok h ∅ ∅.
Proof.
  split.
  - intros s i. unfold idx_set. rewrite lookup_empty. simpl. set_solver.
  - intros k x. rewrite lookup_empty. discriminate.
Qed.

Lemma job_add_id j t : j_id (job_add j t) = j_id j.
Proof. reflexivity. Qed.
Lemma job_del_id j t : j_id (job_del j t) = j_id j.
Proof. reflexivity. Qed.
Lemma job_add_tasks j t : j_tasks (job_add j t) = {[t_id t]} ∪ j_tasks j.
Proof. reflexivity. Qed.
Lemma job_del_tasks j t : j_tasks (job_del j t) = j_tasks j ∖ {[t_id t]}.
Proof. reflexivity. Qed.

(* AddTaskInfo of a task that the heap holds and the job does not yet *)
Lemma job_add_inv h j t :
  job_inv h j -> h !! t_id t = Some t -> t_id t ∉ j_tasks j -> t_job t = j_id j ->
  job_inv h (job_add j t).
Proof.
  intros (Hm & Hix & Htot & Hal & Hsub) Hl Hni Hj.
  split; [|split; [|split; [|split]]].
  - intros i Hi. rewrite job_add_tasks in Hi. apply elem_of_union in Hi as [Hi|Hi]; [|apply Hm, Hi].
    apply elem_of_singleton in Hi. subst i. exists t. split; [exact Hl|exact Hj].
  - apply index_ok_add; assumption.
  - intros d. simpl. rewrite amt_add, Htot.
    rewrite (sum_amt_perm _ _ _ (tasks_in_union_singleton h _ _ _ Hni Hl)). simpl. unfold req_amt at 2. lia.
  - intros d. simpl.
    rewrite (sum_amt_perm _ _ _ (tasks_in_union_singleton h _ _ _ Hni Hl)). simpl. unfold alloc_amt at 1.
    destruct (allocated_status (t_status t)); [rewrite amt_add, Hal; lia|rewrite Hal; lia].
  - destruct Hsub as (Hdom & Hts & Hsj).
    assert (Hfresh : forall sid, j_task_sub j !! t_id t = Some sid -> False).
    { intros sid Hs. apply Hni. rewrite <- Hdom. apply elem_of_dom. eauto. }
    split; [|split].
    + simpl. rewrite dom_insert_L, Hdom. reflexivity.
    + intros i sid. simpl. destruct (decide (i = t_id t)) as [->|Hne].
      * rewrite lookup_insert. intros [= <-]. rewrite lookup_insert. eexists. split; [reflexivity|]. simpl. set_solver.
      * rewrite lookup_insert_ne by congruence. intros Hs. destruct (Hts i sid Hs) as (sj & Hsj1 & Hin).
        destruct (decide (sid = t_sub t)) as [->|Hns].
        -- rewrite lookup_insert. eexists. split; [reflexivity|]. simpl. rewrite Hsj1. simpl. set_solver.
        -- rewrite lookup_insert_ne by congruence. eauto.
    + intros sid sj'. simpl. destruct (decide (sid = t_sub t)) as [->|Hns].
      * rewrite lookup_insert. intros [= <-]. simpl.
        destruct (j_subs j !! t_sub t) as [sj0|] eqn:E; simpl.
        -- destruct (Hsj _ _ E) as [Hmem Hi0]. split.
           ++ intros i. rewrite elem_of_union, elem_of_singleton. destruct (decide (i = t_id t)) as [->|Hne].
              ** rewrite lookup_insert. tauto.
              ** rewrite lookup_insert_ne by congruence. rewrite Hmem. tauto.
           ++ apply index_ok_add; [exact Hi0| |exact Hl]. intros Hin. apply Hmem in Hin. eapply Hfresh, Hin.
        -- split.
           ++ intros i. rewrite elem_of_union, elem_of_singleton. destruct (decide (i = t_id t)) as [->|Hne].
              ** rewrite lookup_insert. tauto.
              ** rewrite lookup_insert_ne by congruence. split; [set_solver|].
                 intros Hs. destruct (Hts i _ Hs) as (sj & Hsj1 & _). congruence.
           ++ apply index_ok_add; [apply index_ok_empty|set_solver|exact Hl].
      * rewrite lookup_insert_ne by congruence. intros Hs. destruct (Hsj _ _ Hs) as [Hmem Hi0].
        split; [|exact Hi0]. intros i. rewrite Hmem. destruct (decide (i = t_id t)) as [->|Hne].
        -- rewrite lookup_insert. split; [intros Hx; exfalso; eapply Hfresh, Hx|intros [= Hx]; congruence].
        -- rewrite lookup_insert_ne by congruence. reflexivity.
Qed.

(* DeleteTaskInfo of a member, keyed by the stored object *)
Lemma job_del_inv h j t :
  heap_ok h -> job_inv h j -> h !! t_id t = Some t -> t_id t ∈ j_tasks j ->
  job_inv h (job_del j t).
Proof.
  intros Hh (Hm & Hix & Htot & Hal & Hsub) Hl Hin.
  assert (Hmem_t : t ∈ tasks_in h (j_tasks j)) by (apply elem_of_tasks_in; eauto).
  assert (Hnn : forall x, x ∈ tasks_in h (j_tasks j) -> nonneg (t_req x)).
  { intros x Hx. apply elem_of_tasks_in in Hx as (i & _ & Hi). apply (Hh i x Hi). }
  assert (Hp := tasks_in_difference_singleton h _ _ _ Hin Hl).
  split; [|split; [|split; [|split]]].
  - intros i Hi. rewrite job_del_tasks in Hi. apply Hm. set_solver.
  - apply index_ok_del; assumption.
  - intros d. simpl. rewrite amt_sub_part.
    + rewrite Htot, (sum_amt_perm _ _ _ Hp). simpl. unfold req_amt at 1. lia.
    + intros d'. split; [apply (Hnn t Hmem_t)|]. rewrite Htot.
      apply (sum_amt_ge_elem (req_amt d')); [|exact Hmem_t]. intros x Hx. apply (Hnn x Hx).
  - intros d. simpl. destruct (allocated_status (t_status t)) eqn:Ea.
    + assert (Hal' : forall d', amt (j_alloc j) d' =
                amt (t_req t) d' + sum_amt (alloc_amt d') (tasks_in h (j_tasks j ∖ {[t_id t]}))).
      { intros d'. rewrite Hal, (sum_amt_perm _ _ _ Hp). simpl. unfold alloc_amt at 1. rewrite Ea. reflexivity. }
      rewrite amt_sub_part; [rewrite Hal'; lia|].
      intros d'. split; [apply (Hnn t Hmem_t)|]. rewrite Hal'.
      assert (0 <= sum_amt (alloc_amt d') (tasks_in h (j_tasks j ∖ {[t_id t]}))); [|lia].
      apply sum_amt_nonneg. intros x Hx. unfold alloc_amt. destruct (allocated_status (t_status x)); [|lia].
      apply Hnn. rewrite Hp. right. exact Hx.
    + rewrite Hal, (sum_amt_perm _ _ _ Hp). simpl. unfold alloc_amt at 1. rewrite Ea. lia.
  - destruct Hsub as (Hdom & Hts & Hsj).
    assert (Hsome : is_Some (j_task_sub j !! t_id t)) by (apply elem_of_dom; rewrite Hdom; exact Hin).
    destruct Hsome as [sid Hsid]. destruct (Hts _ _ Hsid) as (sj & Hsj1 & Hin1).
    destruct (Hsj _ _ Hsj1) as [Hmem Hi0].
    unfold sub_inv, job_del. simpl. rewrite Hsid, Hsj1.
    split; [|split].
    + rewrite dom_delete_L, Hdom. reflexivity.
    + intros i sid'. destruct (decide (i = t_id t)) as [->|Hne].
      * rewrite lookup_delete. discriminate.
      * rewrite lookup_delete_ne by congruence. intros Hs. destruct (Hts i sid' Hs) as (sj0 & Hsj0 & Hin0).
        destruct (decide (sid' = sid)) as [->|Hns].
        -- rewrite lookup_insert. eexists. split; [reflexivity|]. simpl.
           rewrite Hsj1 in Hsj0. inversion Hsj0; subst. set_solver.
        -- rewrite lookup_insert_ne by congruence. eauto.
    + intros sid' sj'. destruct (decide (sid' = sid)) as [->|Hns].
      * rewrite lookup_insert. intros [= <-]. simpl. split.
        -- intros i. rewrite elem_of_difference, elem_of_singleton. destruct (decide (i = t_id t)) as [->|Hne].
           ++ rewrite lookup_delete. split; [tauto|discriminate].
           ++ rewrite lookup_delete_ne by congruence. rewrite Hmem. tauto.
        -- apply index_ok_del; assumption.
      * rewrite lookup_insert_ne by congruence. intros Hs. destruct (Hsj _ _ Hs) as [Hmem' Hi'].
        split; [|exact Hi']. intros i. rewrite Hmem'. destruct (decide (i = t_id t)) as [->|Hne].
        -- rewrite lookup_delete, Hsid. split; [intros [= Hx]; congruence|discriminate].
        -- rewrite lookup_delete_ne by congruence. reflexivity.
Qed.

Lemma pos_set_status p st : t_id (set_status p st) = t_id p /\ t_job (set_status p st) = t_job p /\
  t_req (set_status p st) = t_req p /\ t_node (set_status p st) = t_node p /\ t_status (set_status p st) = st.
Proof. repeat split. Qed.

Lemma pos_set_node p n : t_id (set_node p n) = t_id p /\ t_job (set_node p n) = t_job p /\
  t_req (set_node p n) = t_req p /\ t_node (set_node p n) = n /\ t_status (set_node p n) = t_status p.
Proof. repeat split. Qed.

Lemma heap_ok_insert h p : heap_ok h -> nonneg (t_req p) -> heap_ok (<[t_id p := p]> h).
Proof.
  intros Hh Hnn i t. destruct (decide (i = t_id p)) as [->|Hne].
  - rewrite lookup_insert. intros [= <-]. split; [reflexivity|exact Hnn].
  - rewrite lookup_insert_ne by congruence. apply Hh.
Qed.

(* UpdateTaskStatus with ANY object of the task (the stored one or a clone with another
   status / node name): the job invariant holds over the heap in which the passed object,
   with its new status, has become the stored one *)
Theorem job_update_inv h j p st j' p' :
  heap_ok h -> job_inv h j -> t_job p = j_id j -> nonneg (t_req p) ->
  job_update h j p st = (j', p') ->
  p' = set_status p st /\ j_id j' = j_id j /\ t_id p ∈ j_tasks j' /\
  heap_ok (<[t_id p := p']> h) /\ job_inv (<[t_id p := p']> h) j'.
Proof.
  intros Hh Hj Hjob Hnn. unfold job_update. intros [= <- <-].
  set (q := set_status p st). set (h' := <[t_id p := q]> h).
  assert (Hq : h' !! t_id q = Some q) by (unfold h'; simpl; apply lookup_insert).
  split; [reflexivity|].
  assert (Hh' : heap_ok h') by (apply (heap_ok_insert h q Hh Hnn)).
  case_bool_decide as Hin.
  - pose proof Hj as (Hm & _). destruct (Hm _ Hin) as (stored & Hs & _). rewrite Hs.
    assert (Hid : t_id stored = t_id p) by (apply (Hh _ _ Hs)).
    assert (Hs' : h !! t_id stored = Some stored) by (rewrite Hid; exact Hs).
    assert (Hin' : t_id stored ∈ j_tasks j) by (rewrite Hid; exact Hin).
    pose proof (job_del_inv h j stored Hh Hj Hs' Hin') as Hd.
    assert (Hni : t_id p ∉ j_tasks (job_del j stored)) by (rewrite job_del_tasks, Hid; set_solver).
    split; [reflexivity|]. split; [rewrite job_add_tasks; set_solver|]. split; [exact Hh'|].
    apply job_add_inv; [|exact Hq|exact Hni|simpl; exact Hjob].
    eapply job_inv_ext; [|exact Hd]. apply agree_on_insert_notin. exact Hni.
  - split; [reflexivity|]. split; [rewrite job_add_tasks; set_solver|]. split; [exact Hh'|].
    apply job_add_inv; [|exact Hq|exact Hin|simpl; exact Hjob].
    eapply job_inv_ext; [|exact Hj]. apply agree_on_insert_notin. exact Hin.
Qed.
