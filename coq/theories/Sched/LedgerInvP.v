(* Prop-level statement of the bookkeeping invariants (properties C07, C02, C01, C03 are
   stated with these).  Executable counterparts: Sched/LedgerInv.v (ledger_okb) and
   Sched/CycleLaws.v.  Definitions only. *)
From stdpp Require Import gmap.
From Coq Require Import ZArith.
From V Require Import Base.Res Sched.LedgerModel Sched.StmtModel Sched.GangModel.
Open Scope Z_scope.

(* a dimension of a resource vector: cpu, memory or a scalar name *)
Inductive dim := DCpu | DMem | DSc (k : positive).
Definition amt (r : res) (d : dim) : Z :=
  match d with DCpu => cpu r | DMem => mem r | DSc k => sget r k end.

Definition nonneg (r : res) : Prop := forall d, 0 <= amt r d.
(* amounts are 0 or at least the tolerance: true of every Kubernetes quantity on the integer
   grid (1 milli-cpu = 16 model units >= eps = 2) *)
Definition granular (eps : Z) (r : res) : Prop := forall d, amt r d = 0 \/ eps <= amt r d.

Definition sum_amt (f : task -> Z) (l : list task) : Z := foldr (fun t acc => f t + acc) 0 l.

Definition tasks_in (h : gmap positive task) (ids : gset positive) : list task :=
  omap (fun i => h !! i) (elements ids).

Definition req_amt (d : dim) (t : task) : Z := amt (t_req t) d.
Definition alloc_amt (d : dim) (t : task) : Z := if allocated_status (t_status t) then amt (t_req t) d else 0.

(* every task object is filed under its own id and requests non-negative amounts *)
Definition heap_ok (h : gmap positive task) : Prop :=
  forall i t, h !! i = Some t -> t_id t = i /\ nonneg (t_req t).

(* TaskStatusIndex partitions the task set by status: every task under exactly its status and
   nowhere else, no empty entry, no foreign key *)
Definition index_ok (h : gmap positive task) (ids : gset positive) (ix : gmap positive (gset positive)) : Prop :=
  (forall s i, i ∈ idx_set ix s <-> i ∈ ids /\ exists t, h !! i = Some t /\ t_status t = s) /\
  (forall k x, ix !! k = Some x -> x <> ∅ /\ is_Some (status_of_key k)).

Definition sub_inv (h : gmap positive task) (j : job) : Prop :=
  dom (j_task_sub j) = j_tasks j /\
  (forall i sid, j_task_sub j !! i = Some sid -> exists sj, j_subs j !! sid = Some sj /\ i ∈ sj_tasks sj) /\
  (forall sid sj, j_subs j !! sid = Some sj ->
     (forall i, i ∈ sj_tasks sj <-> j_task_sub j !! i = Some sid) /\
     index_ok h (sj_tasks sj) (sj_index sj)).

Definition job_inv (h : gmap positive task) (j : job) : Prop :=
  (forall i, i ∈ j_tasks j -> exists t, h !! i = Some t /\ t_job t = j_id j) /\
  index_ok h (j_tasks j) (j_index j) /\
  (forall d, amt (j_total j) d = sum_amt (req_amt d) (tasks_in h (j_tasks j))) /\
  (forall d, amt (j_alloc j) d = sum_amt (alloc_amt d) (tasks_in h (j_tasks j))) /\
  sub_inv h j.

(* node ledger: the four sums over the copies the node holds, and idle + used = allocatable *)
Definition copies (n : node) : list task := map snd (map_to_list (n_tasks n)).
Definition used_amt (d : dim) (c : task) : Z := if bool_decide (t_status c = Pipelined) then 0 else amt (t_req c) d.
Definition rel_amt (d : dim) (c : task) : Z := if bool_decide (t_status c = Releasing) then amt (t_req c) d else 0.
Definition pip_amt (d : dim) (c : task) : Z := if bool_decide (t_status c = Pipelined) then amt (t_req c) d else 0.

Definition node_inv (h : gmap positive task) (n : node) : Prop :=
  (forall i c, n_tasks n !! i = Some c ->
     t_id c = i /\ t_node c = Some (n_id n) /\ nonneg (t_req c) /\
     exists t, h !! i = Some t /\ t_req t = t_req c /\ t_job t = t_job c) /\
  (n_has_node n = true ->
     (forall d, amt (n_used n) d = sum_amt (used_amt d) (copies n)) /\
     (forall d, amt (n_releasing n) d = sum_amt (rel_amt d) (copies n)) /\
     (forall d, amt (n_pipelined n) d = sum_amt (pip_amt d) (copies n)) /\
     (forall d, amt (n_idle n) d + amt (n_used n) d = amt (n_alloc n) d)).

Definition ledger_inv (s : sess) : Prop :=
  heap_ok (heap s) /\
  (forall i j, jobs s !! i = Some j -> j_id j = i /\ job_inv (heap s) j) /\
  (forall i n, nodes s !! i = Some n -> n_id n = i /\ node_inv (heap s) n).

(* C02: a node is within capacity when nothing is over-committed now (idle) nor once the
   releasing tasks are gone and the pipelined ones have arrived (future idle); the "pods" count is
   outside the ledger guard (DESIGN C02 L) *)
Definition guarded_dim (d : dim) : Prop := d <> DSc pods_name.
Definition node_within_capacity (eps : Z) (n : node) : Prop :=
  sc (n_idle n) <> None /\
  forall d, guarded_dim d ->
    - eps < amt (n_idle n) d /\
    - eps < amt (n_idle n) d + amt (n_releasing n) d - amt (n_pipelined n) d.

(* C01: the property's own wording of "the gang is complete", on a set of tasks that the cluster
   can see as placed (bound / binding / running / succeeded, or pending with an empty request) *)
Definition cluster_ready (t : task) : bool :=
  match t_status t with
  | Binding | Bound | Running | Succeeded => true
  | Pending | Allocated => t_best_effort t
  | _ => false
  end.
Definition count_tasks (p : task -> bool) (l : list task) : Z := Z.of_nat (length (List.filter p l)).
Definition gang_ok (h : gmap positive task) (j : job) : Prop :=
  let ts := tasks_in h (j_tasks j) in
  j_min j <= count_tasks cluster_ready ts /\
  (j_role_total j <= j_min j ->
   forall r m, j_role_min j !! r = Some m ->
     m <= count_tasks (fun t => cluster_ready t && bool_decide (t_role t = r)) ts).
