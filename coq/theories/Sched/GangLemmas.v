(* C01, part 1: the counts the gang plugin reads from TaskStatusIndex are the specification
   counts over the job's task list (index_counts_spec), and the plugin's JobReady / JobPipelined
   votes are the property's own wording on those counts (gang_ready_spec).  std++ style. *)
From stdpp Require Import gmap.
From Coq Require Import ZArith Lia.
From V Require Import Base.Res Sched.LedgerModel Sched.StmtModel Sched.GangModel Sched.LedgerInvP.
Open Scope Z_scope.

(* the membership half of LedgerInvP.index_ok: all the counting needs *)
Definition idx_ok (h : gmap positive task) (ids : gset positive) (ix : gmap positive (gset positive)) : Prop :=
  forall s i, i ∈ idx_set ix s <-> i ∈ ids /\ exists t, h !! i = Some t /\ t_status t = s.

Lemma index_ok_idx_ok h ids ix : index_ok h ids ix -> idx_ok h ids ix.
Proof. intros [H _]. exact H. Qed.

(* a task predicate read through the heap *)
Definition holds (h : gmap positive task) (p : task -> bool) (i : positive) : bool :=
  match h !! i with Some t => p t | None => false end.

(* what the session counts as occupying a gang slot: ReadyTaskNum's statuses, best-effort
   Pending tasks, and (for the Pipelined votes) Pipelined tasks *)
Definition slot_counted (with_pipelined : bool) (t : task) : bool :=
  match t_status t with
  | Bound | Binding | Running | Allocated | Succeeded => true
  | Pipelined => with_pipelined
  | Pending => t_best_effort t
  | _ => false
  end.
Definition session_ready : task -> bool := slot_counted false.
Definition session_pipelined : task -> bool := slot_counted true.
Definition ready_status (t : task) : bool :=
  match t_status t with Bound | Binding | Running | Allocated | Succeeded => true | _ => false end.
Definition has_status (s : status) (t : task) : bool := bool_decide (t_status t = s).
Definition in_role (r : positive) (t : task) : bool := bool_decide (t_role t = r).

(* ---------- list / set counting ---------- *)

Lemma stdpp_filter_length {A} (q : A -> bool) (l : list A) :
  length (filter (fun i => q i = true) l) = length (List.filter q l).
Proof.
  induction l as [|a l IH]; [done|].
  rewrite filter_cons. destruct (decide (q a = true)) as [E|E].
  - cbn [List.filter]. rewrite E. simpl. by rewrite IH.
  - cbn [List.filter]. destruct (q a); [done|]. done.
Qed.

Lemma size_filter_list (l : list positive) : forall (X : gset positive) (q : positive -> bool),
  NoDup l -> (forall i, i ∈ X <-> i ∈ l /\ q i = true) ->
  size X = length (List.filter q l).
Proof.
  induction l as [|a l IH]; intros X q Hnd HX.
  - simpl. apply size_empty_iff. intros i. rewrite HX. set_solver.
  - apply NoDup_cons in Hnd as [Ha Hnd]. simpl. destruct (q a) eqn:E.
    + assert (X = {[a]} ∪ (X ∖ {[a]})) as ->.
      { apply set_eq. intros i. destruct (decide (i = a)) as [->|].
        - split; [set_solver|]. intros _. apply HX. split; [left|done].
        - set_solver. }
      rewrite size_union by set_solver. rewrite size_singleton. simpl. f_equal.
      apply IH; [done|]. intros i. rewrite elem_of_difference, HX, elem_of_cons.
      split.
      * intros [[[->|Hi] Hq] Hne]; [set_solver|done].
      * intros [Hi Hq]. split; [tauto|]. intros ->%elem_of_singleton. done.
    + apply IH; [done|]. intros i. rewrite HX, elem_of_cons. split.
      * intros [[->|Hi] Hq]; [congruence|done].
      * tauto.
Qed.

Lemma filter_tasks_in h (p : task -> bool) (l : list positive) :
  length (List.filter p (omap (fun i => h !! i) l)) = length (List.filter (holds h p) l).
Proof.
  induction l as [|a l IH]; [done|]. cbn. unfold holds at 1.
  destruct (h !! a) as [t|]; cbn.
  - destruct (p t); cbn; by rewrite IH.
  - done.
Qed.

Lemma size_spec h ids (X : gset positive) (p : task -> bool) :
  (forall i, i ∈ X <-> i ∈ ids /\ holds h p i = true) ->
  Z.of_nat (size X) = count_tasks p (tasks_in h ids).
Proof.
  intros HX. unfold count_tasks, tasks_in. rewrite filter_tasks_in. f_equal.
  apply size_filter_list; [apply NoDup_elements|].
  intros i. rewrite HX. by rewrite elem_of_elements.
Qed.

Lemma idx_count_spec h ids ix s : idx_ok h ids ix ->
  idx_count ix s = count_tasks (has_status s) (tasks_in h ids).
Proof.
  intros Hix. unfold idx_count. apply size_spec. intros i. rewrite (Hix s i).
  unfold holds, has_status. destruct (h !! i) as [t|].
  - rewrite bool_decide_eq_true. naive_solver.
  - naive_solver.
Qed.

Lemma count_set_spec h ids ix s (q : task -> bool) : idx_ok h ids ix ->
  count_set (holds h q) (idx_set ix s) = count_tasks (fun t => has_status s t && q t) (tasks_in h ids).
Proof.
  intros Hix. unfold count_set. rewrite stdpp_filter_length.
  rewrite <- (size_filter_list (elements (idx_set ix s)) (filter (fun i => holds h q i = true) (idx_set ix s))).
  - apply size_spec. intros i. rewrite elem_of_filter, (Hix s i).
    unfold holds, has_status. destruct (h !! i) as [t|].
    + rewrite andb_true_iff, bool_decide_eq_true. naive_solver.
    + naive_solver.
  - apply NoDup_elements.
  - intros i. rewrite elem_of_filter, elem_of_elements. tauto.
Qed.

(* counts as sums of 0/1 *)
Lemma count_tasks_sum (p : task -> bool) l : count_tasks p l = sum_amt (fun t => Z.b2z (p t)) l.
Proof.
  unfold count_tasks. induction l as [|t l IH]; [done|].
  change (sum_amt (fun t0 => Z.b2z (p t0)) (t :: l)) with (Z.b2z (p t) + sum_amt (fun t0 => Z.b2z (p t0)) l).
  rewrite <- IH. cbn [List.filter]. destruct (p t); cbn [length Z.b2z]; lia.
Qed.
Lemma sum_amt_add (f g : task -> Z) l : sum_amt f l + sum_amt g l = sum_amt (fun t => f t + g t) l.
Proof.
  induction l as [|t l IH]; [done|].
  change (sum_amt f (t :: l)) with (f t + sum_amt f l).
  change (sum_amt g (t :: l)) with (g t + sum_amt g l).
  change (sum_amt (fun t0 => f t0 + g t0) (t :: l)) with (f t + g t + sum_amt (fun t0 => f t0 + g t0) l).
  lia.
Qed.
Lemma sum_amt_ext (f g : task -> Z) l : (forall t, f t = g t) -> sum_amt f l = sum_amt g l.
Proof.
  intros H. induction l as [|t l IH]; [done|].
  change (sum_amt f (t :: l)) with (f t + sum_amt f l).
  change (sum_amt g (t :: l)) with (g t + sum_amt g l).
  by rewrite H, IH.
Qed.

Lemma count_tasks_mono (p q : task -> bool) l : (forall t, p t = true -> q t = true) -> count_tasks p l <= count_tasks q l.
Proof.
  intros H. rewrite !count_tasks_sum. induction l as [|t l IH]; [done|].
  change (sum_amt (fun t0 => Z.b2z (p t0)) (t :: l)) with (Z.b2z (p t) + sum_amt (fun t0 => Z.b2z (p t0)) l).
  change (sum_amt (fun t0 => Z.b2z (q t0)) (t :: l)) with (Z.b2z (q t) + sum_amt (fun t0 => Z.b2z (q t0)) l).
  specialize (H t). destruct (p t), (q t); cbn [Z.b2z]; try lia; by specialize (H eq_refl).
Qed.
Lemma count_tasks_nonneg (p : task -> bool) l : 0 <= count_tasks p l.
Proof. unfold count_tasks. lia. Qed.

(* ---------- index_counts_spec ---------- *)

Section Counts.
Variables (h : gmap positive task) (ids : gset positive) (ix : gmap positive (gset positive)).
Hypothesis Hix : idx_ok h ids ix.
Let ts := tasks_in h ids.

Lemma ready_num_spec : ready_num ix = count_tasks ready_status ts.
Proof.
  unfold ready_num. rewrite !(idx_count_spec h ids) by done. fold ts.
  rewrite !count_tasks_sum, !sum_amt_add. apply sum_amt_ext. intros t.
  unfold has_status, ready_status. destruct (t_status t); reflexivity.
Qed.

Lemma waiting_num_spec : waiting_num ix = count_tasks (has_status Pipelined) ts.
Proof. unfold waiting_num. by rewrite (idx_count_spec h ids). Qed.

Lemma pending_be_num_spec :
  pending_be_num h ix = count_tasks (fun t => has_status Pending t && t_best_effort t) ts.
Proof. unfold pending_be_num. exact (count_set_spec h ids ix Pending t_best_effort Hix). Qed.

Lemma role_occupied_spec b r :
  role_occupied h ix b r = count_tasks (fun t => slot_counted b t && in_role r t) ts.
Proof.
  unfold role_occupied.
  change (has_role h r) with (holds h (in_role r)).
  change (is_best_effort h) with (holds h t_best_effort).
  assert (Hbe : count_set (fun i => holds h (in_role r) i && holds h t_best_effort i) (idx_set ix Pending) =
                count_set (holds h (fun t => in_role r t && t_best_effort t)) (idx_set ix Pending)).
  { unfold count_set. f_equal. f_equal. apply list_filter_iff. intros i. unfold holds. by destruct (h !! i). }
  rewrite Hbe. rewrite !(count_set_spec h ids) by done. fold ts.
  destruct b.
  - rewrite !count_tasks_sum, !sum_amt_add. apply sum_amt_ext. intros t.
    unfold has_status, slot_counted, in_role.
    destruct (t_status t), (bool_decide (t_role t = r)), (t_best_effort t); reflexivity.
  - rewrite Z.add_0_r, !count_tasks_sum, !sum_amt_add. apply sum_amt_ext. intros t.
    unfold has_status, slot_counted, in_role.
    destruct (t_status t), (bool_decide (t_role t = r)), (t_best_effort t); reflexivity.
Qed.

Lemma ready_total_spec : ready_num ix + pending_be_num h ix = count_tasks session_ready ts.
Proof.
  rewrite ready_num_spec, pending_be_num_spec.
  rewrite !count_tasks_sum, !sum_amt_add. apply sum_amt_ext. intros t.
  unfold has_status, ready_status, session_ready, slot_counted.
  destruct (t_status t), (t_best_effort t); reflexivity.
Qed.

Lemma pipelined_total_spec :
  waiting_num ix + ready_num ix + pending_be_num h ix = count_tasks session_pipelined ts.
Proof.
  rewrite waiting_num_spec, ready_num_spec, pending_be_num_spec.
  rewrite !count_tasks_sum, !sum_amt_add. apply sum_amt_ext. intros t.
  unfold has_status, ready_status, session_pipelined, slot_counted.
  destruct (t_status t), (t_best_effort t); reflexivity.
Qed.

Lemma is_ready_spec m : is_ready h ix m = true <-> m <= count_tasks session_ready ts.
Proof. unfold is_ready. by rewrite bool_decide_eq_true, ready_total_spec. Qed.
Lemma is_pipelined_spec m : is_pipelined h ix m = true <-> m <= count_tasks session_pipelined ts.
Proof. unfold is_pipelined. by rewrite bool_decide_eq_true, pipelined_total_spec. Qed.
Lemma is_starving_spec m :
  is_starving ix m = true <-> count_tasks (has_status Pipelined) ts + count_tasks ready_status ts < m.
Proof. unfold is_starving. by rewrite bool_decide_eq_true, waiting_num_spec, ready_num_spec. Qed.

End Counts.

(* the gang condition with the SESSION's notion of an occupied slot *)
Definition gang_cond (p : task -> bool) (h : gmap positive task) (j : job) : Prop :=
  let ts := tasks_in h (j_tasks j) in
  j_min j <= count_tasks p ts /\
  (j_role_total j <= j_min j ->
   forall r m, j_role_min j !! r = Some m -> m <= count_tasks (fun t => p t && in_role r t) ts).

Lemma roles_ok_spec h j b : idx_ok h (j_tasks j) (j_index j) ->
  roles_ok h j b = true <->
  (j_role_total j <= j_min j ->
   forall r m, j_role_min j !! r = Some m ->
     m <= count_tasks (fun t => slot_counted b t && in_role r t) (tasks_in h (j_tasks j))).
Proof.
  intros Hix. unfold roles_ok. case_bool_decide as Hlt.
  - split; [intros _ Hle; lia|done].
  - rewrite bool_decide_eq_true. unfold map_Forall. split.
    + intros H _ r m Hr. specialize (H r m Hr). apply bool_decide_eq_true in H.
      by rewrite (role_occupied_spec h (j_tasks j)) in H.
    + intros H r m Hr. apply bool_decide_eq_true.
      rewrite (role_occupied_spec h (j_tasks j)) by done. apply H; [lia|done].
Qed.

Theorem gang_ready_spec_idx h j : idx_ok h (j_tasks j) (j_index j) ->
  (gang_job_ready h j = true <-> gang_cond session_ready h j) /\
  (gang_job_pipelined h j = true <-> gang_cond session_pipelined h j).
Proof.
  intros Hix. unfold gang_job_ready, gang_job_pipelined, check_task_ready, check_task_pipelined, gang_cond.
  rewrite !andb_true_iff, !roles_ok_spec by done.
  rewrite (is_ready_spec h (j_tasks j)), (is_pipelined_spec h (j_tasks j)) by done.
  unfold session_ready, session_pipelined. tauto.
Qed.

(* ---------- statements under LedgerInvP.job_inv ---------- *)

Lemma job_inv_idx_ok h j : job_inv h j -> idx_ok h (j_tasks j) (j_index j).
Proof. intros (_ & Hix & _). by apply index_ok_idx_ok. Qed.

Theorem index_counts_spec h j : job_inv h j ->
  let ts := tasks_in h (j_tasks j) in
  ready_num (j_index j) = count_tasks ready_status ts /\
  pending_be_num h (j_index j) = count_tasks (fun t => has_status Pending t && t_best_effort t) ts /\
  waiting_num (j_index j) = count_tasks (has_status Pipelined) ts /\
  (forall b r, role_occupied h (j_index j) b r = count_tasks (fun t => slot_counted b t && in_role r t) ts).
Proof.
  intros Hj%job_inv_idx_ok ts. split; [|split; [|split]].
  - by apply ready_num_spec.
  - by apply pending_be_num_spec.
  - by apply waiting_num_spec.
  - intros b r. by apply role_occupied_spec.
Qed.

Theorem gang_ready_spec h j : job_inv h j ->
  (gang_job_ready h j = true <-> gang_cond session_ready h j) /\
  (gang_job_pipelined h j = true <-> gang_cond session_pipelined h j) /\
  (gang_job_starving j = true <->
   count_tasks (has_status Pipelined) (tasks_in h (j_tasks j)) + count_tasks ready_status (tasks_in h (j_tasks j)) < j_min j).
Proof.
  intros Hj%job_inv_idx_ok. destruct (gang_ready_spec_idx h j Hj) as [H1 H2].
  split; [done|split; [done|]]. by apply is_starving_spec.
Qed.

(* the cluster-visible condition of LedgerInvP.gang_ok in the same shape *)
Lemma gang_ok_cond h j : gang_ok h j <-> gang_cond cluster_ready h j.
Proof.
  unfold gang_ok, gang_cond, in_role. done.
Qed.
