(* The bookkeeping invariant of property C07, as Prop (for the theorems) and
   as an executable checker (for the law evaluated on the implementation's
   dumps); and the semantic equality of resource vectors used to state
   "restored exactly" (a key holding 0 and an absent key denote the same
   amounts; Go's Add-then-Sub leaves such keys behind). *)
From stdpp Require Import gmap.
From Coq Require Import ZArith.
From V Require Import Base.Res Sched.LedgerModel.
Open Scope Z_scope.

(* amounts of a vector: cpu, memory and every scalar *)
Definition res_eqv (r s : res) : Prop :=
  cpu r = cpu s /\ mem r = mem s /\ forall k, sget r k = sget s k.

Definition res_keys (l : list res) : list positive :=
  map fst (map_to_list (foldr (fun r acc => scm r ∪ acc) (∅ : gmap positive Z) l)).

Definition res_eqvb (r s : res) : bool :=
  bool_decide (cpu r = cpu s) && bool_decide (mem r = mem s) &&
  forallb (fun k => bool_decide (sget r k = sget s k)) (res_keys [r; s]).

(* sum of the requests of a list of tasks *)
Definition sum_req (l : list task) : res := foldr (fun t acc => add acc (t_req t)) empty_res l.

Definition tasks_of (heap : gmap positive task) (ids : gset positive) : list task :=
  omap (fun i => heap !! i) (elements ids).

Definition all_statuses : list status :=
  [Pending; Allocated; Pipelined; Binding; Bound; Running; Releasing; Succeeded; Failed; Unknown].

Definition gmap_allb {A} (p : positive -> A -> bool) (m : gmap positive A) : bool :=
  bool_decide (map_Forall (fun k v => p k v = true) m).
Definition gset_allb (p : positive -> bool) (x : gset positive) : bool :=
  bool_decide (set_Forall (fun k => p k = true) x).
Definition gset_filterb (p : positive -> bool) (x : gset positive) : gset positive :=
  filter (fun k => p k = true) x.

Definition has_status (heap : gmap positive task) (s : status) (i : positive) : bool :=
  match heap !! i with Some t => bool_decide (t_status t = s) | None => false end.

(* index ix is exactly the partition of ids by status (no empty entries, no foreign keys) *)
Definition index_okb (heap : gmap positive task) (ids : gset positive) (ix : gmap positive (gset positive)) : bool :=
  forallb (fun s =>
     let want := gset_filterb (has_status heap s) ids in
     match ix !! skey s with
     | Some got => bool_decide (got = want) && negb (bool_decide (got = ∅))
     | None => bool_decide (want = ∅)
     end) all_statuses &&
  gmap_allb (fun k _ => bool_decide (is_Some (status_of_key k))) ix.

Definition sub_okb (heap : gmap positive task) (j : job) : bool :=
  (* every task of the job is in exactly the sub-job TaskToSubJob names, and each sub-job's
     index partitions its own tasks *)
  bool_decide (dom (j_task_sub j) = j_tasks j) &&
  gmap_allb (fun sid sj =>
      bool_decide (sj_tasks sj = gset_filterb (fun i => bool_decide (j_task_sub j !! i = Some sid)) (j_tasks j)) &&
      index_okb heap (sj_tasks sj) (sj_index sj)) (j_subs j) &&
  gmap_allb (fun _ sid => bool_decide (is_Some (j_subs j !! sid))) (j_task_sub j).

Definition job_okb (heap : gmap positive task) (j : job) : bool :=
  let ts := tasks_of heap (j_tasks j) in
  gset_allb (fun i => match heap !! i with
                      | Some t => bool_decide (t_job t = j_id j) && bool_decide (t_id t = i)
                      | None => false end) (j_tasks j) &&
  res_eqvb (j_total j) (sum_req ts) &&
  res_eqvb (j_alloc j) (sum_req (filter (fun t => allocated_status (t_status t) = true) ts)) &&
  index_okb heap (j_tasks j) (j_index j) &&
  sub_okb heap j.

Definition node_okb (heap : gmap positive task) (n : node) : bool :=
  let cs := map snd (map_to_list (n_tasks n)) in
  gmap_allb (fun i c =>
      bool_decide (t_id c = i) && bool_decide (t_node c = Some (n_id n)) &&
      match heap !! i with
      | Some t => bool_decide (t_req t = t_req c) && bool_decide (t_job t = t_job c)
      | None => false end) (n_tasks n) &&
  (if n_has_node n then
     res_eqvb (n_used n) (sum_req (filter (fun c => t_status c <> Pipelined) cs)) &&
     res_eqvb (n_releasing n) (sum_req (filter (fun c => t_status c = Releasing) cs)) &&
     res_eqvb (n_pipelined n) (sum_req (filter (fun c => t_status c = Pipelined) cs)) &&
     res_eqvb (add (n_idle n) (n_used n)) (n_alloc n)
   else true).

Definition ledger_okb (heap : gmap positive task) (jobs : gmap positive job) (nodes : gmap positive node) : bool :=
  gmap_allb (fun i t => bool_decide (t_id t = i)) heap &&
  gmap_allb (fun i j => bool_decide (j_id j = i) && job_okb heap j) jobs &&
  gmap_allb (fun i n => bool_decide (n_id n = i) && node_okb heap n) nodes.

(* "restored exactly": same task statuses / node names, same job and node ledgers (amounts),
   same indexes, same node-held copies *)
Definition task_sameb (a b : task) : bool :=
  bool_decide (t_id a = t_id b) && bool_decide (t_status a = t_status b) && bool_decide (t_node a = t_node b).

Definition map_sameb {A} (f : A -> A -> bool) (a b : gmap positive A) : bool :=
  bool_decide (dom a = dom b) &&
  gmap_allb (fun i x => match b !! i with Some y => f x y | None => false end) a.

Definition sub_sameb (a b : subjob) : bool :=
  bool_decide (sj_tasks a = sj_tasks b) && bool_decide (sj_index a = sj_index b).

Definition job_sameb (a b : job) : bool :=
  bool_decide (j_tasks a = j_tasks b) && bool_decide (j_index a = j_index b) &&
  res_eqvb (j_alloc a) (j_alloc b) && res_eqvb (j_total a) (j_total b) &&
  bool_decide (j_task_sub a = j_task_sub b) &&
  map_sameb sub_sameb (j_subs a) (j_subs b).

Definition node_sameb (a b : node) : bool :=
  res_eqvb (n_idle a) (n_idle b) && res_eqvb (n_used a) (n_used b) &&
  res_eqvb (n_releasing a) (n_releasing b) && res_eqvb (n_pipelined a) (n_pipelined b) &&
  map_sameb task_sameb (n_tasks a) (n_tasks b).

Definition share_sameb (a b : gmap positive res) : bool :=
  forallb (fun k => res_eqvb (default empty_res (a !! k)) (default empty_res (b !! k)))
          (elements (dom a ∪ dom b)).
