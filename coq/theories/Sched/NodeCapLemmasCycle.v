(* Property C02, part 2: what the statement operations and the action skeleton do to the nodes
   map -- always a sequence of guarded AddTask / RemoveTask calls ([nsteps]) -- and the main
   theorem: no choice list makes any node leave "within capacity", at any prefix. *)
From stdpp Require Import gmap.
From Coq Require Import ZArith Lia.
From V Require Import Base.Res Base.ResLemmas Sched.LedgerModel Sched.StmtModel Sched.GangModel Sched.CycleModel
                      Sched.LedgerInvP Sched.NodeCapLemmas.
Open Scope Z_scope.

(* ---------- nodes: within capacity + the copies they hold request non-negative amounts ---------- *)

Definition node_safe (eps : Z) (n : node) : Prop :=
  node_within_capacity eps n /\ forall i c, n_tasks n !! i = Some c -> nonneg (t_req c).
Definition nodes_safe (eps : Z) (ns : gmap positive node) : Prop :=
  forall i n, ns !! i = Some n -> node_safe eps n.

(* a sequence of RemoveTask / guarded AddTask calls on the nodes of a map *)
Inductive nsteps (eps : Z) : gmap positive node -> gmap positive node -> Prop :=
| ns_refl ns : nsteps eps ns ns
| ns_remove ns nid n tid ns' :
    ns !! nid = Some n -> nsteps eps (<[nid := node_remove n tid]> ns) ns' -> nsteps eps ns ns'
| ns_add ns nid n t n' t' ns' :
    ns !! nid = Some n -> nonneg (t_req t) -> add_guard eps n t -> node_add eps n t = inl (n', t') ->
    nsteps eps (<[nid := n']> ns) ns' -> nsteps eps ns ns'.

Lemma nsteps_trans eps a b c : nsteps eps a b -> nsteps eps b c -> nsteps eps a c.
Proof.
  induction 1; intros Hc; [exact Hc| |].
  - eapply ns_remove; eauto.
  - eapply ns_add; eauto.
Qed.

Lemma nsteps_eq eps a b : a = b -> nsteps eps a b.
Proof. intros ->. apply ns_refl. Qed.

Lemma node_remove_tasks n tid : n_tasks (node_remove n tid) = delete tid (n_tasks n).
Proof.
  unfold node_remove. destruct (n_tasks n !! tid) as [c|] eqn:E.
  - destruct (n_has_node n); simpl; [|reflexivity]. destruct (t_status c); reflexivity.
  - symmetry. apply delete_notin. exact E.
Qed.

Section Cycle.
Variable eps : Z.
Hypothesis eps_pos : 0 < eps.

Lemma node_remove_safe n tid : node_safe eps n -> node_safe eps (node_remove n tid).
Proof.
  intros [Hc Hnn]. split.
  - apply node_remove_keeps_capacity; [exact Hc|]. intros c Hl. eapply Hnn; exact Hl.
  - intros i c. rewrite node_remove_tasks. intros Hl. apply lookup_delete_Some in Hl as [_ Hl]. eapply Hnn; exact Hl.
Qed.

Lemma node_add_safe n t n' t' :
  node_safe eps n -> nonneg (t_req t) -> add_guard eps n t -> node_add eps n t = inl (n', t') -> node_safe eps n'.
Proof.
  intros [Hc Hnn] Ht Hg Ha. split.
  - eapply node_add_guarded_keeps_capacity; eauto.
  - intros i c. rewrite (node_add_tasks eps n t n' t' Ha). intros Hl.
    apply lookup_insert_Some in Hl as [[_ <-]|[_ Hl]]; [exact Ht|eapply Hnn; exact Hl].
Qed.

Lemma nodes_safe_insert ns nid n : nodes_safe eps ns -> node_safe eps n -> nodes_safe eps (<[nid := n]> ns).
Proof.
  intros Hns Hn i m Hl. apply lookup_insert_Some in Hl as [[_ <-]|[_ Hl]]; [exact Hn|eapply Hns; exact Hl].
Qed.

(* A.2, the use of the characterisation: such a sequence keeps every node safe *)
Theorem nsteps_safe a b : nsteps eps a b -> nodes_safe eps a -> nodes_safe eps b.
Proof.
  induction 1 as [|ns nid n tid ns' Hl _ IH|ns nid n t n' t' ns' Hl Hnn Hg Ha _ IH]; intros Hs; [exact Hs| |].
  - apply IH. apply nodes_safe_insert; [exact Hs|]. apply node_remove_safe. eapply Hs; exact Hl.
  - apply IH. apply nodes_safe_insert; [exact Hs|]. eapply node_add_safe; eauto.
Qed.

(* ---------- tasks ---------- *)

(* what the theorem asks of a task: non-negative granular request, Resreq <= InitResreq (the
   guards look at InitResreq, the ledger moves Resreq), and BestEffort = InitResreq.IsEmpty() *)
Definition task_ok (t : task) : Prop :=
  nonneg (t_req t) /\ granular eps (t_req t) /\ (forall d, amt (t_req t) d <= amt (t_init t) d) /\
  (t_best_effort t = true -> is_empty eps (t_init t) = true).

(* backfill's missing resource test is harmless: an empty request is zero wherever the guard looks *)
Lemma best_effort_zero t d :
  task_ok t -> t_best_effort t = true -> guarded_dim d -> amt (t_req t) d = 0.
Proof.
  intros (Hnn & Hgr & Hdom & Hbe) Hb Hd. specialize (Hbe Hb).
  unfold is_empty in Hbe. rewrite !andb_true_iff, !lt_spec, map_allb_spec in Hbe.
  destruct Hbe as [[Hc Hm] Hs].
  assert (Hlt : amt (t_init t) d < eps).
  { destruct d as [| |k]; simpl; [exact Hc|exact Hm|].
    unfold sget. destruct (scm (t_init t) !! k) as [v|] eqn:E; simpl; [|exact eps_pos].
    specialize (Hs k v E). apply orb_true_iff in Hs as [Hi|Hv].
    - unfold ignored in Hi. apply bool_decide_eq_true in Hi. subst k. exfalso. apply Hd. reflexivity.
    - apply lt_spec in Hv. exact Hv. }
  specialize (Hdom d). destruct (Hgr d) as [Hz|Hge]; [exact Hz|lia].
Qed.

Definition ptask_ok (s : sess) (t : task) : Prop := task_ok t /\ is_Some (jobs s !! t_job t).

Definition no_evict (l : list oprec) : Prop := Forall (fun o => op_kind o <> KEvict) l.

Definition sess_okp (h : gmap positive task) (js : gmap positive job) (st : gmap positive (list oprec)) : Prop :=
  (forall i t, h !! i = Some t -> task_ok t /\ is_Some (js !! t_job t)) /\
  (forall sid l, st !! sid = Some l -> no_evict l).
Definition sess_ok (s : sess) : Prop := sess_okp (heap s) (jobs s) (stmts s).

Lemma is_Some_insert_mono {A} (m : gmap positive A) k x k' : is_Some (m !! k') -> is_Some (<[k:=x]> m !! k').
Proof.
  intros H. destruct (Pos.eq_dec k k') as [->|Hne]; [rewrite lookup_insert; eauto|].
  rewrite lookup_insert_ne by exact Hne. exact H.
Qed.

Lemma sess_ok_frame s s' :
  heap s' = heap s -> jobs s' = jobs s -> stmts s' = stmts s -> sess_ok s -> sess_ok s'.
Proof. unfold sess_ok. intros -> -> ->. auto. Qed.

Lemma sess_ok_heap s i t : sess_ok s -> heap s !! i = Some t -> ptask_ok s t.
Proof. intros [H _] Hl. apply (H i t Hl). Qed.

Lemma sess_ok_put s t : sess_ok s -> ptask_ok s t -> sess_ok (put_task s t).
Proof.
  intros [Hh Hst] Hp. split; [|exact Hst]. simpl. intros i u Hl.
  apply lookup_insert_Some in Hl as [[_ <-]|[_ Hl]]; [exact Hp|apply (Hh i u Hl)].
Qed.

Lemma ptask_ok_status s t st : ptask_ok s t -> ptask_ok s (set_status t st).
Proof. intros H. exact H. Qed.
Lemma ptask_ok_node s t n : ptask_ok s t -> ptask_ok s (set_node t n).
Proof. intros H. exact H. Qed.

(* ---------- the primitives ---------- *)

Lemma ssn_update_status_spec s p st :
  sess_ok s -> ptask_ok s p ->
  exists s1, ssn_update_status s p st = (true, s1, set_status p st) /\
    nodes s1 = nodes s /\ sess_ok s1 /\ ptask_ok s1 (set_status p st).
Proof.
  intros [Hh Hst] [Hok [j Hj]]. unfold ssn_update_status. rewrite Hj. unfold job_update. cbv zeta.
  eexists. split; [reflexivity|]. split; [reflexivity|]. split.
  - split; [|exact Hst]. simpl. intros i u Hl.
    apply lookup_insert_Some in Hl as [[_ <-]|[_ Hl]].
    + split; [exact Hok|]. simpl. rewrite lookup_insert. eauto.
    + destruct (Hh i u Hl) as [H1 H2]. split; [exact H1|]. apply is_Some_insert_mono. exact H2.
  - split; [exact Hok|]. simpl. rewrite lookup_insert. eauto.
Qed.

Lemma ssn_node_remove_spec s p :
  heap (ssn_node_remove s p) = heap s /\ jobs (ssn_node_remove s p) = jobs s /\
  stmts (ssn_node_remove s p) = stmts s /\ nsteps eps (nodes s) (nodes (ssn_node_remove s p)).
Proof.
  unfold ssn_node_remove. destruct (t_node p) as [nid|]; [|repeat split; apply ns_refl].
  destruct (nodes s !! nid) as [n|] eqn:E; [|repeat split; apply ns_refl].
  repeat split. simpl. eapply ns_remove; [exact E|apply ns_refl].
Qed.

Lemma unallocate_with_ok s p :
  sess_ok s -> ptask_ok s p ->
  sess_ok (unallocate_with s p) /\ nsteps eps (nodes s) (nodes (unallocate_with s p)).
Proof.
  intros Hs Hp. destruct (ssn_update_status_spec s p Pending Hs Hp) as (s1 & E & Hn & Hs1 & Hp1).
  unfold unallocate_with. rewrite E.
  destruct (ssn_node_remove_spec s1 (set_status p Pending)) as (Hh & Hj & Hst & Hns).
  split.
  - apply sess_ok_put.
    + apply (sess_ok_frame s1); [exact Hh|exact Hj|exact Hst|exact Hs1].
    + destruct Hp1 as [H1 H2]. split; [exact H1|]. simpl. rewrite Hj. exact H2.
  - simpl. rewrite <- Hn. exact Hns.
Qed.

Lemma push_op_ok s sid k tid prev : sess_ok s -> k <> KEvict -> sess_ok (push_op s sid k tid prev).
Proof.
  intros [Hh Hst] Hk. split; [exact Hh|]. simpl. intros sid' l Hl.
  apply lookup_insert_Some in Hl as [[_ <-]|[_ Hl]]; [|apply (Hst sid' l Hl)].
  apply Forall_app. split.
  - destruct (stmts s !! sid) as [l0|] eqn:E; simpl; [apply (Hst sid l0 E)|constructor].
  - constructor; [exact Hk|constructor].
Qed.

(* ---------- Statement.Allocate / Pipeline ---------- *)

Definition place_guard (k : opkind) (n : node) (r : res) : Prop :=
  match k with
  | KAllocate => fits eps r (amt (n_idle n)) /\ fits eps r (fut_amt n)
  | _ => fits eps r (fut_amt n)
  end.

Lemma place_guard_add k n p nid :
  place_guard k n (t_req p) ->
  add_guard eps n (set_node (set_status p (match k with KAllocate => Allocated | _ => Pipelined end)) (Some nid)).
Proof. unfold add_guard, place_guard. destruct k; simpl; auto. Qed.

Lemma place_with_ok s sid k p nid :
  k <> KEvict -> sess_ok s -> ptask_ok s p ->
  (forall n, nodes s !! nid = Some n -> place_guard k n (t_req p)) ->
  sess_ok (fst (place_with eps s sid k p nid)) /\
  nsteps eps (nodes s) (nodes (fst (place_with eps s sid k p nid))).
Proof.
  intros Hk Hs Hp Hg.
  set (st := match k with KAllocate => Allocated | _ => Pipelined end).
  destruct (ssn_update_status_spec s p st Hs Hp) as (s1 & E & Hn & Hs1 & Hp1).
  unfold place_with. fold st. rewrite E.
  set (p2 := set_node (set_status p st) (Some nid)).
  assert (Hp2 : ptask_ok s1 p2) by exact Hp1.
  assert (Hs2 : sess_ok (put_task s1 p2)) by (apply sess_ok_put; assumption).
  assert (Htail : forall s3 p3, sess_ok s3 -> ptask_ok s3 p3 ->
            sess_ok (unallocate_with (snd (h_alloc s3 p3)) p3) /\
            nsteps eps (nodes s3) (nodes (unallocate_with (snd (h_alloc s3 p3)) p3))).
  { intros s3 p3 H3 Hp3. apply (unallocate_with_ok (snd (h_alloc s3 p3)) p3); [exact H3|exact Hp3]. }
  change (nodes (put_task s1 p2)) with (nodes s1). rewrite Hn.
  destruct (nodes s !! nid) as [n|] eqn:En.
  - destruct (node_add eps n p2) as [[n' p']|e] eqn:Ea.
    + pose proof (node_add_ret eps n p2 n' p' Ea) as Hp'.
      assert (Hstep : nsteps eps (nodes s) (<[nid := n']> (nodes s))).
      { eapply (ns_add eps _ nid n p2 n' p'); [exact En|exact (proj1 (proj1 Hp))|exact (place_guard_add k n p nid (Hg n eq_refl))|exact Ea|apply ns_refl]. }
      set (s3 := put_task (upd_nodes (put_task s1 p2) (<[nid:=n']> (nodes s))) p').
      assert (Hp3 : ptask_ok s3 p') by (subst p'; exact Hp1).
      assert (Hs3 : sess_ok s3) by (apply sess_ok_put; [exact Hs2|exact Hp3]).
      unfold h_alloc. cbv beta zeta iota.
      match goal with |- context [negb (bool_decide ?P)] => destruct (negb (bool_decide P)) end; cbn [andb fst].
      * split; [apply push_op_ok; [exact Hs3|exact Hk]|exact Hstep].
      * destruct (Htail s3 p' Hs3 Hp3) as [H1 H2]. split; [exact H1|].
        eapply nsteps_trans; [exact Hstep|exact H2].
    + unfold h_alloc. cbv beta zeta iota. cbn [andb fst].
      destruct (Htail (put_task s1 p2) p2 Hs2 Hp2) as [H1 H2]. split; [exact H1|].
      rewrite <- Hn. exact H2.
  - unfold h_alloc. cbv beta zeta iota. cbn [andb fst].
    destruct (Htail (put_task s1 p2) p2 Hs2 Hp2) as [H1 H2]. split; [exact H1|].
    rewrite <- Hn. exact H2.
Qed.

(* ---------- Commit / Discard ---------- *)

Lemma fold_ops_ok (f : sess -> oprec -> sess) :
  (forall s o, op_kind o <> KEvict -> sess_ok s -> sess_ok (f s o) /\ nsteps eps (nodes s) (nodes (f s o))) ->
  forall l s, no_evict l -> sess_ok s ->
    sess_ok (fold_left f l s) /\ nsteps eps (nodes s) (nodes (fold_left f l s)).
Proof.
  intros Hf l. induction l as [|o l IH]; intros s Hl Hs; simpl; [split; [exact Hs|apply ns_refl]|].
  inversion Hl as [|? ? Ho Hl']; subst.
  destruct (Hf s o Ho Hs) as [H1 H2]. destruct (IH (f s o) Hl' H1) as [H3 H4].
  split; [exact H3|eapply nsteps_trans; eassumption].
Qed.

Lemma undo_op_ok s o :
  op_kind o <> KEvict -> sess_ok s -> sess_ok (undo_op eps s o) /\ nsteps eps (nodes s) (nodes (undo_op eps s o)).
Proof.
  intros Hk Hs. unfold undo_op. destruct (heap s !! op_task o) as [p|] eqn:E; [|split; [exact Hs|apply ns_refl]].
  pose proof (sess_ok_heap s _ p Hs E) as Hp.
  destruct (op_kind o); [congruence| |]; apply unallocate_with_ok; assumption.
Qed.

Lemma commit_op_ok s o :
  op_kind o <> KEvict -> sess_ok s -> sess_ok (commit_op eps s o) /\ nsteps eps (nodes s) (nodes (commit_op eps s o)).
Proof.
  intros Hk Hs. unfold commit_op. destruct (heap s !! op_task o) as [p|] eqn:E; [|split; [exact Hs|apply ns_refl]].
  pose proof (sess_ok_heap s _ p Hs E) as Hp.
  destruct (op_kind o); [congruence|split; [exact Hs|apply ns_refl]|].
  case_bool_decide; [apply unallocate_with_ok; assumption|]. cbv zeta.
  set (s1 := upd_logs s ((t_id p, t_node p) :: binds s) (evicts s)).
  assert (Hs1 : sess_ok s1) by exact Hs. assert (Hp1 : ptask_ok s1 p) by exact Hp.
  destruct (ssn_update_status_spec s1 p Binding Hs1 Hp1) as (s2 & E2 & Hn & Hs2 & _).
  rewrite E2. split; [exact Hs2|]. rewrite Hn. apply ns_refl.
Qed.

Lemma clear_stmt_ok s sid : sess_ok s -> sess_ok (upd_stmts s (<[sid := []]> (stmts s))).
Proof.
  intros [Hh Hst]. split; [exact Hh|]. simpl. intros sid' l Hl.
  apply lookup_insert_Some in Hl as [[_ <-]|[_ Hl]]; [constructor|apply (Hst sid' l Hl)].
Qed.

Lemma stmt_ops_no_evict s sid : sess_ok s -> no_evict (default [] (stmts s !! sid)).
Proof. intros [_ Hst]. destruct (stmts s !! sid) as [l|] eqn:E; simpl; [apply (Hst sid l E)|constructor]. Qed.

Theorem stmt_commit_ok s sid :
  sess_ok s -> sess_ok (stmt_commit eps s sid) /\ nsteps eps (nodes s) (nodes (stmt_commit eps s sid)).
Proof.
  intros Hs. unfold stmt_commit. cbv zeta.
  destruct (fold_ops_ok (commit_op eps) commit_op_ok (default [] (stmts s !! sid)) s (stmt_ops_no_evict s sid Hs) Hs) as [H1 H2].
  split; [apply clear_stmt_ok; exact H1|exact H2].
Qed.

Theorem stmt_discard_ok s sid :
  sess_ok s -> sess_ok (stmt_discard eps s sid) /\ nsteps eps (nodes s) (nodes (stmt_discard eps s sid)).
Proof.
  intros Hs. unfold stmt_discard. cbv zeta.
  assert (Hrev : no_evict (rev (default [] (stmts s !! sid)))) by (apply Forall_rev, stmt_ops_no_evict; exact Hs).
  destruct (fold_ops_ok (undo_op eps) undo_op_ok _ s Hrev Hs) as [H1 H2].
  split; [apply clear_stmt_ok; exact H1|exact H2].
Qed.

(* ---------- Session.Allocate (backfill) ---------- *)

Lemma dispatch_ok s tid : sess_ok s -> sess_ok (fst (dispatch s tid)) /\ nodes (fst (dispatch s tid)) = nodes s.
Proof.
  intros Hs. unfold dispatch. destruct (heap s !! tid) as [p|] eqn:E; [|split; [exact Hs|reflexivity]].
  case_bool_decide; [split; [exact Hs|reflexivity]|]. cbv zeta.
  set (s1 := upd_logs s ((tid, t_node p) :: binds s) (evicts s)).
  assert (Hs1 : sess_ok s1) by exact Hs. assert (Hp1 : ptask_ok s1 p) by exact (sess_ok_heap s _ p Hs E).
  destruct (ssn_update_status_spec s1 p Binding Hs1 Hp1) as (s2 & E2 & Hn & Hs2 & _).
  rewrite E2. simpl. split; [exact Hs2|exact Hn].
Qed.

(* a task whose dispatch fails is unallocated (Session.undoAllocation): a RemoveTask step *)
Lemma dispatch_all_ok l : forall s,
  sess_ok s -> sess_ok (fst (dispatch_all s l)) /\ nsteps eps (nodes s) (nodes (fst (dispatch_all s l))).
Proof.
  induction l as [|t l IH]; intros s Hs; simpl; [split; [exact Hs|apply ns_refl]|].
  destruct (dispatch_ok s t Hs) as [H1 H2]. destruct (dispatch s t) as [s1 ok]. simpl in H1, H2.
  rewrite <- H2. destruct ok; [apply IH; exact H1|]. simpl.
  destruct (heap s1 !! t) as [p|] eqn:Ep; [|split; [exact H1|apply ns_refl]].
  apply unallocate_with_ok; [exact H1|exact (sess_ok_heap s1 _ p H1 Ep)].
Qed.

Theorem ssn_place_with_ok jr s k tid nid :
  sess_ok s -> nodes_safe eps (nodes s) ->
  (forall p n, heap s !! tid = Some p -> nodes s !! nid = Some n -> place_guard k n (t_req p)) ->
  sess_ok (fst (ssn_place_with eps jr s k tid nid)) /\
  nsteps eps (nodes s) (nodes (fst (ssn_place_with eps jr s k tid nid))).
Proof.
  intros Hs Hsafe Hg. unfold ssn_place_with.
  destruct (heap s !! tid) as [p|] eqn:Eh; [|split; [exact Hs|apply ns_refl]].
  pose proof (sess_ok_heap s _ p Hs Eh) as Hp.
  set (st := match k with KAllocate => Allocated | _ => Pipelined end).
  destruct (ssn_update_status_spec s p st Hs Hp) as (s1 & E & Hn & Hs1 & Hp1).
  rewrite E. simpl negb. cbv iota.
  set (p2 := set_node (set_status p st) (Some nid)).
  assert (Hp2 : ptask_ok s1 p2) by exact Hp1.
  assert (Hs2 : sess_ok (put_task s1 p2)) by (apply sess_ok_put; assumption).
  (* revertPlacement touches jobs and heap only *)
  assert (Hrev : forall sr pr, ssn_update_status (put_task s1 p2) p2 Pending = (true, sr, pr) ->
             nodes sr = nodes s1 -> sess_ok sr -> ptask_ok sr pr ->
             sess_ok (put_task sr (set_node pr None)) /\ nsteps eps (nodes s) (nodes (put_task sr (set_node pr None)))).
  { intros sr pr _ Hnr Hsr Hpr. split; [apply sess_ok_put; [exact Hsr|exact Hpr]|]. simpl. rewrite Hnr, Hn. apply ns_refl. }
  destruct (ssn_update_status_spec (put_task s1 p2) p2 Pending Hs2 Hp2) as (sr & Er & Hnr & Hsr & Hpr).
  cbv zeta. rewrite Er. specialize (Hrev sr _ Er Hnr Hsr Hpr).
  change (nodes (put_task s1 p2)) with (nodes s1). rewrite Hn.
  destruct (nodes s !! nid) as [n|] eqn:En; [|exact Hrev].
  destruct (node_add eps n p2) as [[n' p3]|e] eqn:Ea; [|exact Hrev].
  pose proof (node_add_ret eps n p2 n' p3 Ea) as Hp3e.
  assert (Hstep : nsteps eps (nodes s) (<[nid := n']> (nodes s))).
  { eapply (ns_add eps _ nid n p2 n' p3); [exact En|exact (proj1 (proj1 Hp))|exact (place_guard_add k n p nid (Hg p n eq_refl eq_refl))|exact Ea|apply ns_refl]. }
  set (s3 := put_task (upd_nodes (put_task s1 p2) (<[nid:=n']> (nodes s))) p3).
  assert (Hp3 : ptask_ok s3 p3) by (subst p3; exact Hp1).
  assert (Hs3 : sess_ok s3) by (apply sess_ok_put; [exact Hs2|exact Hp3]).
  unfold h_alloc. cbv beta zeta iota.
  match goal with |- context [(?S, ROk)] => set (s4 := S) end.
  assert (Hs4 : sess_ok s4) by exact Hs3.
  assert (Hn4 : nodes s4 = <[nid := n']> (nodes s)) by reflexivity.
  assert (Hdone : sess_ok s4 /\ nsteps eps (nodes s) (nodes s4)) by (split; [exact Hs4|exact Hstep]).
  destruct k; try exact Hdone.
  destruct (jobs s4 !! t_job p) as [j|]; [|exact Hdone].
  destruct (jr s4 j); [|exact Hdone].
  destruct (dispatch_all_ok (elements (default ∅ (j_index j !! skey Allocated))) s4 Hs4) as [H1 H2].
  destruct (dispatch_all s4 _) as [s5 ok]. simpl in H1, H2. simpl fst.
  split; [exact H1|]. eapply nsteps_trans; [exact Hstep|]. rewrite <- Hn4. exact H2.
Qed.

(* ---------- the action skeleton ---------- *)

Definition cap_inv (s : sess) : Prop := sess_ok s /\ nodes_safe eps (nodes s).

Lemma cap_inv_step s s' : cap_inv s -> sess_ok s' -> nsteps eps (nodes s) (nodes s') -> cap_inv s'.
Proof. intros [_ Hn] Hs' Hst. split; [exact Hs'|]. eapply nsteps_safe; eassumption. Qed.

Lemma stmt_place_fst s sid k tid nid p :
  heap s !! tid = Some p ->
  with_task s tid (fun p => place_with eps s sid k p nid) = place_with eps s sid k p nid.
Proof. intros E. unfold with_task. rewrite E. reflexivity. Qed.

Theorem try_place_ok s sid tid nid :
  cap_inv s ->
  sess_ok (fst (try_place eps s sid tid nid)) /\ nsteps eps (nodes s) (nodes (fst (try_place eps s sid tid nid))).
Proof.
  intros [Hs Hsafe]. unfold try_place.
  destruct (heap s !! tid) as [p|] eqn:Eh; [|split; [exact Hs|apply ns_refl]].
  destruct (nodes s !! nid) as [n|] eqn:En; [|split; [exact Hs|apply ns_refl]].
  pose proof (sess_ok_heap s _ p Hs Eh) as Hp. destruct (Hsafe nid n En) as [Hc _].
  destruct Hp as [Hok Hj]. pose proof Hok as (Hnn & _ & Hdom & _).
  destruct (less_equal_names eps (t_init p) (future_idle n) DZero) eqn:Hfn; simpl negb; cbv iota;
    [|split; [exact Hs|apply ns_refl]].
  assert (Hff : fits eps (t_req p) (fut_amt n)).
  { apply fits_future; [exact Hc|]. apply (less_equal_names_fits eps eps_pos (t_init p)); [exact Hfn|exact Hdom|].
    apply fut_above; assumption. }
  destruct (less_equal eps (t_init p) (n_idle n) DZero) eqn:Hi.
  - assert (Hfi : fits eps (t_req p) (amt (n_idle n))).
    { apply (less_equal_fits eps eps_pos (t_init p)); [exact Hi|exact Hdom|]. intros d Hd. apply (nwc_elim eps n d Hc Hd). }
    unfold stmt_allocate. rewrite (stmt_place_fst s sid KAllocate tid nid p Eh).
    destruct (place_with_ok s sid KAllocate p nid) as [H1 H2]; [discriminate|exact Hs|split; assumption| |].
    { intros n0 En0. rewrite En in En0. inversion En0; subst. split; assumption. }
    destruct (place_with eps s sid KAllocate p nid) as [s' r]. split; [exact H1|exact H2].
  - destruct (less_equal eps (t_init p) (future_idle n) DZero) eqn:Hf; [|split; [exact Hs|apply ns_refl]].
    unfold stmt_pipeline. rewrite (stmt_place_fst s sid KPipeline tid nid p Eh).
    destruct (place_with_ok s sid KPipeline p nid) as [H1 H2]; [discriminate|exact Hs|split; assumption| |].
    { intros n0 En0. rewrite En in En0. inversion En0; subst. exact Hff. }
    destruct (place_with eps s sid KPipeline p nid) as [s' r]. split; [exact H1|exact H2].
Qed.

Lemma do_places_ok w sid jid l : forall s,
  cap_inv s ->
  sess_ok (fst (do_places eps w s sid jid l)) /\ nsteps eps (nodes s) (nodes (fst (do_places eps w s sid jid l))).
Proof.
  induction l as [|[tid nid] l IH]; intros s Hinv; simpl; [split; [apply Hinv|apply ns_refl]|].
  destruct (heap s !! tid) as [p|]; [|split; [apply Hinv|apply ns_refl]].
  destruct (negb _); [split; [apply Hinv|apply ns_refl]|].
  destruct (negb _); [split; [apply Hinv|apply ns_refl]|].
  destruct (try_place_ok s sid tid nid Hinv) as [H1 H2].
  destruct (try_place eps s sid tid nid) as [s' r]. simpl in H1, H2.
  destruct (IH s' (cap_inv_step s s' Hinv H1 H2)) as [H3 H4].
  split; [exact H3|eapply nsteps_trans; eassumption].
Qed.

(* one step of the skeleton: the nodes move by guarded AddTask / RemoveTask calls only *)
Theorem step_ok w o :
  cap_inv (w_sess w) ->
  sess_ok (w_sess (fst (step eps w o))) /\
  nsteps eps (nodes (w_sess w)) (nodes (w_sess (fst (step eps w o)))).
Proof.
  intros Hinv. destruct o as [jid places|tid nid]; simpl.
  - destruct (do_places_ok w (w_next_stmt w) jid places (w_sess w) Hinv) as [H1 H2].
    destruct (do_places eps w (w_sess w) (w_next_stmt w) jid places) as [s1 v]. simpl in H1, H2. simpl.
    destruct (decide s1 jid).
    + destruct (stmt_commit_ok s1 (w_next_stmt w) H1) as [H3 H4]. split; [exact H3|eapply nsteps_trans; eassumption].
    + split; assumption.
    + destruct (stmt_discard_ok s1 (w_next_stmt w) H1) as [H3 H4]. split; [exact H3|eapply nsteps_trans; eassumption].
  - destruct (heap (w_sess w) !! tid) as [p|] eqn:Eh; [|split; [apply Hinv|apply ns_refl]].
    destruct (negb (bool_decide (t_status p = Pending))); [split; [apply Hinv|apply ns_refl]|].
    destruct (t_best_effort p) eqn:Hbe; simpl negb; cbv iota; [|split; [apply Hinv|apply ns_refl]].
    destruct Hinv as [Hs Hsafe].
    destruct (ssn_place_with_ok (fun s j => gang_job_ready (heap s) j) (w_sess w) KAllocate tid nid Hs Hsafe) as [H1 H2].
    { intros p0 n Ep En. rewrite Eh in Ep. inversion Ep; subst p0.
      destruct (sess_ok_heap _ _ p Hs Eh) as [Hok _]. destruct (Hsafe nid n En) as [Hc _].
      split; apply fits_zero; try (intros d Hd; apply (best_effort_zero p d Hok Hbe Hd));
        intros d Hd; apply (nwc_elim eps n d Hc Hd). }
    destruct (ssn_place_with eps _ (w_sess w) KAllocate tid nid) as [s1 r]. simpl in *. split; assumption.
Qed.

Definition world_ok (w : world) : Prop := cap_inv (w_sess w).

Corollary step_nodes w o :
  world_ok w -> nsteps eps (nodes (w_sess w)) (nodes (w_sess (fst (step eps w o)))).
Proof. intros Hw. exact (proj2 (step_ok w o Hw)). Qed.

Lemma step_world_ok w o : world_ok w -> world_ok (fst (step eps w o)).
Proof. intros H. destruct (step_ok w o H) as [H1 H2]. eapply cap_inv_step; eassumption. Qed.

Lemma run_world_ok ops : forall w, world_ok w -> world_ok (run eps w ops).
Proof.
  induction ops as [|o ops IH]; intros w H; [exact H|]. simpl. apply IH. apply step_world_ok. exact H.
Qed.

(* A.3 (main): whatever the actions try -- any jobs, any (task, node) pairs, any number of
   attempts, any backfill placements -- every node stays within capacity, at every prefix *)
Theorem cycle_no_overcommit w ops k i n :
  world_ok w ->
  nodes (w_sess (run eps w (take k ops))) !! i = Some n -> node_within_capacity eps n.
Proof. intros Hw Hl. destruct (run_world_ok (take k ops) w Hw) as [_ Hsafe]. apply (Hsafe i n Hl). Qed.

Corollary cycle_no_overcommit_final w ops i n :
  world_ok w -> nodes (w_sess (run eps w ops)) !! i = Some n -> node_within_capacity eps n.
Proof. intros Hw. rewrite <- (firstn_all ops) at 1. apply cycle_no_overcommit. exact Hw. Qed.

(* A.4: the tolerance does not accumulate.  The bound after any number of steps is the -eps of
   a single comparison, because "above -eps" is the invariant itself, not a sum of per-step errors *)
Theorem tolerance_bounded w ops k i n d :
  world_ok w -> nodes (w_sess (run eps w (take k ops))) !! i = Some n -> guarded_dim d ->
  - eps < amt (n_idle n) d /\ - eps < amt (n_idle n) d + amt (n_releasing n) d - amt (n_pipelined n) d.
Proof. intros Hw Hl Hd. apply (cycle_no_overcommit w ops k i n Hw Hl). exact Hd. Qed.

End Cycle.

(* ---------- on the integer grid ---------- *)

(* When every amount is a multiple of a grid step g >= eps (Kubernetes quantities: 1 milli-unit =
   16 model units, eps = 2), "above -eps" is "non-negative", and with the ledger identities of
   node_inv (C07) that is the property's wording: the summed requests of the tasks the node holds
   never exceed its allocatable amount. *)
Section Grid.
Variables eps g : Z.
Hypothesis eps_pos : 0 < eps.
Hypothesis eps_le_g : eps <= g.

Lemma sum_amt_divide (f : task -> Z) l : Forall (fun t => (g | f t)) l -> (g | sum_amt f l).
Proof.
  induction 1 as [|t l Ht _ IH]; simpl; [apply Z.divide_0_r|]. apply Z.divide_add_r; assumption.
Qed.

Lemma above_minus_eps_nonneg x : (g | x) -> - eps < x -> 0 <= x.
Proof.
  intros [q ->] H. destruct (Z_lt_le_dec q 0) as [Hq|Hq]; [|nia].
  assert (q * g <= - g) by nia. lia.
Qed.

Definition on_grid (n : node) (d : dim) : Prop :=
  (g | amt (n_alloc n) d) /\ Forall (fun c => (g | amt (t_req c) d)) (copies n).

Lemma forall_copies_div (F : dim -> task -> Z) n d :
  (forall c, F d c = 0 \/ F d c = amt (t_req c) d) ->
  Forall (fun c => (g | amt (t_req c) d)) (copies n) -> Forall (fun c => (g | F d c)) (copies n).
Proof.
  intros HF H. eapply Forall_impl; [exact H|]. intros c Hc. simpl. destruct (HF c) as [-> | ->]; [apply Z.divide_0_r|exact Hc].
Qed.

Theorem grid_no_overcommit h n d :
  node_inv h n -> n_has_node n = true -> node_within_capacity eps n -> guarded_dim d -> on_grid n d ->
  (* now: everything the node holds except pipelined tasks *)
  sum_amt (used_amt d) (copies n) <= amt (n_alloc n) d /\
  (* later: the staying tasks plus the pipelined ones *)
  sum_amt (used_amt d) (copies n) - sum_amt (rel_amt d) (copies n) + sum_amt (pip_amt d) (copies n) <= amt (n_alloc n) d.
Proof.
  intros [_ Hinv] Hhas [_ Hcap] Hd [Ha Hc]. destruct (Hinv Hhas) as (Hu & Hr & Hp & Hsum).
  destruct (Hcap d Hd) as [H1 H2]. specialize (Hsum d).
  assert (Du : (g | sum_amt (used_amt d) (copies n))).
  { apply sum_amt_divide, (forall_copies_div used_amt); [|exact Hc]. intros c. unfold used_amt. case_bool_decide; auto. }
  assert (Dr : (g | sum_amt (rel_amt d) (copies n))).
  { apply sum_amt_divide, (forall_copies_div rel_amt); [|exact Hc]. intros c. unfold rel_amt. case_bool_decide; auto. }
  assert (Dp : (g | sum_amt (pip_amt d) (copies n))).
  { apply sum_amt_divide, (forall_copies_div pip_amt); [|exact Hc]. intros c. unfold pip_amt. case_bool_decide; auto. }
  rewrite <- (Hu d) in Du. rewrite <- (Hr d) in Dr. rewrite <- (Hp d) in Dp.
  rewrite <- (Hu d), <- (Hr d), <- (Hp d).
  assert (Di : (g | amt (n_idle n) d)).
  { replace (amt (n_idle n) d) with (amt (n_alloc n) d - amt (n_used n) d) by lia. apply Z.divide_sub_r; assumption. }
  pose proof (above_minus_eps_nonneg _ Di H1).
  assert (Df : (g | amt (n_idle n) d + amt (n_releasing n) d - amt (n_pipelined n) d)).
  { apply Z.divide_sub_r; [apply Z.divide_add_r|]; assumption. }
  pose proof (above_minus_eps_nonneg _ Df H2). lia.
Qed.

End Grid.
