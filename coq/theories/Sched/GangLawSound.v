(* C01, audit W6: what the executable laws mean.  Prop-level readings of law 101
   (CycleLaws.law_gang) and law 105 (SubGroupLaw.law_gang_sub): if the law answers true then the
   property clauses hold of the data it was given (the binder log and the final statuses). *)
From stdpp Require Import gmap.
From Coq Require Import ZArith List Lia.
From V Require Import Base.Codec Base.Res Sched.LedgerModel Sched.StmtModel Sched.LedgerCodec Sched.DumpCodec
                      Sched.CycleModel Sched.CycleCodec Sched.CycleLaws Sched.LedgerInvP Sched.SubGroupModel Sched.SubGroupLaw.
Import ListNotations.
Open Scope Z_scope.

Lemma in_list_In i l : in_list i l = true <-> In i l.
Proof.
  unfold in_list. rewrite existsb_exists. split.
  - intros (x & Hx & E). apply Pos.eqb_eq in E. by subst.
  - intros H. exists i. split; [done|apply Pos.eqb_refl].
Qed.

(* ---------- law 105 ---------- *)

Definition job_tasks (jobs : list mjob) (ts : list mtask) (j : mjob) : list mtask :=
  filter (fun t => Pos.eqb (mt_job t) (mj_id j)) (map (norm_task jobs) ts).

Definition role_clause_P (j : mjob) (ts : list mtask) : Prop :=
  fold_left (fun acc kv => acc + snd kv) (mj_roles j) 0 <= mj_min j ->
  forall r m, In (r, m) (mj_roles j) -> m <= mcount (fun t => mvisible t && Pos.eqb (mt_role t) r) ts.

(* policy number k (1-based) with MinSubGroups <> 0 has that many complete sub-groups *)
Definition sub_clause_P (j : mjob) (ts : list mtask) : Prop :=
  forall k p, nth_error (mj_pols j) k = Some p -> default 0 (pol_min_groups p) <> 0 ->
    default 0 (pol_min_groups p) <= complete_groups (Z.of_nat k + 1) (default 1 (pol_size p)) ts.

Lemma sub_clause_from_spec pols ts : forall k0,
  sub_clause_from k0 pols ts = true ->
  forall k p, nth_error pols k = Some p -> default 0 (pol_min_groups p) <> 0 ->
    default 0 (pol_min_groups p) <= complete_groups (Z.of_nat k + k0) (default 1 (pol_size p)) ts.
Proof.
  induction pols as [|q pols IH]; intros k0 H k p Hn Hm; [by destruct k|].
  simpl in H. apply andb_true_iff in H as [H1 H2]. destruct k as [|k]; simpl in Hn.
  - injection Hn as <-. apply orb_true_iff in H1 as [H1%Z.eqb_eq|H1%Z.leb_le]; [done|]. simpl. exact H1.
  - specialize (IH (k0 + 1) H2 k p Hn Hm). replace (Z.of_nat (S k) + k0) with (Z.of_nat k + (k0 + 1)) by lia. exact IH.
Qed.

Theorem law_gang_sub_sound jobs ts bound : law_gang_sub jobs ts bound = true ->
  (forall j, In j jobs ->
     let tj := job_tasks jobs ts j in
     (exists t, In t tj /\ In (mt_id t) bound) ->
     mj_min j <= mcount mvisible tj /\ role_clause_P j tj /\ sub_clause_P j tj) /\
  (forall t, In t (map (norm_task jobs) ts) -> In (mt_id t) bound -> mt_final t = Binding).
Proof.
  unfold law_gang_sub. intros [H1 H2]%andb_true_iff. rewrite forallb_forall in H1. rewrite forallb_forall in H2. split.
  - intros j Hj. cbv zeta. intros (t & Ht & Hb). specialize (H1 j Hj). fold (job_tasks jobs ts j) in H1.
    set (tj := job_tasks jobs ts j) in *.
    assert (Hex : existsb (fun t => in_list (mt_id t) bound) tj = true).
    { apply existsb_exists. exists t. split; [done|by apply in_list_In]. }
    rewrite Hex in H1. simpl in H1. apply andb_true_iff in H1 as [[Hmin Hrole]%andb_true_iff Hsub].
    split; [by apply Z.leb_le in Hmin|]. split.
    + intros Htot r m Hrm. unfold role_clause in Hrole.
      destruct (Z.ltb_spec (mj_min j) (fold_left (fun acc kv => acc + snd kv) (mj_roles j) 0)) as [Hlt|_]; [lia|].
      rewrite forallb_forall in Hrole. specialize (Hrole _ Hrm). simpl in Hrole. by apply Z.leb_le in Hrole.
    + intros k p Hn Hm. pose proof (sub_clause_from_spec _ _ 1 Hsub k p Hn Hm) as H. exact H.
  - intros t Ht Hb. specialize (H2 t Ht). apply in_list_In in Hb. rewrite Hb in H2. simpl in H2.
    by destruct (mt_final t).
Qed.

(* ---------- law 101 ---------- *)

Section Law101.
Variable c : cycle_case.
Variable d : dump.
Variable bound : list positive.

Definition job_spec_tasks (j : job_spec) : list task :=
  filter (fun t => bool_decide (t_job t = js_id j)) (spec_tasks c).

(* the law's visibility is LedgerInvP.cluster_ready of the task with its final status *)
Lemma visible_ready_cluster_ready t :
  visible_ready d t = cluster_ready (set_status t (final_status d t)).
Proof. reflexivity. Qed.

Theorem law_gang_sound : law_gang c d bound = true ->
  (forall j, In j (cc_jobs c) ->
     (exists t, In t (spec_tasks c) /\ t_job t = js_id j /\ t_id t ∈ bound) ->
     js_min j <= CycleLaws.count_tasks (visible_ready d) (job_spec_tasks j) /\
     (fold_left (fun acc kv => acc + snd kv) (js_role_min j) 0 <= js_min j ->
      forall r m, In (r, m) (js_role_min j) ->
        m <= CycleLaws.count_tasks (fun t => visible_ready d t && bool_decide (t_role t = r)) (job_spec_tasks j))) /\
  (forall t, In t (spec_tasks c) -> t_id t ∈ bound -> final_status d t = Binding).
Proof.
  unfold law_gang. intros [H1 H2]%andb_true_iff. rewrite forallb_forall in H1. rewrite forallb_forall in H2. split.
  - intros j Hj (t & Ht & Hjob & Hb). specialize (H1 j Hj).
    assert (Hex : existsb (fun t => bool_decide (t_job t = js_id j) && bool_decide (t_id t ∈ bound)) (spec_tasks c) = true).
    { apply existsb_exists. exists t. split; [done|]. by rewrite !bool_decide_true. }
    rewrite Hex in H1. simpl in H1. unfold CycleLaws.gang_ok in H1. fold (job_spec_tasks j) in H1.
    apply andb_true_iff in H1 as [Hmin Hrole]. split; [by apply bool_decide_eq_true in Hmin|].
    intros Htot r m Hrm. rewrite bool_decide_false in Hrole by lia.
    rewrite forallb_forall in Hrole. specialize (Hrole _ Hrm). simpl in Hrole. by apply bool_decide_eq_true in Hrole.
  - intros t Ht Hb. specialize (H2 t Ht). rewrite bool_decide_true in H2 by done. simpl in H2.
    by apply bool_decide_eq_true in H2.
Qed.
End Law101.
