(* Property C02, part 6: topology-aware preemption's dry run.

   preempt.go SelectVictimsOnNode (on a CLONE of the node): potential victims are removed in the
   victims queue's pop order until the preemptor fits FutureIdle; if it then fits, the potential
   victims are put back one by one (latest popped first: "reprieve"), each one staying if the
   preemptor still fits and being removed again -- a final victim -- otherwise.
   topologyAwarePreempt then evicts exactly the final victims on the real node (prepareCandidate)
   and pipelines the preemptor WITHOUT any further test.

   Theorem: whatever the pop order and whatever the other votes (SimulateAllocatableFn /
   SimulatePredicateFn: an arbitrary boolean function of the dry-run node), the real node is
   within capacity after the evictions and the pipeline.  The dry run removes victims (Idle grows)
   where the real statement evicts them (Releasing grows): FutureIdle is the same function of the
   victim set in both, which is why the fit tests must look at FutureIdle -- with Idle instead
   (seeded mutant C02-r5-1) the statement is refuted. *)
From stdpp Require Import gmap.
From Coq Require Import ZArith Lia.
From V Require Import Base.Res Base.ResLemmas Sched.LedgerModel Sched.StmtModel Sched.GangModel Sched.CycleModel
                      Sched.LedgerInvP Sched.NodeCapLemmas Sched.NodeCapLemmasCycle Sched.NodeCapLemmasEvict.
Open Scope Z_scope.

Section Select.
Variable eps : Z.
Hypothesis eps_pos : 0 < eps.
Variable extra : node -> bool.          (* queue allocatable and predicates on the dry-run node *)
Variable fit_on : node -> res.          (* what the fit test compares with: future_idle in the code *)

Definition pfits (p : task) (dry : node) : bool := extra dry && less_equal eps (t_init p) (fit_on dry) DZero.

Fixpoint remove_until (p : task) (dry : node) (q acc : list positive) : node * list positive :=
  match q with
  | [] => (dry, acc)
  | v :: q' =>
    let dry' := node_remove dry v in
    if pfits p dry' then (dry', v :: acc) else remove_until p dry' q' (v :: acc)
  end.

Fixpoint reprieve (p : task) (n0 dry : node) (pots victims : list positive) : option (node * list positive) :=
  match pots with
  | [] => Some (dry, victims)
  | v :: r =>
    match n_tasks n0 !! v with
    | None => None
    | Some c =>
      match node_add eps dry c with
      | inr _ => None
      | inl (dry1, _) =>
        if pfits p dry1 then reprieve p n0 dry1 r victims
        else reprieve p n0 (node_remove dry1 v) r (victims ++ [v])
      end
    end
  end.

Definition select_victims (p : task) (n : node) (q : list positive) : option (list positive) :=
  let '(dry, pots) := remove_until p n q [] in
  match pots with
  | [] => None
  | _ => if pfits p dry then match reprieve p n dry pots [] with Some (_, vs) => Some vs | None => None end else None
  end.

(* the real node: evict the victims, pipeline the preemptor (no test) *)
Definition preempt_on (p : task) (n : node) (vs : list positive) : (node * task) + add_err :=
  node_add eps (fold_left (nevict eps) vs n) (set_status p Pipelined).

End Select.

Section Safe.
Variable eps : Z.
Hypothesis eps_pos : 0 < eps.
Variable extra : node -> bool.
Variable n : node.
Hypothesis Hbase : nbase eps n.

Definition req_of (v : positive) : res := match n_tasks n !! v with Some c => t_req c | None => empty_res end.
Definition rsum (R : list positive) (d : dim) : Z := foldr (fun v acc => amt (req_of v) d + acc) 0 R.

Lemma rsum_app A B d : rsum (A ++ B) d = rsum A d + rsum B d.
Proof. induction A; simpl; lia. Qed.

Lemma rsum_nonneg R d : 0 <= rsum R d.
Proof.
  destruct Hbase as [_ [_ Hnn] _ _]. induction R as [|v R IH]; simpl; [lia|].
  unfold req_of. destruct (n_tasks n !! v) as [c|] eqn:E; [pose proof (Hnn _ _ E d); lia|]. assert (amt empty_res d = 0) by (destruct d; reflexivity). lia.
Qed.

(* the dry-run node with the copies in R removed *)
Record dry_inv (dry : node) (R : list positive) : Prop := {
  di_sc : sc (n_idle dry) <> None;
  di_has : n_has_node dry = true;
  di_id : n_id dry = n_id n;
  di_tasks : forall v, n_tasks dry !! v = if bool_decide (v ∈ R) then None else n_tasks n !! v;
  di_idle : forall d, amt (n_idle dry) d = amt (n_idle n) d + rsum R d;
  di_rel : n_releasing dry = n_releasing n;
  di_pip : n_pipelined dry = n_pipelined n;
  di_nodup : NoDup R }.

Definition cand_ok (v : positive) : Prop := exists c, n_tasks n !! v = Some c /\ plain (t_status c).

Lemma dry_inv_init : dry_inv n [].
Proof.
  destruct Hbase as [Hh [[Hs _] _] _ _]. constructor; try reflexivity; try assumption; [intros d; simpl; lia|constructor].
Qed.

Lemma dry_fut dry R d : dry_inv dry R -> fut_amt dry d = fut_amt n d + rsum R d.
Proof. intros H. unfold fut_amt. rewrite (di_idle _ _ H d), (di_rel _ _ H), (di_pip _ _ H). lia. Qed.

Lemma dry_remove dry A B v :
  dry_inv dry (A ++ B) -> v ∉ A ++ B -> cand_ok v -> dry_inv (node_remove dry v) (A ++ v :: B).
Proof.
  intros H Hnin (c & Hl & Hp).
  assert (Hld : n_tasks dry !! v = Some c) by (rewrite (di_tasks _ _ H v), bool_decide_eq_false_2 by exact Hnin; exact Hl).
  rewrite (node_remove_plain dry v c Hld Hp (di_has _ _ H)). constructor; simpl.
  - apply sc_add_some, (di_sc _ _ H).
  - apply (di_has _ _ H).
  - apply (di_id _ _ H).
  - intros w. destruct (Pos.eq_dec w v) as [->|Hne].
    + rewrite lookup_delete, bool_decide_eq_true_2; [reflexivity|]. apply elem_of_app. right. left.
    + rewrite lookup_delete_ne by congruence. rewrite (di_tasks _ _ H w).
      assert (Hiff : w ∈ A ++ B <-> w ∈ A ++ v :: B) by (rewrite !elem_of_app, elem_of_cons; tauto).
      destruct (bool_decide (w ∈ A ++ B)) eqn:E1.
      * apply bool_decide_eq_true in E1. rewrite bool_decide_eq_true_2 by (apply Hiff; exact E1). reflexivity.
      * apply bool_decide_eq_false in E1. rewrite bool_decide_eq_false_2 by (rewrite <- Hiff; exact E1). reflexivity.
  - intros d. assert (Hrq : req_of v = t_req c) by (unfold req_of; rewrite Hl; reflexivity).
    rewrite amt_add, (di_idle _ _ H d), !rsum_app. simpl. rewrite Hrq. lia.
  - apply (di_rel _ _ H).
  - apply (di_pip _ _ H).
  - pose proof (di_nodup _ _ H) as Hnd. apply NoDup_app in Hnd as (H1 & H2 & H3). apply NoDup_app. split; [exact H1|]. split.
    + intros x Hx Hc. apply elem_of_cons in Hc as [->|Hc]; [apply Hnin, elem_of_app; left; exact Hx|apply (H2 x Hx Hc)].
    + constructor; [intros Hc; apply Hnin, elem_of_app; right; exact Hc|exact H3].
Qed.

Lemma dry_add dry A B v c dry1 t1 :
  dry_inv dry (A ++ v :: B) -> n_tasks n !! v = Some c -> plain (t_status c) ->
  node_add eps dry c = inl (dry1, t1) -> dry_inv dry1 (A ++ B).
Proof.
  intros H Hl Hp Ha. destruct Hbase as [_ [_ Hnn] _ [_ Hkey]]. destruct (Hkey _ _ Hl) as [Hcid Hcn].
  pose proof (node_add_tasks eps _ _ _ _ Ha) as Ht. rewrite Hcid in Ht.
  pose proof (di_nodup _ _ H) as Hnd. apply NoDup_app in Hnd as (N1 & N2 & N3). apply NoDup_cons in N3 as [Hvb N3'].
  assert (HvA : v ∉ A) by (intros Hc; apply (N2 v Hc); left).
  revert Ha. unfold node_add. destruct (bool_decide _); [discriminate|]. destruct (bool_decide _); [discriminate|].
  rewrite (di_has _ _ H). simpl.
  assert (Hres : forall used, dry_inv (node_with dry (sub (n_idle dry) (t_req c)) used (n_releasing dry) (n_pipelined dry)
                                         (<[t_id c := set_node c (Some (n_id dry))]> (n_tasks dry))) (A ++ B)).
  { intros used. constructor; simpl.
    - apply sc_sub_some, (di_sc _ _ H).
    - apply (di_has _ _ H).
    - apply (di_id _ _ H).
    - intros w. rewrite Hcid. destruct (Pos.eq_dec w v) as [->|Hne].
      + rewrite lookup_insert, bool_decide_eq_false_2 by (rewrite elem_of_app; tauto). rewrite Hl, (di_id _ _ H).
        f_equal. destruct c; simpl in *. subst. reflexivity.
      + rewrite lookup_insert_ne by congruence. rewrite (di_tasks _ _ H w).
        assert (Hiff : w ∈ A ++ v :: B <-> w ∈ A ++ B) by (rewrite !elem_of_app, elem_of_cons; split; [intros [?|[?|?]]; [tauto|congruence|tauto]|tauto]).
        destruct (bool_decide (w ∈ A ++ v :: B)) eqn:E1.
        * apply bool_decide_eq_true in E1. rewrite bool_decide_eq_true_2 by (apply Hiff; exact E1). reflexivity.
        * apply bool_decide_eq_false in E1. rewrite bool_decide_eq_false_2 by (rewrite <- Hiff; exact E1). reflexivity.
    - intros d. rewrite amt_sub_exact by apply (di_sc _ _ H). assert (Hrq : req_of v = t_req c) by (unfold req_of; rewrite Hl; reflexivity).
      rewrite (di_idle _ _ H d), !rsum_app. simpl. rewrite Hrq. lia.
    - apply (di_rel _ _ H).
    - apply (di_pip _ _ H).
    - apply NoDup_app. split; [exact N1|]. split; [|exact N3']. intros x Hx Hc. apply (N2 x Hx). right. exact Hc. }
  destruct Hp as (P1 & P2 & P3).
  destruct (t_status c); try congruence; intros Hq; inversion Hq; subst; apply Hres.
Qed.


Variable p : task.
Hypothesis p_nonneg : nonneg (t_req p).
Hypothesis p_dom : forall d, amt (t_req p) d <= amt (t_init p) d.

(* "the preemptor fits what will be free with the copies in R gone": a function of the amounts only *)
Definition rfits (R : list positive) : Prop := fits eps (t_req p) (fun d => fut_amt n d + rsum R d).

Lemma pfits_rfits dry R : dry_inv dry R -> pfits eps extra future_idle p dry = true -> rfits R.
Proof.
  intros H Hf. unfold pfits in Hf. apply andb_true_iff in Hf as [_ Hle].
  destruct Hbase as [_ [Hc _] _ _].
  assert (Hfut : forall d, amt (future_idle dry) d = fut_amt n d + rsum R d).
  { intros d. rewrite future_idle_amt by apply (di_sc _ _ H). apply dry_fut. exact H. }
  intros d Hd. rewrite <- Hfut.
  apply (less_equal_fits eps eps_pos (t_init p) (t_req p) (future_idle dry) Hle p_dom); [|exact Hd].
  intros d' Hd'. rewrite Hfut. destruct (nwc_elim eps n d' Hc Hd') as [_ H2]. pose proof (rsum_nonneg R d'). lia.
Qed.

Lemma rfits_perm R R' : (forall d, rsum R d = rsum R' d) -> rfits R -> rfits R'.
Proof. intros He H d Hd. rewrite <- He. apply (H d Hd). Qed.

Lemma remove_until_inv q : forall dry acc dry' pots,
  dry_inv dry acc -> Forall cand_ok acc -> Forall cand_ok q -> NoDup q -> (forall v, v ∈ q -> v ∉ acc) ->
  remove_until eps extra future_idle p dry q acc = (dry', pots) ->
  dry_inv dry' pots /\ Forall cand_ok pots.
Proof.
  induction q as [|v q IH]; intros dry acc dry' pots Hd Hacc Hq Hnd Hdis; simpl.
  - intros Hr; inversion Hr; subst. split; assumption.
  - inversion Hq as [|? ? Hv Hq']; subst. inversion Hnd as [|? ? Hvq Hnd']; subst.
    assert (Hd1 : dry_inv (node_remove dry v) (v :: acc)).
    { apply (dry_remove dry [] acc v); [exact Hd|apply Hdis; left|exact Hv]. }
    assert (Hacc1 : Forall cand_ok (v :: acc)) by (constructor; assumption).
    destruct (pfits eps extra future_idle p (node_remove dry v)).
    + intros Hr; inversion Hr; subst. split; assumption.
    + apply IH; try assumption. intros w Hw Hc. apply elem_of_cons in Hc as [->|Hc]; [exact (Hvq Hw)|].
      apply (Hdis w); [right; exact Hw|exact Hc].
Qed.

Lemma reprieve_inv pots : forall dry victims dry' vs,
  dry_inv dry (victims ++ pots) -> Forall cand_ok victims -> Forall cand_ok pots -> rfits (victims ++ pots) ->
  reprieve eps extra future_idle p n dry pots victims = Some (dry', vs) ->
  dry_inv dry' vs /\ Forall cand_ok vs /\ rfits vs.
Proof.
  induction pots as [|v r IH]; intros dry victims dry' vs Hd Hvic Hpots Hf; simpl.
  - intros Hr; inversion Hr; subst. rewrite app_nil_r in *. split; [exact Hd|split; [exact Hvic|exact Hf]].
  - inversion Hpots as [|? ? Hv Hr']; subst. destruct Hv as (c & Hl & Hp). rewrite Hl.
    destruct (node_add eps dry c) as [[dry1 t1]|e] eqn:Ea; [|discriminate].
    pose proof (dry_add dry victims r v c dry1 t1 Hd Hl Hp Ea) as Hd1.
    destruct (pfits eps extra future_idle p dry1) eqn:Ef.
    + apply IH; try assumption. apply (pfits_rfits dry1); assumption.
    + assert (Hnin : v ∉ victims ++ r).
      { pose proof (di_nodup _ _ Hd) as Hnd. apply NoDup_app in Hnd as (N1 & N2 & N3). apply NoDup_cons in N3 as [N3 _].
        intros Hc. apply elem_of_app in Hc as [Hc|Hc]; [apply (N2 v Hc); left|exact (N3 Hc)]. }
      pose proof (dry_remove dry1 victims r v Hd1 Hnin (ex_intro _ c (conj Hl Hp))) as Hd2.
      replace (victims ++ v :: r) with ((victims ++ [v]) ++ r) in Hd2, Hf by (rewrite <- app_assoc; reflexivity).
      apply IH; try assumption. apply Forall_app. split; [exact Hvic|]. constructor; [exists c; split; assumption|constructor].
Qed.

Lemma nevict_tasks_ne m v w : node_keyed (n_id m) m -> w <> v -> n_tasks (nevict eps m v) !! w = n_tasks m !! w.
Proof.
  intros [_ Hkey] Hne. unfold nevict. destruct (n_tasks m !! v) as [c|] eqn:E; [|reflexivity].
  destruct (Hkey _ _ E) as [Hcid _].
  destruct (plain_b (t_status c)); [|reflexivity].
  destruct (node_update eps m (set_status c Releasing)) as [[m' t']|e] eqn:Eu.
  - unfold node_update in Eu. rewrite (node_add_tasks eps _ _ _ _ Eu), node_remove_tasks. simpl. rewrite Hcid.
    rewrite lookup_insert_ne by congruence. apply lookup_delete_ne. congruence.
  - rewrite node_remove_tasks. apply lookup_delete_ne. congruence.
Qed.

(* the real node after evicting the victims: FutureIdle is what the dry run computed *)
Lemma evict_all vs : forall m st,
  stackP eps m st -> NoDup vs -> Forall cand_ok vs -> (forall v, v ∈ vs -> n_tasks m !! v = n_tasks n !! v) ->
  exists st', stackP eps (fold_left (nevict eps) vs m) st' /\
              forall d, fut_amt (fold_left (nevict eps) vs m) d = fut_amt m d + rsum vs d.
Proof.
  induction vs as [|v vs IH]; intros m st Hst Hnd Hc Hsame; simpl; [exists st; split; [exact Hst|intros d; lia]|].
  inversion Hnd as [|? ? Hnin Hnd']; subst. inversion Hc as [|? ? (c & Hl & Hp) Hc']; subst.
  assert (Hlm : n_tasks m !! v = Some c) by (rewrite Hsame by left; exact Hl).
  destruct (stack_evict eps m st v c Hst Hlm Hp) as (Hst1 & _ & Hfut1).
  destruct (IH (nevict eps m v) _ Hst1 Hnd' Hc') as (st' & Hst' & Hfut').
  - intros w Hw. rewrite nevict_tasks_ne; [apply Hsame; right; exact Hw|apply Hst|intros ->; exact (Hnin Hw)].
  - exists st'. split; [exact Hst'|]. intros d. rewrite (Hfut' d), (Hfut1 d).
    assert (Hrq : req_of v = t_req c) by (unfold req_of; rewrite Hl; reflexivity). rewrite Hrq. lia.
Qed.

(* (2) main: whatever the pop order q of the candidates (distinct Running / Bound copies of the
   node) and whatever the other votes, evicting exactly the victims SelectVictimsOnNode returns and
   pipelining the preemptor leaves the node within capacity *)
Theorem select_victims_safe q vs n' t' :
  NoDup q -> Forall cand_ok q ->
  select_victims eps extra future_idle p n q = Some vs ->
  preempt_on eps p n vs = inl (n', t') ->
  node_within_capacity eps n'.
Proof.
  intros Hnd Hq Hsel Hpre. unfold select_victims in Hsel.
  destruct (remove_until eps extra future_idle p n q []) as [dry pots] eqn:Er.
  destruct (remove_until_inv q n [] dry pots dry_inv_init) as [Hd Hpots]; try assumption; [constructor|intros v _ Hc; inversion Hc|].
  destruct pots as [|v0 pots0]; [discriminate|].
  destruct (pfits eps extra future_idle p dry) eqn:Ef; [|discriminate].
  destruct (reprieve eps extra future_idle p n dry (v0 :: pots0) []) as [[dry' vs']|] eqn:Erp; [|discriminate].
  inversion Hsel; subst vs'. clear Hsel.
  destruct (reprieve_inv (v0 :: pots0) dry [] dry' vs) as (Hd' & Hvs & Hfit); try assumption; [constructor|apply (pfits_rfits dry); assumption|].
  assert (Hst0 : stackP eps n []).
  { split; [exact Hbase|]. split; [constructor|]. split; [constructor|]. intros j d Hdd. rewrite take_nil. unfold pot. simpl.
    destruct Hbase as [_ [Hc _] _ _]. destruct (nwc_elim eps n d Hc Hdd) as [_ H2]. lia. }
  destruct (evict_all vs n [] Hst0 (di_nodup _ _ Hd') Hvs) as (st' & Hst' & Hfut'); [intros; reflexivity|].
  unfold preempt_on in Hpre.
  apply (node_add_guarded_keeps_capacity eps eps_pos (fold_left (nevict eps) vs n) (set_status p Pipelined) n' t'
           (proj1 (stackP_safe eps _ _ Hst')) p_nonneg); [|exact Hpre].
  unfold add_guard. simpl. intros d Hdd. rewrite (Hfut' d). apply (Hfit d Hdd).
Qed.

End Safe.
