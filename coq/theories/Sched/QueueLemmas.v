(* C03, part 3: events_balance and queue_cap_invariant, by induction over the micro-step
   decomposition of QueueLemmasReach.v. *)
From stdpp Require Import gmap.
From Coq Require Import ZArith Lia.
From V Require Import Base.Res Base.ResLemmas Sched.LedgerModel Sched.StmtModel Sched.GangModel
                      Sched.CycleModel Sched.LedgerInvP Sched.QueueLemmasBase Sched.QueueLemmasReach.
Open Scope Z_scope.

(* ---------- static well-formedness ---------- *)

(* a best-effort task requests nothing (outside the pod count) *)
Definition be_empty (h : gmap positive task) : Prop :=
  forall i t, h !! i = Some t -> t_best_effort t = true ->
  forall d, d <> DSc pods_name -> amt (t_req t) d = 0.

Definition stat_ok (s : sess) : Prop :=
  forall i r j b, tstat s i = Some (r, j, b) ->
    nonneg r /\ (b = true -> forall d, d <> DSc pods_name -> amt r d = 0).

Definition world_ok (w : world) : Prop :=
  heap_ok (heap (w_sess w)) /\ be_empty (heap (w_sess w)) /\ no_evict (w_sess w).

Lemma world_ok_ids w : world_ok w -> heap_ids (w_sess w).
Proof. intros (Hh & _ & _) i t Hl. apply (Hh i t Hl). Qed.
Lemma world_ok_stat w : world_ok w -> stat_ok (w_sess w).
Proof.
  intros (Hh & Hb & _) i r j b. unfold tstat. destruct (heap (w_sess w) !! i) as [t|] eqn:E; simpl; [|discriminate].
  unfold stat_of. intros H. inversion H; subst. split; [apply (Hh i t E)|]. intros Hbe. exact (Hb i t E Hbe).
Qed.
Lemma stat_ok_move s s' : stat_eq s s' -> stat_ok s -> stat_ok s'.
Proof. intros He Hs i r j b. rewrite (se_t _ _ He). apply Hs. Qed.

(* BestEffort = InitResreq.IsEmpty() and Resreq <= InitResreq: on the grid an empty request is 0 *)
Lemma is_empty_granular_zero eps r :
  is_empty eps r = true -> granular eps r -> nonneg r -> forall d, d <> DSc pods_name -> amt r d = 0.
Proof.
  unfold is_empty. rewrite !andb_true_iff, !lt_spec, map_allb_spec. intros [[Hc Hm] Hs] Hg Hn d Hd.
  destruct (Hg d) as [H0|Hge]; [exact H0|]. exfalso. destruct d as [| |k]; [simpl in *; lia|simpl in *; lia|].
  assert (Hk : k <> pods_name) by congruence. clear Hd.
  change (eps <= sget r k) in Hge. pose proof (Hn DCpu) as Hn0. pose proof (Hg DCpu) as Hg0. simpl in Hn0, Hg0.
  destruct (scm r !! k) as [v|] eqn:E.
  - rewrite (sget_lookup _ _ _ E) in Hge. specialize (Hs k v E). unfold ignored in Hs.
    rewrite orb_true_iff, bool_decide_eq_true, lt_spec in Hs. destruct Hs; [congruence|lia].
  - rewrite (sget_none _ _ E) in Hge. lia.
Qed.

Lemma requested_pos r d : requested r d -> d <> DSc pods_name /\ 0 < amt r d.
Proof. destruct d; simpl; intros H; [split; [discriminate|lia]..|]. destruct H. split; [congruence|lia]. Qed.

Lemma requested_dec r d : requested r d \/ ~ requested r d.
Proof.
  destruct d; simpl; lia.
Qed.

Lemma not_requested_zero r d : nonneg r -> ~ requested r d -> d <> DSc pods_name -> amt r d = 0.
Proof.
  intros Hn Hr Hd. specialize (Hn d). destruct d; simpl in *; try lia.
  assert (k <> pods_name) by congruence.
  destruct (Z_lt_dec 0 (sget r k)); [exfalso; apply Hr; tauto|lia].
Qed.

(* ---------- effect of the two handlers on a queue's share ---------- *)

Definition qterm (s : sess) (p : task) (q : positive) (d : dim) : Z :=
  if bool_decide (jq s (t_job p) = Some q) then amt (t_req p) d else 0.

Lemma share_alloc s p q d :
  amt (share_of (snd (h_alloc s p)) q) d = amt (share_of s q) d + qterm s p q d.
Proof.
  rewrite !share_of_amt. unfold h_alloc. simpl. rewrite msum_insert.
  unfold qterm. change (jq (upd_handlers s _ _)) with (jq s).
  destruct (bool_decide (jq s (t_job p) = Some q)); [rewrite amt_add|]; lia.
Qed.

Lemma share_dealloc s p q d :
  0 <= amt (t_req p) d ->
  amt (share_of s q) d - qterm s p q d <= amt (share_of (h_dealloc s p) q) d <= amt (share_of s q) d /\
  (d = DCpu \/ d = DMem -> amt (share_of (h_dealloc s p) q) d = amt (share_of s q) d - qterm s p q d).
Proof.
  intros Hn. rewrite !share_of_amt. unfold h_dealloc. simpl. rewrite msum_insert.
  unfold qterm. change (jq (upd_handlers s _ _)) with (jq s).
  destruct (bool_decide (jq s (t_job p) = Some q)).
  - pose proof (amt_sub_bounds (default empty_res (hshare s !! t_job p)) (t_req p) d Hn).
    split; [lia|]. intros Hd. rewrite amt_sub_exact by tauto. lia.
  - split; [lia|]. intros _. lia.
Qed.

(* ---------- events_balance ---------- *)

(* the request behind a handler event, counted for queue q in dimension d *)
Definition ev_amt (s : sess) (q : positive) (d : dim) (e : hev) : Z :=
  match tstat s (he_task e) with
  | Some (r, j, _) => if bool_decide (jq s j = Some q) then amt r d else 0
  | None => 0
  end.
Definition ev_signed s q d e : Z := if he_alloc e then ev_amt s q d e else - ev_amt s q d e.
Definition ev_pos s q d e : Z := if he_alloc e then ev_amt s q d e else 0.

(* s' is s after the handler calls evs (newest first): per queue and dimension the share moved
   by the signed sum of the requests -- exactly in cpu and memory; for scalars from below, and
   from above by the allocate events alone (Resource.sub drops the scalars of the subtrahend when
   the ledger entry has no scalar map, so a deallocate may subtract less than the request) *)
Definition balanced (s s' : sess) (evs : list hev) : Prop :=
  hlog s' = evs ++ hlog s /\
  forall q d,
    zsum (ev_signed s q d) evs <= amt (share_of s' q) d - amt (share_of s q) d <= zsum (ev_pos s q d) evs /\
    (d = DCpu \/ d = DMem -> amt (share_of s' q) d - amt (share_of s q) d = zsum (ev_signed s q d) evs).

Lemma ev_amt_move s s' q d e : stat_eq s s' -> ev_amt s' q d e = ev_amt s q d e.
Proof.
  intros He. unfold ev_amt. rewrite (se_t _ _ He). destruct (tstat s (he_task e)) as [[[r j] b]|]; [|reflexivity].
  rewrite (se_j _ _ He). reflexivity.
Qed.

Lemma ev_amt_hp s p q d e : hp s p -> he_task e = t_id p -> ev_amt s q d e = qterm s p q d.
Proof. intros Hp He. unfold ev_amt, qterm. rewrite He, Hp. reflexivity. Qed.

Lemma hp_nonneg s p : stat_ok s -> hp s p -> nonneg (t_req p).
Proof. intros Hs Hp. exact (proj1 (Hs _ _ _ _ Hp)). Qed.

Section WithQ.
Variable eps : Z.
Variable Q : gmap positive qattr.

Lemma mstep_balanced s s' : stat_ok s -> mstep Q s s' -> exists evs, balanced s s' evs.
Proof.
  intros Hok Hm. revert Hok. destruct Hm as [s1 s2 Hs|s1 p Hp|s1 p Hp Hg]; intros Hok.
  - exists []. split; [apply (sil_log _ _ Hs)|]. intros q d. rewrite (share_amt_silent _ _ _ _ Hs). simpl. lia.
  - set (e0 := mkHev false (t_id p) (t_status p) (t_node p)).
    exists [e0]. split; [reflexivity|]. intros q d.
    pose proof (hp_nonneg _ _ Hok Hp d) as Hn.
    destruct (share_dealloc s1 p q d Hn) as [Hb He].
    pose proof (ev_amt_hp s1 p q d e0 Hp eq_refl) as Hev.
    unfold zsum, ev_signed, ev_pos. cbn [foldr he_alloc e0]. rewrite Hev.
    split; [lia|]. intros Hd. rewrite (He Hd). lia.
  - set (e0 := mkHev true (t_id p) (t_status p) (t_node p)).
    exists [e0]. split; [reflexivity|]. intros q d.
    pose proof (ev_amt_hp s1 p q d e0 Hp eq_refl) as Hev.
    rewrite share_alloc. unfold zsum, ev_signed, ev_pos. cbn [foldr he_alloc e0]. rewrite Hev. lia.
Qed.

Lemma balanced_trans s1 s2 s3 e1 e2 :
  stat_eq s1 s2 -> balanced s1 s2 e1 -> balanced s2 s3 e2 -> balanced s1 s3 (e2 ++ e1).
Proof.
  intros He [Hl1 Hb1] [Hl2 Hb2]. split; [rewrite Hl2, Hl1, app_assoc; reflexivity|].
  intros q d. rewrite !zsum_app.
  rewrite (zsum_ext (ev_signed s1 q d) (ev_signed s2 q d) e2), (zsum_ext (ev_pos s1 q d) (ev_pos s2 q d) e2).
  - destruct (Hb1 q d) as [B1 X1], (Hb2 q d) as [B2 X2]. split; [lia|]. intros Hd. rewrite <- (X1 Hd), <- (X2 Hd). lia.
  - intros e. unfold ev_pos. rewrite (ev_amt_move _ _ _ _ _ He). reflexivity.
  - intros e. unfold ev_signed. rewrite (ev_amt_move _ _ _ _ _ He). reflexivity.
Qed.

Lemma reach_balanced s s' : reach Q s s' -> stat_ok s -> exists evs, balanced s s' evs.
Proof.
  induction 1 as [s|s1 s2 s3 Hm Hr IH]; intros Hok.
  - exists []. split; [reflexivity|]. intros q d. simpl. lia.
  - destruct (mstep_balanced _ _ Hok Hm) as [e1 H1].
    pose proof (mstep_stat_eq _ _ _ Hm) as He.
    destruct (IH (stat_ok_move _ _ He Hok)) as [e2 H2].
    exists (e2 ++ e1). eapply balanced_trans; eassumption.
Qed.

(* ---------- the capability invariant ---------- *)

Definition touched (s : sess) (evs : list hev) (q : positive) (d : dim) : Prop :=
  exists e r j b, e ∈ evs /\ he_alloc e = true /\ tstat s (he_task e) = Some (r, j, b) /\
                  jq s j = Some q /\ requested r d.

Definition cap_ok (s : sess) (evs : list hev) : Prop :=
  (forall q qa d, Q !! q = Some qa -> q_has_plugin qa = true -> touched s evs q d ->
     amt (share_of s q) d <= amt (q_limit qa) d) /\
  (forall e r j q qa, e ∈ evs -> he_alloc e = true -> tstat s (he_task e) = Some (r, j, false) ->
     jq s j = Some q -> Q !! q = Some qa -> q_has_plugin qa = true -> q_open qa = true).

Lemma touched_move s s' evs q d : stat_eq s s' -> touched s' evs q d -> touched s evs q d.
Proof.
  intros He (e & r & j & b & H1 & H2 & H3 & H4 & H5). exists e, r, j, b.
  rewrite (se_t _ _ He) in H3. rewrite (se_j _ _ He) in H4. auto.
Qed.

Lemma mstep_cap s s' evs :
  stat_ok s -> mstep Q s s' -> cap_ok s evs ->
  exists e1, hlog s' = e1 ++ hlog s /\ cap_ok s' (e1 ++ evs).
Proof.
  intros Hok Hm [Hcap Hopen]. pose proof (mstep_stat_eq _ _ _ Hm) as He.
  revert Hok Hcap Hopen He. destruct Hm as [s1 s2 Hs|s1 p Hp|s1 p Hp Hg]; intros Hok Hcap Hopen He.
  - exists []. split; [apply (sil_log _ _ Hs)|]. split.
    + intros q qa d HQ Hpl Ht. rewrite (share_amt_silent _ _ _ _ Hs).
      apply (Hcap q qa d HQ Hpl). eapply touched_move; eassumption.
    + intros e r j q qa Hin Ha Hst Hj. rewrite (se_t _ _ He) in Hst. rewrite (se_j _ _ He) in Hj.
      eapply Hopen; eassumption.
  - set (e0 := mkHev false (t_id p) (t_status p) (t_node p)).
    exists [e0]. split; [reflexivity|]. split.
    + intros q qa d HQ Hpl Ht. apply (touched_move _ _ _ _ _ He) in Ht.
      destruct Ht as (e & r & j & b & Hin & Ha & Hst & Hj & Hr).
      apply elem_of_cons in Hin as [->|Hin]; [discriminate|].
      destruct (share_dealloc s1 p q d (hp_nonneg _ _ Hok Hp d)) as [Hb _].
      assert (amt (share_of s1 q) d <= amt (q_limit qa) d) by (apply (Hcap q qa d HQ Hpl); exists e, r, j, b; auto).
      lia.
    + intros e r j q qa Hin Ha Hst Hj. rewrite (se_t _ _ He) in Hst. rewrite (se_j _ _ He) in Hj.
      apply elem_of_cons in Hin as [->|Hin]; [discriminate|]. eapply Hopen; eassumption.
  - set (e0 := mkHev true (t_id p) (t_status p) (t_node p)).
    exists [e0]. split; [reflexivity|]. split.
    + intros q qa d HQ Hpl Ht. apply (touched_move _ _ _ _ _ He) in Ht.
      rewrite share_alloc. unfold qterm.
      destruct (requested_dec (t_req p) d) as [Hrq|Hnrq].
      * (* p requests d *)
        case_bool_decide as Hjq; [|].
        -- destruct Hg as [Hg|Hbe].
           ++ destruct (Hg q qa Hjq HQ Hpl) as [_ Hb]. apply Hb, Hrq.
           ++ exfalso. destruct (requested_pos _ _ Hrq) as [Hd Hpos].
              pose proof (proj2 (Hok _ _ _ _ Hp) Hbe d Hd). lia.
        -- (* p belongs to another queue: the touching event is an older one *)
           destruct Ht as (e & r & j & b & Hin & Ha & Hst & Hj & Hr).
           apply elem_of_cons in Hin as [->|Hin].
           ++ exfalso. simpl in Hst. rewrite Hp in Hst. unfold stat_of in Hst. inversion Hst; subst. contradiction.
           ++ assert (amt (share_of s1 q) d <= amt (q_limit qa) d) by (apply (Hcap q qa d HQ Hpl); exists e, r, j, b; auto).
              lia.
      * (* p does not request d: the share does not move in d *)
        destruct Ht as (e & r & j & b & Hin & Ha & Hst & Hj & Hr).
        assert (Hd : d <> DSc pods_name) by (apply (requested_pos _ _ Hr)).
        pose proof (not_requested_zero _ _ (hp_nonneg _ _ Hok Hp) Hnrq Hd) as Hz.
        apply elem_of_cons in Hin as [->|Hin].
        -- exfalso. simpl in Hst. rewrite Hp in Hst. unfold stat_of in Hst. inversion Hst; subst. contradiction.
        -- assert (amt (share_of s1 q) d <= amt (q_limit qa) d) by (apply (Hcap q qa d HQ Hpl); exists e, r, j, b; auto).
           destruct (bool_decide _); lia.
    + intros e r j q qa Hin Ha Hst Hj HQ Hpl. rewrite (se_t _ _ He) in Hst. rewrite (se_j _ _ He) in Hj.
      apply elem_of_cons in Hin as [->|Hin]; [|eapply Hopen; eassumption].
      simpl in Hst. rewrite Hp in Hst. unfold stat_of in Hst. inversion Hst; subst.
      destruct Hg as [Hg|Hbe]; [|congruence]. exact (proj1 (Hg q qa Hj HQ Hpl)).
Qed.

Lemma cap_ok_move s s' evs : stat_eq s s' -> (forall q d, amt (share_of s' q) d = amt (share_of s q) d) -> cap_ok s evs -> cap_ok s' evs.
Proof.
  intros He Hsh [Hc Ho]. split.
  - intros q qa d HQ Hpl Ht. rewrite Hsh. apply (Hc q qa d HQ Hpl). eapply touched_move; eassumption.
  - intros e r j q qa Hin Ha Hst Hj. rewrite (se_t _ _ He) in Hst. rewrite (se_j _ _ He) in Hj. eapply Ho; eassumption.
Qed.

Lemma reach_cap s s' : reach Q s s' -> forall evs,
  stat_ok s -> cap_ok s evs -> exists e1, hlog s' = e1 ++ hlog s /\ cap_ok s' (e1 ++ evs).
Proof.
  induction 1 as [s|s1 s2 s3 Hm Hr IH]; intros evs Hok Hc.
  - exists []. split; [reflexivity|exact Hc].
  - destruct (mstep_cap _ _ _ Hok Hm Hc) as (e1 & Hl1 & Hc1).
    pose proof (mstep_stat_eq _ _ _ Hm) as He.
    destruct (IH _ (stat_ok_move _ _ He Hok) Hc1) as (e2 & Hl2 & Hc2).
    exists (e2 ++ e1). split; [rewrite Hl2, Hl1, app_assoc; reflexivity|]. rewrite <- app_assoc. exact Hc2.
Qed.

Lemma cap_ok_nil s : cap_ok s [].
Proof.
  split.
  - intros q qa d _ _ (e & r & j & b & Hin & _). inversion Hin.
  - intros e r j q qa Hin. inversion Hin.
Qed.

End WithQ.

(* ---------- the theorems over the skeleton ---------- *)

Lemma queue_of_jq s t : queue_of s t = jq s (t_job t).
Proof. unfold queue_of, jq. destruct (jobs s !! t_job t); reflexivity. Qed.

(* A.1 per step *)
Theorem events_balance eps (w : world) (o : cop) :
  world_ok w ->
  exists evs, balanced (w_sess w) (w_sess (fst (CycleModel.step eps w o))) evs.
Proof.
  intros Hw. destruct (step_reach eps (w_queues w) w o eq_refl (world_ok_ids _ Hw) (proj2 (proj2 Hw))) as [Hr _].
  exact (reach_balanced _ _ _ Hr (world_ok_stat _ Hw)).
Qed.

(* A.1 whole cycle: share now = share at session open + requests placed - requests undone *)
Theorem events_balance_run eps (w : world) (ops : list cop) :
  world_ok w ->
  exists evs, balanced (w_sess w) (w_sess (CycleModel.run eps w ops)) evs.
Proof.
  intros Hw. destruct (run_reach eps (w_queues w) ops w eq_refl (world_ok_ids _ Hw) (proj2 (proj2 Hw))) as [Hr _].
  exact (reach_balanced _ _ _ Hr (world_ok_stat _ Hw)).
Qed.

(* the run keeps the well-formedness, so the per-step theorem applies after any prefix *)
Lemma reach_world_ok Q s s' : reach Q s s' -> heap_ids s -> stat_ok s -> no_evict s ->
  heap_ids s' /\ stat_ok s' /\ no_evict s'.
Proof.
  intros Hr Hi Hs Hn. pose proof (reach_stat_eq _ _ _ Hr) as He.
  split; [apply (se_ids _ _ He Hi)|]. split; [eapply stat_ok_move; eassumption|apply (se_ne _ _ He Hn)].
Qed.

(* A.3 main *)
Theorem queue_cap_invariant eps (w : world) (ops : list cop) :
  world_ok w ->
  let s' := w_sess (CycleModel.run eps w ops) in
  forall evs, hlog s' = evs ++ hlog (w_sess w) ->
  forall e t q qa,
    e ∈ evs -> he_alloc e = true -> heap s' !! he_task e = Some t -> queue_of s' t = Some q ->
    w_queues w !! q = Some qa -> q_has_plugin qa = true ->
    (t_best_effort t = false -> q_open qa = true) /\
    forall d, requested (t_req t) d -> amt (share_of s' q) d <= amt (q_limit qa) d.
Proof.
  intros Hw s' evs Hlog e t q qa Hin Ha Hh Hq HQ Hpl.
  destruct (run_reach eps (w_queues w) ops w eq_refl (world_ok_ids _ Hw) (proj2 (proj2 Hw))) as [Hr _].
  destruct (reach_cap _ _ _ Hr [] (world_ok_stat _ Hw) (cap_ok_nil _ _)) as (e1 & Hl1 & [Hc Ho]).
  fold s' in Hl1, Hc, Ho. rewrite app_nil_r in Hc, Ho.
  assert (e1 = evs) by (rewrite Hlog in Hl1; eapply app_inv_tail; symmetry; exact Hl1). subst e1.
  rewrite queue_of_jq in Hq.
  assert (Hst : tstat s' (he_task e) = Some (t_req t, t_job t, t_best_effort t)) by (unfold tstat; rewrite Hh; reflexivity).
  split.
  - intros Hbe. rewrite Hbe in Hst. eapply Ho; eassumption.
  - intros d Hd. apply (Hc q qa d HQ Hpl). exists e, (t_req t), (t_job t), (t_best_effort t). auto.
Qed.

(* "after every step": every prefix of the choice list is a choice list *)
Corollary queue_cap_invariant_every_step eps (w : world) (ops : list cop) (n : nat) :
  world_ok w ->
  let s' := w_sess (CycleModel.run eps w (take n ops)) in
  forall evs, hlog s' = evs ++ hlog (w_sess w) ->
  forall e t q qa,
    e ∈ evs -> he_alloc e = true -> heap s' !! he_task e = Some t -> queue_of s' t = Some q ->
    w_queues w !! q = Some qa -> q_has_plugin qa = true ->
    (t_best_effort t = false -> q_open qa = true) /\
    forall d, requested (t_req t) d -> amt (share_of s' q) d <= amt (q_limit qa) d.
Proof. apply queue_cap_invariant. Qed.

(* the verdicts a run reports *)
Fixpoint verdicts (eps : Z) (w : world) (ops : list cop) : list verdict :=
  match ops with
  | [] => []
  | o :: r => snd (CycleModel.step eps w o) :: verdicts eps (fst (CycleModel.step eps w o)) r
  end.

(* the form asked for: runs the code could have produced (no verdict other than VOk).  The
   hypothesis is not needed: a refused or malformed choice places nothing. *)
Corollary queue_cap_invariant_ok_runs eps (w : world) (ops : list cop) :
  world_ok w -> Forall (fun v => v = VOk) (verdicts eps w ops) ->
  let s' := w_sess (CycleModel.run eps w ops) in
  forall evs, hlog s' = evs ++ hlog (w_sess w) ->
  forall e t q qa,
    e ∈ evs -> he_alloc e = true -> heap s' !! he_task e = Some t -> queue_of s' t = Some q ->
    w_queues w !! q = Some qa -> q_has_plugin qa = true ->
    (t_best_effort t = false -> q_open qa = true) /\
    forall d, requested (t_req t) d -> amt (share_of s' q) d <= amt (q_limit qa) d.
Proof. intros Hw _. apply queue_cap_invariant, Hw. Qed.

(* with limit <= capability (C12: deserved <= max(guarantee, realCapability), realCapability <=
   capability) the share stays under the capability *)
Corollary queue_cap_under_capability eps (w : world) (ops : list cop) (capability : positive -> res) :
  world_ok w ->
  (forall q qa d, w_queues w !! q = Some qa -> amt (q_limit qa) d <= amt (capability q) d) ->
  let s' := w_sess (CycleModel.run eps w ops) in
  forall evs, hlog s' = evs ++ hlog (w_sess w) ->
  forall e t q qa,
    e ∈ evs -> he_alloc e = true -> heap s' !! he_task e = Some t -> queue_of s' t = Some q ->
    w_queues w !! q = Some qa -> q_has_plugin qa = true ->
    forall d, requested (t_req t) d -> amt (share_of s' q) d <= amt (capability q) d.
Proof.
  intros Hw Hcap s' evs Hl e t q qa Hin Ha Hh Hq HQ Hpl d Hd.
  destruct (queue_cap_invariant eps w ops Hw evs Hl e t q qa Hin Ha Hh Hq HQ Hpl) as [_ Hb].
  specialize (Hb d Hd). specialize (Hcap q qa d HQ). fold s' in Hb. lia.
Qed.

(* the two definitions the statements are phrased with, spelled out *)
Lemma balanced_unfold s s' evs :
  balanced s s' evs <->
  hlog s' = evs ++ hlog s /\
  forall q d,
    zsum (ev_signed s q d) evs <= amt (share_of s' q) d - amt (share_of s q) d <= zsum (ev_pos s q d) evs /\
    (d = DCpu \/ d = DMem -> amt (share_of s' q) d - amt (share_of s q) d = zsum (ev_signed s q d) evs).
Proof. reflexivity. Qed.

Lemma world_ok_unfold w :
  world_ok w <-> heap_ok (heap (w_sess w)) /\ be_empty (heap (w_sess w)) /\ no_evict (w_sess w).
Proof. reflexivity. Qed.
