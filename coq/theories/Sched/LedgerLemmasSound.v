(* Soundness of the executable bookkeeping checker (Sched/LedgerInv.v, ledger_okb) with
   respect to the Prop-level invariant (Sched/LedgerInvP.v, ledger_inv).

   ledger_okb does not test that requests are non-negative, so the two clauses of
   ledger_inv that speak about [nonneg] (heap_ok: nonneg (t_req t); node_inv: nonneg
   (t_req c) of the node-held copy) are obtained from the explicit hypothesis
   [heap_nonneg].  EVERY OTHER clause of ledger_inv is implied by ledger_okb alone:
   no further hypothesis was needed.  (job_inv does not mention nonneg at all, so
   job_okb_sound_strong needs no hypothesis; job_okb_sound carries the unused
   heap_nonneg premise only to keep the signature uniform with node_okb_sound.)

   An executable test of heap_nonneg (heap_nonnegb, sound and complete) is given at
   the end together with the corollary ledger_okb_sound_b. *)
From stdpp Require Import gmap.
From Coq Require Import ZArith Lia.
From V Require Import Base.Res Base.ResLemmas Sched.LedgerModel Sched.StmtModel
  Sched.GangModel Sched.LedgerInvP Sched.LedgerInv.
Open Scope Z_scope.

Definition heap_nonneg (h : gmap positive task) : Prop :=
  forall i t, h !! i = Some t -> nonneg (t_req t).

(* ---------- small interface lemmas ---------- *)

Lemma gmap_allb_spec {A} (p : positive -> A -> bool) (m : gmap positive A) :
  gmap_allb p m = true <-> forall k v, m !! k = Some v -> p k v = true.
Proof. unfold gmap_allb. rewrite bool_decide_eq_true. apply map_Forall_lookup. Qed.

Lemma gset_allb_spec (p : positive -> bool) (x : gset positive) :
  gset_allb p x = true <-> forall k, k ∈ x -> p k = true.
Proof. unfold gset_allb. rewrite bool_decide_eq_true. reflexivity. Qed.

Lemma elem_of_gset_filterb (p : positive -> bool) (x : gset positive) i :
  i ∈ gset_filterb p x <-> p i = true /\ i ∈ x.
Proof. unfold gset_filterb. rewrite elem_of_filter. reflexivity. Qed.

Lemma tasks_of_tasks_in h ids : tasks_of h ids = tasks_in h ids.
Proof. reflexivity. Qed.

Lemma status_of_key_skey s : status_of_key (skey s) = Some s.
Proof. destruct s; reflexivity. Qed.

Lemma skey_inj s1 s2 : skey s1 = skey s2 -> s1 = s2.
Proof.
  intros H. apply (f_equal status_of_key) in H.
  rewrite !status_of_key_skey in H. congruence.
Qed.

Lemma status_of_key_inv k s : status_of_key k = Some s -> k = skey s.
Proof.
  intros H. unfold status_of_key in H.
  do 4 (try destruct k as [k|k|]); simpl in H; try discriminate;
    inversion H; reflexivity.
Qed.

Lemma all_statuses_complete s : In s all_statuses.
Proof. destruct s; simpl; tauto. Qed.

(* ---------- amounts ---------- *)

Lemma amt_add r x d : amt (add r x) d = amt r d + amt x d.
Proof. destruct d; [reflexivity|reflexivity|]. cbn [amt]. apply add_sget. Qed.

Lemma amt_empty d : amt empty_res d = 0.
Proof.
  destruct d; [reflexivity|reflexivity|]. cbn [amt].
  apply sget_none. unfold scm. simpl. apply lookup_empty.
Qed.

Lemma elem_of_res_keys2 r s k :
  is_Some (scm r !! k) \/ is_Some (scm s !! k) -> In k (res_keys [r; s]).
Proof.
  intros H. apply elem_of_list_In. unfold res_keys. cbn [foldr].
  assert (is_Some ((scm r ∪ (scm s ∪ ∅)) !! k)) as [v Hv].
  { destruct (scm r !! k) as [v|] eqn:Er.
    - exists v. apply lookup_union_Some_l. exact Er.
    - destruct H as [[? ?]|[w Hw]]; [discriminate|]. exists w.
      rewrite lookup_union_r by exact Er. apply lookup_union_Some_l. exact Hw. }
  apply elem_of_list_fmap. exists (k, v). split; [reflexivity|].
  apply elem_of_map_to_list. exact Hv.
Qed.

Lemma res_eqvb_sound r s : res_eqvb r s = true -> forall d, amt r d = amt s d.
Proof.
  unfold res_eqvb. rewrite !andb_true_iff, !bool_decide_eq_true, forallb_forall.
  intros [[Hc Hm] Hk] d. destruct d as [| |k]; cbn [amt]; [exact Hc|exact Hm|].
  destruct (scm r !! k) as [v|] eqn:Er; [|destruct (scm s !! k) as [w|] eqn:Es].
  - specialize (Hk k (elem_of_res_keys2 r s k (or_introl (ex_intro _ v Er)))).
    apply bool_decide_eq_true in Hk. exact Hk.
  - specialize (Hk k (elem_of_res_keys2 r s k (or_intror (ex_intro _ w Es)))).
    apply bool_decide_eq_true in Hk. exact Hk.
  - rewrite (sget_none _ _ Er), (sget_none _ _ Es). reflexivity.
Qed.

Lemma res_eqvb_res_eqv r s : res_eqvb r s = true -> res_eqv r s.
Proof.
  intros H. pose proof (res_eqvb_sound r s H) as Ha.
  split; [exact (Ha DCpu)|]. split; [exact (Ha DMem)|]. intros k. exact (Ha (DSc k)).
Qed.

Lemma sum_req_cons t l : sum_req (t :: l) = add (sum_req l) (t_req t).
Proof. reflexivity. Qed.

Lemma sum_amt_cons f t l : sum_amt f (t :: l) = f t + sum_amt f l.
Proof. reflexivity. Qed.

Lemma sum_amt_ext f g l : (forall t, f t = g t) -> sum_amt f l = sum_amt g l.
Proof.
  intros H. induction l as [|t l IH]; [reflexivity|].
  rewrite !sum_amt_cons, IH, H. reflexivity.
Qed.

Lemma amt_sum_req d l : amt (sum_req l) d = sum_amt (req_amt d) l.
Proof.
  induction l as [|t l IH]; [apply amt_empty|].
  rewrite sum_req_cons, sum_amt_cons, amt_add, IH. unfold req_amt. lia.
Qed.

(* sum over a (std++) filter *)
Lemma amt_sum_req_filter (P : task -> Prop) `{!forall t, Decision (P t)} d l :
  amt (sum_req (filter P l)) d =
  sum_amt (fun t => if decide (P t) then amt (t_req t) d else 0) l.
Proof.
  induction l as [|t l IH]; [apply amt_empty|].
  rewrite filter_cons, sum_amt_cons. destruct (decide (P t)) as [Hp|Hp].
  - rewrite sum_req_cons, amt_add, IH. lia.
  - rewrite IH. lia.
Qed.

Lemma amt_sum_req_alloc d l :
  amt (sum_req (filter (fun t => allocated_status (t_status t) = true) l)) d =
  sum_amt (alloc_amt d) l.
Proof.
  rewrite amt_sum_req_filter. apply sum_amt_ext. intros t. unfold alloc_amt.
  destruct (decide (allocated_status (t_status t) = true)) as [E|E];
    destruct (allocated_status (t_status t)); congruence.
Qed.

Lemma amt_sum_req_used d l :
  amt (sum_req (filter (fun c => t_status c <> Pipelined) l)) d = sum_amt (used_amt d) l.
Proof.
  rewrite amt_sum_req_filter. apply sum_amt_ext. intros c. unfold used_amt.
  destruct (decide (t_status c <> Pipelined)); case_bool_decide; first [reflexivity|tauto].
Qed.

Lemma amt_sum_req_rel d l :
  amt (sum_req (filter (fun c => t_status c = Releasing) l)) d = sum_amt (rel_amt d) l.
Proof.
  rewrite amt_sum_req_filter. apply sum_amt_ext. intros c. unfold rel_amt.
  destruct (decide (t_status c = Releasing)); case_bool_decide; first [reflexivity|tauto].
Qed.

Lemma amt_sum_req_pip d l :
  amt (sum_req (filter (fun c => t_status c = Pipelined) l)) d = sum_amt (pip_amt d) l.
Proof.
  rewrite amt_sum_req_filter. apply sum_amt_ext. intros c. unfold pip_amt.
  destruct (decide (t_status c = Pipelined)); case_bool_decide; first [reflexivity|tauto].
Qed.

(* ---------- index ---------- *)

Lemma index_okb_sound h ids ix : index_okb h ids ix = true -> index_ok h ids ix.
Proof.
  unfold index_okb. rewrite andb_true_iff, gmap_allb_spec, forallb_forall.
  intros [Hs Hk]. split.
  - intros s i. specialize (Hs s (all_statuses_complete s)). cbv beta zeta in Hs.
    unfold idx_set.
    assert (default ∅ (ix !! skey s) = gset_filterb (has_status h s) ids) as ->.
    { destruct (ix !! skey s) as [got|]; simpl.
      - apply andb_true_iff in Hs as [Hs _]. apply bool_decide_eq_true in Hs. exact Hs.
      - apply bool_decide_eq_true in Hs. symmetry. exact Hs. }
    rewrite elem_of_gset_filterb. unfold has_status. split.
    + intros [Hp Hin]. split; [exact Hin|].
      destruct (h !! i) as [t|]; [|discriminate]. exists t. split; [reflexivity|].
      apply bool_decide_eq_true in Hp. exact Hp.
    + intros [Hin (t & Ht & Hst)]. split; [|exact Hin]. rewrite Ht.
      apply bool_decide_eq_true. exact Hst.
  - intros k x Hx. specialize (Hk k x Hx). cbv beta in Hk.
    apply bool_decide_eq_true in Hk. split; [|exact Hk].
    destruct Hk as [s Hsk]. apply status_of_key_inv in Hsk. subst k.
    specialize (Hs s (all_statuses_complete s)). cbv beta zeta in Hs.
    rewrite Hx in Hs. apply andb_true_iff in Hs as [_ Hs].
    apply negb_true_iff, bool_decide_eq_false in Hs. exact Hs.
Qed.

(* ---------- sub-jobs ---------- *)

Lemma sub_okb_sound h j : sub_okb h j = true -> sub_inv h j.
Proof.
  unfold sub_okb. rewrite !andb_true_iff, !gmap_allb_spec, bool_decide_eq_true.
  intros [[Hd Hsubs] Hts].
  assert (Hsub : forall sid sj, j_subs j !! sid = Some sj ->
            (forall i, i ∈ sj_tasks sj <-> j_task_sub j !! i = Some sid) /\
            index_ok h (sj_tasks sj) (sj_index sj)).
  { intros sid sj Hsj. specialize (Hsubs sid sj Hsj). cbv beta in Hsubs.
    apply andb_true_iff in Hsubs as [He Hix]. apply bool_decide_eq_true in He.
    split; [|apply index_okb_sound; exact Hix].
    intros i. rewrite He, elem_of_gset_filterb, bool_decide_eq_true.
    split; [tauto|]. intros Hi. split; [exact Hi|].
    rewrite <- Hd. apply elem_of_dom. eauto. }
  split; [exact Hd|]. split; [|exact Hsub].
  intros i sid Hi. specialize (Hts i sid Hi). cbv beta in Hts.
  apply bool_decide_eq_true in Hts as [sj Hsj].
  exists sj. split; [exact Hsj|]. apply (Hsub sid sj Hsj). exact Hi.
Qed.

(* ---------- jobs ---------- *)

Lemma job_okb_sound_strong h j : job_okb h j = true -> job_inv h j.
Proof.
  unfold job_okb. cbv zeta. rewrite !andb_true_iff, gset_allb_spec.
  intros [[[[Ht Htot] Hal] Hix] Hsub].
  split; [|split; [|split; [|split]]].
  - intros i Hi. specialize (Ht i Hi). cbv beta in Ht.
    destruct (h !! i) as [t|]; [|discriminate].
    apply andb_true_iff in Ht as [Hj _]. apply bool_decide_eq_true in Hj. eauto.
  - apply index_okb_sound. exact Hix.
  - intros d. rewrite (res_eqvb_sound _ _ Htot d). apply amt_sum_req.
  - intros d. rewrite (res_eqvb_sound _ _ Hal d). apply amt_sum_req_alloc.
  - apply sub_okb_sound. exact Hsub.
Qed.

(* the checker also certifies that every task of the job is filed under its own id *)
Lemma job_okb_ids h j i :
  job_okb h j = true -> i ∈ j_tasks j -> exists t, h !! i = Some t /\ t_id t = i /\ t_job t = j_id j.
Proof.
  unfold job_okb. cbv zeta. rewrite !andb_true_iff, gset_allb_spec.
  intros [[[[Ht _] _] _] _] Hi. specialize (Ht i Hi). cbv beta in Ht.
  destruct (h !! i) as [t|]; [|discriminate].
  apply andb_true_iff in Ht as [Hj Hid]. apply bool_decide_eq_true in Hj, Hid. eauto.
Qed.

Lemma job_okb_sound h j : job_okb h j = true -> heap_nonneg h -> job_inv h j.
Proof. intros H _. apply job_okb_sound_strong. exact H. Qed.

(* ---------- nodes ---------- *)

Lemma node_okb_sound h n : node_okb h n = true -> heap_nonneg h -> node_inv h n.
Proof.
  unfold node_okb. cbv zeta. rewrite andb_true_iff, gmap_allb_spec.
  intros [Hc Hs] Hnn. split.
  - intros i c Hic. specialize (Hc i c Hic). cbv beta in Hc.
    apply andb_true_iff in Hc as [Hc Hh]. apply andb_true_iff in Hc as [Hid Hnode].
    apply bool_decide_eq_true in Hid, Hnode.
    destruct (h !! i) as [t|] eqn:Ht; [|discriminate].
    apply andb_true_iff in Hh as [Hr Hj]. apply bool_decide_eq_true in Hr, Hj.
    split; [exact Hid|]. split; [exact Hnode|]. split.
    + rewrite <- Hr. exact (Hnn i t Ht).
    + exists t. split; [reflexivity|]. split; [exact Hr|exact Hj].
  - intros Hn. rewrite Hn in Hs. rewrite !andb_true_iff in Hs.
    destruct Hs as [[[Hu Hr] Hp] Hi]. unfold copies.
    split; [|split; [|split]]; intros d.
    + rewrite (res_eqvb_sound _ _ Hu d). apply amt_sum_req_used.
    + rewrite (res_eqvb_sound _ _ Hr d). apply amt_sum_req_rel.
    + rewrite (res_eqvb_sound _ _ Hp d). apply amt_sum_req_pip.
    + rewrite <- (res_eqvb_sound _ _ Hi d). rewrite amt_add. reflexivity.
Qed.

(* ---------- the whole ledger ---------- *)

Theorem ledger_okb_sound (s : sess) :
  heap_nonneg (heap s) -> ledger_okb (heap s) (jobs s) (nodes s) = true -> ledger_inv s.
Proof.
  intros Hnn. unfold ledger_okb. rewrite !andb_true_iff, !gmap_allb_spec.
  intros [[Hh Hj] Hn]. split; [|split].
  - intros i t Ht. split; [|exact (Hnn i t Ht)].
    specialize (Hh i t Ht). apply bool_decide_eq_true in Hh. exact Hh.
  - intros i j Hij. specialize (Hj i j Hij). cbv beta in Hj.
    apply andb_true_iff in Hj as [Hid Hok]. apply bool_decide_eq_true in Hid.
    split; [exact Hid|]. apply job_okb_sound_strong. exact Hok.
  - intros i n Hin. specialize (Hn i n Hin). cbv beta in Hn.
    apply andb_true_iff in Hn as [Hid Hok]. apply bool_decide_eq_true in Hid.
    split; [exact Hid|]. apply node_okb_sound; [exact Hok|exact Hnn].
Qed.

(* ---------- an executable test of heap_nonneg (sound and complete) ---------- *)

Definition res_nonnegb (r : res) : bool :=
  bool_decide (0 <= cpu r) && bool_decide (0 <= mem r) &&
  gmap_allb (fun _ v => bool_decide (0 <= v)) (scm r).

Definition heap_nonnegb (h : gmap positive task) : bool :=
  gmap_allb (fun _ t => res_nonnegb (t_req t)) h.

Lemma res_nonnegb_spec r : res_nonnegb r = true <-> nonneg r.
Proof.
  unfold res_nonnegb. rewrite !andb_true_iff, !bool_decide_eq_true, gmap_allb_spec. split.
  - intros [[Hc Hm] Hk] d. destruct d as [| |k]; cbn [amt]; [exact Hc|exact Hm|].
    unfold sget. destruct (scm r !! k) as [v|] eqn:E; simpl; [|lia].
    specialize (Hk k v E). apply bool_decide_eq_true in Hk. exact Hk.
  - intros H. split; [split; [exact (H DCpu)|exact (H DMem)]|].
    intros k v E. apply bool_decide_eq_true. specialize (H (DSc k)). cbn [amt] in H.
    rewrite (sget_lookup _ _ _ E) in H. exact H.
Qed.

Lemma heap_nonnegb_spec h : heap_nonnegb h = true <-> heap_nonneg h.
Proof.
  unfold heap_nonnegb, heap_nonneg. rewrite gmap_allb_spec.
  split; intros H i t Ht; apply res_nonnegb_spec; exact (H i t Ht).
Qed.

Corollary ledger_okb_sound_b (s : sess) :
  heap_nonnegb (heap s) && ledger_okb (heap s) (jobs s) (nodes s) = true -> ledger_inv s.
Proof.
  rewrite andb_true_iff, heap_nonnegb_spec. intros [H1 H2]. apply ledger_okb_sound; assumption.
Qed.

Print Assumptions ledger_okb_sound.
