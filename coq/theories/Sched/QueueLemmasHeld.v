(* C03, part 5 (audit item W1): the handler ledger the queue vote reads COVERS the requests of
   the queue's placed pods, as an invariant of the action skeleton.

     held s q d  = sum, over the tasks of the heap whose job belongs to queue q and whose status is
                   Allocated / Pipelined / Binding / Bound / Running, of the request in dimension d
     phi s q d   = amt (share_of s q) d - held s q d          (what the ledger has in excess)

   Every function of the skeleton that works on one task p is shown to satisfy
     eff p c s s' :  nothing but p's heap entry changes, and  phi s + c * request_p <= phi s'
   with an integer balance c that is composed along the function body: a status change of p
   from Y to X contributes [Y holds] - [X holds], an allocate callback +1, a deallocate callback
   -1 (Resource.sub may subtract LESS on a nil scalar map, never more).  At the end of every
   statement operation the balance is >= 0, so  0 <= phi  is an invariant:  held <= share_of.
   With queue_cap_invariant (share_of <= limit on the requested dimensions) this gives the
   property in its own words: the requests of the queue's PLACED pods stay within the limit. *)
From stdpp Require Import gmap.
From Coq Require Import ZArith Lia.
From V Require Import Base.Res Base.ResLemmas Sched.LedgerModel Sched.StmtModel Sched.GangModel
                      Sched.CycleModel Sched.LedgerInvP Sched.LedgerLemmasSess
                      Sched.QueueLemmasBase Sched.QueueLemmasReach Sched.QueueLemmas.
Open Scope Z_scope.

(* the statuses in which a pod holds queue quota: api.AllocatedStatus plus Pipelined (the queue
   plugins add a pipelined task to `allocated` through the same AllocateFunc) *)
Definition holds (st : status) : bool :=
  match st with Allocated | Pipelined | Binding | Bound | Running => true | _ => false end.
Definition hol (st : status) : Z := if holds st then 1 else 0.

Definition hterm (f : positive -> option positive) (q : positive) (d : dim) (kv : positive * task) : Z :=
  if bool_decide (f (t_job (snd kv)) = Some q) then hol (t_status (snd kv)) * amt (t_req (snd kv)) d else 0.
Definition held (s : sess) (q : positive) (d : dim) : Z := zsum (hterm (jq s) q d) (map_to_list (heap s)).
Definition phi (s : sess) (q : positive) (d : dim) : Z := amt (share_of s q) d - held s q d.

Lemma hol_01 st : hol st = 0 \/ hol st = 1.
Proof. unfold hol. destruct (holds st); auto. Qed.

Lemma hterm_qterm s q d i t : hterm (jq s) q d (i, t) = hol (t_status t) * qterm s t q d.
Proof. unfold hterm, qterm. simpl. destruct (bool_decide _); lia. Qed.

Lemma zsum_map_insert {A} (g : positive * A -> Z) (m : gmap positive A) i x :
  zsum g (map_to_list (<[i:=x]> m)) =
  zsum g (map_to_list m) + g (i, x) - match m !! i with Some y => g (i, y) | None => 0 end.
Proof.
  destruct (m !! i) as [y|] eqn:E.
  - rewrite <- (insert_delete_insert m i x).
    rewrite (zsum_perm _ _ _ (map_to_list_insert (delete i m) i x (lookup_delete m i))).
    rewrite <- (zsum_perm _ _ _ (map_to_list_delete m i y E)). simpl. lia.
  - rewrite (zsum_perm _ _ _ (map_to_list_insert m i x E)). simpl.
    rewrite Z.sub_0_r. apply Z.add_comm.
Qed.

Lemma held_insert s s' i t t' q d :
  heap s !! i = Some t -> heap s' = <[i:=t']> (heap s) -> (forall j, jq s' j = jq s j) ->
  held s' q d = held s q d + hol (t_status t') * qterm s t' q d - hol (t_status t) * qterm s t q d.
Proof.
  intros Hl Hh Hj. unfold held. rewrite Hh.
  rewrite (zsum_ext (hterm (jq s') q d) (hterm (jq s) q d)).
  - rewrite zsum_map_insert, Hl, !hterm_qterm. reflexivity.
  - intros [k v]. unfold hterm. simpl. rewrite Hj. reflexivity.
Qed.

Lemma held_same s s' q d : heap s' = heap s -> (forall j, jq s' j = jq s j) -> held s' q d = held s q d.
Proof.
  intros Hh Hj. unfold held. rewrite Hh. apply zsum_ext. intros [k v]. unfold hterm. simpl. rewrite Hj. reflexivity.
Qed.

Lemma qterm_tsame s p p' q d : tsame p p' -> qterm s p' q d = qterm s p q d.
Proof. intros Ht. destruct (tsame_req _ _ Ht) as (Hr & Hj & _). unfold qterm. rewrite Hr, Hj. reflexivity. Qed.

Lemma qterm_nonneg s p q d : nonneg (t_req p) -> 0 <= qterm s p q d.
Proof. intros Hn. unfold qterm. destruct (bool_decide _); [apply Hn|lia]. Qed.

Lemma qterm_none s p q d : jq s (t_job p) = None -> qterm s p q d = 0.
Proof. intros H. unfold qterm. rewrite H. rewrite bool_decide_eq_false_2 by discriminate. reflexivity. Qed.

Lemma qterm_move s s' p q d : stat_eq s s' -> qterm s' p q d = qterm s p q d.
Proof. intros He. unfold qterm. rewrite (se_j _ _ He). reflexivity. Qed.

(* ---------- the effect of a function that works on task p ---------- *)

Record eff (p : task) (c : Z) (s s' : sess) : Prop := mkEff {
  ef_se : stat_eq s s';
  ef_oth : forall i, i <> t_id p -> heap s' !! i = heap s !! i;
  ef_phi : forall q d, phi s q d + c * qterm s p q d <= phi s' q d }.

Lemma eff_refl p s : eff p 0 s s.
Proof. split; [apply stat_eq_refl|auto|intros; lia]. Qed.

Lemma eff_trans p c1 c2 s s1 s2 : eff p c1 s s1 -> eff p c2 s1 s2 -> eff p (c1 + c2) s s2.
Proof.
  intros [a b c] [a' b' c']. split.
  - eapply stat_eq_trans; eassumption.
  - intros i Hi. rewrite b' by exact Hi. apply b, Hi.
  - intros q d. specialize (c q d). specialize (c' q d). rewrite (qterm_move _ _ _ _ _ a) in c'.
    rewrite Z.mul_add_distr_r. lia.
Qed.

Lemma eff_weaken p c c' s s' : nonneg (t_req p) -> c' <= c -> eff p c s s' -> eff p c' s s'.
Proof.
  intros Hn Hc [a b e]. split; [exact a|exact b|]. intros q d. specialize (e q d).
  pose proof (qterm_nonneg s p q d Hn). nia.
Qed.

Lemma eff_any p c c' s s' : jq s (t_job p) = None -> eff p c s s' -> eff p c' s s'.
Proof.
  intros Hj [a b e]. split; [exact a|exact b|]. intros q d. specialize (e q d).
  rewrite (qterm_none s p q d Hj) in *. lia.
Qed.

Lemma eff_retarget p p' c s s' : tsame p p' -> eff p' c s s' -> eff p c s s'.
Proof.
  intros Ht [a b e]. destruct Ht as [Hid Hst]. split; [exact a| |].
  - intros i Hi. apply b. congruence.
  - intros q d. rewrite <- (qterm_tsame s p p' q d (conj Hid Hst)). apply e.
Qed.

(* a step that leaves the heap, the jobs' queues and the ledger alone *)
Lemma eff_quiet p s s' : silent s s' -> heap s' = heap s -> eff p 0 s s'.
Proof.
  intros Hs Hh. split; [apply (sil_se _ _ Hs)|intros; rewrite Hh; reflexivity|].
  intros q d. unfold phi. rewrite (share_amt_silent _ _ _ _ Hs), (held_same _ _ _ _ Hh (se_j _ _ (sil_se _ _ Hs))). lia.
Qed.

(* storing an object that agrees with the stored one on request, job and status *)
Lemma eff_put p s x x0 :
  tsame p x -> heap s !! t_id x = Some x0 -> stat_of x0 = stat_of x -> t_status x0 = t_status x ->
  eff p 0 s (put_task s x) /\ heap (put_task s x) !! t_id x = Some x /\ stmts (put_task s x) = stmts s.
Proof.
  intros Ht Hl Hst Hs.
  assert (Hp : hp s x) by (unfold hp, tstat; rewrite Hl; simpl; rewrite Hst; reflexivity).
  pose proof (silent_put_task s x Hp) as Hsil.
  split; [|split; [simpl; apply lookup_insert|reflexivity]].
  apply (eff_retarget p x 0 _ _ Ht). split; [apply (sil_se _ _ Hsil)| |].
  - intros i Hi. simpl. apply lookup_insert_ne. congruence.
  - intros q d. unfold phi. rewrite (share_amt_silent _ _ _ _ Hsil).
    rewrite (held_insert s (put_task s x) (t_id x) x0 x q d Hl eq_refl (fun j => eq_refl)).
    rewrite Hs. assert (qterm s x0 q d = qterm s x q d) as ->.
    { unfold qterm. unfold stat_of in Hst. inversion Hst as [[Hr Hj Hb]]. rewrite Hr, Hj. reflexivity. }
    lia.
Qed.

(* JobInfo.UpdateTaskStatus on the stored object *)
Lemma eff_update s p st f s1 p1 :
  heap s !! t_id p = Some p -> ssn_update_status s p st = (f, s1, p1) ->
  eff p (hol (t_status p) - hol st) s s1 /\ stmts s1 = stmts s /\ heap s1 !! t_id p = Some p1 /\ tsame p p1 /\
  t_status p1 = (if f then st else t_status p) /\ (f = false -> jq s (t_job p) = None) /\
  hshare s1 = hshare s.
Proof.
  intros Hl E.
  assert (Hp : hp s p) by (unfold hp, tstat; rewrite Hl; reflexivity).
  destruct (ssn_update_status_spec _ _ _ _ _ _ Hp E) as [Hsil Hts].
  revert E. unfold ssn_update_status. destruct (jobs s !! t_job p) as [j|] eqn:Ej.
  - destruct (job_update (heap s) j p st) as [j' p'] eqn:Eu. intros H. inversion H; subst f s1 p1; clear H.
    assert (Hp' : p' = set_status p st) by (rewrite <- (job_update_task (heap s) j p st), Eu; reflexivity). subst p'.
    split; [|split; [reflexivity|split; [simpl; apply lookup_insert|split; [exact Hts|split; [reflexivity|split; [discriminate|reflexivity]]]]]].
    split; [apply (sil_se _ _ Hsil)| |].
    + intros i Hi. simpl. apply lookup_insert_ne. simpl. congruence.
    + intros q d. unfold phi. rewrite (share_amt_silent _ _ _ _ Hsil).
      rewrite (held_insert s (put_task (upd_jobs s (<[t_job p:=j']> (jobs s))) (set_status p st))
                 (t_id p) p (set_status p st) q d Hl eq_refl (se_j _ _ (sil_se _ _ Hsil))).
      change (qterm s (set_status p st) q d) with (qterm s p q d). simpl. lia.
  - intros H. inversion H; subst f s1 p1; clear H.
    split; [|split; [reflexivity|split; [exact Hl|split; [apply tsame_refl|split; [reflexivity|split; [|reflexivity]]]]]].
    + split; [apply stat_eq_refl|auto|]. intros q d. rewrite qterm_none; [lia|]. unfold jq. rewrite Ej. reflexivity.
    + intros _. unfold jq. rewrite Ej. reflexivity.
Qed.

Lemma eff_alloc s p : hp s p -> eff p 1 s (snd (h_alloc s p)).
Proof.
  intros Hp. split; [apply stat_eq_handlers|reflexivity|].
  intros q d. unfold phi. rewrite share_alloc.
  rewrite (held_same s (snd (h_alloc s p)) q d eq_refl (fun j => eq_refl)). lia.
Qed.

Lemma eff_dealloc s p : hp s p -> nonneg (t_req p) -> eff p (-1) s (h_dealloc s p).
Proof.
  intros Hp Hn. split; [apply stat_eq_handlers|reflexivity|].
  intros q d. unfold phi. destruct (share_dealloc s p q d (Hn d)) as [Hb _].
  rewrite (held_same s (h_dealloc s p) q d eq_refl (fun j => eq_refl)). lia.
Qed.

Lemma hp_of_lookup s x x0 : heap s !! t_id x = Some x0 -> stat_of x0 = stat_of x -> hp s x.
Proof. intros Hl Hst. unfold hp, tstat. rewrite Hl. simpl. rewrite Hst. reflexivity. Qed.

(* ---------- unallocate / unPipeline ---------- *)

Lemma eff_unallocate s p :
  heap s !! t_id p = Some p -> nonneg (t_req p) ->
  eff p (hol (t_status p) - 1) s (unallocate_with s p) /\ stmts (unallocate_with s p) = stmts s /\
  exists p', heap (unallocate_with s p) !! t_id p = Some p' /\ tsame p p' /\
             (t_status p' = Pending \/ jq s (t_job p) = None).
Proof.
  intros Hl Hn. unfold unallocate_with.
  destruct (ssn_update_status s p Pending) as [[f s1] p1] eqn:E1.
  destruct (eff_update _ _ _ _ _ _ Hl E1) as (He1 & Hst1 & Hl1 & Ht1 & Hs1 & Hf1 & _).
  assert (Hid1 : t_id p1 = t_id p) by apply Ht1.
  pose proof (ssn_node_remove_silent s1 p1) as Hsil2.
  assert (Hh2 : heap (ssn_node_remove s1 p1) = heap s1).
  { unfold ssn_node_remove. destruct (t_node p1); [|reflexivity]. destruct (nodes s1 !! p0); reflexivity. }
  assert (Hst2 : stmts (ssn_node_remove s1 p1) = stmts s1).
  { unfold ssn_node_remove. destruct (t_node p1); [|reflexivity]. destruct (nodes s1 !! p0); reflexivity. }
  set (s2 := ssn_node_remove s1 p1) in *.
  pose proof (eff_quiet p s1 s2 Hsil2 Hh2) as He2.
  assert (Hl2 : heap s2 !! t_id p1 = Some p1) by (rewrite Hh2, Hid1; exact Hl1).
  assert (Hn1 : nonneg (t_req p1)) by (destruct (tsame_req _ _ Ht1) as (-> & _); exact Hn).
  pose proof (eff_retarget p p1 _ _ _ Ht1 (eff_dealloc s2 p1 (hp_of_lookup _ _ _ Hl2 eq_refl) Hn1)) as He3.
  set (s3 := h_dealloc s2 p1) in *.
  assert (Ht4 : tsame p (set_node p1 None)) by (eapply tsame_trans; [exact Ht1|apply tsame_set_node]).
  destruct (eff_put p s3 (set_node p1 None) p1 Ht4 Hl2 eq_refl eq_refl) as (He4 & Hl4 & Hst4).
  split; [|split].
  - replace (hol (t_status p) - 1) with (((hol (t_status p) - hol Pending) + 0) + (-1) + 0) by (unfold hol; simpl; lia).
    eapply eff_trans; [eapply eff_trans; [eapply eff_trans; [exact He1|exact He2]|exact He3]|exact He4].
  - rewrite Hst4. change (stmts s3) with (stmts s2). rewrite Hst2. exact Hst1.
  - exists (set_node p1 None). split; [rewrite <- Hid1; exact Hl4|]. split; [exact Ht4|].
    destruct f; [left; exact Hs1|right; apply Hf1; reflexivity].
Qed.

(* ---------- Statement.Allocate / Pipeline ---------- *)

Lemma place_status_holds k : k <> KEvict -> holds (match k with KAllocate => Allocated | _ => Pipelined end) = true.
Proof. destruct k; reflexivity. Qed.

Lemma eff_place eps s sid k p nid :
  heap s !! t_id p = Some p -> nonneg (t_req p) -> k <> KEvict ->
  let r := place_with eps s sid k p nid in
  eff p 0 s (fst r) /\
  ((snd r = ROk /\
    stmts (fst r) = <[sid := default [] (stmts s !! sid) ++ [mkOp k (t_id p) Pending]]> (stmts s) /\
    exists p', heap (fst r) !! t_id p = Some p' /\ tsame p p' /\ holds (t_status p') = true) \/
   (snd r <> ROk /\ stmts (fst r) = stmts s /\
    exists p', heap (fst r) !! t_id p = Some p' /\ tsame p p' /\
               (t_status p' = Pending \/ jq s (t_job p) = None))).
Proof.
  intros Hl Hn Hk. unfold place_with.
  set (st := match k with KAllocate => Allocated | _ => Pipelined end).
  assert (Hst : holds st = true) by (apply place_status_holds, Hk).
  destruct (ssn_update_status s p st) as [[f s1] p1] eqn:E1.
  destruct (eff_update _ _ _ _ _ _ Hl E1) as (He1 & Hstm1 & Hl1 & Ht1 & Hs1 & Hf1 & _).
  assert (Hid1 : t_id p1 = t_id p) by apply Ht1.
  set (p2 := set_node p1 (Some nid)).
  assert (Ht2 : tsame p p2) by (eapply tsame_trans; [exact Ht1|apply tsame_set_node]).
  assert (Hl1' : heap s1 !! t_id p2 = Some p1) by (simpl; rewrite Hid1; exact Hl1).
  destruct (eff_put p s1 p2 p1 Ht2 Hl1' eq_refl eq_refl) as (He2 & Hl2 & Hstm2).
  set (s2 := put_task s1 p2) in *.
  (* the node step: an object p3 (same static part and status as p2) stored in s3 *)
  assert (Hnode : exists s3 p3 ok,
     match nodes s2 !! nid with
     | Some n => match node_add eps n p2 with
                 | inl (n', p') => (put_task (upd_nodes s2 (<[nid := n']> (nodes s2))) p', p', true)
                 | inr _ => (s2, p2, false)
                 end
     | None => (s2, p2, false)
     end = (s3, p3, ok) /\ eff p 0 s2 s3 /\ heap s3 !! t_id p = Some p3 /\ tsame p p3 /\
     t_status p3 = t_status p1 /\ stmts s3 = stmts s2).
  { assert (Hbase : eff p 0 s2 s2 /\ heap s2 !! t_id p = Some p2 /\ tsame p p2 /\ t_status p2 = t_status p1 /\ stmts s2 = stmts s2).
    { split; [apply eff_refl|]. split; [rewrite <- Hid1; exact Hl2|]. split; [exact Ht2|]. split; reflexivity. }
    destruct (nodes s2 !! nid) as [n|]; [|do 3 eexists; split; [reflexivity|exact Hbase]].
    destruct (node_add eps n p2) as [[n' p']|e] eqn:Ea; [|do 3 eexists; split; [reflexivity|exact Hbase]].
    apply node_add_inl in Ea. subst p'. do 3 eexists. split; [reflexivity|].
    set (s2' := upd_nodes s2 (<[nid := n']> (nodes s2))).
    pose proof (eff_quiet p s2 s2' (silent_upd_nodes s2 _) eq_refl) as Hq.
    set (p3 := set_node p2 (Some (n_id n))).
    assert (Ht3 : tsame p p3) by (eapply tsame_trans; [exact Ht2|apply tsame_set_node]).
    destruct (eff_put p s2' p3 p2 Ht3 Hl2 eq_refl eq_refl) as (He3 & Hl3 & Hstm3).
    split; [replace 0 with (0 + 0) by lia; eapply eff_trans; eassumption|].
    split; [rewrite <- Hid1; exact Hl3|]. split; [exact Ht3|]. split; [reflexivity|exact Hstm3]. }
  destruct Hnode as (s3 & p3 & ok & -> & He3 & Hl3 & Ht3 & Hs3 & Hstm3).
  assert (Hid3 : t_id p3 = t_id p) by apply Ht3.
  assert (Hl3' : heap s3 !! t_id p3 = Some p3) by (rewrite Hid3; exact Hl3).
  pose proof (eff_retarget p p3 _ _ _ Ht3 (eff_alloc s3 p3 (hp_of_lookup _ _ _ Hl3' eq_refl))) as He4.
  destruct (h_alloc s3 p3) as [he s4] eqn:E4. simpl in He4.
  assert (Hh4 : heap s4 = heap s3) by (inversion E4; reflexivity).
  assert (Hstm4 : stmts s4 = stmts s3) by (inversion E4; reflexivity).
  (* balance up to s4: (hol Y - 1) + 0 + 0 + 1 = hol Y *)
  assert (He04 : eff p (hol (t_status p)) s s4).
  { replace (hol (t_status p)) with ((((hol (t_status p) - hol st) + 0) + 0) + 1) by (unfold hol at 2; rewrite Hst; lia).
    eapply eff_trans; [eapply eff_trans; [eapply eff_trans; [exact He1|exact He2]|exact He3]|exact He4]. }
  destruct (f && ok && negb he) eqn:Eok; simpl.
  - (* recorded *)
    apply andb_prop in Eok as [Eok _]. apply andb_prop in Eok as [Ef _]. subst f.
    pose proof (eff_quiet p s4 (push_op s4 sid k (t_id p) Pending) (silent_push_op _ _ _ _ _ Hk) eq_refl) as He5.
    split; [apply (eff_weaken p (hol (t_status p) + 0) 0 _ _ Hn); [destruct (hol_01 (t_status p)); lia|eapply eff_trans; eassumption]|].
    left. split; [reflexivity|]. split.
    + simpl. rewrite Hstm4, Hstm3, Hstm2, Hstm1. reflexivity.
    + exists p3. split; [simpl; rewrite Hh4; exact Hl3|]. split; [exact Ht3|]. rewrite Hs3, Hs1. exact Hst.
  - (* rolled back *)
    assert (Hl4 : heap s4 !! t_id p3 = Some p3) by (rewrite Hh4; exact Hl3').
    assert (Hn3 : nonneg (t_req p3)) by (destruct (tsame_req _ _ Ht3) as (-> & _); exact Hn).
    destruct (eff_unallocate s4 p3 Hl4 Hn3) as (He5 & Hstm5 & p' & Hl5 & Ht5 & Hs5).
    apply (eff_retarget p p3 _ _ _ Ht3) in He5.
    split.
    + pose proof (eff_trans _ _ _ _ _ _ He04 He5) as He05. destruct f.
      * apply (eff_weaken p _ 0 _ _ Hn) in He05; [exact He05|].
        rewrite Hs3, Hs1. unfold hol at 2. rewrite Hst. destruct (hol_01 (t_status p)); lia.
      * apply (eff_any p _ 0 _ _ (Hf1 eq_refl)) in He05. exact He05.
    + right. split; [discriminate|]. split; [rewrite Hstm5, Hstm4, Hstm3, Hstm2, Hstm1; reflexivity|].
      exists p'. split; [rewrite <- Hid3; exact Hl5|]. split; [eapply tsame_trans; eassumption|].
      destruct Hs5 as [Hs5|Hs5]; [left; exact Hs5|right].
      destruct (tsame_req _ _ Ht3) as (_ & Hj & _). rewrite Hj in Hs5.
      rewrite <- (se_j _ _ (ef_se _ _ _ _ He04)). exact Hs5.
Qed.

(* ---------- the invariant ---------- *)

(* the ledger covers the placed pods *)
Definition cover (s : sess) : Prop := forall q d, 0 <= phi s q d.

Lemma cover_eff p s s' : eff p 0 s s' -> cover s -> cover s'.
Proof. intros He Hc q d. pose proof (ef_phi _ _ _ _ He q d). specialize (Hc q d). lia. Qed.

Definition op_ok (s : sess) (o : oprec) : Prop :=
  op_kind o <> KEvict /\ exists t, heap s !! op_task o = Some t /\ holds (t_status t) = true.

(* the statement of the running attempt: Allocate / Pipeline operations of distinct tasks, each
   still in the status the operation gave it *)
Definition attempt_ok (s : sess) (sid : positive) : Prop :=
  NoDup (op_task <$> default [] (stmts s !! sid)) /\ Forall (op_ok s) (default [] (stmts s !! sid)).

Definition base_ok (s : sess) : Prop := heap_ids s /\ stat_ok s.

Lemma base_ok_move s s' : stat_eq s s' -> base_ok s -> base_ok s'.
Proof. intros He [Hi Hs]. split; [apply (se_ids _ _ He Hi)|eapply stat_ok_move; eassumption]. Qed.

Lemma base_nonneg s i p : base_ok s -> heap s !! i = Some p -> t_id p = i /\ nonneg (t_req p).
Proof.
  intros [Hi Hs] Hl. split; [apply (Hi _ _ Hl)|].
  apply (proj1 (Hs i (t_req p) (t_job p) (t_best_effort p) ltac:(unfold tstat; rewrite Hl; reflexivity))).
Qed.

Lemma op_ok_other p c s s' o : eff p c s s' -> op_task o <> t_id p -> op_ok s o -> op_ok s' o.
Proof. intros He Hne [Hk (t & Ht & Hh)]. split; [exact Hk|]. exists t. rewrite (ef_oth _ _ _ _ He _ Hne). auto. Qed.

(* ---------- one placement attempt on a node ---------- *)

Lemma try_place_held eps s sid tid nid :
  base_ok s -> cover s -> attempt_ok s sid ->
  (forall p, heap s !! tid = Some p -> holds (t_status p) = false) ->
  let s' := fst (try_place eps s sid tid nid) in
  cover s' /\ attempt_ok s' sid /\ stat_eq s s' /\ (forall sid', sid' <> sid -> stmts s' !! sid' = stmts s !! sid').
Proof.
  intros Hb Hc [Hnd Hfa] Hpend.
  assert (Hsame : cover s /\ attempt_ok s sid /\ stat_eq s s /\ (forall sid', sid' <> sid -> stmts s !! sid' = stmts s !! sid'))
    by (split; [exact Hc|split; [split; assumption|split; [apply stat_eq_refl|auto]]]).
  assert (Hplace : forall k, k <> KEvict -> forall p, heap s !! tid = Some p ->
    let s' := fst (place_with eps s sid k p nid) in
    cover s' /\ attempt_ok s' sid /\ stat_eq s s' /\ (forall sid', sid' <> sid -> stmts s' !! sid' = stmts s !! sid')).
  { intros k Hk p Hl. destruct (base_nonneg _ _ _ Hb Hl) as [Hid Hn].
    assert (Hl' : heap s !! t_id p = Some p) by (rewrite Hid; exact Hl).
    destruct (eff_place eps s sid k p nid Hl' Hn Hk) as [He Hres]. cbv zeta in *.
    set (r := place_with eps s sid k p nid) in *.
    split; [eapply cover_eff; eassumption|]. split; [|split; [apply (ef_se _ _ _ _ He)|]].
    - assert (Hnotin : t_id p ∉ op_task <$> default [] (stmts s !! sid)).
      { intros Hin. apply elem_of_list_fmap in Hin as (o & Ho & Hin).
        rewrite Forall_forall in Hfa. destruct (Hfa o Hin) as [_ (t & Ht & Hh)].
        rewrite <- Ho, Hl' in Ht. inversion Ht; subst t. rewrite (Hpend p Hl) in Hh. discriminate. }
      assert (Hold : Forall (op_ok (fst r)) (default [] (stmts s !! sid))).
      { rewrite Forall_forall in *. intros o Ho. eapply op_ok_other; [exact He| |apply Hfa, Ho].
        intros Heq. apply Hnotin. rewrite <- Heq. apply elem_of_list_fmap. eauto. }
      destruct Hres as [(Hr & Hst & p' & Hl2 & Ht2 & Hh2)|(Hr & Hst & _)].
      + unfold attempt_ok. rewrite Hst, lookup_insert. simpl. split.
        * rewrite fmap_app. simpl. apply NoDup_app. split; [exact Hnd|]. split; [|apply NoDup_singleton].
          intros x Hx Hx2. apply elem_of_list_singleton in Hx2. subst x. contradiction.
        * apply Forall_app. split; [exact Hold|]. apply Forall_singleton. split; [exact Hk|]. simpl. eauto.
      + unfold attempt_ok. rewrite Hst. split; assumption.
    - intros sid' Hne. destruct Hres as [(_ & Hst & _)|(_ & Hst & _)]; rewrite Hst; [|reflexivity].
      apply lookup_insert_ne. congruence. }
  unfold try_place. destruct (heap s !! tid) as [p|] eqn:Eh; [|exact Hsame].
  destruct (nodes s !! nid) as [n|]; [|exact Hsame].
  destruct (negb _); [exact Hsame|].
  destruct (less_equal eps (t_init p) (n_idle n) DZero).
  - specialize (Hplace KAllocate ltac:(discriminate) p eq_refl).
    unfold stmt_allocate, with_task. rewrite Eh. destruct (place_with eps s sid KAllocate p nid) as [s' r]. exact Hplace.
  - destruct (less_equal eps (t_init p) (future_idle n) DZero); [|exact Hsame].
    specialize (Hplace KPipeline ltac:(discriminate) p eq_refl).
    unfold stmt_pipeline, with_task. rewrite Eh. destruct (place_with eps s sid KPipeline p nid) as [s' r]. exact Hplace.
Qed.

Lemma do_places_held eps (w : world) sid jid l : forall s,
  base_ok s -> cover s -> attempt_ok s sid ->
  let s' := fst (do_places eps w s sid jid l) in
  cover s' /\ attempt_ok s' sid /\ stat_eq s s' /\ (forall sid', sid' <> sid -> stmts s' !! sid' = stmts s !! sid').
Proof.
  induction l as [|[tid nid] l IH]; intros s Hb Hc Ha; simpl.
  - split; [exact Hc|split; [exact Ha|split; [apply stat_eq_refl|auto]]].
  - assert (Hsame : cover s /\ attempt_ok s sid /\ stat_eq s s /\ (forall sid', sid' <> sid -> stmts s !! sid' = stmts s !! sid'))
      by (split; [exact Hc|split; [exact Ha|split; [apply stat_eq_refl|auto]]]).
    destruct (heap s !! tid) as [p|] eqn:Eh; [|exact Hsame].
    destruct (negb (bool_decide (t_status p = Pending) && bool_decide (t_job p = jid))) eqn:Ec; [exact Hsame|].
    apply negb_false_iff, andb_true_iff in Ec as [Ep _]. apply bool_decide_eq_true in Ep.
    destruct (negb _); [exact Hsame|].
    assert (Hpend : forall p0, heap s !! tid = Some p0 -> holds (t_status p0) = false).
    { intros p0 H0. rewrite Eh in H0. inversion H0; subst. rewrite Ep. reflexivity. }
    destruct (try_place_held eps s sid tid nid Hb Hc Ha Hpend) as (Hc1 & Ha1 & He1 & Hst1).
    destruct (try_place eps s sid tid nid) as [s1 pl]. simpl in *.
    destruct (IH s1 (base_ok_move _ _ He1 Hb) Hc1 Ha1) as (Hc2 & Ha2 & He2 & Hst2).
    split; [exact Hc2|split; [exact Ha2|split; [eapply stat_eq_trans; eassumption|]]].
    intros sid' Hne. rewrite Hst2 by exact Hne. apply Hst1, Hne.
Qed.

(* ---------- Discard and Commit of the attempt's statement ---------- *)

Lemma fold_ops_held (f : sess -> oprec -> sess) :
  (forall s o, base_ok s -> op_ok s o ->
     exists p, op_task o = t_id p /\ eff p 0 s (f s o) /\ stmts (f s o) = stmts s) ->
  forall l s, base_ok s -> cover s -> NoDup (op_task <$> l) -> Forall (op_ok s) l ->
  cover (fold_left f l s) /\ stat_eq s (fold_left f l s) /\ stmts (fold_left f l s) = stmts s.
Proof.
  intros Hf. induction l as [|o l IH]; intros s Hb Hc Hnd Hfa; simpl.
  - split; [exact Hc|split; [apply stat_eq_refl|reflexivity]].
  - apply Forall_cons in Hfa as [Ho Hfa]. rewrite fmap_cons in Hnd. apply NoDup_cons in Hnd as [Hnin Hnd].
    destruct (Hf s o Hb Ho) as (p & Hid & He & Hst).
    assert (Hfa' : Forall (op_ok (f s o)) l).
    { rewrite Forall_forall in *. intros o' Ho'. eapply op_ok_other; [exact He| |apply Hfa, Ho'].
      intros Heq. apply Hnin. rewrite Hid, <- Heq. apply elem_of_list_fmap. eauto. }
    destruct (IH (f s o) (base_ok_move _ _ (ef_se _ _ _ _ He) Hb) (cover_eff _ _ _ He Hc) Hnd Hfa') as (Hc2 & He2 & Hst2).
    split; [exact Hc2|split; [eapply stat_eq_trans; [apply (ef_se _ _ _ _ He)|exact He2]|congruence]].
Qed.

Lemma undo_op_held eps s o : base_ok s -> op_ok s o ->
  exists p, op_task o = t_id p /\ eff p 0 s (undo_op eps s o) /\ stmts (undo_op eps s o) = stmts s.
Proof.
  intros Hb [Hk (t & Ht & Hh)]. destruct (base_nonneg _ _ _ Hb Ht) as [Hid Hn].
  exists t. split; [symmetry; exact Hid|]. unfold undo_op. rewrite Ht.
  assert (Hl : heap s !! t_id t = Some t) by (rewrite Hid; exact Ht).
  destruct (eff_unallocate s t Hl Hn) as (He & Hst & _).
  assert (He0 : eff t 0 s (unallocate_with s t)).
  { apply (eff_weaken t _ 0 _ _ Hn) in He; [exact He|]. unfold hol. rewrite Hh. lia. }
  destruct (op_kind o); [contradiction|split; assumption|split; assumption].
Qed.

Lemma commit_op_held eps s o : base_ok s -> op_ok s o ->
  exists p, op_task o = t_id p /\ eff p 0 s (commit_op eps s o) /\ stmts (commit_op eps s o) = stmts s.
Proof.
  intros Hb [Hk (t & Ht & Hh)]. destruct (base_nonneg _ _ _ Hb Ht) as [Hid Hn].
  exists t. split; [symmetry; exact Hid|]. unfold commit_op. rewrite Ht.
  assert (Hl : heap s !! t_id t = Some t) by (rewrite Hid; exact Ht).
  assert (Hun : forall s0 x, heap s0 !! t_id x = Some x -> nonneg (t_req x) -> holds (t_status x) = true ->
                eff x 0 s0 (unallocate_with s0 x) /\ stmts (unallocate_with s0 x) = stmts s0).
  { intros s0 x Hx Hnx Hhx. destruct (eff_unallocate s0 x Hx Hnx) as (He & Hst & _). split; [|exact Hst].
    apply (eff_weaken x _ 0 _ _ Hnx) in He; [exact He|]. unfold hol. rewrite Hhx. lia. }
  destruct (op_kind o); [contradiction|split; [apply eff_refl|reflexivity]|].
  case_bool_decide; [apply Hun; assumption|].
  set (s1 := upd_logs s ((t_id t, t_node t) :: binds s) (evicts s)).
  pose proof (eff_quiet t s s1 (silent_upd_logs s _ _) eq_refl) as He1.
  destruct (ssn_update_status s1 t Binding) as [[f s2] p2] eqn:E2.
  destruct (eff_update s1 t Binding f s2 p2 Hl E2) as (He2 & Hst2 & Hl2 & Ht2 & Hs2 & Hf2 & _).
  assert (He02 : eff t 0 s s2).
  { replace 0 with (0 + (hol (t_status t) - hol Binding)) by (unfold hol; rewrite Hh; simpl; lia).
    eapply eff_trans; eassumption. }
  destruct f; [split; [exact He02|exact Hst2]|].
  assert (Hl2' : heap s2 !! t_id p2 = Some p2) by (destruct Ht2 as [-> _]; exact Hl2).
  assert (Hn2 : nonneg (t_req p2)) by (destruct (tsame_req _ _ Ht2) as (-> & _); exact Hn).
  assert (Hh2 : holds (t_status p2) = true) by (rewrite Hs2; exact Hh).
  destruct (Hun s2 p2 Hl2' Hn2 Hh2) as [He3 Hst3].
  split; [|rewrite Hst3; exact Hst2].
  replace 0 with (0 + 0) by lia. eapply eff_trans; [exact He02|]. eapply eff_retarget; eassumption.
Qed.

Lemma rev_perm {A} (l : list A) : rev l ≡ₚ l.
Proof. symmetry. apply Permutation.Permutation_rev. Qed.

Lemma stmt_end_held eps s sid (commit : bool) :
  base_ok s -> cover s -> attempt_ok s sid ->
  let s' := if commit then stmt_commit eps s sid else stmt_discard eps s sid in
  cover s' /\ stat_eq s s' /\ (forall sid', sid' <> sid -> stmts s' !! sid' = stmts s !! sid').
Proof.
  intros Hb Hc [Hnd Hfa]. destruct commit; cbv zeta.
  - unfold stmt_commit.
    destruct (fold_ops_held (commit_op eps) (commit_op_held eps) _ s Hb Hc Hnd Hfa) as (Hc2 & He2 & Hst2).
    set (s2 := fold_left (commit_op eps) _ s) in *.
    pose proof (eff_quiet (mkTask 1 1 1 1 0 empty_res empty_res false false Pending None) s2 _ (silent_clear_stmt s2 sid) eq_refl) as He3.
    split; [eapply cover_eff; eassumption|]. split; [eapply stat_eq_trans; [exact He2|apply (ef_se _ _ _ _ He3)]|].
    intros sid' Hne. simpl. rewrite lookup_insert_ne by congruence. rewrite Hst2. reflexivity.
  - unfold stmt_discard.
    assert (Hnd' : NoDup (op_task <$> rev (default [] (stmts s !! sid)))) by (rewrite rev_perm; exact Hnd).
    assert (Hfa' : Forall (op_ok s) (rev (default [] (stmts s !! sid)))) by (rewrite rev_perm; exact Hfa).
    destruct (fold_ops_held (undo_op eps) (undo_op_held eps) _ s Hb Hc Hnd' Hfa') as (Hc2 & He2 & Hst2).
    set (s2 := fold_left (undo_op eps) _ s) in *.
    pose proof (eff_quiet (mkTask 1 1 1 1 0 empty_res empty_res false false Pending None) s2 _ (silent_clear_stmt s2 sid) eq_refl) as He3.
    split; [eapply cover_eff; eassumption|]. split; [eapply stat_eq_trans; [exact He2|apply (ef_se _ _ _ _ He3)]|].
    intros sid' Hne. simpl. rewrite lookup_insert_ne by congruence. rewrite Hst2. reflexivity.
Qed.

(* ---------- backfill: Session.Allocate and its dispatch ---------- *)

Lemma dispatch_held s tid :
  base_ok s -> (forall t, heap s !! tid = Some t -> holds (t_status t) = true) ->
  exists p, eff p 0 s (fst (dispatch s tid)) /\ stmts (fst (dispatch s tid)) = stmts s /\
            (forall i t, heap (fst (dispatch s tid)) !! i = Some t ->
                exists t0, heap s !! i = Some t0 /\ (holds (t_status t0) = true -> holds (t_status t) = true)).
Proof.
  intros Hb Hh. set (p0 := mkTask 1 1 1 1 0 empty_res empty_res false false Pending None).
  assert (Hsame : exists p, eff p 0 s s /\ stmts s = stmts s /\
     (forall i t, heap s !! i = Some t -> exists t0, heap s !! i = Some t0 /\ (holds (t_status t0) = true -> holds (t_status t) = true)))
    by (exists p0; split; [apply eff_refl|split; [reflexivity|eauto]]).
  unfold dispatch. destruct (heap s !! tid) as [p|] eqn:Eh; [|exact Hsame].
  case_bool_decide; [exact Hsame|].
  destruct (base_nonneg _ _ _ Hb Eh) as [Hid Hn].
  set (s1 := upd_logs s ((tid, t_node p) :: binds s) (evicts s)).
  pose proof (eff_quiet p s s1 (silent_upd_logs s _ _) eq_refl) as He1.
  assert (Hl1 : heap s1 !! t_id p = Some p) by (simpl; rewrite Hid; exact Eh).
  destruct (ssn_update_status s1 p Binding) as [[f s2] p2] eqn:E2. simpl.
  destruct (eff_update s1 p Binding f s2 p2 Hl1 E2) as (He2 & Hst2 & Hl2 & Ht2 & Hs2 & _).
  exists p. split; [|split; [exact Hst2|]].
  - replace 0 with (0 + (hol (t_status p) - hol Binding)) by (unfold hol; rewrite (Hh p eq_refl); simpl; lia).
    eapply eff_trans; eassumption.
  - intros i t Ht. destruct (stdpp.base.decide (i = t_id p)) as [->|Hne].
    + exists p. split; [rewrite Hid; exact Eh|]. intros _. rewrite Hl2 in Ht. inversion Ht; subst t.
      rewrite Hs2. destruct f; [reflexivity|apply (Hh p eq_refl)].
    + exists t. rewrite (ef_oth _ _ _ _ He2 _ Hne) in Ht. simpl in Ht. auto.
Qed.

Lemma dispatch_all_held l : forall s,
  base_ok s -> cover s -> (forall i t, i ∈ l -> heap s !! i = Some t -> holds (t_status t) = true) ->
  cover (fst (dispatch_all s l)) /\ stat_eq s (fst (dispatch_all s l)) /\ stmts (fst (dispatch_all s l)) = stmts s.
Proof.
  induction l as [|t l IH]; intros s Hb Hc Hh; simpl.
  - split; [exact Hc|split; [apply stat_eq_refl|reflexivity]].
  - destruct (dispatch_held s t Hb (fun x Hx => Hh t x ltac:(left) Hx)) as (p & He & Hst & Hmon).
    destruct (dispatch s t) as [s1 ok]. simpl in *.
    assert (R1 : cover s1 /\ stat_eq s s1 /\ stmts s1 = stmts s)
      by (split; [eapply cover_eff; eassumption|split; [apply (ef_se _ _ _ _ He)|exact Hst]]).
    destruct ok.
    2: { simpl. destruct (heap s1 !! t) as [x|] eqn:Ex; [|exact R1].
         pose proof (base_ok_move _ _ (ef_se _ _ _ _ He) Hb) as Hb1.
         destruct (base_nonneg _ _ _ Hb1 Ex) as [Hidx Hnx].
         assert (Hhx : holds (t_status x) = true).
         { destruct (Hmon t x Ex) as (x0 & Hx0 & Himp). apply Himp. eapply Hh; [left|exact Hx0]. }
         assert (Hlx : heap s1 !! t_id x = Some x) by (rewrite Hidx; exact Ex).
         destruct (eff_unallocate s1 x Hlx Hnx) as (Heu & Hstu & _).
         apply (eff_weaken x _ 0 _ _ Hnx) in Heu; [|unfold hol; rewrite Hhx; lia].
         split; [eapply cover_eff; [exact Heu|apply R1]|].
         split; [eapply stat_eq_trans; [apply R1|apply (ef_se _ _ _ _ Heu)]|].
         rewrite Hstu. apply R1. }
    destruct (IH s1 (base_ok_move _ _ (ef_se _ _ _ _ He) Hb) (proj1 R1)) as (Hc2 & He2 & Hst2).
    + intros i x Hi Hx. destruct (Hmon i x Hx) as (x0 & Hx0 & Himp). apply Himp. eapply Hh; [right; exact Hi|exact Hx0].
    + split; [exact Hc2|split; [eapply stat_eq_trans; [apply (ef_se _ _ _ _ He)|exact He2]|congruence]].
Qed.

Section Backfill.
Variable eps : Z.
Variable T : gmap positive (positive * res).

Lemma backfill_held (jr : sess -> job -> bool) s tid nid :
  good T s -> base_ok s -> cover s ->
  (forall p, heap s !! tid = Some p -> t_status p = Pending) ->
  let s' := fst (ssn_place_with eps jr s KAllocate tid nid) in
  cover s' /\ stat_eq s s' /\ stmts s' = stmts s.
Proof.
  intros Hg Hb Hc Hpend. cbv zeta.
  assert (Hsame : cover s /\ stat_eq s s /\ stmts s = stmts s) by (split; [exact Hc|split; [apply stat_eq_refl|reflexivity]]).
  unfold ssn_place_with. destruct (heap s !! tid) as [p|] eqn:Eh; [|exact Hsame].
  destruct (base_nonneg _ _ _ Hb Eh) as [Hid Hn]. specialize (Hpend p eq_refl).
  assert (Hl : heap s !! t_id p = Some p) by (rewrite Hid; exact Eh).
  pose proof (good_heap_pok T _ _ _ Hg Eh) as Hpok.
  destruct (ssn_update_status s p Allocated) as [[f s1] p1] eqn:E1.
  destruct (eff_update _ _ _ _ _ _ Hl E1) as (He1 & Hst1 & Hl1 & Ht1 & Hs1 & Hf1 & _).
  destruct (good_update T _ _ _ _ _ _ Hg Hpok E1) as (Hctx1 & _).
  destruct f; cbn [negb fst]; [|exact Hsame].
  assert (Hid1 : t_id p1 = t_id p) by apply Ht1.
  set (p2 := set_node p1 (Some nid)).
  assert (Ht2 : tsame p p2) by (eapply tsame_trans; [exact Ht1|apply tsame_set_node]).
  assert (Hl1' : heap s1 !! t_id p2 = Some p1) by (simpl; rewrite Hid1; exact Hl1).
  destruct (eff_put p s1 p2 p1 Ht2 Hl1' eq_refl eq_refl) as (He2 & Hl2 & Hst2).
  apply (ctx_put T _ _ (Some nid)) in Hctx1. fold p2 in Hctx1.
  set (s2 := put_task s1 p2) in *.
  assert (He02 : eff p (-1) s s2).
  { replace (-1) with ((hol (t_status p) - hol Allocated) + 0) by (unfold hol; rewrite Hpend; simpl; lia).
    eapply eff_trans; eassumption. }
  assert (Hstm02 : stmts s2 = stmts s) by congruence.
  (* revertPlacement *)
  assert (Hrev : let sr := (let '(_, sr, pr) := ssn_update_status s2 p2 Pending in put_task sr (set_node pr None)) in
                 cover sr /\ stat_eq s sr /\ stmts sr = stmts s).
  { cbv zeta. destruct (ssn_update_status s2 p2 Pending) as [[fr sr] pr] eqn:Er.
    assert (Hl2' : heap s2 !! t_id p2 = Some p2) by exact Hl2.
    destruct (eff_update _ _ _ _ _ _ Hl2' Er) as (He3 & Hst3 & Hl3 & Ht3 & Hs3 & _).
    apply (eff_retarget p p2 _ _ _ Ht2) in He3.
    assert (Ht4 : tsame p (set_node pr None)) by (eapply tsame_trans; [exact Ht2|eapply tsame_trans; [exact Ht3|apply tsame_set_node]]).
    assert (Hl3' : heap sr !! t_id (set_node pr None) = Some pr) by (simpl; destruct Ht3 as [-> _]; exact Hl3).
    destruct (eff_put p sr (set_node pr None) pr Ht4 Hl3' eq_refl eq_refl) as (He4 & _ & Hst4).
    assert (He : eff p 0 s (put_task sr (set_node pr None))).
    { replace 0 with ((-1 + (hol (t_status p2) - hol Pending)) + 0) by (unfold p2; simpl; rewrite Hs1; unfold hol; simpl; lia).
      eapply eff_trans; [eapply eff_trans; [exact He02|exact He3]|exact He4]. }
    split; [eapply cover_eff; eassumption|split; [apply (ef_se _ _ _ _ He)|congruence]]. }
  destruct (nodes s2 !! nid) as [n|] eqn:En; [|exact Hrev].
  destruct (node_add eps n p2) as [[n' p3]|e] eqn:Ea; [|exact Hrev].
  pose proof (ctx_node_add eps T _ _ _ _ _ _ Hctx1 En Ea) as Hctx3.
  apply node_add_inl in Ea. subst p3. set (p3 := set_node p2 (Some (n_id n))) in *.
  set (s2' := upd_nodes s2 (<[nid := n']> (nodes s2))) in *.
  pose proof (eff_quiet p s2 s2' (silent_upd_nodes s2 _) eq_refl) as Hq.
  assert (Ht3 : tsame p p3) by (eapply tsame_trans; [exact Ht2|apply tsame_set_node]).
  destruct (eff_put p s2' p3 p2 Ht3 Hl2 eq_refl eq_refl) as (He3 & Hl3 & Hst3).
  set (s3 := put_task s2' p3) in *.
  pose proof (eff_retarget p p3 _ _ _ Ht3 (eff_alloc s3 p3 (hp_of_lookup _ _ _ Hl3 eq_refl))) as He4.
  destruct (h_alloc s3 p3) as [he s4] eqn:E4.
  pose proof (ctx_h_alloc T _ _ _ _ _ Hctx3 E4) as Hctx4. simpl in He4.
  assert (Hstm4 : stmts s4 = stmts s) by (inversion E4; simpl; congruence).
  assert (He04 : eff p 0 s s4).
  { replace 0 with (((-1 + 0) + 0) + 1) by lia.
    eapply eff_trans; [eapply eff_trans; [eapply eff_trans; [exact He02|exact Hq]|exact He3]|exact He4]. }
  assert (R4 : cover s4 /\ stat_eq s s4 /\ stmts s4 = stmts s)
    by (split; [eapply cover_eff; eassumption|split; [apply (ef_se _ _ _ _ He04)|exact Hstm4]]).
  destruct (jobs s4 !! t_job p) as [j|] eqn:Ej; [|exact R4].
  destruct (jr s4 j); [|exact R4].
  (* the tasks of the job's Allocated index are Allocated: the ledger invariant at s4 *)
  assert (Hidx : forall i t, i ∈ elements (default ∅ (j_index j !! skey Allocated)) -> heap s4 !! i = Some t ->
                 holds (t_status t) = true).
  { intros i t Hi Ht. apply elem_of_elements in Hi.
    destruct Hctx4 as [(Hli & _) _]. destruct Hli as (_ & Hjobs & _).
    destruct (Hjobs _ _ Ej) as [_ (_ & [Hix _] & _)].
    apply (Hix Allocated i) in Hi as [_ (t' & Ht' & Hst')]. rewrite Ht in Ht'. inversion Ht'; subst t'.
    rewrite Hst'. reflexivity. }
  destruct (dispatch_all_held _ s4 (base_ok_move _ _ (ef_se _ _ _ _ He04) Hb) (proj1 R4) Hidx) as (Hc5 & He5 & Hst5).
  destruct (dispatch_all s4 _) as [s5 ok]. simpl in *.
  split; [exact Hc5|split; [eapply stat_eq_trans; [apply (ef_se _ _ _ _ He04)|exact He5]|congruence]].
Qed.

(* C07's standing invariant along the skeleton *)
Lemma good_try_place s sid tid nid : good T s -> good T (fst (try_place eps s sid tid nid)).
Proof.
  intros Hg. unfold try_place. destruct (heap s !! tid) as [p|] eqn:Eh; [|exact Hg].
  destruct (nodes s !! nid) as [n|]; [|exact Hg]. destruct (negb _); [exact Hg|].
  pose proof (good_heap_pok T _ _ _ Hg Eh) as Hp.
  destruct (less_equal eps (t_init p) (n_idle n) DZero).
  - unfold stmt_allocate, with_task. rewrite Eh.
    pose proof (good_place eps T s sid KAllocate p nid Hg Hp) as H. destruct (place_with _ _ _ _ _ _). exact H.
  - destruct (less_equal eps (t_init p) (future_idle n) DZero); [|exact Hg].
    unfold stmt_pipeline, with_task. rewrite Eh.
    pose proof (good_place eps T s sid KPipeline p nid Hg Hp) as H. destruct (place_with _ _ _ _ _ _). exact H.
Qed.

Lemma good_do_places (w : world) sid jid l : forall s, good T s -> good T (fst (do_places eps w s sid jid l)).
Proof.
  induction l as [|[tid nid] l IH]; intros s Hg; simpl; [exact Hg|].
  destruct (heap s !! tid) as [p|]; [|exact Hg]. destruct (negb _); [exact Hg|]. destruct (negb _); [exact Hg|].
  pose proof (good_try_place s sid tid nid Hg) as H1. destruct (try_place eps s sid tid nid) as [s1 pl]. apply IH, H1.
Qed.

Lemma good_cycle_step (w : world) o : good T (w_sess w) -> good T (w_sess (fst (CycleModel.step eps w o))).
Proof.
  intros Hg. destruct o as [jid places|tid nid]; simpl.
  - pose proof (good_do_places w (w_next_stmt w) jid places _ Hg) as H1.
    destruct (do_places eps w (w_sess w) (w_next_stmt w) jid places) as [s1 v]. simpl in *.
    destruct (CycleModel.decide s1 jid); [apply good_commit|exact H1|apply good_discard]; exact H1.
  - destruct (heap (w_sess w) !! tid) as [p|]; [|exact Hg].
    destruct (negb _); [exact Hg|]. destruct (negb _); [exact Hg|].
    pose proof (good_ssn_place eps T (fun s j => gang_job_ready (heap s) j) (w_sess w) KAllocate tid nid Hg) as H1.
    destruct (ssn_place_with _ _ _ _ _ _) as [s1 r]. exact H1.
Qed.

(* ---------- the skeleton ---------- *)

(* statements are created fresh: nothing is recorded under the ids still to be handed out *)
Definition fresh (w : world) : Prop :=
  forall sid, (w_next_stmt w <= sid)%positive -> stmts (w_sess w) !! sid = None.

Definition run_inv (w : world) : Prop :=
  good T (w_sess w) /\ base_ok (w_sess w) /\ fresh w /\ cover (w_sess w).

Theorem step_held (w : world) (o : cop) : run_inv w -> run_inv (fst (CycleModel.step eps w o)).
Proof.
  intros (Hg & Hb & Hf & Hc). split; [apply good_cycle_step, Hg|].
  destruct o as [jid places|tid nid]; simpl.
  - assert (Ha : attempt_ok (w_sess w) (w_next_stmt w)).
    { unfold attempt_ok. rewrite (Hf (w_next_stmt w)) by lia. simpl. split; [apply NoDup_nil_2|apply Forall_nil_2]. }
    destruct (do_places_held eps w (w_next_stmt w) jid places _ Hb Hc Ha) as (Hc1 & Ha1 & He1 & Hst1).
    destruct (do_places eps w (w_sess w) (w_next_stmt w) jid places) as [s1 v]. simpl in *.
    pose proof (base_ok_move _ _ He1 Hb) as Hb1.
    assert (Hfr1 : forall sid, (Pos.succ (w_next_stmt w) <= sid)%positive -> stmts s1 !! sid = None).
    { intros sid Hle. rewrite Hst1 by lia. apply Hf. lia. }
    destruct (CycleModel.decide s1 jid).
    + destruct (stmt_end_held eps s1 (w_next_stmt w) true Hb1 Hc1 Ha1) as (Hc2 & He2 & Hst2). simpl in *.
      split; [eapply base_ok_move; eassumption|]. split; [|exact Hc2].
      intros sid Hle. simpl in *. rewrite Hst2 by lia. apply Hfr1, Hle.
    + split; [exact Hb1|]. split; [exact Hfr1|exact Hc1].
    + destruct (stmt_end_held eps s1 (w_next_stmt w) false Hb1 Hc1 Ha1) as (Hc2 & He2 & Hst2). simpl in *.
      split; [eapply base_ok_move; eassumption|]. split; [|exact Hc2].
      intros sid Hle. simpl in *. rewrite Hst2 by lia. apply Hfr1, Hle.
  - destruct (heap (w_sess w) !! tid) as [p|] eqn:Eh; [|split; [exact Hb|split; [exact Hf|exact Hc]]].
    destruct (negb (bool_decide (t_status p = Pending))) eqn:Ep; [split; [exact Hb|split; [exact Hf|exact Hc]]|].
    apply negb_false_iff, bool_decide_eq_true in Ep.
    destruct (negb (t_best_effort p)); [split; [exact Hb|split; [exact Hf|exact Hc]]|].
    destruct (backfill_held (fun s j => gang_job_ready (heap s) j) (w_sess w) tid nid Hg Hb Hc) as (Hc1 & He1 & Hst1).
    { intros p0 H0. rewrite Eh in H0. inversion H0; subst. exact Ep. }
    destruct (ssn_place_with _ _ _ _ _ _) as [s1 r]. simpl in *.
    split; [eapply base_ok_move; eassumption|]. split; [|exact Hc1].
    intros sid Hle. simpl in *. rewrite Hst1. apply Hf, Hle.
Qed.

Theorem run_held (ops : list cop) : forall w, run_inv w -> run_inv (CycleModel.run eps w ops).
Proof.
  induction ops as [|o ops IH]; intros w Hw; simpl; [exact Hw|]. apply IH, step_held, Hw.
Qed.

End Backfill.

(* ---------- the property in its own words ---------- *)

(* well-formedness of the session a cycle starts from: the bookkeeping invariant of LedgerInvP.v
   (with C07's two side conditions), statements handed out fresh, and the handler ledger covering
   the pods that hold quota when the session opens (OnSessionOpen sums exactly those) *)
Definition world_ok_held (w : world) : Prop :=
  world_ok w /\ ledger_inv (w_sess w) /\ sess_wf (w_sess w) /\ saved_ok (w_sess w) /\ fresh w /\ cover (w_sess w).

Lemma world_ok_held_inv w : world_ok_held w -> run_inv (table_of (heap (w_sess w))) w.
Proof.
  intros (Hw & Hl & Hwf & Hs & Hf & Hc). split; [apply good_init; assumption|].
  split; [split; [apply world_ok_ids, Hw|apply world_ok_stat, Hw]|]. split; assumption.
Qed.

(* held <= share_of after every run *)
Theorem ledger_covers_placed eps (w : world) (ops : list cop) :
  world_ok_held w -> forall q d, held (w_sess (CycleModel.run eps w ops)) q d <= amt (share_of (w_sess (CycleModel.run eps w ops)) q) d.
Proof.
  intros Hw q d. destruct (run_held eps _ ops w (world_ok_held_inv w Hw)) as (_ & _ & _ & Hc).
  specialize (Hc q d). unfold phi in Hc. lia.
Qed.

(* MAIN (C03, allocate / backfill skeleton): after every run, for every task placed in this cycle
   for a queue with a plugin, in every dimension the task requests, the requests of the queue's
   PLACED pods (Allocated, Pipelined, Binding, Bound, Running) are within the queue's limit *)
Theorem placed_pods_within_limit eps (w : world) (ops : list cop) :
  world_ok_held w ->
  let s' := w_sess (CycleModel.run eps w ops) in
  forall evs, hlog s' = evs ++ hlog (w_sess w) ->
  forall e t q qa,
    e ∈ evs -> he_alloc e = true -> heap s' !! he_task e = Some t -> queue_of s' t = Some q ->
    w_queues w !! q = Some qa -> q_has_plugin qa = true ->
    (t_best_effort t = false -> q_open qa = true) /\
    forall d, requested (t_req t) d -> held s' q d <= amt (q_limit qa) d.
Proof.
  intros Hw s' evs Hl e t q qa Hin Ha Hh Hq HQ Hpl.
  destruct (queue_cap_invariant eps w ops (proj1 Hw) evs Hl e t q qa Hin Ha Hh Hq HQ Hpl) as [Ho Hb].
  split; [exact Ho|]. intros d Hd. specialize (Hb d Hd).
  pose proof (ledger_covers_placed eps w ops Hw q d). fold s' in H, Hb. lia.
Qed.

(* the well-formedness is kept, so the theorem applies again after any prefix / in the next cycle *)
Theorem world_ok_held_run eps (w : world) (ops : list cop) :
  world_ok_held w -> ledger_inv (w_sess (CycleModel.run eps w ops)) /\ fresh (CycleModel.run eps w ops) /\
                     cover (w_sess (CycleModel.run eps w ops)).
Proof.
  intros Hw. destruct (run_held eps _ ops w (world_ok_held_inv w Hw)) as (Hg & _ & Hf & Hc).
  split; [exact (proj1 Hg)|split; assumption].
Qed.

(* sessions without a pod in a holding status and with an empty ledger are covered *)
Lemma zsum_zero {A} (g : A -> Z) l : (forall x, x ∈ l -> g x = 0) -> zsum g l = 0.
Proof.
  induction l as [|x l IH]; intros H; simpl; [reflexivity|].
  rewrite (H x) by left. rewrite IH; [reflexivity|]. intros y Hy. apply H. right. exact Hy.
Qed.

Lemma cover_no_holding s :
  hshare s = ∅ -> (forall i t, heap s !! i = Some t -> holds (t_status t) = false) -> cover s.
Proof.
  intros He Hn q d. unfold phi. rewrite share_of_amt, He. unfold msum. rewrite map_to_list_empty. simpl.
  unfold held. rewrite zsum_zero; [lia|]. intros [i t] Hin. apply elem_of_map_to_list in Hin.
  unfold hterm. simpl. unfold hol. rewrite (Hn i t Hin). destruct (bool_decide _); lia.
Qed.
