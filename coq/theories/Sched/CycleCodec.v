(* wire format of a scheduling cycle (spec + queue limits + oracle choices) *)
From stdpp Require Import gmap.
From Coq Require Import ZArith List.
From V Require Import Base.Codec Base.Res Base.ResCodec Sched.LedgerModel Sched.StmtModel Sched.LedgerCodec
                      Sched.GangModel Sched.CycleModel.
Import ListNotations.
Open Scope Z_scope.

Record queue_spec := mkQSpec { qs_id : positive; qs_open : bool; qs_weight : Z; qs_cap_cpu : Z; qs_cap_mem : Z }.
Definition dQueueSpec : dec queue_spec :=
  let* i := dPos in let* o := dBool in let* w := dZ in let* c := dZ in let* m := dZ in ret (mkQSpec i o w c m).

(* job spec of a cycle: the C07 job spec followed by the PodGroup phase *)
Definition dCycleJob : dec job_spec := let* j := dJobSpec in let* _ := dZ in ret j.

Definition dCop : dec cop :=
  let* k := dZ in
  match k with
  | 1 => let* j := dPos in let* ps := dList (dPair dPos dPos) in ret (CAttempt j ps)
  | 2 => let* t := dPos in let* n := dPos in ret (CBackfill t n)
  | _ => fail
  end.

Record cycle_case := mkCycle {
  cc_eps : Z; cc_nodes : list node_spec; cc_queues : list queue_spec; cc_jobs : list job_spec;
  cc_tasks : list task_spec; cc_prop : bool; cc_actions : list Z;
  cc_limits : list (positive * res); cc_cops : list cop }.

Definition dCycle : dec cycle_case :=
  let* e := dZ in let* ns := dList dNodeSpec in let* qs := dList dQueueSpec in let* js := dList dCycleJob in
  let* ts := dList dTaskSpec in let* pr := dBool in let* acts := dList dZ in
  let* lim := dList (dPair dPos dRes) in let* cops := dList dCop in
  ret (mkCycle e ns qs js ts pr acts lim cops).

Definition world_of (c : cycle_case) : world :=
  let s := build (cc_eps c) (cc_nodes c) (cc_jobs c) (cc_tasks c) in
  let lim : gmap positive res := list_to_map (cc_limits c) in
  let qs : gmap positive qattr :=
    list_to_map (map (fun q => (qs_id q, mkQ (qs_open q) (default empty_res (lim !! qs_id q)) (cc_prop c))) (cc_queues c)) in
  mkWorld s qs 1%positive.

Definition eVerdict (v : verdict) : Z :=
  match v with VOk => 0 | VQueueRefuses _ => 1 | VNotPending _ => 2 | VNotBestEffort _ => 3 end.

Definition new_prefix {A} (newl oldl : list A) : list A := firstn (length newl - length oldl) newl.

Definition eCopStep (s s' : sess) (v : verdict) : list Z :=
  [-101; eVerdict v] ++
  eList (fun e : hev => [if he_alloc e then 1 else 0; Zpos (he_task e); Zpos (skey (he_status e))] ++ eNodeRef (he_node e))
        (rev (new_prefix (hlog s') (hlog s))) ++
  eList (fun b : positive * option positive => Zpos (fst b) :: eNodeRef (snd b))
        (sort_kv (new_prefix (binds s') (binds s))) ++
  eList ePos (sort_pos (new_prefix (evicts s') (evicts s))).

Fixpoint run_cops (eps : Z) (w : world) (ops : list cop) : list Z * world :=
  match ops with
  | [] => ([], w)
  | o :: r =>
    let '(w', v) := step eps w o in
    let '(out, wf) := run_cops eps w' r in
    (eCopStep (w_sess w) (w_sess w') v ++ out, wf)
  end.

(* the projected session at the end of the cycle (statements are internal to the actions) *)
Definition eFinal (s : sess) : list Z :=
  eList (fun kv => eTaskBrief (snd kv)) (sort_kv (map_to_list (heap s))) ++
  eList (fun kv => eJob (snd kv)) (sort_kv (map_to_list (jobs s))) ++
  eList (fun kv => eNode (snd kv)) (sort_kv (map_to_list (nodes s))) ++
  eList (fun kv => Zpos (fst kv) :: eRes (snd kv)) (sort_kv (map_to_list (hshare s))).

Definition run_cycle_dump (c : cycle_case) : list Z :=
  let '(out, wf) := run_cops (cc_eps c) (world_of c) (cc_cops c) in
  out ++ [-102] ++ eFinal (w_sess wf).
