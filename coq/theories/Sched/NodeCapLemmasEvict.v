(* Property C02, part 4: evictions (preempt / reclaim).

   Statement.Evict turns a Running / Bound copy into a Releasing one: Idle and Used keep their
   amounts, Releasing grows by the victim's request, hence FutureIdle grows by exactly that
   request (node_update_evict).  A Pipeline guarded by the FutureIdle test AFTER the tentative
   evictions therefore keeps the node within capacity, and reclaim's running sum
   "FutureIdle-at-the-start + sum of the evicted requests" IS the FutureIdle of that moment
   (reclaim_running_sum).  Commit without refused evictions does not touch the nodes.
   Undoing (Statement.Discard, or Commit with a REFUSED eviction) is different in kind: unevict
   lowers FutureIdle by the victim's request, which is safe only if whatever was pipelined onto
   that room has been undone first -- the stack discipline of Discard (discard_stack_safe, at the
   level of one node's ledger), and false for a refusal at Commit, where the preemptor stays
   pipelined (commit_refused_eviction_refuted). *)
From stdpp Require Import gmap.
From Coq Require Import ZArith Lia.
From V Require Import Base.Res Base.ResLemmas Sched.LedgerModel Sched.StmtModel Sched.GangModel Sched.CycleModel
                      Sched.LedgerInvP Sched.NodeCapLemmas Sched.NodeCapLemmasCycle.
Open Scope Z_scope.

(* statuses whose AddTask / RemoveTask accounting is "Idle -/+ req, Used +/- req" and nothing else *)
Definition plain (st : status) : Prop := st <> Pipelined /\ st <> Releasing /\ st <> Binding.
Definition plain_b (st : status) : bool :=
  match st with Pipelined | Releasing | Binding => false | _ => true end.
Lemma plain_b_spec st : plain_b st = true <-> plain st.
Proof. unfold plain. destruct st; simpl; split; intros H; try discriminate; try reflexivity; try tauto; repeat split; discriminate. Qed.

(* a node files its copies under their id, with its own name *)
Definition node_keyed (i : positive) (n : node) : Prop :=
  n_id n = i /\ forall j c, n_tasks n !! j = Some c -> t_id c = j /\ t_node c = Some i.
Definition nodes_keyed (ns : gmap positive node) : Prop := forall i n, ns !! i = Some n -> node_keyed i n.

(* the Pipelined ledger has a scalar map as soon as a pipelined copy has scalars (Add creates it,
   nothing ever removes it): what makes "Pipelined.Sub(req)" exact when the copy leaves *)
Definition pip_covered (n : node) : Prop :=
  forall j c, n_tasks n !! j = Some c -> t_status c = Pipelined ->
    sc (n_pipelined n) <> None \/ scm (t_req c) = ∅.

Lemma amt_scm_empty r k : scm r = ∅ -> sget r k = 0.
Proof. intros H. unfold sget. rewrite H, lookup_empty. reflexivity. Qed.

Lemma amt_sub_covered x r d : (sc x <> None \/ scm r = ∅) -> amt (sub x r) d = amt x d - amt r d.
Proof.
  intros [H|H]; [apply amt_sub_exact; exact H|].
  destruct (sc x) as [m|] eqn:Hm; [apply amt_sub_exact; congruence|].
  destruct d as [| |k]; simpl; try reflexivity.
  rewrite (sget_nil (sub x r)) by (apply sub_nil_drops_scalars; exact Hm).
  rewrite (sget_nil x) by exact Hm. rewrite (amt_scm_empty r k H). reflexivity.
Qed.

Lemma amt_add_sub x r d : amt (sub (add x r) r) d = amt x d.
Proof.
  destruct (add_sub_pointwise x r) as (Hc & Hm & Hs). destruct d; simpl; [exact Hc|exact Hm|apply Hs].
Qed.

Section Evict.
Variable eps : Z.
Hypothesis eps_pos : 0 < eps.

(* ---------- one node: UpdateTask of a held copy ---------- *)

Lemma node_remove_plain n tid c :
  n_tasks n !! tid = Some c -> plain (t_status c) -> n_has_node n = true ->
  node_remove n tid = node_with n (add (n_idle n) (t_req c)) (sub (n_used n) (t_req c)) (n_releasing n) (n_pipelined n)
                                (delete tid (n_tasks n)).
Proof.
  intros Hl (H1 & H2 & _) Hh. unfold node_remove. rewrite Hl, Hh. simpl. destruct (t_status c); try reflexivity; congruence.
Qed.

Lemma node_add_ok_cond n t :
  (t_node t = None \/ t_node t = Some (n_id n)) -> n_tasks n !! t_id t = None ->
  t_status t <> Binding ->
  exists n', node_add eps n t = inl (n', set_node t (Some (n_id n))).
Proof.
  intros Hn Hl Hb. unfold node_add.
  rewrite bool_decide_eq_false_2 by (intros [H1 H2]; destruct Hn; congruence).
  rewrite bool_decide_eq_false_2 by (rewrite Hl; intros [? ?]; discriminate).
  destruct (n_has_node n); simpl; [|eauto]. destruct (t_status t); try congruence; eauto.
Qed.

(* ledger amounts of a node, for statements about "nothing else changed" *)
Definition same_amounts (x y : res) : Prop := forall d, amt x d = amt y d.

(* Statement.Evict on the node: the copy (plain status) is re-filed as [p] (same request) *)
Theorem node_update_evict n p c n' p' :
  sc (n_idle n) <> None ->
  n_tasks n !! t_id p = Some c -> t_req c = t_req p -> plain (t_status c) ->
  t_status p = Releasing \/ plain (t_status p) ->
  node_update eps n p = inl (n', p') ->
  sc (n_idle n') <> None /\ same_amounts (n_idle n') (n_idle n) /\ same_amounts (n_pipelined n') (n_pipelined n) /\
  (forall d, amt (n_releasing n') d = amt (n_releasing n) d + (if n_has_node n && bool_decide (t_status p = Releasing) then amt (t_req p) d else 0)) /\
  n_tasks n' = <[t_id p := set_node p (Some (n_id n))]> (n_tasks n) /\
  (sc (n_pipelined n) <> None -> sc (n_pipelined n') <> None).
Proof.
  intros Hs Hl Hr Hc Hp. unfold node_update.
  destruct (n_has_node n) eqn:Hh.
  - rewrite (node_remove_plain n (t_id p) c Hl Hc Hh). rewrite Hr.
    intros Ha. pose proof (node_add_tasks eps _ _ _ _ Ha) as Ht. simpl in Ht.
    rewrite insert_delete_insert in Ht.
    unfold node_add in Ha. simpl in Ha.
    destruct (bool_decide _) in Ha; [discriminate|]. destruct (bool_decide _) in Ha; [discriminate|].
    rewrite Hh in Ha. simpl in Ha.
    assert (Hex : forall d, amt (sub (add (n_idle n) (t_req p)) (t_req p)) d = amt (n_idle n) d) by (intros d; apply amt_add_sub).
    assert (Hsc : sc (sub (add (n_idle n) (t_req p)) (t_req p)) <> None) by (apply sc_sub_some, sc_add_some; exact Hs).
    destruct Hp as [Hrel|(P1 & P2 & P3)].
    + rewrite Hrel in Ha. inversion Ha; subst; clear Ha. simpl.
      repeat split; try assumption; try (intros d; reflexivity); [|auto].
      intros d. rewrite amt_add. rewrite Hrel. simpl. lia.
    + destruct (t_status p) eqn:Est; try congruence; inversion Ha; subst; clear Ha; simpl;
        (repeat split; try assumption; try (intros d; reflexivity); [|auto]); intros d; simpl; lia.
  - (* a node without a Node object keeps no ledger *)
    unfold node_remove. rewrite Hl, Hh. simpl. intros Ha.
    pose proof (node_add_tasks eps _ _ _ _ Ha) as Ht. simpl in Ht. rewrite insert_delete_insert in Ht.
    unfold node_add in Ha. simpl in Ha.
    destruct (bool_decide _) in Ha; [discriminate|]. destruct (bool_decide _) in Ha; [discriminate|].
    rewrite Hh in Ha. simpl in Ha. inversion Ha; subst; clear Ha. simpl.
    repeat split; try assumption; try (intros d; reflexivity); [|auto].
    intros d. simpl. lia.
Qed.


(* unevict on the node: a Releasing copy is re-filed with a plain status (Running / Bound) *)
Theorem node_update_unevict n p c n' p' :
  sc (n_idle n) <> None -> n_has_node n = true ->
  n_tasks n !! t_id p = Some c -> t_req c = t_req p -> t_status c = Releasing -> plain (t_status p) ->
  nonneg (t_req p) ->
  node_update eps n p = inl (n', p') ->
  sc (n_idle n') <> None /\ same_amounts (n_idle n') (n_idle n) /\ same_amounts (n_pipelined n') (n_pipelined n) /\
  (forall d, amt (n_releasing n) d - amt (t_req p) d <= amt (n_releasing n') d <= amt (n_releasing n) d) /\
  n_tasks n' = <[t_id p := set_node p (Some (n_id n))]> (n_tasks n) /\
  (sc (n_pipelined n) <> None -> sc (n_pipelined n') <> None) /\ n_has_node n' = true /\ n_id n' = n_id n.
Proof.
  intros Hs Hh Hl Hr Hc (P1 & P2 & P3) Hnn. unfold node_update, node_remove. rewrite Hl, Hh, Hc, Hr. simpl.
  intros Ha. pose proof (node_add_tasks eps _ _ _ _ Ha) as Ht. simpl in Ht. rewrite insert_delete_insert in Ht.
  unfold node_add in Ha. simpl in Ha.
  destruct (bool_decide _) in Ha; [discriminate|]. destruct (bool_decide _) in Ha; [discriminate|].
  rewrite Hh in Ha. simpl in Ha.
  assert (Hex : forall d, amt (sub (add (n_idle n) (t_req p)) (t_req p)) d = amt (n_idle n) d) by (intros d; apply amt_add_sub).
  assert (Hsc : sc (sub (add (n_idle n) (t_req p)) (t_req p)) <> None) by (apply sc_sub_some, sc_add_some; exact Hs).
  destruct (t_status p) eqn:Est; try congruence; inversion Ha; subst; clear Ha; simpl;
    (repeat split; try assumption; try (intros d; reflexivity); try (intros d; apply amt_sub_lower, Hnn);
     try (intros d; apply amt_sub_upper, Hnn); auto).
  all: try (apply amt_sub_lower, Hnn); try (apply amt_sub_upper, Hnn).
Qed.

(* unpipeline on the node *)
Theorem node_remove_pipelined n tid c :
  n_has_node n = true -> n_tasks n !! tid = Some c -> t_status c = Pipelined ->
  (sc (n_pipelined n) <> None \/ scm (t_req c) = ∅) ->
  let n' := node_remove n tid in
  n_idle n' = n_idle n /\ n_releasing n' = n_releasing n /\
  (forall d, amt (n_pipelined n') d = amt (n_pipelined n) d - amt (t_req c) d) /\
  n_tasks n' = delete tid (n_tasks n) /\ (sc (n_pipelined n) <> None -> sc (n_pipelined n') <> None) /\
  n_has_node n' = true /\ n_id n' = n_id n.
Proof.
  intros Hh Hl Hst Hcov. unfold node_remove. rewrite Hl, Hh, Hst. simpl.
  repeat split; auto; [intros d; apply amt_sub_covered; exact Hcov|apply sc_sub_some].
Qed.


(* ---------- one node's ledger under tentative evictions / pipelines and their undo ---------- *)

(* Statement.Evict as the node sees it (preempt / reclaim only evict Running or Bound copies) *)
Definition nevict (n : node) (tid : positive) : node :=
  match n_tasks n !! tid with
  | Some c => if plain_b (t_status c) then
                match node_update eps n (set_status c Releasing) with inl (n', _) => n' | inr _ => node_remove n tid end
              else n
  | None => n
  end.

(* Statement.Pipeline behind the FutureIdle test (preemptorFitsOnNode; reclaim: reclaim_running_sum) *)
Definition npipeline (n : node) (t : task) : node * bool :=
  if less_equal eps (t_init t) (future_idle n) DZero then
    match node_add eps n (set_status t Pipelined) with inl (n', _) => (n', true) | inr _ => (n, false) end
  else (n, false).

Inductive nent := NE (tid : positive) (prev : status) | NP (tid : positive).
Definition etid (e : nent) : positive := match e with NE t _ => t | NP t => t end.

(* unevict / unpipeline *)
Definition nundo (n : node) (e : nent) : node :=
  match e with
  | NE tid prev =>
    match n_tasks n !! tid with
    | Some c => match node_update eps n (set_status c (restore_status prev)) with
                | inl (n', _) => n' | inr _ => node_remove n tid end
    | None => n
    end
  | NP tid => node_remove n tid
  end.

(* what undoing an entry gives back to / takes from FutureIdle *)
Definition ereq (n : node) (e : nent) (d : dim) : Z :=
  match n_tasks n !! etid e with
  | Some c => match e with NE _ _ => - amt (t_req c) d | NP _ => amt (t_req c) d end
  | None => 0
  end.
Definition pot (n : node) (l : list nent) (d : dim) : Z := fut_amt n d + foldr (fun e acc => ereq n e d + acc) 0 l.

Record nbase (n : node) : Prop := {
  nb_has : n_has_node n = true; nb_safe : node_safe eps n; nb_cov : pip_covered n; nb_key : node_keyed (n_id n) n }.

Definition ent_ok (n : node) (e : nent) : Prop :=
  exists c, n_tasks n !! etid e = Some c /\
            t_status c = match e with NE _ _ => Releasing | NP _ => Pipelined end.

(* the stack of tentative operations (newest first): undoing any number of them, newest first,
   leaves FutureIdle above -eps *)
Definition stackP (n : node) (st : list nent) : Prop :=
  nbase n /\ NoDup (map etid st) /\ Forall (ent_ok n) st /\
  forall k d, guarded_dim d -> - eps < pot n (take k st) d.

Lemma restore_plain prev : plain (restore_status prev).
Proof. unfold plain. destruct prev; simpl; repeat split; discriminate. Qed.

Lemma node_remove_id n tid : n_id (node_remove n tid) = n_id n.
Proof.
  unfold node_remove. destruct (n_tasks n !! tid) as [c|]; [|reflexivity].
  destruct (n_has_node n); simpl; [|reflexivity]. destruct (t_status c); reflexivity.
Qed.

Lemma node_update_succeeds n p c :
  node_keyed (n_id n) n -> n_tasks n !! t_id p = Some c -> t_node p = Some (n_id n) -> t_status p <> Binding ->
  exists n' p', node_update eps n p = inl (n', p').
Proof.
  intros Hk Hl Hn Hb. unfold node_update.
  destruct (node_add_ok_cond (node_remove n (t_id p)) p) as [n' Hn'].
  - right. rewrite node_remove_id. exact Hn.
  - rewrite node_remove_tasks. apply lookup_delete.
  - exact Hb.
  - eauto.
Qed.

Lemma foldr_ereq_frame n n' l d :
  (forall e, e ∈ l -> n_tasks n' !! etid e = n_tasks n !! etid e) ->
  foldr (fun e acc => ereq n' e d + acc) 0 l = foldr (fun e acc => ereq n e d + acc) 0 l.
Proof.
  induction l as [|e l IH]; intros H; [reflexivity|]. simpl. rewrite IH by (intros e' He'; apply H; right; exact He').
  unfold ereq. rewrite (H e) by left. reflexivity.
Qed.

Lemma take_subset {A} (l : list A) k x : x ∈ take k l -> x ∈ l.
Proof. intros H. apply elem_of_list_lookup in H as [i Hi]. apply lookup_take_Some in Hi as [Hi _]. eapply elem_of_list_lookup_2; exact Hi. Qed.

Lemma nwc_of n : sc (n_idle n) <> None ->
  (forall d, guarded_dim d -> - eps < amt (n_idle n) d) -> (forall d, guarded_dim d -> - eps < fut_amt n d) ->
  node_within_capacity eps n.
Proof. intros H1 H2 H3. apply nwc_intro; [exact H1|]. intros d Hd. split; [apply H2|apply H3]; exact Hd. Qed.

(* one undo step keeps the stack invariant, in particular the node stays within capacity *)
Theorem stack_undo n e st : stackP n (e :: st) -> stackP (nundo n e) st.
Proof.
  intros ([Hh [Hc Hnn] Hcov [Hid Hkey]] & Hnd & Hent & Hpot).
  inversion Hnd as [|? ? Hnotin Hnd']; subst. inversion Hent as [|? ? He Hent']; subst.
  destruct He as (c & Hl & Hst). pose proof Hc as [Hsi _].
  destruct (Hkey _ _ Hl) as [Hcid Hcnode].
  assert (Hothers : forall e', e' ∈ st -> etid e' <> etid e).
  { intros e' He' Heq. apply Hnotin. rewrite <- Heq. apply elem_of_list_fmap. eauto. }
  destruct e as [tid prev|tid]; simpl in *.
  - (* unevict *)
    rewrite Hl. set (p := set_status c (restore_status prev)).
    destruct (node_update_succeeds n p c) as (n' & p' & Hu); [split; assumption|simpl; rewrite Hcid; exact Hl|exact Hcnode| |].
    { simpl. destruct prev; discriminate. }
    rewrite Hu.
    destruct (node_update_unevict n p c n' p' Hsi Hh) as (S1 & S2 & S3 & S4 & S5 & S6 & S7 & S8);
      [simpl; rewrite Hcid; exact Hl|reflexivity|exact Hst|apply restore_plain|apply (Hnn _ _ Hl)|exact Hu|].
    simpl in S5. rewrite Hcid in S5.
    assert (Hfut : forall d, fut_amt n d - amt (t_req c) d <= fut_amt n' d).
    { intros d. unfold fut_amt. rewrite (S2 d), (S3 d). destruct (S4 d) as [S4a _]. simpl in S4a. lia. }
    assert (Hframe : forall l, (forall e', e' ∈ l -> e' ∈ st) ->
              forall d, foldr (fun e acc => ereq n' e d + acc) 0 l = foldr (fun e acc => ereq n e d + acc) 0 l).
    { intros l Hsub d. apply foldr_ereq_frame. intros e' He'. rewrite S5. apply lookup_insert_ne.
      intros Heq. apply (Hothers e' (Hsub _ He')). symmetry. exact Heq. }
    assert (Hpot' : forall k d, guarded_dim d -> - eps < pot n' (take k st) d).
    { intros k d Hd. specialize (Hpot (S k) d Hd). simpl in Hpot. unfold pot in *. simpl in Hpot.
      unfold ereq in Hpot at 1. simpl in Hpot. rewrite Hl in Hpot.
      rewrite (Hframe (take k st)) by (intros e'; apply take_subset). specialize (Hfut d). lia. }
    split; [|split; [exact Hnd'|split; [|exact Hpot']]].
    + constructor; [exact S7| | |].
      * split.
        -- apply nwc_of; [exact S1| |].
           ++ intros d Hd. rewrite (S2 d). apply (nwc_elim eps n d Hc Hd).
           ++ intros d Hd. specialize (Hpot' 0%nat d Hd). unfold pot in Hpot'. simpl in Hpot'. lia.
        -- intros j c'. rewrite S5. intros Hl'. apply lookup_insert_Some in Hl' as [[_ <-]|[_ Hl']]; [apply (Hnn _ _ Hl)|apply (Hnn _ _ Hl')].
      * intros j c'. rewrite S5. intros Hl' Hst'. apply lookup_insert_Some in Hl' as [[_ <-]|[_ Hl']].
        -- simpl in Hst'. destruct prev; discriminate.
        -- destruct (Hcov _ _ Hl' Hst') as [H|H]; [left; apply S6; exact H|right; exact H].
      * unfold node_keyed. rewrite S8. split; [reflexivity|]. intros j c'. rewrite S5. intros Hl'.
        apply lookup_insert_Some in Hl' as [[<- <-]|[_ Hl']]; [simpl; split; [exact Hcid|reflexivity]|].
        destruct (Hkey _ _ Hl') as [K1 K2]. split; [exact K1|exact K2].
    + apply Forall_forall. intros e' He'. rewrite Forall_forall in Hent'. destruct (Hent' e' He') as (c' & Hl' & Hst').
      exists c'. split; [|exact Hst']. rewrite S5, lookup_insert_ne; [exact Hl'|]. intros Heq. apply (Hothers e' He'). symmetry. exact Heq.
  - (* unpipeline *)
    destruct (node_remove_pipelined n tid c Hh Hl Hst (Hcov _ _ Hl Hst)) as (R1 & R2 & R3 & R4 & R5 & R6 & R7).
    set (n' := node_remove n tid) in *.
    assert (Hfut : forall d, fut_amt n' d = fut_amt n d + amt (t_req c) d).
    { intros d. unfold fut_amt. rewrite R1, R2, (R3 d). lia. }
    assert (Hpot' : forall k d, guarded_dim d -> - eps < pot n' (take k st) d).
    { intros k d Hd. specialize (Hpot (S k) d Hd). simpl in Hpot. unfold pot in *. simpl in Hpot.
      unfold ereq in Hpot at 1. simpl in Hpot. rewrite Hl in Hpot.
      rewrite (foldr_ereq_frame n n' (take k st)).
      - rewrite (Hfut d). lia.
      - intros e' He'. rewrite R4. apply lookup_delete_ne. intros Heq. apply (Hothers e' (take_subset _ _ _ He')). symmetry. exact Heq. }
    split; [|split; [exact Hnd'|split; [|exact Hpot']]].
    + constructor; [exact R6| | |].
      * split.
        -- apply nwc_of; [rewrite R1; exact Hsi| |].
           ++ intros d Hd. rewrite R1. apply (nwc_elim eps n d Hc Hd).
           ++ intros d Hd. specialize (Hpot' 0%nat d Hd). unfold pot in Hpot'. simpl in Hpot'. lia.
        -- intros j c'. rewrite R4. intros Hl'. apply lookup_delete_Some in Hl' as [_ Hl']. apply (Hnn _ _ Hl').
      * intros j c'. rewrite R4. intros Hl' Hst'. apply lookup_delete_Some in Hl' as [_ Hl'].
        destruct (Hcov _ _ Hl' Hst') as [H|H]; [left; apply R5; exact H|right; exact H].
      * unfold node_keyed. rewrite R7. split; [reflexivity|]. intros j c'. rewrite R4. intros Hl'. apply lookup_delete_Some in Hl' as [_ Hl'].
        destruct (Hkey _ _ Hl') as [K1 K2]. split; [exact K1|exact K2].
    + apply Forall_forall. intros e' He'. rewrite Forall_forall in Hent'. destruct (Hent' e' He') as (c' & Hl' & Hst').
      exists c'. split; [|exact Hst']. rewrite R4, lookup_delete_ne; [exact Hl'|]. intros Heq. apply (Hothers e' He'). symmetry. exact Heq.
Qed.

Lemma stackP_safe n st : stackP n st -> node_safe eps n.
Proof. intros (Hb & _). apply Hb. Qed.

(* Statement.Discard: the entries are undone newest first; the node is within capacity after
   every single undo *)
Theorem discard_stack_safe st : forall n k,
  stackP n st -> node_safe eps (fold_left nundo (take k st) n).
Proof.
  induction st as [|e st IH]; intros n k H.
  - rewrite take_nil. apply (stackP_safe n []). exact H.
  - destruct k as [|k]; [apply (stackP_safe _ _ H)|]. simpl. apply IH. apply stack_undo. exact H.
Qed.


(* a tentative eviction pushes an entry; FutureIdle grows by exactly the victim's request *)
Theorem stack_evict n st tid c :
  stackP n st -> n_tasks n !! tid = Some c -> plain (t_status c) ->
  stackP (nevict n tid) (NE tid (t_status c) :: st) /\
  same_amounts (n_idle (nevict n tid)) (n_idle n) /\
  forall d, fut_amt (nevict n tid) d = fut_amt n d + amt (t_req c) d.
Proof.
  intros ([Hh [Hc Hnn] Hcov [Hid Hkey]] & Hnd & Hent & Hpot) Hl Hpl. pose proof Hc as [Hsi _].
  destruct (Hkey _ _ Hl) as [Hcid Hcnode].
  assert (Hothers : forall e', e' ∈ st -> etid e' <> tid).
  { intros e' He' Heq. rewrite Forall_forall in Hent. destruct (Hent e' He') as (c' & Hl' & Hst').
    rewrite Heq, Hl in Hl'. inversion Hl'; subst c'. destruct Hpl as (P1 & P2 & _). destruct e'; congruence. }
  unfold nevict. rewrite Hl. rewrite (proj2 (plain_b_spec _) Hpl).
  set (p := set_status c Releasing).
  destruct (node_update_succeeds n p c) as (n' & p' & Hu); [split; assumption|simpl; rewrite Hcid; exact Hl|exact Hcnode|simpl; discriminate|].
  rewrite Hu.
  destruct (node_update_evict n p c n' p' Hsi) as (S1 & S2 & S3 & S4 & S5 & S6);
    [simpl; rewrite Hcid; exact Hl|reflexivity|exact Hpl|left; reflexivity|exact Hu|].
  simpl in S5. rewrite Hcid in S5. rewrite Hh in S4. simpl in S4.
  assert (Hfut : forall d, fut_amt n' d = fut_amt n d + amt (t_req c) d).
  { intros d. unfold fut_amt. rewrite (S2 d), (S3 d), (S4 d). lia. }
  assert (Hid' : n_has_node n' = true /\ n_id n' = n_id n).
  { revert Hu. unfold node_update. intros Hu. pose proof (node_add_ret eps _ _ _ _ Hu) as _.
    unfold node_add in Hu. destruct (bool_decide _) in Hu; [discriminate|]. destruct (bool_decide _) in Hu; [discriminate|].
    assert (Hr : n_has_node (node_remove n (t_id p)) = true /\ n_id (node_remove n (t_id p)) = n_id n).
    { rewrite node_remove_id. split; [|reflexivity]. unfold node_remove. destruct (n_tasks n !! t_id p) as [c0|]; [|exact Hh].
      rewrite Hh. simpl. destruct (t_status c0); exact Hh. }
    destruct Hr as [Hr1 Hr2]. rewrite Hr1 in Hu. simpl in Hu. inversion Hu; subst. simpl. split; assumption. }
  destruct Hid' as [Hh' Hidn].
  split; [|split; [exact S2|exact Hfut]].
  split; [|split; [|split]].
  - constructor; [exact Hh'| | |].
    + split.
      * apply nwc_of; [exact S1| |].
        -- intros d Hd. rewrite (S2 d). apply (nwc_elim eps n d Hc Hd).
        -- intros d Hd. rewrite (Hfut d). destruct (nwc_elim eps n d Hc Hd) as [_ H]. pose proof (Hnn _ _ Hl d). lia.
      * intros j c'. rewrite S5. intros Hl'. apply lookup_insert_Some in Hl' as [[_ <-]|[_ Hl']]; [apply (Hnn _ _ Hl)|apply (Hnn _ _ Hl')].
    + intros j c'. rewrite S5. intros Hl' Hst'. apply lookup_insert_Some in Hl' as [[_ <-]|[_ Hl']]; [simpl in Hst'; discriminate|].
      destruct (Hcov _ _ Hl' Hst') as [H|H]; [left; apply S6; exact H|right; exact H].
    + unfold node_keyed. rewrite Hidn. split; [reflexivity|]. intros j c'. rewrite S5. intros Hl'.
      apply lookup_insert_Some in Hl' as [[<- <-]|[_ Hl']]; [simpl; split; [exact Hcid|reflexivity]|apply (Hkey _ _ Hl')].
  - simpl. constructor; [|exact Hnd]. intros Hin. apply elem_of_list_fmap in Hin as (e' & Heq & He'). apply (Hothers e' He'). symmetry. exact Heq.
  - constructor.
    + exists (set_node p (Some (n_id n))). simpl. rewrite S5, lookup_insert. split; reflexivity.
    + apply Forall_forall. intros e' He'. rewrite Forall_forall in Hent. destruct (Hent e' He') as (c' & Hl' & Hst').
      exists c'. split; [|exact Hst']. rewrite S5, lookup_insert_ne; [exact Hl'|]. intros Heq. apply (Hothers e' He'). symmetry. exact Heq.
  - intros k d Hd. destruct k as [|k]; simpl.
    + unfold pot. simpl. rewrite (Hfut d). destruct (nwc_elim eps n d Hc Hd) as [_ H]. pose proof (Hnn _ _ Hl d). lia.
    + specialize (Hpot k d Hd). unfold pot in *. simpl. unfold ereq at 1. simpl. rewrite S5, lookup_insert. simpl.
      rewrite (foldr_ereq_frame n n' (take k st)).
      * rewrite (Hfut d). lia.
      * intros e' He'. rewrite S5. apply lookup_insert_ne. intros Heq. apply (Hothers e' (take_subset _ _ _ He')). symmetry. exact Heq.
Qed.

(* a pipeline behind the FutureIdle test, after whatever tentative evictions *)
Theorem stack_pipeline n st t :
  stackP n st -> nonneg (t_req t) -> (forall d, amt (t_req t) d <= amt (t_init t) d) ->
  stackP (fst (npipeline n t)) (if snd (npipeline n t) then NP (t_id t) :: st else st).
Proof.
  intros H Hnn_t Hdom. pose proof H as ([Hh [Hc Hnn] Hcov [Hid Hkey]] & Hnd & Hent & Hpot). pose proof Hc as [Hsi _].
  unfold npipeline. destruct (less_equal eps (t_init t) (future_idle n) DZero) eqn:Hle; [|exact H].
  destruct (node_add eps n (set_status t Pipelined)) as [[n' p']|e] eqn:Ha; [|exact H]. simpl.
  assert (Hfit : fits eps (t_req t) (fut_amt n)).
  { apply fits_future; [exact Hc|]. apply (less_equal_fits eps eps_pos (t_init t)); [exact Hle|exact Hdom|]. apply fut_above. exact Hc. }
  pose proof (node_add_tasks eps _ _ _ _ Ha) as Ht. simpl in Ht.
  assert (Hfresh : n_tasks n !! t_id t = None).
  { revert Ha. unfold node_add. simpl. destruct (bool_decide _); [discriminate|]. case_bool_decide as Hn; [discriminate|].
    intros _. destruct (n_tasks n !! t_id t); [exfalso; apply Hn; eauto|reflexivity]. }
  assert (Heff : n_idle n' = n_idle n /\ n_releasing n' = n_releasing n /\ n_pipelined n' = add (n_pipelined n) (t_req t) /\
                 n_has_node n' = true /\ n_id n' = n_id n).
  { revert Ha. unfold node_add. simpl. destruct (bool_decide _); [discriminate|]. destruct (bool_decide _); [discriminate|].
    rewrite Hh. simpl. intros Hq; inversion Hq; subst. simpl. auto. }
  destruct Heff as (E1 & E2 & E3 & E4 & E5).
  assert (Hfut : forall d, fut_amt n' d = fut_amt n d - amt (t_req t) d).
  { intros d. unfold fut_amt. rewrite E1, E2, E3, amt_add. lia. }
  assert (Hothers : forall e', e' ∈ st -> etid e' <> t_id t).
  { intros e' He' Heq. rewrite Forall_forall in Hent. destruct (Hent e' He') as (c' & Hl' & _). rewrite Heq, Hfresh in Hl'. discriminate. }
  assert (Hdiffnode : t_node t = None \/ t_node t = Some (n_id n)).
  { revert Ha. unfold node_add. simpl. case_bool_decide as Hn; [discriminate|]. intros _.
    destruct (t_node t) as [x|]; [|left; reflexivity]. right. destruct (Pos.eq_dec x (n_id n)) as [->|Hne]; [reflexivity|].
    exfalso. apply Hn. split; [discriminate|congruence]. }
  split; [|split; [|split]].
  - constructor; [exact E4| | |].
    + split.
      * apply nwc_of; [rewrite E1; exact Hsi| |].
        -- intros d Hd. rewrite E1. apply (nwc_elim eps n d Hc Hd).
        -- intros d Hd. rewrite (Hfut d). specialize (Hfit d Hd). lia.
      * intros j c'. rewrite Ht. intros Hl'. apply lookup_insert_Some in Hl' as [[_ <-]|[_ Hl']]; [exact Hnn_t|apply (Hnn _ _ Hl')].
    + intros j c'. rewrite Ht. intros Hl' Hst'. rewrite E3. apply lookup_insert_Some in Hl' as [[_ <-]|[_ Hl']].
      * simpl. unfold add. simpl. case_bool_decide as He; [right; exact He|left; discriminate].
      * destruct (Hcov _ _ Hl' Hst') as [Hx|Hx]; [left; apply sc_add_some; exact Hx|right; exact Hx].
    + unfold node_keyed. rewrite E5. split; [reflexivity|]. intros j c'. rewrite Ht. intros Hl'.
      apply lookup_insert_Some in Hl' as [[<- <-]|[_ Hl']]; [simpl; split; reflexivity|apply (Hkey _ _ Hl')].
  - simpl. constructor; [|exact Hnd]. intros Hin. apply elem_of_list_fmap in Hin as (e' & Heq & He'). apply (Hothers e' He'). symmetry. exact Heq.
  - constructor.
    + eexists. simpl. rewrite Ht, lookup_insert. split; reflexivity.
    + apply Forall_forall. intros e' He'. rewrite Forall_forall in Hent. destruct (Hent e' He') as (c' & Hl' & Hst').
      exists c'. split; [|exact Hst']. rewrite Ht, lookup_insert_ne; [exact Hl'|]. intros Heq. apply (Hothers e' He'). symmetry. exact Heq.
  - intros k d Hd. destruct k as [|k]; simpl.
    + unfold pot. simpl. rewrite (Hfut d). specialize (Hfit d Hd). lia.
    + specialize (Hpot k d Hd). unfold pot in *. simpl. unfold ereq at 1. simpl. rewrite Ht, lookup_insert. simpl.
      rewrite (foldr_ereq_frame n n' (take k st)).
      * rewrite (Hfut d). lia.
      * intros e' He'. rewrite Ht. apply lookup_insert_ne. intros Heq. apply (Hothers e' (take_subset _ _ _ He')). symmetry. exact Heq.
Qed.

(* any tentative history on a node: evictions of whatever copies (only Running / Bound ones are
   touched) and FutureIdle-guarded pipelines of whatever tasks, in any order and number *)
Inductive fop := FEvict (tid : positive) | FPipeline (t : task).

Definition fstep (x : node * list nent) (o : fop) : node * list nent :=
  let '(n, st) := x in
  match o with
  | FEvict tid =>
    match n_tasks n !! tid with
    | Some c => if plain_b (t_status c) then (nevict n tid, NE tid (t_status c) :: st) else (n, st)
    | None => (n, st)
    end
  | FPipeline t => (fst (npipeline n t), if snd (npipeline n t) then NP (t_id t) :: st else st)
  end.

Definition fop_ok (o : fop) : Prop :=
  match o with FEvict _ => True | FPipeline t => nonneg (t_req t) /\ forall d, amt (t_req t) d <= amt (t_init t) d end.

Lemma fstep_stack x o : stackP (fst x) (snd x) -> fop_ok o -> stackP (fst (fstep x o)) (snd (fstep x o)).
Proof.
  destruct x as [n st]. simpl. intros H Ho. destruct o as [tid|t]; simpl.
  - destruct (n_tasks n !! tid) as [c|] eqn:Hl; [|exact H].
    destruct (plain_b (t_status c)) eqn:Hp; [|exact H]. simpl.
    apply (stack_evict n st tid c H Hl). apply plain_b_spec. exact Hp.
  - destruct Ho as [H1 H2]. apply stack_pipeline; assumption.
Qed.

Lemma fsteps_stack ops : forall x, stackP (fst x) (snd x) -> Forall fop_ok ops ->
  stackP (fst (fold_left fstep ops x)) (snd (fold_left fstep ops x)).
Proof.
  induction ops as [|o ops IH]; intros x Hx Ho; [exact Hx|]. inversion Ho; subst. simpl.
  apply IH; [apply fstep_stack; assumption|assumption].
Qed.

(* (3) at the level of one node's ledger: after ANY tentative history the node is within
   capacity, and it stays so after undoing any number of the recorded operations newest first
   (Statement.Discard; the statement's operations of one node are such a stack) *)
Theorem evict_history_safe n ops k :
  nbase n -> Forall fop_ok ops ->
  let x := fold_left fstep ops (n, []) in
  node_safe eps (fst x) /\ node_safe eps (fold_left nundo (take k (snd x)) (fst x)).
Proof.
  intros Hb Hops.
  assert (H0 : stackP n []).
  { split; [exact Hb|]. split; [constructor|]. split; [constructor|]. intros j d Hd. rewrite take_nil. unfold pot. simpl.
    destruct Hb as [_ [Hc _] _ _]. destruct (nwc_elim eps n d Hc Hd) as [_ H]. lia. }
  pose proof (fsteps_stack ops (n, []) H0 Hops) as Hall. simpl. split; [apply (stackP_safe _ _ Hall)|apply discard_stack_safe; exact Hall].
Qed.

(* reclaim keeps a running sum instead of re-reading the node (reclaim.go 224-243): it starts
   from FutureIdle and adds each evicted request.  After the evictions that sum IS the node's
   FutureIdle, dimension by dimension; starting from anything larger (Idle + Releasing, i.e.
   forgetting "- Pipelined") over-counts by exactly the pipelined amount. *)
Theorem reclaim_running_sum n st tid c d :
  stackP n st -> n_tasks n !! tid = Some c -> plain (t_status c) ->
  amt (future_idle (nevict n tid)) d = amt (add (future_idle n) (t_req c)) d.
Proof.
  intros H Hl Hp. destruct (stack_evict n st tid c H Hl Hp) as (H' & _ & Hf).
  pose proof (stackP_safe _ _ H) as [[Hs _] _]. pose proof (stackP_safe _ _ H') as [[Hs' _] _].
  rewrite amt_add, !future_idle_amt by assumption. apply Hf.
Qed.


(* ---------- bridges: the statement operations ARE these ledger operations ---------- *)

(* Statement.Evict (with the node's own copy, as preempt / reclaim call it) *)
Theorem stmt_evict_with_nodes s sid c nid n j :
  jobs s !! t_job c = Some j -> nodes s !! nid = Some n -> node_keyed nid n ->
  n_tasks n !! t_id c = Some c -> plain (t_status c) ->
  nodes (fst (stmt_evict_with eps s sid c None)) = <[nid := nevict n (t_id c)]> (nodes s).
Proof.
  intros Hj Hn [Hid Hkey] Hl Hp. destruct (Hkey _ _ Hl) as [_ Hcn].
  unfold stmt_evict_with, ssn_update_status. rewrite Hj. unfold job_update. cbv beta zeta iota.
  unfold ssn_node_update. simpl t_node. rewrite Hcn. simpl nodes. rewrite Hn.
  unfold nevict. rewrite Hl, (proj2 (plain_b_spec _) Hp). simpl t_id.
  destruct (node_update eps n (set_status c Releasing)) as [[n' p']|e]; reflexivity.
Qed.

(* unevict (Statement.Discard, or Commit when the evictor refuses) *)
Theorem unevict_with_nodes s c prev nid n j :
  jobs s !! t_job c = Some j -> nodes s !! nid = Some n -> node_keyed nid n ->
  n_tasks n !! t_id c = Some c ->
  nodes (fst (unevict_with eps s c prev)) = <[nid := nundo n (NE (t_id c) prev)]> (nodes s).
Proof.
  intros Hj Hn [Hid Hkey] Hl. destruct (Hkey _ _ Hl) as [_ Hcn].
  unfold unevict_with, ssn_update_status. rewrite Hj. unfold job_update. cbv beta zeta iota.
  unfold ssn_node_update. simpl t_node. rewrite Hcn. simpl nodes. rewrite Hn.
  simpl nundo. rewrite Hl. simpl t_id.
  destruct (node_update eps n (set_status c (restore_status prev))) as [[n' p']|e]; reflexivity.
Qed.

(* unpipeline / unallocate *)
Theorem unallocate_with_nodes s c nid n j :
  jobs s !! t_job c = Some j -> nodes s !! nid = Some n -> t_node c = Some nid ->
  nodes (unallocate_with s c) = <[nid := node_remove n (t_id c)]> (nodes s).
Proof.
  intros Hj Hn Hcn. unfold unallocate_with, ssn_update_status. rewrite Hj. unfold job_update. cbv beta zeta iota.
  unfold ssn_node_remove. simpl t_node. rewrite Hcn. simpl nodes. rewrite Hn. reflexivity.
Qed.

(* Commit of a statement made of evictions and pipelines (what preempt / reclaim build) when the
   evictor refuses nothing: no node is touched *)
Lemma commit_op_evict_nodes s o :
  refuse_evict s = ∅ -> op_kind o <> KAllocate ->
  nodes (commit_op eps s o) = nodes s /\ refuse_evict (commit_op eps s o) = ∅ /\ heap (commit_op eps s o) = heap s.
Proof.
  clear eps_pos. intros Hr Hk. unfold commit_op. destruct (heap s !! op_task o) as [p|]; [|auto].
  destruct (op_kind o); [|auto|congruence].
  rewrite Hr. rewrite bool_decide_eq_false_2 by set_solver. auto.
Qed.

Theorem stmt_commit_without_refusal s sid :
  refuse_evict s = ∅ -> Forall (fun o => op_kind o <> KAllocate) (default [] (stmts s !! sid)) ->
  nodes (stmt_commit eps s sid) = nodes s.
Proof.
  clear eps_pos. intros Hr Hops. unfold stmt_commit. cbv zeta. simpl.
  generalize dependent s. intros s. generalize (default [] (stmts s !! sid)). intros l. revert s.
  induction l as [|o l IH]; intros s Hr Hl; [reflexivity|]. inversion Hl as [|? ? Ho Hl']; subst. simpl.
  destruct (commit_op_evict_nodes s o Hr Ho) as (E1 & E2 & _). rewrite IH by assumption. exact E1.
Qed.


(* ---------- the bridges composed with the ledger theorems: one statement operation ---------- *)

(* Statement.Evict of a Running / Bound copy: only that node changes, it keeps the stack
   invariant (hence stays within capacity), Idle keeps its amounts, FutureIdle grows by the request *)
Corollary stmt_evict_with_safe s sid c nid n j st :
  jobs s !! t_job c = Some j -> nodes s !! nid = Some n -> node_keyed nid n ->
  n_tasks n !! t_id c = Some c -> plain (t_status c) -> stackP n st ->
  exists n', nodes (fst (stmt_evict_with eps s sid c None)) = <[nid := n']> (nodes s) /\
             stackP n' (NE (t_id c) (t_status c) :: st) /\
             forall d, fut_amt n' d = fut_amt n d + amt (t_req c) d.
Proof.
  intros Hj Hn Hk Hl Hp Hst. exists (nevict n (t_id c)).
  split; [apply (stmt_evict_with_nodes s sid c nid n j); assumption|].
  destruct (stack_evict n st (t_id c) c Hst Hl Hp) as (H1 & _ & H3). split; assumption.
Qed.

(* unevict of the newest recorded eviction *)
Corollary unevict_with_safe s c prev nid n j st :
  jobs s !! t_job c = Some j -> nodes s !! nid = Some n -> node_keyed nid n ->
  n_tasks n !! t_id c = Some c -> stackP n (NE (t_id c) prev :: st) ->
  exists n', nodes (fst (unevict_with eps s c prev)) = <[nid := n']> (nodes s) /\ stackP n' st.
Proof.
  intros Hj Hn Hk Hl Hst. exists (nundo n (NE (t_id c) prev)).
  split; [apply (unevict_with_nodes s c prev nid n j); assumption|apply stack_undo; exact Hst].
Qed.

(* unpipeline of the newest recorded pipeline *)
Corollary unpipeline_with_safe s c nid n j st :
  jobs s !! t_job c = Some j -> nodes s !! nid = Some n -> t_node c = Some nid ->
  stackP n (NP (t_id c) :: st) ->
  exists n', nodes (unpipeline_with s c) = <[nid := n']> (nodes s) /\ stackP n' st.
Proof.
  intros Hj Hn Hcn Hst. exists (nundo n (NP (t_id c))).
  split; [apply (unallocate_with_nodes s c nid n j); assumption|apply stack_undo; exact Hst].
Qed.

End Evict.
