(* C03, part 1: what "a task requests a dimension" means, the bound the queue plugins'
   AllocatableFn gives (queue_allocatable_bound), and the per-queue sum view of the handler
   ledger ([share_of] as a sum over the per-job ledgers of the queue's jobs). *)
From stdpp Require Import gmap.
From Coq Require Import ZArith Lia.
From V Require Import Base.Res Base.ResLemmas Sched.LedgerModel Sched.StmtModel Sched.GangModel
                      Sched.CycleModel Sched.LedgerInvP.
Open Scope Z_scope.

(* the dimensions the *WithDimension comparisons look at: cpu / memory with a positive request,
   scalars with a positive request other than "pods" *)
Definition requested (r : res) (d : dim) : Prop :=
  match d with
  | DCpu => 0 < cpu r
  | DMem => 0 < mem r
  | DSc k => k <> pods_name /\ 0 < sget r k
  end.

(* ---------- amt through add / sub ---------- *)

Lemma amt_empty d : amt empty_res d = 0.
Proof. destruct d; reflexivity. Qed.

Lemma amt_add a b d : amt (add a b) d = amt a d + amt b d.
Proof. destruct d; simpl; [reflexivity|reflexivity|apply add_sget]. Qed.

Lemma amt_sub_exact a b d : (d = DCpu \/ d = DMem \/ sc a <> None) -> amt (sub a b) d = amt a d - amt b d.
Proof.
  destruct d; simpl; intros H; try reflexivity.
  destruct H as [H|[H|H]]; try discriminate. apply sub_sget. exact H.
Qed.

(* the nil-map exception of Resource.sub: scalars of the subtrahend are dropped *)
Lemma amt_sub_nil a b k : sc a = None -> amt (sub a b) (DSc k) = 0 /\ amt a (DSc k) = 0.
Proof.
  intros H. simpl. unfold sget, scm. rewrite (sub_nil_drops_scalars a b H), H. simpl.
  rewrite lookup_empty. split; reflexivity.
Qed.

Lemma amt_sub_bounds a b d : 0 <= amt b d -> amt a d - amt b d <= amt (sub a b) d <= amt a d.
Proof.
  intros Hb. destruct (sc a) as [m|] eqn:Hm.
  - rewrite amt_sub_exact by (right; right; congruence). lia.
  - destruct d.
    + rewrite amt_sub_exact by auto. lia.
    + rewrite amt_sub_exact by auto. lia.
    + destruct (amt_sub_nil a b k Hm) as [-> ->]. lia.
Qed.

(* ---------- queue_allocatable_bound ---------- *)

Lemma le_dim_bound r rr req :
  le_dim r rr req = true ->
  (0 < cpu req -> cpu r <= cpu rr) /\ (0 < mem req -> mem r <= mem rr) /\
  (sc r <> None -> forall k, k <> pods_name -> 0 < sget req k -> sget r k <= sget rr k).
Proof.
  unfold le_dim, names_none, le_dim_names.
  destruct (sc r) as [m|] eqn:Hm.
  - rewrite !andb_true_iff, !negb_true_iff, !andb_false_iff, !bool_decide_eq_false, bool_decide_eq_true.
    intros [[Hc Hmm] Hk]. rewrite keys_where_nil in Hk.
    split; [intros; destruct Hc; lia|]. split; [intros; destruct Hmm; lia|].
    intros _ k Hkp Hq.
    destruct (scm req !! k) as [q|] eqn:E; [|rewrite (sget_none _ _ E) in Hq; lia].
    rewrite (sget_lookup _ _ _ E) in Hq.
    specialize (Hk k q E). unfold req_sel, ignored in Hk.
    rewrite !andb_false_iff, negb_false_iff, !bool_decide_eq_false, bool_decide_eq_true in Hk.
    destruct Hk as [[Hk|Hk]|Hk]; [contradiction|lia|lia].
  - rewrite !andb_true_iff, !negb_true_iff, !andb_false_iff, !bool_decide_eq_false.
    intros [[Hc Hmm] _].
    split; [intros; destruct Hc; lia|]. split; [intros; destruct Hmm; lia|]. congruence.
Qed.

(* when the sum has no scalar map the request has no scalars at all *)
Lemma add_sc_none a x : sc (add a x) = None -> forall k, sget x k = 0.
Proof.
  unfold add. simpl. case_bool_decide as He; [|discriminate]. intros _ k.
  unfold sget. rewrite He, lookup_empty. reflexivity.
Qed.

Theorem queue_allocatable_bound (w : world) (allocated : res) (q : qattr) (t : task) :
  q_has_plugin q = true ->
  queue_allocatable w allocated q t = true ->
  q_open q = true /\
  forall d, requested (t_req t) d -> amt allocated d + amt (t_req t) d <= amt (q_limit q) d.
Proof.
  intros Hp. unfold queue_allocatable. rewrite Hp. simpl. rewrite andb_true_iff. intros [Ho Hle].
  split; [exact Ho|]. intros d Hd.
  destruct (le_dim_bound _ _ _ Hle) as (Hc & Hm & Hs).
  rewrite <- amt_add. destruct d.
  - apply Hc, Hd.
  - apply Hm, Hd.
  - destruct Hd as [Hk Hq]. destruct (stdpp.base.decide (sc (add allocated (t_req t)) = None)) as [E|E].
    + rewrite (add_sc_none _ _ E k) in Hq. lia.
    + apply Hs; [exact E|exact Hk|exact Hq].
Qed.

(* the answer when no queue plugin is configured: no constraint *)
Lemma queue_allocatable_no_plugin w a q t : q_has_plugin q = false -> queue_allocatable w a q t = true.
Proof. intros H. unfold queue_allocatable. rewrite H. reflexivity. Qed.

(* ---------- sums ---------- *)

Definition zsum {A} (g : A -> Z) (l : list A) : Z := foldr (fun x acc => g x + acc) 0 l.

Lemma zsum_app {A} (g : A -> Z) l1 l2 : zsum g (l1 ++ l2) = zsum g l1 + zsum g l2.
Proof. induction l1 as [|x l IH]; simpl; [reflexivity|rewrite IH; lia]. Qed.

Lemma zsum_perm {A} (g : A -> Z) l1 l2 : l1 ≡ₚ l2 -> zsum g l1 = zsum g l2.
Proof. induction 1; simpl; lia. Qed.

Lemma zsum_ext {A} (g h : A -> Z) l : (forall x, g x = h x) -> zsum g l = zsum h l.
Proof. intros E. induction l as [|x l IH]; simpl; [reflexivity|rewrite E, IH; reflexivity]. Qed.

Lemma sum_amt_zsum f l : sum_amt f l = zsum f l.
Proof. reflexivity. Qed.

(* the queue of a job id *)
Definition jq (s : sess) (jid : positive) : option positive := j_queue <$> (jobs s !! jid).

(* sum of the per-job ledgers [m] of the jobs that [f] maps to queue q, in dimension d *)
Definition mterm (f : positive -> option positive) (q : positive) (d : dim) (kv : positive * res) : Z :=
  if bool_decide (f (fst kv) = Some q) then amt (snd kv) d else 0.
Definition msum (f : positive -> option positive) (m : gmap positive res) (q : positive) (d : dim) : Z :=
  zsum (mterm f q d) (map_to_list m).

Lemma msum_ext f g m q d : (forall i, f i = g i) -> msum f m q d = msum g m q d.
Proof. intros E. unfold msum. apply zsum_ext. intros [i r]. unfold mterm. simpl. rewrite E. reflexivity. Qed.

Lemma msum_insert f m i x q d :
  msum f (<[i:=x]> m) q d =
  msum f m q d + (if bool_decide (f i = Some q) then amt x d - amt (default empty_res (m !! i)) d else 0).
Proof.
  unfold msum. destruct (m !! i) as [y|] eqn:E.
  - rewrite <- (insert_delete_insert m i x).
    rewrite (zsum_perm _ _ _ (map_to_list_insert (delete i m) i x (lookup_delete m i))).
    rewrite <- (zsum_perm _ _ _ (map_to_list_delete m i y E)).
    simpl. unfold mterm at 1 3. simpl. destruct (bool_decide (f i = Some q)); lia.
  - rewrite (zsum_perm _ _ _ (map_to_list_insert m i x E)).
    simpl. unfold mterm at 1. simpl. rewrite amt_empty.
    destruct (bool_decide (f i = Some q)); rewrite ?Z.sub_0_r, ?Z.add_0_r, ?Z.add_0_l; [apply Z.add_comm|reflexivity].
Qed.

Lemma jq_decide s i q :
  bool_decide (jq s i = Some q) = match jobs s !! i with Some j => bool_decide (j_queue j = q) | None => false end.
Proof.
  unfold jq. destruct (jobs s !! i) as [j|]; simpl.
  - apply bool_decide_ext. split; congruence.
  - reflexivity.
Qed.

Lemma share_of_amt s q d : amt (share_of s q) d = msum (jq s) (hshare s) q d.
Proof.
  unfold share_of, map_fold, msum. simpl.
  induction (map_to_list (hshare s)) as [|[i r] l IH]; simpl.
  - apply amt_empty.
  - unfold mterm at 1. simpl. rewrite jq_decide. destruct (jobs s !! i) as [j|]; simpl.
    + destruct (bool_decide (j_queue j = q)); [rewrite amt_add, IH; lia|rewrite IH; lia].
    + rewrite IH. lia.
Qed.
