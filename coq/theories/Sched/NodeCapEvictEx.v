(* Property C02, part 5: witnesses for the eviction theorems.
   - commit_refused_eviction_refuted: "Commit keeps every node within capacity" is FALSE when the
     evictor refuses an eviction: the victim is un-evicted while the preemptor stays pipelined on
     the room the victim was going to release (documented limit; C07 owns refusals).
   - idle_plus_releasing_overcounts: what the seeded mutant C02-2 does (available = Idle +
     Releasing instead of FutureIdle): the second reclaimer passes the test without an eviction
     and the node leaves "within capacity".
   - non-vacuity of evict_history_safe. *)
From stdpp Require Import gmap.
From Coq Require Import ZArith Lia List.
From V Require Import Base.Res Base.ResLemmas Sched.LedgerModel Sched.StmtModel Sched.LedgerCodec Sched.GangModel
                      Sched.CycleModel Sched.LedgerInvP Sched.NodeCapLemmas Sched.NodeCapLemmasCycle Sched.NodeCapCheck
                      Sched.NodeCapLemmasEvict Sched.NodeCapSelectVictims.
Import ListNotations.
Open Scope Z_scope.

(* one node of 2000 milli-cpu; victims t1, t2 (1000 each, Running, job 1); preemptors t3, t4
   (1000 each, Pending, job 2) *)
Definition ev_nodes : list node_spec := [mkNodeSpec 1 true 2000 1024 10 0].
Definition ev_jobs : list job_spec := [mkJobSpec 1 1 0 []; mkJobSpec 2 1 1 []].
Definition ev_tasks : list task_spec :=
  [mkTaskSpec 1 1 1 0 1000 256 0 Running (Some 1%positive) true; mkTaskSpec 2 1 1 0 1000 256 0 Running (Some 1%positive) true;
   mkTaskSpec 3 2 1 0 1000 256 0 Pending None true; mkTaskSpec 4 2 1 0 1000 256 0 Pending None true].
Definition ev_sess : sess := build 2 ev_nodes ev_jobs ev_tasks.

Definition node1 (s : sess) : node := default (empty_node (mkNodeSpec 1 false 0 0 0 0)) (nodes s !! 1%positive).

(* the statement [Evict t1; Pipeline t3 -> n1], then the evictor refuses t1 *)
Definition ev_before_commit : sess :=
  StmtModel.run 2 ev_sess [OEvictClone 1 1; OPipeline 1 3 1; OSetFaults [] [] [1%positive] true]%positive.

Theorem commit_refused_eviction_refuted :
  nwc_b 2 (node1 ev_sess) = true /\ nwc_b 2 (node1 ev_before_commit) = true /\
  map (fun o => (op_kind o, op_task o)) (default [] (stmts ev_before_commit !! 1%positive)) = [(KEvict, 1%positive); (KPipeline, 3%positive)] /\
  elements (refuse_evict ev_before_commit) = [1%positive] /\
  ~ node_within_capacity 2 (node1 (stmt_commit 2 ev_before_commit 1)).
Proof.
  split; [vm_compute; reflexivity|]. split; [vm_compute; reflexivity|]. split; [vm_compute; reflexivity|].
  split; [vm_compute; reflexivity|].
  intros [_ H]. specialize (H DCpu). destruct H as [_ H]; [discriminate|].
  assert (E : amt (n_idle (node1 (stmt_commit 2 ev_before_commit 1))) DCpu +
              amt (n_releasing (node1 (stmt_commit 2 ev_before_commit 1))) DCpu -
              amt (n_pipelined (node1 (stmt_commit 2 ev_before_commit 1))) DCpu = -16000) by (vm_compute; reflexivity).
  lia.
Qed.

Lemma gset_empty_by_elements (X : gset positive) : elements X = [] -> X = ∅.
Proof. intros H. apply leibniz_equiv. apply elements_empty_iff. exact H. Qed.

(* the same statement committed while the evictor refuses nothing: nodes untouched *)
Example commit_without_refusal_keeps :
  nodes (stmt_commit 2 (StmtModel.run 2 ev_sess [OEvictClone 1 1; OPipeline 1 3 1]%positive) 1) =
  nodes (StmtModel.run 2 ev_sess [OEvictClone 1 1; OPipeline 1 3 1]%positive).
Proof.
  apply stmt_commit_without_refusal; [apply gset_empty_by_elements; vm_compute; reflexivity|].
  assert (H : forallb (fun o => negb (bool_decide (op_kind o = KAllocate)))
                (default [] (stmts (StmtModel.run 2 ev_sess [OEvictClone 1 1; OPipeline 1 3 1]%positive) !! 1%positive)) = true) by (vm_compute; reflexivity).
  rewrite forallb_forall in H. apply Forall_forall. intros o Ho. specialize (H o Ho).
  apply negb_true_iff, bool_decide_eq_false in H. exact H.
Qed.

(* ---- the ledger of n1 ---- *)
Definition ev_n1 : node := node1 ev_sess.
Definition ev_t3 : task := task_of_spec 2 (mkTaskSpec 3 2 1 0 1000 256 0 Pending None true).
Definition ev_t4 : task := task_of_spec 2 (mkTaskSpec 4 2 1 0 1000 256 0 Pending None true).

(* evict t1, pipeline t3: FutureIdle is used up.  t4 does NOT pass the FutureIdle test ... *)
Definition ev_n1' : node := fst (npipeline 2 (nevict 2 ev_n1 1) ev_t3).

Example second_reclaimer_needs_a_victim :
  snd (npipeline 2 (nevict 2 ev_n1 1) ev_t3) = true /\
  less_equal 2 (t_init ev_t4) (future_idle ev_n1') DZero = false /\
  snd (npipeline 2 (nevict 2 ev_n1' 2) ev_t4) = true /\
  nwc_b 2 (fst (npipeline 2 (nevict 2 ev_n1' 2) ev_t4)) = true.
Proof. vm_compute. repeat split; reflexivity. Qed.

(* ... but it passes "Idle + Releasing" (the seeded mutant C02-2), and pipelining it without a
   second eviction overcommits the node's future *)
Example idle_plus_releasing_overcounts :
  less_equal 2 (t_init ev_t4) (add (n_idle ev_n1') (n_releasing ev_n1')) DZero = true /\
  match node_add 2 ev_n1' (set_status ev_t4 Pipelined) with
  | inl (n', _) => nwc_b 2 n'
  | inr _ => true
  end = false.
Proof. vm_compute. split; reflexivity. Qed.

(* non-vacuity of evict_history_safe: n1 satisfies nbase, and the history above is one of its histories *)
Example ev_n1_base : nbase 2 ev_n1.
Proof.
  constructor.
  - vm_compute. reflexivity.
  - apply node_safe_b_sound; [lia|vm_compute; reflexivity].
  - intros j c Hl Hst. exfalso.
    assert (H : bool_decide (map_Forall (fun _ c => t_status c <> Pipelined) (n_tasks ev_n1)) = true) by (vm_compute; reflexivity).
    apply bool_decide_eq_true in H. apply (H j c Hl Hst).
  - split; [vm_compute; reflexivity|]. intros j c Hl.
    assert (H : bool_decide (map_Forall (fun j c => t_id c = j /\ t_node c = Some (n_id ev_n1)) (n_tasks ev_n1)) = true) by (vm_compute; reflexivity).
    apply bool_decide_eq_true in H. apply (H j c Hl).
Qed.

(* ---------- topology-aware preemption's dry run (seeded mutant C02-r5-1) ---------- *)

(* n: 8 cpu; v1, v2, v3 running 2 cpu each (2 idle); A (4 cpu) has been pipelined after evicting v1:
   Idle 2, Releasing 2, Pipelined 4 (Pipelined > Releasing).  B (3 cpu) needs BOTH v2 and v3. *)
Definition tp_nodes : list node_spec := [mkNodeSpec 1 true 8000 1024 20 0].
Definition tp_tasks : list task_spec :=
  [mkTaskSpec 1 1 1 0 2000 16 0 Running (Some 1%positive) true; mkTaskSpec 2 1 1 0 2000 16 0 Running (Some 1%positive) true;
   mkTaskSpec 3 1 1 0 2000 16 0 Running (Some 1%positive) true;
   mkTaskSpec 4 2 1 2 4000 16 0 Pending None true; mkTaskSpec 5 2 1 1 3000 16 0 Pending None true].
Definition tp_n0 : node := node1 (build 2 tp_nodes ev_jobs tp_tasks).
Definition tp_A : task := task_of_spec 2 (mkTaskSpec 4 2 1 2 4000 16 0 Pending None true).
Definition tp_B : task := task_of_spec 2 (mkTaskSpec 5 2 1 1 3000 16 0 Pending None true).
Definition tp_n1 : node := fst (npipeline 2 (nevict 2 tp_n0 1) tp_A).
Definition all_votes_yes (_ : node) : bool := true.

(* the code's dry run: the final victims are v2 and v3, and the node stays within capacity *)
Example select_victims_future_idle :
  select_victims 2 all_votes_yes future_idle tp_B tp_n1 [2; 3]%positive = Some [3; 2]%positive /\
  match preempt_on 2 tp_B tp_n1 [3; 2]%positive with inl (n', _) => nwc_b 2 n' | inr _ => false end = true.
Proof. vm_compute. split; reflexivity. Qed.

(* the reprieve test against Idle instead of FutureIdle (mutant C02-r5-1): v3 is reprieved because the
   dry-run Idle (which counts the removed victims, but not what is already promised to A) still
   holds B; only v2 is evicted and B is pipelined: Pipelined 7 against Idle + Releasing 6 *)
Definition select_victims_idle_reprieve (p : task) (n : node) (q : list positive) : option (list positive) :=
  let '(dry, pots) := remove_until 2 all_votes_yes future_idle p n q [] in
  match pots with
  | [] => None
  | _ => if pfits 2 all_votes_yes future_idle p dry
         then match reprieve 2 all_votes_yes n_idle p n dry pots [] with Some (_, vs) => Some vs | None => None end
         else None
  end.

Theorem reprieve_against_idle_refuted :
  nwc_b 2 tp_n1 = true /\
  select_victims_idle_reprieve tp_B tp_n1 [2; 3]%positive = Some [2]%positive /\
  match preempt_on 2 tp_B tp_n1 [2]%positive with
  | inl (n', _) => (nwc_b 2 n', fut_amt n' DCpu)
  | inr _ => (true, 0)
  end = (false, -16000).
Proof. vm_compute. repeat split; reflexivity. Qed.

Example tp_n1_base : nbase 2 tp_n1.
Proof.
  constructor.
  - vm_compute. reflexivity.
  - apply node_safe_b_sound; [lia|vm_compute; reflexivity].
  - intros j c Hl Hst. left. vm_compute. discriminate.
  - split; [vm_compute; reflexivity|]. intros j c Hl.
    assert (H : bool_decide (map_Forall (fun j c => t_id c = j /\ t_node c = Some (n_id tp_n1)) (n_tasks tp_n1)) = true) by (vm_compute; reflexivity).
    apply bool_decide_eq_true in H. apply (H j c Hl).
Qed.
