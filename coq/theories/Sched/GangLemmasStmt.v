(* C01, part 3: effect of the Statement / Session primitives on task statuses, statements and
   the bind log (only what the gang theorem needs; the resource ledgers are C07's business). *)
From stdpp Require Import gmap.
From Coq Require Import ZArith Lia.
From V Require Import Base.Res Sched.LedgerModel Sched.StmtModel Sched.GangModel Sched.LedgerInvP
                      Sched.GangLemmas Sched.GangLemmasInv.
Open Scope Z_scope.

(* agreement on heap / jobs / refuse_bind *)
Definition hj_eq (s s' : sess) : Prop :=
  heap s' = heap s /\ jobs s' = jobs s /\ refuse_bind s' = refuse_bind s.

Lemma touched_hj s s' s'' i p p' : touched s s' i p p' -> hj_eq s' s'' -> touched s s'' i p p'.
Proof.
  intros [H1 H2 H3 H4 H5 H6] (Hh & Hj & Hr). split.
  - done.
  - by rewrite Hh.
  - done.
  - by rewrite Hj.
  - by rewrite Hr.
  - unfold gang_inv in *. by rewrite Hh, Hj.
Qed.

Lemma gang_inv_hj s s' : gang_inv s -> hj_eq s s' -> gang_inv s'.
Proof. intros H (Hh & Hj & _). unfold gang_inv in *. by rewrite Hh, Hj. Qed.

Lemma ssn_node_remove_hj s p : hj_eq s (ssn_node_remove s p) /\
  stmts (ssn_node_remove s p) = stmts s /\ binds (ssn_node_remove s p) = binds s.
Proof. unfold ssn_node_remove, hj_eq. repeat case_match; done. Qed.

Section WithEps.
Variable eps : Z.

(* ---- unallocate ---- *)
Lemma unallocate_spec s p : gang_inv s -> heap s !! t_id p = Some p ->
  exists p', touched s (unallocate_with s p) (t_id p) p p' /\
    (t_status p' = Pending \/ t_status p' = t_status p) /\
    (is_Some (jobs s !! t_job p) -> t_status p' = Pending) /\
    stmts (unallocate_with s p) = stmts s /\ binds (unallocate_with s p) = binds s.
Proof.
  intros Hinv Hp. unfold unallocate_with.
  destruct (touched_update s p Pending Hinv Hp) as (found & s1 & p1 & E & Hf & Hst & Ht & Hs & Hb).
  rewrite E.
  destruct (ssn_node_remove_hj s1 p1) as ((Hh2 & Hj2 & Hr2) & Hs2 & Hb2).
  set (s2 := ssn_node_remove s1 p1) in *.
  pose proof (tc_meta _ _ _ _ _ Ht) as (Hid1 & Hjob1 & _).
  exists (set_node p1 None).
  split; [|split; [|split; [|split]]].
  - eapply touched_trans; [exact Ht|].
    apply touched_put.
    + exact (tc_inv _ _ _ _ _ Ht).
    + exact (touched_new _ _ _ _ _ Ht).
    + apply same_meta_set_node.
    + done.
    + simpl. rewrite Hh2. by rewrite Hid1.
    + simpl. exact Hj2.
    + simpl. exact Hr2.
  - simpl. destruct found; [by left|right; by subst].
  - intros Hsome. apply Hf in Hsome. subst found. simpl. exact Hst.
  - simpl. congruence.
  - simpl. congruence.
Qed.

(* ---- Statement.Allocate / Pipeline ---- *)
Definition placed_status (k : opkind) : status := match k with KAllocate => Allocated | _ => Pipelined end.

Lemma place_with_spec s sid k p nid : gang_inv s -> heap s !! t_id p = Some p ->
  exists s' r p', place_with eps s sid k p nid = (s', r) /\ touched s s' (t_id p) p p' /\ binds s' = binds s /\
   ((r = ROk /\ t_status p' = placed_status k /\
      stmts s' = <[sid := default [] (stmts s !! sid) ++ [mkOp k (t_id p) Pending]]> (stmts s))
    \/ (r = RErr /\ stmts s' = stmts s /\ (t_status p' = Pending \/ t_status p' = t_status p))).
Proof.
  intros Hinv Hp. unfold place_with. fold (placed_status k).
  destruct (touched_update s p (placed_status k) Hinv Hp) as (found & s1 & p1 & E & Hf & Hst & Ht1 & Hs1 & Hb1).
  rewrite E.
  pose proof (tc_meta _ _ _ _ _ Ht1) as (Hid1 & Hjob1 & _).
  set (p2 := set_node p1 (Some nid)).
  set (s2 := put_task s1 p2).
  assert (Ht2 : touched s s2 (t_id p) p p2).
  { eapply touched_trans; [exact Ht1|]. apply touched_put.
    - exact (tc_inv _ _ _ _ _ Ht1).
    - exact (touched_new _ _ _ _ _ Ht1).
    - apply same_meta_set_node.
    - done.
    - simpl. by rewrite Hid1.
    - done.
    - done. }
  assert (Hs2 : stmts s2 = stmts s) by (simpl; done).
  assert (Hb2 : binds s2 = binds s) by (simpl; done).
  (* the node step *)
  assert (Hnode : exists s3 p3 nodeok,
    match nodes s2 !! nid with
    | Some n => match node_add eps n p2 with
                | inl (n', p') => (put_task (upd_nodes s2 (<[nid := n']> (nodes s2))) p', p', true)
                | inr _ => (s2, p2, false)
                end
    | None => (s2, p2, false)
    end = (s3, p3, nodeok) /\ touched s s3 (t_id p) p p3 /\ t_status p3 = t_status p1 /\
    stmts s3 = stmts s /\ binds s3 = binds s).
  { destruct (nodes s2 !! nid) as [n|]; [|by exists s2, p2, false].
    destruct (node_add eps n p2) as [[n' p']|e] eqn:En; [|by exists s2, p2, false].
    apply node_add_task in En. subst p'.
    eexists _, _, true. split; [reflexivity|]. split; [|done].
    eapply touched_trans; [exact Ht2|]. apply touched_put.
    - exact (tc_inv _ _ _ _ _ Ht2).
    - exact (touched_new _ _ _ _ _ Ht2).
    - apply same_meta_set_node.
    - done.
    - simpl. by rewrite Hid1.
    - done.
    - done. }
  destruct Hnode as (s3 & p3 & nodeok & -> & Ht3 & Hst3 & Hs3 & Hb3).
  pose proof (tc_meta _ _ _ _ _ Ht3) as (Hid3 & Hjob3 & _).
  unfold h_alloc.
  set (s4 := upd_handlers s3 _ _).
  assert (Ht4 : touched s s4 (t_id p) p p3) by (eapply touched_hj; [exact Ht3|done]).
  destruct (found && nodeok && negb (bool_decide (t_id p3 ∈ herr s3))) eqn:Eok.
  - exists (push_op s4 sid k (t_id p) Pending), ROk, p3. split; [done|].
    apply andb_true_iff in Eok as [[-> ->]%andb_true_iff _].
    split; [eapply touched_hj; [exact Ht4|done]|]. split; [simpl; done|].
    left. split; [done|]. split; [congruence|]. simpl. by rewrite Hs3.
  - assert (Hp4 : heap s4 !! t_id p3 = Some p3) by (rewrite Hid3; exact (touched_new _ _ _ _ _ Ht4)).
    destruct (unallocate_spec s4 p3 (tc_inv _ _ _ _ _ Ht4) Hp4) as (p5 & Ht5 & Hst5 & Hfound5 & Hs5 & Hb5).
    rewrite Hid3 in Ht5.
    exists (unallocate_with s4 p3), RErr, p5. split; [done|].
    split; [eapply touched_trans; [exact Ht4|exact Ht5]|]. split; [rewrite Hb5; simpl; done|].
    right. split; [done|]. split; [rewrite Hs5; simpl; done|].
    destruct found.
    + left. apply Hfound5. rewrite Hjob3.
      assert (Hsome : is_Some (jobs s !! t_job p)) by (by apply Hf).
      destruct Hsome as [j Ej].
      destruct (jobs_static_some _ _ _ _ (tc_jobs _ _ _ _ _ Ht4) Ej) as (j' & Ej' & _). eauto.
    + subst p1. destruct Hst5 as [?|Hst5]; [by left|right]. congruence.
Qed.

(* ---- one bind: AddBindTask accepted, then UpdateTaskStatus(Binding) ---- *)
Definition bind_task (s : sess) (p : task) : bool * sess * task :=
  ssn_update_status (upd_logs s ((t_id p, t_node p) :: binds s) (evicts s)) p Binding.

Lemma bind_task_spec s p : gang_inv s -> heap s !! t_id p = Some p -> is_Some (jobs s !! t_job p) ->
  exists s' p', bind_task s p = (true, s', p') /\ touched s s' (t_id p) p p' /\ t_status p' = Binding /\
    stmts s' = stmts s /\ binds s' = (t_id p, t_node p) :: binds s.
Proof.
  intros Hinv Hp Hsome. unfold bind_task.
  set (s0 := upd_logs s _ _).
  destruct (touched_update s0 p Binding Hinv Hp) as (found & s1 & p1 & E & Hf & Hst & Ht & Hs & Hb).
  assert (found = true) as -> by (by apply Hf).
  exists s1, p1. split; [done|]. split; [|done].
  destruct Ht as [H1 H2 H3 H4 H5 H6]. by split.
Qed.

(* s' is s after the tasks of B have been handed to the binder *)
Record bound_batch (s s' : sess) (B : list positive) : Prop := {
  bb_inv : gang_inv s';
  bb_jobs : jobs_static (jobs s) (jobs s');
  bb_refuse : refuse_bind s' = refuse_bind s;
  bb_stmts : stmts s' = stmts s;
  bb_binds : exists nb, binds s' = nb ++ binds s /\ forall b, b ∈ nb -> fst b ∈ B;
  bb_done : forall i, i ∈ B -> exists t, heap s' !! i = Some t /\ t_status t = Binding;
  bb_heap : forall i t, heap s !! i = Some t ->
     exists t', heap s' !! i = Some t' /\ same_meta t t' /\ (t' = t \/ (t_status t' = Binding /\ i ∈ B));
  bb_dom : forall i, heap s !! i = None -> heap s' !! i = None;
}.

Lemma bound_batch_refl s : gang_inv s -> bound_batch s s [].
Proof.
  intros Hinv. split; try done.
  - apply jobs_static_refl.
  - exists []. split; [done|]. intros b Hb. by apply elem_of_nil in Hb.
  - intros i Hi. by apply elem_of_nil in Hi.
  - intros i t Ht. exists t. split; [done|]. split; [apply same_meta_refl|by left].
Qed.

Lemma bound_batch_step s s1 B i p :
  bound_batch s s1 B -> heap s1 !! i = Some p -> is_Some (jobs s1 !! t_job p) ->
  exists s2 p2, bind_task s1 p = (true, s2, p2) /\ bound_batch s s2 (B ++ [i]).
Proof.
  intros [Hinv Hjobs Href Hst (nb & Hnb & HnbB) Hdone Hheap Hdom] Hp Hsome.
  assert (Hid : t_id p = i) by (destruct Hinv as (Ha & _); by apply Ha).
  rewrite <- Hid in Hp.
  destruct (bind_task_spec s1 p Hinv Hp Hsome) as (s2 & p2 & E & Ht & Hb & Hs2 & Hb2).
  rewrite Hid in *.
  exists s2, p2. split; [done|]. destruct Ht as [H1 H2 H3 H4 H5 H6]. split.
  - done.
  - by eapply jobs_static_trans.
  - congruence.
  - congruence.
  - exists ((i, t_node p) :: nb). split; [rewrite Hb2, Hnb; done|].
    intros b [->|Hb']%elem_of_cons; [simpl; set_solver|]. apply elem_of_app. left. by apply HnbB.
  - intros k [Hk|Hk%elem_of_list_singleton]%elem_of_app.
    + destruct (decide (k = i)) as [->|Hne].
      * exists p2. by rewrite H2, lookup_insert.
      * rewrite H2, lookup_insert_ne by done. by apply Hdone.
    + subst k. exists p2. by rewrite H2, lookup_insert.
  - intros k t Hk. destruct (Hheap k t Hk) as (t1 & E1 & Hm1 & Hc1).
    destruct (decide (k = i)) as [->|Hne].
    + exists p2. rewrite H2, lookup_insert. split; [done|].
      rewrite Hp in E1. injection E1 as <-. split; [by eapply same_meta_trans|].
      right. split; [done|]. apply elem_of_app. right. by apply elem_of_list_singleton.
    + exists t1. rewrite H2, lookup_insert_ne by done. split; [done|]. split; [done|].
      destruct Hc1 as [?|[? ?]]; [by left|right]. split; [done|]. apply elem_of_app. by left.
  - intros k Hk. destruct (decide (k = i)) as [->|Hne].
    + specialize (Hdom _ Hk). congruence.
    + rewrite H2, lookup_insert_ne by done. by apply Hdom.
Qed.

(* the tasks a bound_batch from s may bind: present, with an existing job *)
Definition bindable (s : sess) (i : positive) : Prop :=
  exists t, heap s !! i = Some t /\ is_Some (jobs s !! t_job t).

Lemma bindable_later s s1 B i : bound_batch s s1 B -> bindable s i -> bindable s1 i.
Proof.
  intros Hbb (t & Et & [j Ej]). destruct (bb_heap _ _ _ Hbb i t Et) as (t1 & E1 & (_ & Hjob & _) & _).
  destruct (jobs_static_some _ _ _ _ (bb_jobs _ _ _ Hbb) Ej) as (j' & Ej' & _).
  exists t1. split; [done|]. rewrite Hjob. eauto.
Qed.

(* ---- Statement.Commit ---- *)
Definition alloc_tasks (ops : list oprec) : list positive :=
  omap (fun o => match op_kind o with KAllocate => Some (op_task o) | _ => None end) ops.

Lemma elem_of_alloc_tasks ops i : i ∈ alloc_tasks ops <-> exists o, o ∈ ops /\ op_kind o = KAllocate /\ op_task o = i.
Proof.
  unfold alloc_tasks. rewrite elem_of_list_omap. split.
  - intros (o & Ho & E). exists o. destruct (op_kind o); try done. by injection E as <-.
  - intros (o & Ho & Hk & <-). exists o. by rewrite Hk.
Qed.

Lemma commit_op_pipeline s o p :
  heap s !! op_task o = Some p -> op_kind o = KPipeline -> commit_op eps s o = s.
Proof. intros E K. unfold commit_op. by rewrite E, K. Qed.
Lemma commit_op_allocate s o p s2 p2 :
  heap s !! op_task o = Some p -> op_kind o = KAllocate -> refuse_bind s = ∅ ->
  bind_task s p = (true, s2, p2) -> commit_op eps s o = s2.
Proof.
  intros E K Hr Hb. unfold commit_op. rewrite E, K.
  rewrite bool_decide_false by (rewrite Hr; set_solver).
  unfold bind_task in Hb. by rewrite Hb.
Qed.

Lemma commit_fold s ops : forall s1 B,
  bound_batch s s1 B -> refuse_bind s = ∅ ->
  Forall (fun o => op_kind o <> KEvict /\ bindable s (op_task o)) ops ->
  bound_batch s (fold_left (commit_op eps) ops s1) (B ++ alloc_tasks ops).
Proof.
  induction ops as [|o ops IH]; intros s1 B Hbb Href Hall.
  - simpl. by rewrite app_nil_r.
  - apply Forall_cons in Hall as [[Hk Hbind] Hall]. simpl.
    destruct (bindable_later _ _ _ _ Hbb Hbind) as (p & Ep & Hsome).
    assert (Hcases : op_kind o = KPipeline \/ op_kind o = KAllocate)
      by (destruct (op_kind o); [done|by left|by right]).
    destruct Hcases as [Ek|Ek].
    + rewrite (commit_op_pipeline s1 o p Ep Ek).
      unfold alloc_tasks. simpl. rewrite Ek. by apply IH.
    + destruct (bound_batch_step s s1 B (op_task o) p Hbb Ep Hsome) as (s2 & p2 & E & Hbb2).
      assert (Hr1 : refuse_bind s1 = ∅) by (by rewrite (bb_refuse _ _ _ Hbb)).
      rewrite (commit_op_allocate s1 o p s2 p2 Ep Ek Hr1 E).
      unfold alloc_tasks. simpl. rewrite Ek. simpl.
      specialize (IH s2 (B ++ [op_task o]) Hbb2 Href Hall).
      by rewrite <- app_assoc in IH.
Qed.

(* ---- Session.Allocate's dispatch loop ---- *)
Lemma dispatch_all_spec s l : forall s1 B,
  bound_batch s s1 B -> refuse_bind s = ∅ -> Forall (bindable s) l ->
  exists s2, dispatch_all s1 l = (s2, true) /\ bound_batch s s2 (B ++ l).
Proof.
  induction l as [|i l IH]; intros s1 B Hbb Href Hall.
  - exists s1. simpl. by rewrite app_nil_r.
  - apply Forall_cons in Hall as [Hbind Hall]. simpl.
    destruct (bindable_later _ _ _ _ Hbb Hbind) as (p & Ep & Hsome).
    unfold dispatch. rewrite Ep.
    rewrite bool_decide_false by (rewrite (bb_refuse _ _ _ Hbb), Href; set_solver).
    destruct (bound_batch_step s s1 B i p Hbb Ep Hsome) as (s2 & p2 & E & Hbb2).
    assert (Hid : t_id p = i) by (destruct (bb_inv _ _ _ Hbb) as (Ha & _); by apply Ha).
    unfold bind_task in E. rewrite Hid in E. rewrite E.
    destruct (IH s2 (B ++ [i]) Hbb2 Href Hall) as (s3 & E3 & Hbb3).
    exists s3. split; [done|]. by rewrite <- app_assoc in Hbb3.
Qed.

(* ---- Statement.Discard ---- *)
Record undone_batch (s s' : sess) (B : list positive) : Prop := {
  ub_inv : gang_inv s';
  ub_jobs : jobs_static (jobs s) (jobs s');
  ub_refuse : refuse_bind s' = refuse_bind s;
  ub_stmts : stmts s' = stmts s;
  ub_binds : binds s' = binds s;
  ub_heap : forall i t, heap s !! i = Some t ->
     exists t', heap s' !! i = Some t' /\ same_meta t t' /\
       (t_status t' = t_status t \/ (t_status t' = Pending /\ i ∈ B));
  ub_dom : forall i, heap s !! i = None -> heap s' !! i = None;
}.

Lemma undone_batch_refl s : gang_inv s -> undone_batch s s [].
Proof.
  intros Hinv. split; try done.
  - apply jobs_static_refl.
  - intros i t Ht. exists t. split; [done|]. split; [apply same_meta_refl|by left].
Qed.

Lemma discard_fold s ops : forall s1 B,
  undone_batch s s1 B ->
  Forall (fun o => op_kind o <> KEvict) ops ->
  undone_batch s (fold_left (undo_op eps) ops s1) (B ++ map op_task ops).
Proof.
  induction ops as [|o ops IH]; intros s1 B Hub Hall.
  - simpl. by rewrite app_nil_r.
  - apply Forall_cons in Hall as [Hk Hall]. simpl.
    assert (Hgoal : undone_batch s (undo_op eps s1 o) (B ++ [op_task o])).
    { unfold undo_op. destruct (heap s1 !! op_task o) as [p|] eqn:Ep.
      - assert (Hid : t_id p = op_task o) by (destruct (ub_inv _ _ _ Hub) as (Ha & _); by apply Ha).
        assert (Hun : undone_batch s (unallocate_with s1 p) (B ++ [op_task o])).
        { rewrite <- Hid in Ep.
          destruct (unallocate_spec s1 p (ub_inv _ _ _ Hub) Ep) as (p' & Ht & Hst & _ & Hs & Hb).
          rewrite Hid in *. destruct Ht as [H1 H2 H3 H4 H5 H6].
          destruct Hub as [Hinv Hjobs Href Hstm Hbinds Hheap Hdom]. split.
          - done.
          - by eapply jobs_static_trans.
          - congruence.
          - congruence.
          - congruence.
          - intros k t Hkt. destruct (Hheap k t Hkt) as (t1 & E1 & Hm1 & Hc1).
            destruct (decide (k = op_task o)) as [->|Hne].
            + exists p'. rewrite H2, lookup_insert. split; [done|].
              rewrite Ep in E1. injection E1 as <-. split; [by eapply same_meta_trans|].
              destruct Hst as [Hst|Hst].
              * right. split; [done|]. apply elem_of_app. right. by apply elem_of_list_singleton.
              * destruct Hc1 as [Hc1|[Hc1 HB]].
                -- left. congruence.
                -- right. split; [congruence|]. apply elem_of_app. by left.
            + exists t1. rewrite H2, lookup_insert_ne by done. split; [done|]. split; [done|].
              destruct Hc1 as [?|[? ?]]; [by left|right]. split; [done|]. apply elem_of_app. by left.
          - intros k Hk'. destruct (decide (k = op_task o)) as [->|Hne].
            + specialize (Hdom _ Hk'). congruence.
            + rewrite H2, lookup_insert_ne by done. by apply Hdom. }
        destruct (op_kind o); [done|exact Hun|exact Hun].
      - destruct Hub as [Hinv Hjobs Href Hstm Hbinds Hheap Hdom]. split; try done.
        intros k t Hkt. destruct (Hheap k t Hkt) as (t1 & E1 & Hm1 & Hc1).
        exists t1. split; [done|]. split; [done|].
        destruct Hc1 as [?|[? ?]]; [by left|right]. split; [done|]. apply elem_of_app. by left. }
    specialize (IH _ _ Hgoal Hall). by rewrite <- app_assoc in IH.
Qed.

End WithEps.
