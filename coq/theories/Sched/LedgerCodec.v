(* wire format of the session state (shared by C07 and the action properties) *)
From stdpp Require Import gmap.
From Coq Require Import ZArith List.
From V Require Import Base.Codec Base.Res Base.ResCodec Sched.LedgerModel Sched.StmtModel.
Import ListNotations.
Open Scope Z_scope.

Definition grid : Z := 16.

(* Resreq of a pod requesting cpu (milli), memory (bytes), gpus (count):
   NewResource + AddScalar(pods, 1); scalars are MilliValue()s *)
Definition mk_req (c m g : Z) : res :=
  mkRes (c * grid) (m * grid)
        (Some (if bool_decide (0 < g) then <[4%positive := g * 1000 * grid]> {[1%positive := grid]}
               else {[1%positive := grid]})).

(* NewResource(node.Status.Allocatable): cpu, memory, pods (count), gpus *)
Definition mk_alloc (c m p g : Z) : res :=
  mkRes (c * grid) (m * grid)
        (Some (if bool_decide (0 < g) then <[4%positive := g * 1000 * grid]> {[1%positive := p * grid]}
               else {[1%positive := p * grid]})).

Definition dStatus : dec status :=
  let* k := dPos in match status_of_key k with Some s => ret s | None => fail end.
Definition dNodeRef : dec (option positive) :=
  let* k := dZ in ret (if k <=? 0 then None else Some (Z.to_pos k)).
Definition eNodeRef (n : option positive) : list Z := match n with None => [0] | Some k => [Zpos k] end.

Record task_spec := mkTaskSpec {
  ts_id : positive; ts_job : positive; ts_role : positive; ts_prio : Z;
  ts_cpu : Z; ts_mem : Z; ts_gpu : Z; ts_status : status; ts_node : option positive; ts_preempt : bool }.
Record node_spec := mkNodeSpec { ns_id : positive; ns_has : bool; ns_cpu : Z; ns_mem : Z; ns_pods : Z; ns_gpu : Z }.
Record job_spec := mkJobSpec { js_id : positive; js_queue : positive; js_min : Z; js_role_min : list (positive * Z) }.

Definition dTaskSpec : dec task_spec :=
  let* i := dPos in let* j := dPos in let* r := dPos in let* p := dZ in
  let* c := dZ in let* m := dZ in let* g := dZ in let* s := dStatus in let* n := dNodeRef in
  let* pr := dBool in ret (mkTaskSpec i j r p c m g s n pr).
Definition dNodeSpec : dec node_spec :=
  let* i := dPos in let* h := dBool in let* c := dZ in let* m := dZ in let* p := dZ in let* g := dZ in
  ret (mkNodeSpec i h c m p g).
Definition dJobSpec : dec job_spec :=
  let* i := dPos in let* q := dPos in let* m := dZ in let* rm := dList (dPair dPos dZ) in ret (mkJobSpec i q m rm).

Section WithEps.
Variable eps : Z.

Definition task_of_spec (t : task_spec) : task :=
  let r := mk_req (ts_cpu t) (ts_mem t) (ts_gpu t) in
  mkTask (ts_id t) (ts_job t) 1%positive (ts_role t) (ts_prio t) r r (is_empty eps r) (ts_preempt t)
         (ts_status t) (ts_node t).

Definition empty_job (j : job_spec) : job :=
  mkJob (js_id j) (js_queue j) (js_min j) (list_to_map (js_role_min j))
        (fold_left (fun acc kv => acc + snd kv) (js_role_min j) 0) ∅ ∅ empty_res empty_res ∅ ∅.

Definition empty_node (n : node_spec) : node :=
  let a := if ns_has n then mk_alloc (ns_cpu n) (ns_mem n) (ns_pods n) (ns_gpu n) else empty_res in
  mkNode (ns_id n) (ns_has n) a empty_res empty_res empty_res a ∅.

Definition on_node_status (s : status) : bool :=
  match s with Succeeded | Failed => false | _ => true end.

(* the session as the harness builds it: NewJobInfo + AddTaskInfo per task,
   NewNodeInfo + AddTask for every non-terminated task that names the node *)
Definition build (nodes : list node_spec) (jobsl : list job_spec) (tasks : list task_spec) : sess :=
  let ts := map task_of_spec tasks in
  let heap0 : gmap positive task := list_to_map (map (fun t => (t_id t, t)) ts) in
  let jobs0 : gmap positive job :=
    list_to_map (map (fun j => (js_id j,
       fold_left (fun acc t => if bool_decide (t_job t = js_id j) then job_add acc t else acc) ts (empty_job j))) jobsl) in
  let nodes0 : gmap positive node :=
    list_to_map (map (fun n => (ns_id n,
       fold_left (fun acc t =>
          if bool_decide (t_node t = Some (ns_id n)) && on_node_status (t_status t) then
            match node_add eps acc t with inl (acc', _) => acc' | inr _ => acc end
          else acc) ts (empty_node n))) nodes) in
  (* the recorder's ledger starts, like proportion's, from the requests of the tasks that
     already hold resources *)
  let share0 : gmap positive res :=
    fold_left (fun acc t =>
       if allocated_status (t_status t) && bool_decide (is_Some (jobs0 !! t_job t)) then
         <[t_job t := add (default empty_res (acc !! t_job t)) (t_req t)]> acc
       else acc) ts ∅ in
  mkSess heap0 jobs0 nodes0 share0 [] ∅ ∅ ∅ [] [] ∅ ∅ true.

End WithEps.

(* ---------- encoders ---------- *)

Definition eSet (x : gset positive) : list Z := eList ePos (sort_pos (elements x)).
Definition eIndex (ix : gmap positive (gset positive)) : list Z :=
  eList (fun kv => Zpos (fst kv) :: eSet (snd kv)) (sort_kv (map_to_list ix)).
Definition eTaskBrief (t : task) : list Z := [Zpos (t_id t); Zpos (skey (t_status t))] ++ eNodeRef (t_node t).

Definition eJob (j : job) : list Z :=
  [Zpos (j_id j)] ++ eSet (j_tasks j) ++ eIndex (j_index j) ++ eRes (j_alloc j) ++ eRes (j_total j) ++
  eList (fun kv => Zpos (fst kv) :: eSet (sj_tasks (snd kv)) ++ eIndex (sj_index (snd kv)))
        (sort_kv (map_to_list (j_subs j))).

Definition eNode (n : node) : list Z :=
  [Zpos (n_id n)] ++ eRes (n_idle n) ++ eRes (n_used n) ++ eRes (n_releasing n) ++ eRes (n_pipelined n) ++
  eList (fun kv => eTaskBrief (snd kv)) (sort_kv (map_to_list (n_tasks n))).

Definition eOpKind (k : opkind) : Z := match k with KEvict => 0 | KPipeline => 1 | KAllocate => 2 end.

Definition nstmts : list positive := [1; 2; 3]%positive.

Definition eState (s : sess) : list Z :=
  eList (fun kv => eTaskBrief (snd kv)) (sort_kv (map_to_list (heap s))) ++
  eList (fun kv => eJob (snd kv)) (sort_kv (map_to_list (jobs s))) ++
  eList (fun kv => eNode (snd kv)) (sort_kv (map_to_list (nodes s))) ++
  eList (fun kv => Zpos (fst kv) :: eRes (snd kv)) (sort_kv (map_to_list (hshare s))) ++
  flat_map (fun sid => eList (fun o => [eOpKind (op_kind o); Zpos (op_task o)]) (default [] (stmts s !! sid))) nstmts.

Definition eResult (r : result) : Z :=
  match r with ROk => 0 | RErr => 1 | RFatal => 2 | RNoTask => 3 end.

(* ---------- decoders of operations ---------- *)
Definition dOp : dec op :=
  let* c := dZ in
  match c with
  | 1 => let* a := dPos in let* b := dPos in let* n := dPos in ret (OAllocate a b n)
  | 2 => let* a := dPos in let* b := dPos in let* n := dPos in ret (OPipeline a b n)
  | 3 => let* a := dPos in let* b := dPos in ret (OEvict a b)
  | 4 => let* a := dPos in let* b := dPos in ret (OEvictClone a b)
  | 5 => let* a := dPos in ret (OUnPipeline a)
  | 6 => let* a := dPos in ret (ODiscard a)
  | 7 => let* a := dPos in ret (OCommit a)
  | 8 => let* a := dPos in let* b := dPos in ret (OMerge a b)
  | 9 => let* a := dPos in let* b := dPos in ret (OSave a b)
  | 10 => let* a := dPos in let* b := dPos in ret (ORecover a b)
  | 11 => let* a := dPos in let* b := dPos in ret (OSsnAllocate a b)
  | 12 => let* a := dPos in let* b := dPos in ret (OSsnPipeline a b)
  | 13 => let* a := dPos in ret (OSsnEvict a)
  | 14 => let* a := dPos in ret (ODropJob a)
  | 15 => let* a := dPos in ret (ODropNode a)
  | 16 => let* a := dList dPos in let* b := dList dPos in let* c := dList dPos in let* j := dBool in
          ret (OSetFaults a b c j)
  | _ => fail
  end.

Definition op_code (o : op) : Z :=
  match o with
  | OAllocate _ _ _ => 1 | OPipeline _ _ _ => 2 | OEvict _ _ => 3 | OEvictClone _ _ => 4
  | OUnPipeline _ => 5 | ODiscard _ => 6 | OCommit _ => 7 | OMerge _ _ => 8 | OSave _ _ => 9
  | ORecover _ _ => 10 | OSsnAllocate _ _ => 11 | OSsnPipeline _ _ => 12 | OSsnEvict _ => 13
  | ODropJob _ => 14 | ODropNode _ => 15 | OSetFaults _ _ _ _ => 16
  end.
