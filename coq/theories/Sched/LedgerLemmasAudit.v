(* C07 proofs, part I (audit round): history form of the binder / evictor theorem, what a Commit
   hands to the binder and the evictor, what a Session.Allocate hands to the binder, and the
   skeleton form of "Discard restores". *)
From stdpp Require Import gmap.
From Coq Require Import ZArith Lia.
From V Require Import Base.Res Base.ResLemmas Sched.LedgerModel Sched.StmtModel Sched.GangModel
  Sched.LedgerInvP Sched.LedgerInv Sched.LedgerLemmasA Sched.LedgerLemmasJob Sched.LedgerLemmasNode
  Sched.LedgerLemmasSess Sched.LedgerLemmasSk Sched.LedgerLemmasTxn Sched.LedgerLemmasTxnN.
Open Scope Z_scope.

(* ---------- histories that never reach the binder / evictor ---------- *)
Theorem undecided_invisible_run eps ops : forall s,
  Forall (fun o => touches_cache o = false) ops ->
  binds (run eps s ops) = binds s /\ evicts (run eps s ops) = evicts s.
Proof.
  induction ops as [|o r IH]; intros s Hall; [split; reflexivity|].
  apply Forall_cons in Hall as [Ho Hr]. change (run eps s (o :: r)) with (run eps (fst (step eps s o)) r).
  destruct (IH (fst (step eps s o)) Hr) as [H1 H2]. destruct (undecided_invisible eps s o Ho) as [H3 H4].
  split; congruence.
Qed.

(* ---------- Discard restores: the skeleton form (stronger than sess_eqv) ---------- *)
Theorem discard_restores_skeleton eps s sid ops :
  sess_ok s -> default [] (stmts s !! sid) = [] -> NoDup (map tx_tid ops) -> Forall (tx_pre s) ops ->
  let s' := stmt_discard eps (run eps s (map (tx_op sid) ops)) sid in
  hv s' = hv s /\ jv s' = jv s /\ nv s' = nv s /\
  (forall k d, shamt (hshare s') k d = shamt (hshare s) k d) /\
  (forall j, j ∉ (list_to_set (map tx_tid ops) : gset positive) -> heap s' !! j = heap s !! j) /\
  default [] (stmts s' !! sid) = [].
Proof.
  intros Hok HL Hnd Hpre. cbv zeta.
  destruct (discard_chain eps sid ops s [] Hok HL Hnd Hpre) as (recs & Hst & Hhv & Hjv & Hnv & Hsh & Hloc & _ & _).
  unfold stmt_discard. rewrite Hst. cbn [app].
  set (s'' := fold_left (undo_op eps) (rev recs) (run eps s (map (tx_op sid) ops))) in *.
  split; [exact Hhv|]. split; [exact Hjv|]. split; [exact Hnv|]. split; [exact Hsh|].
  split; [intros j Hj; exact (proj1 Hloc j Hj)|]. simpl. rewrite lookup_insert. reflexivity.
Qed.

(* ---------- the refusal scripts only change through OSetFaults ---------- *)
Definition rf (s : sess) := (refuse_bind s, refuse_evict s).

Lemma rf_update s p st f s' p' : ssn_update_status s p st = (f, s', p') -> rf s' = rf s.
Proof.
  unfold ssn_update_status. destruct (jobs s !! t_job p); [destruct (job_update _ _ _ _)|]; intros [= <- <- <-]; reflexivity.
Qed.
Lemma rf_node_update eps s p s' p' f : ssn_node_update eps s p = (s', p', f) -> rf s' = rf s.
Proof.
  unfold ssn_node_update. destruct (t_node p); [destruct (nodes s !! _); [destruct (node_update _ _ _) as [[? ?]|?]|]|];
    intros [= <- <- <-]; reflexivity.
Qed.
Lemma rf_node_remove s p : rf (ssn_node_remove s p) = rf s.
Proof. unfold ssn_node_remove. destruct (t_node p); [destruct (nodes s !! _)|]; reflexivity. Qed.
Lemma rf_unallocate s p : rf (unallocate_with s p) = rf s.
Proof.
  unfold unallocate_with. destruct (ssn_update_status s p Pending) as [[f s1] p1] eqn:E.
  apply rf_update in E. change (rf (ssn_node_remove s1 p1) = rf s). rewrite rf_node_remove. exact E.
Qed.
Lemma rf_unevict eps s p prev : rf (fst (unevict_with eps s p prev)) = rf s.
Proof.
  unfold unevict_with. destruct (ssn_update_status s p _) as [[f s1] p1] eqn:E. apply rf_update in E.
  destruct (ssn_node_update eps s1 p1) as [[s2 p2] ft] eqn:E2. apply rf_node_update in E2.
  simpl. change (rf s2 = rf s). congruence.
Qed.

(* ---------- what a Commit hands to the binder and the evictor ---------- *)
Definition heap_ids (s : sess) : Prop := forall i t, heap s !! i = Some t -> t_id t = i.
Lemma sess_ok_ids s : sess_ok s -> heap_ids s.
Proof. intros ((Hh & _) & _) i t Ht. apply (Hh i t Ht). Qed.

Lemma sess_ok_commit_op eps s o : sess_ok s -> sess_ok (commit_op eps s o).
Proof.
  intros (Hl & Hw & Hs). pose proof (good_commit_op eps _ s o (good_init s Hl Hw Hs)) as Hg.
  split; [exact (proj1 Hg)|]. split; [exact (proj1 (proj2 Hg))|]. eapply good_saved_ok; eauto.
Qed.

(* one operation: at most one new entry, of the operation's own task, and only if not refused *)
Lemma commit_op_logs eps s o :
  heap_ids s ->
  rf (commit_op eps s o) = rf s /\
  exists lb le, binds (commit_op eps s o) = lb ++ binds s /\ evicts (commit_op eps s o) = le ++ evicts s /\
    (forall b, b ∈ lb -> op_kind o = KAllocate /\ fst b = op_task o /\ op_task o ∉ refuse_bind s) /\
    (forall e, e ∈ le -> op_kind o = KEvict /\ e = op_task o /\ op_task o ∉ refuse_evict s).
Proof.
  intros Hids. unfold commit_op. destruct (heap s !! op_task o) as [p|] eqn:E.
  2: { split; [reflexivity|]. exists [], []. split; [reflexivity|]. split; [reflexivity|]. split; intros ? Hx; inversion Hx. }
  pose proof (Hids _ _ E) as Hid.
  assert (Hnone : forall s', lg s' = lg s -> exists lb le, binds s' = lb ++ binds s /\ evicts s' = le ++ evicts s /\
            (forall b, b ∈ lb -> op_kind o = KAllocate /\ fst b = op_task o /\ op_task o ∉ refuse_bind s) /\
            (forall e, e ∈ le -> op_kind o = KEvict /\ e = op_task o /\ op_task o ∉ refuse_evict s)).
  { intros s' H. unfold lg in H. inversion H as [[H1 H2]]. exists [], []. rewrite H1, H2.
    split; [reflexivity|]. split; [reflexivity|]. split; intros ? Hx; inversion Hx. }
  destruct (op_kind o) eqn:Ek.
  - case_bool_decide as Hr.
    + split; [apply rf_unevict|]. apply Hnone, lg_unevict.
    + split; [reflexivity|]. exists [], [t_id p]. split; [reflexivity|]. split; [reflexivity|].
      split; [intros ? Hx; inversion Hx|]. intros e He. apply elem_of_list_singleton in He. subst e.
      rewrite Hid in *. auto.
  - split; [reflexivity|]. apply Hnone. reflexivity.
  - case_bool_decide as Hr.
    + split; [apply rf_unallocate|]. apply Hnone, lg_unallocate.
    + set (s1 := upd_logs s ((t_id p, t_node p) :: binds s) (evicts s)).
      destruct (ssn_update_status s1 p Binding) as [[f s2] p2] eqn:E2.
      pose proof (lg_update _ _ _ _ _ _ E2) as Hlg2. pose proof (rf_update _ _ _ _ _ _ E2) as Hrf2.
      assert (Hfin : forall s', lg s' = lg s2 -> rf s' = rf s2 -> rf s' = rf s /\ exists lb le,
                binds s' = lb ++ binds s /\ evicts s' = le ++ evicts s /\
                (forall b, b ∈ lb -> KAllocate = KAllocate /\ fst b = op_task o /\ op_task o ∉ refuse_bind s) /\
                (forall e, e ∈ le -> KAllocate = KEvict /\ e = op_task o /\ op_task o ∉ refuse_evict s)).
      { intros s' H1 H2. split; [rewrite H2, Hrf2; reflexivity|].
        rewrite Hlg2 in H1. unfold lg in H1. inversion H1 as [[Hb He]].
        exists [(t_id p, t_node p)], []. rewrite Hb, He. split; [reflexivity|]. split; [reflexivity|].
        split; [|intros ? Hx; inversion Hx]. intros b Hb'. apply elem_of_list_singleton in Hb'. subst b.
        simpl. rewrite Hid in *. auto. }
      destruct f; [apply Hfin; reflexivity|]. apply Hfin; [apply lg_unallocate|apply rf_unallocate].
Qed.

Lemma commit_fold_logs eps ops : forall s,
  sess_ok s ->
  let s' := fold_left (commit_op eps) ops s in
  sess_ok s' /\ rf s' = rf s /\
  exists lb le, binds s' = lb ++ binds s /\ evicts s' = le ++ evicts s /\
    (forall b, b ∈ lb -> exists o, o ∈ ops /\ op_kind o = KAllocate /\ fst b = op_task o /\ op_task o ∉ refuse_bind s) /\
    (forall e, e ∈ le -> exists o, o ∈ ops /\ op_kind o = KEvict /\ e = op_task o /\ op_task o ∉ refuse_evict s).
Proof.
  induction ops as [|o r IH]; intros s Hok; cbv zeta.
  - split; [exact Hok|]. split; [reflexivity|]. exists [], []. split; [reflexivity|]. split; [reflexivity|]. split; intros ? Hx; inversion Hx.
  - simpl. destruct (commit_op_logs eps s o (sess_ok_ids s Hok)) as (Hrf1 & lb1 & le1 & Hb1 & He1 & HB1 & HE1).
    destruct (IH (commit_op eps s o) (sess_ok_commit_op eps s o Hok)) as (Hok' & Hrf' & lb & le & Hb & He & HB & HE).
    pose proof Hrf1 as Hrf1'. unfold rf in Hrf1. inversion Hrf1 as [[Hrb Hre]].
    split; [exact Hok'|]. split; [rewrite Hrf'; exact Hrf1'|].
    exists (lb ++ lb1), (le ++ le1). rewrite Hb, He, Hb1, He1, !app_assoc.
    split; [reflexivity|]. split; [reflexivity|]. split.
    + intros b Hin. apply elem_of_app in Hin as [Hin|Hin].
      * destruct (HB b Hin) as (o' & Ho' & H1 & H2 & H3). exists o'. split; [right; exact Ho'|]. split; [exact H1|]. split; [exact H2|]. first [exact H3|rewrite <- Hrb; exact H3|rewrite Hrb; exact H3].
      * destruct (HB1 b Hin) as (H1 & H2 & H3). exists o. split; [left|]. split; [exact H1|]. split; [exact H2|]. first [exact H3|rewrite <- Hrb; exact H3|rewrite Hrb; exact H3].
    + intros e Hin. apply elem_of_app in Hin as [Hin|Hin].
      * destruct (HE e Hin) as (o' & Ho' & H1 & H2 & H3). exists o'. split; [right; exact Ho'|]. split; [exact H1|]. split; [exact H2|]. first [exact H3|rewrite <- Hre; exact H3|rewrite Hre; exact H3].
      * destruct (HE1 e Hin) as (H1 & H2 & H3). exists o. split; [left|]. split; [exact H1|]. split; [exact H2|]. first [exact H3|rewrite <- Hre; exact H3|rewrite Hre; exact H3].
Qed.

(* Commit of statement sid, for any number of recorded operations: the binder receives only
   Allocate operations recorded in sid whose bind the cache does not refuse, the evictor only
   Evict operations recorded in sid whose eviction it does not refuse; the statement is empty
   afterwards; the invariant holds *)
Theorem commit_logs_only_own eps s sid :
  sess_ok s ->
  let s' := stmt_commit eps s sid in
  let ops := default [] (stmts s !! sid) in
  sess_ok s' /\ stmts s' !! sid = Some [] /\
  exists lb le, binds s' = lb ++ binds s /\ evicts s' = le ++ evicts s /\
    (forall b, b ∈ lb -> exists o, o ∈ ops /\ op_kind o = KAllocate /\ fst b = op_task o /\ op_task o ∉ refuse_bind s) /\
    (forall e, e ∈ le -> exists o, o ∈ ops /\ op_kind o = KEvict /\ e = op_task o /\ op_task o ∉ refuse_evict s).
Proof.
  intros Hok. cbv zeta. unfold stmt_commit.
  destruct (commit_fold_logs eps (default [] (stmts s !! sid)) s Hok) as (Hok' & _ & lb & le & Hb & He & HB & HE).
  split; [|split; [simpl; apply lookup_insert|]].
  - destruct Hok' as (A & B & C). split; [exact A|]. split; [exact B|exact C].
  - exists lb, le. simpl. auto.
Qed.

(* ---------- what a Session.Allocate hands to the binder ---------- *)

Lemma dispatch_logs s t :
  rf (fst (dispatch s t)) = rf s /\
  exists lb, binds (fst (dispatch s t)) = lb ++ binds s /\ evicts (fst (dispatch s t)) = evicts s /\
    (forall b, b ∈ lb -> fst b = t /\ t ∉ refuse_bind s).
Proof.
  unfold dispatch. destruct (heap s !! t) as [p|].
  2: { split; [reflexivity|]. exists []. split; [reflexivity|]. split; [reflexivity|]. intros ? Hx; inversion Hx. }
  case_bool_decide as Hr.
  { split; [reflexivity|]. exists []. split; [reflexivity|]. split; [reflexivity|]. intros ? Hx; inversion Hx. }
  set (s1 := upd_logs s ((t, t_node p) :: binds s) (evicts s)).
  destruct (ssn_update_status s1 p Binding) as [[f s2] p2] eqn:E2. cbn [fst].
  pose proof (lg_update _ _ _ _ _ _ E2) as Hlg. pose proof (rf_update _ _ _ _ _ _ E2) as Hrf.
  split; [exact Hrf|]. unfold lg in Hlg. inversion Hlg as [[Hb He]].
  exists [(t, t_node p)]. split; [first [exact Hb|reflexivity]|]. split; [first [exact He|reflexivity]|].
  intros b Hb'. apply elem_of_list_singleton in Hb'. subst b. auto.
Qed.

Lemma dispatch_all_logs l : forall s,
  rf (fst (dispatch_all s l)) = rf s /\
  exists lb, binds (fst (dispatch_all s l)) = lb ++ binds s /\ evicts (fst (dispatch_all s l)) = evicts s /\
    (forall b, b ∈ lb -> fst b ∈ l /\ fst b ∉ refuse_bind s).
Proof.
  induction l as [|t r IH]; intros s.
  - split; [reflexivity|]. exists []. split; [reflexivity|]. split; [reflexivity|]. intros ? Hx; inversion Hx.
  - simpl. destruct (dispatch_logs s t) as (Hrf1 & lb1 & Hb1 & He1 & HB1).
    destruct (dispatch s t) as [s1 ok]. cbn [fst] in *.
    assert (Hrb : refuse_bind s1 = refuse_bind s) by (unfold rf in Hrf1; congruence).
    destruct ok.
    + destruct (IH s1) as (Hrf & lb & Hb & He & HB). split; [congruence|].
      exists (lb ++ lb1). rewrite Hb, He, Hb1, He1, app_assoc. split; [reflexivity|]. split; [reflexivity|].
      intros b Hin. apply elem_of_app in Hin as [Hin|Hin].
      * destruct (HB b Hin) as [H1 H2]. split; [right; exact H1|congruence].
      * destruct (HB1 b Hin) as [H1 H2]. split; [rewrite H1; left|rewrite H1; exact H2].
    + cbn [fst]. assert (Hfin : forall s', lg s' = lg s1 -> rf s' = rf s1 -> rf s' = rf s /\
               exists lb, binds s' = lb ++ binds s /\ evicts s' = evicts s /\
                 (forall b, b ∈ lb -> fst b ∈ t :: r /\ fst b ∉ refuse_bind s)).
      { intros s' H1 H2. split; [congruence|]. unfold lg in H1. inversion H1 as [[Hb He]].
        exists lb1. rewrite Hb, He. split; [exact Hb1|]. split; [exact He1|].
        intros b Hin. destruct (HB1 b Hin) as [Hx Hy]. split; [rewrite Hx; left|rewrite Hx; exact Hy]. }
      destruct (heap s1 !! t) as [p|]; [apply Hfin; [apply lg_unallocate|apply rf_unallocate]|apply Hfin; reflexivity].
Qed.

Lemma idx_set_del_subset ix st t s' : idx_set (idx_del ix st t) s' ⊆ idx_set ix s'.
Proof. rewrite idx_set_del. destruct (decide (st = s')) as [->|]; set_solver. Qed.

Lemma job_update_alloc_index h j p :
  idx_set (j_index (fst (job_update h j p Allocated))) Allocated ⊆ {[t_id p]} ∪ idx_set (j_index j) Allocated.
Proof.
  unfold job_update. cbn [fst]. unfold job_add at 1. cbn [j_index]. rewrite idx_set_add.
  destruct (decide (Allocated = Allocated)) as [_|Hne]; [|congruence]. cbn [t_status set_status t_id].
  apply union_mono_l.
  case_bool_decide; [|reflexivity]. destruct (h !! t_id p); [|reflexivity].
  unfold job_del. cbn [j_index]. apply idx_set_del_subset.
Qed.

(* Session.Allocate / Pipeline: the binder receives only the task the call was made with and
   tasks the job's Allocated index held before the call, and none whose bind the cache refuses;
   the evictor receives nothing.  (It does receive tasks of that index that an OPEN statement
   placed: known finding C07-session-allocate-dispatches-open-statement-task.) *)
Theorem ssn_place_binds eps jr s k tid nid :
  exists lb, binds (fst (ssn_place_with eps jr s k tid nid)) = lb ++ binds s /\
    evicts (fst (ssn_place_with eps jr s k tid nid)) = evicts s /\
    forall b, b ∈ lb ->
      k = KAllocate /\ fst b ∉ refuse_bind s /\
      exists p j, heap s !! tid = Some p /\ jobs s !! t_job p = Some j /\
                  (fst b = t_id p \/ fst b ∈ idx_set (j_index j) Allocated).
Proof.
  assert (Hnone : forall s', lg s' = lg s -> exists lb, binds s' = lb ++ binds s /\ evicts s' = evicts s /\
            forall b, b ∈ lb -> k = KAllocate /\ fst b ∉ refuse_bind s /\
              exists p j, heap s !! tid = Some p /\ jobs s !! t_job p = Some j /\
                          (fst b = t_id p \/ fst b ∈ idx_set (j_index j) Allocated)).
  { intros s' H. unfold lg in H. inversion H as [[H1 H2]]. exists []. rewrite H1, H2.
    split; [reflexivity|]. split; [reflexivity|]. intros ? Hx; inversion Hx. }
  unfold ssn_place_with. destruct (heap s !! tid) as [p|] eqn:Eh; [|apply Hnone; reflexivity].
  destruct (ssn_update_status s p _) as [[f s1] p1] eqn:E1.
  destruct f; cbn [negb]; [|apply Hnone; reflexivity].
  unfold ssn_update_status in E1. destruct (jobs s !! t_job p) as [j|] eqn:Ej; [|discriminate E1].
  destruct (job_update (heap s) j p _) as [j1 q1] eqn:Eju. injection E1 as <- <-.
  set (s1 := put_task (upd_jobs s (<[t_job p := j1]> (jobs s))) q1).
  set (p1 := q1).
  set (p2 := set_node p1 (Some nid)). set (s2 := put_task s1 p2).
  assert (Hrev : lg (let '(_, sr, pr) := ssn_update_status s2 p2 Pending in put_task sr (set_node pr None)) = lg s).
  { destruct (ssn_update_status s2 p2 Pending) as [[fr sr] pr] eqn:Er. apply lg_update in Er.
    change (lg sr = lg s). rewrite Er. reflexivity. }
  destruct (nodes s2 !! nid) as [n|]; [|apply Hnone, Hrev].
  destruct (node_add eps n p2) as [[n' p3]|e]; [|apply Hnone, Hrev].
  unfold h_alloc. cbv beta iota zeta.
  match goal with |- context [upd_handlers ?a ?b ?c] => set (s4 := upd_handlers a b c) end.
  assert (Hlg4 : lg s4 = lg s) by reflexivity.
  destruct k; try (apply Hnone; exact Hlg4).
  change (jobs s4) with (<[t_job p := j1]> (jobs s)). rewrite lookup_insert.
  destruct (jr s4 j1); [|apply Hnone; exact Hlg4].
  destruct (dispatch_all_logs (elements (default ∅ (j_index j1 !! skey Allocated))) s4) as (_ & lb & Hb & He & HB).
  destruct (dispatch_all s4 _) as [s5 ok]. cbn [fst] in *.
  exists lb. split; [rewrite Hb; reflexivity|]. split; [rewrite He; reflexivity|].
  intros b Hin. destruct (HB b Hin) as [H1 H2]. split; [reflexivity|]. split; [exact H2|].
  exists p, j. split; [first [exact Eh|reflexivity]|]. split; [first [exact Ej|reflexivity]|].
  apply elem_of_elements in H1. change (default ∅ (j_index j1 !! skey Allocated)) with (idx_set (j_index j1) Allocated) in H1.
  assert (Hj1 : j1 = fst (job_update (heap s) j p Allocated)) by (change (place_status KAllocate) with Allocated in Eju; rewrite Eju; reflexivity).
  rewrite Hj1 in H1. apply job_update_alloc_index in H1. apply elem_of_union in H1 as [H1|H1]; [left; set_solver|right; exact H1].
Qed.
