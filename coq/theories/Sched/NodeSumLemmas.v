(* Property C02 in its own words (audit W1): the node ledger IS the sum of the requests of the
   copies the node holds, and stays so under AddTask / RemoveTask, hence along every cycle of the
   action skeleton; together with "within capacity" this gives, for every reached state,
       sum of the requests of the held non-pipelined copies  <  allocatable + eps
       sum of the pipelined requests  <  (allocatable - staying) + eps
   per guarded dimension (<= exactly on a grid of step >= eps). *)
From stdpp Require Import gmap.
From Coq Require Import ZArith Lia.
From V Require Import Base.Res Base.ResLemmas Sched.LedgerModel Sched.StmtModel Sched.GangModel Sched.CycleModel
                      Sched.LedgerInvP Sched.NodeCapLemmas Sched.NodeCapLemmasCycle.
Open Scope Z_scope.

(* ---------- sums over the copies of a node ---------- *)

Lemma sum_amt_perm (f : task -> Z) l l' : l ≡ₚ l' -> sum_amt f l = sum_amt f l'.
Proof. induction 1; simpl; lia. Qed.

Definition csum (f : task -> Z) (m : gmap positive task) : Z := sum_amt f (map snd (map_to_list m)).

Lemma csum_copies f n : sum_amt f (copies n) = csum f (n_tasks n).
Proof. reflexivity. Qed.

Lemma csum_insert f m k c : m !! k = None -> csum f (<[k := c]> m) = f c + csum f m.
Proof.
  intros H. unfold csum. rewrite (sum_amt_perm f _ (map snd ((k, c) :: map_to_list m))); [reflexivity|].
  apply fmap_Permutation. apply map_to_list_insert. exact H.
Qed.

Lemma csum_delete f m k c : m !! k = Some c -> csum f m = f c + csum f (delete k m).
Proof.
  intros H. unfold csum. rewrite (sum_amt_perm f _ (map snd ((k, c) :: map_to_list (delete k m)))); [reflexivity|].
  apply fmap_Permutation. symmetry. apply map_to_list_delete. exact H.
Qed.

Lemma csum_nonneg f m : (forall k c, m !! k = Some c -> 0 <= f c) -> 0 <= csum f m.
Proof.
  intros H. unfold csum.
  assert (Hall : Forall (fun c => 0 <= f c) (map snd (map_to_list m))).
  { apply Forall_forall. intros c Hc. apply elem_of_list_fmap in Hc as ([k c'] & -> & Hin). apply elem_of_map_to_list in Hin. apply (H k c' Hin). }
  induction Hall; simpl; lia.
Qed.

(* exactness of Resource.sub when the subtrahend is a non-negative part of the receiver: the
   nil-map exception only bites at scalars the receiver does not have, where a part is 0 *)
Lemma amt_sub_part x r d : 0 <= amt r d <= amt x d -> (sc x = None -> amt x d <= 0 \/ d = DCpu \/ d = DMem) ->
  amt (sub x r) d = amt x d - amt r d.
Proof.
  intros Hr Hnil. destruct (sc x) as [m|] eqn:Hm; [apply amt_sub_exact; congruence|].
  destruct d as [| |k]; simpl; try reflexivity.
  rewrite (sget_nil (sub x r)) by (apply sub_nil_drops_scalars; exact Hm).
  simpl in Hr. rewrite (sget_nil x) in * by exact Hm. lia.
Qed.

Lemma amt_sub_part' x r d : 0 <= amt r d <= amt x d -> amt (sub x r) d = amt x d - amt r d.
Proof.
  intros Hr. apply amt_sub_part; [exact Hr|]. intros Hm. destruct d as [| |k]; auto. left. simpl. rewrite (sget_nil x) by exact Hm. lia.
Qed.

(* ---------- the ledger identity ---------- *)

Definition node_sums (n : node) : Prop :=
  n_has_node n = true ->
  forall d, amt (n_idle n) d = amt (n_alloc n) d - csum (used_amt d) (n_tasks n) /\
            amt (n_releasing n) d = csum (rel_amt d) (n_tasks n) /\
            amt (n_pipelined n) d = csum (pip_amt d) (n_tasks n).

(* accounting invariant of a node: Idle has a scalar map (NewResource of the allocatable), the
   copies request non-negative amounts, and the ledger is the sum over the copies *)
Definition node_acct (n : node) : Prop :=
  (n_has_node n = true -> sc (n_idle n) <> None) /\
  (forall k c, n_tasks n !! k = Some c -> nonneg (t_req c)) /\
  node_sums n.

Lemma amts_of_copy d t i :
  used_amt d (set_node t i) = used_amt d t /\ rel_amt d (set_node t i) = rel_amt d t /\ pip_amt d (set_node t i) = pip_amt d t.
Proof. repeat split. Qed.

Section Sums.
Variable eps : Z.

Theorem node_add_acct n t n' t' :
  node_acct n -> nonneg (t_req t) -> node_add eps n t = inl (n', t') -> node_acct n'.
Proof.
  intros (Hsc & Hnn & Hsum) Ht Ha.
  pose proof (node_add_tasks eps _ _ _ _ Ha) as Htasks.
  assert (Hfresh : n_tasks n !! t_id t = None).
  { revert Ha. unfold node_add. destruct (bool_decide _); [discriminate|]. case_bool_decide as Hn; [discriminate|].
    intros _. destruct (n_tasks n !! t_id t); [exfalso; apply Hn; eauto|reflexivity]. }
  assert (Hnn' : forall k c, n_tasks n' !! k = Some c -> nonneg (t_req c)).
  { intros k c. rewrite Htasks. intros Hl. apply lookup_insert_Some in Hl as [[_ <-]|[_ Hl]]; [exact Ht|apply (Hnn _ _ Hl)]. }
  revert Ha. unfold node_add. destruct (bool_decide _); [discriminate|]. destruct (bool_decide _); [discriminate|].
  destruct (n_has_node n) eqn:Hh; simpl.
  2:{ intros Hq; inversion Hq; subst. split; [simpl; rewrite Hh; discriminate|]. split; [exact Hnn'|]. intros Hc. simpl in Hc. congruence. }
  assert (Hsc' : sc (n_idle n) <> None) by (apply Hsc; first [exact Hh|reflexivity]). clear Hsc. rename Hsc' into Hsc.
  assert (Hsum' : forall d, amt (n_idle n) d = amt (n_alloc n) d - csum (used_amt d) (n_tasks n) /\
            amt (n_releasing n) d = csum (rel_amt d) (n_tasks n) /\ amt (n_pipelined n) d = csum (pip_amt d) (n_tasks n)) by (apply Hsum; exact Hh).
  clear Hsum. rename Hsum' into Hsum.
  set (ti := set_node t (Some (n_id n))).
  assert (Hins : forall f, csum f (<[t_id t := ti]> (n_tasks n)) = f ti + csum f (n_tasks n)) by (intros f; apply csum_insert; exact Hfresh).
  assert (Hplain : forall rel, t_status t <> Pipelined -> (t_status t = Releasing -> forall d, amt rel d = amt (n_releasing n) d + amt (t_req t) d) ->
            (t_status t <> Releasing -> rel = n_releasing n) ->
            node_acct (node_with n (sub (n_idle n) (t_req t)) (add (n_used n) (t_req t)) rel (n_pipelined n) (<[t_id t := ti]> (n_tasks n)))).
  { intros rel Hnp Hrel1 Hrel2. split; [intros _; simpl; apply sc_sub_some; exact Hsc|]. split; [intros k c Hl; apply (Hnn' k c); rewrite Htasks; exact Hl|].
    intros _ d. simpl. rewrite !Hins. destruct (Hsum d) as (S1 & S2 & S3).
    rewrite amt_sub_exact by exact Hsc. unfold used_amt, rel_amt, pip_amt in *. subst ti. simpl.
    rewrite (bool_decide_eq_false_2 (t_status t = Pipelined)) by exact Hnp.
    case_bool_decide as Hr.
    - rewrite (Hrel1 Hr d). repeat split; lia.
    - rewrite (Hrel2 Hr). repeat split; lia. }
  destruct (t_status t) eqn:Est;
    try (intros Hq; inversion Hq; subst; apply Hplain; [discriminate|discriminate|reflexivity]).
  - (* Pipelined *)
    intros Hq; inversion Hq; subst. split; [intros _; exact Hsc|]. split; [intros k c Hl; apply (Hnn' k c); rewrite Htasks; exact Hl|].
    intros _ d. simpl. rewrite !Hins. destruct (Hsum d) as (S1 & S2 & S3). rewrite amt_add.
    unfold used_amt, rel_amt, pip_amt in *. subst ti. simpl. rewrite Est. simpl. repeat split; lia.
  - (* Binding *)
    destruct (less_equal_names _ _ _ _); [|discriminate].
    intros Hq; inversion Hq; subst; apply Hplain; [discriminate|discriminate|reflexivity].
  - (* Releasing *)
    intros Hq; inversion Hq; subst. apply Hplain; [discriminate|intros _ d; apply amt_add|intros Hc; exfalso; apply Hc; reflexivity].
Qed.

Theorem node_remove_acct n tid : node_acct n -> node_acct (node_remove n tid).
Proof.
  intros (Hsc & Hnn & Hsum). unfold node_remove. destruct (n_tasks n !! tid) as [c|] eqn:Hl; [|split; [exact Hsc|split; [exact Hnn|exact Hsum]]].
  assert (Hnn' : forall k c', delete tid (n_tasks n) !! k = Some c' -> nonneg (t_req c')).
  { intros k c' Hl'. apply lookup_delete_Some in Hl' as [_ Hl']. apply (Hnn _ _ Hl'). }
  destruct (n_has_node n) eqn:Hh; simpl.
  2:{ split; [simpl; rewrite Hh; discriminate|]. split; [exact Hnn'|]. intros Hc. simpl in Hc. congruence. }
  assert (Hsc' : sc (n_idle n) <> None) by (apply Hsc; first [exact Hh|reflexivity]). clear Hsc. rename Hsc' into Hsc.
  assert (Hsum' : forall d, amt (n_idle n) d = amt (n_alloc n) d - csum (used_amt d) (n_tasks n) /\
            amt (n_releasing n) d = csum (rel_amt d) (n_tasks n) /\ amt (n_pipelined n) d = csum (pip_amt d) (n_tasks n)) by (apply Hsum; exact Hh).
  clear Hsum. rename Hsum' into Hsum. pose proof (Hnn _ _ Hl) as Hc.
  assert (Hdel : forall f, csum f (n_tasks n) = f c + csum f (delete tid (n_tasks n))) by (intros f; apply csum_delete; exact Hl).
  assert (Hpos : forall d (f : dim -> task -> Z), (forall c', 0 <= f d c') -> 0 <= csum (f d) (delete tid (n_tasks n))).
  { intros d f Hf. apply csum_nonneg. intros; apply Hf. }
  assert (Hrelpos : forall d c', nonneg (t_req c') -> 0 <= rel_amt d c') by (intros d c' H; unfold rel_amt; case_bool_decide; [apply H|lia]).
  assert (Hpippos : forall d c', nonneg (t_req c') -> 0 <= pip_amt d c') by (intros d c' H; unfold pip_amt; case_bool_decide; [apply H|lia]).
  assert (Hrest_rel : forall d, 0 <= csum (rel_amt d) (delete tid (n_tasks n))).
  { intros d. apply csum_nonneg. intros k c' Hl'. apply Hrelpos. apply (Hnn' _ _ Hl'). }
  assert (Hrest_pip : forall d, 0 <= csum (pip_amt d) (delete tid (n_tasks n))).
  { intros d. apply csum_nonneg. intros k c' Hl'. apply Hpippos. apply (Hnn' _ _ Hl'). }
  assert (Hplain : t_status c <> Pipelined -> t_status c <> Releasing ->
            node_acct (node_with n (add (n_idle n) (t_req c)) (sub (n_used n) (t_req c)) (n_releasing n) (n_pipelined n) (delete tid (n_tasks n)))).
  { intros Hnp Hnr. split; [intros _; simpl; apply sc_add_some; exact Hsc|]. split; [exact Hnn'|].
    intros _ d. simpl. destruct (Hsum d) as (S1 & S2 & S3). rewrite (Hdel (used_amt d)) in S1. rewrite (Hdel (rel_amt d)) in S2. rewrite (Hdel (pip_amt d)) in S3.
    unfold used_amt at 1 in S1. unfold rel_amt at 1 in S2. unfold pip_amt at 1 in S3.
    rewrite (bool_decide_eq_false_2 _ Hnp) in S1, S3. rewrite (bool_decide_eq_false_2 _ Hnr) in S2.
    rewrite amt_add. repeat split; lia. }
  destruct (t_status c) eqn:Est; try (apply Hplain; discriminate).
  - (* Pipelined *)
    split; [intros _; exact Hsc|]. split; [exact Hnn'|]. intros _ d. simpl.
    destruct (Hsum d) as (S1 & S2 & S3). rewrite (Hdel (used_amt d)) in S1. rewrite (Hdel (rel_amt d)) in S2. rewrite (Hdel (pip_amt d)) in S3.
    unfold used_amt at 1 in S1. unfold rel_amt at 1 in S2. unfold pip_amt at 1 in S3. rewrite Est in S1, S2, S3. simpl in S1, S2, S3.
    rewrite amt_sub_part' by (specialize (Hc d); specialize (Hrest_pip d); lia). repeat split; lia.
  - (* Releasing *)
    split; [intros _; simpl; apply sc_add_some; exact Hsc|]. split; [exact Hnn'|]. intros _ d. simpl.
    destruct (Hsum d) as (S1 & S2 & S3). rewrite (Hdel (used_amt d)) in S1. rewrite (Hdel (rel_amt d)) in S2. rewrite (Hdel (pip_amt d)) in S3.
    unfold used_amt at 1 in S1. unfold rel_amt at 1 in S2. unfold pip_amt at 1 in S3. rewrite Est in S1, S2, S3. simpl in S1, S2, S3.
    rewrite amt_add. rewrite amt_sub_part' by (specialize (Hc d); specialize (Hrest_rel d); lia). repeat split; lia.
Qed.

(* the allocatable is never touched *)
Lemma node_add_alloc n t n' t' : node_add eps n t = inl (n', t') -> n_alloc n' = n_alloc n /\ n_has_node n' = n_has_node n.
Proof.
  unfold node_add. repeat case_bool_decide; try discriminate.
  destruct (n_has_node n) eqn:Hh; simpl; [|intros Hq; inversion Hq; subst; simpl; auto].
  destruct (t_status t); try (intros Hq; inversion Hq; subst; simpl; split; [reflexivity|exact Hh]).
  destruct (less_equal_names _ _ _ _); [intros Hq; inversion Hq; subst; simpl; split; [reflexivity|exact Hh]|discriminate].
Qed.

Lemma node_remove_alloc n tid : n_alloc (node_remove n tid) = n_alloc n /\ n_has_node (node_remove n tid) = n_has_node n.
Proof.
  unfold node_remove. destruct (n_tasks n !! tid) as [c|]; [|auto].
  destruct (n_has_node n) eqn:Hh; simpl; [|auto]. destruct (t_status c); simpl; auto.
Qed.

Definition nodes_acct (ns : gmap positive node) : Prop := forall i n, ns !! i = Some n -> node_acct n.

(* a sequence of RemoveTask / AddTask calls keeps the accounting of every node *)
Theorem nsteps_acct a b : nsteps eps a b -> nodes_acct a -> nodes_acct b.
Proof.
  induction 1 as [|ns nid n tid ns' Hl _ IH|ns nid n t n' t' ns' Hl Hnn Hg Ha _ IH]; intros Hs; [exact Hs| |].
  - apply IH. intros i m Hm. apply lookup_insert_Some in Hm as [[_ <-]|[_ Hm]]; [apply node_remove_acct; apply (Hs _ _ Hl)|apply (Hs _ _ Hm)].
  - apply IH. intros i m Hm. apply lookup_insert_Some in Hm as [[_ <-]|[_ Hm]]; [eapply node_add_acct; eauto|apply (Hs _ _ Hm)].
Qed.

(* ---------- the property's wording ---------- *)

(* what a node that is within capacity and accounts for its copies holds *)
Theorem sums_within_allocatable n d :
  node_within_capacity eps n -> node_acct n -> n_has_node n = true -> guarded_dim d ->
  csum (used_amt d) (n_tasks n) < amt (n_alloc n) d + eps /\
  csum (pip_amt d) (n_tasks n) < (amt (n_alloc n) d - (csum (used_amt d) (n_tasks n) - csum (rel_amt d) (n_tasks n))) + eps.
Proof.
  intros [_ Hc] (_ & _ & Hsum) Hh Hd. destruct (Hc d Hd) as [H1 H2]. destruct (Hsum Hh d) as (S1 & S2 & S3). lia.
Qed.

Section Run.
Hypothesis eps_pos : 0 < eps.

Lemma step_acct w o : world_ok eps w -> nodes_acct (nodes (w_sess w)) -> nodes_acct (nodes (w_sess (fst (step eps w o)))).
Proof. intros Hw Ha. eapply nsteps_acct; [apply (step_nodes eps eps_pos w o Hw)|exact Ha]. Qed.

Lemma run_acct ops : forall w, world_ok eps w -> nodes_acct (nodes (w_sess w)) -> nodes_acct (nodes (w_sess (run eps w ops))).
Proof.
  induction ops as [|o ops IH]; intros w Hw Ha; [exact Ha|]. simpl. apply IH; [apply step_world_ok; assumption|apply step_acct; assumption].
Qed.

(* W1, cycles: in every state reached by any list of allocate attempts and backfill placements,
   from a world within capacity whose node ledgers account for their copies: the summed requests of
   the tasks a node holds (all but the pipelined ones) stay below allocatable + eps, and the
   pipelined requests below what will be free once the terminating tasks are gone + eps *)
Theorem cycle_sums_within_allocatable w ops k i n d :
  world_ok eps w -> nodes_acct (nodes (w_sess w)) ->
  nodes (w_sess (run eps w (take k ops))) !! i = Some n -> n_has_node n = true -> guarded_dim d ->
  csum (used_amt d) (n_tasks n) < amt (n_alloc n) d + eps /\
  csum (pip_amt d) (n_tasks n) < (amt (n_alloc n) d - (csum (used_amt d) (n_tasks n) - csum (rel_amt d) (n_tasks n))) + eps.
Proof.
  intros Hw Ha Hl Hh Hd. apply sums_within_allocatable; [|apply (run_acct (take k ops) w Hw Ha _ _ Hl)|exact Hh|exact Hd].
  apply (cycle_no_overcommit eps eps_pos w ops k i n Hw Hl).
Qed.

End Run.
End Sums.

(* on the integer grid the tolerance disappears *)
Lemma csum_divide g (f : task -> Z) m : (forall k c, m !! k = Some c -> (g | f c)) -> (g | csum f m).
Proof.
  intros H. unfold csum. apply sum_amt_divide. apply Forall_forall. intros c Hc.
  apply elem_of_list_fmap in Hc as ([k c'] & -> & Hin). apply elem_of_map_to_list in Hin. apply (H k c' Hin).
Qed.

Definition node_on_grid (g : Z) (n : node) (d : dim) : Prop :=
  (g | amt (n_alloc n) d) /\ forall k c, n_tasks n !! k = Some c -> (g | amt (t_req c) d).

Theorem sums_within_allocatable_grid eps g n d :
  0 < eps -> eps <= g ->
  node_within_capacity eps n -> node_acct n -> n_has_node n = true -> guarded_dim d -> node_on_grid g n d ->
  csum (used_amt d) (n_tasks n) <= amt (n_alloc n) d /\
  csum (pip_amt d) (n_tasks n) <= amt (n_alloc n) d - (csum (used_amt d) (n_tasks n) - csum (rel_amt d) (n_tasks n)).
Proof.
  intros He Hg Hc Ha Hh Hd [Galloc Gc]. destruct (sums_within_allocatable eps n d Hc Ha Hh Hd) as [H1 H2].
  assert (Du : (g | csum (used_amt d) (n_tasks n))).
  { apply csum_divide. intros k c Hl. unfold used_amt. case_bool_decide; [apply Z.divide_0_r|apply (Gc _ _ Hl)]. }
  assert (Dr : (g | csum (rel_amt d) (n_tasks n))).
  { apply csum_divide. intros k c Hl. unfold rel_amt. case_bool_decide; [apply (Gc _ _ Hl)|apply Z.divide_0_r]. }
  assert (Dp : (g | csum (pip_amt d) (n_tasks n))).
  { apply csum_divide. intros k c Hl. unfold pip_amt. case_bool_decide; [apply (Gc _ _ Hl)|apply Z.divide_0_r]. }
  assert (D1 : (g | amt (n_alloc n) d - csum (used_amt d) (n_tasks n))) by (apply Z.divide_sub_r; assumption).
  assert (D2 : (g | amt (n_alloc n) d - (csum (used_amt d) (n_tasks n) - csum (rel_amt d) (n_tasks n)) - csum (pip_amt d) (n_tasks n))).
  { repeat apply Z.divide_sub_r; assumption. }
  pose proof (above_minus_eps_nonneg eps g He Hg _ D1). pose proof (above_minus_eps_nonneg eps g He Hg _ D2). lia.
Qed.
