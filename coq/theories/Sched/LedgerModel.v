(* Model of the scheduler's in-session bookkeeping:
     pkg/scheduler/api/job_info.go   AddTaskInfo / DeleteTaskInfo / UpdateTaskStatus (700-754)
     pkg/scheduler/api/sub_job_info.go addTask / deleteTask (122-158)
     pkg/scheduler/api/node_info.go  AddTask / RemoveTask / UpdateTask / allocateIdleResource (426-515, 589-598)
   Executable definitions only.

   Pointers: every task has one canonical object (the pointer JobInfo.Tasks holds
   and the actions pass around); the model keeps them in [heap] by task id.
   NodeInfo.Tasks holds CLONES (status and node name frozen at insertion).
   A caller may pass a different object for the same task (a clone of the
   node's copy in preempt/reclaim, a saved clone in RecoverOperations): the
   functions below therefore take the passed task VALUE, and the heap entry is
   replaced by it where the Go code stores the passed pointer. *)
From stdpp Require Import gmap.
From Coq Require Import ZArith.
From V Require Import Base.Res.
Open Scope Z_scope.

Inductive status :=
  Pending | Allocated | Pipelined | Binding | Bound | Running | Releasing | Succeeded | Failed | Unknown.

Global Instance status_eq_dec : EqDecision status.
Proof. solve_decision. Defined.

(* key of a status in TaskStatusIndex *)
Definition skey (s : status) : positive :=
  match s with
  | Pending => 1 | Allocated => 2 | Pipelined => 3 | Binding => 4 | Bound => 5
  | Running => 6 | Releasing => 7 | Succeeded => 8 | Failed => 9 | Unknown => 10
  end%positive.

Definition status_of_key (k : positive) : option status :=
  match k with
  | 1 => Some Pending | 2 => Some Allocated | 3 => Some Pipelined | 4 => Some Binding
  | 5 => Some Bound | 6 => Some Running | 7 => Some Releasing | 8 => Some Succeeded
  | 9 => Some Failed | 10 => Some Unknown | _ => None
  end%positive.

(* api.AllocatedStatus *)
Definition allocated_status (s : status) : bool :=
  match s with Bound | Binding | Running | Allocated => true | _ => false end.

Record task := mkTask {
  t_id : positive;
  t_job : positive;
  t_sub : positive;          (* sub-job the task belongs to (fixed by its labels) *)
  t_role : positive;         (* TaskRole *)
  t_prio : Z;
  t_req : res;               (* Resreq *)
  t_init : res;              (* InitResreq *)
  t_best_effort : bool;
  t_preemptable : bool;
  t_status : status;
  t_node : option positive;  (* NodeName; None = "" *)
}.

Definition set_status (t : task) (s : status) : task :=
  mkTask (t_id t) (t_job t) (t_sub t) (t_role t) (t_prio t) (t_req t) (t_init t)
         (t_best_effort t) (t_preemptable t) s (t_node t).
Definition set_node (t : task) (n : option positive) : task :=
  mkTask (t_id t) (t_job t) (t_sub t) (t_role t) (t_prio t) (t_req t) (t_init t)
         (t_best_effort t) (t_preemptable t) (t_status t) n.

Notation index := (gmap positive (gset positive)).   (* status key -> task ids *)

Definition idx_add (ix : index) (s : status) (t : positive) : index :=
  <[skey s := {[t]} ∪ default ∅ (ix !! skey s)]> ix.

(* deleteTaskIndex: remove the id; drop the status entry when it becomes empty *)
Definition idx_del (ix : index) (s : status) (t : positive) : index :=
  match ix !! skey s with
  | None => ix
  | Some ts => let ts' := ts ∖ {[t]} in
               if bool_decide (ts' = ∅) then delete (skey s) ix else <[skey s := ts']> ix
  end.

Record subjob := mkSub {
  sj_min : Z;                          (* SubJobInfo.MinAvailable *)
  sj_tasks : gset positive;
  sj_index : index;
}.

Record job := mkJob {
  j_id : positive;
  j_queue : positive;
  j_min : Z;                          (* MinAvailable *)
  j_role_min : gmap positive Z;       (* TaskMinAvailable: role -> minimum *)
  j_role_total : Z;                   (* TaskMinAvailableTotal *)
  j_tasks : gset positive;            (* keys of JobInfo.Tasks *)
  j_index : index;                    (* TaskStatusIndex *)
  j_alloc : res;                      (* Allocated *)
  j_total : res;                      (* TotalRequest *)
  j_subs : gmap positive subjob;      (* SubJobs *)
  j_task_sub : gmap positive positive (* TaskToSubJob *)
}.

Record node := mkNode {
  n_id : positive;
  n_has_node : bool;                  (* ni.Node != nil *)
  n_idle : res; n_used : res; n_releasing : res; n_pipelined : res;
  n_alloc : res;                      (* Allocatable *)
  n_tasks : gmap positive task;       (* clones, keyed by pod key = task id *)
}.

Section WithEps.
Variable eps : Z.

(* ---------- JobInfo ---------- *)

(* getOrCreateDefaultSubJob: SubGroupSize = the job's MinAvailable when there is no policy *)
Definition empty_sub (j : job) : subjob := mkSub (j_min j) ∅ ∅.

(* JobInfo.AddTaskInfo(ti) *)
Definition job_add (j : job) (t : task) : job :=
  let sj := default (empty_sub j) (j_subs j !! t_sub t) in
  mkJob (j_id j) (j_queue j) (j_min j) (j_role_min j) (j_role_total j)
    ({[t_id t]} ∪ j_tasks j)
    (idx_add (j_index j) (t_status t) (t_id t))
    (if allocated_status (t_status t) then add (j_alloc j) (t_req t) else j_alloc j)
    (add (j_total j) (t_req t))
    (<[t_sub t := mkSub (sj_min sj) ({[t_id t]} ∪ sj_tasks sj) (idx_add (sj_index sj) (t_status t) (t_id t))]> (j_subs j))
    (<[t_id t := t_sub t]> (j_task_sub j)).

(* JobInfo.DeleteTaskInfo(ti): everything is keyed by the STORED object
   ji.Tasks[ti.UID] (its request for the sums, its status for the job-level and
   the sub-job index).  [Before fix bde0fb5 the sub-job bookkeeping used the
   caller's object; see job_del_prefix in C07/Refuted.v.] *)
Definition job_del (j : job) (stored : task) : job :=
  let subs :=
    match j_task_sub j !! t_id stored with
    | Some sid =>
      match j_subs j !! sid with
      | Some sj => <[sid := mkSub (sj_min sj) (sj_tasks sj ∖ {[t_id stored]})
                                  (idx_del (sj_index sj) (t_status stored) (t_id stored))]> (j_subs j)
      | None => j_subs j
      end
    | None => j_subs j
    end in
  mkJob (j_id j) (j_queue j) (j_min j) (j_role_min j) (j_role_total j)
    (j_tasks j ∖ {[t_id stored]})
    (idx_del (j_index j) (t_status stored) (t_id stored))
    (if allocated_status (t_status stored) then sub (j_alloc j) (t_req stored) else j_alloc j)
    (sub (j_total j) (t_req stored))
    subs
    (delete (t_id stored) (j_task_sub j)).

(* JobInfo.UpdateTaskStatus(task, status): returns the job and the new value of
   the (passed) task object, which is now the one the job holds *)
Definition job_update (heap : gmap positive task) (j : job) (passed : task) (s : status) : job * task :=
  let j1 :=
    if bool_decide (t_id passed ∈ j_tasks j) then
      match heap !! t_id passed with
      | Some stored => job_del j stored
      | None => j           (* unreachable under the heap invariant *)
      end
    else j in
  let p' := set_status passed s in
  (job_add j1 p', p').

(* ---------- NodeInfo ---------- *)

Inductive add_err := ErrDifferentNode | ErrAlreadyOnNode | ErrInsufficient.

Definition node_with (n : node) (idle used rel pip : res) (ts : gmap positive task) : node :=
  mkNode (n_id n) (n_has_node n) idle used rel pip (n_alloc n) ts.

(* NodeInfo.AddTask(task): the node stores a clone with NodeName = ni.Name; the
   caller's object gets NodeName = ni.Name too (second component) *)
Definition node_add (n : node) (t : task) : (node * task) + add_err :=
  if bool_decide (t_node t <> None /\ t_node t <> Some (n_id n)) then inr ErrDifferentNode
  else if bool_decide (is_Some (n_tasks n !! t_id t)) then inr ErrAlreadyOnNode
  else
    let ti := set_node t (Some (n_id n)) in
    let r := t_req t in
    let ok n' := inl (n', set_node t (Some (n_id n))) in
    if negb (n_has_node n) then ok (node_with n (n_idle n) (n_used n) (n_releasing n) (n_pipelined n) (<[t_id t := ti]> (n_tasks n)))
    else match t_status t with
    | Releasing =>
        ok (node_with n (sub (n_idle n) r) (add (n_used n) r) (add (n_releasing n) r) (n_pipelined n)
                      (<[t_id t := ti]> (n_tasks n)))
    | Pipelined =>
        ok (node_with n (n_idle n) (n_used n) (n_releasing n) (add (n_pipelined n) r)
                      (<[t_id t := ti]> (n_tasks n)))
    | Binding =>
        if less_equal_names eps r (n_idle n) DZero then
          ok (node_with n (sub (n_idle n) r) (add (n_used n) r) (n_releasing n) (n_pipelined n)
                        (<[t_id t := ti]> (n_tasks n)))
        else inr ErrInsufficient
    | _ =>
        ok (node_with n (sub (n_idle n) r) (add (n_used n) r) (n_releasing n) (n_pipelined n)
                      (<[t_id t := ti]> (n_tasks n)))
    end.

(* NodeInfo.RemoveTask(ti): accounting follows the status of the node's own copy *)
Definition node_remove (n : node) (tid : positive) : node :=
  match n_tasks n !! tid with
  | None => n
  | Some c =>
    let r := t_req c in
    let ts := delete tid (n_tasks n) in
    if negb (n_has_node n) then node_with n (n_idle n) (n_used n) (n_releasing n) (n_pipelined n) ts
    else match t_status c with
    | Releasing => node_with n (add (n_idle n) r) (sub (n_used n) r) (sub (n_releasing n) r) (n_pipelined n) ts
    | Pipelined => node_with n (n_idle n) (n_used n) (n_releasing n) (sub (n_pipelined n) r) ts
    | _ => node_with n (add (n_idle n) r) (sub (n_used n) r) (n_releasing n) (n_pipelined n) ts
    end
  end.

(* NodeInfo.UpdateTask(ti) = RemoveTask; AddTask (klog.Fatalf if the add fails) *)
Definition node_update (n : node) (t : task) : (node * task) + add_err :=
  node_add (node_remove n (t_id t)) t.

(* FutureIdle = Idle + Releasing - Pipelined *)
Definition future_idle (n : node) : res :=
  sub (add (n_idle n) (n_releasing n)) (n_pipelined n).

End WithEps.
