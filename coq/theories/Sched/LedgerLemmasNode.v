(* C07 proofs, part C: NodeInfo.AddTask / RemoveTask / UpdateTask preserve the node
   invariant (the four sums over the held copies and idle + used = allocatable). *)
From stdpp Require Import gmap.
From Coq Require Import ZArith Lia.
From V Require Import Base.Res Base.ResLemmas Sched.LedgerModel Sched.StmtModel Sched.GangModel
  Sched.LedgerInvP Sched.LedgerInv Sched.LedgerLemmasA.
Open Scope Z_scope.

(* the well-formedness the idle ledger needs: Resource.sub on a nil scalar map silently drops
   the subtrahend's scalars, so Idle of a real node must have a scalar map (NewResource of a
   node's allocatable always has one: it carries "pods") *)
Definition node_wf (n : node) : Prop := n_has_node n = true -> sc (n_idle n) <> None.

(* what the node invariant reads of the heap: the static fields *)
Definition heap_static (h h' : gmap positive task) : Prop :=
  forall i t, h !! i = Some t -> exists t', h' !! i = Some t' /\ t_req t' = t_req t /\ t_job t' = t_job t.

Lemma heap_static_refl h : heap_static h h.
Proof. intros i t Ht. eauto. Qed.

Lemma heap_static_insert h p :
  (forall x, h !! t_id p = Some x -> t_req x = t_req p /\ t_job x = t_job p) ->
  heap_static h (<[t_id p := p]> h).
Proof.
  intros H i t Ht. destruct (decide (i = t_id p)) as [->|Hne].
  - rewrite lookup_insert. exists p. destruct (H t Ht) as [-> ->]. auto.
  - rewrite lookup_insert_ne by congruence. eauto.
Qed.

Lemma node_inv_ext h h' n : heap_static h h' -> node_inv h n -> node_inv h' n.
Proof.
  intros Hs [Hc Hsum]. split; [|exact Hsum].
  intros i c Hi. destruct (Hc i c Hi) as (H1 & H2 & H3 & t & Ht & Hr & Hj).
  repeat split; try assumption. destruct (Hs i t Ht) as (t' & Ht' & Hr' & Hj').
  exists t'. split; [exact Ht'|]. split; congruence.
Qed.

Lemma copy_amts_nonneg h n c d :
  node_inv h n -> c ∈ copies n -> 0 <= used_amt d c /\ 0 <= rel_amt d c /\ 0 <= pip_amt d c.
Proof.
  intros [Hc _] Hin. apply elem_of_copies in Hin as (i & Hi).
  destruct (Hc i c Hi) as (_ & _ & Hnn & _). specialize (Hnn d).
  unfold used_amt, rel_amt, pip_amt. repeat case_bool_decide; lia.
Qed.

(* inserting a fresh copy, given how the four ledgers moved *)
Lemma node_with_insert_inv h n t idle used rel pip :
  node_inv h n -> n_tasks n !! t_id t = None -> nonneg (t_req t) ->
  (exists x, h !! t_id t = Some x /\ t_req x = t_req t /\ t_job x = t_job t) ->
  (n_has_node n = true -> forall d,
     amt used d = amt (n_used n) d + used_amt d t /\
     amt rel d = amt (n_releasing n) d + rel_amt d t /\
     amt pip d = amt (n_pipelined n) d + pip_amt d t /\
     amt idle d + amt used d = amt (n_alloc n) d) ->
  node_inv h (node_with n idle used rel pip (<[t_id t := set_node t (Some (n_id n))]> (n_tasks n))).
Proof.
  intros [Hc Hsum] Hnone Hnn Hx Hled. split.
  - intros i c. simpl. destruct (decide (i = t_id t)) as [->|Hne].
    + rewrite lookup_insert. intros [= <-]. simpl. split; [reflexivity|]. split; [reflexivity|]. split; [exact Hnn|exact Hx].
    + rewrite lookup_insert_ne by congruence. apply Hc.
  - intros Hhas. change (n_has_node n = true) in Hhas.
    destruct (Hsum Hhas) as (Hu & Hr & Hp & Hi). specialize (Hled Hhas).
    set (c := set_node t (Some (n_id n))).
    pose proof (copies_insert n (t_id t) c idle used rel pip Hnone) as Hperm.
    assert (Hcu : forall d, used_amt d c = used_amt d t) by reflexivity.
    assert (Hcr : forall d, rel_amt d c = rel_amt d t) by reflexivity.
    assert (Hcp : forall d, pip_amt d c = pip_amt d t) by reflexivity.
    cbn [n_used n_releasing n_pipelined n_idle n_alloc node_with].
    split; [|split; [|split]]; intros d; destruct (Hled d) as (L1 & L2 & L3 & L4);
      rewrite ?(sum_amt_perm _ _ _ Hperm), ?sum_amt_cons, ?Hcu, ?Hcr, ?Hcp, <- ?Hu, <- ?Hr, <- ?Hp; lia.
Qed.

(* removing a held copy, given how the four ledgers moved *)
Lemma node_with_delete_inv h n i c idle used rel pip :
  node_inv h n -> n_tasks n !! i = Some c ->
  (n_has_node n = true -> forall d,
     amt used d = amt (n_used n) d - used_amt d c /\
     amt rel d = amt (n_releasing n) d - rel_amt d c /\
     amt pip d = amt (n_pipelined n) d - pip_amt d c /\
     amt idle d + amt used d = amt (n_alloc n) d) ->
  node_inv h (node_with n idle used rel pip (delete i (n_tasks n))).
Proof.
  intros [Hc Hsum] Hi Hled. split.
  - intros k x. simpl. destruct (decide (k = i)) as [->|Hne].
    + rewrite lookup_delete. discriminate.
    + rewrite lookup_delete_ne by congruence. apply Hc.
  - intros Hhas. change (n_has_node n = true) in Hhas.
    destruct (Hsum Hhas) as (Hu & Hr & Hp & Hid). specialize (Hled Hhas).
    pose proof (copies_delete n i c idle used rel pip Hi) as Hperm.
    cbn [n_used n_releasing n_pipelined n_idle n_alloc node_with].
    split; [|split; [|split]]; intros d; destruct (Hled d) as (L1 & L2 & L3 & L4);
      [rewrite L1, Hu|rewrite L2, Hr|rewrite L3, Hp|exact L4];
      rewrite (sum_amt_perm _ _ _ Hperm), sum_amt_cons; lia.
Qed.

Lemma node_add_spec eps n t n' t' :
  node_add eps n t = inl (n', t') ->
  t' = set_node t (Some (n_id n)) /\ n_tasks n !! t_id t = None /\
  n_tasks n' = <[t_id t := set_node t (Some (n_id n))]> (n_tasks n) /\
  n_id n' = n_id n /\ n_has_node n' = n_has_node n /\ n_alloc n' = n_alloc n /\
  (t_node t = None \/ t_node t = Some (n_id n)).
Proof.
  unfold node_add. cbv zeta. case_bool_decide as H1; [discriminate|]. case_bool_decide as H2; [discriminate|].
  assert (Hn : n_tasks n !! t_id t = None).
  { destruct (n_tasks n !! t_id t) eqn:E; [exfalso; apply H2; eauto|reflexivity]. }
  assert (Hnode : t_node t = None \/ t_node t = Some (n_id n)).
  { destruct (t_node t) as [x|]; [|left; reflexivity]. right.
    destruct (decide (x = n_id n)) as [->|Hne]; [reflexivity|]. exfalso. apply H1. split; congruence. }
  destruct (n_has_node n) eqn:Hhas; simpl.
  - destruct (t_status t); try (intros [= <- <-]; repeat split; first [assumption|reflexivity|simpl; assumption]).
    destruct (less_equal_names eps (t_req t) (n_idle n) DZero); [|intros ?; discriminate].
    intros [= <- <-]; repeat split; first [assumption|reflexivity|simpl; assumption].
  - intros [= <- <-]; repeat split; first [assumption|reflexivity|simpl; assumption].
Qed.

(* AddTask: success keeps the invariant; the caller's object only gains NodeName (node_add_spec) *)
Theorem node_add_inv eps h n t n' t' :
  node_inv h n -> node_wf n -> nonneg (t_req t) ->
  (exists x, h !! t_id t = Some x /\ t_req x = t_req t /\ t_job x = t_job t) ->
  node_add eps n t = inl (n', t') ->
  node_inv h n' /\ node_wf n'.
Proof.
  intros Hinv Hwf Hnn Hx Hadd.
  destruct (node_add_spec _ _ _ _ _ Hadd) as (_ & Hnone & _).
  pose proof Hinv as [_ Hsum].
  revert Hadd. unfold node_add. cbv zeta. case_bool_decide as H1; [discriminate|]. case_bool_decide as H2; [discriminate|].
  destruct (n_has_node n) eqn:Hhas; simpl.
  - specialize (Hwf Hhas). destruct (Hsum eq_refl) as (_ & _ & _ & Hid).
    assert (Hsub : forall d, amt (sub (n_idle n) (t_req t)) d = amt (n_idle n) d - amt (t_req t) d)
      by (intros d; apply amt_sub_some, Hwf).
    assert (Hwf' : sc (sub (n_idle n) (t_req t)) <> None) by (apply sub_sc_some, Hwf).
    destruct (t_status t) eqn:Est;
      try (destruct (less_equal_names eps (t_req t) (n_idle n) DZero); [|intros ?; discriminate]);
      intros [= <- <-];
      (split; [apply node_with_insert_inv; try assumption;
               intros _ d; specialize (Hid d); unfold used_amt, rel_amt, pip_amt; rewrite Est; simpl;
               rewrite ?amt_add, ?Hsub; lia
              |intros _; simpl; assumption]).
  - intros [= <- <-]. split.
    + apply node_with_insert_inv; try assumption. rewrite Hhas. discriminate.
    + unfold node_wf. simpl. rewrite Hhas. discriminate.
Qed.

Lemma node_remove_none n i : n_tasks n !! i = None -> node_remove n i = n.
Proof. unfold node_remove. intros ->. reflexivity. Qed.

Lemma node_remove_fields n i :
  n_id (node_remove n i) = n_id n /\ n_has_node (node_remove n i) = n_has_node n /\
  n_alloc (node_remove n i) = n_alloc n /\ n_tasks (node_remove n i) = delete i (n_tasks n).
Proof.
  unfold node_remove. destruct (n_tasks n !! i) as [c|] eqn:E.
  - destruct (n_has_node n) eqn:Hhas; simpl; [destruct (t_status c)|]; repeat split; simpl; assumption.
  - repeat split. symmetry. apply delete_notin. exact E.
Qed.

(* RemoveTask *)
Theorem node_remove_inv h n i :
  node_inv h n -> node_wf n -> node_inv h (node_remove n i) /\ node_wf (node_remove n i).
Proof.
  intros Hinv Hwf. unfold node_remove. destruct (n_tasks n !! i) as [c|] eqn:E; [|split; assumption].
  pose proof Hinv as [Hc Hsum].
  destruct (n_has_node n) eqn:Hhas; simpl.
  - specialize (Hwf Hhas). destruct (Hsum eq_refl) as (Hu & Hr & Hp & Hid).
    assert (Hcin : c ∈ copies n) by (apply elem_of_copies; eauto).
    assert (Hnn : forall d x, x ∈ copies n -> 0 <= used_amt d x /\ 0 <= rel_amt d x /\ 0 <= pip_amt d x)
      by (intros d x Hx; eapply copy_amts_nonneg; eauto).
    assert (Hreq : nonneg (t_req c)) by (destruct (Hc i c E) as (_ & _ & H & _); exact H).
    assert (Hge_u : forall d, used_amt d c <= amt (n_used n) d)
      by (intros d; rewrite Hu; apply sum_amt_ge_elem; [intros x Hx; apply (Hnn d x Hx)|exact Hcin]).
    assert (Hge_r : forall d, rel_amt d c <= amt (n_releasing n) d)
      by (intros d; rewrite Hr; apply sum_amt_ge_elem; [intros x Hx; apply (Hnn d x Hx)|exact Hcin]).
    assert (Hge_p : forall d, pip_amt d c <= amt (n_pipelined n) d)
      by (intros d; rewrite Hp; apply sum_amt_ge_elem; [intros x Hx; apply (Hnn d x Hx)|exact Hcin]).
    assert (Hwf' : sc (add (n_idle n) (t_req c)) <> None) by (apply add_sc_some, Hwf).
    destruct (t_status c) eqn:Est;
      (split; [eapply node_with_delete_inv; [exact Hinv|exact E|];
               intros _ d; specialize (Hid d);
               unfold used_amt, rel_amt, pip_amt in *; rewrite Est in *; simpl in *;
               rewrite ?amt_add;
               rewrite ?(amt_sub_part (n_used n) (t_req c)) by (intros d'; split; [apply Hreq|apply Hge_u]);
               rewrite ?(amt_sub_part (n_releasing n) (t_req c)) by (intros d'; split; [apply Hreq|apply Hge_r]);
               rewrite ?(amt_sub_part (n_pipelined n) (t_req c)) by (intros d'; split; [apply Hreq|apply Hge_p]);
               lia
              |intros _; simpl; assumption]).
  - split.
    + eapply node_with_delete_inv; [exact Hinv|exact E|]. rewrite Hhas. discriminate.
    + unfold node_wf. simpl. rewrite Hhas. discriminate.
Qed.

(* UpdateTask = RemoveTask; AddTask *)
Theorem node_update_inv eps h n t n' t' :
  node_inv h n -> node_wf n -> nonneg (t_req t) ->
  (exists x, h !! t_id t = Some x /\ t_req x = t_req t /\ t_job x = t_job t) ->
  node_update eps n t = inl (n', t') ->
  node_inv h n' /\ node_wf n'.
Proof.
  intros Hinv Hwf Hnn Hx. unfold node_update.
  destruct (node_remove_inv h n (t_id t) Hinv Hwf) as [Hi' Hw'].
  apply node_add_inv; assumption.
Qed.
