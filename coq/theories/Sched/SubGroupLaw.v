(* C01: the property's own wording, with the sub-group clause, as an executable check on what a
   real cycle left behind (law 105): job specs with their sub-group policies, the final status of
   every task, and the binds the cache received.  Calls no modelled scheduler function. *)
From stdpp Require Import gmap.
From Coq Require Import ZArith List.
From V Require Import Base.Codec Sched.LedgerModel Sched.LedgerCodec Sched.SubGroupModel.
Import ListNotations.
Open Scope Z_scope.

Record mjob := mkMJob { mj_id : positive; mj_min : Z; mj_roles : list (positive * Z); mj_pols : list sgpolicy }.
Record mtask := mkMTask { mt_id : positive; mt_job : positive; mt_role : positive; mt_be : bool;
                          mt_pol : Z; mt_val : Z; mt_final : status }.

(* what the cluster sees of a task after the cycle.  Allocated and Pipelined are session-private:
   outside, the pod is still pending, and a pending pod with an empty request counts.  (preempt and
   reclaim do pipeline best-effort tasks; LedgerInvP.cluster_ready / law 101 are stricter and do not
   count a Pipelined best-effort task - the skeleton's allocate never pipelines one.) *)
Definition mvisible (t : mtask) : bool :=
  match mt_final t with
  | Binding | Bound | Running | Succeeded => true
  | Pending | Allocated | Pipelined => mt_be t
  | _ => false
  end.

Definition mcount (p : mtask -> bool) (l : list mtask) : Z := Z.of_nat (length (filter p l)).

Definition min_clause (j : mjob) (ts : list mtask) : bool := mj_min j <=? mcount mvisible ts.

Definition role_clause (j : mjob) (ts : list mtask) : bool :=
  let total := fold_left (fun acc kv => acc + snd kv) (mj_roles j) 0 in
  if mj_min j <? total then true
  else forallb (fun rm => snd rm <=? mcount (fun t => mvisible t && Pos.eqb (mt_role t) (fst rm)) ts) (mj_roles j).

(* the sub-groups of policy k: the distinct label values among the job's tasks that carry its key;
   a sub-group is complete when it has at least SubGroupSize (1 when unset) visible tasks *)
Definition groups_of (k : Z) (ts : list mtask) : list Z :=
  nodup Z.eq_dec (map mt_val (filter (fun t => mt_pol t =? k) ts)).
Definition complete_groups (k size : Z) (ts : list mtask) : Z :=
  Z.of_nat (length (filter (fun v => size <=? mcount (fun t => mvisible t && (mt_pol t =? k) && (mt_val t =? v)) ts)
                           (groups_of k ts))).

Fixpoint sub_clause_from (k : Z) (pols : list sgpolicy) (ts : list mtask) : bool :=
  match pols with
  | [] => true
  | p :: r =>
    let m := default 0 (pol_min_groups p) in
    ((m =? 0) || (m <=? complete_groups k (default 1 (pol_size p)) ts)) && sub_clause_from (k + 1) r ts
  end.
Definition sub_clause (j : mjob) (ts : list mtask) : bool := sub_clause_from 1 (mj_pols j) ts.

(* a task labelled for a policy the PodGroup does not have belongs to no sub-group *)
Definition norm_task (jobs : list mjob) (t : mtask) : mtask :=
  let pols := match filter (fun j => Pos.eqb (mj_id j) (mt_job t)) jobs with j :: _ => mj_pols j | [] => [] end in
  match pol_at pols (mt_pol t) with
  | Some _ => t
  | None => mkMTask (mt_id t) (mt_job t) (mt_role t) (mt_be t) 0 0 (mt_final t)
  end.

Definition in_list (i : positive) (l : list positive) : bool := existsb (Pos.eqb i) l.

Definition law_gang_sub (jobs : list mjob) (tasks0 : list mtask) (bound : list positive) : bool :=
  let tasks := map (norm_task jobs) tasks0 in
  forallb (fun j =>
     let ts := filter (fun t => Pos.eqb (mt_job t) (mj_id j)) tasks in
     implb (existsb (fun t => in_list (mt_id t) bound) ts)
           (min_clause j ts && role_clause j ts && sub_clause j ts)) jobs &&
  forallb (fun t => implb (in_list (mt_id t) bound)
                          (match mt_final t with Binding => true | _ => false end)) tasks.

(* ---------- wire format ---------- *)
Definition dOptZ : dec (option Z) := let* x := dZ in ret (if x <? 0 then None else Some x).
Definition dPol : dec sgpolicy := let* s := dOptZ in let* m := dOptZ in ret (mkPol s m).
Definition dMJob : dec mjob :=
  let* i := dPos in let* m := dZ in let* rm := dList (dPair dPos dZ) in let* ps := dList dPol in ret (mkMJob i m rm ps).
Definition dMTask : dec mtask :=
  let* i := dPos in let* j := dPos in let* r := dPos in let* be := dBool in let* k := dZ in let* v := dZ in
  let* s := dStatus in ret (mkMTask i j r be k v s).
Definition dLaw105 : dec (list mjob * list mtask * list positive) :=
  let* js := dList dMJob in let* ts := dList dMTask in let* b := dList dPos in ret (js, ts, b).

(* pure sub-group readiness (selector 3) *)
Definition dSgTask : dec sg_task_spec :=
  let* i := dPos in let* r := dPos in let* be := dBool in let* s := dStatus in let* k := dZ in let* v := dZ in
  ret (mkSgTask i r be s k v).
Definition dSgIn : dec (Z * list (positive * Z) * list sgpolicy * list sg_task_spec) :=
  let* m := dZ in let* rm := dList (dPair dPos dZ) in let* ps := dList dPol in let* ts := dList dSgTask in
  ret (m, rm, ps, ts).

(* spec of a law-only cycle (selector 4 only checks that both sides read the same spec) *)
Definition dSkip (n : nat) : dec unit := let* _ := dRep n dZ in ret tt.
Definition dMixCounts : dec (list Z) :=
  let* ns := dList (dSkip 3) in
  let* qs := dList (dSkip 4) in
  let* js := dList (let* _ := dSkip 5 in let* _ := dList (dSkip 2) in let* _ := dList (dSkip 2) in ret tt) in
  let* ts := dList (dSkip 12) in
  let* _ := dZ in
  let* acts := dList dZ in
  ret [Z.of_nat (length js); Z.of_nat (length ts); Z.of_nat (length acts)].
