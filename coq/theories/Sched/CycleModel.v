(* Oracle-driven skeletons of the scheduler actions (DESIGN 4.4).

   The oracle supplies only what the safety properties do not depend on:
   which job is attempted next and which (task, node) pairs the action tries,
   in which order.  Everything the properties DO depend on is computed here
   exactly as the code does: allocate vs pipeline by InitResreq <= Idle resp.
   <= FutureIdle (allocate.go 953-983), the queue plugin's Allocatable answer
   (allocate.go 744), keep / commit / discard of the statement by SubJobReady,
   SubJobPipelined and JobReady (allocate.go 314, 343, 853-866), and backfill's
   Session.Allocate with its dispatch (backfill.go, session.go 768-812).

   The queue plugin is abstracted to a per-queue record (allocated, limit)
   with the comparison both proportion and capacity use for leaf queues:
   allocated + req <= limit on the dimensions the task requests, where limit
   is proportion's deserved resp. capacity's realCapability, read from the
   real plugin after OnSessionOpen (its computation is property C12). *)
From stdpp Require Import gmap.
From Coq Require Import ZArith.
From V Require Import Base.Res Sched.LedgerModel Sched.StmtModel Sched.GangModel.
Open Scope Z_scope.

Record qattr := mkQ {
  q_open : bool;          (* queue state is Open *)
  q_limit : res;          (* deserved (proportion) / realCapability (capacity) *)
  q_has_plugin : bool;    (* a queue plugin registered AllocatableFn *)
}.

Record world := mkWorld {
  w_sess : sess;
  w_queues : gmap positive qattr;
  w_next_stmt : positive;     (* statements are created fresh per attempt *)
}.

Section WithEps.
Variable eps : Z.

(* queue share = the handler ledger, keyed by queue here *)
Definition queue_of (s : sess) (t : task) : option positive :=
  match jobs s !! t_job t with Some j => Some (j_queue j) | None => None end.

(* the AllocatableFn of the queue plugins on a leaf queue:
     allocated.Clone().Add(task.Resreq).LessEqualWithDimension(limit, task.Resreq)  *)
Definition queue_allocatable (w : world) (allocated : res) (q : qattr) (t : task) : bool :=
  if negb (q_has_plugin q) then true
  else q_open q && le_dim (add allocated (t_req t)) (q_limit q) (t_req t).

Inductive placement := PlacedAlloc | PlacedPipe | PlacedNone | PlaceRefused.

(* allocateResourcesForTask on the chosen node, after the queue's Allocatable vote *)
Definition try_place (s : sess) (sid tid nid : positive) : sess * placement :=
  match heap s !! tid, nodes s !! nid with
  | Some p, Some n =>
    (* alloc.predicate (allocate.go 985-993): nodes whose FutureIdle cannot hold the task are
       filtered out before scoring, so no placement is ever attempted on them *)
    if negb (less_equal_names eps (t_init p) (future_idle n) DZero) then (s, PlacedNone)
    else if less_equal eps (t_init p) (n_idle n) DZero then
      let '(s', r) := stmt_allocate eps s sid tid nid in
      (s', match r with ROk => PlacedAlloc | _ => PlaceRefused end)
    else if less_equal eps (t_init p) (future_idle n) DZero then
      let '(s', r) := stmt_pipeline eps s sid tid nid in
      (s', match r with ROk => PlacedPipe | _ => PlaceRefused end)
    else (s, PlacedNone)
  | _, _ => (s, PlaceRefused)
  end.

Inductive decision := DCommit | DKeep | DDiscard.

(* after the task loop of allocateResourcesForTasks and the caller's commit guard *)
Definition decide (s : sess) (jid : positive) : decision :=
  match jobs s !! jid with
  | None => DDiscard
  | Some j =>
    if gang_sub_ready (heap s) j || gang_sub_pipelined (heap s) j then
      (if gang_job_ready (heap s) j then DCommit else DKeep)
    else DDiscard
  end.

Inductive cop :=
| CAttempt (jid : positive) (places : list (positive * positive))
| CBackfill (tid nid : positive).

(* guard violations the code would never produce are reported, not hidden *)
Inductive verdict := VOk | VQueueRefuses (tid : positive) | VNotPending (tid : positive) | VNotBestEffort (tid : positive).

(* a queue's allocated amount = the sum of its jobs' ledgers (the recorder keeps them per job;
   proportion/capacity keep the same sums per queue) *)
Definition share_of (s : sess) (qid : positive) : res :=
  map_fold (fun jid r acc =>
      match jobs s !! jid with
      | Some j => if bool_decide (j_queue j = qid) then add acc r else acc
      | None => acc
      end) empty_res (hshare s).

Fixpoint do_places (w : world) (s : sess) (sid jid : positive) (l : list (positive * positive)) : sess * verdict :=
  match l with
  | [] => (s, VOk)
  | (tid, nid) :: r =>
    match heap s !! tid with
    | None => (s, VNotPending tid)
    | Some p =>
      if negb (bool_decide (t_status p = Pending) && bool_decide (t_job p = jid)) then (s, VNotPending tid)
      else
        let qok := match jobs s !! jid with
                   | Some j => match w_queues w !! j_queue j with
                               | Some q => queue_allocatable w (share_of s (j_queue j)) q p
                               | None => true end
                   | None => true end in
        if negb qok then (s, VQueueRefuses tid)
        else let '(s', _) := try_place s sid tid nid in do_places w s' sid jid r
    end
  end.

Definition step (w : world) (o : cop) : world * verdict :=
  match o with
  | CAttempt jid places =>
    let sid := w_next_stmt w in
    let '(s1, v) := do_places w (w_sess w) sid jid places in
    let s2 := match decide s1 jid with
              | DCommit => stmt_commit eps s1 sid
              | DKeep => s1
              | DDiscard => stmt_discard eps s1 sid
              end in
    (mkWorld s2 (w_queues w) (Pos.succ sid), v)
  | CBackfill tid nid =>
    match heap (w_sess w) !! tid with
    | None => (w, VNotPending tid)
    | Some p =>
      if negb (bool_decide (t_status p = Pending)) then (w, VNotPending tid)
      else if negb (t_best_effort p) then (w, VNotBestEffort tid)
      else
        let '(s1, _) := ssn_place_with eps (fun s j => gang_job_ready (heap s) j) (w_sess w) KAllocate tid nid in
        (mkWorld s1 (w_queues w) (w_next_stmt w), VOk)
    end
  end.

Definition run (w : world) (ops : list cop) : world := fold_left (fun w o => fst (step w o)) ops w.

End WithEps.
