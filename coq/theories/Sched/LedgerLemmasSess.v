(* C07 proofs, part D: the ledger invariant is preserved by every operation of the session
   model (StmtModel.v), hence by every history.

   Technique: a static table T (task id -> job, request) types every task object that can be
   passed to an operation (the heap's objects, the copies nodes hold, the clones saved by
   SaveOperations); [good T s] = ledger_inv s + the idle ledgers have a scalar map + everything
   is typed by T.  Every primitive preserves [good T]; T is instantiated with the initial heap. *)
From stdpp Require Import gmap.
From Coq Require Import ZArith Lia.
From V Require Import Base.Res Base.ResLemmas Sched.LedgerModel Sched.StmtModel Sched.GangModel
  Sched.LedgerInvP Sched.LedgerInv Sched.LedgerLemmasA Sched.LedgerLemmasJob Sched.LedgerLemmasNode.
Open Scope Z_scope.

Definition sess_wf (s : sess) : Prop := forall i n, nodes s !! i = Some n -> node_wf n.

(* the clones kept by SaveOperations are clones of tasks the session knows *)
Definition saved_ok (s : sess) : Prop :=
  forall slot l, saved s !! slot = Some l ->
    Forall (fun o => exists t, heap s !! t_id (so_task o) = Some t /\
                               t_job t = t_job (so_task o) /\ t_req t = t_req (so_task o)) l.

Section Typed.
Variable eps : Z.
Variable T : gmap positive (positive * res).

Definition pok (p : task) : Prop := T !! t_id p = Some (t_job p, t_req p).

Definition good (s : sess) : Prop :=
  ledger_inv s /\ sess_wf s /\
  (forall i t, heap s !! i = Some t -> pok t) /\
  (forall i, is_Some (T !! i) -> is_Some (heap s !! i)) /\
  (forall slot l, saved s !! slot = Some l -> Forall (fun o => pok (so_task o)) l) /\
  (forall i jr, T !! i = Some jr -> nonneg (snd jr)).

(* replacing the heap entry of p's task by p is harmless for the job that holds it *)
Definition putok (s : sess) (p : task) : Prop :=
  (forall t, heap s !! t_id p = Some t -> t_status t = t_status p) \/ jobs s !! t_job p = None.

Definition ctx (s : sess) (p : task) : Prop := good s /\ pok p /\ putok s p.

Lemma good_fields s s' :
  heap s' = heap s -> jobs s' = jobs s -> nodes s' = nodes s -> saved s' = saved s -> good s -> good s'.
Proof.
  intros Hh Hj Hn Hs. unfold good, ledger_inv, sess_wf. rewrite Hh, Hj, Hn, Hs. tauto.
Qed.

Lemma putok_fields s s' p : heap s' = heap s -> jobs s' = jobs s -> putok s p -> putok s' p.
Proof. intros Hh Hj. unfold putok. rewrite Hh, Hj. tauto. Qed.

Lemma ctx_fields s s' p :
  heap s' = heap s -> jobs s' = jobs s -> nodes s' = nodes s -> saved s' = saved s -> ctx s p -> ctx s' p.
Proof.
  intros Hh Hj Hn Hs (Hg & Hp & Hput). split; [eapply good_fields; eauto|]. split; [exact Hp|].
  eapply putok_fields; eauto.
Qed.

Lemma pok_nonneg s p : good s -> pok p -> nonneg (t_req p).
Proof. intros (_ & _ & _ & _ & _ & Hnn) Hp. apply (Hnn _ _ Hp). Qed.

Lemma pok_agree p q : pok p -> pok q -> t_id p = t_id q -> t_job p = t_job q /\ t_req p = t_req q.
Proof. unfold pok. intros Hp Hq He. rewrite He in Hp. rewrite Hp in Hq. inversion Hq. auto. Qed.

Lemma good_heap_entry s p :
  good s -> pok p -> exists x, heap s !! t_id p = Some x /\ t_req x = t_req p /\ t_job x = t_job p.
Proof.
  intros ((Hh & _) & _ & Hty & Hdom & _) Hp.
  destruct (Hdom (t_id p)) as [x Hx]; [unfold pok in Hp; rewrite Hp; eauto|].
  exists x. split; [exact Hx|]. destruct (Hh _ _ Hx) as [Hid _].
  destruct (pok_agree x p (Hty _ _ Hx) Hp Hid). auto.
Qed.

Lemma heap_static_put s p : good s -> pok p -> heap_static (heap s) (<[t_id p := p]> (heap s)).
Proof.
  intros ((Hh & _) & _ & Hty & _) Hp. apply heap_static_insert. intros x Hx.
  destruct (Hh _ _ Hx) as [Hid _]. destruct (pok_agree x p (Hty _ _ Hx) Hp Hid). auto.
Qed.

Lemma pok_copy s nid n i c : good s -> nodes s !! nid = Some n -> n_tasks n !! i = Some c -> pok c.
Proof.
  intros ((Hh & _ & Hnodes) & _ & Hty & _) Hn Hc.
  destruct (Hnodes _ _ Hn) as [_ [Hcs _]]. destruct (Hcs _ _ Hc) as (Hid & _ & _ & t & Ht & Hr & Hj).
  specialize (Hty _ _ Ht). destruct (Hh _ _ Ht) as [Hidt _]. unfold pok in *.
  rewrite Hid, <- Hr, <- Hj, <- Hidt. exact Hty.
Qed.

(* ---- the four state changes ---- *)

Lemma good_put s p : good s -> pok p -> putok s p -> good (put_task s p).
Proof.
  intros Hg Hp Hput. pose proof (pok_nonneg s p Hg Hp) as Hnnp.
  pose proof (heap_static_put s p Hg Hp) as Hst.
  destruct Hg as ((Hh & Hjobs & Hnodes) & Hw & Hty & Hdom & Hsv & Hnn).
  split; [|split; [|split; [|split; [|split]]]].
  - split; [|split]; simpl.
    + apply heap_ok_insert; assumption.
    + intros i j Hj. destruct (Hjobs i j Hj) as [Hid Hinv]. split; [exact Hid|].
      eapply job_inv_ext; [|exact Hinv]. intros k Hk.
      destruct (decide (k = t_id p)) as [->|Hne]; [|rewrite lookup_insert_ne by congruence; reflexivity].
      rewrite lookup_insert. destruct Hinv as (Hm & _). destruct (Hm _ Hk) as (t & Ht & Htj).
      rewrite Ht. simpl. f_equal. destruct (Hh _ _ Ht) as [Hidt _].
      destruct (pok_agree t p (Hty _ _ Ht) Hp Hidt) as [Hjb Hrq].
      unfold tview. rewrite Hjb, Hrq. destruct Hput as [Hs|Hnone].
      * rewrite (Hs t Ht). reflexivity.
      * exfalso. rewrite <- Hjb, Htj, Hid, Hj in Hnone. discriminate.
    + intros i n Hn. destruct (Hnodes i n Hn). split; [assumption|]. eapply node_inv_ext; eauto.
  - exact Hw.
  - intros i t. simpl. destruct (decide (i = t_id p)) as [->|Hne].
    + rewrite lookup_insert. intros [= <-]. exact Hp.
    + rewrite lookup_insert_ne by congruence. apply Hty.
  - intros i Hi. simpl. destruct (decide (i = t_id p)) as [->|Hne].
    + rewrite lookup_insert. eauto.
    + rewrite lookup_insert_ne by congruence. auto.
  - exact Hsv.
  - exact Hnn.
Qed.

Lemma good_set_node s nid n' :
  good s -> n_id n' = nid -> node_inv (heap s) n' -> node_wf n' ->
  good (upd_nodes s (<[nid := n']> (nodes s))).
Proof.
  intros ((Hh & Hjobs & Hnodes) & Hw & Hrest) Hid Hinv Hwf.
  split; [|split; [|exact Hrest]].
  - split; [exact Hh|]. split; [exact Hjobs|]. simpl. intros i n.
    destruct (decide (i = nid)) as [->|Hne].
    + rewrite lookup_insert. intros [= <-]. auto.
    + rewrite lookup_insert_ne by congruence. apply Hnodes.
  - intros i n. simpl. destruct (decide (i = nid)) as [->|Hne].
    + rewrite lookup_insert. intros [= <-]. exact Hwf.
    + rewrite lookup_insert_ne by congruence. apply Hw.
Qed.

Lemma ssn_update_status_cases s p st :
  (exists j j' p', jobs s !! t_job p = Some j /\ job_update (heap s) j p st = (j', p') /\
     ssn_update_status s p st = (true, put_task (upd_jobs s (<[t_job p := j']> (jobs s))) p', p')) \/
  (jobs s !! t_job p = None /\ ssn_update_status s p st = (false, s, p)).
Proof.
  unfold ssn_update_status. destruct (jobs s !! t_job p) as [j|] eqn:E; [left|right; auto].
  destruct (job_update (heap s) j p st) as [j' p'] eqn:Eu. exists j, j', p'. auto.
Qed.

Lemma good_update s p st f s' p' :
  good s -> pok p -> ssn_update_status s p st = (f, s', p') ->
  ctx s' p' /\ t_id p' = t_id p /\ t_node p' = t_node p.
Proof.
  intros Hg Hp. pose proof (pok_nonneg s p Hg Hp) as Hnnp.
  destruct (ssn_update_status_cases s p st) as [(j & j' & q & Ej & Eu & ->)|[Ej ->]].
  - intros [= <- <- <-].
    pose proof Hg as ((Hh & Hjobs & Hnodes) & Hw & Hty & Hdom & Hsv & Hnn).
    destruct (Hjobs _ _ Ej) as [Hjid Hjinv].
    destruct (job_update_inv (heap s) j p st j' q Hh Hjinv (eq_sym Hjid) Hnnp Eu) as (-> & Hid' & Hin & Hh' & Hj').
    assert (Hpq : pok (set_status p st)) by exact Hp.
    split; [|split; reflexivity]. split; [|split; [exact Hpq|]].
    + split; [|split; [|split; [|split; [|split]]]].
      * split; [exact Hh'|]. split; simpl.
        -- intros i j2. destruct (decide (i = t_job p)) as [->|Hne].
           ++ rewrite lookup_insert. intros [= <-]. split; [congruence|exact Hj'].
           ++ rewrite lookup_insert_ne by congruence. intros Hj2. destruct (Hjobs _ _ Hj2) as [Hid2 Hinv2].
              split; [exact Hid2|]. eapply job_inv_ext; [|exact Hinv2]. apply agree_on_insert_notin.
              intros Hk. destruct Hinv2 as (Hm & _). destruct (Hm _ Hk) as (t & Ht & Htj).
              destruct (Hh _ _ Ht) as [Hidt _]. destruct (pok_agree t p (Hty _ _ Ht) Hp Hidt) as [Hjb _].
              congruence.
        -- intros i n Hn. destruct (Hnodes i n Hn). split; [assumption|]. eapply node_inv_ext; [|eassumption].
           apply (heap_static_put s (set_status p st) Hg Hpq).
      * exact Hw.
      * intros i t. simpl. destruct (decide (i = t_id p)) as [->|Hne].
        -- rewrite lookup_insert. intros [= <-]. exact Hpq.
        -- rewrite lookup_insert_ne by congruence. apply Hty.
      * intros i Hi. simpl. destruct (decide (i = t_id p)) as [->|Hne].
        -- rewrite lookup_insert. eauto.
        -- rewrite lookup_insert_ne by congruence. auto.
      * exact Hsv.
      * exact Hnn.
    + left. simpl. rewrite lookup_insert. intros t [= <-]. reflexivity.
  - intros [= <- <- <-]. split; [|split; reflexivity]. split; [exact Hg|]. split; [exact Hp|]. right. exact Ej.
Qed.

Lemma ctx_put s p x : ctx s p -> ctx (put_task s (set_node p x)) (set_node p x).
Proof.
  intros (Hg & Hp & Hput).
  assert (Hp' : pok (set_node p x)) by exact Hp.
  assert (Hput' : putok s (set_node p x)) by exact Hput.
  split; [apply good_put; assumption|]. split; [exact Hp'|].
  left. simpl. rewrite lookup_insert. intros t [= <-]. reflexivity.
Qed.

Lemma ctx_set_node s p nid n' :
  ctx s p -> n_id n' = nid -> node_inv (heap s) n' -> node_wf n' ->
  ctx (upd_nodes s (<[nid := n']> (nodes s))) p.
Proof.
  intros (Hg & Hp & Hput) Hid Hinv Hwf. split; [apply good_set_node; assumption|]. split; [exact Hp|exact Hput].
Qed.

Lemma good_node_id s nid n : good s -> nodes s !! nid = Some n -> n_id n = nid /\ node_inv (heap s) n /\ node_wf n.
Proof. intros ((_ & _ & Hnodes) & Hw & _) Hn. destruct (Hnodes _ _ Hn). split; [assumption|]. split; [assumption|]. eapply Hw; eauto. Qed.

Lemma ctx_node_remove s p q : ctx s p -> ctx (ssn_node_remove s q) p.
Proof.
  intros Hc. unfold ssn_node_remove. destruct (t_node q) as [nid|]; [|exact Hc].
  destruct (nodes s !! nid) as [n|] eqn:En; [|exact Hc].
  destruct (good_node_id s nid n (proj1 Hc) En) as (Hid & Hinv & Hwf).
  destruct (node_remove_inv (heap s) n (t_id q) Hinv Hwf) as [Hi' Hw'].
  apply ctx_set_node; try assumption. destruct (node_remove_fields n (t_id q)) as (-> & _). exact Hid.
Qed.

Lemma ctx_node_add s p nid n n' p' :
  ctx s p -> nodes s !! nid = Some n -> node_add eps n p = inl (n', p') ->
  ctx (put_task (upd_nodes s (<[nid := n']> (nodes s))) p') p'.
Proof.
  intros Hc En Ha. pose proof Hc as (Hg & Hp & Hput).
  destruct (good_node_id s nid n Hg En) as (Hid & Hinv & Hwf).
  destruct (node_add_spec _ _ _ _ _ Ha) as (-> & _ & _ & Hid' & _).
  destruct (node_add_inv eps (heap s) n p n' _ Hinv Hwf (pok_nonneg s p Hg Hp) (good_heap_entry s p Hg Hp) Ha) as [Hi' Hw'].
  apply ctx_put. apply ctx_set_node; try assumption. congruence.
Qed.

Lemma ctx_node_update s p s' p' fatal :
  ctx s p -> ssn_node_update eps s p = (s', p', fatal) -> ctx s' p'.
Proof.
  intros Hc. pose proof Hc as (Hg & Hp & Hput). unfold ssn_node_update.
  destruct (t_node p) as [nid|]; [|intros [= <- <- <-]; exact Hc].
  destruct (nodes s !! nid) as [n|] eqn:En; [|intros [= <- <- <-]; exact Hc].
  destruct (good_node_id s nid n Hg En) as (Hid & Hinv & Hwf).
  destruct (node_remove_inv (heap s) n (t_id p) Hinv Hwf) as [Hi1 Hw1].
  destruct (node_remove_fields n (t_id p)) as (Hrid & _).
  destruct (node_update eps n p) as [[n' q]|e] eqn:Eu.
  - intros [= <- <- <-]. unfold node_update in Eu.
    destruct (node_add_spec _ _ _ _ _ Eu) as (-> & _ & _ & Hid' & _).
    destruct (node_add_inv eps (heap s) _ p n' _ Hi1 Hw1 (pok_nonneg s p Hg Hp) (good_heap_entry s p Hg Hp) Eu) as [Hi' Hw'].
    apply ctx_put. apply ctx_set_node; try assumption. congruence.
  - intros [= <- <- <-]. apply ctx_set_node; try assumption. congruence.
Qed.

Lemma ctx_h_alloc s p q b s' : ctx s p -> h_alloc s q = (b, s') -> ctx s' p.
Proof. intros Hc [= _ <-]. eapply ctx_fields; [..|exact Hc]; reflexivity. Qed.

Lemma ctx_h_dealloc s p q : ctx s p -> ctx (h_dealloc s q) p.
Proof. intros Hc. eapply ctx_fields; [..|exact Hc]; reflexivity. Qed.

Lemma good_push s sid k tid prev : good s -> good (push_op s sid k tid prev).
Proof. apply good_fields; reflexivity. Qed.

Lemma good_logs s b e : good s -> good (upd_logs s b e).
Proof. apply good_fields; reflexivity. Qed.

Lemma good_stmts s st : good s -> good (upd_stmts s st).
Proof. apply good_fields; reflexivity. Qed.

(* ---- the undo primitives and the statement operations ---- *)

Lemma good_unallocate s p : good s -> pok p -> good (unallocate_with s p).
Proof.
  intros Hg Hp. unfold unallocate_with.
  destruct (ssn_update_status s p Pending) as [[f s1] p1] eqn:E.
  destruct (good_update _ _ _ _ _ _ Hg Hp E) as (Hc & _).
  apply (ctx_node_remove s1 p1 p1) in Hc. apply (ctx_h_dealloc _ p1 p1) in Hc.
  apply (ctx_put _ _ None) in Hc. exact (proj1 Hc).
Qed.

Lemma good_unevict s p prev : good s -> pok p -> good (fst (unevict_with eps s p prev)).
Proof.
  intros Hg Hp. unfold unevict_with.
  destruct (ssn_update_status s p (restore_status prev)) as [[f s1] p1] eqn:E.
  destruct (good_update _ _ _ _ _ _ Hg Hp E) as (Hc & _).
  destruct (ssn_node_update eps s1 p1) as [[s2 p2] fatal] eqn:E2.
  apply (ctx_node_update _ _ _ _ _ Hc) in E2.
  destruct (h_alloc s2 p2) as [b s3] eqn:E3. apply (ctx_h_alloc _ _ _ _ _ E2) in E3. exact (proj1 E3).
Qed.

Lemma good_place s sid k p nid : good s -> pok p -> good (fst (place_with eps s sid k p nid)).
Proof.
  intros Hg Hp. unfold place_with.
  destruct (ssn_update_status s p _) as [[f s1] p1] eqn:E.
  destruct (good_update _ _ _ _ _ _ Hg Hp E) as (Hc & _).
  apply (ctx_put _ _ (Some nid)) in Hc.
  set (p2 := set_node p1 (Some nid)) in *. set (s2 := put_task s1 p2) in *.
  assert (Hc3 : forall s3 p3 ok,
             match nodes s2 !! nid with
             | Some n => match node_add eps n p2 with
                         | inl (n', p') => (put_task (upd_nodes s2 (<[nid := n']> (nodes s2))) p', p', true)
                         | inr _ => (s2, p2, false)
                         end
             | None => (s2, p2, false)
             end = (s3, p3, ok) -> ctx s3 p3).
  { intros s3 p3 ok. destruct (nodes s2 !! nid) as [n|] eqn:En; [|intros [= <- <- <-]; exact Hc].
    destruct (node_add eps n p2) as [[n' p']|e] eqn:Ea; [|intros [= <- <- <-]; exact Hc].
    intros [= <- <- <-]. exact (ctx_node_add s2 p2 nid n n' p' Hc En Ea). }
  destruct (match nodes s2 !! nid with Some n => _ | None => _ end) as [[s3 p3] ok] eqn:E3.
  specialize (Hc3 _ _ _ eq_refl).
  destruct (h_alloc s3 p3) as [b s4] eqn:E4. pose proof (ctx_h_alloc _ _ _ _ _ Hc3 E4) as Hc4.
  destruct (f && ok && negb b); simpl.
  - apply good_push. exact (proj1 Hc4).
  - apply good_unallocate; [exact (proj1 Hc4)|exact (proj1 (proj2 Hc4))].
Qed.

Lemma good_evict_with s sid p prev : good s -> pok p -> good (fst (stmt_evict_with eps s sid p prev)).
Proof.
  intros Hg Hp. unfold stmt_evict_with.
  destruct (ssn_update_status s p Releasing) as [[f s1] p1] eqn:E.
  destruct (good_update _ _ _ _ _ _ Hg Hp E) as (Hc & _).
  destruct (ssn_node_update eps s1 p1) as [[s2 p2] fatal] eqn:E2.
  apply (ctx_node_update _ _ _ _ _ Hc) in E2. simpl.
  apply good_push. exact (proj1 (ctx_h_dealloc _ _ p2 E2)).
Qed.

Lemma good_heap_pok s i p : good s -> heap s !! i = Some p -> pok p.
Proof. intros (_ & _ & Hty & _) H. eapply Hty; eauto. Qed.

Lemma good_undo_op s o : good s -> good (undo_op eps s o).
Proof.
  intros Hg. unfold undo_op. destruct (heap s !! op_task o) as [p|] eqn:E; [|exact Hg].
  pose proof (good_heap_pok _ _ _ Hg E) as Hp.
  destruct (op_kind o); [apply good_unevict|apply good_unallocate|apply good_unallocate]; assumption.
Qed.

Lemma good_fold (f : sess -> oprec -> sess) l s :
  (forall s o, good s -> good (f s o)) -> good s -> good (fold_left f l s).
Proof. intros Hf. revert s. induction l as [|o l IH]; simpl; intros s Hg; [exact Hg|]. apply IH, Hf, Hg. Qed.

Lemma good_discard s sid : good s -> good (stmt_discard eps s sid).
Proof. intros Hg. unfold stmt_discard. apply good_stmts. apply good_fold; [apply good_undo_op|exact Hg]. Qed.

Lemma good_commit_op s o : good s -> good (commit_op eps s o).
Proof.
  intros Hg. unfold commit_op. destruct (heap s !! op_task o) as [p|] eqn:E; [|exact Hg].
  pose proof (good_heap_pok _ _ _ Hg E) as Hp.
  destruct (op_kind o).
  - case_bool_decide; [apply good_unevict; assumption|apply good_logs; exact Hg].
  - exact Hg.
  - case_bool_decide; [apply good_unallocate; assumption|].
    destruct (ssn_update_status _ p Binding) as [[f s2] p2] eqn:E2.
    destruct (good_update _ _ _ _ _ _ (good_logs s _ _ Hg) Hp E2) as (Hc & _).
    destruct f; [exact (proj1 Hc)|]. apply good_unallocate; [exact (proj1 Hc)|exact (proj1 (proj2 Hc))].
Qed.

Lemma good_commit s sid : good s -> good (stmt_commit eps s sid).
Proof. intros Hg. unfold stmt_commit. apply good_stmts. apply good_fold; [apply good_commit_op|exact Hg]. Qed.

Lemma good_merge s sid src : good s -> good (stmt_merge s sid src).
Proof. intros Hg. unfold stmt_merge. case_bool_decide; [exact Hg|]. apply good_stmts, Hg. Qed.

Lemma good_save s sid slot : good s -> good (stmt_save s sid slot).
Proof.
  intros Hg. pose proof Hg as (Hl & Hw & Hty & Hdom & Hsv & Hnn).
  unfold stmt_save. split; [exact Hl|]. split; [exact Hw|]. split; [exact Hty|]. split; [exact Hdom|].
  split; [|exact Hnn]. simpl. intros sl l. destruct (decide (sl = slot)) as [->|Hne].
  - rewrite lookup_insert. intros [= <-]. apply Forall_forall. intros o Ho.
    apply elem_of_list_omap in Ho as (r & _ & Hr).
    destruct (heap s !! op_task r) as [p|] eqn:E; [|discriminate]. inversion Hr; subst. simpl. eapply Hty; eauto.
  - rewrite lookup_insert_ne by congruence. apply Hsv.
Qed.

Lemma good_recover_ops l s sid :
  good s -> Forall (fun o => pok (so_task o)) l -> good (fst (recover_ops eps s sid l)).
Proof.
  revert s. induction l as [|o r IH]; intros s Hg Hl; [exact Hg|].
  inversion Hl as [|? ? Hp Hr]; subst. simpl.
  destruct (so_kind o).
  - destruct (stmt_evict_with eps s sid (so_task o) (Some (so_prev o))) as [s1 res] eqn:E.
    apply IH; [|exact Hr]. change s1 with (fst (s1, res)). rewrite <- E. apply good_evict_with; assumption.
  - destruct (t_node (so_task o)) as [nid|]; [|exact Hg].
    destruct (place_with eps s sid KPipeline (so_task o) nid) as [s1 res] eqn:E.
    assert (Hg1 : good s1) by (change s1 with (fst (s1, res)); rewrite <- E; apply good_place; assumption).
    destruct res; try exact Hg1. apply IH; assumption.
  - destruct (t_node (so_task o)) as [nid|]; [|exact Hg].
    destruct (place_with eps s sid KAllocate (so_task o) nid) as [s1 res] eqn:E.
    assert (Hg1 : good s1) by (change s1 with (fst (s1, res)); rewrite <- E; apply good_place; assumption).
    destruct res; try exact Hg1. apply IH; assumption.
Qed.

Lemma good_upd_saved_delete s slot : good s -> good (upd_saved s (delete slot (saved s))).
Proof.
  intros (Hl & Hw & Hty & Hdom & Hsv & Hnn). split; [exact Hl|]. split; [exact Hw|]. split; [exact Hty|].
  split; [exact Hdom|]. split; [|exact Hnn]. simpl. intros sl l Hs. apply lookup_delete_Some in Hs as [_ Hs]. eapply Hsv; eauto.
Qed.

Lemma good_recover s sid slot : good s -> good (fst (stmt_recover eps s sid slot)).
Proof.
  intros Hg. unfold stmt_recover.
  destruct (recover_ops eps s sid (default [] (saved s !! slot))) as [s1 r] eqn:E. simpl.
  apply good_upd_saved_delete. change s1 with (fst (s1, r)). rewrite <- E. apply good_recover_ops; [exact Hg|].
  destruct (saved s !! slot) as [l|] eqn:Es; simpl; [|constructor].
  destruct Hg as (_ & _ & _ & _ & Hsv & _). eapply Hsv; eauto.
Qed.

(* ---- Session.Allocate / Pipeline / Evict ---- *)

Lemma good_dispatch s tid : good s -> good (fst (dispatch s tid)).
Proof.
  intros Hg. unfold dispatch. destruct (heap s !! tid) as [p|] eqn:E; [|exact Hg].
  case_bool_decide; [exact Hg|].
  destruct (ssn_update_status _ p Binding) as [[f s2] p2] eqn:E2. simpl.
  destruct (good_update _ _ _ _ _ _ (good_logs s _ _ Hg) (good_heap_pok _ _ _ Hg E) E2) as (Hc & _). exact (proj1 Hc).
Qed.

Lemma good_dispatch_all l s : good s -> good (fst (dispatch_all s l)).
Proof.
  revert s. induction l as [|t r IH]; intros s Hg; [exact Hg|]. simpl.
  destruct (dispatch s t) as [s1 ok] eqn:E.
  assert (Hg1 : good s1) by (change s1 with (fst (s1, ok)); rewrite <- E; apply good_dispatch; exact Hg).
  destruct ok; [apply IH; exact Hg1|]. simpl.
  destruct (heap s1 !! t) as [p|] eqn:Ep; [|exact Hg1].
  apply good_unallocate; [exact Hg1|]. eapply good_heap_pok; eauto.
Qed.

Lemma good_ssn_place jr s k tid nid : good s -> good (fst (ssn_place_with eps jr s k tid nid)).
Proof.
  intros Hg. unfold ssn_place_with. destruct (heap s !! tid) as [p|] eqn:E; [|exact Hg].
  pose proof (good_heap_pok _ _ _ Hg E) as Hp.
  destruct (ssn_update_status s p _) as [[f s1] p1] eqn:E1.
  destruct (good_update _ _ _ _ _ _ Hg Hp E1) as (Hc & _).
  destruct f; cbn [negb]; [|exact Hg].
  apply (ctx_put _ _ (Some nid)) in Hc.
  set (p2 := set_node p1 (Some nid)) in *. set (s2 := put_task s1 p2) in *.
  assert (Hrev : good (let '(_, sr, pr) := ssn_update_status s2 p2 Pending in put_task sr (set_node pr None))).
  { destruct (ssn_update_status s2 p2 Pending) as [[fr sr] pr] eqn:Er.
    destruct (good_update _ _ _ _ _ _ (proj1 Hc) (proj1 (proj2 Hc)) Er) as (Hcr & _).
    exact (proj1 (ctx_put _ _ None Hcr)). }
  destruct (nodes s2 !! nid) as [n|] eqn:En; [|exact Hrev].
  destruct (node_add eps n p2) as [[n' p3]|e] eqn:Ea; [|exact Hrev].
  pose proof (ctx_node_add _ _ _ _ _ _ Hc En Ea) as Hc3.
  destruct (h_alloc _ p3) as [b s4] eqn:E4. pose proof (ctx_h_alloc _ _ _ _ _ Hc3 E4) as Hc4.
  destruct k; try exact (proj1 Hc4).
  destruct (jobs s4 !! t_job p) as [j|]; [|exact (proj1 Hc4)].
  destruct (jr s4 j); [|exact (proj1 Hc4)].
  destruct (dispatch_all s4 _) as [s5 ok] eqn:E5. simpl.
  change s5 with (fst (s5, ok)). rewrite <- E5. apply good_dispatch_all. exact (proj1 Hc4).
Qed.

Lemma good_ssn_evict s tid : good s -> good (fst (ssn_evict eps s tid)).
Proof.
  intros Hg. unfold ssn_evict. destruct (heap s !! tid) as [p|] eqn:E; [|exact Hg].
  case_bool_decide; [exact Hg|].
  destruct (ssn_update_status _ p Releasing) as [[f s1] p1] eqn:E1.
  destruct (good_update _ _ _ _ _ _ (good_logs s _ _ Hg) (good_heap_pok _ _ _ Hg E) E1) as (Hc & _).
  destruct f; cbn [negb]; [|exact (proj1 Hc)].
  destruct (ssn_node_update eps s1 p1) as [[s2 p2] fatal] eqn:E2.
  apply (ctx_node_update _ _ _ _ _ Hc) in E2. exact (proj1 (ctx_h_dealloc _ _ p2 E2)).
Qed.

(* ---- every operation, every history ---- *)

Lemma good_with_task s tid f : good s -> (forall p, pok p -> good (fst (f p))) -> good (fst (with_task s tid f)).
Proof.
  intros Hg Hf. unfold with_task. destruct (heap s !! tid) as [p|] eqn:E; [|exact Hg].
  apply Hf. eapply good_heap_pok; eauto.
Qed.

Theorem good_step s o : good s -> good (fst (step eps s o)).
Proof.
  intros Hg. destruct o; simpl.
  - apply good_with_task; [exact Hg|]. intros p Hp. apply good_place; assumption.
  - apply good_with_task; [exact Hg|]. intros p Hp. apply good_place; assumption.
  - apply good_with_task; [exact Hg|]. intros p Hp. apply good_evict_with; assumption.
  - unfold stmt_evict_clone. destruct (heap s !! tid) as [p|]; [|exact Hg].
    destruct (t_node p) as [nid|]; [|exact Hg]. destruct (nodes s !! nid) as [n|] eqn:En; [|exact Hg].
    destruct (n_tasks n !! tid) as [c|] eqn:Ec; [|exact Hg].
    apply good_evict_with; [exact Hg|]. eapply pok_copy; eauto.
  - apply good_with_task; [exact Hg|]. intros p Hp. simpl. apply good_unallocate; assumption.
  - apply good_discard, Hg.
  - apply good_commit, Hg.
  - apply good_merge, Hg.
  - apply good_save, Hg.
  - apply good_recover, Hg.
  - apply good_ssn_place, Hg.
  - apply good_ssn_place, Hg.
  - apply good_ssn_evict, Hg.
  - destruct Hg as ((Hh & Hjobs & Hnodes) & Hrest). split; [|exact Hrest].
    split; [exact Hh|]. split; [|exact Hnodes]. simpl. intros i j Hj.
    apply lookup_delete_Some in Hj as [_ Hj]. auto.
  - destruct Hg as ((Hh & Hjobs & Hnodes) & Hw & Hrest). split; [|split; [|exact Hrest]].
    + split; [exact Hh|]. split; [exact Hjobs|]. simpl. intros i n Hn.
      apply lookup_delete_Some in Hn as [_ Hn]. auto.
    + intros i n. simpl. intros Hn. apply lookup_delete_Some in Hn as [_ Hn]. eapply Hw; eauto.
  - eapply good_fields; [..|exact Hg]; reflexivity.
Qed.

Theorem good_run ops s : good s -> good (run eps s ops).
Proof.
  revert s. induction ops as [|o r IH]; intros s Hg; [exact Hg|].
  unfold run. simpl. apply IH. apply good_step, Hg.
Qed.

End Typed.

(* ---- the table of the initial session ---- *)

Definition table_of (h : gmap positive task) : gmap positive (positive * res) :=
  (fun t => (t_job t, t_req t)) <$> h.

Lemma good_init s : ledger_inv s -> sess_wf s -> saved_ok s -> good (table_of (heap s)) s.
Proof.
  intros Hl Hw Hs. pose proof Hl as (Hh & _).
  assert (Hty : forall i t, heap s !! i = Some t -> pok (table_of (heap s)) t).
  { intros i t Ht. unfold pok, table_of. destruct (Hh _ _ Ht) as [-> _]. rewrite lookup_fmap, Ht. reflexivity. }
  split; [exact Hl|]. split; [exact Hw|]. split; [exact Hty|]. split; [|split].
  - intros i [x Hx]. unfold table_of in Hx. rewrite lookup_fmap in Hx.
    destruct (heap s !! i); [eauto|discriminate].
  - intros slot l Hsl. specialize (Hs slot l Hsl). eapply Forall_impl; [exact Hs|].
    intros o (t & Ht & Hj & Hr). simpl. unfold pok. rewrite <- Hj, <- Hr.
    destruct (Hh _ _ Ht) as [Hid _]. rewrite <- Hid. apply (Hty _ _ Ht).
  - intros i jr Hx. unfold table_of in Hx. rewrite lookup_fmap in Hx.
    destruct (heap s !! i) as [t|] eqn:E; [|discriminate]. inversion Hx; subst. simpl. apply (Hh _ _ E).
Qed.

Lemma good_saved_ok T s : good T s -> saved_ok s.
Proof.
  intros Hg slot l Hsl. pose proof Hg as (_ & _ & _ & _ & Hsv & _).
  eapply Forall_impl; [exact (Hsv _ _ Hsl)|]. intros o Hp. simpl in Hp.
  destruct (good_heap_entry T s _ Hg Hp) as (x & Hx & Hr & Hj). eauto.
Qed.

(* MAIN THEOREM of C07: for every tolerance, every session satisfying the bookkeeping invariant
   (whose real nodes' Idle vectors carry a scalar map and whose saved clones are clones of known
   tasks) and EVERY history over the whole operation alphabet -- including unknown task, job or
   node, a node refusing the task, a handler error, a refused bind or eviction -- the
   invariant holds after the history (and so do the two side conditions) *)
Theorem ledger_inv_preserved eps s ops :
  ledger_inv s -> sess_wf s -> saved_ok s ->
  ledger_inv (run eps s ops) /\ sess_wf (run eps s ops) /\ saved_ok (run eps s ops).
Proof.
  intros Hl Hw Hs. pose proof (good_run eps _ ops s (good_init s Hl Hw Hs)) as Hg.
  split; [exact (proj1 Hg)|]. split; [exact (proj1 (proj2 Hg))|]. eapply good_saved_ok; eauto.
Qed.

Theorem ledger_inv_step eps s o :
  ledger_inv s -> sess_wf s -> saved_ok s ->
  ledger_inv (fst (step eps s o)) /\ sess_wf (fst (step eps s o)) /\ saved_ok (fst (step eps s o)).
Proof. intros Hl Hw Hs. apply (ledger_inv_preserved eps s [o]); assumption. Qed.
