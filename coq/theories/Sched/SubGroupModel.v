(* C01, sub-groups: model of the sub-group readiness family for jobs WITH a sub-group policy
     api/sub_job_info.go  NewSubJobInfo 61-88 (MinAvailable = SubGroupSize, 1 when nil), IsReady / IsPipelined /
                          ReadyTaskNum / PendingBestEffortTaskNum / WaitingTaskNum 232-275
     api/job_info.go      SetPodGroup 523-537 (MinSubJobs, 0 when MinSubGroups is nil), CheckSubJobValid 1192-1206,
                          checkSubJobCondition / CheckSubJobReady / CheckSubJobPipelined 1208-1248,
                          getOrCreateDefaultSubJob 1343-1357 (size = MinAvailable only WITHOUT policy, else 1),
                          getOrCreateSubJob 1359-1376 (first policy whose match keys the pod carries)
     plugins/gang/gang.go JobValidFn 58-93, JobReadyFn 191-197, SubJobReadyFn 199-202, pipelined 204-219
     framework/session_plugins.go  SubJobReady / SubJobPipelined 433-480
   The per-sub-job TaskStatusIndex is the one Sched/LedgerModel.job_add maintains (sj_index); the
   shared Sched/GangModel has sub_ready / sub_pipelined.  Executable definitions only. *)
From stdpp Require Import gmap.
From Coq Require Import ZArith.
From V Require Import Base.Res Sched.LedgerModel Sched.GangModel Sched.GangValid.
Open Scope Z_scope.

(* a SubGroupPolicySpec: SubGroupSize and MinSubGroups (None = nil) *)
Record sgpolicy := mkPol { pol_size : option Z; pol_min_groups : option Z }.

(* a job with its policies: which policy (SubJobGID) every sub-job belongs to (the default
   sub-job belongs to none), and MinSubJobs per policy *)
Record sgjob := mkSg {
  sg_job : job;
  sg_has_policy : bool;                 (* ContainsSubJobPolicy *)
  sg_gid : gmap positive positive;      (* sub-job id -> policy *)
  sg_min_subs : gmap positive Z;        (* MinSubJobs *)
}.

(* number of sub-jobs of policy g that satisfy cond *)
Definition subs_with (sg : sgjob) (g : positive) (cond : subjob -> bool) : Z :=
  Z.of_nat (length (List.filter (fun kv : positive * subjob => bool_decide (sg_gid sg !! kv.1 = Some g) && cond kv.2)
                                (map_to_list (j_subs (sg_job sg))))).

(* checkSubJobCondition: policies with MinSubJobs = 0 are skipped *)
Definition check_sub_cond (sg : sgjob) (cond : subjob -> bool) : bool :=
  forallb (fun gm : positive * Z => (gm.2 =? 0) || (gm.2 <=? subs_with sg gm.1 cond)) (map_to_list (sg_min_subs sg)).

(* CheckSubJobValid: enough sub-jobs exist *)
Definition check_sub_valid (sg : sgjob) : bool :=
  forallb (fun gm : positive * Z => gm.2 <=? subs_with sg gm.1 (fun _ => true)) (map_to_list (sg_min_subs sg)).

Definition gang_job_ready_sub (h : gmap positive task) (sg : sgjob) : bool :=
  check_task_ready h (sg_job sg) && check_sub_cond sg (sub_ready h) && is_ready h (j_index (sg_job sg)) (j_min (sg_job sg)).
Definition gang_job_pipelined_sub (h : gmap positive task) (sg : sgjob) : bool :=
  check_task_pipelined h (sg_job sg) && check_sub_cond sg (sub_pipelined h) &&
  is_pipelined h (j_index (sg_job sg)) (j_min (sg_job sg)).

(* Session.SubJobReady / SubJobPipelined *)
Definition ssn_sub_ready (h : gmap positive task) (sg : sgjob) (sj : subjob) : bool :=
  if sg_has_policy sg then sub_ready h sj else gang_job_ready_sub h sg.
Definition ssn_sub_pipelined (h : gmap positive task) (sg : sgjob) (sj : subjob) : bool :=
  if sg_has_policy sg then sub_pipelined h sj else gang_job_pipelined_sub h sg.

(* 0 valid, 1 NotEnoughPodsOfTask (roles or sub-groups), 2 NotEnoughTasks *)
Definition gang_job_valid_sub (h : gmap positive task) (sg : sgjob) : Z :=
  if negb (check_task_valid h (sg_job sg)) then 1
  else if negb (check_sub_valid sg) then 1
  else if bool_decide (valid_num (j_index (sg_job sg)) < j_min (sg_job sg)) then 2 else 0.

(* ---------- building a job from a spec (what the harness builds with SetPodGroup + AddTaskInfo) ---------- *)

Record sg_task_spec := mkSgTask {
  st_id : positive; st_role : positive; st_be : bool; st_status : status;
  st_pol : Z;          (* 1-based index of the policy whose match key the pod carries; <= 0: none *)
  st_val : Z;          (* the label value, 1..998 *)
}.

Definition default_sub : positive := 1.
Definition sub_id (k v : Z) : positive := if k <=? 0 then default_sub else Z.to_pos (k * 1000 + v + 1).

Definition pol_at (pols : list sgpolicy) (k : Z) : option sgpolicy :=
  if k <=? 0 then None else nth_error pols (Z.to_nat (k - 1)).

(* a task that names a policy the PodGroup does not have falls into the default sub-job *)
Definition eff_pol (pols : list sgpolicy) (t : sg_task_spec) : Z :=
  match pol_at pols (st_pol t) with Some _ => st_pol t | None => 0 end.

Definition sg_task (pols : list sgpolicy) (jid : positive) (t : sg_task_spec) : task :=
  let r := if st_be t then empty_res else mkRes 16000 0 None in
  mkTask (st_id t) jid (sub_id (eff_pol pols t) (st_val t)) (st_role t) 0 r r (st_be t) false (st_status t) None.

Definition sub_min (pols : list sgpolicy) (jmin : Z) (k : Z) : Z :=
  match pol_at pols k with
  | Some p => default 1 (pol_size p)
  | None => match pols with [] => jmin | _ => 1 end
  end.

Definition build_sg (jid : positive) (jmin : Z) (roles : list (positive * Z)) (pols : list sgpolicy)
    (tasks : list sg_task_spec) : gmap positive task * sgjob :=
  let ts := map (sg_task pols jid) tasks in
  let heap0 : gmap positive task := list_to_map (map (fun t => (t_id t, t)) ts) in
  let subs0 : gmap positive subjob :=
    list_to_map (map (fun t => (sub_id (eff_pol pols t) (st_val t), mkSub (sub_min pols jmin (eff_pol pols t)) ∅ ∅)) tasks) in
  let j0 := mkJob jid 1 jmin (list_to_map roles) (fold_left (fun acc kv => acc + snd kv) roles 0)
                  ∅ ∅ empty_res empty_res subs0 ∅ in
  let j := fold_left job_add ts j0 in
  let gid : gmap positive positive :=
    list_to_map (omap (fun t => let k := eff_pol pols t in
                                if k <=? 0 then None else Some (sub_id k (st_val t), Z.to_pos k)) tasks) in
  let mins : gmap positive Z :=
    list_to_map (imap (fun i p => (Pos.of_succ_nat i, default 0 (pol_min_groups p))) pols) in
  (heap0, mkSg j (match pols with [] => false | _ => true end) gid mins).
