(* C07 proofs, part H: Discard of a statement holding ANY number of recorded operations on
   pairwise distinct tasks restores the session.  Technique: every do / undo of task i changes the
   skeleton only at key i (heap entry i, the copy keyed i on one node) and the handler share of
   i's job by +-req(i) (frame relation local_on); per operation a "contract" packages the do
   step with the promise that its undo, run later on any state with the same skeleton, gives the
   skeleton before the do step back; LIFO induction over the operation list; determinacy
   (sk_determines) turns the restored skeleton into sess_eqv. *)
From stdpp Require Import gmap.
From Coq Require Import ZArith Lia.
From V Require Import Base.Res Base.ResLemmas Sched.LedgerModel Sched.StmtModel Sched.GangModel
  Sched.LedgerInvP Sched.LedgerInv Sched.LedgerLemmasA Sched.LedgerLemmasJob Sched.LedgerLemmasNode
  Sched.LedgerLemmasSess Sched.LedgerLemmasSk Sched.LedgerLemmasTxn.
Open Scope Z_scope.

Notation hvt := (status * option positive * res)%type.
Notation nvt := (bool * res * gmap positive hvt * option (res * res * res * res))%type.

(* ---------- node views under a change of one copy ---------- *)

Definition nv_set (v : nvt) (m : gmap positive hvt) : nvt := (v.1.1.1, v.1.1.2, m, v.2).

Definition nv_upd (N : gmap positive nvt) (nid i : positive) (x : option hvt) : gmap positive nvt :=
  match N !! nid with
  | Some v => <[nid := nv_set v (partial_alter (fun _ => x) i v.1.2)]> N
  | None => N
  end.

Definition nvcopy (N : gmap positive nvt) (nid j : positive) : option hvt :=
  N !! nid ≫= (fun v => v.1.2 !! j).

Lemma nv_set_id (v : nvt) : nv_set v v.1.2 = v.
Proof. destruct v as [[[a b] c] d]. reflexivity. Qed.

Lemma nv_upd_self N nid i x : nvcopy N nid i = x -> nv_upd N nid i x = N.
Proof.
  unfold nvcopy, nv_upd. destruct (N !! nid) as [v|] eqn:E; simpl; [|reflexivity].
  intros <-. rewrite partial_alter_self, nv_set_id. apply insert_id. exact E.
Qed.

Lemma nv_upd_upd N nid i x y : nv_upd (nv_upd N nid i x) nid i y = nv_upd N nid i y.
Proof.
  unfold nv_upd. destruct (N !! nid) as [v|] eqn:E; [|rewrite E; reflexivity].
  rewrite lookup_insert, insert_insert. f_equal. unfold nv_set. simpl.
  rewrite <- partial_alter_compose. reflexivity.
Qed.

Lemma nvcopy_upd_ne N nid i x nid' j : j <> i -> nvcopy (nv_upd N nid i x) nid' j = nvcopy N nid' j.
Proof.
  intros Hne. unfold nvcopy, nv_upd. destruct (N !! nid) as [v|] eqn:E; [|reflexivity].
  destruct (decide (nid' = nid)) as [->|Hn].
  - rewrite lookup_insert, E. simpl. apply lookup_partial_alter_ne. congruence.
  - rewrite lookup_insert_ne by congruence. reflexivity.
Qed.

Lemma nvcopy_upd N nid i x : is_Some (N !! nid) -> nvcopy (nv_upd N nid i x) nid i = x.
Proof.
  intros [v E]. unfold nvcopy, nv_upd. rewrite E, lookup_insert. simpl. apply lookup_partial_alter.
Qed.

Lemma nview_eq n : nview n = (n_has_node n, n_alloc n, hview <$> n_tasks n, nv4 n).
Proof. reflexivity. Qed.

Lemma nview_remove n i : nview (node_remove n i) = nv_set (nview n) (delete i (nview n).1.2).
Proof.
  destruct (node_remove_fields n i) as (_ & Hh & Ha & Ht).
  rewrite (nview_eq (node_remove n i)), Hh, Ha, Ht, nv4_remove, fmap_delete. reflexivity.
Qed.

Lemma nview_add eps n p n' q :
  node_add eps n p = inl (n', q) ->
  nview n' = nv_set (nview n) (<[t_id p := hview (set_node p (Some (n_id n)))]> (nview n).1.2).
Proof.
  intros Ha. destruct (node_add_spec _ _ _ _ _ Ha) as (_ & _ & Ht & _ & Hh & Hal & _).
  rewrite (nview_eq n'), Hh, Hal, Ht, (nv4_add _ _ _ _ _ Ha), fmap_insert. reflexivity.
Qed.

Lemma nv_insert_node s nid n n' m :
  nodes s !! nid = Some n -> nview n' = nv_set (nview n) m ->
  nview <$> (<[nid := n']> (nodes s)) = <[nid := nv_set (nview n) m]> (nv s).
Proof. intros Hn Hv. rewrite fmap_insert, Hv. reflexivity. Qed.

Lemma nv_rm_node (nds : gmap positive node) nid i :
  nview <$> rm_node nds (Some nid) i = nv_upd (nview <$> nds) nid i None.
Proof.
  unfold rm_node, nv_upd. rewrite lookup_fmap. destruct (nds !! nid) as [n|]; simpl; [|reflexivity].
  rewrite fmap_insert, nview_remove. reflexivity.
Qed.

(* ---------- the handler ledger ---------- *)

Definition cov (sh : gmap positive res) (p : task) : Prop :=
  covers (default empty_res (sh !! t_job p)) (t_req p).

Lemma covers_keep_add r y x : covers r x -> covers (add r y) x.
Proof. intros [H|H]; [left; apply add_sc_some, H|right; exact H]. Qed.
Lemma covers_keep_sub r y x : covers r x -> covers (sub r y) x.
Proof. intros [H|H]; [left; apply sub_sc_some, H|right; exact H]. Qed.

Lemma cov_add sh k y q : cov sh q -> cov (<[k := add (default empty_res (sh !! k)) y]> sh) q.
Proof.
  unfold cov. destruct (decide (t_job q = k)) as [->|Hne].
  - rewrite lookup_insert. simpl. apply covers_keep_add.
  - rewrite lookup_insert_ne by congruence. auto.
Qed.
Lemma cov_sub sh k y q : cov sh q -> cov (<[k := sub (default empty_res (sh !! k)) y]> sh) q.
Proof.
  unfold cov. destruct (decide (t_job q = k)) as [->|Hne].
  - rewrite lookup_insert. simpl. apply covers_keep_sub.
  - rewrite lookup_insert_ne by congruence. auto.
Qed.

Lemma shamt_add sh k y k' d :
  shamt (<[k := add (default empty_res (sh !! k)) y]> sh) k' d = shamt sh k' d + (if decide (k' = k) then amt y d else 0).
Proof.
  unfold shamt. destruct (decide (k' = k)) as [->|Hne].
  - rewrite lookup_insert. simpl. apply amt_add.
  - rewrite lookup_insert_ne by congruence. lia.
Qed.
Lemma shamt_sub sh k y k' d :
  covers (default empty_res (sh !! k)) y ->
  shamt (<[k := sub (default empty_res (sh !! k)) y]> sh) k' d = shamt sh k' d - (if decide (k' = k) then amt y d else 0).
Proof.
  intros Hc. unfold shamt. destruct (decide (k' = k)) as [->|Hne].
  - rewrite lookup_insert. simpl. apply amt_sub_covers, Hc.
  - rewrite lookup_insert_ne by congruence. lia.
Qed.

(* ---------- the frame relation ---------- *)

Definition ncopy (s : sess) (nid j : positive) : option task := nodes s !! nid ≫= (fun n => n_tasks n !! j).

Lemma nvcopy_ncopy s nid j : nvcopy (nv s) nid j = hview <$> ncopy s nid j.
Proof.
  unfold nvcopy, ncopy, nv. rewrite lookup_fmap. destruct (nodes s !! nid) as [n|]; simpl; [|reflexivity].
  apply lookup_fmap.
Qed.

Definition local_on (I : gset positive) (s s' : sess) : Prop :=
  (forall j, j ∉ I -> heap s' !! j = heap s !! j) /\ jv s' = jv s /\
  (forall j nid, j ∉ I -> ncopy s' nid j = ncopy s nid j) /\
  (forall q, cov (hshare s) q -> cov (hshare s') q).

Lemma ncopy_nodes_eq s s' nid j : nodes s' = nodes s -> ncopy s' nid j = ncopy s nid j.
Proof. intros H. unfold ncopy. rewrite H. reflexivity. Qed.

Lemma ncopy_insert_node s s' nid n n' nid' j :
  nodes s !! nid = Some n -> nodes s' = <[nid := n']> (nodes s) -> n_tasks n' !! j = n_tasks n !! j ->
  ncopy s' nid' j = ncopy s nid' j.
Proof.
  intros Hn Hs' Ht. unfold ncopy. rewrite Hs'. destruct (decide (nid' = nid)) as [->|Hne].
  - rewrite lookup_insert, Hn. simpl. exact Ht.
  - rewrite lookup_insert_ne by congruence. reflexivity.
Qed.

Lemma ncopy_rm_node s s' onid i nid' j :
  nodes s' = rm_node (nodes s) onid i -> j <> i -> ncopy s' nid' j = ncopy s nid' j.
Proof.
  intros Hn Hj. unfold rm_node in Hn. destruct onid as [nid|]; [|apply ncopy_nodes_eq, Hn].
  destruct (nodes s !! nid) as [n|] eqn:E; [|apply ncopy_nodes_eq, Hn].
  eapply ncopy_insert_node; eauto. destruct (node_remove_fields n i) as (_ & _ & _ & ->).
  apply lookup_delete_ne. congruence.
Qed.

Lemma node_update_tasks eps n p n' q :
  node_update eps n p = inl (n', q) -> forall j, j <> t_id p -> n_tasks n' !! j = n_tasks n !! j.
Proof.
  unfold node_update. intros H j Hj. destruct (node_add_spec _ _ _ _ _ H) as (_ & _ & Ht & _).
  destruct (node_remove_fields n (t_id p)) as (_ & _ & _ & Hr).
  rewrite Ht, lookup_insert_ne, Hr, lookup_delete_ne by congruence. reflexivity.
Qed.

Lemma ssn_node_update_ok' eps s p nid n :
  t_node p = Some nid -> nodes s !! nid = Some n -> n_id n = nid -> t_status p <> Binding ->
  exists n', ssn_node_update eps s p = (put_task (upd_nodes s (<[nid := n']> (nodes s))) p, p, false) /\
    n_id n' = nid /\
    nview n' = (n_has_node n, n_alloc n, <[t_id p := hview p]> (hview <$> n_tasks n), nv4 n) /\
    (forall j, j <> t_id p -> n_tasks n' !! j = n_tasks n !! j).
Proof.
  intros Hnode Hn Hid Hst. rewrite <- Hid in Hnode.
  destruct (node_update_ok eps n p Hnode Hst) as (n' & Hu & Hid' & Hv).
  exists n'. unfold ssn_node_update. rewrite Hnode, Hid, Hn, Hu. split; [reflexivity|]. split; [congruence|].
  split; [exact Hv|]. eapply node_update_tasks; eauto.
Qed.

Lemma local_on_refl I s : local_on I s s.
Proof. repeat split; auto. Qed.

Lemma local_on_trans I J s1 s2 s3 : local_on I s1 s2 -> local_on J s2 s3 -> local_on (I ∪ J) s1 s3.
Proof.
  intros (A1 & B1 & C1 & D1) (A2 & B2 & C2 & D2). split; [|split; [|split]].
  - intros j Hj. rewrite A2, A1 by set_solver. reflexivity.
  - congruence.
  - intros j nid Hj. rewrite C2, C1 by set_solver. reflexivity.
  - auto.
Qed.

Lemma local_on_mono I J s s' : I ⊆ J -> local_on I s s' -> local_on J s s'.
Proof.
  intros HIJ (A & B & C & D). split; [|split; [|split]]; auto.
Qed.

(* ---------- status update with a clone of the stored object ---------- *)

Lemma job_update_member' h j c stored st :
  h !! t_id c = Some stored -> t_id stored = t_id c -> jmember j c ->
  exists j', job_update h j c st = (j', set_status c st) /\ jview j' = jview j.
Proof.
  intros Hl Hid Hm. unfold job_update. pose proof Hm as (Hin & _).
  rewrite bool_decide_eq_true_2 by exact Hin. rewrite Hl.
  eexists. split; [reflexivity|]. apply jview_readd; [exact Hid|exact Hm].
Qed.

Lemma update_sk' s c stored st :
  heap_ok (heap s) -> jknown s c -> heap s !! t_id c = Some stored ->
  exists (f : bool) (s1 : sess), ssn_update_status s c st = (f, s1, if f then set_status c st else c) /\
    f = bool_decide (is_Some (jobs s !! t_job c)) /\
    heap s1 = (if f then <[t_id c := set_status c st]> (heap s) else heap s) /\
    jv s1 = jv s /\ others s1 = others s.
Proof.
  intros Hh Hjk Hl. unfold ssn_update_status, jknown in *. destruct (jobs s !! t_job c) as [j|] eqn:Ej.
  - destruct (Hh _ _ Hl) as [Hid _].
    destruct (job_update_member' (heap s) j c stored st Hl Hid Hjk) as (j' & -> & Hv).
    exists true. eexists. split; [reflexivity|]. split; [rewrite bool_decide_eq_true_2 by eauto; reflexivity|].
    split; [reflexivity|]. split; [apply (jv_insert_same s _ j j' Ej Hv)|reflexivity].
  - exists false, s. split; [reflexivity|]. split; [rewrite bool_decide_eq_false_2; [reflexivity|intros [? ?]; discriminate]|].
    repeat split.
Qed.

Lemma sess_ok_undo eps s o : sess_ok s -> sess_ok (undo_op eps s o).
Proof.
  intros (Hl & Hw & Hs). pose proof (good_undo_op eps _ s o (good_init s Hl Hw Hs)) as Hg.
  split; [exact (proj1 Hg)|]. split; [exact (proj1 (proj2 Hg))|]. eapply good_saved_ok; eauto.
Qed.

Lemma sess_ok_evict_with eps s sid c stored :
  sess_ok s -> heap s !! t_id c = Some stored -> t_job stored = t_job c -> t_req stored = t_req c ->
  sess_ok (fst (stmt_evict_with eps s sid c None)).
Proof.
  intros (Hl & Hw & Hs) Hc Hj Hr. pose proof (good_init s Hl Hw Hs) as Hg.
  assert (Hpk : pok (table_of (heap s)) c).
  { pose proof (good_heap_pok _ _ _ _ Hg Hc) as Hp. unfold pok in *. destruct Hl as (Hh & _).
    destruct (Hh _ _ Hc) as [Hid _]. rewrite <- Hj, <- Hr, <- Hid. exact Hp. }
  pose proof (good_evict_with eps _ s sid c None Hg Hpk) as Hg'.
  split; [exact (proj1 Hg')|]. split; [exact (proj1 (proj2 Hg'))|]. eapply good_saved_ok; eauto.
Qed.

(* Statement.Evict with the stored object or a clone of it: every field of the result *)
Lemma evict_sk eps s sid c stored nid n :
  ledger_inv s -> jknown s c -> heap s !! t_id c = Some stored ->
  t_node c = Some nid -> nodes s !! nid = Some n -> (t_status c = Running \/ t_status c = Bound) ->
  let f := bool_decide (is_Some (jobs s !! t_job c)) in
  let c1 := if f then set_status c Releasing else c in
  exists s1 n1, stmt_evict_with eps s sid c None = (s1, ROk) /\
    heap s1 = <[t_id c := c1]> (heap s) /\ jv s1 = jv s /\
    nodes s1 = <[nid := n1]> (nodes s) /\
    nview n1 = nv_set (nview n) (<[t_id c := hview c1]> (nview n).1.2) /\
    (forall j, j <> t_id c -> n_tasks n1 !! j = n_tasks n !! j) /\
    hshare s1 = <[t_job c := sub (default empty_res (hshare s !! t_job c)) (t_req c)]> (hshare s) /\
    stmts s1 = <[sid := default [] (stmts s !! sid) ++ [mkOp KEvict (t_id c) (t_status c)]]> (stmts s) /\
    lg s1 = lg s.
Proof.
  intros (Hh & _ & Hnodes) Hjk Hl Hnd Hn Hst. cbv zeta. destruct (Hnodes _ _ Hn) as [Hnid _].
  unfold stmt_evict_with.
  destruct (update_sk' s c stored Releasing Hh Hjk Hl) as (f & s1 & -> & Hf & Hh1 & Hjv1 & Ho1).
  rewrite <- Hf. apply others_inv in Ho1 as (Hn1 & Hs1 & _ & _ & _ & _ & Hb1 & He1 & Hst1 & _ & _).
  set (c1 := if f then set_status c Releasing else c).
  assert (Hc1 : t_id c1 = t_id c /\ t_job c1 = t_job c /\ t_req c1 = t_req c /\ t_node c1 = Some nid /\ t_status c1 <> Binding).
  { unfold c1. destruct f; simpl; repeat split; try assumption; [discriminate|]. destruct Hst as [-> | ->]; discriminate. }
  destruct Hc1 as (Hid1 & Hjob1 & Hreq1 & Hnode1 & Hnb1).
  assert (Hn1' : nodes s1 !! nid = Some n) by (rewrite Hn1; exact Hn).
  destruct (ssn_node_update_ok' eps s1 c1 nid n Hnode1 Hn1' Hnid Hnb1) as (n1 & -> & Hnid1 & Hv1 & Htk1).
  cbv beta iota zeta. change (default (t_status c) None) with (t_status c).
  eexists. exists n1. split; [reflexivity|].
  split; [simpl; rewrite Hh1, Hid1; destruct f; rewrite ?insert_insert; reflexivity|].
  split; [exact Hjv1|]. split; [simpl; rewrite Hn1; reflexivity|].
  split; [rewrite Hv1, Hid1; reflexivity|]. split; [rewrite <- Hid1; exact Htk1|].
  split; [simpl; rewrite Hs1, Hjob1, Hreq1; reflexivity|].
  split; [simpl; rewrite Hst1; reflexivity|]. unfold lg. simpl. rewrite Hb1, He1. reflexivity.
Qed.

(* unevict on the object the heap holds *)
Lemma unevict_sk eps s c1 prev nid n :
  ledger_inv s -> jknown s c1 -> heap s !! t_id c1 = Some c1 ->
  t_node c1 = Some nid -> nodes s !! nid = Some n ->
  (prev = Running \/ prev = Bound) -> t_status c1 <> Binding ->
  let f := bool_decide (is_Some (jobs s !! t_job c1)) in
  let c4 := if f then set_status c1 prev else c1 in
  exists n', let s' := fst (unevict_with eps s c1 prev) in
    heap s' = <[t_id c1 := c4]> (heap s) /\ jv s' = jv s /\
    nodes s' = <[nid := n']> (nodes s) /\
    nview n' = nv_set (nview n) (<[t_id c1 := hview c4]> (nview n).1.2) /\
    (forall j, j <> t_id c1 -> n_tasks n' !! j = n_tasks n !! j) /\
    hshare s' = <[t_job c1 := add (default empty_res (hshare s !! t_job c1)) (t_req c1)]> (hshare s) /\
    stmts s' = stmts s /\ lg s' = lg s.
Proof.
  intros (Hh & _ & Hnodes) Hjk Hl Hnd Hn Hprev Hnb. cbv zeta. destruct (Hnodes _ _ Hn) as [Hnid _].
  unfold unevict_with.
  assert (Hrs : restore_status prev = prev) by (destruct Hprev as [-> | ->]; reflexivity). rewrite Hrs.
  destruct (update_sk' s c1 c1 prev Hh Hjk Hl) as (f & s1 & -> & Hf & Hh1 & Hjv1 & Ho1).
  rewrite <- Hf. apply others_inv in Ho1 as (Hn1 & Hs1 & _ & _ & _ & _ & Hb1 & He1 & Hst1 & _ & _).
  set (c4 := if f then set_status c1 prev else c1).
  assert (Hc4 : t_id c4 = t_id c1 /\ t_job c4 = t_job c1 /\ t_req c4 = t_req c1 /\ t_node c4 = Some nid /\ t_status c4 <> Binding).
  { unfold c4. destruct f; simpl; repeat split; try assumption. destruct Hprev as [-> | ->]; discriminate. }
  destruct Hc4 as (Hid4 & Hjob4 & Hreq4 & Hnode4 & Hnb4).
  assert (Hn1' : nodes s1 !! nid = Some n) by (rewrite Hn1; exact Hn).
  destruct (ssn_node_update_ok' eps s1 c4 nid n Hnode4 Hn1' Hnid Hnb4) as (n' & -> & Hnid' & Hv' & Htk').
  cbv beta iota zeta. unfold h_alloc. cbn [fst snd]. exists n'.
  split; [simpl; rewrite Hh1, Hid4; destruct f; rewrite ?insert_insert; reflexivity|].
  split; [exact Hjv1|]. split; [simpl; rewrite Hn1; reflexivity|].
  split; [rewrite Hv', Hid4; reflexivity|]. split; [rewrite <- Hid4; exact Htk'|].
  split; [simpl; rewrite Hs1, Hjob4, Hreq4; reflexivity|].
  split; [simpl; exact Hst1|]. unfold lg. simpl. rewrite Hb1, He1. reflexivity.
Qed.

(* ---------- contracts ---------- *)

Definition undo_contract eps (i : positive) (s s1 : sess) (rec_o : list oprec) : Prop :=
  forall s'', sess_ok s'' -> hv s'' = hv s1 -> jv s'' = jv s1 -> nv s'' = nv s1 ->
    (forall k d, shamt (hshare s'') k d = shamt (hshare s1) k d) ->
    heap s'' !! i = heap s1 !! i -> (forall q, cov (hshare s1) q -> cov (hshare s'') q) ->
    let s3 := fold_left (undo_op eps) (rev rec_o) s'' in
    hv s3 = hv s /\ jv s3 = jv s /\ nv s3 = nv s /\
    (forall k d, shamt (hshare s3) k d = shamt (hshare s) k d) /\
    local_on {[i]} s'' s3 /\ sess_ok s3 /\ lg s3 = lg s''.

Definition do_contract eps (sid i : positive) (s s1 : sess) (L rec_o : list oprec) : Prop :=
  default [] (stmts s1 !! sid) = L ++ rec_o /\ Forall (fun o => op_task o = i) rec_o /\
  sess_ok s1 /\ local_on {[i]} s s1 /\ lg s1 = lg s /\ undo_contract eps i s s1 rec_o.

Lemma placeable_nvcopy s p nid : placeable s p nid -> nvcopy (nv s) nid (t_id p) = None.
Proof.
  intros (_ & _ & _ & _ & Hoff). unfold nvcopy, nv. rewrite lookup_fmap.
  destruct (nodes s !! nid) as [n|] eqn:E; simpl; [|reflexivity].
  rewrite lookup_fmap, (Hoff n eq_refl). reflexivity.
Qed.

Lemma placed_obj_fields s k p nid :
  let p2 := placed_obj s k p nid in
  t_id p2 = t_id p /\ t_job p2 = t_job p /\ t_sub p2 = t_sub p /\ t_req p2 = t_req p /\ t_node p2 = Some nid.
Proof. unfold placed_obj. destruct (bool_decide _); repeat split. Qed.

Lemma placed_nv eps s k p nid s4 :
  ledger_inv s -> placed_state eps s p (placed_obj s k p nid) nid s4 ->
  nv s4 = nv s \/ nv s4 = nv_upd (nv s) nid (t_id p) (Some (hview (placed_obj s k p nid))).
Proof.
  intros (_ & _ & Hnodes) (_ & _ & _ & [Hn4|(n & n' & q & En & Ea & Hn4)] & _).
  - left. unfold nv. rewrite Hn4. reflexivity.
  - right. destruct (Hnodes _ _ En) as [Hnid _].
    destruct (placed_obj_fields s k p nid) as (Hid2 & _ & _ & _ & Hnode2).
    pose proof (nview_add _ _ _ _ _ Ea) as Hv. rewrite Hnid, (set_node_id _ _ Hnode2), Hid2 in Hv.
    unfold nv at 1. rewrite Hn4, fmap_insert, Hv. unfold nv_upd, nv. rewrite (lookup_fmap nview (nodes s) nid), En. reflexivity.
Qed.

Theorem contract_place eps s sid k p nid L :
  sess_ok s -> placeable s p nid -> k <> KEvict -> default [] (stmts s !! sid) = L ->
  exists rec_o, do_contract eps sid (t_id p) s (fst (place_with eps s sid k p nid)) L rec_o.
Proof.
  intros Hok Hpl Hk HL. pose proof (placeable_nvcopy s p nid Hpl) as Hnc.
  destruct Hpl as (Hl & Hst & Hnd & Hjk & Hoff).
  pose proof (sess_ok_place eps s sid k p nid Hok Hl) as Hok1.
  pose proof (lg_place eps s sid k p nid) as Hlg1.
  destruct (place_sk eps s sid k p nid (proj1 Hok) Hjk Hl) as (ok & b & s4 & Hps & Hst4 & Hb4 & He4 & (Hsv4 & Hrb4) & _ & Heq).
  pose proof (placed_nv eps s k p nid s4 (proj1 Hok) Hps) as Hnv4.
  pose proof Hps as (Hh4 & Hjv4 & Hjk4 & Hn4 & Hs4).
  set (p2 := placed_obj s k p nid) in *.
  destruct (placed_obj_fields s k p nid) as (Hid2 & Hjob2 & Hsub2 & Hreq2 & Hnode2). fold p2 in Hid2, Hjob2, Hsub2, Hreq2, Hnode2.
  assert (Hjk2 : forall s', jv s' = jv s -> jknown s' p2).
  { intros s' Hjv'. apply (jknown_jv s s'); [congruence|]. eapply (jknown_fields s s p p2); auto. }
  (* what unallocate does to a state that holds p2 *)
  assert (Hun : forall sx, heap sx !! t_id p = Some p2 -> jv sx = jv s ->
            let s3 := unallocate_with sx p2 in
            heap s3 = <[t_id p := set_node (if bool_decide (is_Some (jobs s !! t_job p)) then set_status p2 Pending else p2) None]> (heap sx) /\
            jv s3 = jv s /\ nv s3 = nv_upd (nv sx) nid (t_id p) None /\
            hshare s3 = <[t_job p := sub (default empty_res (hshare sx !! t_job p)) (t_req p)]> (hshare sx) /\
            stmts s3 = stmts sx /\ nodes s3 = rm_node (nodes sx) (Some nid) (t_id p)).
  { intros sx Hlx Hjvx. cbv zeta.
    assert (Hlx' : heap sx !! t_id p2 = Some p2) by (rewrite Hid2; exact Hlx).
    destruct (unallocate_sk sx p2 (Hjk2 sx Hjvx) Hlx') as (A & B & _ & C & D & E & _).
    rewrite Hid2, Hjob2, Hreq2, Hnode2 in *. rewrite <- (found_jv s sx _ (eq_sym Hjvx)) in A.
    split; [exact A|]. split; [congruence|]. split; [unfold nv at 1; rewrite C; apply nv_rm_node|]. split; [exact D|]. split; [exact E|exact C]. }
  assert (Hnv0 : nv_upd (nv s4) nid (t_id p) None = nv s).
  { destruct Hnv4 as [-> | ->]; rewrite ?nv_upd_upd; apply nv_upd_self; exact Hnc. }
  assert (Hfr4 : forall sx j nid', nodes sx = nodes s4 -> j <> t_id p -> ncopy sx nid' j = ncopy s nid' j).
  { intros sx j nid' Hsx Hj. destruct Hn4 as [Hn4|(n & n' & q & En & Ea & Hn4)].
    - apply ncopy_nodes_eq. congruence.
    - eapply (ncopy_insert_node s sx nid n n'); [exact En|congruence|].
      destruct (node_add_spec _ _ _ _ _ Ea) as (_ & _ & -> & _). rewrite Hid2. apply lookup_insert_ne. congruence. }
  assert (Hl4 : heap s4 !! t_id p = Some p2) by (rewrite Hh4; apply lookup_insert).
  rewrite Heq in *. destruct (bool_decide (is_Some (jobs s !! t_job p)) && ok && negb b) eqn:Hdec; cbn [fst] in *.
  - (* recorded *)
    assert (Hfound : bool_decide (is_Some (jobs s !! t_job p)) = true).
    { destruct (bool_decide (is_Some (jobs s !! t_job p))); [reflexivity|discriminate]. }
    exists [mkOp k (t_id p) Pending]. split; [|split; [|split; [|split; [|split]]]].
    + unfold push_op. simpl. rewrite lookup_insert. simpl. rewrite Hst4, HL. reflexivity.
    + repeat constructor.
    + exact Hok1.
    + split; [|split; [|split]].
      * intros j Hj. simpl. rewrite Hh4. apply lookup_insert_ne. set_solver.
      * exact Hjv4.
      * intros j nid' Hj. apply Hfr4; [reflexivity|set_solver].
      * intros q Hq. simpl. rewrite Hs4. apply cov_add, Hq.
    + exact Hlg1.
    + intros s'' Hok'' Hhv Hjv Hnv Hsh Hheap Hcov. cbn [rev app fold_left].
      assert (Hl'' : heap s'' !! t_id p = Some p2) by (rewrite Hheap; exact Hl4).
      assert (Hundo : undo_op eps s'' (mkOp k (t_id p) Pending) = unallocate_with s'' p2).
      { unfold undo_op. cbn [op_task op_kind]. rewrite Hl''. destruct k; [congruence|reflexivity|reflexivity]. }
      rewrite Hundo. destruct (Hun s'' Hl'' (eq_trans Hjv Hjv4)) as (A & B & C & D & E & Craw).
      rewrite Hfound in A.
      assert (Hcov2 : covers (default empty_res (hshare s'' !! t_job p)) (t_req p)).
      { specialize (Hcov p2). unfold cov in Hcov. rewrite Hjob2, Hreq2 in Hcov. apply Hcov.
        simpl. rewrite Hs4, lookup_insert. simpl. apply covers_add. }
      split; [|split; [|split; [|split; [|split; [|split]]]]].
      * unfold hv at 1. rewrite A, fmap_insert. fold (hv s''). rewrite Hhv.
        change (hv (push_op s4 sid k (t_id p) Pending)) with (hview <$> heap s4).
        rewrite Hh4, fmap_insert, insert_insert. apply insert_id. unfold hv. rewrite lookup_fmap, Hl. simpl.
        unfold hview. simpl. rewrite Hst, Hnd. try rewrite Hreq2. try reflexivity.
        unfold p2, placed_obj. destruct (bool_decide _); reflexivity.
      * exact B.
      * rewrite C, Hnv. exact Hnv0.
      * intros k' d. rewrite D, shamt_sub by exact Hcov2. rewrite Hsh. simpl. rewrite Hs4, shamt_add. lia.
      * split; [|split; [|split]].
        -- intros j Hj. rewrite A. apply lookup_insert_ne. set_solver.
        -- rewrite B. symmetry. exact (eq_trans Hjv Hjv4).
        -- intros j nid' Hj. eapply ncopy_rm_node; [exact Craw|set_solver].
        -- intros q Hq. rewrite D. apply cov_sub, Hq.
      * rewrite <- Hundo. apply sess_ok_undo, Hok''.
      * rewrite <- Hundo. apply lg_undo.
  - (* failed: rolled back at once *)
    destruct (Hun s4 Hl4 Hjv4) as (A & B & C & D & E & Craw).
    assert (Hhv1 : hv (unallocate_with s4 p2) = hv s).
    { unfold hv at 1. rewrite A, Hh4, insert_insert, fmap_insert. apply insert_id. unfold hv. rewrite lookup_fmap, Hl.
      cbn [fmap option_fmap option_map]. f_equal. unfold p2, placed_obj, hview.
      destruct (bool_decide (is_Some (jobs s !! t_job p))); simpl; rewrite ?Hst, ?Hnd; reflexivity. }
    assert (Hnv1 : nv (unallocate_with s4 p2) = nv s) by (rewrite C; exact Hnv0).
    assert (Hsh1 : forall k' d, shamt (hshare (unallocate_with s4 p2)) k' d = shamt (hshare s) k' d).
    { intros k' d. rewrite D, shamt_sub, Hs4, shamt_add; [lia|]. rewrite Hs4, lookup_insert. simpl. apply covers_add. }
    exists []. split; [|split; [|split; [|split; [|split]]]].
    + rewrite app_nil_r, E, Hst4. exact HL.
    + constructor.
    + exact Hok1.
    + split; [|split; [|split]].
      * intros j Hj. rewrite A, Hh4, insert_insert. apply lookup_insert_ne. set_solver.
      * exact B.
      * intros j nid' Hj. rewrite (ncopy_rm_node s4 _ _ _ nid' j Craw) by set_solver. apply Hfr4; [reflexivity|set_solver].
      * intros q Hq. rewrite D, Hs4. apply cov_sub, cov_add, Hq.
    + exact Hlg1.
    + intros s'' Hok'' Hhv Hjv Hnv Hsh Hheap Hcov. cbn [rev fold_left].
      split; [congruence|]. split; [congruence|]. split; [congruence|].
      split; [intros k' d; rewrite Hsh; apply Hsh1|]. split; [apply local_on_refl|]. split; [exact Hok''|reflexivity].
Qed.

Lemma nv_node_upd s nid n n' i h :
  nodes s !! nid = Some n -> nview n' = nv_set (nview n) (<[i := h]> (nview n).1.2) ->
  nview <$> (<[nid := n']> (nodes s)) = nv_upd (nv s) nid i (Some h).
Proof.
  intros Hn Hv. rewrite fmap_insert, Hv. unfold nv_upd, nv.
  rewrite (lookup_fmap nview (nodes s) nid), Hn. reflexivity.
Qed.

Lemma nv_lookup_node s nid : is_Some (nv s !! nid) -> is_Some (nodes s !! nid).
Proof. unfold nv. rewrite lookup_fmap. destruct (nodes s !! nid); [eauto|intros [? ?]; discriminate]. Qed.

(* the precondition of Evict with a passed object c (the stored object p itself, or the clone
   of it that the node holds) *)
Definition evictable_with (s : sess) (p c : task) (nid : positive) : Prop :=
  heap s !! t_id p = Some p /\ (t_status p = Running \/ t_status p = Bound) /\ t_node p = Some nid /\
  t_id c = t_id p /\ t_job c = t_job p /\ t_sub c = t_sub p /\ hview c = hview p /\
  jknown s p /\ nvcopy (nv s) nid (t_id p) = Some (hview p) /\ cov (hshare s) p.

Theorem contract_evict eps s sid p c nid L :
  sess_ok s -> evictable_with s p c nid -> default [] (stmts s !! sid) = L ->
  exists rec_o, do_contract eps sid (t_id p) s (fst (stmt_evict_with eps s sid c None)) L rec_o.
Proof.
  intros Hok (Hl & Hstp & Hnd & Hidc & Hjobc & Hsubc & Hvc & Hjk & Hnc & Hcov) HL.
  assert (Hvc' : t_status c = t_status p /\ t_node c = t_node p /\ t_req c = t_req p)
    by (unfold hview in Hvc; inversion Hvc; auto).
  destruct Hvc' as (Hstc & Hndc & Hreqc).
  assert (Hjkc : jknown s c) by (eapply (jknown_fields s s p c); auto).
  assert (Hlc : heap s !! t_id c = Some p) by (rewrite Hidc; exact Hl).
  assert (Hnode : is_Some (nodes s !! nid)).
  { apply nv_lookup_node. unfold nvcopy in Hnc. destruct (nv s !! nid); [eauto|discriminate]. }
  destruct Hnode as [n Hn].
  assert (Hndc' : t_node c = Some nid) by congruence.
  assert (Hstc' : t_status c = Running \/ t_status c = Bound) by (rewrite Hstc; exact Hstp).
  pose proof (sess_ok_evict_with eps s sid c p Hok Hlc (eq_sym Hjobc) (eq_sym Hreqc)) as Hok1.
  destruct (evict_sk eps s sid c p nid n (proj1 Hok) Hjkc Hlc Hndc' Hn Hstc')
    as (s1 & n1 & Heq & Hh1 & Hjv1 & Hn1 & Hv1 & Htk1 & Hs1 & Hst1 & Hlg1).
  rewrite Heq in *. cbn [fst] in *.
  set (f := bool_decide (is_Some (jobs s !! t_job c))) in *.
  set (c1 := if f then set_status c Releasing else c) in *.
  assert (Hc1 : t_id c1 = t_id p /\ t_job c1 = t_job p /\ t_sub c1 = t_sub p /\ t_req c1 = t_req p /\
                t_node c1 = Some nid /\ t_status c1 <> Binding).
  { unfold c1. destruct f; simpl; repeat split; try congruence.
    all: destruct Hstc' as [H|H]; rewrite H; discriminate. }
  destruct Hc1 as (Hid1 & Hjob1 & Hsub1 & Hreq1 & Hnode1 & Hnb1).
  rewrite Hidc, Hjobc, Hreqc in *.
  assert (Hnv1 : nv s1 = nv_upd (nv s) nid (t_id p) (Some (hview c1))).
  { unfold nv at 1. rewrite Hn1. eapply nv_node_upd; eauto. }
  assert (Hhv1 : hv s1 = <[t_id p := hview c1]> (hv s)) by (unfold hv at 1; rewrite Hh1, fmap_insert; reflexivity).
  exists [mkOp KEvict (t_id p) (t_status c)]. split; [|split; [|split; [|split; [|split]]]].
  - rewrite Hst1, lookup_insert. simpl. rewrite HL. reflexivity.
  - repeat constructor.
  - exact Hok1.
  - split; [|split; [|split]].
    + intros j Hj. rewrite Hh1. apply lookup_insert_ne. set_solver.
    + exact Hjv1.
    + intros j nid' Hj. eapply (ncopy_insert_node s s1 nid n n1); [exact Hn|exact Hn1|apply Htk1; set_solver].
    + intros q Hq. rewrite Hs1. apply cov_sub, Hq.
  - exact Hlg1.
  - intros s'' Hok'' Hhv Hjv Hnv Hsh Hheap Hcv. cbn [rev app fold_left].
    assert (Hl'' : heap s'' !! t_id p = Some c1) by (rewrite Hheap, Hh1; apply lookup_insert).
    assert (Hundo : undo_op eps s'' (mkOp KEvict (t_id p) (t_status c)) = fst (unevict_with eps s'' c1 (t_status c))).
    { unfold undo_op. cbn [op_task op_kind op_prev]. rewrite Hl''. reflexivity. }
    rewrite Hundo.
    assert (Hjk1 : jknown s'' c1).
    { apply (jknown_jv s s''); [congruence|]. eapply (jknown_fields s s p c1); auto. }
    assert (Hl1'' : heap s'' !! t_id c1 = Some c1) by (rewrite Hid1; exact Hl'').
    assert (Hnode'' : is_Some (nodes s'' !! nid)).
    { apply nv_lookup_node. rewrite Hnv, Hnv1. unfold nv_upd, nv. rewrite (lookup_fmap nview (nodes s) nid), Hn.
      simpl. rewrite lookup_insert. eauto. }
    destruct Hnode'' as [n'' Hn''].
    destruct (unevict_sk eps s'' c1 (t_status c) nid n'' (proj1 Hok'') Hjk1 Hl1'' Hnode1 Hn'' Hstc' Hnb1)
      as (n3 & A & B & C & D & Dt & E & F & G).
    rewrite Hid1, Hjob1, Hreq1 in *.
    assert (Hff : bool_decide (is_Some (jobs s'' !! t_job p)) = f).
    { unfold f. rewrite Hjobc. symmetry. apply found_jv. congruence. }
    rewrite Hff in *.
    set (c4 := if f then set_status c1 (t_status c) else c1) in *.
    assert (Hv4 : hview c4 = hview p).
    { rewrite <- Hvc. unfold c4, c1, hview. destruct f; reflexivity. }
    rewrite Hv4 in D.
    assert (Hnv3 : nv (unevict_with eps s'' c1 (t_status c)).1 = nv_upd (nv s'') nid (t_id p) (Some (hview p))).
    { unfold nv at 1. rewrite C. eapply nv_node_upd; eauto. }
    split; [|split; [|split; [|split; [|split; [|split]]]]].
    + unfold hv at 1. rewrite A, fmap_insert, Hv4. fold (hv s''). rewrite Hhv, Hhv1, insert_insert.
      apply insert_id. unfold hv. rewrite lookup_fmap, Hl. reflexivity.
    + congruence.
    + rewrite Hnv3, Hnv, Hnv1, nv_upd_upd. apply nv_upd_self. exact Hnc.
    + intros k' d. rewrite E, shamt_add, Hsh, Hs1, shamt_sub by exact Hcov. lia.
    + split; [|split; [|split]].
      * intros j Hj. rewrite A. apply lookup_insert_ne. set_solver.
      * exact B.
      * intros j nid' Hj. eapply (ncopy_insert_node s'' _ nid n'' n3); [exact Hn''|exact C|apply Dt; set_solver].
      * intros q Hq. rewrite E. apply cov_add, Hq.
    + rewrite <- Hundo. apply sess_ok_undo, Hok''.
    + exact G.
Qed.

(* ---------- transactions ---------- *)

Inductive txop := TPlace (k : opkind) (tid nid : positive) | TEvict (clone : bool) (tid : positive).

Definition tx_tid (o : txop) : positive := match o with TPlace _ t _ => t | TEvict _ t => t end.

Definition tx_op (sid : positive) (o : txop) : op :=
  match o with
  | TPlace KAllocate t n => OAllocate sid t n
  | TPlace _ t n => OPipeline sid t n
  | TEvict false t => OEvict sid t
  | TEvict true t => OEvictClone sid t
  end.

(* the call sites' preconditions *)
Definition tx_pre (s : sess) (o : txop) : Prop :=
  match o with
  | TPlace k t nid => k <> KEvict /\ exists p, t_id p = t /\ placeable s p nid
  | TEvict false t => exists p nid, t_id p = t /\ evictable_with s p p nid
  | TEvict true t => exists p nid c, t_id p = t /\ ncopy s nid t = Some c /\ evictable_with s p c nid
  end.

Lemma placeable_frame I s s' p nid :
  local_on I s s' -> t_id p ∉ I -> placeable s p nid -> placeable s' p nid.
Proof.
  intros (A & B & C & D) Hi (Hl & Hst & Hnd & Hjk & Hoff).
  split; [rewrite A by exact Hi; exact Hl|]. split; [exact Hst|]. split; [exact Hnd|].
  split; [apply (jknown_jv s s'); [congruence|exact Hjk]|].
  intros n Hn. specialize (C (t_id p) nid Hi). unfold ncopy in C. rewrite Hn in C. simpl in C. rewrite C.
  destruct (nodes s !! nid) as [n0|] eqn:E; simpl; [apply Hoff; reflexivity|reflexivity].
Qed.

Lemma evictable_with_frame I s s' p c nid :
  local_on I s s' -> t_id p ∉ I -> evictable_with s p c nid -> evictable_with s' p c nid.
Proof.
  intros (A & B & C & D) Hi (Hl & H2 & H3 & H4 & H5 & H6 & H7 & Hjk & Hnc & Hcov).
  split; [rewrite A by exact Hi; exact Hl|]. repeat (split; [assumption|]).
  split; [apply (jknown_jv s s'); [congruence|exact Hjk]|].
  split; [rewrite nvcopy_ncopy, C by exact Hi; rewrite <- nvcopy_ncopy; exact Hnc|apply D, Hcov].
Qed.

Lemma tx_pre_frame I s s' o : local_on I s s' -> tx_tid o ∉ I -> tx_pre s o -> tx_pre s' o.
Proof.
  intros Hloc Hi. destruct o as [k t nid|[|] t]; simpl in *.
  - intros (Hk & p & <- & Hp). split; [exact Hk|]. exists p. split; [reflexivity|]. eapply placeable_frame; eauto.
  - intros (p & nid & c & <- & Hc & He). exists p, nid, c. split; [reflexivity|].
    split; [destruct Hloc as (_ & _ & C & _); rewrite C by exact Hi; exact Hc|]. eapply evictable_with_frame; eauto.
  - intros (p & nid & <- & He). exists p, nid. split; [reflexivity|]. eapply evictable_with_frame; eauto.
Qed.

Lemma tx_step eps sid s o L :
  sess_ok s -> tx_pre s o -> default [] (stmts s !! sid) = L ->
  exists rec_o, do_contract eps sid (tx_tid o) s (fst (step eps s (tx_op sid o))) L rec_o.
Proof.
  intros Hok Hpre HL. destruct o as [k t nid|[|] t]; simpl in Hpre.
  - destruct Hpre as (Hk & p & <- & Hp). pose proof Hp as (Hl & _).
    destruct (contract_place eps s sid k p nid L Hok Hp Hk HL) as (rec_o & Hc). exists rec_o.
    destruct k; [congruence| |]; simpl; unfold stmt_pipeline, stmt_allocate, with_task; rewrite Hl; exact Hc.
  - destruct Hpre as (p & nid & c & <- & Hc & He). pose proof He as (Hl & _ & Hnd & _).
    destruct (contract_evict eps s sid p c nid L Hok He HL) as (rec_o & Hcn). exists rec_o.
    simpl. unfold stmt_evict_clone. rewrite Hl, Hnd. unfold ncopy in Hc.
    destruct (nodes s !! nid) as [n|]; [|discriminate]. simpl in Hc. rewrite Hc. exact Hcn.
  - destruct Hpre as (p & nid & <- & He). pose proof He as (Hl & _).
    destruct (contract_evict eps s sid p p nid L Hok He HL) as (rec_o & Hcn). exists rec_o.
    simpl. unfold stmt_evict, with_task. rewrite Hl. exact Hcn.
Qed.

(* LIFO induction: run the operations, then undo what was recorded in reverse order *)
Lemma discard_chain eps sid ops : forall s L,
  sess_ok s -> default [] (stmts s !! sid) = L -> NoDup (map tx_tid ops) -> Forall (tx_pre s) ops ->
  let s' := run eps s (map (tx_op sid) ops) in
  exists recs, default [] (stmts s' !! sid) = L ++ recs /\
    let s'' := fold_left (undo_op eps) (rev recs) s' in
    hv s'' = hv s /\ jv s'' = jv s /\ nv s'' = nv s /\
    (forall k d, shamt (hshare s'') k d = shamt (hshare s) k d) /\
    local_on (list_to_set (map tx_tid ops)) s s'' /\ sess_ok s'' /\ lg s'' = lg s.
Proof.
  induction ops as [|o rest IH]; intros s L Hok HL Hnd Hpre; cbv zeta.
  - exists []. split; [rewrite app_nil_r; exact HL|]. simpl.
    do 4 (split; [reflexivity|]). split; [apply local_on_refl|]. split; [exact Hok|reflexivity].
  - simpl in Hnd. apply NoDup_cons in Hnd as [Hnotin Hnd']. apply Forall_cons in Hpre as [Hpo Hpr].
    destruct (tx_step eps sid s o L Hok Hpo HL) as (rec_o & Hst1 & Hall & Hok1 & Hloc1 & Hlg1 & Hundo).
    set (s1 := fst (step eps s (tx_op sid o))) in *.
    assert (Hpre1 : Forall (tx_pre s1) rest).
    { apply Forall_forall. intros o' Ho'. eapply tx_pre_frame; [exact Hloc1| |eapply Forall_forall; eauto].
      intros Hin. apply elem_of_singleton in Hin. apply Hnotin. rewrite <- Hin. apply elem_of_list_fmap. eauto. }
    destruct (IH s1 (L ++ rec_o) Hok1 Hst1 Hnd' Hpre1) as (recs & Hst' & Hhv & Hjv & Hnv & Hsh & Hloc & Hok'' & Hlg'').
    change (run eps s (map (tx_op sid) (o :: rest))) with (run eps s1 (map (tx_op sid) rest)).
    set (s' := run eps s1 (map (tx_op sid) rest)) in *.
    set (s'' := fold_left (undo_op eps) (rev recs) s') in *.
    exists (rec_o ++ recs). split; [rewrite Hst', app_assoc; reflexivity|].
    rewrite rev_app_distr, fold_left_app. fold s''.
    assert (Hi : tx_tid o ∉ (list_to_set (map tx_tid rest) : gset positive)).
    { rewrite elem_of_list_to_set. exact Hnotin. }
    destruct Hloc as (A & B & C & D).
    destruct (Hundo s'' Hok'' Hhv Hjv Hnv Hsh (A _ Hi) D) as (H1 & H2 & H3 & H4 & H5 & H6 & H7).
    split; [exact H1|]. split; [exact H2|]. split; [exact H3|]. split; [exact H4|].
    split; [|split; [exact H6|congruence]].
    eapply local_on_mono; [|eapply local_on_trans; [eapply local_on_trans; [exact Hloc1|]|exact H5]].
    2: { split; [exact A|]. split; [exact B|]. split; [exact C|exact D]. }
    simpl. set_solver.
Qed.

(* 5. Discard restores the session: any number of Allocate / Pipeline / Evict / Evict-with-the-
   node's-clone operations recorded in ONE statement on pairwise distinct tasks that meet the
   call sites' preconditions (operations that fail on the way are allowed: they leave no
   trace and are not recorded) *)
Theorem discard_restores eps s sid ops :
  sess_ok s -> default [] (stmts s !! sid) = [] -> NoDup (map tx_tid ops) -> Forall (tx_pre s) ops ->
  let s' := run eps s (map (tx_op sid) ops) in
  sess_eqv s (stmt_discard eps s' sid) /\
  binds (stmt_discard eps s' sid) = binds s /\ evicts (stmt_discard eps s' sid) = evicts s.
Proof.
  intros Hok HL Hnd Hpre. cbv zeta.
  destruct (discard_chain eps sid ops s [] Hok HL Hnd Hpre) as (recs & Hst & Hhv & Hjv & Hnv & Hsh & _ & Hok'' & Hlg).
  unfold stmt_discard. rewrite Hst. cbn [app].
  set (s'' := fold_left (undo_op eps) (rev recs) (run eps s (map (tx_op sid) ops))) in *.
  split; [|unfold lg in Hlg; inversion Hlg; auto].
  apply sk_sess_eqv; [exact (proj1 Hok)|exact (proj1 Hok'')|symmetry; exact Hhv|symmetry; exact Hjv|symmetry; exact Hnv|].
  apply share_same_amt. intros k d. symmetry. apply Hsh.
Qed.

Lemma evictable_to_with s p nid : evictable s p nid -> evictable_with s p p nid.
Proof.
  intros (Hl & Hst & Hnd & Hjk & (n & c & Hn & Hc & Hv) & Hcov).
  repeat (split; [first [assumption|reflexivity]|]). split; [|exact Hcov].
  unfold nvcopy, nv. rewrite lookup_fmap, Hn. simpl. rewrite lookup_fmap, Hc. simpl. congruence.
Qed.
