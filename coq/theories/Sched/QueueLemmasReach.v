(* C03, part 2: every step of the action skeleton is a sequence of micro-steps, each of which is
   either invisible to the queue ledger ("silent"), a deallocate callback for a task of the heap,
   or an allocate callback for a task of the heap that is either best-effort (backfill) or was
   admitted by the queue's Allocatable vote evaluated on the ledger as it is at that moment.
   Both events_balance and queue_cap_invariant are inductions over this decomposition. *)
From stdpp Require Import gmap.
From Coq Require Import ZArith Lia.
From V Require Import Base.Res Base.ResLemmas Sched.LedgerModel Sched.StmtModel Sched.GangModel
                      Sched.CycleModel Sched.LedgerInvP Sched.QueueLemmasBase.
Open Scope Z_scope.

(* ---------- what never changes: request, job and best-effort flag of a task; queue of a job ---------- *)

Definition stat_of (t : task) : res * positive * bool := (t_req t, t_job t, t_best_effort t).
Definition tstat (s : sess) (i : positive) : option (res * positive * bool) := stat_of <$> (heap s !! i).
(* p is (a copy of) the heap's task with p's id *)
Definition hp (s : sess) (p : task) : Prop := tstat s (t_id p) = Some (stat_of p).
Definition tsame (p p' : task) : Prop := t_id p' = t_id p /\ stat_of p' = stat_of p.
Definition heap_ids (s : sess) : Prop := forall i t, heap s !! i = Some t -> t_id t = i.
Definition no_evict (s : sess) : Prop :=
  forall sid l o, stmts s !! sid = Some l -> o ∈ l -> op_kind o <> KEvict.

Record stat_eq (s s' : sess) : Prop := mkSE {
  se_t : forall i, tstat s' i = tstat s i;
  se_j : forall i, jq s' i = jq s i;
  se_ids : heap_ids s -> heap_ids s';
  se_ne : no_evict s -> no_evict s' }.

Record silent (s s' : sess) : Prop := mkSil {
  sil_se : stat_eq s s'; sil_share : hshare s' = hshare s; sil_log : hlog s' = hlog s }.

Lemma stat_eq_refl s : stat_eq s s.
Proof. split; auto. Qed.
Lemma stat_eq_trans s1 s2 s3 : stat_eq s1 s2 -> stat_eq s2 s3 -> stat_eq s1 s3.
Proof.
  intros [a b c d] [a' b' c' d']. split; auto.
  - intros i. rewrite a'. apply a.
  - intros i. rewrite b'. apply b.
Qed.
Lemma silent_refl s : silent s s.
Proof. split; auto using stat_eq_refl. Qed.
Lemma silent_trans s1 s2 s3 : silent s1 s2 -> silent s2 s3 -> silent s1 s3.
Proof.
  intros [a b c] [a' b' c']. split; [eapply stat_eq_trans; eauto|congruence|congruence].
Qed.

Lemma tsame_refl p : tsame p p.
Proof. split; reflexivity. Qed.
Lemma tsame_trans p1 p2 p3 : tsame p1 p2 -> tsame p2 p3 -> tsame p1 p3.
Proof. intros [a b] [a' b']. split; congruence. Qed.
Lemma tsame_set_status p st : tsame p (set_status p st).
Proof. split; reflexivity. Qed.
Lemma tsame_set_node p n : tsame p (set_node p n).
Proof. split; reflexivity. Qed.
Lemma tsame_req p p' : tsame p p' -> t_req p' = t_req p /\ t_job p' = t_job p /\ t_best_effort p' = t_best_effort p.
Proof. intros [_ H]. unfold stat_of in H. inversion H. auto. Qed.

Lemma hp_lookup s i p : heap_ids s -> heap s !! i = Some p -> hp s p.
Proof. intros Hi Hl. unfold hp, tstat. rewrite (Hi i p Hl), Hl. reflexivity. Qed.
Lemma hp_move s s' p p' : stat_eq s s' -> hp s p -> tsame p p' -> hp s' p'.
Proof. intros Hs Hp [Hid Hst]. unfold hp. rewrite Hid, Hst, (se_t _ _ Hs). exact Hp. Qed.
Lemma hp_heap s p : hp s p -> exists t, heap s !! t_id p = Some t /\ stat_of t = stat_of p.
Proof.
  unfold hp, tstat. destruct (heap s !! t_id p) as [t|]; simpl; [|discriminate].
  intros H. exists t. split; [reflexivity|congruence].
Qed.

(* ---------- the primitives that do not touch the handler ledger ---------- *)

Lemma silent_put_task s t : hp s t -> silent s (put_task s t).
Proof.
  intros Hp. split; [split|reflexivity|reflexivity]; simpl.
  - intros i. unfold tstat. simpl. destruct (stdpp.base.decide (i = t_id t)) as [->|Hn].
    + rewrite lookup_insert. simpl. symmetry. exact Hp.
    + rewrite lookup_insert_ne by congruence. reflexivity.
  - reflexivity.
  - intros Hi i t0. simpl. destruct (stdpp.base.decide (i = t_id t)) as [->|Hn].
    + rewrite lookup_insert. congruence.
    + rewrite lookup_insert_ne by congruence. apply Hi.
  - auto.
Qed.

Lemma silent_upd_jobs s i j j' :
  jobs s !! i = Some j -> j_queue j' = j_queue j -> silent s (upd_jobs s (<[i := j']> (jobs s))).
Proof.
  intros Hl Hq. split; [split|reflexivity|reflexivity]; simpl; auto.
  intros k. unfold jq. simpl. destruct (stdpp.base.decide (k = i)) as [->|Hn].
  - rewrite lookup_insert, Hl. simpl. congruence.
  - rewrite lookup_insert_ne by congruence. reflexivity.
Qed.

Lemma silent_upd_nodes s n : silent s (upd_nodes s n).
Proof. split; [split|reflexivity|reflexivity]; simpl; auto. Qed.
Lemma silent_upd_logs s b e : silent s (upd_logs s b e).
Proof. split; [split|reflexivity|reflexivity]; simpl; auto. Qed.

Lemma silent_push_op s sid k tid prev : k <> KEvict -> silent s (push_op s sid k tid prev).
Proof.
  intros Hk. split; [split|reflexivity|reflexivity]; simpl; auto.
  intros Hne sid' l o. simpl. destruct (stdpp.base.decide (sid' = sid)) as [->|Hn].
  - rewrite lookup_insert. intros H Ho. inversion H; subst. apply elem_of_app in Ho as [Ho|Ho].
    + destruct (stmts s !! sid) as [l0|] eqn:E; simpl in Ho; [eapply Hne; eauto|inversion Ho].
    + apply elem_of_list_singleton in Ho. subst. exact Hk.
  - rewrite lookup_insert_ne by congruence. apply Hne.
Qed.

Lemma silent_clear_stmt s sid : silent s (upd_stmts s (<[sid := []]> (stmts s))).
Proof.
  split; [split|reflexivity|reflexivity]; simpl; auto.
  intros Hne sid' l o. simpl. destruct (stdpp.base.decide (sid' = sid)) as [->|Hn].
  - rewrite lookup_insert. intros H Ho. inversion H; subst. inversion Ho.
  - rewrite lookup_insert_ne by congruence. apply Hne.
Qed.

Lemma job_update_queue h j p st : j_queue (fst (job_update h j p st)) = j_queue j.
Proof.
  unfold job_update. simpl. case_bool_decide; [|reflexivity].
  destruct (h !! t_id p); reflexivity.
Qed.
Lemma job_update_task h j p st : snd (job_update h j p st) = set_status p st.
Proof. reflexivity. Qed.

Lemma ssn_update_status_spec s p st f s1 p1 :
  hp s p -> ssn_update_status s p st = (f, s1, p1) -> silent s s1 /\ tsame p p1.
Proof.
  intros Hp. unfold ssn_update_status. destruct (jobs s !! t_job p) as [j|] eqn:Ej.
  - destruct (job_update (heap s) j p st) as [j' p'] eqn:Eu. intros H. inversion H; subst; clear H.
    assert (Hq : j_queue j' = j_queue j) by (rewrite <- (job_update_queue (heap s) j p st), Eu; reflexivity).
    assert (Ht : p1 = set_status p st) by (rewrite <- (job_update_task (heap s) j p st), Eu; reflexivity).
    subst p1. pose proof (silent_upd_jobs s (t_job p) j j' Ej Hq) as Hs1.
    split; [|apply tsame_set_status].
    eapply silent_trans; [exact Hs1|]. apply silent_put_task.
    eapply hp_move; [apply (sil_se _ _ Hs1)|exact Hp|apply tsame_set_status].
  - intros H. inversion H; subst. split; [apply silent_refl|apply tsame_refl].
Qed.

Lemma ssn_node_remove_silent s p : silent s (ssn_node_remove s p).
Proof.
  unfold ssn_node_remove. destruct (t_node p); [|apply silent_refl].
  destruct (nodes s !! p0); [apply silent_upd_nodes|apply silent_refl].
Qed.

Lemma node_add_inl eps n t n' t' : node_add eps n t = inl (n', t') -> t' = set_node t (Some (n_id n)).
Proof.
  unfold node_add. intros H.
  repeat match type of H with
  | (if ?b then _ else _) = _ => destruct b
  | match ?x with _ => _ end = _ => destruct x
  end; try discriminate; inversion H; reflexivity.
Qed.

Lemma stat_eq_handlers s sh l : stat_eq s (upd_handlers s sh l).
Proof. split; simpl; auto. Qed.

(* ---------- micro-steps ---------- *)

Section Reach.
Variable eps : Z.
Variable Q : gmap positive qattr.

(* what a positive Allocatable vote of p's queue, taken on the ledger of s, guarantees *)
Definition guardP (s : sess) (p : task) : Prop :=
  forall q qa, jq s (t_job p) = Some q -> Q !! q = Some qa -> q_has_plugin qa = true ->
    q_open qa = true /\
    forall d, requested (t_req p) d -> amt (share_of s q) d + amt (t_req p) d <= amt (q_limit qa) d.

Lemma share_amt_silent s s' q d : silent s s' -> amt (share_of s' q) d = amt (share_of s q) d.
Proof.
  intros Hs. rewrite !share_of_amt, (sil_share _ _ Hs).
  apply msum_ext. apply (se_j _ _ (sil_se _ _ Hs)).
Qed.

Lemma guardP_move s s' p p' : silent s s' -> tsame p p' -> guardP s p -> guardP s' p'.
Proof.
  intros Hs Ht Hg q qa Hq HQ Hpl. destruct (tsame_req _ _ Ht) as (Hr & Hj & _).
  rewrite Hj, (se_j _ _ (sil_se _ _ Hs)) in Hq. destruct (Hg q qa Hq HQ Hpl) as [Ho Hb].
  split; [exact Ho|]. intros d Hd. rewrite Hr in *. rewrite (share_amt_silent _ _ _ _ Hs). auto.
Qed.

Inductive mstep : sess -> sess -> Prop :=
| ms_silent s s' : silent s s' -> mstep s s'
| ms_dealloc s p : hp s p -> mstep s (h_dealloc s p)
| ms_alloc s p : hp s p -> (guardP s p \/ t_best_effort p = true) -> mstep s (snd (h_alloc s p)).

Definition reach : sess -> sess -> Prop := rtc mstep.

Lemma mstep_stat_eq s s' : mstep s s' -> stat_eq s s'.
Proof. destruct 1; [apply sil_se; assumption|apply stat_eq_handlers|apply stat_eq_handlers]. Qed.
Lemma reach_stat_eq s s' : reach s s' -> stat_eq s s'.
Proof.
  induction 1; [apply stat_eq_refl|]. eapply stat_eq_trans; [eapply mstep_stat_eq; eassumption|assumption].
Qed.
Lemma reach_silent s s' : silent s s' -> reach s s'.
Proof. intros. apply rtc_once, ms_silent. assumption. Qed.
Lemma reach_trans s1 s2 s3 : reach s1 s2 -> reach s2 s3 -> reach s1 s3.
Proof. apply rtc_transitive. Qed.
Lemma reach_ids s s' : reach s s' -> heap_ids s -> heap_ids s'.
Proof. intros H. apply (se_ids _ _ (reach_stat_eq _ _ H)). Qed.
Lemma reach_ne s s' : reach s s' -> no_evict s -> no_evict s'.
Proof. intros H. apply (se_ne _ _ (reach_stat_eq _ _ H)). Qed.

(* ---------- the statement primitives ---------- *)

Lemma unallocate_with_reach s p : hp s p -> reach s (unallocate_with s p).
Proof.
  intros Hp. unfold unallocate_with.
  destruct (ssn_update_status s p Pending) as [[f s1] p1] eqn:E1.
  destruct (ssn_update_status_spec _ _ _ _ _ _ Hp E1) as [Hs1 Ht1].
  assert (Hp1 : hp s1 p1) by (eapply hp_move; [apply (sil_se _ _ Hs1)|exact Hp|exact Ht1]).
  pose proof (ssn_node_remove_silent s1 p1) as Hs2.
  assert (Hp2 : hp (ssn_node_remove s1 p1) p1) by (eapply hp_move; [apply (sil_se _ _ Hs2)|exact Hp1|apply tsame_refl]).
  eapply rtc_l; [apply ms_silent, Hs1|]. eapply rtc_l; [apply ms_silent, Hs2|].
  eapply rtc_l; [apply ms_dealloc, Hp2|]. apply reach_silent, silent_put_task.
  eapply hp_move; [apply stat_eq_handlers|exact Hp2|apply tsame_set_node].
Qed.

Lemma place_with_reach s sid k p nid :
  hp s p -> k <> KEvict -> (guardP s p \/ t_best_effort p = true) ->
  reach s (fst (place_with eps s sid k p nid)).
Proof.
  intros Hp Hk Hg. unfold place_with.
  set (st := match k with KAllocate => Allocated | _ => Pipelined end).
  destruct (ssn_update_status s p st) as [[f s1] p1] eqn:E1.
  destruct (ssn_update_status_spec _ _ _ _ _ _ Hp E1) as [Hs1 Ht1].
  assert (Hp1 : hp s1 p1) by (eapply hp_move; [apply (sil_se _ _ Hs1)|exact Hp|exact Ht1]).
  set (p2 := set_node p1 (Some nid)).
  assert (Ht2 : tsame p p2) by (eapply tsame_trans; [exact Ht1|apply tsame_set_node]).
  assert (Hp2' : hp s1 p2) by (eapply hp_move; [apply stat_eq_refl|exact Hp1|apply tsame_set_node]).
  pose proof (silent_put_task s1 p2 Hp2') as Hs2.
  set (s2 := put_task s1 p2) in *.
  assert (Hs02 : silent s s2) by (eapply silent_trans; eassumption).
  assert (Hp2 : hp s2 p2) by (eapply hp_move; [apply (sil_se _ _ Hs02)|exact Hp|exact Ht2]).
  (* the node step *)
  assert (Hnode : exists s3 p3 ok,
     match nodes s2 !! nid with
     | Some n => match node_add eps n p2 with
                 | inl (n', p') => (put_task (upd_nodes s2 (<[nid := n']> (nodes s2))) p', p', true)
                 | inr _ => (s2, p2, false)
                 end
     | None => (s2, p2, false)
     end = (s3, p3, ok) /\ silent s s3 /\ tsame p p3).
  { destruct (nodes s2 !! nid) as [n|]; [|eauto 10].
    destruct (node_add eps n p2) as [[n' p']|e] eqn:Ea; [|eauto 10].
    apply node_add_inl in Ea. subst p'.
    do 3 eexists. split; [reflexivity|].
    assert (Ht3 : tsame p (set_node p2 (Some (n_id n)))) by (eapply tsame_trans; [exact Ht2|apply tsame_set_node]).
    split; [|exact Ht3].
    eapply silent_trans; [exact Hs02|]. eapply silent_trans; [apply silent_upd_nodes|].
    apply silent_put_task. eapply hp_move; [apply (sil_se _ _ (silent_upd_nodes s2 _))|exact Hp2|apply tsame_set_node]. }
  destruct Hnode as (s3 & p3 & ok & -> & Hs3 & Ht3).
  assert (Hp3 : hp s3 p3) by (eapply hp_move; [apply (sil_se _ _ Hs3)|exact Hp|exact Ht3]).
  assert (Hg3 : guardP s3 p3 \/ t_best_effort p3 = true).
  { destruct Hg as [Hg|Hg]; [left; eapply guardP_move; eassumption|right].
    destruct (tsame_req _ _ Ht3) as (_ & _ & ->). exact Hg. }
  pose proof (ms_alloc s3 p3 Hp3 Hg3) as Ha.
  destruct (h_alloc s3 p3) as [he s4] eqn:E4. simpl in Ha.
  assert (Hp4 : hp s4 p3).
  { eapply hp_move; [apply (mstep_stat_eq _ _ Ha)|exact Hp3|apply tsame_refl]. }
  eapply reach_trans; [apply reach_silent, Hs3|]. eapply rtc_l; [exact Ha|].
  destruct (f && ok && negb he); simpl.
  - apply reach_silent, silent_push_op, Hk.
  - apply unallocate_with_reach, Hp4.
Qed.

Lemma stmt_place_reach s sid k tid nid :
  heap_ids s -> k <> KEvict ->
  (forall p, heap s !! tid = Some p -> guardP s p \/ t_best_effort p = true) ->
  reach s (fst (with_task s tid (fun p => place_with eps s sid k p nid))).
Proof.
  intros Hi Hk Hg. unfold with_task. destruct (heap s !! tid) as [p|] eqn:Eh; [|apply rtc_refl].
  apply place_with_reach; [eapply hp_lookup; eassumption|exact Hk|apply Hg; reflexivity].
Qed.

Lemma try_place_reach s sid tid nid :
  heap_ids s ->
  (forall p, heap s !! tid = Some p -> guardP s p \/ t_best_effort p = true) ->
  reach s (fst (try_place eps s sid tid nid)).
Proof.
  intros Hi Hg.
  pose proof (stmt_place_reach s sid KAllocate tid nid Hi ltac:(discriminate) Hg) as HA.
  pose proof (stmt_place_reach s sid KPipeline tid nid Hi ltac:(discriminate) Hg) as HP.
  unfold try_place.
  destruct (heap s !! tid) as [p|] eqn:Eh; [|apply rtc_refl].
  destruct (nodes s !! nid) as [n|]; [|apply rtc_refl].
  destruct (negb _); [apply rtc_refl|].
  destruct (less_equal eps (t_init p) (n_idle n) DZero).
  - clear HP. unfold stmt_allocate. destruct (with_task _ _ _) as [s' r]. exact HA.
  - destruct (less_equal eps (t_init p) (future_idle n) DZero); [|apply rtc_refl].
    clear HA. unfold stmt_pipeline. destruct (with_task _ _ _) as [s' r]. exact HP.
Qed.

Lemma undo_ops_reach l : forall s,
  heap_ids s -> (forall o, o ∈ l -> op_kind o <> KEvict) -> reach s (fold_left (undo_op eps) l s).
Proof.
  induction l as [|o l IH]; intros s Hi Hk; simpl; [apply rtc_refl|].
  assert (H1 : reach s (undo_op eps s o)).
  { unfold undo_op. destruct (heap s !! op_task o) as [p|] eqn:Eh; [|apply rtc_refl].
    pose proof (hp_lookup _ _ _ Hi Eh) as Hp.
    destruct (op_kind o) eqn:Ek.
    - exfalso. apply (Hk o); [left|exact Ek].
    - apply unallocate_with_reach, Hp.
    - apply unallocate_with_reach, Hp. }
  eapply reach_trans; [exact H1|]. apply IH; [eapply reach_ids; eassumption|].
  intros o' Ho'. apply Hk. right. exact Ho'.
Qed.

Lemma stmt_ops_no_evict s sid : no_evict s -> forall o, o ∈ default [] (stmts s !! sid) -> op_kind o <> KEvict.
Proof.
  intros Hne o Ho. destruct (stmts s !! sid) as [l|] eqn:E; simpl in Ho; [eapply Hne; eauto|inversion Ho].
Qed.

Lemma stmt_discard_reach s sid : heap_ids s -> no_evict s -> reach s (stmt_discard eps s sid).
Proof.
  intros Hi Hne. unfold stmt_discard.
  eapply reach_trans; [apply (undo_ops_reach (rev (default [] (stmts s !! sid))) s Hi)|apply reach_silent, silent_clear_stmt].
  intros o Ho. apply elem_of_list_In in Ho. apply in_rev in Ho. apply elem_of_list_In in Ho. eapply stmt_ops_no_evict; eassumption.
Qed.

Lemma commit_ops_reach l : forall s,
  heap_ids s -> (forall o, o ∈ l -> op_kind o <> KEvict) -> reach s (fold_left (commit_op eps) l s).
Proof.
  induction l as [|o l IH]; intros s Hi Hk; simpl; [apply rtc_refl|].
  assert (H1 : reach s (commit_op eps s o)).
  { unfold commit_op. destruct (heap s !! op_task o) as [p|] eqn:Eh; [|apply rtc_refl].
    pose proof (hp_lookup _ _ _ Hi Eh) as Hp.
    destruct (op_kind o) eqn:Ek.
    - exfalso. apply (Hk o); [left|exact Ek].
    - apply rtc_refl.
    - case_bool_decide; [apply unallocate_with_reach, Hp|].
      pose proof (silent_upd_logs s ((t_id p, t_node p) :: binds s) (evicts s)) as Hs1.
      set (s1 := upd_logs s _ _) in *.
      assert (Hp1 : hp s1 p) by (eapply hp_move; [apply (sil_se _ _ Hs1)|exact Hp|apply tsame_refl]).
      destruct (ssn_update_status s1 p Binding) as [[f s2] p2] eqn:E2.
      destruct (ssn_update_status_spec _ _ _ _ _ _ Hp1 E2) as [Hs2 Ht2].
      eapply reach_trans; [apply reach_silent, Hs1|]. eapply reach_trans; [apply reach_silent, Hs2|].
      destruct f; [apply rtc_refl|]. apply unallocate_with_reach.
      eapply hp_move; [apply (sil_se _ _ Hs2)|exact Hp1|exact Ht2]. }
  eapply reach_trans; [exact H1|]. apply IH; [eapply reach_ids; eassumption|].
  intros o' Ho'. apply Hk. right. exact Ho'.
Qed.

Lemma stmt_commit_reach s sid : heap_ids s -> no_evict s -> reach s (stmt_commit eps s sid).
Proof.
  intros Hi Hne. unfold stmt_commit.
  eapply reach_trans; [apply (commit_ops_reach (default [] (stmts s !! sid)) s Hi)|apply reach_silent, silent_clear_stmt].
  apply stmt_ops_no_evict, Hne.
Qed.

(* ---------- Session.Allocate of backfill ---------- *)

Lemma dispatch_silent s tid : heap_ids s -> silent s (fst (dispatch s tid)).
Proof.
  intros Hi. unfold dispatch. destruct (heap s !! tid) as [p|] eqn:Eh; [|apply silent_refl].
  case_bool_decide; [apply silent_refl|].
  pose proof (silent_upd_logs s ((tid, t_node p) :: binds s) (evicts s)) as Hs1.
  set (s1 := upd_logs s _ _) in *.
  assert (Hp1 : hp s1 p) by (eapply hp_move; [apply (sil_se _ _ Hs1)|eapply hp_lookup; eassumption|apply tsame_refl]).
  destruct (ssn_update_status s1 p Binding) as [[f s2] p2] eqn:E2. simpl.
  destruct (ssn_update_status_spec _ _ _ _ _ _ Hp1 E2) as [Hs2 _].
  eapply silent_trans; eassumption.
Qed.

(* a task whose dispatch fails is unallocated (Session.undoAllocation): a deallocate step *)
Lemma dispatch_all_reach l : forall s, heap_ids s -> reach s (fst (dispatch_all s l)).
Proof.
  induction l as [|t l IH]; intros s Hi; simpl; [apply rtc_refl|].
  pose proof (dispatch_silent s t Hi) as H1. destruct (dispatch s t) as [s1 ok]. simpl in H1.
  assert (Hi1 : heap_ids s1) by (apply (se_ids _ _ (sil_se _ _ H1)), Hi).
  eapply reach_trans; [apply reach_silent, H1|].
  destruct ok; [apply IH, Hi1|]. simpl.
  destruct (heap s1 !! t) as [p|] eqn:Ep; [|apply rtc_refl].
  apply unallocate_with_reach. eapply hp_lookup; eauto.
Qed.

Lemma ssn_place_with_reach jr s k tid nid :
  heap_ids s -> (forall p, heap s !! tid = Some p -> t_best_effort p = true) ->
  reach s (fst (ssn_place_with eps jr s k tid nid)).
Proof.
  intros Hi Hbe. unfold ssn_place_with.
  destruct (heap s !! tid) as [p|] eqn:Eh; [|apply rtc_refl].
  pose proof (hp_lookup _ _ _ Hi Eh) as Hp. specialize (Hbe p eq_refl).
  set (st := match k with KAllocate => Allocated | _ => Pipelined end).
  destruct (ssn_update_status s p st) as [[f s1] p1] eqn:E1.
  destruct (ssn_update_status_spec _ _ _ _ _ _ Hp E1) as [Hs1 Ht1].
  destruct f; cbn [negb fst]; [|apply rtc_refl].
  assert (Hp1 : hp s1 p1) by (eapply hp_move; [apply (sil_se _ _ Hs1)|exact Hp|exact Ht1]).
  set (p2 := set_node p1 (Some nid)).
  assert (Ht2 : tsame p p2) by (eapply tsame_trans; [exact Ht1|apply tsame_set_node]).
  assert (Hp2' : hp s1 p2) by (eapply hp_move; [apply stat_eq_refl|exact Hp1|apply tsame_set_node]).
  pose proof (silent_put_task s1 p2 Hp2') as Hs2.
  set (s2 := put_task s1 p2) in *.
  assert (Hs02 : silent s s2) by (eapply silent_trans; eassumption).
  assert (Hp2 : hp s2 p2) by (eapply hp_move; [apply (sil_se _ _ Hs02)|exact Hp|exact Ht2]).
  (* revertPlacement *)
  assert (Hrev : silent s (let '(_, sr, pr) := ssn_update_status s2 p2 Pending in put_task sr (set_node pr None))).
  { destruct (ssn_update_status s2 p2 Pending) as [[fr sr] pr] eqn:Er.
    destruct (ssn_update_status_spec _ _ _ _ _ _ Hp2 Er) as [Hsr Htr].
    eapply silent_trans; [exact Hs02|]. eapply silent_trans; [exact Hsr|].
    apply silent_put_task. eapply hp_move; [apply (sil_se _ _ Hsr)|exact Hp2|].
    eapply tsame_trans; [exact Htr|apply tsame_set_node]. }
  destruct (nodes s2 !! nid) as [n|]; [|apply reach_silent, Hrev].
  destruct (node_add eps n p2) as [[n' p3]|e] eqn:Ea; [|apply reach_silent, Hrev].
  apply node_add_inl in Ea. subst p3.
  set (p3 := set_node p2 (Some (n_id n))).
  assert (Ht3 : tsame p p3) by (eapply tsame_trans; [exact Ht2|apply tsame_set_node]).
  assert (Hs3 : silent s (put_task (upd_nodes s2 (<[nid := n']> (nodes s2))) p3)).
  { eapply silent_trans; [exact Hs02|]. eapply silent_trans; [apply silent_upd_nodes|].
    apply silent_put_task. eapply hp_move; [apply (sil_se _ _ (silent_upd_nodes s2 _))|exact Hp2|apply tsame_set_node]. }
  set (s3 := put_task _ p3) in *.
  assert (Hp3 : hp s3 p3) by (eapply hp_move; [apply (sil_se _ _ Hs3)|exact Hp|exact Ht3]).
  assert (Hg3 : guardP s3 p3 \/ t_best_effort p3 = true).
  { right. destruct (tsame_req _ _ Ht3) as (_ & _ & ->). exact Hbe. }
  pose proof (ms_alloc s3 p3 Hp3 Hg3) as Ha.
  destruct (h_alloc s3 p3) as [he s4] eqn:E4. simpl in Ha.
  assert (H04 : reach s s4) by (eapply reach_trans; [apply reach_silent, Hs3|apply rtc_once, Ha]).
  destruct k; try exact H04.
  destruct (jobs s4 !! t_job p) as [j|]; [|exact H04].
  destruct (jr s4 j); [|exact H04].
  pose proof (dispatch_all_reach (elements (default ∅ (j_index j !! skey Allocated))) s4 (reach_ids _ _ H04 Hi)) as Hd.
  destruct (dispatch_all s4 _) as [s5 ok]. simpl in *.
  eapply reach_trans; [exact H04|exact Hd].
Qed.

(* ---------- the skeleton ---------- *)

Lemma qok_guardP (w : world) s jid p :
  w_queues w = Q -> t_job p = jid ->
  match jobs s !! jid with
  | Some j => match w_queues w !! j_queue j with
              | Some q => queue_allocatable w (share_of s (j_queue j)) q p
              | None => true end
  | None => true end = true ->
  guardP s p.
Proof.
  intros HQ Hj Hok q qa Hq Hl Hpl. rewrite Hj in Hq. unfold jq in Hq.
  destruct (jobs s !! jid) as [j|]; simpl in Hq; [|discriminate].
  inversion Hq; subst q. rewrite HQ, Hl in Hok.
  exact (queue_allocatable_bound w _ qa p Hpl Hok).
Qed.

Lemma do_places_reach (w : world) sid jid l : forall s,
  w_queues w = Q -> heap_ids s -> reach s (fst (do_places eps w s sid jid l)).
Proof.
  induction l as [|[tid nid] l IH]; intros s HQ Hi; simpl; [apply rtc_refl|].
  destruct (heap s !! tid) as [p|] eqn:Eh; [|apply rtc_refl].
  destruct (negb (bool_decide (t_status p = Pending) && bool_decide (t_job p = jid))) eqn:Ec; [apply rtc_refl|].
  apply negb_false_iff, andb_true_iff in Ec as [_ Ej]. apply bool_decide_eq_true in Ej.
  destruct (negb _) eqn:Eq; [apply rtc_refl|]. apply negb_false_iff in Eq.
  pose proof (qok_guardP w s jid p HQ Ej Eq) as Hg.
  assert (H1 : reach s (fst (try_place eps s sid tid nid))).
  { apply try_place_reach; [exact Hi|]. intros p' Hp'. rewrite Eh in Hp'. inversion Hp'; subst. left. exact Hg. }
  destruct (try_place eps s sid tid nid) as [s' pl]. simpl in H1.
  eapply reach_trans; [exact H1|]. apply IH; [exact HQ|eapply reach_ids; eassumption].
Qed.

Theorem step_reach (w : world) (o : cop) :
  w_queues w = Q -> heap_ids (w_sess w) -> no_evict (w_sess w) ->
  reach (w_sess w) (w_sess (fst (CycleModel.step eps w o))) /\ w_queues (fst (CycleModel.step eps w o)) = Q.
Proof.
  intros HQ Hi Hne. destruct o as [jid places|tid nid]; simpl.
  - pose proof (do_places_reach w (w_next_stmt w) jid places (w_sess w) HQ Hi) as H1.
    destruct (do_places eps w (w_sess w) (w_next_stmt w) jid places) as [s1 v]. simpl in *.
    split; [|exact HQ].
    destruct (CycleModel.decide s1 jid).
    + eapply reach_trans; [exact H1|]. apply stmt_commit_reach; [eapply reach_ids|eapply reach_ne]; eassumption.
    + exact H1.
    + eapply reach_trans; [exact H1|]. apply stmt_discard_reach; [eapply reach_ids|eapply reach_ne]; eassumption.
  - destruct (heap (w_sess w) !! tid) as [p|] eqn:Eh; [|split; [apply rtc_refl|exact HQ]].
    destruct (negb (bool_decide (t_status p = Pending))); [split; [apply rtc_refl|exact HQ]|].
    destruct (negb (t_best_effort p)) eqn:Eb; [split; [apply rtc_refl|exact HQ]|].
    apply negb_false_iff in Eb.
    pose proof (ssn_place_with_reach (fun s j => gang_job_ready (heap s) j) (w_sess w) KAllocate tid nid Hi) as H1.
    destruct (ssn_place_with _ _ _ _ _ _) as [s1 r]. simpl in *. split; [|exact HQ].
    apply H1. intros p' Hp'. rewrite Eh in Hp'. inversion Hp'; subst. exact Eb.
Qed.

Theorem run_reach (ops : list cop) : forall w,
  w_queues w = Q -> heap_ids (w_sess w) -> no_evict (w_sess w) ->
  reach (w_sess w) (w_sess (CycleModel.run eps w ops)) /\ w_queues (CycleModel.run eps w ops) = Q.
Proof.
  induction ops as [|o ops IH]; intros w HQ Hi Hne; simpl; [split; [apply rtc_refl|exact HQ]|].
  destruct (step_reach w o HQ Hi Hne) as [H1 HQ1].
  destruct (IH (fst (CycleModel.step eps w o)) HQ1 (reach_ids _ _ H1 Hi) (reach_ne _ _ H1 Hne)) as [H2 HQ2].
  split; [eapply reach_trans; eassumption|exact HQ2].
Qed.

End Reach.
