(* C01, part (B): preempt and reclaim only Pipeline and Evict.  Over the operation alphabet of
   Sched/StmtModel (the one the C07 histories and the C04 action model are built from): a history
   without Statement.Allocate / Session.Allocate / RecoverOperations, started in a session whose
   statements hold no Allocate operation, never adds an entry to the bind log - whatever is
   committed, discarded, merged or evicted on the way. *)
From stdpp Require Import gmap.
From Coq Require Import ZArith Lia.
From V Require Import Base.Res Sched.LedgerModel Sched.StmtModel.
Open Scope Z_scope.

Definition frame (s s' : sess) : Prop := binds s' = binds s /\ stmts s' = stmts s.
Lemma frame_refl s : frame s s. Proof. by split. Qed.
Lemma frame_trans a b c : frame a b -> frame b c -> frame a c.
Proof. intros [? ?] [? ?]. split; congruence. Qed.

Lemma update_frame s p st f s1 p1 : ssn_update_status s p st = (f, s1, p1) -> frame s s1.
Proof.
  unfold ssn_update_status. destruct (jobs s !! t_job p) as [j|]; [|intros [= <- <- <-]; apply frame_refl].
  destruct (job_update (heap s) j p st) as [j' p']. intros [= <- <- <-]. by split.
Qed.

Lemma node_remove_frame s p : frame s (ssn_node_remove s p).
Proof. unfold ssn_node_remove. repeat case_match; by split. Qed.

Section WithEps.
Variable eps : Z.

Lemma node_update_frame s p s1 p1 f : ssn_node_update eps s p = (s1, p1, f) -> frame s s1.
Proof.
  unfold ssn_node_update. repeat case_match; intros [= <- <- <-]; by split.
Qed.

Lemma unallocate_frame s p : frame s (unallocate_with s p).
Proof.
  unfold unallocate_with. destruct (ssn_update_status s p Pending) as [[f s1] p1] eqn:E.
  apply update_frame in E. destruct (node_remove_frame s1 p1) as [H1 H2]. destruct E as [E1 E2].
  split; simpl; congruence.
Qed.

Lemma unevict_frame s p prev : frame s (unevict_with eps s p prev).1.
Proof.
  unfold unevict_with. destruct (ssn_update_status s p (restore_status prev)) as [[f s1] p1] eqn:E.
  destruct (ssn_node_update eps s1 p1) as [[s2 p2] fatal] eqn:E2.
  apply update_frame in E. apply node_update_frame in E2. unfold h_alloc. simpl.
  destruct E as [? ?], E2 as [? ?]. split; simpl; congruence.
Qed.

Lemma place_frame s sid k p nid s' r : place_with eps s sid k p nid = (s', r) ->
  binds s' = binds s /\
  (stmts s' = stmts s \/ stmts s' = <[sid := default [] (stmts s !! sid) ++ [mkOp k (t_id p) Pending]]> (stmts s)).
Proof.
  unfold place_with.
  destruct (ssn_update_status s p _) as [[found s1] p1] eqn:E1. apply update_frame in E1 as [B1 S1].
  set (p2 := set_node p1 (Some nid)). set (s2 := put_task s1 p2).
  assert (F2 : frame s s2) by (split; simpl; congruence).
  destruct (match nodes s2 !! nid with
    | Some n => match node_add eps n p2 with
                | inl (n', p') => (put_task (upd_nodes s2 (<[nid := n']> (nodes s2))) p', p', true)
                | inr _ => (s2, p2, false)
                end
    | None => (s2, p2, false)
    end) as [[s3 p3] ok] eqn:E3.
  assert (F3 : frame s s3).
  { destruct (nodes s2 !! nid) as [n|]; [|injection E3 as <- <- <-; done].
    destruct (node_add eps n p2) as [[n' p']|e]; injection E3 as <- <- <-; [|done].
    destruct F2 as [? ?]. split; simpl; congruence. }
  unfold h_alloc. destruct (found && ok && negb (bool_decide (t_id p3 ∈ herr s3))).
  - intros [= <- <-]. destruct F3 as [B3 S3]. split; [simpl; congruence|]. right. simpl. by rewrite S3.
  - intros [= <- <-]. set (s4 := upd_handlers s3 _ _).
    destruct (unallocate_frame s4 p3) as [B5 S5]. destruct F3 as [B3 S3].
    split; [rewrite B5; simpl; congruence|]. left. rewrite S5. simpl. congruence.
Qed.

Lemma evict_frame s sid p prev s' r : stmt_evict_with eps s sid p prev = (s', r) ->
  binds s' = binds s /\
  stmts s' = <[sid := default [] (stmts s !! sid) ++ [mkOp KEvict (t_id p) (default (t_status p) prev)]]> (stmts s).
Proof.
  unfold stmt_evict_with.
  destruct (ssn_update_status s p Releasing) as [[f s1] p1] eqn:E1.
  destruct (ssn_node_update eps s1 p1) as [[s2 p2] fatal] eqn:E2.
  apply update_frame in E1 as [B1 S1]. apply node_update_frame in E2 as [B2 S2].
  intros [= <- <-]. split; simpl; [congruence|]. by rewrite S2, S1.
Qed.

Lemma undo_frame s o : frame s (undo_op eps s o).
Proof.
  unfold undo_op. destruct (heap s !! op_task o) as [p|]; [|apply frame_refl].
  destruct (op_kind o); [apply unevict_frame|apply unallocate_frame|apply unallocate_frame].
Qed.

Lemma undo_fold_frame l : forall s, frame s (fold_left (undo_op eps) l s).
Proof.
  induction l as [|o l IH]; intros s; [apply frame_refl|]. simpl.
  eapply frame_trans; [apply undo_frame|apply IH].
Qed.

Lemma commit_op_frame s o : op_kind o <> KAllocate -> frame s (commit_op eps s o).
Proof.
  intros Hk. unfold commit_op. destruct (heap s !! op_task o) as [p|]; [|apply frame_refl].
  destruct (op_kind o); [|apply frame_refl|done].
  case_bool_decide; [apply unevict_frame|by split].
Qed.

Lemma commit_fold_frame l : forall s, Forall (fun o => op_kind o <> KAllocate) l -> frame s (fold_left (commit_op eps) l s).
Proof.
  induction l as [|o l IH]; intros s Hall; [apply frame_refl|]. apply Forall_cons in Hall as [Ho Hall]. simpl.
  eapply frame_trans; [by apply commit_op_frame|by apply IH].
Qed.

(* SS: the statements the history works with (preempt / reclaim create their statements fresh; an
   earlier `allocate` may have left KEPT statements with Allocate operations: they are outside SS
   and the history never names them).  No statement of SS holds an Allocate operation *)
Variable SS : positive -> Prop.

Definition no_alloc_ops (s : sess) : Prop :=
  forall sid l, SS sid -> stmts s !! sid = Some l -> Forall (fun o => op_kind o <> KAllocate) l.

Lemma no_alloc_default s sid : SS sid -> no_alloc_ops s -> Forall (fun o => op_kind o <> KAllocate) (default [] (stmts s !! sid)).
Proof. intros HS H. destruct (stmts s !! sid) as [l|] eqn:E; [by eapply H|constructor]. Qed.

Lemma no_alloc_same s s' : stmts s' = stmts s -> no_alloc_ops s -> no_alloc_ops s'.
Proof. intros E H sid l. rewrite E. apply H. Qed.

Lemma no_alloc_insert s s' sid l : stmts s' = <[sid := l]> (stmts s) ->
  Forall (fun o => op_kind o <> KAllocate) l -> no_alloc_ops s -> no_alloc_ops s'.
Proof.
  intros E Hl H sid' l' HS. rewrite E. intros [[<- <-]|[_ E']]%lookup_insert_Some; [done|by eapply H].
Qed.

(* the operations preempt / reclaim (and any eviction-only plugin action) are made of, on statements of SS *)
Definition evict_alphabet (o : op) : Prop :=
  match o with
  | OAllocate _ _ _ | OSsnAllocate _ _ | ORecover _ _ => False
  | OPipeline sid _ _ | OEvict sid _ | OEvictClone sid _ | ODiscard sid | OCommit sid | OSave sid _ => SS sid
  | OMerge sid src => SS sid /\ SS src
  | _ => True
  end.

Lemma with_task_frame s tid (f : task -> sess * result) (P : sess -> Prop) :
  P s -> (forall p, heap s !! tid = Some p -> P (f p).1) -> P (with_task s tid f).1.
Proof. intros Hs Hf. unfold with_task. destruct (heap s !! tid) as [p|] eqn:E; [by apply Hf|done]. Qed.

Lemma step_no_bind s o : evict_alphabet o -> no_alloc_ops s ->
  binds (step eps s o).1 = binds s /\ no_alloc_ops (step eps s o).1.
Proof.
  intros Ha Hn. destruct o; try done; simpl.
  - (* OPipeline *)
    unfold stmt_pipeline. apply (with_task_frame s tid _ (fun s' => binds s' = binds s /\ no_alloc_ops s')); [done|].
    intros p _. destruct (place_with eps s sid KPipeline p nid) as [s' r] eqn:E.
    destruct (place_frame _ _ _ _ _ _ _ E) as [B [S|S]]; (split; [done|]).
    + by eapply no_alloc_same.
    + eapply no_alloc_insert; [exact S| |done]. apply Forall_app. split; [by apply no_alloc_default|]. by repeat constructor.
  - (* OEvict *)
    unfold stmt_evict. apply (with_task_frame s tid _ (fun s' => binds s' = binds s /\ no_alloc_ops s')); [done|].
    intros p _. destruct (stmt_evict_with eps s sid p None) as [s' r] eqn:E.
    destruct (evict_frame _ _ _ _ _ _ E) as [B S]. split; [done|].
    eapply no_alloc_insert; [exact S| |done]. apply Forall_app. split; [by apply no_alloc_default|]. by repeat constructor.
  - (* OEvictClone *)
    unfold stmt_evict_clone. repeat case_match; try done.
    match goal with |- context [stmt_evict_with eps s sid ?c None] => destruct (stmt_evict_with eps s sid c None) as [s' r] eqn:E end.
    destruct (evict_frame _ _ _ _ _ _ E) as [B S]. split; [done|].
    eapply no_alloc_insert; [exact S| |done]. apply Forall_app. split; [by apply no_alloc_default|]. by repeat constructor.
  - (* OUnPipeline *)
    unfold stmt_unpipeline. apply (with_task_frame s tid _ (fun s' => binds s' = binds s /\ no_alloc_ops s')); [done|].
    intros p _. simpl. destruct (unallocate_frame s p) as [B S]. split; [done|by eapply no_alloc_same].
  - (* ODiscard *)
    unfold stmt_discard. destruct (undo_fold_frame (rev (default [] (stmts s !! sid))) s) as [B S]. simpl.
    split; [done|]. eapply no_alloc_insert; [reflexivity|constructor|by eapply no_alloc_same].
  - (* OCommit *)
    unfold stmt_commit. destruct (commit_fold_frame (default [] (stmts s !! sid)) s (no_alloc_default s sid Ha Hn)) as [B S]. simpl.
    split; [done|]. eapply no_alloc_insert; [reflexivity|constructor|by eapply no_alloc_same].
  - (* OMerge *)
    unfold stmt_merge. case_bool_decide; [done|]. simpl. split; [done|].
    destruct Ha as [Ha1 Ha2]. intros sid' l' HS'. simpl.
    intros [[<- <-]|[_ [[<- <-]|[_ E]]%lookup_insert_Some]]%lookup_insert_Some.
    + constructor.
    + apply Forall_app. split; by apply no_alloc_default.
    + by eapply Hn.
  - (* OSsnPipeline *)
    unfold ssn_place, ssn_place_with. destruct (heap s !! tid) as [p|]; [|done].
    destruct (ssn_update_status s p Pipelined) as [[found s1] p1] eqn:E1. apply update_frame in E1 as [B1 S1].
    destruct found; simpl; [|done].
    set (s2 := put_task s1 (set_node p1 (Some nid))).
    assert (B2 : binds s2 = binds s1) by reflexivity. assert (S2 : stmts s2 = stmts s1) by reflexivity.
    assert (Hrev : forall sr pr f, ssn_update_status s2 (set_node p1 (Some nid)) Pending = (f, sr, pr) ->
              binds (put_task sr (set_node pr None)) = binds s /\ no_alloc_ops (put_task sr (set_node pr None))).
    { intros sr pr f E. apply update_frame in E as [B S]. split; [simpl; congruence|].
      eapply no_alloc_same; [|exact Hn]. simpl. congruence. }
    destruct (ssn_update_status s2 (set_node p1 (Some nid)) Pending) as [[f sr] pr] eqn:Er.
    specialize (Hrev _ _ _ eq_refl).
    destruct (nodes s1 !! nid) as [n|]; [|exact Hrev].
    destruct (node_add eps n (set_node p1 (Some nid))) as [[n' p3]|e]; [|exact Hrev].
    unfold h_alloc. simpl. split; [congruence|]. eapply no_alloc_same; [|exact Hn]. simpl. congruence.
  - (* OSsnEvict *)
    unfold ssn_evict. destruct (heap s !! tid) as [p|]; [|done]. case_bool_decide; [done|].
    destruct (ssn_update_status _ p Releasing) as [[found s1] p1] eqn:E1. apply update_frame in E1 as [B1 S1].
    simpl in B1, S1.
    destruct found; simpl; [|split; [done|by eapply no_alloc_same]].
    destruct (ssn_node_update eps s1 p1) as [[s2 p2] fatal] eqn:E2. apply node_update_frame in E2 as [B2 S2].
    simpl. split; [congruence|]. eapply no_alloc_same; [|exact Hn]. simpl. congruence.
Qed.

Theorem evict_ops_no_bind ops : forall s,
  Forall evict_alphabet ops -> no_alloc_ops s ->
  binds (run eps s ops) = binds s /\ no_alloc_ops (run eps s ops).
Proof.
  induction ops as [|o ops IH]; intros s Hall Hn; [done|].
  apply Forall_cons in Hall as [Ho Hall]. unfold run. simpl.
  destruct (step_no_bind s o Ho Hn) as [B N]. destruct (IH _ Hall N) as [B' N']. unfold run in *.
  split; [congruence|done].
Qed.

End WithEps.
