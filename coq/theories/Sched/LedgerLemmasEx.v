(* C07 proofs, part G: boolean forms of the side conditions, the remaining Commit facts, and
   the non-vacuity instance (the concrete session of C07/Example.v satisfies every hypothesis
   of the theorems; the mixed history runs through the main theorem). *)
From stdpp Require Import gmap.
From Coq Require Import ZArith Lia.
From V Require Import Base.Res Base.ResLemmas Sched.LedgerModel Sched.StmtModel Sched.GangModel
  Sched.LedgerInvP Sched.LedgerInv Sched.LedgerLemmasA Sched.LedgerLemmasJob Sched.LedgerLemmasNode
  Sched.LedgerLemmasSess Sched.LedgerLemmasSk Sched.LedgerLemmasTxn Sched.LedgerLemmasTxnN Sched.LedgerLemmasSound C07.Example C07.Refuted C07.Entry.
Open Scope Z_scope.

Global Instance task_eq_dec : EqDecision task.
Proof. solve_decision. Defined.

Definition sess_wfb (s : sess) : bool :=
  gmap_allb (fun _ n => negb (n_has_node n) || negb (bool_decide (sc (n_idle n) = None))) (nodes s).

Lemma sess_wfb_sound s : sess_wfb s = true -> sess_wf s.
Proof.
  unfold sess_wfb. rewrite gmap_allb_spec. intros H i n Hn Hhas. specialize (H i n Hn).
  rewrite Hhas in H. simpl in H. apply negb_true_iff, bool_decide_eq_false in H. exact H.
Qed.

Lemma saved_ok_empty s : saved s = ∅ -> saved_ok s.
Proof. intros H slot l. rewrite H, lookup_empty. discriminate. Qed.

(* the executable invariant, the idle-map condition and an empty save area give the standing
   assumption of every C07 theorem *)
Lemma sess_ok_of_bools s :
  heap_nonnegb (heap s) && ledger_okb (heap s) (jobs s) (nodes s) = true -> sess_wfb s = true -> saved s = ∅ ->
  sess_ok s.
Proof.
  intros H1 H2 H3. split; [apply ledger_okb_sound_b, H1|]. split; [apply sess_wfb_sound, H2|apply saved_ok_empty, H3].
Qed.

Definition jknownb (s : sess) (p : task) : bool :=
  match jobs s !! t_job p with
  | Some j => bool_decide (t_id p ∈ j_tasks j) && bool_decide (j_task_sub j !! t_id p = Some (t_sub p)) &&
              bool_decide (t_sub p ∈ dom (j_subs j))
  | None => true
  end.
Lemma jknownb_sound s p : jknownb s p = true -> jknown s p.
Proof.
  unfold jknownb, jknown, jmember. destruct (jobs s !! t_job p); [|auto].
  rewrite !andb_true_iff, !bool_decide_eq_true. tauto.
Qed.

Definition placeableb (s : sess) (p : task) (nid : positive) : bool :=
  bool_decide (heap s !! t_id p = Some p) && bool_decide (t_status p = Pending) &&
  bool_decide (t_node p = None) && jknownb s p &&
  match nodes s !! nid with Some n => bool_decide (n_tasks n !! t_id p = None) | None => true end.
Lemma placeableb_sound s p nid : placeableb s p nid = true -> placeable s p nid.
Proof.
  unfold placeableb, placeable. rewrite !andb_true_iff, !bool_decide_eq_true.
  intros ((((H1 & H2) & H3) & H4) & H5). repeat split; try assumption; [apply jknownb_sound, H4|].
  intros n Hn. rewrite Hn in H5. apply bool_decide_eq_true in H5. exact H5.
Qed.

Definition evictableb (s : sess) (p : task) (nid : positive) : bool :=
  bool_decide (heap s !! t_id p = Some p) &&
  (bool_decide (t_status p = Running) || bool_decide (t_status p = Bound)) &&
  bool_decide (t_node p = Some nid) && jknownb s p &&
  match nodes s !! nid with
  | Some n => match n_tasks n !! t_id p with Some c => bool_decide (hview c = hview p) | None => false end
  | None => false end &&
  negb (bool_decide (sc (default empty_res (hshare s !! t_job p)) = None)).
Lemma evictableb_sound s p nid : evictableb s p nid = true -> evictable s p nid.
Proof.
  unfold evictableb, evictable. rewrite !andb_true_iff, orb_true_iff, !bool_decide_eq_true, negb_true_iff, bool_decide_eq_false.
  intros (((((H1 & H2) & H3) & H4) & H5) & H6). repeat split; try assumption; [apply jknownb_sound, H4| |left; exact H6].
  destruct (nodes s !! nid) as [n|]; [|discriminate]. destruct (n_tasks n !! t_id p) as [c|] eqn:E; [|discriminate].
  apply bool_decide_eq_true in H5. exists n, c. auto.
Qed.

(* ---------- Commit: an accepted bind ---------- *)
Theorem commit_accepted_bind eps s p prev :
  heap s !! t_id p = Some p -> t_id p ∉ refuse_bind s -> is_Some (jobs s !! t_job p) ->
  let s2 := commit_op eps s (mkOp KAllocate (t_id p) prev) in
  binds s2 = (t_id p, t_node p) :: binds s /\ evicts s2 = evicts s /\
  heap s2 !! t_id p = Some (set_status p Binding).
Proof.
  intros Hl Hr [j Hj]. unfold commit_op. cbn [op_task op_kind]. rewrite Hl.
  rewrite bool_decide_eq_false_2 by exact Hr. unfold ssn_update_status. cbn [jobs upd_logs]. rewrite Hj.
  unfold job_update. simpl. rewrite lookup_insert. repeat split.
Qed.

(* ---------- the non-vacuity instance ---------- *)
Definition ex_task (i : positive) : task :=
  default (mkTask 1 1 1 1 0 empty_res empty_res false false Pending None) (heap ex_sess !! i).

Lemma ex_sess_ok : sess_ok ex_sess.
Proof. apply sess_ok_of_bools; [vm_compute; reflexivity|vm_compute; reflexivity|reflexivity]. Qed.

Lemma ex_hist_holds :
  let s := run ex_eps ex_sess ex_hist in ledger_inv s /\ sess_wf s /\ saved_ok s.
Proof. destruct ex_sess_ok as (H1 & H2 & H3). apply ledger_inv_preserved; assumption. Qed.

Lemma ex_placeable : placeable ex_sess (ex_task 1) 1 /\ placeable ex_sess (ex_task 4) 2.
Proof. split; apply placeableb_sound; vm_compute; reflexivity. Qed.

Lemma ex_evictable : evictable ex_sess (ex_task 2) 1 /\ evictable ex_sess (ex_task 3) 2.
Proof. split; apply evictableb_sound; vm_compute; reflexivity. Qed.

(* the hypotheses of discard_restores_place / _evict are met and the operations succeed *)
Lemma ex_place_ok : snd (place_with ex_eps ex_sess 1 KAllocate (ex_task 1) 1) = ROk.
Proof. vm_compute. reflexivity. Qed.
Lemma ex_place_fails : snd (place_with ex_eps ex_sess 1 KAllocate (ex_task 1) 9) = RErr.
Proof. vm_compute. reflexivity. Qed.

(* the idle-map side condition is necessary: a node whose Idle has a nil scalar map loses
   idle + used = allocatable when a task with a scalar request is placed on it *)
Definition nil_idle_sess : sess :=
  let s := ex_sess in
  upd_nodes s (<[1%positive := mkNode 1 true (mkRes 1000 1000 None) empty_res empty_res empty_res (mkRes 1000 1000 None) ∅]> (nodes s)).
Lemma sess_wf_necessary_refuted :
  exists s o, ledger_okb (heap s) (jobs s) (nodes s) = true /\ sess_wfb s = false /\
              let s' := fst (step ex_eps s o) in ledger_okb (heap s') (jobs s') (nodes s') = false.
Proof. exists nil_idle_sess, (OAllocate 1 1 1). vm_compute. repeat split. Qed.

(* ---------- 6. Commit: a refused bind is rolled back ---------- *)
Theorem commit_refused_bind_rolls_back eps s sid p nid s1 :
  sess_ok s -> placeable s p nid -> default [] (stmts s !! sid) = [] ->
  place_with eps s sid KAllocate p nid = (s1, ROk) -> t_id p ∈ refuse_bind s ->
  let s2 := commit_op eps s1 (mkOp KAllocate (t_id p) Pending) in
  sess_eqv s s2 /\ binds s2 = binds s /\ evicts s2 = evicts s.
Proof.
  intros Hok Hpl Hemp Hplace Hr. cbv zeta.
  destruct (discard_restores_place eps s sid KAllocate p nid s1 Hok Hpl ltac:(discriminate) Hemp Hplace)
    as (_ & Heqv & _ & _ & Hc).
  rewrite (Hc Hr eq_refl). split; [exact Heqv|].
  assert (Hlg : lg (undo_op eps s1 (mkOp KAllocate (t_id p) Pending)) = lg s).
  { rewrite lg_undo. change s1 with (fst (s1, ROk)). rewrite <- Hplace. apply lg_place. }
  unfold lg in Hlg. inversion Hlg. auto.
Qed.

(* ---------- the n-operation Discard theorem is not vacuous ---------- *)
Definition evictable_withb (s : sess) (p c : task) (nid : positive) : bool :=
  bool_decide (heap s !! t_id p = Some p) &&
  (bool_decide (t_status p = Running) || bool_decide (t_status p = Bound)) &&
  bool_decide (t_node p = Some nid) && bool_decide (t_id c = t_id p) && bool_decide (t_job c = t_job p) &&
  bool_decide (t_sub c = t_sub p) && bool_decide (hview c = hview p) && jknownb s p &&
  bool_decide (nvcopy (nv s) nid (t_id p) = Some (hview p)) &&
  negb (bool_decide (sc (default empty_res (hshare s !! t_job p)) = None)).
Lemma evictable_withb_sound s p c nid : evictable_withb s p c nid = true -> evictable_with s p c nid.
Proof.
  unfold evictable_withb, evictable_with.
  rewrite !andb_true_iff, orb_true_iff, !bool_decide_eq_true, negb_true_iff, bool_decide_eq_false.
  intros (((((((((H1 & H2) & H3) & H4) & H5) & H6) & H7) & H8) & H9) & H10).
  repeat (split; [assumption|]). split; [apply jknownb_sound, H8|]. split; [exact H9|left; exact H10].
Qed.

Definition ex_copy (nid i : positive) : task := default (ex_task i) (ncopy ex_sess nid i).
Definition ex_txn : list txop := [TPlace KAllocate 1 1; TPlace KPipeline 4 2; TEvict false 2; TEvict true 3].

Lemma ex_txn_pre :
  Forall (tx_pre ex_sess) ex_txn /\ NoDup (map tx_tid ex_txn) /\ default [] (stmts ex_sess !! 1%positive) = [].
Proof.
  split; [|split; [|reflexivity]].
  - repeat constructor.
    + discriminate.
    + exists (ex_task 1). split; [reflexivity|]. apply placeableb_sound. vm_compute. reflexivity.
    + discriminate.
    + exists (ex_task 4). split; [reflexivity|]. apply placeableb_sound. vm_compute. reflexivity.
    + exists (ex_task 2), 1%positive. split; [reflexivity|]. apply evictable_withb_sound. vm_compute. reflexivity.
    + exists (ex_task 3), 2%positive, (ex_copy 2 3). split; [reflexivity|].
      split; [apply (bool_decide_unpack _); vm_compute; exact I|]. apply evictable_withb_sound. vm_compute. reflexivity.
  - apply (bool_decide_unpack _). vm_compute. exact I.
Qed.

Lemma ex_txn_all_recorded :
  map snd (map (fun k => step ex_eps (run ex_eps ex_sess (map (tx_op 1) (firstn k ex_txn))) (tx_op 1 (nth k ex_txn (TEvict false 1)))) [0; 1; 2; 3]%nat)
  = [ROk; ROk; ROk; ROk].
Proof. vm_compute. reflexivity. Qed.

(* the refused-dispatch case of failed_ssn_place_no_trace is not vacuous *)
Lemma ex_d_sess_ok : sess_ok d_sess.
Proof. apply sess_ok_of_bools; [vm_compute; reflexivity|vm_compute; reflexivity|reflexivity]. Qed.

Lemma ex_dispatch_refused :
  sess_ok d_sess /\ placeable d_sess (ex_task 1) 1 /\
  (forall j, jobs d_sess !! t_job (ex_task 1) = Some j -> idx_set (j_index j) Allocated = ∅) /\
  snd (ssn_place ex_eps d_sess KAllocate 1 1) = RErr /\
  sess_sameb d_sess (fst (ssn_place ex_eps d_sess KAllocate 1 1)) = true.
Proof.
  split; [exact ex_d_sess_ok|]. split; [apply placeableb_sound; vm_compute; reflexivity|].
  split; [|vm_compute; split; reflexivity].
  intros j Hj.
  assert (Hb : match jobs d_sess !! t_job (ex_task 1) with
               | Some j0 => bool_decide (idx_set (j_index j0) Allocated = ∅)
               | None => true end = true) by (vm_compute; reflexivity).
  rewrite Hj in Hb. apply bool_decide_eq_true in Hb. exact Hb.
Qed.

(* ---------- second audit round ---------- *)

(* base case: the boolean the harness evaluates per generated case (law 112) on the model's own
   initial session implies the hypotheses of the history theorem *)
Lemma init_okb_sess_ok s : init_okb s = true -> sess_ok s.
Proof.
  unfold init_okb. rewrite !andb_true_iff, bool_decide_eq_true. intros (((H1 & H2) & H3) & H4).
  apply sess_ok_of_bools; [|exact H3|exact H4].
  apply andb_true_iff. split; [exact H1|exact H2].
Qed.

(* the hypotheses of commit_refused_bind_rolls_back are satisfiable *)
Lemma ex_commit_refused_pre :
  sess_ok d_sess /\ placeable d_sess (ex_task 1) 1 /\ default [] (stmts d_sess !! 1%positive) = [] /\
  snd (place_with ex_eps d_sess 1 KAllocate (ex_task 1) 1) = ROk /\ t_id (ex_task 1) ∈ refuse_bind d_sess.
Proof.
  split; [exact ex_d_sess_ok|]. split; [apply placeableb_sound; vm_compute; reflexivity|].
  split; [reflexivity|]. split; [vm_compute; reflexivity|]. apply (bool_decide_unpack _). vm_compute. exact I.
Qed.

(* the "node refusing the task" disjunct of failed_ssn_place_no_trace_cause is satisfiable: t4 is
   Pending with an empty NodeName while node 2 still holds a copy of it (the state a failed
   Session.Allocate of a Pipelined task leaves, finding ...-outside-precondition...) *)
Definition held_sess : sess := fst (step ex_eps (run ex_eps ex_sess [OPipeline 1 4 2]) (OSsnAllocate 4 2)).
Lemma ex_node_refuses :
  sess_ok held_sess /\ heap held_sess !! 4%positive = Some (default (ex_task 4) (heap held_sess !! 4%positive)) /\
  let p := default (ex_task 4) (heap held_sess !! 4%positive) in
  t_status p = Pending /\ t_node p = None /\ jknown held_sess p /\
  exists n e, nodes held_sess !! 2%positive = Some n /\ node_add ex_eps n (placed_obj held_sess KAllocate p 2) = inr e.
Proof.
  split; [apply sess_ok_of_bools; [vm_compute; reflexivity|vm_compute; reflexivity|reflexivity]|].
  split; [apply (bool_decide_unpack _); vm_compute; exact I|]. cbv zeta.
  split; [vm_compute; reflexivity|]. split; [vm_compute; reflexivity|]. split; [apply jknownb_sound; vm_compute; reflexivity|].
  assert (Hb : match nodes held_sess !! 2%positive with
               | Some n => match node_add ex_eps n (placed_obj held_sess KAllocate (default (ex_task 4) (heap held_sess !! 4%positive)) 2) with
                           | inr _ => true | inl _ => false end
               | None => false end = true) by (vm_compute; reflexivity).
  destruct (nodes held_sess !! 2%positive) as [n|]; [|discriminate].
  destruct (node_add ex_eps n _) as [?|e] eqn:Ea; [discriminate|]. exists n, e. split; [reflexivity|exact Ea].
Qed.
