(* Model of the readiness family of pkg/scheduler/api/job_info.go (925-1260),
   sub_job_info.go (232-275) and of the gang plugin's JobReady / JobPipelined /
   SubJobReady / SubJobPipelined / JobStarving / JobValid functions
   (plugins/gang/gang.go 55-219).  All counts are taken from TaskStatusIndex,
   as the Go code does; that they equal counts over the task set is a theorem
   under the ledger invariant (GangLemmas.v). *)
From stdpp Require Import gmap.
From Coq Require Import ZArith.
From V Require Import Base.Res Sched.LedgerModel.
Open Scope Z_scope.

Definition idx_set (ix : gmap positive (gset positive)) (s : status) : gset positive :=
  default ∅ (ix !! skey s).
Definition idx_count (ix : gmap positive (gset positive)) (s : status) : Z :=
  Z.of_nat (size (idx_set ix s)).

(* ReadyTaskNum: Bound + Binding + Running + Allocated + Succeeded *)
Definition ready_num (ix : gmap positive (gset positive)) : Z :=
  idx_count ix Bound + idx_count ix Binding + idx_count ix Running +
  idx_count ix Allocated + idx_count ix Succeeded.

Definition waiting_num (ix : gmap positive (gset positive)) : Z := idx_count ix Pipelined.

Definition is_best_effort (heap : gmap positive task) (i : positive) : bool :=
  match heap !! i with Some t => t_best_effort t | None => false end.

Definition count_set (p : positive -> bool) (x : gset positive) : Z :=
  Z.of_nat (length (filter (fun i => p i = true) (elements x))).

(* PendingBestEffortTaskNum *)
Definition pending_be_num (heap : gmap positive task) (ix : gmap positive (gset positive)) : Z :=
  count_set (is_best_effort heap) (idx_set ix Pending).

(* IsReady / IsPipelined / IsStarving of a job or sub-job with minimum m *)
Definition is_ready (heap : gmap positive task) (ix : gmap positive (gset positive)) (m : Z) : bool :=
  bool_decide (m <= ready_num ix + pending_be_num heap ix).
Definition is_pipelined (heap : gmap positive task) (ix : gmap positive (gset positive)) (m : Z) : bool :=
  bool_decide (m <= waiting_num ix + ready_num ix + pending_be_num heap ix).
Definition is_starving (ix : gmap positive (gset positive)) (m : Z) : bool :=
  bool_decide (waiting_num ix + ready_num ix < m).

Definition has_role (heap : gmap positive task) (r : positive) (i : positive) : bool :=
  match heap !! i with Some t => bool_decide (t_role t = r) | None => false end.

(* getJobAllocatedRoles()[r], optionally counting Pipelined too (CheckTaskPipelined) *)
Definition role_occupied (heap : gmap positive task) (ix : gmap positive (gset positive)) (with_pipelined : bool) (r : positive) : Z :=
  count_set (has_role heap r) (idx_set ix Bound) + count_set (has_role heap r) (idx_set ix Binding) +
  count_set (has_role heap r) (idx_set ix Running) + count_set (has_role heap r) (idx_set ix Allocated) +
  count_set (has_role heap r) (idx_set ix Succeeded) +
  (if with_pipelined then count_set (has_role heap r) (idx_set ix Pipelined) else 0) +
  count_set (fun i => has_role heap r i && is_best_effort heap i) (idx_set ix Pending).

Definition roles_ok (heap : gmap positive task) (j : job) (with_pipelined : bool) : bool :=
  if bool_decide (j_min j < j_role_total j) then true
  else bool_decide (map_Forall (fun r m => bool_decide (m <= role_occupied heap (j_index j) with_pipelined r) = true) (j_role_min j)).

(* CheckTaskReady / CheckTaskPipelined *)
Definition check_task_ready (heap : gmap positive task) (j : job) : bool := roles_ok heap j false.
Definition check_task_pipelined (heap : gmap positive task) (j : job) : bool := roles_ok heap j true.

(* SubJobInfo.IsReady / IsPipelined *)
Definition sub_ready (heap : gmap positive task) (sj : subjob) : bool := is_ready heap (sj_index sj) (sj_min sj).
Definition sub_pipelined (heap : gmap positive task) (sj : subjob) : bool := is_pipelined heap (sj_index sj) (sj_min sj).

(* gang JobReadyFn = CheckTaskReady && CheckSubJobReady && IsReady.  Jobs
   without a sub-group policy have MinSubJobs empty, so CheckSubJobReady is
   true; policies are outside this model (DESIGN C01 L). *)
Definition gang_job_ready (heap : gmap positive task) (j : job) : bool :=
  check_task_ready heap j && is_ready heap (j_index j) (j_min j).
Definition gang_job_pipelined (heap : gmap positive task) (j : job) : bool :=
  check_task_pipelined heap j && is_pipelined heap (j_index j) (j_min j).
Definition gang_job_starving (j : job) : bool := is_starving (j_index j) (j_min j).

(* Session.SubJobReady / SubJobPipelined of a job WITHOUT sub-group policy are the job-level
   votes (session_plugins.go 433-436, 457-460) *)
Definition gang_sub_ready (heap : gmap positive task) (j : job) : bool := gang_job_ready heap j.
Definition gang_sub_pipelined (heap : gmap positive task) (j : job) : bool := gang_job_pipelined heap j.
