(* C01, part 5: the property theorems, their executable guards, the refutation of the unguarded
   statement (finding F10) and the non-vacuity examples. *)
From stdpp Require Import gmap.
From Coq Require Import ZArith Lia.
From V Require Import Base.Res Sched.LedgerModel Sched.StmtModel Sched.GangModel Sched.CycleModel Sched.LedgerInvP
                      Sched.GangLemmas Sched.GangLemmasInv Sched.GangLemmasStmt Sched.GangLemmasCycle
                      Sched.LedgerCodec Sched.CycleCodec.
Open Scope Z_scope.

(* ---------- main theorem ---------- *)

Definition binds_ok (s0 s' : sess) : Prop :=
  exists nb, binds s' = nb ++ binds s0 /\
    forall b, b ∈ nb ->
      exists t j, heap s' !! b.1 = Some t /\ t_status t = Binding /\ jobs s' !! t_job t = Some j /\ gang_ok (heap s') j.

Theorem bind_only_when_gang_ok_core eps w ops :
  gang_inv (w_sess w) -> refuse_bind (w_sess w) = ∅ -> stmts (w_sess w) = ∅ ->
  guarded eps w ops ->
  binds_ok (w_sess w) (w_sess (run eps w ops)) /\ gang_inv (w_sess (run eps w ops)).
Proof.
  intros Hinv Href Hst Hg.
  assert (Hw : winv w).
  { split; [done|]. split; [done|]. intros sid _. rewrite Hst. apply lookup_empty. }
  destruct (run_spec eps ops w Hw Hg) as [(Hinv' & _) (_ & _ & _ & nb & E & Hnb)].
  split; [|done]. exists nb. split; [done|]. exact Hnb.
Qed.

Theorem bind_only_when_gang_ok eps w ops :
  ledger_inv (w_sess w) -> heap_members (w_sess w) ->
  refuse_bind (w_sess w) = ∅ -> stmts (w_sess w) = ∅ ->
  guarded eps w ops ->
  binds_ok (w_sess w) (w_sess (run eps w ops)).
Proof.
  intros Hl Hm Href Hst Hg.
  exact (proj1 (bind_only_when_gang_ok_core eps w ops (ledger_inv_gang_inv _ Hl Hm) Href Hst Hg)).
Qed.

(* contrapositive: a job whose gang is not complete at the end of the cycle received no bind,
   and a task still tentatively placed (Allocated / Pipelined) is not in the bind log *)
Theorem no_bind_without_gang eps w ops :
  ledger_inv (w_sess w) -> heap_members (w_sess w) ->
  refuse_bind (w_sess w) = ∅ -> stmts (w_sess w) = ∅ ->
  guarded eps w ops ->
  let s' := w_sess (run eps w ops) in
  exists nb, binds s' = nb ++ binds (w_sess w) /\
    (forall jid j, jobs s' !! jid = Some j -> ~ gang_ok (heap s') j ->
       forall b t, b ∈ nb -> heap s' !! b.1 = Some t -> t_job t <> jid) /\
    (forall i t, heap s' !! i = Some t -> t_status t <> Binding -> forall b, b ∈ nb -> b.1 <> i).
Proof.
  intros Hl Hm Href Hst Hg s'.
  destruct (bind_only_when_gang_ok eps w ops Hl Hm Href Hst Hg) as (nb & E & Hnb).
  exists nb. split; [done|]. split.
  - intros jid j Ej Hnok b t Hb Et Hjob. destruct (Hnb b Hb) as (t' & j' & Et' & _ & Ej' & Hok).
    fold s' in Et'. rewrite Et in Et'. injection Et' as <-. rewrite Hjob in Ej'. fold s' in Ej'.
    rewrite Ej in Ej'. injection Ej' as <-. done.
  - intros i t Et Hnb' b Hb <-. destruct (Hnb b Hb) as (t' & j' & Et' & Hbt & _).
    fold s' in Et'. rewrite Et in Et'. injection Et' as <-. done.
Qed.

(* ---------- consecutive cycles ---------- *)

(* what the next snapshot shows of a task: a bind that went out makes the pod Bound (later
   Running / Succeeded); the session's tentative statuses vanish with the session *)
Definition feed_status (s : status) : status :=
  match s with Binding => Bound | Allocated | Pipelined => Pending | s => s end.
Definition next_heap (h : gmap positive task) : gmap positive task :=
  (fun t => set_status t (feed_status (t_status t))) <$> h.

Theorem cycles_compose h j :
  (forall i t, next_heap h !! i = Some t ->
     t_status t <> Allocated /\ t_status t <> Pipelined /\ t_status t <> Binding) /\
  (gang_ok h j -> gang_ok (next_heap h) j).
Proof.
  split.
  - intros i t. unfold next_heap. rewrite lookup_fmap. destruct (h !! i) as [u|]; [|done].
    simpl. intros [= <-]. simpl. destruct (t_status u); done.
  - intros Hok. apply gang_ok_cond. apply gang_ok_cond in Hok.
    eapply gang_cond_mono; [exact Hok|apply jstatic_refl|].
    intros i t _ Et Hc. exists (set_status t (feed_status (t_status t))).
    unfold next_heap. rewrite lookup_fmap, Et. split; [done|]. split; [done|].
    unfold cluster_ready in *. simpl. destruct (t_status t); done.
Qed.

(* at the start of the next cycle no job holds a tentative allocation: the guard of the first
   attempt on every job holds *)
Corollary next_cycle_guard (s : sess) h jid :
  heap s = next_heap h -> no_kept_alloc s jid.
Proof.
  intros E i t Et _ Hal. rewrite E in Et. destruct (proj1 (cycles_compose h (mkJob 1 1 0 ∅ 0 ∅ ∅ empty_res empty_res ∅ ∅)) i t Et) as [H _].
  done.
Qed.

(* ---------- executable guards ---------- *)

Definition no_kept_allocb (s : sess) (jid : positive) : bool :=
  forallb (fun it : positive * task =>
     negb (bool_decide (t_job it.2 = jid) && bool_decide (t_status it.2 = Allocated)) || t_best_effort it.2)
    (map_to_list (heap s)).
Definition places_non_beb (s : sess) (places : list (positive * positive)) : bool :=
  forallb (fun pr : positive * positive =>
     match heap s !! pr.1 with Some t => negb (t_best_effort t) | None => true end) places.
Definition cop_guardb (w : world) (o : cop) : bool :=
  match o with
  | CAttempt jid places => no_kept_allocb (w_sess w) jid && places_non_beb (w_sess w) places
  | CBackfill _ _ => true
  end.
Fixpoint guardedb (eps : Z) (w : world) (ops : list cop) : bool :=
  match ops with
  | [] => true
  | o :: r => cop_guardb w o && guardedb eps (fst (step eps w o)) r
  end.

Lemma cop_guardb_sound w o : cop_guardb w o = true -> cop_guard w o.
Proof.
  destruct o as [jid places|]; [|done]. simpl. intros [H1 H2]%andb_true_iff. split.
  - intros i t Et Hj Hal. unfold no_kept_allocb in H1. rewrite forallb_forall in H1.
    apply elem_of_map_to_list, elem_of_list_In in Et. specialize (H1 _ Et). simpl in H1.
    rewrite !bool_decide_true in H1 by done. done.
  - intros tid nid t Hin Et. unfold places_non_beb in H2. rewrite forallb_forall in H2.
    apply elem_of_list_In in Hin. specialize (H2 _ Hin). simpl in H2. rewrite Et in H2.
    by destruct (t_best_effort t).
Qed.

Lemma guardedb_sound eps ops : forall w, guardedb eps w ops = true -> guarded eps w ops.
Proof.
  induction ops as [|o ops IH]; intros w; [done|]. simpl. intros [H1 H2]%andb_true_iff.
  split; [by apply cop_guardb_sound|by apply IH].
Qed.

(* ---------- executable form of the light invariant ---------- *)

Definition all_status : list status :=
  [Pending; Allocated; Pipelined; Binding; Bound; Running; Releasing; Succeeded; Failed; Unknown].
Definition status_at (h : gmap positive task) (i : positive) : option status := t_status <$> h !! i.

Definition ginvb (h : gmap positive task) (js : gmap positive job) : bool :=
  forallb (fun it : positive * task =>
     bool_decide (t_id it.2 = it.1) &&
     match js !! t_job it.2 with Some j => bool_decide (it.1 ∈ j_tasks j) | None => true end) (map_to_list h) &&
  forallb (fun jj : positive * job =>
     forallb (fun i => match h !! i with Some t => bool_decide (t_job t = jj.1) | None => false end)
             (elements (j_tasks jj.2)) &&
     forallb (fun st => bool_decide (idx_set (j_index jj.2) st =
                                     filter (fun i => status_at h i = Some st) (j_tasks jj.2))) all_status)
    (map_to_list js).

Lemma ginvb_sound h js : ginvb h js = true -> ginv h js.
Proof.
  intros [H1' H2']%andb_true_iff.
  pose proof (proj1 (forallb_forall _ _) H1') as H1. pose proof (proj1 (forallb_forall _ _) H2') as H2.
  clear H1' H2'. split; [|split].
  - intros i t Et. apply elem_of_map_to_list, elem_of_list_In in Et. specialize (H1 _ Et). simpl in H1.
    apply andb_true_iff in H1 as [Ha _]. by apply bool_decide_eq_true in Ha.
  - intros jid j Ej. apply elem_of_map_to_list, elem_of_list_In in Ej. specialize (H2 _ Ej). cbn [fst snd] in H2.
    apply andb_true_iff in H2 as [Hts' Hix'].
    pose proof (proj1 (forallb_forall _ _) Hts') as Hts. pose proof (proj1 (forallb_forall _ _) Hix') as Hix.
    clear Hts' Hix'. split.
    + intros i Hi. apply elem_of_elements, elem_of_list_In in Hi. specialize (Hts _ Hi). simpl in Hts.
      destruct (h !! i) as [t|]; [|done]. apply bool_decide_eq_true in Hts. eauto.
    + intros st i. assert (Hin : In st all_status) by (destruct st; simpl; tauto).
      specialize (Hix _ Hin). apply bool_decide_eq_true in Hix. rewrite Hix, elem_of_filter.
      unfold status_at. destruct (h !! i) as [t|]; simpl; naive_solver.
  - intros i t j Et Ej. apply elem_of_map_to_list, elem_of_list_In in Et. specialize (H1 _ Et). simpl in H1.
    apply andb_true_iff in H1 as [_ Hc]. rewrite Ej in Hc. by apply bool_decide_eq_true in Hc.
Qed.

(* ---------- F10: the guard cannot be dropped ---------- *)

Definition eps0 : Z := 2.
Definition mkT (i j r : positive) (prio cpu : Z) (s : status) (n : option positive) : task_spec :=
  mkTaskSpec i j r prio cpu 0 0 s n false.

(* node 1: 4000m cpu, a Releasing pod of 2000m.  Gang 2: minMember 3 < sum of role minimums 4;
   t2, t3, t4 role 1 (1000m, 2000m, 500m), t5 role 2 (9000m), t6 role 2 best effort. *)
Definition f10_case (cops : list cop) : cycle_case :=
  mkCycle eps0
    [mkNodeSpec 1 true 4000 (64 * 1048576) 16 0]
    [mkQSpec 1 true 1 0 0]
    [mkJobSpec 1 1 1 []; mkJobSpec 2 1 3 [(1%positive, 2); (2%positive, 2)]]
    [mkT 1 1 1 0 2000 Releasing (Some 1%positive); mkT 2 2 1 9 1000 Pending None; mkT 3 2 1 8 2000 Pending None;
     mkT 4 2 1 1 500 Pending None; mkT 5 2 2 5 9000 Pending None; mkT 6 2 2 0 0 Pending None]
    false [1; 1] [] cops.

(* first allocate: t2 Allocated, t3 Pipelined, kept; second allocate: t4 alone, committed *)
Definition f10_cops : list cop :=
  [CAttempt 2 [(2, 1); (3, 1)]; CAttempt 2 [(4, 1)]]%positive.
Definition f10_world : world := world_of (f10_case f10_cops).

Definition partial_bind_b (s' : sess) (b : positive * option positive) (jid : positive) : bool :=
  match jobs s' !! jid, heap s' !! b.1 with
  | Some j, Some t =>
    bool_decide (t_job t = jid) && bool_decide (b ∈ binds s') &&
    negb (bool_decide (j_min j <= count_tasks cluster_ready (tasks_in (heap s') (j_tasks j))))
  | _, _ => false
  end.

Lemma partial_bind_b_sound s' b jid : partial_bind_b s' b jid = true ->
  exists j, b ∈ binds s' /\ (exists t, heap s' !! b.1 = Some t /\ jobs s' !! t_job t = Some j) /\ ~ gang_ok (heap s') j.
Proof.
  unfold partial_bind_b. destruct (jobs s' !! jid) as [j|] eqn:Ej; [|done].
  destruct (heap s' !! b.1) as [t|] eqn:Et; [|done].
  intros [[H1%bool_decide_eq_true H2%bool_decide_eq_true]%andb_true_iff H3%negb_true_iff]%andb_true_iff.
  apply bool_decide_eq_false in H3.
  exists j. split; [done|]. split; [exists t; by rewrite H1|]. by intros [Hmin _].
Qed.

Definition fresh_statuses_b (s : sess) : bool :=
  forallb (fun it : positive * task =>
     negb (bool_decide (t_status it.2 = Allocated)) && negb (bool_decide (t_status it.2 = Binding)) &&
     negb (bool_decide (t_status it.2 = Pipelined))) (map_to_list (heap s)).
Lemma fresh_statuses_b_sound s : fresh_statuses_b s = true ->
  forall i t, heap s !! i = Some t -> t_status t <> Allocated /\ t_status t <> Binding /\ t_status t <> Pipelined.
Proof.
  intros H i t Et. pose proof (proj1 (forallb_forall _ _) H) as H'.
  apply elem_of_map_to_list, elem_of_list_In in Et. specialize (H' _ Et). simpl in H'.
  apply andb_true_iff in H' as [[H1%negb_true_iff H2%negb_true_iff]%andb_true_iff H3%negb_true_iff].
  apply bool_decide_eq_false in H1, H2, H3. done.
Qed.

Definition f10_check : bool :=
  let w := f10_world in
  ginvb (heap (w_sess w)) (jobs (w_sess w)) && bool_decide (refuse_bind (w_sess w) = ∅) &&
  bool_decide (stmts (w_sess w) = ∅) && fresh_statuses_b (w_sess w) &&
  negb (guardedb eps0 w f10_cops) &&
  partial_bind_b (w_sess (run eps0 w f10_cops)) (4%positive, Some 1%positive) 2.
Lemma f10_check_true : f10_check = true.
Proof. vm_compute. reflexivity. Qed.

Theorem bind_without_guard_refuted :
  exists eps w ops,
    gang_inv (w_sess w) /\ refuse_bind (w_sess w) = ∅ /\ stmts (w_sess w) = ∅ /\
    (forall i t, heap (w_sess w) !! i = Some t -> t_status t <> Allocated /\ t_status t <> Binding /\ t_status t <> Pipelined) /\
    guardedb eps w ops = false /\
    let s' := w_sess (run eps w ops) in
    exists b j, b ∈ binds s' /\ (exists t, heap s' !! b.1 = Some t /\ jobs s' !! t_job t = Some j) /\ ~ gang_ok (heap s') j.
Proof.
  exists eps0, f10_world, f10_cops. pose proof f10_check_true as H. unfold f10_check in H.
  apply andb_true_iff in H as [H H6]. apply andb_true_iff in H as [H H5]. apply andb_true_iff in H as [H H4].
  apply andb_true_iff in H as [H H3]. apply andb_true_iff in H as [H1 H2].
  split; [by apply ginvb_sound|]. split; [by apply bool_decide_eq_true in H2|].
  split; [by apply bool_decide_eq_true in H3|]. split; [by apply fresh_statuses_b_sound|].
  split; [by apply negb_true_iff in H5|].
  destruct (partial_bind_b_sound _ _ _ H6) as (j & Hj). exists (4%positive, Some 1%positive), j. exact Hj.
Qed.

(* ---------- non-vacuity ---------- *)

(* a 2-role gang (minMember 3, minTaskMember r1:2 r2:1), committed in one attempt *)
Definition ex_case (cops : list cop) (cpu : Z) : cycle_case :=
  mkCycle eps0
    [mkNodeSpec 1 true cpu (64 * 1048576) 16 0]
    [mkQSpec 1 true 1 0 0]
    [mkJobSpec 1 1 1 []; mkJobSpec 2 1 3 [(1%positive, 2); (2%positive, 1)]]
    [mkT 1 1 1 0 2000 Releasing (Some 1%positive); mkT 2 2 1 9 1000 Pending None; mkT 3 2 1 8 1000 Pending None;
     mkT 4 2 2 1 1000 Pending None]
    false [1] [] cops.
Definition ex_cops : list cop := [CAttempt 2 [(2, 1); (3, 1); (4, 1)]]%positive.

Definition binds_of (c : cycle_case) : list (positive * option positive) :=
  binds (w_sess (run (cc_eps c) (world_of c) (cc_cops c))).
Definition status_after (c : cycle_case) (i : positive) : option status :=
  status_at (heap (w_sess (run (cc_eps c) (world_of c) (cc_cops c)))) i.

Definition hyps_okb (c : cycle_case) : bool :=
  let w := world_of c in
  ginvb (heap (w_sess w)) (jobs (w_sess w)) &&
  bool_decide (refuse_bind (w_sess w) = ∅) && bool_decide (stmts (w_sess w) = ∅) &&
  guardedb (cc_eps c) w (cc_cops c).

Lemma hyps_okb_sound c : hyps_okb c = true ->
  let w := world_of c in
  gang_inv (w_sess w) /\ refuse_bind (w_sess w) = ∅ /\ stmts (w_sess w) = ∅ /\ guarded (cc_eps c) w (cc_cops c).
Proof.
  unfold hyps_okb. intros [[[H1 H2]%andb_true_iff H3]%andb_true_iff H4]%andb_true_iff.
  split; [by apply ginvb_sound|]. split; [by apply bool_decide_eq_true in H2|].
  split; [by apply bool_decide_eq_true in H3|]. by apply guardedb_sound.
Qed.

(* enough room (idle 5000m): all three Allocated, JobReady, committed: three binds *)
Example ex_committed :
  hyps_okb (ex_case ex_cops 7000) = true /\
  binds_of (ex_case ex_cops 7000) = [(4, Some 1); (3, Some 1); (2, Some 1)]%positive /\
  status_after (ex_case ex_cops 7000) 2 = Some Binding.
Proof. vm_compute. repeat split. Qed.

(* idle 2000m + 2000m releasing: t2, t3 Allocated, t4 Pipelined: pipelined only, statement kept, no bind *)
Example ex_kept :
  hyps_okb (ex_case ex_cops 4000) = true /\
  binds_of (ex_case ex_cops 4000) = [] /\
  status_after (ex_case ex_cops 4000) 2 = Some Allocated /\ status_after (ex_case ex_cops 4000) 4 = Some Pipelined.
Proof. vm_compute. repeat split. Qed.

(* idle 500m + 2000m releasing: t2, t3 Pipelined, t4 fits nowhere: neither ready nor pipelined:
   discarded, everything Pending again, no bind *)
Example ex_discarded :
  hyps_okb (ex_case ex_cops 2500) = true /\
  binds_of (ex_case ex_cops 2500) = [] /\
  status_after (ex_case ex_cops 2500) 2 = Some Pending /\ status_after (ex_case ex_cops 2500) 3 = Some Pending.
Proof. vm_compute. repeat split. Qed.

(* the theorem's hypotheses hold on the committed example, and its conclusion speaks about three binds *)
Example ex_theorem_applies :
  let c := ex_case ex_cops 7000 in
  binds_ok (w_sess (world_of c)) (w_sess (run (cc_eps c) (world_of c) (cc_cops c))) /\ length (binds_of c) = 3%nat.
Proof.
  intros c. assert (Hc : hyps_okb c = true) by (vm_compute; reflexivity).
  destruct (hyps_okb_sound c Hc) as (H1 & H2 & H3 & H4).
  split; [exact (proj1 (bind_only_when_gang_ok_core _ _ _ H1 H2 H3 H4))|vm_compute; reflexivity].
Qed.
