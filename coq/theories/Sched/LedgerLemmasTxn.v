(* C07 proofs, part F: transactions.  A failed Statement.Allocate / Pipeline leaves no trace,
   Discard restores the session, Commit rolls a refused bind back; the binder / evictor logs
   move only in Commit, Session.Allocate and Session.Evict. *)
From stdpp Require Import gmap.
From Coq Require Import ZArith Lia.
From V Require Import Base.Res Base.ResLemmas Sched.LedgerModel Sched.StmtModel Sched.GangModel
  Sched.LedgerInvP Sched.LedgerInv Sched.LedgerLemmasA Sched.LedgerLemmasJob Sched.LedgerLemmasNode
  Sched.LedgerLemmasSess Sched.LedgerLemmasSk.
Open Scope Z_scope.

(* the standing assumption on a session *)
Definition sess_ok (s : sess) : Prop := ledger_inv s /\ sess_wf s /\ saved_ok s.

(* the task is a member of its job, filed under its own sub-job (true of every task that came
   through AddTaskInfo) *)
Definition jmember (j : job) (p : task) : Prop :=
  t_id p ∈ j_tasks j /\ j_task_sub j !! t_id p = Some (t_sub p) /\ t_sub p ∈ dom (j_subs j).

Lemma jmember_view j j' p : jview j = jview j' -> jmember j p -> jmember j' p.
Proof. unfold jview, jmember. intros [= -> -> ->]. tauto. Qed.

Lemma jmember_static j p q : t_id q = t_id p -> t_sub q = t_sub p -> jmember j p -> jmember j q.
Proof. unfold jmember. intros -> ->. tauto. Qed.

(* delete + re-add of a member keeps the job's skeleton *)
Lemma jview_readd j stored q :
  t_id stored = t_id q -> jmember j q -> jview (job_add (job_del j stored) q) = jview j.
Proof.
  intros Hid (Hin & Hts & Hd). unfold jview, job_add, job_del. simpl. rewrite Hid, Hts.
  apply elem_of_dom in Hd as [sj Hsj]. rewrite Hsj.
  f_equal; [f_equal|].
  - apply set_eq. intros x. rewrite elem_of_union, elem_of_difference, elem_of_singleton.
    destruct (decide (x = t_id q)) as [->|]; tauto.
  - rewrite insert_delete_insert. apply insert_id. exact Hts.
  - rewrite !dom_insert_L. apply set_eq. intros x. rewrite !elem_of_union, !elem_of_singleton.
    split; [|tauto]. intros [->|[->|H]]; try assumption; apply elem_of_dom; eauto.
Qed.

Lemma job_update_member h j p st :
  h !! t_id p = Some p -> jmember j p ->
  exists j', job_update h j p st = (j', set_status p st) /\ jview j' = jview j.
Proof.
  intros Hl Hm. unfold job_update. destruct Hm as (Hin & Hrest).
  rewrite bool_decide_eq_true_2 by exact Hin. rewrite Hl.
  eexists. split; [reflexivity|]. apply jview_readd; [reflexivity|]. split; assumption.
Qed.

Definition jknown (s : sess) (p : task) : Prop :=
  match jobs s !! t_job p with Some j => jmember j p | None => True end.

(* the fields the status update does not touch *)
Definition others (s : sess) :=
  (nodes s, hshare s, hlog s, herr s, refuse_bind s, refuse_evict s, binds s, evicts s, stmts s, saved s, job_ready s).

Lemma jv_insert_same s k j j' :
  jobs s !! k = Some j -> jview j' = jview j -> jv (upd_jobs s (<[k := j']> (jobs s))) = jv s.
Proof.
  intros Hj Hv. unfold jv. simpl. rewrite fmap_insert, Hv. apply insert_id. rewrite lookup_fmap, Hj. reflexivity.
Qed.

Lemma update_sk s p st :
  jknown s p -> heap s !! t_id p = Some p ->
  exists (f : bool) (s1 : sess), ssn_update_status s p st = (f, s1, if f then set_status p st else p) /\
    f = bool_decide (is_Some (jobs s !! t_job p)) /\
    heap s1 = <[t_id p := if f then set_status p st else p]> (heap s) /\
    jv s1 = jv s /\ (forall q, jknown s q -> jknown s1 q) /\ others s1 = others s.
Proof.
  intros Hjk Hl. unfold ssn_update_status, jknown in *. destruct (jobs s !! t_job p) as [j|] eqn:Ej.
  - destruct (job_update_member (heap s) j p st Hl Hjk) as (j' & -> & Hv).
    exists true. eexists. split; [reflexivity|]. split; [rewrite bool_decide_eq_true_2 by eauto; reflexivity|].
    split; [reflexivity|]. split; [apply (jv_insert_same s _ j j' Ej Hv)|]. split; [|reflexivity].
    intros q. unfold jknown. simpl. destruct (decide (t_job q = t_job p)) as [->|Hne].
    + rewrite lookup_insert, Ej. apply jmember_view. symmetry. exact Hv.
    + rewrite lookup_insert_ne by congruence. auto.
  - exists false, s. split; [reflexivity|]. split; [rewrite bool_decide_eq_false_2; [reflexivity|intros [? ?]; discriminate]|].
    split; [symmetry; apply insert_id; exact Hl|]. split; [reflexivity|]. split; [auto|reflexivity].
Qed.

Lemma others_inv s s' : others s' = others s ->
  nodes s' = nodes s /\ hshare s' = hshare s /\ hlog s' = hlog s /\ herr s' = herr s /\
  refuse_bind s' = refuse_bind s /\ refuse_evict s' = refuse_evict s /\ binds s' = binds s /\
  evicts s' = evicts s /\ stmts s' = stmts s /\ saved s' = saved s /\ job_ready s' = job_ready s.
Proof. unfold others. intros [= -> -> -> -> -> -> -> -> -> -> ->]. repeat split. Qed.

Definition rm_node (nds : gmap positive node) (onid : option positive) (i : positive) : gmap positive node :=
  match onid with
  | Some nid => match nds !! nid with Some n => <[nid := node_remove n i]> nds | None => nds end
  | None => nds
  end.

(* unallocate / unPipeline on the canonical object: what it does to every field *)
Lemma unallocate_sk s p :
  jknown s p -> heap s !! t_id p = Some p ->
  let s' := unallocate_with s p in
  let f := bool_decide (is_Some (jobs s !! t_job p)) in
  heap s' = <[t_id p := set_node (if f then set_status p Pending else p) None]> (heap s) /\
  jv s' = jv s /\ (forall q, jknown s q -> jknown s' q) /\
  nodes s' = rm_node (nodes s) (t_node p) (t_id p) /\
  hshare s' = <[t_job p := sub (default empty_res (hshare s !! t_job p)) (t_req p)]> (hshare s) /\
  stmts s' = stmts s /\ binds s' = binds s /\ evicts s' = evicts s /\ saved s' = saved s.
Proof.
  intros Hjk Hl. unfold unallocate_with.
  destruct (update_sk s p Pending Hjk Hl) as (f & s1 & -> & Hf & Hh1 & Hjv1 & Hjk1 & Ho1).
  rewrite <- Hf. apply others_inv in Ho1 as (Hn1 & Hs1 & Hl1 & _ & _ & _ & Hb1 & He1 & Hst1 & Hsv1 & _).
  set (p1 := if f then set_status p Pending else p).
  assert (Hp1 : t_node p1 = t_node p /\ t_id p1 = t_id p /\ t_job p1 = t_job p /\ t_req p1 = t_req p)
    by (unfold p1; destruct f; repeat split).
  destruct Hp1 as (Hnode1 & Hid1 & Hjob1 & Hreq1).
  unfold ssn_node_remove, rm_node. rewrite Hnode1, Hn1, Hid1.
  destruct (t_node p) as [nid|]; [destruct (nodes s !! nid) as [n|]|]; simpl;
    rewrite ?Hh1, ?Hid1, ?Hjob1, ?Hreq1, ?Hs1, ?insert_insert;
    (split; [reflexivity|]); (split; [exact Hjv1|]); (split; [exact Hjk1|]); repeat split; assumption.
Qed.

Lemma found_jv s s' k : jv s = jv s' ->
  bool_decide (is_Some (jobs s !! k)) = bool_decide (is_Some (jobs s' !! k)).
Proof.
  intros H. apply bool_decide_ext.
  assert (E : (jview <$> jobs s !! k) = (jview <$> jobs s' !! k)) by (unfold jv in H; rewrite <- !lookup_fmap, H; reflexivity).
  destruct (jobs s !! k), (jobs s' !! k); simpl in E; try discriminate; split; intros [? ?]; try discriminate; eauto.
Qed.

Lemma jknown_fields s s' p q :
  jobs s' = jobs s -> t_id q = t_id p -> t_job q = t_job p -> t_sub q = t_sub p -> jknown s p -> jknown s' q.
Proof.
  unfold jknown. intros -> Hi -> Hs. destruct (jobs s !! t_job p); [|auto]. apply jmember_static; assumption.
Qed.

(* AddTask then RemoveTask of the same task gives the node's skeleton back *)
Lemma nview_add_remove eps n p n' p' :
  node_add eps n p = inl (n', p') -> nview (node_remove n' (t_id p)) = nview n.
Proof.
  intros Ha. destruct (node_add_spec _ _ _ _ _ Ha) as (_ & Hnone & Ht & Hid & Hhas & Hal & _).
  destruct (node_remove_fields n' (t_id p)) as (_ & Hh2 & Ha2 & Ht2).
  unfold nview. rewrite Hh2, Ha2, Ht2, Hhas, Hal, Ht, delete_insert by exact Hnone.
  destruct (n_has_node n) eqn:Hn; [reflexivity|].
  f_equal. revert Ha. unfold node_add. cbv zeta.
  case_bool_decide; [discriminate|]. case_bool_decide; [discriminate|]. rewrite Hn. simpl.
  intros [= <- _]. unfold node_remove. simpl. rewrite lookup_insert. simpl. rewrite Hn. reflexivity.
Qed.

Lemma share_add_sub sh k r :
  share_same sh (<[k := sub (add (default empty_res (sh !! k)) r) r]> sh).
Proof.
  intros k'. destruct (decide (k' = k)) as [->|Hne].
  - rewrite lookup_insert. simpl. apply res_eqv_sym, add_sub_eqv.
  - rewrite lookup_insert_ne by congruence. apply res_eqv_refl.
Qed.

Lemma share_same_refl sh : share_same sh sh.
Proof. intros k. apply res_eqv_refl. Qed.

Lemma sess_ok_place eps s sid k p nid :
  sess_ok s -> heap s !! t_id p = Some p -> sess_ok (fst (place_with eps s sid k p nid)).
Proof.
  intros (Hl & Hw & Hs) Hp. pose proof (good_init s Hl Hw Hs) as Hg.
  assert (Hpk : pok (table_of (heap s)) p) by (eapply good_heap_pok; eauto).
  pose proof (good_place eps _ s sid k p nid Hg Hpk) as Hg'.
  split; [exact (proj1 Hg')|]. split; [exact (proj1 (proj2 Hg'))|]. eapply good_saved_ok; eauto.
Qed.

Definition place_status (k : opkind) : status := match k with KAllocate => Allocated | _ => Pipelined end.

(* the object a placement of p on nid works with *)
Definition placed_obj (s : sess) (k : opkind) (p : task) (nid : positive) : task :=
  set_node (if bool_decide (is_Some (jobs s !! t_job p)) then set_status p (place_status k) else p) (Some nid).

(* [s4] is [s] after the "do" half of a placement of p on nid (status, node name, node ledger
   if the node took it, handler callback) *)
Definition placed_state eps (s : sess) (p p2 : task) (nid : positive) (s4 : sess) : Prop :=
  heap s4 = <[t_id p := p2]> (heap s) /\ jv s4 = jv s /\ (forall q, jknown s q -> jknown s4 q) /\
  (nodes s4 = nodes s \/
   exists n n' q, nodes s !! nid = Some n /\ node_add eps n p2 = inl (n', q) /\ nodes s4 = <[nid := n']> (nodes s)) /\
  hshare s4 = <[t_job p := add (default empty_res (hshare s !! t_job p)) (t_req p)]> (hshare s).

Lemma undo_place eps s k p nid s4 :
  heap s !! t_id p = Some p -> t_status p = Pending -> t_node p = None -> jknown s p ->
  (forall n, nodes s !! nid = Some n -> n_tasks n !! t_id p = None) ->
  placed_state eps s p (placed_obj s k p nid) nid s4 ->
  let s' := unallocate_with s4 (placed_obj s k p nid) in
  hv s' = hv s /\ jv s' = jv s /\ nv s' = nv s /\ share_same (hshare s) (hshare s') /\
  stmts s' = stmts s4 /\ binds s' = binds s4 /\ evicts s' = evicts s4 /\ saved s' = saved s4.
Proof.
  intros Hl Hst Hnd Hjk Hoff (Hh4 & Hjv4 & Hjk4 & Hn4 & Hs4).
  set (p2 := placed_obj s k p nid).
  assert (Hst2 : t_id p2 = t_id p /\ t_job p2 = t_job p /\ t_sub p2 = t_sub p /\ t_req p2 = t_req p /\ t_node p2 = Some nid)
    by (unfold p2, placed_obj; destruct (bool_decide _); repeat split).
  destruct Hst2 as (Hid2 & Hjob2 & Hsub2 & Hreq2 & Hnode2).
  assert (Hl4 : heap s4 !! t_id p2 = Some p2) by (rewrite Hh4, Hid2; apply lookup_insert).
  assert (Hjk2 : jknown s4 p2).
  { specialize (Hjk4 p Hjk). eapply (jknown_fields s4 s4 p p2); auto. }
  destruct (unallocate_sk s4 p2 Hjk2 Hl4) as (Hh' & Hjv' & _ & Hn' & Hs' & Hrest).
  split; [|split; [|split; [|split; [|exact Hrest]]]].
  - unfold hv. rewrite Hh', Hh4, Hid2, insert_insert, fmap_insert. apply insert_id.
    rewrite lookup_fmap, Hl.
    change (Some (hview p) = Some (hview (set_node (if bool_decide (is_Some (jobs s4 !! t_job p2))
                                                     then set_status p2 Pending else p2) None))).
    f_equal. rewrite Hjob2, <- (found_jv s s4 _ (eq_sym Hjv4)).
    unfold p2, placed_obj, hview. destruct (bool_decide (is_Some (jobs s !! t_job p))); simpl; rewrite ?Hst, Hnd; reflexivity.
  - rewrite Hjv'. exact Hjv4.
  - unfold nv. rewrite Hn', Hnode2, Hid2. unfold rm_node.
    destruct Hn4 as [Hn4|(n & n' & q & En & Ea & Hn4)]; rewrite Hn4.
    + destruct (nodes s !! nid) as [n|] eqn:En; [|reflexivity].
      rewrite (node_remove_none n (t_id p)) by (apply Hoff; first [exact En|reflexivity]).
      rewrite insert_id by exact En. reflexivity.
    + rewrite lookup_insert, insert_insert, fmap_insert.
      assert (Hv : nview (node_remove n' (t_id p)) = nview n).
      { rewrite <- Hid2. eapply nview_add_remove; eauto. }
      rewrite Hv. apply insert_id. rewrite lookup_fmap, En. reflexivity.
  - rewrite Hs', Hs4, Hjob2, Hreq2, lookup_insert, insert_insert. simpl. apply share_add_sub.
Qed.

(* Statement.Allocate / Pipeline on the canonical object, completely characterised *)
Lemma place_sk eps s sid k p nid :
  ledger_inv s -> jknown s p -> heap s !! t_id p = Some p ->
  let f := bool_decide (is_Some (jobs s !! t_job p)) in
  let p2 := placed_obj s k p nid in
  exists (ok b : bool) (s4 : sess), placed_state eps s p p2 nid s4 /\
    stmts s4 = stmts s /\ binds s4 = binds s /\ evicts s4 = evicts s /\ saved s4 = saved s /\
    b = bool_decide (t_id p ∈ herr s) /\
    place_with eps s sid k p nid =
      if f && ok && negb b then (push_op s4 sid k (t_id p) Pending, ROk) else (unallocate_with s4 p2, RErr).
Proof.
  intros (Hh & Hjobs & Hnodes) Hjk Hl. cbv zeta. unfold place_with, placed_obj. fold (place_status k).
  destruct (update_sk s p (place_status k) Hjk Hl) as (f & s1 & -> & Hf & Hh1 & Hjv1 & Hjk1 & Ho1).
  rewrite <- Hf. apply others_inv in Ho1 as (Hn1 & Hs1 & Hl1 & He1 & _ & _ & Hb1 & Hev1 & Hst1 & Hsv1 & _).
  set (p1 := if f then set_status p (place_status k) else p).
  assert (Hp1 : t_id p1 = t_id p /\ t_job p1 = t_job p /\ t_req p1 = t_req p) by (unfold p1; destruct f; repeat split).
  destruct Hp1 as (Hid1 & Hjob1 & Hreq1).
  set (p2 := set_node p1 (Some nid)).
  cbv beta iota zeta. fold p2.
  assert (Hn2 : nodes (put_task s1 p2) = nodes s) by exact Hn1. rewrite Hn2.
  assert (Hh2 : heap (put_task s1 p2) = <[t_id p := p2]> (heap s)).
  { simpl. rewrite Hh1, Hid1, insert_insert. reflexivity. }
  assert (Hfail : exists s4, placed_state eps s p p2 nid s4 /\
            stmts s4 = stmts s /\ binds s4 = binds s /\ evicts s4 = evicts s /\ saved s4 = saved s /\
            (let '(herr_, s4') := h_alloc (put_task s1 p2) p2 in
             if f && false && negb herr_ then (push_op s4' sid k (t_id p) Pending, ROk) else (unallocate_with s4' p2, RErr)) =
            (unallocate_with s4 p2, RErr)).
  { eexists. split; [|split; [|split; [|split; [|split]]]]; cycle 5.
    - unfold h_alloc. rewrite andb_false_r. reflexivity.
    - split; [exact Hh2|]. split; [exact Hjv1|]. split; [exact Hjk1|]. split; [left; exact Hn1|].
      simpl. rewrite Hs1, Hjob1, Hreq1. reflexivity.
    - exact Hst1. - exact Hb1. - exact Hev1. - exact Hsv1. }
  destruct (nodes s !! nid) as [n|] eqn:En.
  - destruct (node_add eps n p2) as [[n' q]|e] eqn:Ea.
    + destruct (node_add_spec _ _ _ _ _ Ea) as (Hq & _). destruct (Hnodes _ _ En) as [Hnid _].
      rewrite Hnid in Hq. change (set_node p2 (Some nid)) with p2 in Hq. subst q.
      exists true, (bool_decide (t_id p ∈ herr s)). eexists.
      split; [|split; [|split; [|split; [|split; [|split; [reflexivity|]]]]]]; cycle 5.
      * unfold h_alloc. simpl. rewrite He1, Hid1, andb_true_r. reflexivity.
      * split; [simpl; rewrite Hh1, Hid1, !insert_insert; reflexivity|]. split; [exact Hjv1|]. split; [exact Hjk1|].
        split; [right; exists n, n', p2; split; [first [exact En|reflexivity]|]; split; [exact Ea|]; simpl; rewrite ?Hn1; reflexivity|].
        simpl. rewrite Hs1, Hjob1, Hreq1. reflexivity.
      * exact Hst1. * exact Hb1. * exact Hev1. * exact Hsv1.
    + destruct Hfail as (s4 & H1 & H2 & H3 & H4 & H5 & H6).
      exists false, (bool_decide (t_id p ∈ herr s)), s4. rewrite andb_false_r. simpl.
      repeat (split; [assumption|]). split; [reflexivity|]. rewrite <- H6. unfold h_alloc. rewrite !andb_false_r. reflexivity.
  - destruct Hfail as (s4 & H1 & H2 & H3 & H4 & H5 & H6).
    exists false, (bool_decide (t_id p ∈ herr s)), s4. rewrite andb_false_r. simpl.
    repeat (split; [assumption|]). split; [reflexivity|]. rewrite <- H6. unfold h_alloc. rewrite !andb_false_r. reflexivity.
Qed.
