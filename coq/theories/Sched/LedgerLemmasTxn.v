(* C07 proofs, part F: transactions.  A failed Statement.Allocate / Pipeline leaves no trace,
   Discard restores the session, Commit rolls a refused bind back; the binder / evictor logs
   move only in Commit, Session.Allocate and Session.Evict. *)
From stdpp Require Import gmap.
From Coq Require Import ZArith Lia.
From V Require Import Base.Res Base.ResLemmas Sched.LedgerModel Sched.StmtModel Sched.GangModel
  Sched.LedgerInvP Sched.LedgerInv Sched.LedgerLemmasA Sched.LedgerLemmasJob Sched.LedgerLemmasNode
  Sched.LedgerLemmasSess Sched.LedgerLemmasSk.
Open Scope Z_scope.

(* the standing assumption on a session *)
Definition sess_ok (s : sess) : Prop := ledger_inv s /\ sess_wf s /\ saved_ok s.

(* the task is a member of its job, filed under its own sub-job (true of every task that came
   through AddTaskInfo) *)
Definition jmember (j : job) (p : task) : Prop :=
  t_id p ∈ j_tasks j /\ j_task_sub j !! t_id p = Some (t_sub p) /\ t_sub p ∈ dom (j_subs j).

Lemma jmember_view j j' p : jview j = jview j' -> jmember j p -> jmember j' p.
Proof. unfold jview, jmember. intros [= -> -> ->]. tauto. Qed.

Lemma jmember_static j p q : t_id q = t_id p -> t_sub q = t_sub p -> jmember j p -> jmember j q.
Proof. unfold jmember. intros -> ->. tauto. Qed.

(* delete + re-add of a member keeps the job's skeleton *)
Lemma jview_readd j stored q :
  t_id stored = t_id q -> jmember j q -> jview (job_add (job_del j stored) q) = jview j.
Proof.
  intros Hid (Hin & Hts & Hd). unfold jview, job_add, job_del. simpl. rewrite Hid, Hts.
  apply elem_of_dom in Hd as [sj Hsj]. rewrite Hsj.
  f_equal; [f_equal|].
  - apply set_eq. intros x. rewrite elem_of_union, elem_of_difference, elem_of_singleton.
    destruct (decide (x = t_id q)) as [->|]; tauto.
  - rewrite insert_delete_insert. apply insert_id. exact Hts.
  - rewrite !dom_insert_L. apply set_eq. intros x. rewrite !elem_of_union, !elem_of_singleton.
    split; [|tauto]. intros [->|[->|H]]; try assumption; apply elem_of_dom; eauto.
Qed.

Lemma job_update_member h j p st :
  h !! t_id p = Some p -> jmember j p ->
  exists j', job_update h j p st = (j', set_status p st) /\ jview j' = jview j.
Proof.
  intros Hl Hm. unfold job_update. destruct Hm as (Hin & Hrest).
  rewrite bool_decide_eq_true_2 by exact Hin. rewrite Hl.
  eexists. split; [reflexivity|]. apply jview_readd; [reflexivity|]. split; assumption.
Qed.

Definition jknown (s : sess) (p : task) : Prop :=
  match jobs s !! t_job p with Some j => jmember j p | None => True end.

(* the fields the status update does not touch *)
Definition others (s : sess) :=
  (nodes s, hshare s, hlog s, herr s, refuse_bind s, refuse_evict s, binds s, evicts s, stmts s, saved s, job_ready s).

Lemma jv_insert_same s k j j' :
  jobs s !! k = Some j -> jview j' = jview j -> jv (upd_jobs s (<[k := j']> (jobs s))) = jv s.
Proof.
  intros Hj Hv. unfold jv. simpl. rewrite fmap_insert, Hv. apply insert_id. rewrite lookup_fmap, Hj. reflexivity.
Qed.

Lemma update_sk s p st :
  jknown s p -> heap s !! t_id p = Some p ->
  exists (f : bool) (s1 : sess), ssn_update_status s p st = (f, s1, if f then set_status p st else p) /\
    f = bool_decide (is_Some (jobs s !! t_job p)) /\
    heap s1 = <[t_id p := if f then set_status p st else p]> (heap s) /\
    jv s1 = jv s /\ (forall q, jknown s q -> jknown s1 q) /\ others s1 = others s.
Proof.
  intros Hjk Hl. unfold ssn_update_status, jknown in *. destruct (jobs s !! t_job p) as [j|] eqn:Ej.
  - destruct (job_update_member (heap s) j p st Hl Hjk) as (j' & -> & Hv).
    exists true. eexists. split; [reflexivity|]. split; [rewrite bool_decide_eq_true_2 by eauto; reflexivity|].
    split; [reflexivity|]. split; [apply (jv_insert_same s _ j j' Ej Hv)|]. split; [|reflexivity].
    intros q. unfold jknown. simpl. destruct (decide (t_job q = t_job p)) as [->|Hne].
    + rewrite lookup_insert, Ej. apply jmember_view. symmetry. exact Hv.
    + rewrite lookup_insert_ne by congruence. auto.
  - exists false, s. split; [reflexivity|]. split; [rewrite bool_decide_eq_false_2; [reflexivity|intros [? ?]; discriminate]|].
    split; [symmetry; apply insert_id; exact Hl|]. split; [reflexivity|]. split; [auto|reflexivity].
Qed.

Lemma others_inv s s' : others s' = others s ->
  nodes s' = nodes s /\ hshare s' = hshare s /\ hlog s' = hlog s /\ herr s' = herr s /\
  refuse_bind s' = refuse_bind s /\ refuse_evict s' = refuse_evict s /\ binds s' = binds s /\
  evicts s' = evicts s /\ stmts s' = stmts s /\ saved s' = saved s /\ job_ready s' = job_ready s.
Proof. unfold others. intros [= -> -> -> -> -> -> -> -> -> -> ->]. repeat split. Qed.

Definition rm_node (nds : gmap positive node) (onid : option positive) (i : positive) : gmap positive node :=
  match onid with
  | Some nid => match nds !! nid with Some n => <[nid := node_remove n i]> nds | None => nds end
  | None => nds
  end.

(* unallocate / unPipeline on the canonical object: what it does to every field *)
Lemma unallocate_sk s p :
  jknown s p -> heap s !! t_id p = Some p ->
  let s' := unallocate_with s p in
  let f := bool_decide (is_Some (jobs s !! t_job p)) in
  heap s' = <[t_id p := set_node (if f then set_status p Pending else p) None]> (heap s) /\
  jv s' = jv s /\ (forall q, jknown s q -> jknown s' q) /\
  nodes s' = rm_node (nodes s) (t_node p) (t_id p) /\
  hshare s' = <[t_job p := sub (default empty_res (hshare s !! t_job p)) (t_req p)]> (hshare s) /\
  stmts s' = stmts s /\ binds s' = binds s /\ evicts s' = evicts s /\ saved s' = saved s.
Proof.
  intros Hjk Hl. unfold unallocate_with.
  destruct (update_sk s p Pending Hjk Hl) as (f & s1 & -> & Hf & Hh1 & Hjv1 & Hjk1 & Ho1).
  rewrite <- Hf. apply others_inv in Ho1 as (Hn1 & Hs1 & Hl1 & _ & _ & _ & Hb1 & He1 & Hst1 & Hsv1 & _).
  set (p1 := if f then set_status p Pending else p).
  assert (Hp1 : t_node p1 = t_node p /\ t_id p1 = t_id p /\ t_job p1 = t_job p /\ t_req p1 = t_req p)
    by (unfold p1; destruct f; repeat split).
  destruct Hp1 as (Hnode1 & Hid1 & Hjob1 & Hreq1).
  unfold ssn_node_remove, rm_node. rewrite Hnode1, Hn1, Hid1.
  destruct (t_node p) as [nid|]; [destruct (nodes s !! nid) as [n|]|]; simpl;
    rewrite ?Hh1, ?Hid1, ?Hjob1, ?Hreq1, ?Hs1, ?insert_insert;
    (split; [reflexivity|]); (split; [exact Hjv1|]); (split; [exact Hjk1|]); repeat split; assumption.
Qed.

Lemma found_jv s s' k : jv s = jv s' ->
  bool_decide (is_Some (jobs s !! k)) = bool_decide (is_Some (jobs s' !! k)).
Proof.
  intros H. apply bool_decide_ext.
  assert (E : (jview <$> jobs s !! k) = (jview <$> jobs s' !! k)) by (unfold jv in H; rewrite <- !lookup_fmap, H; reflexivity).
  destruct (jobs s !! k), (jobs s' !! k); simpl in E; try discriminate; split; intros [? ?]; try discriminate; eauto.
Qed.

Lemma jknown_fields s s' p q :
  jobs s' = jobs s -> t_id q = t_id p -> t_job q = t_job p -> t_sub q = t_sub p -> jknown s p -> jknown s' q.
Proof.
  unfold jknown. intros -> Hi -> Hs. destruct (jobs s !! t_job p); [|auto]. apply jmember_static; assumption.
Qed.

Lemma jknown_jv s s' p : jv s = jv s' -> jknown s p -> jknown s' p.
Proof.
  intros H. unfold jknown.
  assert (E : (jview <$> jobs s !! t_job p) = (jview <$> jobs s' !! t_job p)) by (unfold jv in H; rewrite <- !lookup_fmap, H; reflexivity).
  destruct (jobs s !! t_job p) as [j|], (jobs s' !! t_job p) as [j'|]; simpl in E; try discriminate; auto.
  apply jmember_view. congruence.
Qed.

(* AddTask then RemoveTask of the same task gives the node's skeleton back *)
Lemma nview_add_remove eps n p n' p' :
  node_add eps n p = inl (n', p') -> nview (node_remove n' (t_id p)) = nview n.
Proof.
  intros Ha. destruct (node_add_spec _ _ _ _ _ Ha) as (_ & Hnone & Ht & Hid & Hhas & Hal & _).
  destruct (node_remove_fields n' (t_id p)) as (_ & Hh2 & Ha2 & Ht2).
  unfold nview. rewrite Hh2, Ha2, Ht2, Hhas, Hal, Ht, delete_insert by exact Hnone.
  destruct (n_has_node n) eqn:Hn; [reflexivity|].
  f_equal. revert Ha. unfold node_add. cbv zeta.
  case_bool_decide; [discriminate|]. case_bool_decide; [discriminate|]. rewrite Hn. simpl.
  intros [= <- _]. unfold node_remove. simpl. rewrite lookup_insert. simpl. rewrite Hn. reflexivity.
Qed.

Lemma share_add_sub sh k r :
  share_same sh (<[k := sub (add (default empty_res (sh !! k)) r) r]> sh).
Proof.
  intros k'. destruct (decide (k' = k)) as [->|Hne].
  - rewrite lookup_insert. simpl. apply res_eqv_sym, add_sub_eqv.
  - rewrite lookup_insert_ne by congruence. apply res_eqv_refl.
Qed.

Lemma share_same_refl sh : share_same sh sh.
Proof. intros k. apply res_eqv_refl. Qed.

Lemma sess_ok_place eps s sid k p nid :
  sess_ok s -> heap s !! t_id p = Some p -> sess_ok (fst (place_with eps s sid k p nid)).
Proof.
  intros (Hl & Hw & Hs) Hp. pose proof (good_init s Hl Hw Hs) as Hg.
  assert (Hpk : pok (table_of (heap s)) p) by (eapply good_heap_pok; eauto).
  pose proof (good_place eps _ s sid k p nid Hg Hpk) as Hg'.
  split; [exact (proj1 Hg')|]. split; [exact (proj1 (proj2 Hg'))|]. eapply good_saved_ok; eauto.
Qed.

Definition place_status (k : opkind) : status := match k with KAllocate => Allocated | _ => Pipelined end.

(* the object a placement of p on nid works with *)
Definition placed_obj (s : sess) (k : opkind) (p : task) (nid : positive) : task :=
  set_node (if bool_decide (is_Some (jobs s !! t_job p)) then set_status p (place_status k) else p) (Some nid).

(* [s4] is [s] after the "do" half of a placement of p on nid (status, node name, node ledger
   if the node took it, handler callback) *)
Definition placed_state eps (s : sess) (p p2 : task) (nid : positive) (s4 : sess) : Prop :=
  heap s4 = <[t_id p := p2]> (heap s) /\ jv s4 = jv s /\ (forall q, jknown s q -> jknown s4 q) /\
  (nodes s4 = nodes s \/
   exists n n' q, nodes s !! nid = Some n /\ node_add eps n p2 = inl (n', q) /\ nodes s4 = <[nid := n']> (nodes s)) /\
  hshare s4 = <[t_job p := add (default empty_res (hshare s !! t_job p)) (t_req p)]> (hshare s).

Lemma undo_place eps s k p nid s4 :
  heap s !! t_id p = Some p -> t_status p = Pending -> t_node p = None -> jknown s p ->
  (forall n, nodes s !! nid = Some n -> n_tasks n !! t_id p = None) ->
  placed_state eps s p (placed_obj s k p nid) nid s4 ->
  let s' := unallocate_with s4 (placed_obj s k p nid) in
  hv s' = hv s /\ jv s' = jv s /\ nv s' = nv s /\ share_same (hshare s) (hshare s') /\
  stmts s' = stmts s4 /\ binds s' = binds s4 /\ evicts s' = evicts s4 /\ saved s' = saved s4.
Proof.
  intros Hl Hst Hnd Hjk Hoff (Hh4 & Hjv4 & Hjk4 & Hn4 & Hs4).
  set (p2 := placed_obj s k p nid).
  assert (Hst2 : t_id p2 = t_id p /\ t_job p2 = t_job p /\ t_sub p2 = t_sub p /\ t_req p2 = t_req p /\ t_node p2 = Some nid)
    by (unfold p2, placed_obj; destruct (bool_decide _); repeat split).
  destruct Hst2 as (Hid2 & Hjob2 & Hsub2 & Hreq2 & Hnode2).
  assert (Hl4 : heap s4 !! t_id p2 = Some p2) by (rewrite Hh4, Hid2; apply lookup_insert).
  assert (Hjk2 : jknown s4 p2).
  { specialize (Hjk4 p Hjk). eapply (jknown_fields s4 s4 p p2); auto. }
  destruct (unallocate_sk s4 p2 Hjk2 Hl4) as (Hh' & Hjv' & _ & Hn' & Hs' & Hrest).
  split; [|split; [|split; [|split; [|exact Hrest]]]].
  - unfold hv. rewrite Hh', Hh4, Hid2, insert_insert, fmap_insert. apply insert_id.
    rewrite lookup_fmap, Hl.
    change (Some (hview p) = Some (hview (set_node (if bool_decide (is_Some (jobs s4 !! t_job p2))
                                                     then set_status p2 Pending else p2) None))).
    f_equal. rewrite Hjob2, <- (found_jv s s4 _ (eq_sym Hjv4)).
    unfold p2, placed_obj, hview. destruct (bool_decide (is_Some (jobs s !! t_job p))); simpl; rewrite ?Hst, Hnd; reflexivity.
  - rewrite Hjv'. exact Hjv4.
  - unfold nv. rewrite Hn', Hnode2, Hid2. unfold rm_node.
    destruct Hn4 as [Hn4|(n & n' & q & En & Ea & Hn4)]; rewrite Hn4.
    + destruct (nodes s !! nid) as [n|] eqn:En; [|reflexivity].
      rewrite (node_remove_none n (t_id p)) by (apply Hoff; first [exact En|reflexivity]).
      rewrite insert_id by exact En. reflexivity.
    + rewrite lookup_insert, insert_insert, fmap_insert.
      assert (Hv : nview (node_remove n' (t_id p)) = nview n).
      { rewrite <- Hid2. eapply nview_add_remove; eauto. }
      rewrite Hv. apply insert_id. rewrite lookup_fmap, En. reflexivity.
  - rewrite Hs', Hs4, Hjob2, Hreq2, lookup_insert, insert_insert. simpl. apply share_add_sub.
Qed.

(* Statement.Allocate / Pipeline on the canonical object, completely characterised *)
Lemma place_sk eps s sid k p nid :
  ledger_inv s -> jknown s p -> heap s !! t_id p = Some p ->
  let f := bool_decide (is_Some (jobs s !! t_job p)) in
  let p2 := placed_obj s k p nid in
  exists (ok b : bool) (s4 : sess), placed_state eps s p p2 nid s4 /\
    stmts s4 = stmts s /\ binds s4 = binds s /\ evicts s4 = evicts s /\ (saved s4 = saved s /\ refuse_bind s4 = refuse_bind s) /\
    b = bool_decide (t_id p ∈ herr s) /\
    place_with eps s sid k p nid =
      if f && ok && negb b then (push_op s4 sid k (t_id p) Pending, ROk) else (unallocate_with s4 p2, RErr).
Proof.
  intros (Hh & Hjobs & Hnodes) Hjk Hl. cbv zeta. unfold place_with, placed_obj. fold (place_status k).
  destruct (update_sk s p (place_status k) Hjk Hl) as (f & s1 & -> & Hf & Hh1 & Hjv1 & Hjk1 & Ho1).
  rewrite <- Hf. apply others_inv in Ho1 as (Hn1 & Hs1 & Hl1 & He1 & Hrb1 & _ & Hb1 & Hev1 & Hst1 & Hsv1 & _).
  set (p1 := if f then set_status p (place_status k) else p).
  assert (Hp1 : t_id p1 = t_id p /\ t_job p1 = t_job p /\ t_req p1 = t_req p) by (unfold p1; destruct f; repeat split).
  destruct Hp1 as (Hid1 & Hjob1 & Hreq1).
  set (p2 := set_node p1 (Some nid)).
  cbv beta iota zeta. fold p2.
  assert (Hn2 : nodes (put_task s1 p2) = nodes s) by exact Hn1. rewrite Hn2.
  assert (Hh2 : heap (put_task s1 p2) = <[t_id p := p2]> (heap s)).
  { simpl. rewrite Hh1, Hid1, insert_insert. reflexivity. }
  assert (Hfail : exists s4, placed_state eps s p p2 nid s4 /\
            stmts s4 = stmts s /\ binds s4 = binds s /\ evicts s4 = evicts s /\ (saved s4 = saved s /\ refuse_bind s4 = refuse_bind s) /\
            (let '(herr_, s4') := h_alloc (put_task s1 p2) p2 in
             if f && false && negb herr_ then (push_op s4' sid k (t_id p) Pending, ROk) else (unallocate_with s4' p2, RErr)) =
            (unallocate_with s4 p2, RErr)).
  { eexists. split; [|split; [|split; [|split; [|split]]]]; cycle 5.
    - unfold h_alloc. rewrite andb_false_r. reflexivity.
    - split; [exact Hh2|]. split; [exact Hjv1|]. split; [exact Hjk1|]. split; [left; exact Hn1|].
      simpl. rewrite Hs1, Hjob1, Hreq1. reflexivity.
    - exact Hst1. - exact Hb1. - exact Hev1. - split; [exact Hsv1|exact Hrb1]. }
  destruct (nodes s !! nid) as [n|] eqn:En.
  - destruct (node_add eps n p2) as [[n' q]|e] eqn:Ea.
    + destruct (node_add_spec _ _ _ _ _ Ea) as (Hq & _). destruct (Hnodes _ _ En) as [Hnid _].
      rewrite Hnid in Hq. change (set_node p2 (Some nid)) with p2 in Hq. subst q.
      exists true, (bool_decide (t_id p ∈ herr s)). eexists.
      split; [|split; [|split; [|split; [|split; [|split; [reflexivity|]]]]]]; cycle 5.
      * unfold h_alloc. simpl. rewrite He1, Hid1, andb_true_r. reflexivity.
      * split; [simpl; rewrite Hh1, Hid1, !insert_insert; reflexivity|]. split; [exact Hjv1|]. split; [exact Hjk1|].
        split; [right; exists n, n', p2; split; [first [exact En|reflexivity]|]; split; [exact Ea|]; simpl; rewrite ?Hn1; reflexivity|].
        simpl. rewrite Hs1, Hjob1, Hreq1. reflexivity.
      * exact Hst1. * exact Hb1. * exact Hev1. * split; [exact Hsv1|exact Hrb1].
    + destruct Hfail as (s4 & H1 & H2 & H3 & H4 & H5 & H6).
      exists false, (bool_decide (t_id p ∈ herr s)), s4. rewrite andb_false_r. simpl.
      repeat (split; [assumption|]). split; [reflexivity|]. rewrite <- H6. unfold h_alloc. rewrite !andb_false_r. reflexivity.
  - destruct Hfail as (s4 & H1 & H2 & H3 & H4 & H5 & H6).
    exists false, (bool_decide (t_id p ∈ herr s)), s4. rewrite andb_false_r. simpl.
    repeat (split; [assumption|]). split; [reflexivity|]. rewrite <- H6. unfold h_alloc. rewrite !andb_false_r. reflexivity.
Qed.

(* the call sites' precondition of Allocate / Pipeline: a Pending task on no node (here: not on
   the target node), member of its job if the session knows the job *)
Definition placeable (s : sess) (p : task) (nid : positive) : Prop :=
  heap s !! t_id p = Some p /\ t_status p = Pending /\ t_node p = None /\ jknown s p /\
  (forall n, nodes s !! nid = Some n -> n_tasks n !! t_id p = None).

(* 4. a failed Statement.Allocate / Pipeline (unknown job, unknown node, node refusing the task,
   handler error) leaves no trace *)
Theorem failed_place_no_trace eps s sid k p nid s' :
  sess_ok s -> placeable s p nid ->
  place_with eps s sid k p nid = (s', RErr) ->
  sess_eqv s s' /\ stmts s' = stmts s /\ binds s' = binds s /\ evicts s' = evicts s /\ saved s' = saved s.
Proof.
  intros Hok (Hl & Hst & Hnd & Hjk & Hoff) Hplace.
  pose proof (sess_ok_place eps s sid k p nid Hok Hl) as Hok'. rewrite Hplace in Hok'. simpl in Hok'.
  destruct (place_sk eps s sid k p nid (proj1 Hok) Hjk Hl) as (ok & b & s4 & Hps & Hst4 & Hb4 & He4 & (Hsv4 & _) & _ & Heq).
  rewrite Heq in Hplace. destruct (_ && negb b); [discriminate|]. injection Hplace as <-.
  destruct (undo_place eps s k p nid s4 Hl Hst Hnd Hjk Hoff Hps) as (H1 & H2 & H3 & H4 & H5 & H6 & H7 & H8).
  split; [apply sk_sess_eqv; auto; [exact (proj1 Hok)|exact (proj1 Hok')]|].
  split; [congruence|]. split; [congruence|]. split; congruence.
Qed.

Lemma sess_ok_step eps s o : sess_ok s -> sess_ok (fst (step eps s o)).
Proof. intros (Hl & Hw & Hs). apply ledger_inv_step; assumption. Qed.

Lemma discard_single eps s sid o :
  default [] (stmts s !! sid) = [o] -> stmt_discard eps s sid = (let s' := undo_op eps s o in upd_stmts s' (<[sid := []]> (stmts s'))).
Proof. intros H. unfold stmt_discard. rewrite H. reflexivity. Qed.

(* 5a / 6. Discard of a statement holding one Allocate / Pipeline restores the session; a bind
   refused in Commit does the same *)
Theorem discard_restores_place eps s sid k p nid s1 :
  sess_ok s -> placeable s p nid -> k <> KEvict -> default [] (stmts s !! sid) = [] ->
  place_with eps s sid k p nid = (s1, ROk) ->
  sess_eqv s (stmt_discard eps s1 sid) /\ sess_eqv s (undo_op eps s1 (mkOp k (t_id p) Pending)) /\
  binds (stmt_discard eps s1 sid) = binds s /\ evicts (stmt_discard eps s1 sid) = evicts s /\
  (t_id p ∈ refuse_bind s -> k = KAllocate ->
     commit_op eps s1 (mkOp k (t_id p) Pending) = undo_op eps s1 (mkOp k (t_id p) Pending)).
Proof.
  intros Hok (Hl & Hst & Hnd & Hjk & Hoff) Hk Hemp Hplace.
  pose proof (sess_ok_place eps s sid k p nid Hok Hl) as Hok1. rewrite Hplace in Hok1. simpl in Hok1.
  destruct (place_sk eps s sid k p nid (proj1 Hok) Hjk Hl) as (ok & b & s4 & Hps & Hst4 & Hb4 & He4 & (Hsv4 & Hrb4) & _ & Heq).
  rewrite Heq in Hplace. destruct (_ && negb b); [|discriminate]. injection Hplace as <-.
  set (s1 := push_op s4 sid k (t_id p) Pending) in *.
  set (p2 := placed_obj s k p nid).
  assert (Hid2 : t_id p2 = t_id p) by (unfold p2, placed_obj; destruct (bool_decide _); reflexivity).
  assert (Hps1 : placed_state eps s p p2 nid s1) by exact Hps.
  assert (Hl1 : heap s1 !! t_id p = Some p2) by (destruct Hps1 as (-> & _); apply lookup_insert).
  assert (Hundo : undo_op eps s1 (mkOp k (t_id p) Pending) = unallocate_with s1 p2).
  { unfold undo_op. cbn [op_task op_kind]. rewrite Hl1. destruct k; [congruence|reflexivity|reflexivity]. }
  destruct (undo_place eps s k p nid s1 Hl Hst Hnd Hjk Hoff Hps1) as (H1 & H2 & H3 & H4 & H5 & H6 & H7 & H8).
  fold p2 in H1, H2, H3, H4, H5, H6, H7, H8. rewrite <- Hundo in *.
  assert (Hops : default [] (stmts s1 !! sid) = [mkOp k (t_id p) Pending]).
  { unfold s1, push_op. simpl. rewrite lookup_insert. simpl. rewrite Hst4, Hemp. reflexivity. }
  pose proof (sess_ok_step eps s1 (ODiscard sid) Hok1) as Hok2. simpl in Hok2.
  rewrite (discard_single eps s1 sid _ Hops) in *. cbv zeta in *.
  split; [|split; [|split; [|split]]].
  - apply sk_sess_eqv; [exact (proj1 Hok)|exact (proj1 Hok2)|symmetry; exact H1|symmetry; exact H2|symmetry; exact H3|exact H4].
  - apply sk_sess_eqv; [exact (proj1 Hok)|exact (proj1 Hok2)|symmetry; exact H1|symmetry; exact H2|symmetry; exact H3|exact H4].
  - simpl. rewrite H6. simpl. exact Hb4.
  - simpl. rewrite H7. simpl. exact He4.
  - intros Hr ->. rewrite Hundo. unfold commit_op. cbn [op_task op_kind]. rewrite Hl1, Hid2.
    rewrite bool_decide_eq_true_2; [reflexivity|]. change (refuse_bind s1) with (refuse_bind s4). rewrite Hrb4. exact Hr.
Qed.

(* ---------- 3. nothing of an undecided transaction reaches the binder / evictor ---------- *)

Definition lg (s : sess) := (binds s, evicts s).

Lemma lg_update s p st f s' p' : ssn_update_status s p st = (f, s', p') -> lg s' = lg s.
Proof.
  unfold ssn_update_status. destruct (jobs s !! t_job p); [destruct (job_update _ _ _ _)|]; intros [= <- <- <-]; reflexivity.
Qed.

Lemma lg_node_update eps s p s' p' f : ssn_node_update eps s p = (s', p', f) -> lg s' = lg s.
Proof.
  unfold ssn_node_update. destruct (t_node p); [destruct (nodes s !! _); [destruct (node_update _ _ _) as [[? ?]|?]|]|];
    intros [= <- <- <-]; reflexivity.
Qed.

Lemma lg_node_remove s p : lg (ssn_node_remove s p) = lg s.
Proof. unfold ssn_node_remove. destruct (t_node p); [destruct (nodes s !! _)|]; reflexivity. Qed.

Lemma lg_unallocate s p : lg (unallocate_with s p) = lg s.
Proof.
  unfold unallocate_with. destruct (ssn_update_status s p Pending) as [[f s1] p1] eqn:E.
  apply lg_update in E. change (lg (ssn_node_remove s1 p1) = lg s). rewrite lg_node_remove. exact E.
Qed.

Lemma lg_unevict eps s p prev : lg (fst (unevict_with eps s p prev)) = lg s.
Proof.
  unfold unevict_with. destruct (ssn_update_status s p _) as [[f s1] p1] eqn:E. apply lg_update in E.
  destruct (ssn_node_update eps s1 p1) as [[s2 p2] ft] eqn:E2. apply lg_node_update in E2.
  simpl. change (lg s2 = lg s). congruence.
Qed.

Lemma lg_evict_with eps s sid p prev : lg (fst (stmt_evict_with eps s sid p prev)) = lg s.
Proof.
  unfold stmt_evict_with. destruct (ssn_update_status s p _) as [[f s1] p1] eqn:E. apply lg_update in E.
  destruct (ssn_node_update eps s1 p1) as [[s2 p2] ft] eqn:E2. apply lg_node_update in E2.
  simpl. change (lg s2 = lg s). congruence.
Qed.

Lemma lg_place eps s sid k p nid : lg (fst (place_with eps s sid k p nid)) = lg s.
Proof.
  unfold place_with. destruct (ssn_update_status s p _) as [[f s1] p1] eqn:E. apply lg_update in E.
  set (p2 := set_node p1 (Some nid)). set (s2 := put_task s1 p2).
  assert (H3 : forall s3 p3 ok,
     match nodes s2 !! nid with
     | Some n => match node_add eps n p2 with
                 | inl (n', p') => (put_task (upd_nodes s2 (<[nid := n']> (nodes s2))) p', p', true)
                 | inr _ => (s2, p2, false)
                 end
     | None => (s2, p2, false)
     end = (s3, p3, ok) -> lg s3 = lg s).
  { intros s3 p3 ok. destruct (nodes s2 !! nid); [destruct (node_add _ _ _) as [[? ?]|?]|]; intros [= <- <- <-]; exact E. }
  destruct (match nodes s2 !! nid with Some n => _ | None => _ end) as [[s3 p3] ok] eqn:E3.
  specialize (H3 _ _ _ eq_refl). unfold h_alloc. cbv beta iota zeta.
  destruct (f && ok && negb _); simpl; [exact H3|]. rewrite lg_unallocate. exact H3.
Qed.

Lemma lg_fold (f : sess -> oprec -> sess) l s : (forall s o, lg (f s o) = lg s) -> lg (fold_left f l s) = lg s.
Proof. intros Hf. revert s. induction l as [|o l IH]; simpl; intros s; [reflexivity|]. rewrite IH. apply Hf. Qed.

Lemma lg_undo eps s o : lg (undo_op eps s o) = lg s.
Proof.
  unfold undo_op. destruct (heap s !! op_task o); [|reflexivity].
  destruct (op_kind o); [apply lg_unevict|apply lg_unallocate|apply lg_unallocate].
Qed.

Lemma lg_recover_ops eps l s sid : lg (fst (recover_ops eps s sid l)) = lg s.
Proof.
  revert s. induction l as [|o r IH]; intros s; [reflexivity|]. simpl. destruct (so_kind o).
  - destruct (stmt_evict_with eps s sid (so_task o) _) as [s1 res] eqn:E. rewrite IH.
    change s1 with (fst (s1, res)). rewrite <- E. apply lg_evict_with.
  - destruct (t_node (so_task o)) as [nid|]; [|reflexivity].
    destruct (place_with eps s sid KPipeline (so_task o) nid) as [s1 res] eqn:E.
    assert (H1 : lg s1 = lg s) by (change s1 with (fst (s1, res)); rewrite <- E; apply lg_place).
    destruct res; try exact H1. rewrite IH. exact H1.
  - destruct (t_node (so_task o)) as [nid|]; [|reflexivity].
    destruct (place_with eps s sid KAllocate (so_task o) nid) as [s1 res] eqn:E.
    assert (H1 : lg s1 = lg s) by (change s1 with (fst (s1, res)); rewrite <- E; apply lg_place).
    destruct res; try exact H1. rewrite IH. exact H1.
Qed.

Lemma lg_ssn_pipeline eps jr s tid nid : lg (fst (ssn_place_with eps jr s KPipeline tid nid)) = lg s.
Proof.
  unfold ssn_place_with. destruct (heap s !! tid) as [p|]; [|reflexivity].
  destruct (ssn_update_status s p _) as [[f s1] p1] eqn:E. apply lg_update in E.
  destruct f; cbn [negb]; [|reflexivity].
  set (p2 := set_node p1 (Some nid)). set (s2 := put_task s1 p2).
  assert (Hrev : lg (let '(_, sr, pr) := ssn_update_status s2 p2 Pending in put_task sr (set_node pr None)) = lg s).
  { destruct (ssn_update_status s2 p2 Pending) as [[fr sr] pr] eqn:Er. apply lg_update in Er.
    change (lg sr = lg s). rewrite Er. exact E. }
  destruct (nodes s2 !! nid); [|exact Hrev]. destruct (node_add _ _ _) as [[n' p3]|?]; [|exact Hrev].
  unfold h_alloc. exact E.
Qed.

Definition touches_cache (o : op) : bool :=
  match o with OCommit _ | OSsnAllocate _ _ | OSsnEvict _ => true | _ => false end.

Theorem undecided_invisible eps s o :
  touches_cache o = false ->
  binds (fst (step eps s o)) = binds s /\ evicts (fst (step eps s o)) = evicts s.
Proof.
  intros Ht. assert (H : lg (fst (step eps s o)) = lg s); [|unfold lg in H; inversion H; auto].
  destruct o; try discriminate; simpl.
  - unfold stmt_allocate, with_task. destruct (heap s !! tid); [apply lg_place|reflexivity].
  - unfold stmt_pipeline, with_task. destruct (heap s !! tid); [apply lg_place|reflexivity].
  - unfold stmt_evict, with_task. destruct (heap s !! tid); [apply lg_evict_with|reflexivity].
  - unfold stmt_evict_clone. destruct (heap s !! tid) as [p|]; [|reflexivity].
    destruct (t_node p); [|reflexivity]. destruct (nodes s !! _) as [n|]; [|reflexivity].
    destruct (n_tasks n !! tid); [apply lg_evict_with|reflexivity].
  - unfold stmt_unpipeline, with_task. destruct (heap s !! tid); [apply lg_unallocate|reflexivity].
  - unfold stmt_discard. change (lg (fold_left (undo_op eps) (rev (default [] (stmts s !! sid))) s) = lg s).
    apply lg_fold. intros. apply lg_undo.
  - unfold stmt_merge. case_bool_decide; reflexivity.
  - reflexivity.
  - unfold stmt_recover. destruct (recover_ops eps s sid _) as [s1 r] eqn:E. simpl.
    change (lg s1 = lg s). change s1 with (fst (s1, r)). rewrite <- E. apply lg_recover_ops.
  - apply lg_ssn_pipeline.
  - reflexivity.
  - reflexivity.
  - reflexivity.
Qed.

(* ---------- 4b. Session.Allocate / Pipeline that cannot place the task ---------- *)

Lemma sess_eqv_refl s : sess_eqv s s.
Proof.
  split; [|split; [|split]].
  - intros i. destruct (heap s !! i); constructor. repeat split.
  - intros i. destruct (jobs s !! i) as [j|]; constructor.
    split; [reflexivity|]. split; [reflexivity|]. split; [apply res_eqv_refl|]. split; [apply res_eqv_refl|].
    split; [reflexivity|]. intros k. destruct (j_subs j !! k); constructor. split; reflexivity.
  - intros i. destruct (nodes s !! i) as [n|]; constructor.
    repeat (split; [apply res_eqv_refl|]). intros k. destruct (n_tasks n !! k); constructor. repeat split.
  - apply share_same_refl.
Qed.

Theorem failed_ssn_place_no_trace_cause eps jr s k p nid :
  sess_ok s -> heap s !! t_id p = Some p -> t_status p = Pending -> t_node p = None -> jknown s p ->
  (jobs s !! t_job p = None \/ nodes s !! nid = None \/
   exists n e, nodes s !! nid = Some n /\ node_add eps n (placed_obj s k p nid) = inr e) ->
  let r := ssn_place_with eps jr s k (t_id p) nid in
  snd r = RErr /\ sess_eqv s (fst r) /\ binds (fst r) = binds s /\ evicts (fst r) = evicts s /\
  stmts (fst r) = stmts s /\ hlog (fst r) = hlog s.
Proof.
  intros Hok Hl Hst Hnd Hjk Hcause. cbv zeta.
  assert (Hinv' : ledger_inv (fst (ssn_place_with eps jr s k (t_id p) nid))).
  { destruct Hok as (Hl0 & Hw & Hs). exact (proj1 (good_ssn_place eps _ jr s k (t_id p) nid (good_init s Hl0 Hw Hs))). }
  revert Hinv'. unfold ssn_place_with. rewrite Hl. fold (place_status k).
  destruct (update_sk s p (place_status k) Hjk Hl) as (f & s1 & -> & Hf & Hh1 & Hjv1 & Hjk1 & Ho1).
  destruct f; cbn [negb]; [|intros _; repeat split; apply sess_eqv_refl].
  apply others_inv in Ho1 as (Hn1 & Hs1 & Hl1 & He1 & Hrb1 & _ & Hb1 & Hev1 & Hst1 & Hsv1 & _).
  assert (Hfound : bool_decide (is_Some (jobs s !! t_job p)) = true) by (symmetry; exact Hf).
  set (p2 := set_node (set_status p (place_status k)) (Some nid)).
  assert (Hp2 : placed_obj s k p nid = p2) by (unfold placed_obj; rewrite Hfound; reflexivity).
  set (s2 := put_task s1 p2).
  assert (Hl2 : heap s2 !! t_id p2 = Some p2) by (simpl; apply lookup_insert).
  assert (Hjk2 : jknown s2 p2) by (eapply (jknown_fields s1 s2 p p2); auto).
  destruct (update_sk s2 p2 Pending Hjk2 Hl2) as (f' & sr & Er & Hf' & Hhr & Hjvr & _ & Hor).
  apply others_inv in Hor as (Hnr & Hsr & Hlr & _ & _ & _ & Hbr & Hevr & Hstr & _ & _).
  assert (Hf'' : f' = true).
  { rewrite Hf'. change (jobs s2) with (jobs s1). rewrite <- (found_jv s s1 _ (eq_sym Hjv1)). exact Hfound. }
  clear Hf'. subst f'.
  assert (Hnode : nodes s2 !! nid = None \/ exists n e, nodes s2 !! nid = Some n /\ node_add eps n p2 = inr e).
  { change (nodes s2) with (nodes s1). rewrite Hn1, <- Hp2.
    destruct Hcause as [Hc|[Hc|Hc]]; [|left; exact Hc|right; exact Hc].
    exfalso. rewrite Hc in Hfound. rewrite bool_decide_eq_false_2 in Hfound; [discriminate|]. intros [? ?]; discriminate. }
  assert (Hres : match nodes s2 !! nid with
                 | Some n => match node_add eps n p2 with inl _ => False | inr _ => True end
                 | None => True end).
  { destruct Hnode as [->|(n & e & -> & ->)]; exact I. }
  set (srev := put_task sr (set_node (set_status p2 Pending) None)).
  assert (Hgoal : ledger_inv srev -> sess_eqv s srev /\ binds srev = binds s /\ evicts srev = evicts s /\
                  stmts srev = stmts s /\ hlog srev = hlog s).
  { assert (Hb2 : binds sr = binds s) by (rewrite Hbr; exact Hb1).
    assert (Hev2 : evicts sr = evicts s) by (rewrite Hevr; exact Hev1).
    assert (Hst2 : stmts sr = stmts s) by (rewrite Hstr; exact Hst1).
    assert (Hlg2 : hlog sr = hlog s) by (rewrite Hlr; exact Hl1).
    intros Hinv. split; [|unfold srev; simpl; repeat split; assumption].
    apply sk_sess_eqv; [exact (proj1 Hok)|exact Hinv| | | |].
    - unfold hv, srev. simpl. rewrite Hhr. simpl. rewrite Hh1, !insert_insert, fmap_insert.
      symmetry. apply insert_id. rewrite lookup_fmap, Hl. simpl. unfold hview. simpl. rewrite Hst, Hnd. reflexivity.
    - unfold srev. change (jv s = jv sr). rewrite Hjvr. change (jv s = jv s1). congruence.
    - unfold nv, srev. simpl. rewrite Hnr. simpl. rewrite Hn1. reflexivity.
    - unfold srev. simpl. rewrite Hsr. simpl. rewrite Hs1. apply share_same_refl. }
  fold p2. fold s2. rewrite Er.
  destruct (nodes s2 !! nid) as [n|]; [destruct (node_add eps n p2) as [[? ?]|e]; [contradiction|]|];
    simpl; intros Hinv; (split; [reflexivity|]); apply Hgoal; exact Hinv.
Qed.

(* ---------- 5b. Evict then Discard ---------- *)

Definition nv4 (n : node) := if n_has_node n then None else Some (n_idle n, n_used n, n_releasing n, n_pipelined n).

Lemma nv4_remove n i : nv4 (node_remove n i) = nv4 n.
Proof.
  unfold node_remove, nv4. destruct (n_tasks n !! i) as [c|]; [|reflexivity].
  destruct (n_has_node n) eqn:Hn; simpl; [destruct (t_status c); simpl; rewrite Hn; reflexivity|rewrite Hn; reflexivity].
Qed.

Lemma nv4_add eps n p n' q : node_add eps n p = inl (n', q) -> nv4 n' = nv4 n.
Proof.
  unfold node_add, nv4. cbv zeta. case_bool_decide; [discriminate|]. case_bool_decide; [discriminate|].
  destruct (n_has_node n) eqn:Hn; simpl.
  - destruct (t_status p); try (intros [= <- _]; simpl; rewrite Hn; reflexivity).
    destruct (less_equal_names _ _ _ _); [|discriminate]. intros [= <- _]; simpl; rewrite Hn; reflexivity.
  - intros [= <- _]; simpl; rewrite Hn; reflexivity.
Qed.

Lemma set_node_id p x : t_node p = x -> set_node p x = p.
Proof. destruct p; simpl; intros ->; reflexivity. Qed.

Lemma node_update_ok eps n p :
  t_node p = Some (n_id n) -> t_status p <> Binding ->
  exists n', node_update eps n p = inl (n', p) /\ n_id n' = n_id n /\
    nview n' = (n_has_node n, n_alloc n, <[t_id p := hview p]> (hview <$> n_tasks n), nv4 n).
Proof.
  intros Hnode Hst. destruct (node_remove_fields n (t_id p)) as (Hid & Hhas & Hal & Hts).
  assert (Hex : exists n' q, node_update eps n p = inl (n', q)).
  { unfold node_update, node_add. cbv zeta. rewrite Hid, Hts, lookup_delete.
    rewrite bool_decide_eq_false_2 by (intros [_ H]; apply H; exact Hnode).
    rewrite bool_decide_eq_false_2 by (intros [? ?]; discriminate).
    destruct (negb _); [eauto|]. destruct (t_status p); eauto. contradiction. }
  destruct Hex as (n' & q & Hu). pose proof Hu as Hu'. unfold node_update in Hu'.
  destruct (node_add_spec _ _ _ _ _ Hu') as (Hq & _ & Ht' & Hid' & Hhas' & Hal' & _).
  rewrite Hid in Hq. rewrite (set_node_id p _ Hnode) in Hq. subst q.
  exists n'. split; [exact Hu|]. split; [congruence|].
  change (nview n') with (n_has_node n', n_alloc n', hview <$> n_tasks n', nv4 n').
  rewrite Hhas', Hal', Ht', Hhas, Hal, Hts, Hid, (set_node_id p _ Hnode), (nv4_add _ _ _ _ _ Hu'), nv4_remove.
  rewrite fmap_insert, fmap_delete, insert_delete_insert. reflexivity.
Qed.

Lemma ssn_node_update_ok eps s p nid n :
  t_node p = Some nid -> nodes s !! nid = Some n -> n_id n = nid -> t_status p <> Binding ->
  exists n', ssn_node_update eps s p = (put_task (upd_nodes s (<[nid := n']> (nodes s))) p, p, false) /\
    n_id n' = nid /\
    nview n' = (n_has_node n, n_alloc n, <[t_id p := hview p]> (hview <$> n_tasks n), nv4 n).
Proof.
  intros Hnode Hn Hid Hst. rewrite <- Hid in Hnode.
  destruct (node_update_ok eps n p Hnode Hst) as (n' & Hu & Hid' & Hv).
  exists n'. unfold ssn_node_update. rewrite Hnode, Hid, Hn, Hu. split; [reflexivity|]. split; [congruence|exact Hv].
Qed.

(* the call sites' precondition of Evict: a Running or Bound task on its node (the node's copy in
   step with the task), whose request the handler's share covers *)
Definition evictable (s : sess) (p : task) (nid : positive) : Prop :=
  heap s !! t_id p = Some p /\ (t_status p = Running \/ t_status p = Bound) /\ t_node p = Some nid /\
  jknown s p /\
  (exists n c, nodes s !! nid = Some n /\ n_tasks n !! t_id p = Some c /\ hview c = hview p) /\
  covers (default empty_res (hshare s !! t_job p)) (t_req p).

Lemma share_sub_add sh k r :
  covers (default empty_res (sh !! k)) r ->
  share_same sh (<[k := add (sub (default empty_res (sh !! k)) r) r]> sh).
Proof.
  intros Hc k'. destruct (decide (k' = k)) as [->|Hne].
  - rewrite lookup_insert. simpl. apply res_eqv_amt. intros d. rewrite amt_add, amt_sub_covers by exact Hc. lia.
  - rewrite lookup_insert_ne by congruence. apply res_eqv_refl.
Qed.

Theorem discard_restores_evict eps s sid p nid :
  sess_ok s -> evictable s p nid -> default [] (stmts s !! sid) = [] ->
  let r := stmt_evict_with eps s sid p None in
  snd r = ROk /\ sess_eqv s (stmt_discard eps (fst r) sid) /\
  binds (stmt_discard eps (fst r) sid) = binds s /\ evicts (stmt_discard eps (fst r) sid) = evicts s.
Proof.
  intros Hok (Hl & Hstp & Hnd & Hjk & (n & c & Hn & Hc & Hcv) & Hcov) Hemp. cbv zeta.
  pose proof (sess_ok_step eps s (OEvict sid (t_id p)) Hok) as Hok1.
  simpl in Hok1. unfold stmt_evict, with_task in Hok1. rewrite Hl in Hok1.
  pose proof (sess_ok_step eps _ (ODiscard sid) Hok1) as Hok2. simpl in Hok2.
  assert (Hlg : lg (stmt_discard eps (fst (stmt_evict_with eps s sid p None)) sid) = lg s).
  { pose proof (undecided_invisible eps (fst (stmt_evict_with eps s sid p None)) (ODiscard sid) eq_refl) as [H1 H2].
    transitivity (lg (fst (stmt_evict_with eps s sid p None))); [|apply lg_evict_with].
    unfold lg. f_equal; [exact H1|exact H2]. }
  revert Hok2 Hlg. clear Hok1.
  destruct Hok as (Hinv & Hw & Hsv). pose proof Hinv as (_ & _ & Hnodes). destruct (Hnodes _ _ Hn) as [Hnid _].
  unfold stmt_evict_with.
  destruct (update_sk s p Releasing Hjk Hl) as (f & s1 & -> & Hf & Hh1 & Hjv1 & Hjk1 & Ho1).
  apply others_inv in Ho1 as (Hn1 & Hs1 & _ & _ & _ & _ & _ & _ & Hst1 & _ & _).
  set (p1 := if f then set_status p Releasing else p).
  assert (Hp1 : t_id p1 = t_id p /\ t_job p1 = t_job p /\ t_req p1 = t_req p /\ t_sub p1 = t_sub p /\
                t_node p1 = Some nid /\ t_status p1 <> Binding).
  { unfold p1. destruct f; simpl; repeat split; try assumption; [discriminate|]. destruct Hstp as [-> | ->]; discriminate. }
  destruct Hp1 as (Hid1 & Hjob1 & Hreq1 & Hsub1 & Hnode1 & Hnb1).
  assert (Hn1' : nodes s1 !! nid = Some n) by (rewrite Hn1; exact Hn).
  destruct (ssn_node_update_ok eps s1 p1 nid n Hnode1 Hn1' Hnid Hnb1) as (n1 & -> & Hnid1 & Hv1).
  cbv beta iota zeta. cbn [fst snd]. change (default (t_status p) None) with (t_status p).
  intros Hok2 Hlg. split; [reflexivity|]. revert Hok2 Hlg.
  set (s3 := push_op (h_dealloc (put_task (upd_nodes s1 (<[nid:=n1]> (nodes s1))) p1) p1) sid KEvict (t_id p) (t_status p)).
  assert (Hops : default [] (stmts s3 !! sid) = [mkOp KEvict (t_id p) (t_status p)]).
  { unfold s3, push_op. simpl. rewrite lookup_insert. simpl. rewrite Hst1, Hemp. reflexivity. }
  rewrite (discard_single eps s3 sid _ Hops). cbv zeta.
  assert (Hl3 : heap s3 !! t_id p = Some p1) by (simpl; rewrite <- Hid1; apply lookup_insert).
  unfold undo_op. cbn [op_task op_kind op_prev]. rewrite Hl3. unfold unevict_with.
  assert (Hrs : restore_status (t_status p) = t_status p) by (destruct Hstp as [-> | ->]; reflexivity).
  rewrite Hrs.
  assert (Hl3' : heap s3 !! t_id p1 = Some p1) by (rewrite Hid1; exact Hl3).
  assert (Hjk3 : jknown s3 p1) by (eapply (jknown_fields s1 s3 p p1); auto).
  destruct (update_sk s3 p1 (t_status p) Hjk3 Hl3') as (f' & s4 & -> & Hf' & Hh4 & Hjv4 & _ & Ho4).
  assert (Hff : f' = f).
  { rewrite Hf', Hf, Hjob1. change (jobs s3) with (jobs s1). symmetry. apply found_jv. symmetry. exact Hjv1. }
  clear Hf'. subst f'.
  apply others_inv in Ho4 as (Hn4 & Hs4 & _ & _ & _ & _ & _ & _ & _ & _ & _).
  set (p4 := if f then set_status p1 (t_status p) else p1).
  assert (Hp4 : t_id p4 = t_id p /\ t_job p4 = t_job p /\ t_req p4 = t_req p /\ t_node p4 = Some nid /\
                t_status p4 <> Binding /\ hview p4 = hview p).
  { unfold p4, p1. destruct f; simpl; repeat split; try assumption; unfold hview; simpl;
      try (destruct Hstp as [-> | ->]; discriminate); rewrite ?Hnd; reflexivity. }
  destruct Hp4 as (Hid4 & Hjob4 & Hreq4 & Hnode4 & Hnb4 & Hv4).
  assert (Hn4' : nodes s4 !! nid = Some n1) by (rewrite Hn4; simpl; apply lookup_insert).
  destruct (ssn_node_update_ok eps s4 p4 nid n1 Hnode4 Hn4' Hnid1 Hnb4) as (n2 & -> & Hnid2 & Hv2).
  cbv beta iota zeta. unfold h_alloc. cbn [fst snd].
  intros Hok2 Hlg. split; [|unfold lg in Hlg; inversion Hlg; auto].
  apply sk_sess_eqv; [exact Hinv|exact (proj1 Hok2)| | | |].
  - unfold hv. simpl. rewrite Hh4. simpl. rewrite Hh1, Hid4, Hid1, !insert_insert, fmap_insert, Hv4.
    symmetry. apply insert_id. rewrite lookup_fmap, Hl. reflexivity.
  - change (jv s = jv s4). rewrite Hjv4. change (jv s = jv s1). congruence.
  - unfold nv. simpl. rewrite Hn4. simpl. rewrite Hn1, !insert_insert, fmap_insert, Hv2.
    symmetry. apply insert_id. rewrite lookup_fmap, Hn. simpl. f_equal.
    assert (Hx : nview n1 = (n_has_node n, n_alloc n, <[t_id p1 := hview p1]> (hview <$> n_tasks n), nv4 n)) by exact Hv1.
    inversion Hx as [[Ha Hb Hc' Hd]]. unfold nview at 1. fold (nv4 n). f_equal; [f_equal|]; try congruence.
    + rewrite Hc', Hid4, Hid1, insert_insert, Hv4. symmetry. apply insert_id. rewrite lookup_fmap, Hc. simpl. congruence.
    + symmetry. unfold nv4 at 1. exact Hd.
  - simpl. rewrite Hs4. simpl. rewrite Hs1, Hjob4, Hjob1, Hreq4, Hreq1, lookup_insert, insert_insert. simpl.
    apply share_sub_add. exact Hcov.
Qed.

(* ---------- 4c. Session.Allocate / Pipeline: ANY error leaves no trace ---------- *)

Lemma job_update_index h j p st :
  h !! t_id p = Some p -> t_id p ∈ j_tasks j ->
  j_index (fst (job_update h j p st)) = idx_add (idx_del (j_index j) (t_status p) (t_id p)) st (t_id p).
Proof.
  intros Hl Hin. unfold job_update. rewrite bool_decide_eq_true_2 by exact Hin. rewrite Hl. reflexivity.
Qed.

(* Session.Allocate / Pipeline on a placeable task whose job holds no other Allocated task (then
   the dispatch loop only concerns the task itself): whatever the reason of the error -- unknown
   job, unknown node, node refusing the task, dispatch (AddBindTask) refused, fix c8b10ae -- the
   session is sess_eqv to the one before the call and nothing reached binder, evictor or a
   statement *)
Theorem failed_ssn_place_no_trace eps jr s k p nid :
  sess_ok s -> placeable s p nid ->
  (forall j, jobs s !! t_job p = Some j -> idx_set (j_index j) Allocated = ∅) ->
  let r := ssn_place_with eps jr s k (t_id p) nid in
  snd r = RErr ->
  sess_eqv s (fst r) /\ binds (fst r) = binds s /\ evicts (fst r) = evicts s /\ stmts (fst r) = stmts s.
Proof.
  intros Hok Hpl Hidx. cbv zeta. intros Hres.
  pose proof Hpl as (Hl & Hst & Hnd & Hjk & Hoff).
  destruct (jobs s !! t_job p) as [j|] eqn:Ej.
  2: { destruct (failed_ssn_place_no_trace_cause eps jr s k p nid Hok Hl Hst Hnd Hjk (or_introl Ej)) as (_ & A & B & C & D & _). auto. }
  destruct (nodes s !! nid) as [n|] eqn:En.
  2: { destruct (failed_ssn_place_no_trace_cause eps jr s k p nid Hok Hl Hst Hnd Hjk (or_intror (or_introl En))) as (_ & A & B & C & D & _). auto. }
  destruct (node_add eps n (placed_obj s k p nid)) as [[n' q]|e] eqn:Ea.
  2: { destruct (failed_ssn_place_no_trace_cause eps jr s k p nid Hok Hl Hst Hnd Hjk) as (_ & A & B & C & D & _); [right; right; eauto|auto]. }
  specialize (Hidx j eq_refl).
  pose proof Hok as (Hinv & Hw & Hsv). pose proof Hinv as (Hh & Hjobs & Hnodes). destruct (Hnodes _ _ En) as [Hnid _].
  assert (Hinv' : ledger_inv (fst (ssn_place_with eps jr s k (t_id p) nid)))
    by exact (proj1 (good_ssn_place eps _ jr s k (t_id p) nid (good_init s Hinv Hw Hsv))).
  assert (Hm : jmember j p) by (unfold jknown in Hjk; rewrite Ej in Hjk; exact Hjk).
  remember (ssn_place_with eps jr s k (t_id p) nid) as r eqn:Er.
  unfold ssn_place_with in Er. rewrite Hl in Er. fold (place_status k) in Er.
  unfold ssn_update_status at 1 in Er. rewrite Ej in Er.
  destruct (job_update_member (heap s) j p (place_status k) Hl Hm) as (j1 & Eju & Hjv1).
  pose proof (job_update_index (heap s) j p (place_status k) Hl (proj1 Hm)) as Hix1. rewrite Eju in Hix1. cbn [fst] in Hix1.
  rewrite Eju in Er. cbv beta iota zeta in Er. cbn [negb] in Er.
  set (p1 := set_status p (place_status k)) in *. set (p2 := set_node p1 (Some nid)) in *.
  set (s1 := put_task (upd_jobs s (<[t_job p := j1]> (jobs s))) p1) in *. set (s2 := put_task s1 p2) in *.
  change (nodes s2) with (nodes s) in Er. rewrite En in Er.
  assert (Hp2 : placed_obj s k p nid = p2).
  { unfold placed_obj. rewrite Ej, bool_decide_eq_true_2 by eauto. reflexivity. }
  rewrite Hp2 in Ea. rewrite Ea in Er.
  destruct (node_add_spec _ _ _ _ _ Ea) as (Hq & _). rewrite Hnid in Hq.
  rewrite (set_node_id p2 (Some nid) eq_refl) in Hq. subst q.
  unfold h_alloc in Er. cbv beta iota zeta in Er.
  match type of Er with context [upd_handlers ?a ?b ?c] => set (s4 := upd_handlers a b c) in * end.
  assert (Hjv4 : jv s4 = jv s) by exact (jv_insert_same s _ j j1 Ej Hjv1).
  assert (Hps : placed_state eps s p (placed_obj s k p nid) nid s4).
  { rewrite Hp2. split; [|split; [|split; [|split]]].
    - unfold s4, s2, s1. simpl. rewrite !insert_insert. reflexivity.
    - exact Hjv4.
    - intros q0. apply jknown_jv. symmetry. exact Hjv4.
    - right. exists n, n', p2. split; [exact En|]. split; [exact Ea|reflexivity].
    - reflexivity. }
  assert (Hl4 : heap s4 !! t_id p = Some p2) by (destruct Hps as (-> & _); rewrite Hp2; apply lookup_insert).
  destruct k; try (subst r; discriminate Hres).
  change (jobs s4) with (<[t_job p := j1]> (jobs s)) in Er. rewrite lookup_insert in Er.
  destruct (jr s4 j1); [|subst r; discriminate Hres].
  assert (Hel : elements (default ∅ (j_index j1 !! skey Allocated)) = [t_id p]).
  { change (default ∅ (j_index j1 !! skey Allocated)) with (idx_set (j_index j1) Allocated).
    rewrite Hix1, idx_set_add. simpl. destruct (decide (Allocated = Allocated)) as [_|Hne]; [|congruence].
    rewrite idx_set_del, Hst. destruct (decide (Pending = Allocated)) as [Hne|_]; [discriminate|].
    rewrite Hidx, (right_id_L ∅ (∪)). apply elements_singleton. }
  rewrite Hel in Er. cbn [dispatch_all] in Er. unfold dispatch in Er. rewrite Hl4 in Er.
  destruct (bool_decide (t_id p ∈ refuse_bind s4)) eqn:Hrb.
  - cbv beta iota zeta in Er. rewrite Hl4 in Er. subst r. cbn [fst snd] in *.
    destruct (undo_place eps s KAllocate p nid s4 Hl Hst Hnd Hjk (proj2 (proj2 (proj2 (proj2 Hpl)))) Hps) as (H1 & H2 & H3 & H4 & H5 & H6 & H7 & H8).
    rewrite Hp2 in *.
    split; [apply sk_sess_eqv; [exact Hinv|exact Hinv'|symmetry; exact H1|symmetry; exact H2|symmetry; exact H3|exact H4]|].
    split; [rewrite H6; reflexivity|]. split; [rewrite H7; reflexivity|]. rewrite H5. reflexivity.
  - unfold ssn_update_status in Er. cbn [jobs upd_logs] in Er.
    change (jobs s4) with (<[t_job p := j1]> (jobs s)) in Er. change (t_job p2) with (t_job p) in Er. rewrite lookup_insert in Er.
    destruct (job_update _ j1 p2 Binding) as [j2 q2]. cbv beta iota zeta in Er. subst r. discriminate Hres.
Qed.
