(* Executable, sound check of the accounting hypothesis of cycle_sums_within_allocatable
   (nodes_acct), evaluated by law 113 on every generated cycle together with world_ok_b, and
   non-vacuity examples (audit W1 / W10). *)
From stdpp Require Import gmap.
From Coq Require Import ZArith Lia.
From V Require Import Base.Res Base.ResLemmas Sched.LedgerModel Sched.StmtModel Sched.LedgerCodec Sched.GangModel
                      Sched.CycleModel Sched.LedgerInvP Sched.NodeCapLemmas Sched.NodeCapLemmasCycle Sched.NodeCapCheck
                      Sched.NodeSumLemmas Sched.NodeCapLemmasEvict Sched.NodeCapEvictEx.
Open Scope Z_scope.

Definition res_keys1 (r : res) : list positive := elements (dom (scm r) : gset positive).

Definition acct_keys (n : node) : list positive :=
  res_keys1 (n_idle n) ++ res_keys1 (n_alloc n) ++ res_keys1 (n_releasing n) ++ res_keys1 (n_pipelined n) ++
  flat_map (fun c => res_keys1 (t_req c)) (map snd (map_to_list (n_tasks n))).

Definition acct_dim_b (n : node) (d : dim) : bool :=
  bool_decide (amt (n_idle n) d = amt (n_alloc n) d - csum (used_amt d) (n_tasks n)) &&
  bool_decide (amt (n_releasing n) d = csum (rel_amt d) (n_tasks n)) &&
  bool_decide (amt (n_pipelined n) d = csum (pip_amt d) (n_tasks n)).

Definition node_acct_b (n : node) : bool :=
  bool_decide (map_Forall (fun _ c => nonneg_b (t_req c) = true) (n_tasks n)) &&
  (negb (n_has_node n) ||
   (match sc (n_idle n) with Some _ => true | None => false end &&
    acct_dim_b n DCpu && acct_dim_b n DMem && forallb (fun k => acct_dim_b n (DSc k)) (acct_keys n))).

Lemma sget_not_key r k : k ∉ res_keys1 r -> sget r k = 0.
Proof.
  unfold res_keys1. rewrite elem_of_elements, elem_of_dom. intros H. unfold sget.
  destruct (scm r !! k); [exfalso; apply H; eauto|reflexivity].
Qed.

Lemma csum_zero f m : (forall k c, m !! k = Some c -> f c = 0) -> csum f m = 0.
Proof.
  intros H. unfold csum.
  assert (Hall : Forall (fun c => f c = 0) (map snd (map_to_list m))).
  { apply Forall_forall. intros c Hc. apply elem_of_list_fmap in Hc as ([k c'] & -> & Hin). apply elem_of_map_to_list in Hin. apply (H k c' Hin). }
  induction Hall as [|c l Hc _ IH]; simpl; [reflexivity|lia].
Qed.

Theorem node_acct_b_sound n : node_acct_b n = true -> node_acct n.
Proof.
  unfold node_acct_b. rewrite andb_true_iff, bool_decide_eq_true. intros [Hnn Hrest].
  assert (Hnn' : forall k c, n_tasks n !! k = Some c -> nonneg (t_req c)) by (intros k c Hl; apply nonneg_b_sound; apply (Hnn k c Hl)).
  apply orb_true_iff in Hrest as [Hno|Hrest].
  - apply negb_true_iff in Hno. split; [rewrite Hno; discriminate|]. split; [exact Hnn'|]. intros Hc. congruence.
  - rewrite !andb_true_iff, forallb_forall in Hrest. destruct Hrest as [[[Hs Hc] Hm] Hk].
    split; [intros _; destruct (sc (n_idle n)); [discriminate|discriminate Hs]|]. split; [exact Hnn'|].
    intros _ d.
    assert (Hd : acct_dim_b n d = true).
    { destruct d as [| |k]; [exact Hc|exact Hm|].
      destruct (base.decide (k ∈ acct_keys n)) as [Hin|Hout]; [apply Hk; apply elem_of_list_In; exact Hin|].
      unfold acct_keys in Hout. rewrite !elem_of_app in Hout.
      assert (Hcopies : forall j c, n_tasks n !! j = Some c -> sget (t_req c) k = 0).
      { intros j c Hl. apply sget_not_key. intros Hin. apply Hout. right; right; right; right.
        apply elem_of_list_In, in_flat_map. exists c. split; [|apply elem_of_list_In; exact Hin].
        apply elem_of_list_In, elem_of_list_fmap. exists (j, c). split; [reflexivity|apply elem_of_map_to_list; exact Hl]. }
      unfold acct_dim_b. simpl.
      rewrite (sget_not_key (n_idle n)), (sget_not_key (n_alloc n)), (sget_not_key (n_releasing n)), (sget_not_key (n_pipelined n)) by tauto.
      rewrite (csum_zero (used_amt (DSc k))), (csum_zero (rel_amt (DSc k))), (csum_zero (pip_amt (DSc k))).
      - reflexivity.
      - intros j c Hl. unfold pip_amt. simpl. rewrite (Hcopies j c Hl). case_bool_decide; reflexivity.
      - intros j c Hl. unfold rel_amt. simpl. rewrite (Hcopies j c Hl). case_bool_decide; reflexivity.
      - intros j c Hl. unfold used_amt. simpl. rewrite (Hcopies j c Hl). case_bool_decide; reflexivity. }
    unfold acct_dim_b in Hd. rewrite !andb_true_iff, !bool_decide_eq_true in Hd. tauto.
Qed.

Definition nodes_acct_b (ns : gmap positive node) : bool := bool_decide (map_Forall (fun _ n => node_acct_b n = true) ns).

Theorem nodes_acct_b_sound ns : nodes_acct_b ns = true -> nodes_acct ns.
Proof. unfold nodes_acct_b. rewrite bool_decide_eq_true. intros H i n Hl. apply node_acct_b_sound. apply (H i n Hl). Qed.

(* ---------- non-vacuity: a session with running pods and a terminating one ---------- *)
Definition acct_tasks : list task_spec :=
  [mkTaskSpec 1 1 1 0 1000 256 0 Running (Some 1%positive) true; mkTaskSpec 2 1 1 0 500 256 0 Releasing (Some 1%positive) true;
   mkTaskSpec 3 2 1 1 1000 256 0 Pending None true; mkTaskSpec 4 2 1 0 500 256 0 Pending None true].
Definition acct_world : world := mkWorld (build 2 ev_nodes ev_jobs acct_tasks) ∅ 1.

Example acct_world_ok : world_ok 2 acct_world /\ nodes_acct (nodes (w_sess acct_world)).
Proof. split; [apply world_ok_b_sound; [lia|vm_compute; reflexivity]|apply nodes_acct_b_sound; vm_compute; reflexivity]. Qed.

(* the skeleton pipelines t3 (1000) onto Idle 500 + Releasing 500; t4 (500) then fits Idle but not the
   FutureIdle that is left (0) and is refused: the situation of seeded mutant C02-r4-2 *)
Example acct_world_places :
  match nodes (w_sess (run 2 acct_world [CAttempt 2 [(3, 1); (4, 1)]]%positive)) !! 1%positive with
  | Some n => map (fun kv => (fst kv, skey (t_status (snd kv)))) (map_to_list (n_tasks n))
  | None => []
  end ≡ₚ [(1, 6); (2, 7); (3, 3)]%positive.
Proof. vm_compute. reflexivity. Qed.

(* ---------- base case (second audit N6): the constructor of initial states establishes the
   accounting invariant, for every cluster spec whose requests are non-negative ---------- *)

Lemma mk_req_nonneg c m g : 0 <= c -> 0 <= m -> 0 <= g -> nonneg (mk_req c m g).
Proof.
  intros Hc Hm Hg d. unfold mk_req, grid. destruct d as [| |k]; simpl; [lia|lia|].
  unfold sget, scm. simpl. case_bool_decide.
  - destruct (<[4%positive := g * 1000 * 16]> {[1%positive := 16]} !! k) as [v|] eqn:E; simpl; [|lia].
    apply lookup_insert_Some in E as [[_ <-]|[_ E]]; [lia|]. apply lookup_singleton_Some in E as [_ <-]. lia.
  - destruct (({[1%positive := 16]} : gmap positive Z) !! k) as [v|] eqn:E; simpl; [|lia].
    apply lookup_singleton_Some in E as [_ <-]. lia.
Qed.

Lemma empty_node_acct ns : node_acct (empty_node ns).
Proof.
  unfold empty_node. split; [|split].
  - simpl. intros Hh. rewrite Hh. unfold mk_alloc. simpl. discriminate.
  - intros k c Hl. simpl in Hl. rewrite lookup_empty in Hl. discriminate.
  - intros Hh d. simpl in *. unfold csum. rewrite map_to_list_empty. simpl.
    assert (amt empty_res d = 0) by (destruct d; reflexivity). repeat split; lia.
Qed.

Lemma fold_add_acct eps (cond : task -> bool) l : forall acc,
  node_acct acc -> (forall t, t ∈ l -> nonneg (t_req t)) ->
  node_acct (fold_left (fun acc t => if cond t then match node_add eps acc t with inl (acc', _) => acc' | inr _ => acc end else acc) l acc).
Proof.
  induction l as [|t l IH]; intros acc Ha Hl; [exact Ha|]. simpl. apply IH; [|intros u Hu; apply Hl; right; exact Hu].
  destruct (cond t); [|exact Ha]. destruct (node_add eps acc t) as [[acc' t']|e] eqn:E; [|exact Ha].
  eapply node_add_acct; [exact Ha|apply Hl; left|exact E].
Qed.

Theorem build_nodes_acct eps ns js ts :
  (forall t, t ∈ ts -> 0 <= ts_cpu t /\ 0 <= ts_mem t /\ 0 <= ts_gpu t) ->
  nodes_acct (nodes (build eps ns js ts)).
Proof.
  intros Hts i n Hl. unfold build in Hl. simpl in Hl.
  apply elem_of_list_to_map_2 in Hl. apply elem_of_list_fmap in Hl as (spec & Heq & _). inversion Heq; subst. clear Heq.
  apply (fold_add_acct eps (fun t => bool_decide (t_node t = Some (ns_id spec)) && on_node_status (t_status t))); [apply empty_node_acct|].
  intros t Ht. apply elem_of_list_fmap in Ht as (tsp & -> & Hin). simpl. destruct (Hts tsp Hin) as (H1 & H2 & H3). apply mk_req_nonneg; assumption.
Qed.
