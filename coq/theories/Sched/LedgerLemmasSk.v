(* C07 proofs, part E: "restored exactly".  The state equivalence sess_eqv (same task statuses
   and node names, same task sets and indexes, ledgers equal in every amount, same node-held
   copies, same handler shares) and the determinacy theorem: under the ledger invariant the
   ledgers and indexes are FUNCTIONS of the skeleton of the session (which task has which
   status / node name / request, which job holds which tasks, which node holds which copies),
   so two invariant-satisfying sessions with the same skeleton are sess_eqv. *)
From stdpp Require Import gmap.
From Coq Require Import ZArith Lia.
From V Require Import Base.Res Base.ResLemmas Sched.LedgerModel Sched.StmtModel Sched.GangModel
  Sched.LedgerInvP Sched.LedgerInv Sched.LedgerLemmasA Sched.LedgerLemmasJob Sched.LedgerLemmasNode.
Open Scope Z_scope.

(* ---------- the equivalence ---------- *)

Definition task_same (a b : task) : Prop :=
  t_id a = t_id b /\ t_status a = t_status b /\ t_node a = t_node b.
Definition map_same {A} (R : A -> A -> Prop) (a b : gmap positive A) : Prop :=
  forall i, option_Forall2 R (a !! i) (b !! i).
Definition sub_same (a b : subjob) : Prop := sj_tasks a = sj_tasks b /\ sj_index a = sj_index b.
Definition job_same (a b : job) : Prop :=
  j_tasks a = j_tasks b /\ j_index a = j_index b /\
  res_eqv (j_alloc a) (j_alloc b) /\ res_eqv (j_total a) (j_total b) /\
  j_task_sub a = j_task_sub b /\ map_same sub_same (j_subs a) (j_subs b).
Definition node_same (a b : node) : Prop :=
  res_eqv (n_idle a) (n_idle b) /\ res_eqv (n_used a) (n_used b) /\
  res_eqv (n_releasing a) (n_releasing b) /\ res_eqv (n_pipelined a) (n_pipelined b) /\
  map_same task_same (n_tasks a) (n_tasks b).
Definition share_same (a b : gmap positive res) : Prop :=
  forall k, res_eqv (default empty_res (a !! k)) (default empty_res (b !! k)).

Definition sess_eqv (s s' : sess) : Prop :=
  map_same task_same (heap s) (heap s') /\ map_same job_same (jobs s) (jobs s') /\
  map_same node_same (nodes s) (nodes s') /\ share_same (hshare s) (hshare s').

(* ---------- the skeleton ---------- *)

Definition hview (t : task) : status * option positive * res := (t_status t, t_node t, t_req t).
Definition jview (j : job) : gset positive * gmap positive positive * gset positive :=
  (j_tasks j, j_task_sub j, dom (j_subs j)).
(* a NodeInfo without Node keeps its ledgers untouched: they are part of its skeleton *)
Definition nview (n : node) :=
  (n_has_node n, n_alloc n, hview <$> n_tasks n,
   if n_has_node n then None else Some (n_idle n, n_used n, n_releasing n, n_pipelined n)).

Definition hv (s : sess) := hview <$> heap s.
Definition jv (s : sess) := jview <$> jobs s.
Definition nv (s : sess) := nview <$> nodes s.

(* ---------- determinacy ---------- *)

Lemma status_key_inv k s : status_of_key k = Some s -> k = skey s.
Proof.
  unfold status_of_key. repeat (destruct k as [k|k|]; try discriminate); intros [= <-]; reflexivity.
Qed.

Lemma index_ok_functional h h' S ix ix' :
  (forall i, i ∈ S -> (t_status <$> h !! i) = (t_status <$> h' !! i)) ->
  index_ok h S ix -> index_ok h' S ix' -> ix = ix'.
Proof.
  intros Hag H1 H2. apply (index_ok_ext h h' S ix Hag) in H1.
  destruct H1 as [Ha Ka], H2 as [Hb Kb].
  assert (Hset : forall s, idx_set ix s = idx_set ix' s).
  { intros s. apply set_eq. intros i. rewrite Ha, Hb. reflexivity. }
  apply map_eq. intros k. destruct (status_of_key k) as [s|] eqn:Ek.
  - apply status_key_inv in Ek. subst k. specialize (Hset s). unfold idx_set in Hset.
    destruct (ix !! skey s) as [x|] eqn:E1, (ix' !! skey s) as [y|] eqn:E2; simpl in Hset.
    + congruence.
    + destruct (Ka _ _ E1) as [Hne _]. congruence.
    + destruct (Kb _ _ E2) as [Hne _]. congruence.
    + reflexivity.
  - destruct (ix !! k) as [x|] eqn:E1.
    + destruct (Ka _ _ E1) as [_ [? Hs]]. congruence.
    + destruct (ix' !! k) as [y|] eqn:E2; [|reflexivity].
      destruct (Kb _ _ E2) as [_ [? Hs]]. congruence.
Qed.

(* sums over the copies of a node only read the views *)
Definition sumg {V} (g : V -> Z) (l : list V) : Z := foldr (fun v acc => g v + acc) 0 l.
Lemma sumg_perm {V} (g : V -> Z) l l' : l ≡ₚ l' -> sumg g l = sumg g l'.
Proof. induction 1; simpl; lia. Qed.
Lemma sum_amt_sumg {V} (v : task -> V) (g : V -> Z) f l :
  (forall t, f t = g (v t)) -> sum_amt f l = sumg g (v <$> l).
Proof. intros H. induction l as [|t l IH]; simpl; [reflexivity|]. rewrite H, IH. reflexivity. Qed.

Lemma sum_copies_view (g : status * option positive * res -> Z) f (m m' : gmap positive task) :
  (forall t, f t = g (hview t)) -> hview <$> m = hview <$> m' ->
  sum_amt f (map snd (map_to_list m)) = sum_amt f (map snd (map_to_list m')).
Proof.
  intros Hf Hm.
  assert (Hx : forall m0 : gmap positive task,
            sum_amt f (map snd (map_to_list m0)) = sumg g (snd <$> map_to_list (hview <$> m0))).
  { intros m0. rewrite (sum_amt_sumg hview g f _ Hf). apply sumg_perm.
    rewrite map_to_list_fmap. rewrite <- !list_fmap_compose.
    match goal with |- ?a ≡ₚ ?b => assert (a = b) as ->; [|reflexivity] end.
    apply list_fmap_ext. intros ? [? ?] _. reflexivity. }
  rewrite !Hx, Hm. reflexivity.
Qed.

Definition used_g d (v : status * option positive * res) : Z :=
  if bool_decide (v.1.1 = Pipelined) then 0 else amt v.2 d.
Definition rel_g d (v : status * option positive * res) : Z :=
  if bool_decide (v.1.1 = Releasing) then amt v.2 d else 0.
Definition pip_g d (v : status * option positive * res) : Z :=
  if bool_decide (v.1.1 = Pipelined) then amt v.2 d else 0.
Lemma view_amts d :
  (forall t, used_amt d t = used_g d (hview t)) /\
  (forall t, rel_amt d t = rel_g d (hview t)) /\
  (forall t, pip_amt d t = pip_g d (hview t)).
Proof. repeat split. Qed.

Lemma hv_lookup s s' i :
  hv s = hv s' -> (hview <$> heap s !! i) = (hview <$> heap s' !! i).
Proof. intros H. unfold hv in H. rewrite <- !lookup_fmap, H. reflexivity. Qed.

Theorem sk_determines s s' :
  ledger_inv s -> ledger_inv s' -> hv s = hv s' -> jv s = jv s' -> nv s = nv s' ->
  map_same task_same (heap s) (heap s') /\ map_same job_same (jobs s) (jobs s') /\
  map_same node_same (nodes s) (nodes s').
Proof.
  intros (Hh & Hjobs & Hnodes) (Hh' & Hjobs' & Hnodes') Hhv Hjv Hnv.
  assert (Hst : forall i, (t_status <$> heap s !! i) = (t_status <$> heap s' !! i)).
  { intros i. pose proof (hv_lookup s s' i Hhv) as H.
    destruct (heap s !! i), (heap s' !! i); simpl in *; try discriminate; [|reflexivity].
    unfold hview in H. congruence. }
  assert (Hsum : forall (f : task -> Z) S, (forall t t', hview t = hview t' -> f t = f t') ->
            sum_amt f (tasks_in (heap s) S) = sum_amt f (tasks_in (heap s') S)).
  { intros f S Hf. apply sum_tasks_in_view. intros i _. pose proof (hv_lookup s s' i Hhv) as H.
    destruct (heap s !! i), (heap s' !! i); simpl in *; try discriminate; [|exact I].
    apply Hf. congruence. }
  split; [|split].
  - intros i. pose proof (hv_lookup s s' i Hhv) as H.
    destruct (heap s !! i) as [t|] eqn:E, (heap s' !! i) as [t'|] eqn:E'; simpl in H; try discriminate; constructor.
    destruct (Hh _ _ E) as [He0 _]. destruct (Hh' _ _ E') as [He _]. unfold hview in H.
    split; [congruence|]. split; congruence.
  - intros k. assert (H : (jview <$> jobs s !! k) = (jview <$> jobs s' !! k))
      by (unfold jv in Hjv; rewrite <- !lookup_fmap, Hjv; reflexivity).
    destruct (jobs s !! k) as [j|] eqn:E, (jobs s' !! k) as [j'|] eqn:E'; simpl in H; try discriminate; constructor.
    destruct (Hjobs _ _ E) as [_ (Hm & Hix & Htot & Hal & Hd & Hts & Hsj)].
    destruct (Hjobs' _ _ E') as [_ (Hm' & Hix' & Htot' & Hal' & Hd' & Hts' & Hsj')].
    unfold jview in H. inversion H as [[HT HS HD]].
    split; [exact HT|]. split; [|split; [|split; [|split; [exact HS|]]]].
    + eapply index_ok_functional; [|exact Hix|rewrite HT; exact Hix']. intros; apply Hst.
    + apply res_eqv_amt. intros d. rewrite Hal, Hal', HT. apply Hsum.
      intros t t' Hv. unfold alloc_amt, hview in *. inversion Hv as [[H1 H2 H3]]. rewrite H1, H3. reflexivity.
    + apply res_eqv_amt. intros d. rewrite Htot, Htot', HT. apply Hsum.
      intros t t' Hv. unfold req_amt, hview in *. inversion Hv as [[H1 H2 H3]]. rewrite H3. reflexivity.
    + intros sid. destruct (j_subs j !! sid) as [sj|] eqn:Es, (j_subs j' !! sid) as [sj'|] eqn:Es'.
      * constructor. destruct (Hsj _ _ Es) as [Hmem Hi], (Hsj' _ _ Es') as [Hmem' Hi'].
        assert (Hset : sj_tasks sj = sj_tasks sj').
        { apply set_eq. intros i. rewrite Hmem, Hmem', HS. reflexivity. }
        split; [exact Hset|]. eapply index_ok_functional; [|exact Hi|rewrite Hset; exact Hi']. intros; apply Hst.
      * exfalso. apply not_elem_of_dom in Es'. apply Es'. rewrite <- HD. apply elem_of_dom. eauto.
      * exfalso. apply not_elem_of_dom in Es. apply Es. rewrite HD. apply elem_of_dom. eauto.
      * constructor.
  - intros k. assert (H : (nview <$> nodes s !! k) = (nview <$> nodes s' !! k))
      by (unfold nv in Hnv; rewrite <- !lookup_fmap, Hnv; reflexivity).
    destruct (nodes s !! k) as [n|] eqn:E, (nodes s' !! k) as [n'|] eqn:E'; simpl in H; try discriminate; constructor.
    destruct (Hnodes _ _ E) as [_ [Hc Hs]]. destruct (Hnodes' _ _ E') as [_ [Hc' Hs']].
    unfold nview in H. inversion H as [[Hhas Hal Hcv Hled]].
    assert (Hcopies : map_same task_same (n_tasks n) (n_tasks n')).
    { intros i. assert (Hi : (hview <$> n_tasks n !! i) = (hview <$> n_tasks n' !! i))
        by (rewrite <- !lookup_fmap, Hcv; reflexivity).
      destruct (n_tasks n !! i) as [c|] eqn:Ec, (n_tasks n' !! i) as [c'|] eqn:Ec'; simpl in Hi; try discriminate; constructor.
      destruct (Hc _ _ Ec) as [He0 _]. destruct (Hc' _ _ Ec') as [He _]. unfold hview in Hi.
      split; [congruence|]. split; congruence. }
    destruct (n_has_node n) eqn:Hn.
    + rewrite <- Hhas in *. destruct (Hs eq_refl) as (Hu & Hr & Hp & Hi). destruct (Hs' eq_refl) as (Hu' & Hr' & Hp' & Hi').
      assert (Eu : forall d, amt (n_used n) d = amt (n_used n') d).
      { intros d. rewrite Hu, Hu'. destruct (view_amts d) as (V & _ & _). eapply (sum_copies_view (used_g d)); [exact V|exact Hcv]. }
      assert (Er : forall d, amt (n_releasing n) d = amt (n_releasing n') d).
      { intros d. rewrite Hr, Hr'. destruct (view_amts d) as (_ & V & _). eapply (sum_copies_view (rel_g d)); [exact V|exact Hcv]. }
      assert (Ep : forall d, amt (n_pipelined n) d = amt (n_pipelined n') d).
      { intros d. rewrite Hp, Hp'. destruct (view_amts d) as (_ & _ & V). eapply (sum_copies_view (pip_g d)); [exact V|exact Hcv]. }
      split; [|split; [|split; [|split; [|exact Hcopies]]]]; apply res_eqv_amt; try assumption.
      intros d. specialize (Hi d). specialize (Hi' d). rewrite Hal, Eu in Hi. lia.
    + try rewrite <- Hhas in Hled. inversion Hled as [[H1 H2 H3 H4]].
      split; [|split; [|split; [|split; [|exact Hcopies]]]]; apply res_eqv_amt; intros d; congruence.
Qed.

Corollary sk_sess_eqv s s' :
  ledger_inv s -> ledger_inv s' -> hv s = hv s' -> jv s = jv s' -> nv s = nv s' ->
  share_same (hshare s) (hshare s') -> sess_eqv s s'.
Proof.
  intros H1 H2 H3 H4 H5 H6. destruct (sk_determines s s' H1 H2 H3 H4 H5) as (A & B & C).
  split; [exact A|]. split; [exact B|]. split; [exact C|exact H6].
Qed.

(* ---------- the handler ledger at the level of amounts ---------- *)

Definition shamt (sh : gmap positive res) (k : positive) (d : dim) : Z := amt (default empty_res (sh !! k)) d.

Lemma share_same_amt a b : share_same a b <-> forall k d, shamt a k d = shamt b k d.
Proof. unfold share_same, shamt. split; intros H k; [apply res_eqv_amt, H|apply res_eqv_amt; intros d; apply H]. Qed.

(* subtraction is exact when the minuend has a scalar map or the subtrahend has no scalars *)
Definition covers (r x : res) : Prop := sc r <> None \/ scm x = ∅.

Lemma amt_sub_covers r x d : covers r x -> amt (sub r x) d = amt r d - amt x d.
Proof.
  intros [H|H]; [apply amt_sub_some, H|].
  destruct (sc r) eqn:E; [apply amt_sub_some; congruence|].
  destruct d as [| |k]; simpl; [reflexivity|reflexivity|].
  rewrite (sget_nil (sub r x) k) by (apply sub_nil_drops_scalars; exact E).
  rewrite (sget_nil r k E). unfold sget. rewrite H, lookup_empty. reflexivity.
Qed.

Lemma covers_add r x : covers (add r x) x.
Proof.
  unfold covers, add. simpl. case_bool_decide as He; [right; exact He|left; discriminate].
Qed.
