(* C01, part 2: the light session invariant the gang proofs need (a consequence of
   LedgerInvP.ledger_inv plus "every task object of an existing job is one of its tasks"),
   and what the primitives of StmtModel do to heap / jobs / stmts / binds. *)
From stdpp Require Import gmap.
From Coq Require Import ZArith Lia.
From V Require Import Base.Res Sched.LedgerModel Sched.StmtModel Sched.GangModel Sched.LedgerInvP Sched.GangLemmas.
Open Scope Z_scope.

(* ---------- index algebra ---------- *)

Lemma skey_inj s s' : skey s = skey s' -> s = s'.
Proof. destruct s, s'; simpl; intros H; try done; discriminate H. Qed.

Lemma elem_idx_add ix s t s' i :
  i ∈ idx_set (idx_add ix s t) s' <-> (s' = s /\ i = t) \/ i ∈ idx_set ix s'.
Proof.
  unfold idx_set, idx_add. destruct (decide (s' = s)) as [->|Hne].
  - rewrite lookup_insert. simpl. set_solver.
  - rewrite lookup_insert_ne by (intros H%skey_inj; done). naive_solver.
Qed.

Lemma elem_idx_del ix s t s' i :
  i ∈ idx_set (idx_del ix s t) s' <-> i ∈ idx_set ix s' /\ ~ (s' = s /\ i = t).
Proof.
  unfold idx_set, idx_del. destruct (ix !! skey s) as [ts|] eqn:E.
  - case_bool_decide as He.
    + destruct (decide (s' = s)) as [->|Hne].
      * rewrite lookup_delete, E. simpl. set_solver.
      * rewrite lookup_delete_ne by (intros H%skey_inj; done). naive_solver.
    + destruct (decide (s' = s)) as [->|Hne].
      * rewrite lookup_insert, E. simpl. set_solver.
      * rewrite lookup_insert_ne by (intros H%skey_inj; done). naive_solver.
  - destruct (decide (s' = s)) as [->|Hne]; [rewrite E; simpl; set_solver|naive_solver].
Qed.

(* ---------- what never changes in a task / a job ---------- *)

Definition same_meta (t t' : task) : Prop :=
  t_id t' = t_id t /\ t_job t' = t_job t /\ t_role t' = t_role t /\ t_best_effort t' = t_best_effort t.
Lemma same_meta_refl t : same_meta t t. Proof. by repeat split. Qed.
Lemma same_meta_trans a b c : same_meta a b -> same_meta b c -> same_meta a c.
Proof. unfold same_meta. intros (?&?&?&?) (?&?&?&?). repeat split; congruence. Qed.
Lemma same_meta_set_status t s : same_meta t (set_status t s). Proof. by repeat split. Qed.
Lemma same_meta_set_node t n : same_meta t (set_node t n). Proof. by repeat split. Qed.

Definition jstatic (j j' : job) : Prop :=
  j_min j' = j_min j /\ j_role_min j' = j_role_min j /\ j_role_total j' = j_role_total j /\ j_tasks j' = j_tasks j.
Lemma jstatic_refl j : jstatic j j. Proof. by repeat split. Qed.
Lemma jstatic_trans a b c : jstatic a b -> jstatic b c -> jstatic a c.
Proof. unfold jstatic. intros (?&?&?&?) (?&?&?&?). repeat split; congruence. Qed.

Definition jobs_static (js js' : gmap positive job) : Prop :=
  forall jid, option_Forall2 jstatic (js !! jid) (js' !! jid).
Lemma jobs_static_refl js : jobs_static js js.
Proof. intros jid. destruct (js !! jid); constructor. apply jstatic_refl. Qed.
Lemma jobs_static_trans a b c : jobs_static a b -> jobs_static b c -> jobs_static a c.
Proof.
  intros H1 H2 jid. specialize (H1 jid). specialize (H2 jid).
  destruct H1; inversion H2; subst; constructor. eapply jstatic_trans; eauto.
Qed.
Lemma jobs_static_some js js' jid j : jobs_static js js' -> js !! jid = Some j ->
  exists j', js' !! jid = Some j' /\ jstatic j j'.
Proof. intros H E. specialize (H jid). rewrite E in H. inversion H; subst. eauto. Qed.
Lemma jobs_static_some_r js js' jid j' : jobs_static js js' -> js' !! jid = Some j' ->
  exists j, js !! jid = Some j /\ jstatic j j'.
Proof. intros H E. specialize (H jid). rewrite E in H. inversion H; subst. eauto. Qed.
Lemma jobs_static_none js js' jid : jobs_static js js' -> js !! jid = None -> js' !! jid = None.
Proof. intros H E. specialize (H jid). rewrite E in H. by inversion H. Qed.

(* ---------- the invariant ---------- *)

Definition ginv (h : gmap positive task) (js : gmap positive job) : Prop :=
  (forall i t, h !! i = Some t -> t_id t = i) /\
  (forall jid j, js !! jid = Some j ->
     (forall i, i ∈ j_tasks j -> exists t, h !! i = Some t /\ t_job t = jid) /\
     idx_ok h (j_tasks j) (j_index j)) /\
  (forall i t j, h !! i = Some t -> js !! t_job t = Some j -> i ∈ j_tasks j).
Definition gang_inv (s : sess) : Prop := ginv (heap s) (jobs s).

(* every task object of an existing job is one of the job's tasks (true of a snapshot: the task
   objects ARE the values of JobInfo.Tasks) *)
Definition heap_members (s : sess) : Prop :=
  forall i t j, heap s !! i = Some t -> jobs s !! t_job t = Some j -> i ∈ j_tasks j.

Lemma ledger_inv_gang_inv s : ledger_inv s -> heap_members s -> gang_inv s.
Proof.
  intros (Hh & Hj & _) Hm. split; [|split].
  - intros i t Ht. by destruct (Hh i t Ht).
  - intros jid j Ej. destruct (Hj jid j Ej) as [Hid (Ht & Hix & _)]. split.
    + intros i Hi. destruct (Ht i Hi) as (t & E & Hjob). exists t. split; [done|congruence].
    + by apply index_ok_idx_ok.
  - exact Hm.
Qed.

(* replacing a task object by one with the same identity and status *)
Lemma ginv_put h js i t t' :
  ginv h js -> h !! i = Some t -> same_meta t t' -> t_status t' = t_status t -> ginv (<[i := t']> h) js.
Proof.
  intros (Ha & Hb & Hc) Ht (Hid & Hjob & _) Hst. split; [|split].
  - intros k u [[<- <-]|[Hne E]]%lookup_insert_Some; [rewrite Hid; by apply Ha|by apply Ha].
  - intros jid j Ej. destruct (Hb jid j Ej) as [Hts Hix]. split.
    + intros k Hk. destruct (Hts k Hk) as (u & Eu & Hu). destruct (decide (k = i)) as [->|Hne].
      * exists t'. rewrite lookup_insert. split; [done|]. rewrite Ht in Eu. injection Eu as <-. congruence.
      * exists u. by rewrite lookup_insert_ne.
    + intros s k. rewrite (Hix s k). destruct (decide (k = i)) as [->|Hne].
      * rewrite lookup_insert, Ht. split; intros [Hk (u & Eu & Hu)]; injection Eu as <-; (split; [done|]); eexists; split; try done; congruence.
      * by rewrite lookup_insert_ne.
  - intros k u j [[<- <-]|[Hne E]]%lookup_insert_Some Ej.
    + rewrite Hjob in Ej. by eapply Hc.
    + by eapply Hc.
Qed.

(* JobInfo.UpdateTaskStatus on the canonical object *)
Lemma ginv_update h js p j st :
  ginv h js -> h !! t_id p = Some p -> js !! t_job p = Some j ->
  let p' := set_status p st in
  let j' := job_add (job_del j p) p' in
  ginv (<[t_id p := p']> h) (<[t_job p := j']> js) /\ jstatic j j'.
Proof.
  intros (Ha & Hb & Hc) Hp Ej p' j'.
  assert (Hmem : t_id p ∈ j_tasks j) by (by eapply Hc).
  assert (Htasks : j_tasks j' = j_tasks j).
  { simpl. apply set_eq. intros k. destruct (decide (k = t_id p)) as [->|]; set_solver. }
  split; [|by repeat split].
  assert (Hother : forall jid j2, jid <> t_job p -> js !! jid = Some j2 -> t_id p ∉ j_tasks j2).
  { intros jid j2 Hne E2 Hin. destruct (Hb jid j2 E2) as [Hts _].
    destruct (Hts _ Hin) as (u & Eu & Hu). rewrite Hp in Eu. injection Eu as <-. done. }
  split; [|split].
  - intros k u [[<- <-]|[Hne E]]%lookup_insert_Some; [done|by apply Ha].
  - intros jid j2 [[<- <-]|[Hne E2]]%lookup_insert_Some.
    + destruct (Hb _ j Ej) as [Hts Hix]. split.
      * intros k Hk. rewrite Htasks in Hk. destruct (decide (k = t_id p)) as [->|Hne].
        -- exists p'. by rewrite lookup_insert.
        -- rewrite lookup_insert_ne by done. by apply Hts.
      * intros s k. rewrite Htasks. simpl.
        rewrite elem_idx_add, elem_idx_del, (Hix s k). simpl.
        destruct (decide (k = t_id p)) as [->|Hne].
        -- rewrite lookup_insert, Hp. split.
           ++ intros [[-> _]|[[_ (u & Eu & Hu)] Hn]].
              ** split; [done|]. by exists p'.
              ** injection Eu as <-. exfalso. apply Hn. by split.
           ++ intros [_ (u & Eu & Hu)]. injection Eu as <-. left. by split.
        -- rewrite lookup_insert_ne by done. split.
           ++ intros [[_ ->]|[H _]]; [done|exact H].
           ++ intros H. right. split; [exact H|]. intros [_ ->]. done.
    + destruct (Hb _ j2 E2) as [Hts Hix]. pose proof (Hother jid j2 (not_eq_sym Hne) E2) as Hnot. split.
      * intros k Hk. assert (t_id p <> k) by (intros <-; done). rewrite lookup_insert_ne by done. by apply Hts.
      * intros s k. rewrite (Hix s k). split; intros [Hk H]; (split; [done|]);
          assert (t_id p <> k) by (intros <-; done);
          [rewrite lookup_insert_ne by done|rewrite lookup_insert_ne in H by done]; done.
  - intros k u j2 [[<- <-]|[Hne E]]%lookup_insert_Some E2.
    + simpl in E2. rewrite lookup_insert in E2. injection E2 as <-. by rewrite Htasks.
    + apply lookup_insert_Some in E2 as [[Hjk <-]|[Hnj E2]].
      * rewrite Htasks. eapply Hc; [exact E|]. by rewrite <- Hjk.
      * by eapply Hc.
Qed.

(* ---------- ssn_update_status ---------- *)

Lemma ssn_update_status_spec s p st :
  gang_inv s -> heap s !! t_id p = Some p ->
  exists found s' p', ssn_update_status s p st = (found, s', p') /\
    (found = true <-> is_Some (jobs s !! t_job p)) /\
    same_meta p p' /\
    (if found then t_status p' = st else p' = p) /\
    heap s' = <[t_id p := p']> (heap s) /\
    jobs_static (jobs s) (jobs s') /\
    stmts s' = stmts s /\ binds s' = binds s /\ refuse_bind s' = refuse_bind s /\
    gang_inv s'.
Proof.
  intros Hinv Hp. unfold ssn_update_status. destruct (jobs s !! t_job p) as [j|] eqn:Ej.
  - destruct Hinv as (Ha & Hb & Hc).
    assert (Hmem : t_id p ∈ j_tasks j) by (by eapply Hc).
    unfold job_update. rewrite bool_decide_true by done. rewrite Hp.
    destruct (ginv_update (heap s) (jobs s) p j st (conj Ha (conj Hb Hc)) Hp Ej) as [Hg Hs].
    eexists true, _, (set_status p st). split; [reflexivity|].
    split; [split; [eauto|done]|].
    split; [apply same_meta_set_status|]. split; [done|]. split; [done|].
    split.
    { simpl. intros jid. destruct (decide (jid = t_job p)) as [->|Hne].
      - rewrite lookup_insert, Ej. by constructor.
      - rewrite lookup_insert_ne by done. destruct (jobs s !! jid); constructor. apply jstatic_refl. }
    split; [done|]. split; [done|]. split; [done|]. exact Hg.
  - exists false, s, p. split; [done|]. split; [split; [done|intros [? ?]; done]|].
    split; [apply same_meta_refl|]. split; [done|]. split; [by rewrite insert_id|].
    split; [apply jobs_static_refl|]. done.
Qed.

(* sessions that agree on what the gang proofs look at *)
Definition core_eq (s s' : sess) : Prop :=
  heap s' = heap s /\ jobs s' = jobs s /\ stmts s' = stmts s /\ binds s' = binds s /\ refuse_bind s' = refuse_bind s.

(* one task object replaced: the shape of every primitive's effect *)
Record touched (s s' : sess) (i : positive) (p p' : task) : Prop := {
  tc_old : heap s !! i = Some p;
  tc_heap : heap s' = <[i := p']> (heap s);
  tc_meta : same_meta p p';
  tc_jobs : jobs_static (jobs s) (jobs s');
  tc_refuse : refuse_bind s' = refuse_bind s;
  tc_inv : gang_inv s';
}.

Lemma touched_trans s1 s2 s3 i a b c :
  touched s1 s2 i a b -> touched s2 s3 i b c -> touched s1 s3 i a c.
Proof.
  intros [] []. split; try done.
  - rewrite tc_heap1, tc_heap0. by rewrite insert_insert.
  - by eapply same_meta_trans.
  - by eapply jobs_static_trans.
  - congruence.
Qed.

Lemma touched_new s s' i p p' : touched s s' i p p' -> heap s' !! i = Some p'.
Proof. intros []. by rewrite tc_heap0, lookup_insert. Qed.

Lemma touched_id s s' i p p' : gang_inv s -> touched s s' i p p' -> t_id p = i /\ t_id p' = i.
Proof.
  intros (Ha & _) [Ho _ (Hid & _) _ _ _]. pose proof (Ha _ _ Ho). split; congruence.
Qed.

Lemma touched_update s p st : gang_inv s -> heap s !! t_id p = Some p ->
  exists found s' p', ssn_update_status s p st = (found, s', p') /\
    (found = true <-> is_Some (jobs s !! t_job p)) /\
    (if found then t_status p' = st else p' = p) /\
    touched s s' (t_id p) p p' /\ stmts s' = stmts s /\ binds s' = binds s.
Proof.
  intros Hinv Hp. destruct (ssn_update_status_spec s p st Hinv Hp)
    as (found & s' & p' & E & Hf & Hm & Hst & Hh & Hj & Hs & Hb & Hr & Hi).
  exists found, s', p'. split; [done|]. split; [done|]. split; [done|]. split; [by split|]. done.
Qed.

(* a put_task that keeps identity and status *)
Lemma touched_put s s' i p p' :
  gang_inv s -> heap s !! i = Some p -> same_meta p p' -> t_status p' = t_status p ->
  heap s' = <[i := p']> (heap s) -> jobs s' = jobs s -> refuse_bind s' = refuse_bind s ->
  touched s s' i p p'.
Proof.
  intros Hinv Hp Hm Hst Hh Hj Hr. split; try done.
  - rewrite Hj. apply jobs_static_refl.
  - unfold gang_inv. rewrite Hh, Hj. by eapply ginv_put.
Qed.

Lemma touched_core s s' s'' i p p' : touched s s' i p p' -> core_eq s' s'' -> touched s s'' i p p'.
Proof.
  intros [H1 H2 H3 H4 H5 H6] (Hh & Hj & _ & _ & Hr). split.
  - done.
  - by rewrite Hh.
  - done.
  - by rewrite Hj.
  - by rewrite Hr.
  - unfold gang_inv in *. by rewrite Hh, Hj.
Qed.

Lemma node_add_task eps n t n' t' : node_add eps n t = inl (n', t') -> t' = set_node t (Some (n_id n)).
Proof.
  unfold node_add. intros H.
  repeat (case_bool_decide || case_match); simplify_eq; done.
Qed.
