(* C01, audit round: theorems without run-dependent hypotheses for the action lists with at most
   one `allocate`, the bind-time statement, composition with preempt / reclaim histories, a
   consecutive-cycles history theorem, the bind-fault boundary, and richer examples. *)
From stdpp Require Import gmap.
From Coq Require Import ZArith Lia.
From V Require Import Base.Res Sched.LedgerModel Sched.StmtModel Sched.GangModel Sched.CycleModel Sched.LedgerInvP
                      Sched.GangLemmas Sched.GangLemmasInv Sched.GangLemmasStmt Sched.GangLemmasCycle
                      Sched.GangLemmasShape Sched.GangLemmasMain Sched.GangLemmasEvict
                      Sched.LedgerCodec Sched.CycleCodec Sched.LedgerInv Sched.LedgerLemmasSound.
Open Scope Z_scope.

(* a session as a snapshot delivers it: no tentative allocation with a non-empty request *)
Definition no_tentative (s : sess) : Prop := kinv s ∅.

Lemma winv_intro w : gang_inv (w_sess w) -> refuse_bind (w_sess w) = ∅ -> stmts (w_sess w) = ∅ -> winv w.
Proof. intros H1 H2 H3. split; [done|]. split; [done|]. intros sid _. rewrite H3. apply lookup_empty. Qed.

Lemma run_app eps w a b : CycleModel.run eps w (a ++ b) = CycleModel.run eps (CycleModel.run eps w a) b.
Proof. unfold CycleModel.run. by rewrite fold_left_app. Qed.

Lemma guarded_app eps a : forall w b, guarded eps w (a ++ b) <-> guarded eps w a /\ guarded eps (CycleModel.run eps w a) b.
Proof.
  induction a as [|o a IH]; intros w b; simpl; [tauto|].
  rewrite IH. unfold CycleModel.run. simpl. tauto.
Qed.

(* ---------- W1: the gang theorem for action lists with at most one allocate ---------- *)

Theorem gang_ok_one_allocate_core eps w ops :
  gang_inv (w_sess w) -> refuse_bind (w_sess w) = ∅ -> stmts (w_sess w) = ∅ -> no_tentative (w_sess w) ->
  kept_free eps w ∅ ops ->
  binds_ok (w_sess w) (w_sess (CycleModel.run eps w ops)) /\ gang_inv (w_sess (CycleModel.run eps w ops)).
Proof.
  intros Hinv Href Hst Hnt Hkf. apply bind_only_when_gang_ok_core; try done.
  eapply kept_free_guarded; [by apply winv_intro|exact Hnt|exact Hkf].
Qed.

Theorem gang_ok_one_allocate eps w ops :
  ledger_inv (w_sess w) -> heap_members (w_sess w) ->
  refuse_bind (w_sess w) = ∅ -> stmts (w_sess w) = ∅ -> no_tentative (w_sess w) ->
  kept_free eps w ∅ ops ->
  binds_ok (w_sess w) (w_sess (CycleModel.run eps w ops)).
Proof.
  intros Hl Hm Href Hst Hnt Hkf.
  exact (proj1 (gang_ok_one_allocate_core eps w ops (ledger_inv_gang_inv _ Hl Hm) Href Hst Hnt Hkf)).
Qed.

(* purely syntactic: every job attempted at most once, the attempted tasks exist with a non-empty
   request in the snapshot; backfill placements anywhere *)
Theorem gang_ok_attempt_once eps w ops :
  ledger_inv (w_sess w) -> heap_members (w_sess w) ->
  refuse_bind (w_sess w) = ∅ -> stmts (w_sess w) = ∅ -> no_tentative (w_sess w) ->
  NoDup (attempt_jobs ops) -> static_non_be (w_sess w) ops ->
  binds_ok (w_sess w) (w_sess (CycleModel.run eps w ops)).
Proof.
  intros Hl Hm Href Hst Hnt Hnd Hsn.
  pose proof (ledger_inv_gang_inv _ Hl Hm) as Hinv.
  apply (gang_ok_one_allocate eps w ops Hl Hm Href Hst Hnt).
  apply (nodup_kept_free eps (w_sess w));
    [by apply winv_intro|exact Hnt|apply persist_refl|done|intros j _; set_solver|done].
Qed.

(* ---------- W7: the statement at bind time ---------- *)

(* the binds sent by step o are complete gangs in the session right after that step (not only at
   the end of the cycle), wherever the step occurs in the list *)
Theorem bind_time_gang_ok eps w ops1 o ops2 :
  gang_inv (w_sess w) -> refuse_bind (w_sess w) = ∅ -> stmts (w_sess w) = ∅ ->
  guarded eps w (ops1 ++ o :: ops2) ->
  let w1 := CycleModel.run eps w ops1 in
  let w2 := (CycleModel.step eps w1 o).1 in
  exists nb, binds (w_sess w2) = nb ++ binds (w_sess w1) /\ forall b, b ∈ nb -> bound_ok (w_sess w2) b.1.
Proof.
  intros Hinv Href Hst Hg w1 w2. apply guarded_app in Hg as [Hg1 [Hgo _]].
  destruct (run_spec eps ops1 w (winv_intro w Hinv Href Hst) Hg1) as [Hw1 _].
  destruct (step_spec eps w1 o Hw1 Hgo) as [_ (_ & _ & _ & nb & E & Hnb)]. by exists nb.
Qed.

(* ---------- W3: allocate / backfill followed by preempt / reclaim in the same session ---------- *)

(* the statements preempt / reclaim create are fresh: numbered from w_next_stmt on *)
Definition fresh_ids (w : world) (sid : positive) : Prop := (w_next_stmt w <= sid)%positive.

Theorem alloc_then_evict_no_new_bind eps w cops eops :
  gang_inv (w_sess w) -> refuse_bind (w_sess w) = ∅ -> stmts (w_sess w) = ∅ ->
  guarded eps w cops ->
  let w' := CycleModel.run eps w cops in
  Forall (evict_alphabet (fresh_ids w')) eops ->
  binds (StmtModel.run eps (w_sess w') eops) = binds (w_sess w') /\
  binds_ok (w_sess w) (w_sess w').
Proof.
  intros Hinv Href Hst Hg w' He. subst w'.
  destruct (run_spec eps cops w (winv_intro w Hinv Href Hst) Hg) as [(Hinv' & Href' & Hfresh') _].
  split.
  - apply (evict_ops_no_bind eps _ eops _ He).
    intros sid l HS E. rewrite (Hfresh' sid HS) in E. done.
  - exact (proj1 (bind_only_when_gang_ok_core eps w cops Hinv Href Hst Hg)).
Qed.

(* ---------- executable shape check ---------- *)

Fixpoint kept_freeb (eps : Z) (w : world) (K : gset positive) (ops : list cop) : bool :=
  match ops with
  | [] => true
  | CAttempt jid places :: r =>
      bool_decide (jid ∉ K) && places_non_beb (w_sess w) places &&
      kept_freeb eps (CycleModel.step eps w (CAttempt jid places)).1
                 (match attempt_decision eps w jid places with DCommit => K | _ => {[jid]} ∪ K end) r
  | CBackfill t n :: r => kept_freeb eps (CycleModel.step eps w (CBackfill t n)).1 K r
  end.

Lemma kept_freeb_sound eps ops : forall w K, kept_freeb eps w K ops = true -> kept_free eps w K ops.
Proof.
  induction ops as [|o ops IH]; intros w K; [done|]. destruct o as [jid places|t n]; simpl.
  - intros [[H1%bool_decide_eq_true H2]%andb_true_iff H3]%andb_true_iff. split; [done|]. split; [|by apply IH].
    pose proof (cop_guardb_sound w (CAttempt jid places)) as Hs. simpl in Hs.
    intros tid nid t Hin Et. unfold places_non_beb in H2. rewrite forallb_forall in H2.
    apply elem_of_list_In in Hin. specialize (H2 _ Hin). simpl in H2. rewrite Et in H2. by destruct (t_best_effort t).
  - apply IH.
Qed.

Definition no_tentativeb (s : sess) : bool :=
  forallb (fun it : positive * task => negb (bool_decide (t_status it.2 = Allocated)) || t_best_effort it.2)
          (map_to_list (heap s)).
Lemma no_tentativeb_sound s : no_tentativeb s = true -> no_tentative s.
Proof.
  intros H i t Et Hs Hb. pose proof (proj1 (forallb_forall _ _) H) as H'.
  apply elem_of_map_to_list, elem_of_list_In in Et. specialize (H' _ Et). simpl in H'.
  rewrite bool_decide_true in H' by done. simpl in H'. congruence.
Qed.

(* ---------- W5: the bind-fault boundary ---------- *)

(* with a refused AddBindTask in the middle of a Commit the earlier binds of the same gang stay
   sent: refuse_bind = {} cannot be dropped from the gang theorem (statement.go 426-433) *)
Definition fault_world : world :=
  let w := world_of (ex_case ex_cops 7000) in
  mkWorld (upd_faults (w_sess w) ∅ {[3%positive]} ∅ true) (w_queues w) (w_next_stmt w).

Definition fault_check : bool :=
  let w := fault_world in
  ginvb (heap (w_sess w)) (jobs (w_sess w)) && bool_decide (stmts (w_sess w) = ∅) &&
  no_tentativeb (w_sess w) && kept_freeb eps0 w ∅ ex_cops &&
  partial_bind_b (w_sess (CycleModel.run eps0 w ex_cops)) (2%positive, Some 1%positive) 2.
Lemma fault_check_true : fault_check = true.
Proof. vm_compute. reflexivity. Qed.

Theorem bind_fault_refuted :
  exists eps w ops,
    gang_inv (w_sess w) /\ stmts (w_sess w) = ∅ /\ no_tentative (w_sess w) /\ kept_free eps w ∅ ops /\
    refuse_bind (w_sess w) <> ∅ /\
    let s' := w_sess (CycleModel.run eps w ops) in
    exists b j, b ∈ binds s' /\ (exists t, heap s' !! b.1 = Some t /\ jobs s' !! t_job t = Some j) /\ ~ gang_ok (heap s') j.
Proof.
  exists eps0, fault_world, ex_cops. pose proof fault_check_true as H. unfold fault_check in H.
  apply andb_true_iff in H as [H H5]. apply andb_true_iff in H as [H H4]. apply andb_true_iff in H as [H H3].
  apply andb_true_iff in H as [H1 H2].
  split; [by apply ginvb_sound|]. split; [by apply bool_decide_eq_true in H2|].
  split; [by apply no_tentativeb_sound|]. split; [by apply kept_freeb_sound|].
  split; [intros E; assert (Hin : (3%positive) ∈ refuse_bind (w_sess fault_world)) by (vm_compute; set_solver); rewrite E in Hin; set_solver|].
  destruct (partial_bind_b_sound _ _ _ H5) as (j & Hj). exists (2%positive, Some 1%positive), j. exact Hj.
Qed.

(* ---------- W4: consecutive cycles as a history ---------- *)

(* the indexes of a job recomputed from the heap *)
Definition index_of (h : gmap positive task) (ids : gset positive) : gmap positive (gset positive) :=
  list_to_map (map (fun st => (skey st, filter (fun i => status_at h i = Some st) ids)) all_status).

Lemma idx_set_index_of h ids st : idx_set (index_of h ids) st = filter (fun i => status_at h i = Some st) ids.
Proof.
  unfold idx_set, index_of, all_status. cbn [map list_to_map foldr].
  destruct st; cbn [skey]; repeat (rewrite lookup_insert_ne by done); by rewrite lookup_insert.
Qed.

Definition reindex (h : gmap positive task) (j : job) : job :=
  mkJob (j_id j) (j_queue j) (j_min j) (j_role_min j) (j_role_total j) (j_tasks j) (index_of h (j_tasks j))
        (j_alloc j) (j_total j) (j_subs j) (j_task_sub j).

(* the session the next cycle starts from, as far as the gang theorem looks at it: binds fed back
   (Binding -> Bound), tentative statuses gone, indexes recomputed from the new statuses, no
   statement, empty logs.  Node and job resource ledgers are NOT rebuilt here (C07 / C02 own them). *)
Definition next_sess (s : sess) : sess :=
  let h := next_heap (heap s) in
  mkSess h (reindex h <$> jobs s) (nodes s) (hshare s) [] (herr s) ∅ (refuse_evict s) [] [] ∅ ∅ true.

Definition next_world (w : world) : world := mkWorld (next_sess (w_sess w)) (w_queues w) 1.

Lemma next_heap_lookup h i : next_heap h !! i = (fun t => set_status t (feed_status (t_status t))) <$> h !! i.
Proof. unfold next_heap. by rewrite lookup_fmap. Qed.

Lemma next_sess_gang_inv s : gang_inv s -> gang_inv (next_sess s).
Proof.
  intros (Ha & Hb & Hc). unfold gang_inv, next_sess. cbn [heap jobs]. split; [|split].
  - intros i t'. rewrite next_heap_lookup. destruct (heap s !! i) as [t|] eqn:E; [|done].
    simpl. intros [= <-]. simpl. by apply Ha.
  - intros jid j'. rewrite lookup_fmap. destruct (jobs s !! jid) as [j|] eqn:Ej; [|done].
    simpl. intros [= <-]. destruct (Hb _ _ Ej) as [Hts _]. split.
    + intros i Hi. simpl in Hi. destruct (Hts i Hi) as (t & Et & Hj). eexists. rewrite next_heap_lookup, Et. split; [reflexivity|done].
    + intros st i. simpl. rewrite idx_set_index_of, elem_of_filter. unfold status_at.
      destruct (next_heap (heap s) !! i) as [t|]; simpl; naive_solver.
  - intros i t' j'. rewrite next_heap_lookup. destruct (heap s !! i) as [t|] eqn:E; [|done].
    simpl. intros [= <-]. simpl. rewrite lookup_fmap. destruct (jobs s !! t_job t) as [j|] eqn:Ej; [|done].
    simpl. intros [= <-]. simpl. by eapply Hc.
Qed.

Lemma next_sess_no_tentative s : no_tentative (next_sess s).
Proof.
  intros i t E Hs _. exfalso. unfold next_sess in E. cbn [heap] in E.
  destruct (proj1 (cycles_compose (heap s) (mkJob 1 1 0 ∅ 0 ∅ ∅ empty_res empty_res ∅ ∅)) i t E) as [H _]. done.
Qed.

(* every cycle runs a choice list of the one-allocate shape, from the session fed back by the
   previous one *)
Fixpoint cycles_shape (eps : Z) (w : world) (cs : list (list cop)) : Prop :=
  match cs with
  | [] => True
  | ops :: r => kept_free eps w ∅ ops /\ cycles_shape eps (next_world (CycleModel.run eps w ops)) r
  end.
Fixpoint cycles_binds_ok (eps : Z) (w : world) (cs : list (list cop)) : Prop :=
  match cs with
  | [] => True
  | ops :: r => binds_ok (w_sess w) (w_sess (CycleModel.run eps w ops)) /\
                cycles_binds_ok eps (next_world (CycleModel.run eps w ops)) r
  end.

Theorem cycles_gang_ok eps cs : forall w,
  gang_inv (w_sess w) -> refuse_bind (w_sess w) = ∅ -> stmts (w_sess w) = ∅ -> no_tentative (w_sess w) ->
  cycles_shape eps w cs -> cycles_binds_ok eps w cs.
Proof.
  induction cs as [|ops cs IH]; intros w Hinv Href Hst Hnt Hsh; [done|]. destruct Hsh as [Hkf Hsh].
  destruct (gang_ok_one_allocate_core eps w ops Hinv Href Hst Hnt Hkf) as [Hok Hinv'].
  split; [done|]. apply IH; try done.
  - by apply next_sess_gang_inv.
  - apply next_sess_no_tentative.
Qed.

(* a gang complete at the end of a cycle is complete in the next cycle's session *)
Lemma next_sess_gang_ok s jid j : jobs s !! jid = Some j -> gang_ok (heap s) j ->
  exists j', jobs (next_sess s) !! jid = Some j' /\ gang_ok (heap (next_sess s)) j'.
Proof.
  intros Ej Hok. exists (reindex (next_heap (heap s)) j). unfold next_sess. cbn [heap jobs].
  rewrite lookup_fmap, Ej. split; [done|]. exact (proj2 (cycles_compose (heap s) j) Hok).
Qed.

(* ---------- W8: richer non-vacuity ---------- *)

(* two gangs and a best-effort pod: job 2 (minMember 2 of 3 pods) is attempted, committed, and
   attempted AGAIN for its third pod (the re-push after Commit that kept_free allows); job 3
   (minMember 2, one pod with an empty request) gets one attempt and a backfill placement *)
Definition ex2_case (cops : list cop) : cycle_case :=
  mkCycle eps0
    [mkNodeSpec 1 true 8000 (64 * 1048576) 16 0]
    [mkQSpec 1 true 1 0 0]
    [mkJobSpec 2 1 2 []; mkJobSpec 3 1 2 []]
    [mkT 2 2 1 9 1000 Pending None; mkT 3 2 1 8 1000 Pending None; mkT 4 2 1 1 1000 Pending None;
     mkT 5 3 1 5 1000 Pending None; mkT 6 3 1 0 0 Pending None]
    false [1; 2] [] cops.
Definition ex2_cops : list cop :=
  [CAttempt 2 [(2, 1); (3, 1)]; CAttempt 3 [(5, 1)]; CAttempt 2 [(4, 1)]; CBackfill 6 1]%positive.

Definition hyps2_okb (c : cycle_case) : bool :=
  let w := world_of c in
  heap_nonnegb (heap (w_sess w)) && ledger_okb (heap (w_sess w)) (jobs (w_sess w)) (nodes (w_sess w)) &&
  ginvb (heap (w_sess w)) (jobs (w_sess w)) &&
  bool_decide (refuse_bind (w_sess w) = ∅) && bool_decide (stmts (w_sess w) = ∅) &&
  no_tentativeb (w_sess w) && kept_freeb (cc_eps c) w ∅ (cc_cops c).

Example ex2_computes : hyps2_okb (ex2_case ex2_cops) = true /\
  binds_of (ex2_case ex2_cops) = [(6, Some 1); (4, Some 1); (5, Some 1); (3, Some 1); (2, Some 1)]%positive.
Proof. vm_compute. repeat split. Qed.

(* the headline theorem (with ledger_inv) instantiated: five binds, all of complete gangs *)
Example ex2_theorem_applies :
  let c := ex2_case ex2_cops in
  binds_ok (w_sess (world_of c)) (w_sess (CycleModel.run (cc_eps c) (world_of c) (cc_cops c))) /\
  length (binds_of c) = 5%nat.
Proof.
  intros c. assert (Hc : hyps2_okb c = true) by (vm_compute; reflexivity). unfold hyps2_okb in Hc.
  apply andb_true_iff in Hc as [Hc H7]. apply andb_true_iff in Hc as [Hc H6]. apply andb_true_iff in Hc as [Hc H5].
  apply andb_true_iff in Hc as [Hc H4]. apply andb_true_iff in Hc as [Hc H3].
  pose proof (ledger_okb_sound_b _ Hc) as Hl. pose proof (ginvb_sound _ _ H3) as Hg.
  split; [|vm_compute; reflexivity].
  apply gang_ok_one_allocate; [exact Hl|exact (proj2 (proj2 Hg))|by apply bool_decide_eq_true in H4|
    by apply bool_decide_eq_true in H5|by apply no_tentativeb_sound|by apply kept_freeb_sound].
Qed.

(* F10 has the forbidden shape: the second attempt follows a kept one *)
Example f10_not_kept_free : kept_freeb eps0 f10_world ∅ f10_cops = false.
Proof. vm_compute. reflexivity. Qed.
