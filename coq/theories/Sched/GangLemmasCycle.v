(* C01, part 4: the action skeleton (CycleModel) binds a task only when its gang is complete
   in the cluster-visible sense, and a complete gang stays complete until the end of the cycle. *)
From stdpp Require Import gmap.
From Coq Require Import ZArith Lia.
From V Require Import Base.Res Sched.LedgerModel Sched.StmtModel Sched.GangModel Sched.CycleModel Sched.LedgerInvP
                      Sched.GangLemmas Sched.GangLemmasInv Sched.GangLemmasStmt.
Open Scope Z_scope.

(* ---------- counting under a change of heap ---------- *)

Lemma filter_length_mono {A} (f g : A -> bool) (l : list A) :
  (forall x, x ∈ l -> f x = true -> g x = true) -> (length (List.filter f l) <= length (List.filter g l))%nat.
Proof.
  induction l as [|a l IH]; intros H; [done|]. simpl.
  assert (IH' : (length (List.filter f l) <= length (List.filter g l))%nat).
  { apply IH. intros x Hx. apply H. by right. }
  destruct (f a) eqn:Ef.
  - rewrite (H a) by (done || left). simpl. lia.
  - destruct (g a); simpl; lia.
Qed.

Lemma count_heap_mono h h' ids (p p' : task -> bool) :
  (forall i t, i ∈ ids -> h !! i = Some t -> p t = true -> exists t', h' !! i = Some t' /\ p' t' = true) ->
  count_tasks p (tasks_in h ids) <= count_tasks p' (tasks_in h' ids).
Proof.
  intros H. unfold count_tasks, tasks_in. rewrite !filter_tasks_in. apply inj_le.
  apply filter_length_mono. intros i Hi%elem_of_elements. unfold holds.
  destruct (h !! i) as [t|] eqn:E; [|done]. intros Hp.
  destruct (H i t Hi E Hp) as (t' & -> & Hp'). done.
Qed.

Lemma gang_cond_mono (p p' : task -> bool) h h' j j' :
  gang_cond p h j -> jstatic j j' ->
  (forall i t, i ∈ j_tasks j -> h !! i = Some t -> p t = true ->
     exists t', h' !! i = Some t' /\ t_role t' = t_role t /\ p' t' = true) ->
  gang_cond p' h' j'.
Proof.
  intros [Hmin Hroles] (Emin & Erm & Ert & Ets) H. unfold gang_cond. rewrite Emin, Erm, Ert, Ets. split.
  - etrans; [exact Hmin|]. apply count_heap_mono. intros i t Hi E Hp.
    destruct (H i t Hi E Hp) as (t' & E' & _ & Hp'). eauto.
  - intros Hle r m Hr. etrans; [by apply Hroles|]. apply count_heap_mono. intros i t Hi E Hp.
    apply andb_true_iff in Hp as [Hp Hrole].
    destruct (H i t Hi E Hp) as (t' & E' & Hr' & Hp'). exists t'. split; [done|].
    apply andb_true_iff. split; [done|]. unfold in_role in *. by rewrite Hr'.
Qed.

(* ---------- persistence of the cluster-visible state ---------- *)

Definition persist (s s' : sess) : Prop :=
  (forall i t, heap s !! i = Some t -> exists t', heap s' !! i = Some t' /\ same_meta t t' /\
      (cluster_ready t = true -> cluster_ready t' = true) /\ (t_status t = Binding -> t_status t' = Binding)) /\
  jobs_static (jobs s) (jobs s').

Lemma persist_refl s : persist s s.
Proof.
  split; [|apply jobs_static_refl]. intros i t E. exists t. split; [done|]. split; [apply same_meta_refl|done].
Qed.
Lemma persist_trans a b c : persist a b -> persist b c -> persist a c.
Proof.
  intros [H1 J1] [H2 J2]. split; [|by eapply jobs_static_trans].
  intros i t E. destruct (H1 i t E) as (t1 & E1 & M1 & C1 & B1).
  destruct (H2 i t1 E1) as (t2 & E2 & M2 & C2 & B2). exists t2. split; [done|].
  split; [by eapply same_meta_trans|]. split; [auto|auto].
Qed.

Lemma cluster_ready_status t t' : t_status t' = t_status t -> t_best_effort t' = t_best_effort t ->
  cluster_ready t' = cluster_ready t.
Proof. unfold cluster_ready. by intros -> ->. Qed.

Lemma cluster_ready_binding t : t_status t = Binding -> cluster_ready t = true.
Proof. unfold cluster_ready. by intros ->. Qed.

Lemma touched_persist s s' i p p' : touched s s' i p p' ->
  (cluster_ready p = true -> cluster_ready p' = true) -> (t_status p = Binding -> t_status p' = Binding) ->
  persist s s'.
Proof.
  intros [H1 H2 H3 H4 H5 H6] Hc Hb. split; [|done]. intros k t E.
  destruct (base.decide (k = i)) as [->|Hne].
  - exists p'. rewrite H2, lookup_insert. rewrite H1 in E. injection E as <-. done.
  - exists t. rewrite H2, lookup_insert_ne by done. split; [done|]. split; [apply same_meta_refl|done].
Qed.

Lemma bound_batch_persist s s' B : bound_batch s s' B -> persist s s'.
Proof.
  intros Hbb. split; [|exact (bb_jobs _ _ _ Hbb)]. intros i t E.
  destruct (bb_heap _ _ _ Hbb i t E) as (t' & E' & M & [->|[Hb _]]).
  - exists t. split; [done|]. split; [apply same_meta_refl|done].
  - exists t'. split; [done|]. split; [done|]. split; [intros _; by apply cluster_ready_binding|done].
Qed.

(* a task for which a bind went out, seen at session s *)
Definition bound_ok (s : sess) (i : positive) : Prop :=
  exists t j, heap s !! i = Some t /\ t_status t = Binding /\ jobs s !! t_job t = Some j /\ gang_ok (heap s) j.

Lemma bound_ok_persist s s' i : bound_ok s i -> persist s s' -> bound_ok s' i.
Proof.
  intros (t & j & E & Hb & Ej & Hok) [Hh Hj].
  destruct (Hh i t E) as (t' & E' & (_ & Hjob & _) & _ & Hb').
  destruct (jobs_static_some _ _ _ _ Hj Ej) as (j' & Ej' & Hs).
  exists t', j'. split; [done|]. split; [auto|]. split; [by rewrite Hjob|].
  apply gang_ok_cond. apply gang_ok_cond in Hok.
  eapply gang_cond_mono; [exact Hok|exact Hs|].
  intros k u _ Eu Hu. destruct (Hh k u Eu) as (u' & Eu' & (_ & _ & Hr & _) & Hc & _). eauto.
Qed.

(* session-ready at h becomes cluster-ready at h': the bridge used at every bind *)
Lemma ready_to_ok h h' j j' :
  idx_ok h (j_tasks j) (j_index j) -> gang_job_ready h j = true -> jstatic j j' ->
  (forall i t, i ∈ j_tasks j -> h !! i = Some t -> session_ready t = true ->
     exists t', h' !! i = Some t' /\ t_role t' = t_role t /\ cluster_ready t' = true) ->
  gang_ok h' j'.
Proof.
  intros Hix Hr Hs H. apply gang_ok_cond. destruct (gang_ready_spec_idx h j Hix) as [Hspec _].
  apply Hspec in Hr. by eapply gang_cond_mono.
Qed.

Lemma session_ready_not_alloc t : session_ready t = true -> t_status t <> Allocated -> cluster_ready t = true.
Proof. unfold session_ready, slot_counted, cluster_ready. destruct (t_status t); done. Qed.
Lemma session_ready_be t : session_ready t = true -> t_best_effort t = true -> cluster_ready t = true.
Proof. unfold session_ready, slot_counted, cluster_ready. destruct (t_status t); try done; by intros _ ->. Qed.

Section WithEps.
Variable eps : Z.

(* ---------- backfill: Session.Allocate with its dispatch ---------- *)

Definition step_out (s s' : sess) : Prop :=
  gang_inv s' /\ refuse_bind s' = refuse_bind s /\ persist s s' /\
  exists nb, binds s' = nb ++ binds s /\ forall b, b ∈ nb -> bound_ok s' b.1.

Lemma step_out_refl s : gang_inv s -> step_out s s.
Proof.
  intros H. split; [done|]. split; [done|]. split; [apply persist_refl|].
  exists []. split; [done|]. intros b Hb. by apply elem_of_nil in Hb.
Qed.

Lemma step_out_quiet s s' : gang_inv s' -> refuse_bind s' = refuse_bind s -> persist s s' -> binds s' = binds s ->
  step_out s s'.
Proof.
  intros H1 H2 H3 H4. split; [done|]. split; [done|]. split; [done|].
  exists []. split; [done|]. intros b Hb. by apply elem_of_nil in Hb.
Qed.

(* no task with a non-empty request becomes (or stays, changed) Allocated: such a task of s' is the same object in s *)
Definition alloc_kept (s s' : sess) : Prop :=
  forall i t', heap s' !! i = Some t' -> t_status t' = Allocated -> t_best_effort t' = false -> heap s !! i = Some t'.
Lemma alloc_kept_refl s : alloc_kept s s. Proof. by intros i t' E _ _. Qed.
Lemma alloc_kept_trans a b c : alloc_kept a b -> alloc_kept b c -> alloc_kept a c.
Proof. intros H1 H2 i t' E Hs Hb. apply H1; [|done|done]. by apply H2. Qed.
Lemma touched_alloc_kept s s' i p p' : touched s s' i p p' -> t_best_effort p = true -> alloc_kept s s'.
Proof.
  intros [H1 H2 (_ & _ & _ & Hbe) _ _ _] Hp k t' E Hs Hb. rewrite H2 in E.
  apply lookup_insert_Some in E as [[<- <-]|[_ E]]; [congruence|done].
Qed.
Lemma bound_batch_alloc_kept s s' B : bound_batch s s' B -> alloc_kept s s'.
Proof.
  intros Hbb i t' E Hs Hb. destruct (heap s !! i) as [t|] eqn:Et.
  - destruct (bb_heap _ _ _ Hbb i t Et) as (t'' & E'' & _ & [->|[Hbi _]]); rewrite E in E''; injection E'' as <-; [done|congruence].
  - rewrite (bb_dom _ _ _ Hbb i Et) in E. done.
Qed.

Lemma revert_spec s2 p2 : gang_inv s2 -> heap s2 !! t_id p2 = Some p2 ->
  exists p', touched s2 (let '(_, sr, pr) := ssn_update_status s2 p2 Pending in put_task sr (set_node pr None)) (t_id p2) p2 p' /\
    (t_status p' = Pending \/ t_status p' = t_status p2) /\
    binds (let '(_, sr, pr) := ssn_update_status s2 p2 Pending in put_task sr (set_node pr None)) = binds s2 /\
    stmts (let '(_, sr, pr) := ssn_update_status s2 p2 Pending in put_task sr (set_node pr None)) = stmts s2.
Proof.
  intros Hinv Hp.
  destruct (touched_update s2 p2 Pending Hinv Hp) as (found & s1 & p1 & E & Hf & Hst & Ht & Hs & Hb).
  rewrite E. pose proof (tc_meta _ _ _ _ _ Ht) as (Hid1 & _).
  exists (set_node p1 None). split; [|split; [|split]].
  - eapply touched_trans; [exact Ht|]. apply touched_put.
    + exact (tc_inv _ _ _ _ _ Ht).
    + exact (touched_new _ _ _ _ _ Ht).
    + apply same_meta_set_node.
    + done.
    + simpl. by rewrite Hid1.
    + done.
    + done.
  - simpl. destruct found; [by left|right; by subst].
  - simpl. done.
  - simpl. done.
Qed.

Lemma backfill_spec s tid nid p :
  gang_inv s -> refuse_bind s = ∅ -> heap s !! tid = Some p -> t_status p = Pending -> t_best_effort p = true ->
  exists s' r, ssn_place_with eps (fun s j => gang_job_ready (heap s) j) s KAllocate tid nid = (s', r) /\
    step_out s s' /\ stmts s' = stmts s /\ alloc_kept s s'.
Proof.
  intros Hinv Href Hp Hpend Hbe.
  assert (Hid : t_id p = tid) by (destruct Hinv as (Ha & _); by apply Ha).
  unfold ssn_place_with. rewrite Hp. rewrite <- Hid in Hp.
  destruct (touched_update s p Allocated Hinv Hp) as (found & s1 & p1 & E & Hf & Hst & Ht1 & Hs1 & Hb1).
  rewrite E. destruct found; simpl negb; cbv iota.
  2:{ exists s, RErr. split; [done|]. split; [by apply step_out_refl|]. split; [done|apply alloc_kept_refl]. }
  pose proof (tc_meta _ _ _ _ _ Ht1) as (Hid1 & Hjob1 & _ & Hbe1).
  set (p2 := set_node p1 (Some nid)).
  set (s2 := put_task s1 p2).
  assert (Ht2 : touched s s2 (t_id p) p p2).
  { eapply touched_trans; [exact Ht1|]. apply touched_put.
    - exact (tc_inv _ _ _ _ _ Ht1).
    - exact (touched_new _ _ _ _ _ Ht1).
    - apply same_meta_set_node.
    - done.
    - simpl. by rewrite Hid1.
    - done.
    - done. }
  assert (Hid2 : t_id p2 = t_id p) by (simpl; done).
  assert (Hp2 : heap s2 !! t_id p2 = Some p2) by (rewrite Hid2; exact (touched_new _ _ _ _ _ Ht2)).
  assert (Hst2 : t_status p2 = Allocated) by (simpl; done).
  (* the revert branch *)
  assert (Hrevert : forall r0 : result, exists (s' : sess) (r : result),
     ((let '(_, sr, pr) := ssn_update_status s2 p2 Pending in put_task sr (set_node pr None)), r0) = (s', r) /\
     step_out s s' /\ stmts s' = stmts s /\ alloc_kept s s').
  { intros r0. destruct (revert_spec s2 p2 (tc_inv _ _ _ _ _ Ht2) Hp2) as (p' & Ht' & Hst' & Hb' & Hs').
    eexists _, r0. split; [reflexivity|]. rewrite Hid2 in Ht'.
    pose proof (touched_trans _ _ _ _ _ _ _ Ht2 Ht') as Ht.
    pose proof (tc_meta _ _ _ _ _ Ht) as (_ & _ & _ & Hbe').
    split; [|split; [rewrite Hs'; simpl; done|eapply touched_alloc_kept; [exact Ht|done]]].
    apply step_out_quiet.
    - exact (tc_inv _ _ _ _ _ Ht).
    - exact (tc_refuse _ _ _ _ _ Ht).
    - eapply touched_persist; [exact Ht| |].
      + intros _. unfold cluster_ready. destruct Hst' as [->| ->]; [congruence|]. rewrite Hst2. congruence.
      + rewrite Hpend. done.
    - rewrite Hb'. simpl. done. }
  destruct (nodes s2 !! nid) as [n|] eqn:En; [|apply Hrevert].
  destruct (node_add eps n p2) as [[n' p3]|e] eqn:Eadd; [|apply Hrevert].
  clear Hrevert. apply node_add_task in Eadd. subst p3.
  set (p3 := set_node p2 (Some (n_id n))).
  set (s3 := put_task (upd_nodes s2 (<[nid := n']> (nodes s2))) p3).
  assert (Ht3 : touched s s3 (t_id p) p p3).
  { eapply touched_trans; [exact Ht2|]. apply touched_put.
    - exact (tc_inv _ _ _ _ _ Ht2).
    - exact (touched_new _ _ _ _ _ Ht2).
    - apply same_meta_set_node.
    - done.
    - simpl. by rewrite Hid1.
    - done.
    - done. }
  unfold h_alloc.
  set (s4 := upd_handlers s3 _ _).
  assert (Ht4 : touched s s4 (t_id p) p p3) by (eapply touched_hj; [exact Ht3|done]).
  assert (Hst3 : t_status p3 = Allocated) by (simpl; done).
  assert (Hbe3 : t_best_effort p3 = true) by (simpl; congruence).
  assert (Hs4 : stmts s4 = stmts s) by (simpl; done).
  assert (Hb4 : binds s4 = binds s) by (simpl; done).
  assert (Hpers4 : persist s s4).
  { eapply touched_persist; [exact Ht4| |].
    - intros _. unfold cluster_ready. by rewrite Hst3.
    - rewrite Hpend. done. }
  pose proof (tc_inv _ _ _ _ _ Ht4) as Hinv4.
  assert (Hquiet : step_out s s4).
  { apply step_out_quiet; [done|exact (tc_refuse _ _ _ _ _ Ht4)|done|done]. }
  assert (Hak4 : alloc_kept s s4) by (eapply touched_alloc_kept; [exact Ht4|done]).
  destruct (jobs s4 !! t_job p) as [j4|] eqn:Ej4; [|by exists s4, ROk].
  destruct (gang_job_ready (heap s4) j4) eqn:Eready; [|by exists s4, ROk].
  (* dispatch every Allocated task of the job *)
  destruct Hinv4 as (Ha4 & Hb4' & Hc4).
  destruct (Hb4' _ _ Ej4) as [Hts4 Hix4].
  set (l := elements (default ∅ (j_index j4 !! skey Allocated))).
  assert (Hl : forall i, i ∈ l <-> i ∈ j_tasks j4 /\ exists t, heap s4 !! i = Some t /\ t_status t = Allocated).
  { intros i. unfold l. rewrite elem_of_elements. apply (Hix4 Allocated i). }
  assert (Hbindable : Forall (bindable s4) l).
  { apply Forall_forall. intros i [Hi (t & Et & _)]%Hl.
    destruct (Hts4 i Hi) as (t' & Et' & Hjob'). rewrite Et in Et'. injection Et' as <-.
    exists t. split; [done|]. rewrite Hjob'. eauto. }
  assert (Href4 : refuse_bind s4 = ∅) by (rewrite (tc_refuse _ _ _ _ _ Ht4); done).
  destruct (dispatch_all_spec s4 l s4 [] (bound_batch_refl s4 (conj Ha4 (conj Hb4' Hc4))) Href4 Hbindable)
    as (s5 & E5 & Hbb).
  rewrite E5. simpl in Hbb. exists s5, ROk. split; [done|].
  split; [|split; [rewrite (bb_stmts _ _ _ Hbb); done|eapply alloc_kept_trans; [exact Hak4|by eapply bound_batch_alloc_kept]]].
  destruct (jobs_static_some _ _ _ _ (bb_jobs _ _ _ Hbb) Ej4) as (j5 & Ej5 & Hs5).
  assert (Hok : gang_ok (heap s5) j5).
  { eapply ready_to_ok; [exact Hix4|exact Eready|exact Hs5|].
    intros i t Hi Et Hsr.
    destruct (bb_heap _ _ _ Hbb i t Et) as (t' & Et' & (_ & _ & Hr' & Hbe') & Hc).
    exists t'. split; [done|]. split; [done|].
    destruct Hc as [->|[Hb _]]; [|by apply cluster_ready_binding].
    destruct (base.decide (t_status t = Allocated)) as [Hal|Hnal]; [|by apply session_ready_not_alloc].
    assert (Hil : i ∈ l) by (apply Hl; eauto).
    destruct (bb_done _ _ _ Hbb i Hil) as (t'' & Et'' & Hb''). rewrite Et' in Et''. injection Et'' as <-.
    by apply cluster_ready_binding. }
  split; [exact (bb_inv _ _ _ Hbb)|]. split; [rewrite (bb_refuse _ _ _ Hbb); exact (tc_refuse _ _ _ _ _ Ht4)|].
  split; [eapply persist_trans; [exact Hpers4|by eapply bound_batch_persist]|].
  destruct (bb_binds _ _ _ Hbb) as (nb & Enb & Hnb). exists nb. split; [rewrite Enb, Hb4; done|].
  intros b Hb. specialize (Hnb b Hb). destruct (bb_done _ _ _ Hbb _ Hnb) as (t & Et & Hbt).
  apply Hl in Hnb as [Hi (t4 & Et4 & _)].
  destruct (Hts4 _ Hi) as (t4' & Et4' & Hjob4). rewrite Et4 in Et4'. injection Et4' as <-.
  destruct (bb_heap _ _ _ Hbb _ _ Et4) as (t' & Et' & (_ & Hjob' & _) & _).
  rewrite Et in Et'. injection Et' as <-.
  exists t, j5. split; [done|]. split; [done|]. split; [by rewrite Hjob', Hjob4|done].
Qed.

(* ---------- the task loop of an attempt ---------- *)

Lemma try_place_spec s sid tid nid p : gang_inv s -> heap s !! tid = Some p ->
  exists s' pl, try_place eps s sid tid nid = (s', pl) /\
   (s' = s \/
    exists k p', k <> KEvict /\ touched s s' tid p p' /\ binds s' = binds s /\
      ((t_status p' = placed_status k /\
        stmts s' = <[sid := default [] (stmts s !! sid) ++ [mkOp k tid Pending]]> (stmts s))
       \/ (stmts s' = stmts s /\ (t_status p' = Pending \/ t_status p' = t_status p)))).
Proof.
  intros Hinv Ep. unfold try_place. rewrite Ep.
  destruct (nodes s !! nid) as [n|]; [|by exists s, PlaceRefused; split; [|left]].
  assert (Hid : t_id p = tid) by (destruct Hinv as (Ha & _); by apply Ha).
  destruct (negb _); [by exists s, PlacedNone; split; [|left]|].
  assert (Hgen : forall k (f : result -> placement), k <> KEvict -> exists s' pl,
    (let '(s', r) := with_task s tid (fun p => place_with eps s sid k p nid) in (s', f r)) = (s', pl) /\
    (s' = s \/
    exists k p', k <> KEvict /\ touched s s' tid p p' /\ binds s' = binds s /\
      ((t_status p' = placed_status k /\
        stmts s' = <[sid := default [] (stmts s !! sid) ++ [mkOp k tid Pending]]> (stmts s))
       \/ (stmts s' = stmts s /\ (t_status p' = Pending \/ t_status p' = t_status p))))).
  { intros k f Hk. unfold with_task. rewrite Ep. rewrite <- Hid in Ep.
    destruct (place_with_spec eps s sid k p nid Hinv Ep) as (s' & r & p' & E & Ht & Hb & Hcase).
    rewrite E. exists s', (f r). split; [done|]. right. rewrite Hid in *.
    exists k, p'. split; [done|]. split; [done|]. split; [done|].
    destruct Hcase as [(_ & H1 & H2)|(_ & H1 & H2)]; [left|right]; done. }
  destruct (less_equal eps (t_init p) (n_idle n) DZero).
  - exact (Hgen KAllocate (fun r => match r with ROk => PlacedAlloc | _ => PlaceRefused end) ltac:(done)).
  - destruct (less_equal eps (t_init p) (future_idle n) DZero).
    + exact (Hgen KPipeline (fun r => match r with ROk => PlacedPipe | _ => PlaceRefused end) ltac:(done)).
    + exists s, PlacedNone. split; [done|by left].
Qed.

Definition was_pending (s0 : sess) (jid i : positive) : Prop :=
  exists t0, heap s0 !! i = Some t0 /\ t_status t0 = Pending /\ t_best_effort t0 = false /\ t_job t0 = jid.

Record dp (s0 s : sess) (sid jid : positive) : Prop := {
  dp_inv : gang_inv s;
  dp_refuse : refuse_bind s = refuse_bind s0;
  dp_binds : binds s = binds s0;
  dp_stmts : forall sid', sid' <> sid -> stmts s !! sid' = stmts s0 !! sid';
  dp_ops : Forall (fun o => op_kind o <> KEvict /\ was_pending s0 jid (op_task o)) (default [] (stmts s !! sid));
  dp_jobs : jobs_static (jobs s0) (jobs s);
  dp_heap : forall i t0, heap s0 !! i = Some t0 -> exists t, heap s !! i = Some t /\ same_meta t0 t /\
      (t_status t = t_status t0 \/
       (was_pending s0 jid i /\
        (t_status t = Pending \/ t_status t = Pipelined \/
         (t_status t = Allocated /\ mkOp KAllocate i Pending ∈ default [] (stmts s !! sid)))));
  dp_dom : forall i, heap s0 !! i = None -> heap s !! i = None;
}.

Lemma dp_refl s0 sid jid : gang_inv s0 -> stmts s0 !! sid = None -> dp s0 s0 sid jid.
Proof.
  intros Hinv Hfresh. split; try done.
  - rewrite Hfresh. simpl. constructor.
  - apply jobs_static_refl.
  - intros i t0 E. exists t0. split; [done|]. split; [apply same_meta_refl|by left].
Qed.

Lemma dp_origin s0 s sid jid i p : dp s0 s sid jid -> heap s !! i = Some p ->
  exists t0, heap s0 !! i = Some t0 /\ same_meta t0 p /\
    (t_status p = t_status t0 \/ was_pending s0 jid i).
Proof.
  intros Hdp Ep. destruct (heap s0 !! i) as [t0|] eqn:E0.
  - destruct (dp_heap _ _ _ _ Hdp i t0 E0) as (t & Et & Hm & Hc). rewrite Ep in Et. injection Et as <-.
    exists t0. split; [done|]. split; [done|]. destruct Hc as [?|[? _]]; [by left|by right].
  - rewrite (dp_dom _ _ _ _ Hdp i E0) in Ep. done.
Qed.

Lemma dp_step s0 s sid jid tid nid p :
  dp s0 s sid jid -> heap s !! tid = Some p -> t_status p = Pending -> t_job p = jid -> t_best_effort p = false ->
  exists s' pl, try_place eps s sid tid nid = (s', pl) /\ dp s0 s' sid jid.
Proof.
  intros Hdp Ep Hpend Hjob Hbe.
  destruct (try_place_spec s sid tid nid p (dp_inv _ _ _ _ Hdp) Ep) as (s' & pl & E & Hcase).
  exists s', pl. split; [done|]. destruct Hcase as [->|(k & p' & Hk & Ht & Hb & Hcase)]; [done|].
  destruct (dp_origin _ _ _ _ _ _ Hdp Ep) as (t0 & E0 & Hm0 & Hc0).
  assert (Hwas : was_pending s0 jid tid).
  { destruct Hc0 as [Hc0|?]; [|done]. destruct Hm0 as (_ & Hj0 & _ & Hb0).
    exists t0. split; [done|]. split; [congruence|]. split; congruence. }
  destruct Ht as [H1 H2 H3 H4 H5 H6].
  destruct Hdp as [Dinv Dref Dbinds Dstmts Dops Djobs Dheap Ddom].
  destruct Hcase as [[Hst Hs]|[Hs Hst]].
  - (* placed *)
    assert (Hops : default [] (stmts s' !! sid) = default [] (stmts s !! sid) ++ [mkOp k tid Pending])
      by (by rewrite Hs, lookup_insert).
    split.
    + done.
    + congruence.
    + congruence.
    + intros sid' Hne. rewrite Hs, lookup_insert_ne by done. by apply Dstmts.
    + rewrite Hops. apply Forall_app. split; [done|]. constructor; [|constructor]. done.
    + by eapply jobs_static_trans.
    + intros i u0 Eu0. destruct (Dheap i u0 Eu0) as (u & Eu & Hmu & Hcu).
      destruct (base.decide (i = tid)) as [->|Hne].
      * exists p'. rewrite H2, lookup_insert. split; [done|].
        rewrite Ep in Eu. injection Eu as <-. split; [by eapply same_meta_trans|].
        right. split; [done|]. rewrite Hst, Hops. destruct k; [done|by right; left|].
        right. right. split; [done|]. apply elem_of_app. right. by apply elem_of_list_singleton.
      * exists u. rewrite H2, lookup_insert_ne by done. split; [done|]. split; [done|].
        destruct Hcu as [?|[Hw Hcu]]; [by left|right]. split; [done|].
        destruct Hcu as [?|[?|[? Hin]]]; [by left|by right; left|]. right. right. split; [done|].
        rewrite Hops. apply elem_of_app. by left.
    + intros i Ei. destruct (base.decide (i = tid)) as [->|Hne]; [congruence|].
      rewrite H2, lookup_insert_ne by done. by apply Ddom.
  - (* rolled back *)
    assert (Hst' : t_status p' = Pending) by (destruct Hst; congruence).
    split.
    + done.
    + congruence.
    + congruence.
    + intros sid' Hne. rewrite Hs. by apply Dstmts.
    + by rewrite Hs.
    + by eapply jobs_static_trans.
    + intros i u0 Eu0. destruct (Dheap i u0 Eu0) as (u & Eu & Hmu & Hcu).
      destruct (base.decide (i = tid)) as [->|Hne].
      * exists p'. rewrite H2, lookup_insert. split; [done|].
        rewrite Ep in Eu. injection Eu as <-. split; [by eapply same_meta_trans|].
        right. split; [done|]. by left.
      * exists u. rewrite H2, lookup_insert_ne by done. rewrite Hs. done.
    + intros i Ei. destruct (base.decide (i = tid)) as [->|Hne]; [congruence|].
      rewrite H2, lookup_insert_ne by done. by apply Ddom.
Qed.

(* allocate.go 283: `allocate` never takes a task with an empty request *)
Definition places_non_be (s0 : sess) (places : list (positive * positive)) : Prop :=
  forall tid nid t, (tid, nid) ∈ places -> heap s0 !! tid = Some t -> t_best_effort t = false.

Lemma do_places_dp w s0 sid jid places : forall s,
  dp s0 s sid jid -> places_non_be s0 places ->
  exists s' v, do_places eps w s sid jid places = (s', v) /\ dp s0 s' sid jid.
Proof.
  induction places as [|[tid nid] places IH]; intros s Hdp Hnbe.
  - by exists s, VOk.
  - simpl. destruct (heap s !! tid) as [p|] eqn:Ep; [|by exists s, (VNotPending tid)].
    destruct (bool_decide (t_status p = Pending) && bool_decide (t_job p = jid)) eqn:Echk; simpl negb; cbv iota;
      [|by exists s, (VNotPending tid)].
    apply andb_true_iff in Echk as [Hpend%bool_decide_eq_true Hjob%bool_decide_eq_true].
    destruct (negb _); [by exists s, (VQueueRefuses tid)|].
    destruct (dp_origin _ _ _ _ _ _ Hdp Ep) as (t0 & E0 & (_ & _ & _ & Hbe0) & _).
    assert (Hbe : t_best_effort p = false).
    { rewrite Hbe0. eapply (Hnbe tid nid); [by left|done]. }
    destruct (dp_step s0 s sid jid tid nid p Hdp Ep Hpend Hjob Hbe) as (s1 & pl & E & Hdp1).
    rewrite E. apply IH; [done|]. intros t n u Hin. eapply Hnbe. by right.
Qed.

Lemma dp_persist s0 s sid jid : dp s0 s sid jid -> persist s0 s.
Proof.
  intros Hdp. split; [|exact (dp_jobs _ _ _ _ Hdp)]. intros i t0 E0.
  destruct (dp_heap _ _ _ _ Hdp i t0 E0) as (t & Et & Hm & Hc). exists t. split; [done|]. split; [done|].
  destruct Hc as [Hst|[(u0 & Eu0 & Hp0 & Hb0 & _) _]].
  - split; [|congruence]. destruct Hm as (_ & _ & _ & Hbe). by rewrite (cluster_ready_status _ _ Hst Hbe).
  - rewrite E0 in Eu0. injection Eu0 as <-. unfold cluster_ready. rewrite Hp0, Hb0. split; [done|done].
Qed.

(* ---------- one skeleton step ---------- *)

(* statements are numbered from w_next_stmt on: none exists yet *)
Definition fresh_from (s : sess) (sid : positive) : Prop :=
  forall sid', (sid <= sid')%positive -> stmts s !! sid' = None.

Definition winv (w : world) : Prop :=
  gang_inv (w_sess w) /\ refuse_bind (w_sess w) = ∅ /\ fresh_from (w_sess w) (w_next_stmt w).

(* the guard of an attempt (see docs/notes/C01.md, finding F10): the attempted job holds no
   tentative allocation with a non-empty request left by an earlier, kept statement; and
   `allocate` only places tasks with a non-empty request *)
Definition no_kept_alloc (s : sess) (jid : positive) : Prop :=
  forall i t, heap s !! i = Some t -> t_job t = jid -> t_status t = Allocated -> t_best_effort t = true.

Definition cop_guard (w : world) (o : cop) : Prop :=
  match o with
  | CAttempt jid places => no_kept_alloc (w_sess w) jid /\ places_non_be (w_sess w) places
  | CBackfill _ _ => True
  end.

Lemma attempt_spec w jid places :
  winv w -> cop_guard w (CAttempt jid places) ->
  let w' := fst (step eps w (CAttempt jid places)) in
  winv w' /\ step_out (w_sess w) (w_sess w').
Proof.
  intros (Hinv & Href & Hfresh) [Hg1 Hg2]. simpl.
  set (s0 := w_sess w) in *. set (sid := w_next_stmt w) in *.
  assert (Hsid : stmts s0 !! sid = None) by (apply Hfresh; lia).
  destruct (do_places_dp w s0 sid jid places s0 (dp_refl s0 sid jid Hinv Hsid) Hg2) as (s1 & v & E & Hdp).
  rewrite E. simpl.
  assert (Hfresh1 : forall sid', (Pos.succ sid <= sid')%positive -> stmts s1 !! sid' = None).
  { intros sid' Hle. rewrite (dp_stmts _ _ _ _ Hdp) by lia. apply Hfresh. lia. }
  assert (Hkeep : winv (mkWorld s1 (w_queues w) (Pos.succ sid)) /\ step_out s0 s1).
  { split; [unfold winv; simpl; split; [exact (dp_inv _ _ _ _ Hdp)|split; [rewrite (dp_refuse _ _ _ _ Hdp); done|done]]|].
    apply step_out_quiet; [exact (dp_inv _ _ _ _ Hdp)|exact (dp_refuse _ _ _ _ Hdp)|by eapply dp_persist|exact (dp_binds _ _ _ _ Hdp)]. }
  (* discard *)
  assert (Hdiscard : winv (mkWorld (stmt_discard eps s1 sid) (w_queues w) (Pos.succ sid)) /\
                     step_out s0 (stmt_discard eps s1 sid)).
  { unfold stmt_discard. set (ops := default [] (stmts s1 !! sid)).
    assert (Hops : Forall (fun o => op_kind o <> KEvict) (rev ops)).
    { apply Forall_rev. eapply Forall_impl; [exact (dp_ops _ _ _ _ Hdp)|]. by intros o [? _]. }
    pose proof (discard_fold eps s1 (rev ops) s1 [] (undone_batch_refl s1 (dp_inv _ _ _ _ Hdp)) Hops) as Hub.
    simpl in Hub. set (s' := fold_left (undo_op eps) (rev ops) s1) in *.
    destruct Hub as [Uinv Ujobs Uref Ustmts Ubinds Uheap Udom].
    assert (Hinv2 : gang_inv (upd_stmts s' (<[sid := []]> (stmts s')))) by exact Uinv.
    split.
    - split; [done|]. split; [simpl; rewrite Uref, (dp_refuse _ _ _ _ Hdp); done|].
      intros sid' Hle. simpl in Hle |- *. rewrite lookup_insert_ne by lia. rewrite Ustmts. by apply Hfresh1.
    - apply step_out_quiet; [done|simpl; rewrite Uref; exact (dp_refuse _ _ _ _ Hdp)| |simpl; rewrite Ubinds; exact (dp_binds _ _ _ _ Hdp)].
      split; [|simpl; eapply jobs_static_trans; [exact (dp_jobs _ _ _ _ Hdp)|done]].
      intros i t0 E0. destruct (proj1 (dp_persist _ _ _ _ Hdp) i t0 E0) as (t1 & E1 & M1 & C1 & B1).
      destruct (Uheap i t1 E1) as (t2 & E2 & M2 & Hc). exists t2. simpl. split; [done|].
      split; [by eapply same_meta_trans|].
      destruct Hc as [Hst|[Hst Hin]].
      + destruct M2 as (_ & _ & _ & Hbe). rewrite (cluster_ready_status _ _ Hst Hbe). split; [done|]. intros ?. rewrite Hst. auto.
      + apply elem_of_list_fmap in Hin as (o & -> & Ho).
        apply elem_of_list_In in Ho. apply in_rev in Ho. apply elem_of_list_In in Ho.
        pose proof (proj1 (Forall_forall _ _) (dp_ops _ _ _ _ Hdp) o Ho) as [_ (u0 & Eu0 & Hp0 & Hb0 & _)].
        rewrite E0 in Eu0. injection Eu0 as <-. unfold cluster_ready at 1. rewrite Hp0, Hb0. split; [done|done]. }
  unfold CycleModel.decide.
  destruct (jobs s1 !! jid) as [j1|] eqn:Ej1; [|exact Hdiscard].
  destruct (gang_sub_ready (heap s1) j1 || gang_sub_pipelined (heap s1) j1); [|exact Hdiscard].
  destruct (gang_job_ready (heap s1) j1) eqn:Eready; [|exact Hkeep].
  (* commit *)
  clear Hkeep Hdiscard. unfold stmt_commit. set (ops := default [] (stmts s1 !! sid)).
  pose proof (dp_inv _ _ _ _ Hdp) as Hinv1.
  assert (Href1 : refuse_bind s1 = ∅) by (rewrite (dp_refuse _ _ _ _ Hdp); done).
  assert (Hjobof : forall o, o ∈ ops -> exists t1, heap s1 !! op_task o = Some t1 /\ t_job t1 = jid).
  { intros o Ho. pose proof (proj1 (Forall_forall _ _) (dp_ops _ _ _ _ Hdp) o Ho) as [_ (u0 & Eu0 & _ & _ & Hj0)].
    destruct (dp_heap _ _ _ _ Hdp _ _ Eu0) as (t1 & E1 & (_ & Hj1 & _) & _). exists t1. split; [done|congruence]. }
  assert (Hops : Forall (fun o => op_kind o <> KEvict /\ bindable s1 (op_task o)) ops).
  { apply Forall_forall. intros o Ho.
    pose proof (proj1 (Forall_forall _ _) (dp_ops _ _ _ _ Hdp) o Ho) as [Hk _]. split; [done|].
    destruct (Hjobof o Ho) as (t1 & E1 & Hj1). exists t1. split; [done|]. rewrite Hj1. eauto. }
  pose proof (commit_fold eps s1 ops s1 [] (bound_batch_refl s1 Hinv1) Href1 Hops) as Hbb.
  simpl in Hbb. set (s' := fold_left (commit_op eps) ops s1) in *.
  assert (Hinv2 : gang_inv (upd_stmts s' (<[sid := []]> (stmts s')))) by exact (bb_inv _ _ _ Hbb).
  destruct (jobs_static_some _ _ _ _ (bb_jobs _ _ _ Hbb) Ej1) as (j2 & Ej2 & Hs2).
  destruct Hinv1 as (Ha1 & Hb1 & Hc1). destruct (Hb1 _ _ Ej1) as [Hts1 Hix1].
  assert (Hok : gang_ok (heap s') j2).
  { eapply ready_to_ok; [exact Hix1|exact Eready|exact Hs2|].
    intros i t1 Hi E1 Hsr.
    destruct (bb_heap _ _ _ Hbb i t1 E1) as (t2 & E2 & (_ & _ & Hr2 & _) & Hc).
    exists t2. split; [done|]. split; [done|].
    destruct Hc as [->|[Hb _]]; [|by apply cluster_ready_binding].
    destruct (base.decide (t_status t1 = Allocated)) as [Hal|Hnal]; [|by apply session_ready_not_alloc].
    destruct (t_best_effort t1) eqn:Hbe; [by apply session_ready_be|]. exfalso.
    destruct (Hts1 i Hi) as (t1' & E1' & Hj1). rewrite E1 in E1'. injection E1' as <-.
    destruct (dp_origin _ _ _ _ _ _ Hdp E1) as (t0 & E0 & (_ & Hj0 & _ & Hb0) & _).
    destruct (dp_heap _ _ _ _ Hdp i t0 E0) as (t1' & E1' & _ & Hc). rewrite E1 in E1'. injection E1' as <-.
    destruct Hc as [Hst|[_ [Hst|[Hst|[_ Hin]]]]]; try congruence.
    - assert (t_best_effort t0 = true); [|congruence]. eapply Hg1; [exact E0|congruence|congruence].
    - assert (Hia : i ∈ alloc_tasks ops) by (apply elem_of_alloc_tasks; eexists; split; [exact Hin|done]).
      destruct (bb_done _ _ _ Hbb i Hia) as (t'' & E'' & Hb''). rewrite E2 in E''. injection E'' as <-. congruence. }
  split.
  - split; [done|]. split; [simpl; rewrite (bb_refuse _ _ _ Hbb); done|].
    intros sid' Hle. simpl in Hle |- *. rewrite lookup_insert_ne by lia. rewrite (bb_stmts _ _ _ Hbb). by apply Hfresh1.
  - split; [done|]. split; [simpl; rewrite (bb_refuse _ _ _ Hbb); exact (dp_refuse _ _ _ _ Hdp)|].
    split.
    { eapply persist_trans; [by eapply dp_persist|].
      destruct (bound_batch_persist _ _ _ Hbb) as [P1 P2]. split; done. }
    destruct (bb_binds _ _ _ Hbb) as (nb & Enb & Hnb). exists nb. simpl.
    split; [rewrite Enb, (dp_binds _ _ _ _ Hdp); done|].
    intros b Hb. specialize (Hnb b Hb). destruct (bb_done _ _ _ Hbb _ Hnb) as (t & Et & Hbt).
    apply elem_of_alloc_tasks in Hnb as (o & Ho & _ & Eo).
    destruct (Hjobof o Ho) as (t1 & E1 & Hj1). rewrite Eo in E1.
    destruct (bb_heap _ _ _ Hbb _ _ E1) as (t' & Et' & (_ & Hjob' & _) & _).
    rewrite Et in Et'. injection Et' as <-.
    exists t, j2. split; [done|]. split; [done|]. split; [by rewrite Hjob', Hj1|done].
Qed.

Lemma step_spec w o : winv w -> cop_guard w o ->
  let w' := fst (step eps w o) in winv w' /\ step_out (w_sess w) (w_sess w').
Proof.
  destruct o as [jid places|tid nid]; [apply attempt_spec|].
  intros (Hinv & Href & Hfresh) _. simpl.
  destruct (heap (w_sess w) !! tid) as [p|] eqn:Ep; [|split; [done|by apply step_out_refl]].
  destruct (bool_decide (t_status p = Pending)) eqn:Epend; simpl negb; cbv iota; [|split; [done|by apply step_out_refl]].
  apply bool_decide_eq_true in Epend.
  destruct (t_best_effort p) eqn:Ebe; simpl negb; cbv iota; [|split; [done|by apply step_out_refl]].
  destruct (backfill_spec (w_sess w) tid nid p Hinv Href Ep Epend Ebe) as (s' & r & E & Hout & Hs & _).
  rewrite E. simpl. split; [|done]. destruct Hout as (H1 & H2 & _). unfold winv. simpl.
  split; [done|]. split; [congruence|].
  intros sid' Hle. rewrite Hs. by apply Hfresh.
Qed.

Fixpoint guarded (w : world) (ops : list cop) : Prop :=
  match ops with
  | [] => True
  | o :: r => cop_guard w o /\ guarded (fst (step eps w o)) r
  end.

Lemma step_out_trans a b c : step_out a b -> step_out b c -> step_out a c.
Proof.
  intros (I1 & R1 & P1 & nb1 & E1 & B1) (I2 & R2 & P2 & nb2 & E2 & B2).
  split; [done|]. split; [congruence|]. split; [by eapply persist_trans|].
  exists (nb2 ++ nb1). split; [rewrite E2, E1; by rewrite app_assoc|].
  intros x [Hx|Hx]%elem_of_app; [by apply B2|]. eapply bound_ok_persist; [by apply B1|done].
Qed.

Lemma run_spec ops : forall w, winv w -> guarded w ops ->
  winv (run eps w ops) /\ step_out (w_sess w) (w_sess (run eps w ops)).
Proof.
  induction ops as [|o ops IH]; intros w Hw Hg.
  - simpl. split; [done|]. apply step_out_refl. by destruct Hw.
  - destruct Hg as [Hg1 Hg2]. destruct (step_spec w o Hw Hg1) as [Hw1 Hout1].
    destruct (IH _ Hw1 Hg2) as [Hw2 Hout2]. unfold run in *. simpl. split; [done|].
    by eapply step_out_trans.
Qed.

End WithEps.
