(* C03, part 4: a decidable form of the well-formedness hypothesis and non-vacuity examples on a
   concrete cluster (the world is built by the same [world_of] the harness cases go through). *)
From stdpp Require Import gmap.
From Coq Require Import ZArith Lia List.
From V Require Import Base.Res Base.ResLemmas Sched.LedgerModel Sched.StmtModel Sched.GangModel
                      Sched.CycleModel Sched.LedgerInvP Sched.LedgerCodec Sched.CycleCodec
                      Sched.QueueLemmasBase Sched.QueueLemmasReach Sched.QueueLemmas
                      Sched.LedgerInv Sched.LedgerLemmasSess Sched.LedgerLemmasTxn Sched.LedgerLemmasEx Sched.QueueLemmasHeld.
Import ListNotations.
Open Scope Z_scope.

Definition res_nonnegb (r : res) : bool :=
  bool_decide (0 <= cpu r) && bool_decide (0 <= mem r) && map_allb (fun _ v => bool_decide (0 <= v)) (scm r).
Definition res_zero_but_pods (r : res) : bool :=
  bool_decide (cpu r = 0) && bool_decide (mem r = 0) &&
  map_allb (fun k v => bool_decide (k = pods_name) || bool_decide (v = 0)) (scm r).
Definition task_okb (i : positive) (t : task) : bool :=
  bool_decide (t_id t = i) && res_nonnegb (t_req t) && implb (t_best_effort t) (res_zero_but_pods (t_req t)).
Definition world_okb (w : world) : bool :=
  map_allb task_okb (heap (w_sess w)) &&
  map_allb (fun _ l => forallb (fun o => negb (bool_decide (op_kind o = KEvict))) l) (stmts (w_sess w)).

Lemma res_nonnegb_ok r : res_nonnegb r = true -> nonneg r.
Proof.
  unfold res_nonnegb. rewrite !andb_true_iff, !bool_decide_eq_true, map_allb_spec. intros [[Hc Hm] Hs] d.
  destruct d; simpl; try lia. unfold sget. destruct (scm r !! k) as [v|] eqn:E; simpl; [|lia].
  specialize (Hs k v E). apply bool_decide_eq_true in Hs. exact Hs.
Qed.

Lemma res_zero_but_pods_ok r : res_zero_but_pods r = true -> forall d, d <> DSc pods_name -> amt r d = 0.
Proof.
  unfold res_zero_but_pods. rewrite !andb_true_iff, !bool_decide_eq_true, map_allb_spec. intros [[Hc Hm] Hs] d Hd.
  destruct d; simpl; try lia. unfold sget. destruct (scm r !! k) as [v|] eqn:E; simpl; [|lia].
  specialize (Hs k v E). rewrite orb_true_iff, !bool_decide_eq_true in Hs. destruct Hs; [congruence|assumption].
Qed.

Lemma world_okb_ok w : world_okb w = true -> world_ok w.
Proof.
  unfold world_okb. rewrite andb_true_iff, !map_allb_spec. intros [Hh Hs]. split; [|split].
  - intros i t Hl. specialize (Hh i t Hl). unfold task_okb in Hh.
    rewrite !andb_true_iff, bool_decide_eq_true in Hh. destruct Hh as [[Hi Hn] _].
    split; [exact Hi|apply res_nonnegb_ok, Hn].
  - intros i t Hl Hbe. specialize (Hh i t Hl). unfold task_okb in Hh.
    rewrite !andb_true_iff in Hh. destruct Hh as [_ Hz]. rewrite Hbe in Hz. simpl in Hz.
    apply res_zero_but_pods_ok, Hz.
  - intros sid l o Hl Ho. specialize (Hs sid l Hl). rewrite forallb_forall in Hs.
    apply elem_of_list_In in Ho. specialize (Hs o Ho). apply negb_true_iff, bool_decide_eq_false in Hs. exact Hs.
Qed.

(* ---------- a concrete cycle ---------- *)

(* one node (4 cpu), one Open queue whose limit is 1 cpu, one job of two pending tasks of 600m *)
Definition ex_case (ops : list cop) : cycle_case :=
  mkCycle 2
    [mkNodeSpec 1 true 4000 100000 10 0]
    [mkQSpec 1 true 1 0 0; mkQSpec 2 false 1 0 0]
    [mkJobSpec 1 1 1 []; mkJobSpec 2 2 1 []]
    [mkTaskSpec 1 1 1 0 600 100 0 Pending None false;
     mkTaskSpec 2 1 1 0 600 100 0 Pending None false;
     mkTaskSpec 3 2 1 0 100 100 0 Pending None false]
    true [1]
    [(1%positive, mkRes 16000 1600000 None); (2%positive, mkRes 16000 1600000 None)]
    ops.

Definition ex_w : world := world_of (ex_case []).
Definition ev1 : hev := mkHev true 1 Allocated (Some 1%positive).
Definition ops1 : list cop := [CAttempt 1 [(1%positive, 1%positive)]].
Definition ops2 : list cop := [CAttempt 1 [(1%positive, 1%positive); (2%positive, 1%positive)]].
Definition ops3 : list cop := [CAttempt 2 [(3%positive, 1%positive)]].

Example ex_world_ok : world_ok ex_w.
Proof. apply world_okb_ok. vm_compute. reflexivity. Qed.

(* the first task fits under the limit and is placed (and bound: the gang of 1 is complete) *)
Example ex_first_placed :
  let s' := w_sess (CycleModel.run 2 ex_w ops1) in
  verdicts 2 ex_w ops1 = [VOk] /\
  hlog s' = [ev1] /\
  binds s' = [(1%positive, Some 1%positive)] /\
  amt (share_of s' 1) DCpu = 9600.
Proof. vm_compute. repeat split; reflexivity. Qed.

(* the second one would raise the queue to 1200m > 1000m: the model's guard refuses it, the
   choice list is reported as one the code cannot produce, nothing is placed for it *)
Example ex_second_refused :
  let s' := w_sess (CycleModel.run 2 ex_w ops2) in
  verdicts 2 ex_w ops2 = [VQueueRefuses 2] /\
  hlog s' = [ev1] /\
  amt (share_of s' 1) DCpu = 9600.
Proof. vm_compute. repeat split; reflexivity. Qed.

(* a queue that is not Open refuses every task *)
Example ex_closed_refused :
  verdicts 2 ex_w ops3 = [VQueueRefuses 3] /\
  hlog (w_sess (CycleModel.run 2 ex_w ops3)) = [].
Proof. vm_compute. split; reflexivity. Qed.

(* the hypotheses of queue_cap_invariant are satisfiable: instantiate it on the first run *)
Example ex_invariant_applies :
  let s' := w_sess (CycleModel.run 2 ex_w ops1) in
  amt (share_of s' 1) DCpu <= 16000.
Proof.
  intros s'.
  assert (Hh : exists t, heap s' !! 1%positive = Some t /\ t_req t = mk_req 600 100 0 /\ t_job t = 1%positive).
  { vm_compute. eexists. repeat split. }
  destruct Hh as (t & Hh & Hr & Hj).
  refine (proj2 (queue_cap_invariant 2 ex_w ops1 ex_world_ok
            [ev1] _ (ev1) t 1%positive
            (mkQ true (mkRes 16000 1600000 None) true) _ eq_refl Hh _ _ eq_refl) DCpu _).
  - vm_compute. reflexivity.
  - left.
  - unfold queue_of. rewrite Hj. vm_compute. reflexivity.
  - vm_compute. reflexivity.
  - rewrite Hr. vm_compute. reflexivity.
Qed.

(* events_balance on the same run: one allocate event of 600m for queue 1 *)
Example ex_balance :
  let s' := w_sess (CycleModel.run 2 ex_w ops1) in
  amt (share_of s' 1) DCpu - amt (share_of (w_sess ex_w) 1) DCpu
  = zsum (ev_signed (w_sess ex_w) 1 DCpu) [ev1].
Proof. vm_compute. reflexivity. Qed.

(* ---------- audit W1: the ledger covers the placed pods; a NON-EMPTY initial ledger ---------- *)

Definition no_holdingb (s : sess) : bool := map_allb (fun _ t => negb (holds (t_status t))) (heap s).
Lemma no_holdingb_ok s : no_holdingb s = true -> forall i t, heap s !! i = Some t -> holds (t_status t) = false.
Proof. unfold no_holdingb. rewrite map_allb_spec. intros H i t Hl. apply negb_true_iff, (H i t Hl). Qed.

(* the fresh cluster satisfies the full well-formedness (nothing placed yet, empty ledger) *)
Example ex_world_ok_held : world_ok_held ex_w.
Proof.
  assert (Hs : sess_ok (w_sess ex_w)) by (apply sess_ok_of_bools; vm_compute; reflexivity).
  destruct Hs as (Hl & Hwf & Hsv).
  split; [exact ex_world_ok|]. split; [exact Hl|]. split; [exact Hwf|]. split; [exact Hsv|]. split.
  - intros sid _. vm_compute. reflexivity.
  - apply cover_no_holding; [vm_compute; reflexivity|apply no_holdingb_ok; vm_compute; reflexivity].
Qed.

(* the world after the first cycle: task 1 is Binding on node 1, the ledger of queue 1 holds its
   9600 units -- a session that starts with a NON-EMPTY ledger and a pod in a holding status.  Its
   well-formedness is not computed but DERIVED from the invariant theorems. *)
Definition ex_w1 : world := CycleModel.run 2 ex_w ops1.

Example ex_w1_ledger : held (w_sess ex_w1) 1 DCpu = 9600 /\ amt (share_of (w_sess ex_w1) 1) DCpu = 9600.
Proof. vm_compute. split; reflexivity. Qed.

Example ex_w1_ok_held : world_ok_held ex_w1.
Proof.
  pose proof (run_held 2 _ ops1 ex_w (world_ok_held_inv ex_w ex_world_ok_held)) as (Hg & _ & Hf & Hc).
  split; [apply world_okb_ok; vm_compute; reflexivity|].
  split; [exact (proj1 Hg)|]. split; [exact (proj1 (proj2 Hg))|]. split; [eapply good_saved_ok; exact Hg|].
  split; assumption.
Qed.

(* second cycle from that session: task 2 (another 9600) is refused, 19200 > 16000; placing it is
   not a behaviour of the model, and the placed pods stay at 9600 <= 16000 *)
Definition ops4 : list cop := [CAttempt 1 [(2%positive, 1%positive)]].
Example ex_second_cycle :
  verdicts 2 ex_w1 ops4 = [VQueueRefuses 2] /\ held (w_sess (CycleModel.run 2 ex_w1 ops4)) 1 DCpu = 9600.
Proof. vm_compute. split; reflexivity. Qed.

(* the reviewer's counter-world: the same session with the ledger forgotten is NOT well-formed
   any more (the old hypothesis world_ok accepted it and the old theorem was vacuous about it) *)
Definition ex_w1_forgotten : world :=
  mkWorld (upd_handlers (w_sess ex_w1) ∅ []) (w_queues ex_w1) (w_next_stmt ex_w1).
Example ex_forgotten_ledger_rejected :
  world_ok ex_w1_forgotten /\ (~ cover (w_sess ex_w1_forgotten)) /\
  (verdicts 2 ex_w1_forgotten ops4 = [VOk]) /\
  (held (w_sess (CycleModel.run 2 ex_w1_forgotten ops4)) 1 DCpu = 19200).
Proof.
  split; [apply world_okb_ok; vm_compute; reflexivity|]. split; [|vm_compute; split; reflexivity].
  intros Hc. specialize (Hc 1%positive DCpu). vm_compute in Hc. apply Hc. reflexivity.
Qed.

(* the main theorem in the property's words, instantiated on the first cycle *)
Example ex_placed_within_limit :
  held (w_sess (CycleModel.run 2 ex_w ops1)) 1 DCpu <= 16000.
Proof.
  set (s' := w_sess (CycleModel.run 2 ex_w ops1)).
  assert (Hh : exists t, heap s' !! 1%positive = Some t /\ t_req t = mk_req 600 100 0 /\ t_job t = 1%positive).
  { vm_compute. eexists. repeat split. }
  destruct Hh as (t & Hh & Hr & Hj).
  refine (proj2 (placed_pods_within_limit 2 ex_w ops1 ex_world_ok_held [ev1] _ ev1 t 1%positive
            (mkQ true (mkRes 16000 1600000 None) true) _ eq_refl Hh _ _ eq_refl) DCpu _).
  - vm_compute. reflexivity.
  - left.
  - unfold queue_of. rewrite Hj. vm_compute. reflexivity.
  - vm_compute. reflexivity.
  - rewrite Hr. vm_compute. reflexivity.
Qed.

(* ---------- audit W7: backfill asks no vote ---------- *)
(* a best-effort task (empty request) of a job of the CLOSED queue 2 is placed by backfill: the
   action never consults ssn.Allocatable (backfill.go), so "not Open" and "leaf only" are not
   enforced for best-effort pods -- they request nothing, which is why the property text
   ("no pod with a non-zero request") and the first conjunct of the main theorem exempt them *)
Definition ex_case_be : cycle_case :=
  mkCycle 2
    [mkNodeSpec 1 true 4000 100000 10 0]
    [mkQSpec 1 true 1 0 0; mkQSpec 2 false 1 0 0]
    [mkJobSpec 1 1 1 []; mkJobSpec 2 2 1 []]
    [mkTaskSpec 1 2 1 0 0 0 0 Pending None false]
    true [2] [(1%positive, mkRes 16000 1600000 None); (2%positive, mkRes 16000 1600000 None)] [].
Definition ex_w_be : world := world_of ex_case_be.

Example ex_backfill_places_in_closed_queue :
  let s' := w_sess (CycleModel.run 2 ex_w_be [CBackfill 1 1]) in
  verdicts 2 ex_w_be [CBackfill 1 1] = [VOk] /\
  (exists t, heap s' !! 1%positive = Some t /\ t_best_effort t = true /\ t_status t = Binding /\
             queue_of s' t = Some 2%positive) /\
  (exists qa, w_queues ex_w_be !! 2%positive = Some qa /\ q_open qa = false).
Proof. vm_compute. split; [reflexivity|]. split; eexists; repeat split. Qed.
