(* Model of pkg/scheduler/api/resource_info.go (type Resource and its methods).

   Amounts are integers on a grid (see DESIGN 4.1): the Go code works on
   float64 values that come from Quantity.MilliValue()/Value(); on the grid the
   constant minResource (0.1) is the parameter [eps].  Everything here is
   executable; theorems are in ResLemmas.v and hold for every eps > 0.

   ScalarResources is [option (gmap positive Z)]: None is Go's nil map, which
   several methods treat differently from an empty map.  Scalar name 1 is
   "pods" (the one name in ignoredScalarResources). *)
From stdpp Require Import gmap.
From Coq Require Import ZArith.
Open Scope Z_scope.

Notation smap := (gmap positive Z).

Record res := mkRes { cpu : Z; mem : Z; sc : option smap }.

Global Instance res_eq_dec : EqDecision res.
Proof. solve_decision. Defined.

Inductive dflt := DZero | DInf.

Definition pods_name : positive := 1%positive.
Definition ignored (k : positive) : bool := bool_decide (k = pods_name).

Definition empty_res : res := mkRes 0 0 None.
Definition scm (r : res) : smap := default ∅ (sc r).
(* r.Get(name) for a scalar name *)
Definition sget (r : res) (k : positive) : Z := default 0 (scm r !! k).

Section WithEps.
Variable eps : Z.

Definition lt (l r : Z) : bool := bool_decide (l < r).
(* lessEqualFunc: l < r || |l - r| < minResource *)
Definition le (l r : Z) : bool := bool_decide (l < r) || bool_decide (Z.abs (l - r) < eps).
Definition eqv (l r : Z) : bool := bool_decide (l = r) || bool_decide (Z.abs (l - r) < eps).

(* ---- constructors / mutators (return the new receiver) ---- *)

Definition clone (r : res) : res := mkRes (cpu r) (mem r) (sc r).

Definition add (r rr : res) : res :=
  mkRes (cpu r + cpu rr) (mem r + mem rr)
    (if bool_decide (scm rr = ∅) then sc r
     else Some (union_with (fun a b => Some (a + b)) (scm r) (scm rr))).

Definition sub_f (a b : option Z) : option Z :=
  match a, b with
  | Some x, Some y => Some (x - y)
  | Some x, None => Some x
  | None, Some y => Some (0 - y)
  | None, None => None
  end.

Definition sub (r rr : res) : res :=
  mkRes (cpu r - cpu rr) (mem r - mem rr)
    (match sc r with
     | None => None
     | Some m => Some (merge sub_f m (scm rr))
     end).

Definition multi (r : res) (k : Z) : res :=
  mkRes (cpu r * k) (mem r * k) (match sc r with None => None | Some m => Some ((fun v => v * k) <$> m) end).

Definition set_max (r rr : res) : res :=
  mkRes (Z.max (cpu r) (cpu rr)) (Z.max (mem r) (mem rr))
    (if bool_decide (scm rr = ∅) then sc r
     else Some (union_with (fun a b => Some (Z.max a b)) (scm r) (scm rr))).

Definition min_dim (r rr : res) (d : dflt) : res :=
  mkRes (Z.min (cpu r) (cpu rr)) (Z.min (mem r) (mem rr))
    (match sc r with
     | None => None
     | Some m =>
       Some (map_imap (fun k v =>
               match scm rr !! k with
               | Some w => Some (Z.min v w)
               | None => match d with
                         | DInf => Some v
                         | DZero => Some 0
                         end
               end) m)
     end).

(* ---- predicates ---- *)

Definition map_allb {A} (p : positive -> A -> bool) (m : gmap positive A) : bool :=
  bool_decide (map_Forall (fun k v => p k v = true) m).
Definition map_anyb {A} (p : positive -> A -> bool) (m : gmap positive A) : bool :=
  negb (map_allb (fun k v => negb (p k v)) m).
(* keys (ascending) of the entries satisfying p *)
Definition keys_where {A} (p : positive -> A -> bool) (m : gmap positive A) : list positive :=
  map fst (filter (fun kv => p (fst kv) (snd kv) = true) (map_to_list m)).

Definition is_empty (r : res) : bool :=
  lt (cpu r) eps && lt (mem r) eps &&
  map_allb (fun k v => ignored k || lt v eps) (scm r).

(* ResourceNames: cpu and memory are reported by two flags, scalars by key *)
Definition names_of (r : res) : bool * bool * list positive :=
  (bool_decide (eps <= cpu r), bool_decide (eps <= mem r),
   keys_where (fun _ v => bool_decide (eps <= v)) (scm r)).

(* some key of rr is missing in r *)
Definition has_missing (r rr : res) : bool :=
  map_anyb (fun k _ => negb (bool_decide (is_Some (scm r !! k)))) (scm rr).

Definition cmp_at (f : Z -> Z -> bool) (rr : res) (d : dflt) (missing : bool) (k : positive) (v : Z) : bool :=
  match scm rr !! k with
  | Some w => f v w
  | None => match d with DInf => missing | DZero => f v 0 end
  end.

Definition all_sc (f : Z -> Z -> bool) (r rr : res) (d : dflt) : bool :=
  map_allb (cmp_at f rr d true) (scm r).
Definition any_sc (f : Z -> Z -> bool) (r rr : res) (d : dflt) : bool :=
  map_anyb (cmp_at f rr d true) (scm r).

Definition less (r rr : res) (d : dflt) : bool :=
  lt (cpu r) (cpu rr) && lt (mem r) (mem rr) &&
  (match d with DInf => negb (has_missing r rr) | DZero => true end) &&
  all_sc lt r rr d.

Definition less_equal (r rr : res) (d : dflt) : bool :=
  le (cpu r) (cpu rr) && le (mem r) (mem rr) &&
  (match d with DInf => negb (has_missing r rr) | DZero => true end) &&
  all_sc le r rr d.

(* LessEqualWithResourcesName: insufficient names (cpu flag, memory flag, scalar keys) *)
Definition le_names (r rr : res) (d : dflt) : bool * bool * list positive :=
  (negb (le (cpu r) (cpu rr)), negb (le (mem r) (mem rr)),
   keys_where (fun k v => negb (cmp_at le rr d true k v)) (scm r)).

Definition names_none (x : bool * bool * list positive) : bool :=
  match x with (c, m, l) => negb c && negb m && bool_decide (l = []) end.
Definition names_any (x : bool * bool * list positive) : bool := negb (names_none x).

Definition less_equal_names (r rr : res) (d : dflt) : bool := names_none (le_names r rr d).
Definition greater_partly (r rr : res) (d : dflt) : bool := negb (less_equal_names r rr d).

Definition less_partly (r rr : res) (d : dflt) : bool :=
  lt (cpu r) (cpu rr) || lt (mem r) (mem rr) ||
  (match d with DZero => has_missing r rr | DInf => false end) ||
  any_sc lt r rr d.

Definition less_equal_partly (r rr : res) (d : dflt) : bool :=
  le (cpu r) (cpu rr) || le (mem r) (mem rr) ||
  (match d with DZero => has_missing r rr | DInf => false end) ||
  any_sc le r rr d.

Definition equal (r rr : res) : bool :=
  eqv (cpu r) (cpu rr) && eqv (mem r) (mem rr) &&
  map_allb (fun k v => eqv v (default 0 (scm rr !! k))) (scm r).

(* ---- the "WithDimension" family: only dimensions requested in req ---- *)

Definition req_sel (k : positive) (q : Z) : bool := negb (ignored k) && bool_decide (0 < q).

(* LessEqualWithDimensionAndResourcesName (r, rr, req all non-nil) *)
Definition le_dim_names (r rr req : res) : bool * bool * list positive :=
  let c := bool_decide (0 < cpu req) && bool_decide (cpu rr < cpu r) in
  let m := bool_decide (0 < mem req) && bool_decide (mem rr < mem r) in
  match sc r with
  | None => (c, m, [])
  | Some _ =>
    (c, m, keys_where (fun k q => req_sel k q && bool_decide (sget rr k < sget r k)) (scm req))
  end.
Definition le_dim (r rr req : res) : bool := names_none (le_dim_names r rr req).

(* LessEqualPartlyWithDimension *)
Definition lep_dim_names (r rr req : res) : bool * bool * list positive :=
  (bool_decide (0 < cpu req) && le (cpu r) (cpu rr),
   bool_decide (0 < mem req) && le (mem r) (mem rr),
   keys_where (fun k q => req_sel k q && le (sget r k) (sget rr k)) (scm req)).
Definition lep_dim (r rr req : res) : bool := names_any (lep_dim_names r rr req).

(* GreaterPartlyWithDimension *)
Definition gp_dim_names (r rr req : res) : bool * bool * list positive :=
  (bool_decide (0 < cpu req) && bool_decide (cpu rr < cpu r),
   bool_decide (0 < mem req) && bool_decide (mem rr < mem r),
   keys_where (fun k q => req_sel k q && bool_decide (sget rr k < sget r k)) (scm req)).
Definition gp_dim (r rr req : res) : bool := names_any (gp_dim_names r rr req).

Definition filter_sc (p : positive -> Z -> bool) (m : smap) : smap :=
  filter (fun kv => p (fst kv) (snd kv) = true) m.

(* filter of GreaterPartlyWithRelevantDimensions *)
Definition relevant_req (rr req : res) : res :=
  mkRes (if bool_decide (0 < cpu req) && negb (lt (cpu rr) eps) then cpu req else 0)
        (if bool_decide (0 < mem req) && negb (lt (mem rr) eps) then mem req else 0)
        (match sc req with
         | None => None
         | Some m => Some (filter_sc (fun k q => bool_decide (0 < q) && bool_decide (is_Some (scm rr !! k))) m)
         end).
Definition gp_rel_names (r rr req : res) := gp_dim_names r rr (relevant_req rr req).
Definition gp_rel (r rr req : res) : bool := names_any (gp_rel_names r rr req).

(* filter of LessEqualPartlyWithDimensionZeroFiltered *)
Definition zero_filtered_req (r rr req : res) : res :=
  mkRes (if bool_decide (0 < cpu req) && negb (lt (cpu r) eps && lt (cpu rr) eps) then cpu req else 0)
        (if bool_decide (0 < mem req) && negb (lt (mem r) eps && lt (mem rr) eps) then mem req else 0)
        (match sc req with
         | None => None
         | Some m => Some (filter_sc (fun k q => bool_decide (0 < q) &&
                              negb (lt (sget r k) eps && lt (sget rr k) eps)) m)
         end).
Definition lep_zf_names (r rr req : res) := lep_dim_names r rr (zero_filtered_req r rr req).
Definition lep_zf (r rr req : res) : bool := names_any (lep_zf_names r rr req).

(* ---- Diff with the Zero default (what ExceededPart and the plugins use);
        returns (increased, decreased).  Every key of either side lands in
        exactly one of the two result maps. ---- *)
Definition diff_f_inc (a b : option Z) : option Z :=
  match a, b with
  | None, None => None
  | _, _ => if bool_decide (default 0 b < default 0 a) then Some (default 0 a - default 0 b) else None
  end.
Definition diff_f_dec (a b : option Z) : option Z :=
  match a, b with
  | None, None => None
  | _, _ => if bool_decide (default 0 b < default 0 a) then None else Some (default 0 b - default 0 a)
  end.

Definition diff_zero (r rr : res) : res * res :=
  (mkRes (if bool_decide (cpu rr < cpu r) then cpu r - cpu rr else 0)
         (if bool_decide (mem rr < mem r) then mem r - mem rr else 0)
         (Some (merge diff_f_inc (scm r) (scm rr))),
   mkRes (if bool_decide (cpu rr < cpu r) then 0 else cpu rr - cpu r)
         (if bool_decide (mem rr < mem r) then 0 else mem rr - mem r)
         (Some (merge diff_f_dec (scm r) (scm rr)))).

End WithEps.
