(* Lemmas about the Resource model: pointwise characterisations of every
   operation and predicate (the interface later files depend on), then the
   algebraic and order laws of property C16.  All for every eps > 0. *)
From stdpp Require Import gmap.
From Coq Require Import ZArith Lia.
From V Require Import Base.Res.
Open Scope Z_scope.

Lemma res_eq r s : cpu r = cpu s -> mem r = mem s -> sc r = sc s -> r = s.
Proof. destruct r, s; simpl; intros; subst; reflexivity. Qed.

Lemma scm_mk c m x : scm (mkRes c m (Some x)) = x.
Proof. reflexivity. Qed.

Lemma sget_lookup r k v : scm r !! k = Some v -> sget r k = v.
Proof. unfold sget; intros ->; reflexivity. Qed.
Lemma sget_none r k : scm r !! k = None -> sget r k = 0.
Proof. unfold sget; intros ->; reflexivity. Qed.

Lemma map_allb_spec {A} (p : positive -> A -> bool) m :
  map_allb p m = true <-> forall k v, m !! k = Some v -> p k v = true.
Proof. unfold map_allb. rewrite bool_decide_eq_true. reflexivity. Qed.

Lemma map_allb_false {A} (p : positive -> A -> bool) m :
  map_allb p m = false <-> exists k v, m !! k = Some v /\ p k v = false.
Proof.
  unfold map_allb. rewrite bool_decide_eq_false. split.
  - intros H. apply map_not_Forall in H; [|apply _].
    destruct H as (k & v & Hl & Hn). exists k, v. split; [exact Hl|].
    destruct (p k v); [contradiction Hn; reflexivity|reflexivity].
  - intros (k & v & Hl & Hp) HF. specialize (HF k v Hl). simpl in HF. congruence.
Qed.

Lemma map_anyb_spec {A} (p : positive -> A -> bool) m :
  map_anyb p m = true <-> exists k v, m !! k = Some v /\ p k v = true.
Proof.
  unfold map_anyb. rewrite negb_true_iff, map_allb_false.
  split; intros (k & v & Hl & Hp); exists k, v; (split; [exact Hl|]).
  - apply negb_false_iff in Hp. exact Hp.
  - rewrite Hp. reflexivity.
Qed.

Lemma elem_of_keys_where {A} (p : positive -> A -> bool) (m : gmap positive A) k :
  k ∈ keys_where p m <-> exists v, m !! k = Some v /\ p k v = true.
Proof.
  unfold keys_where. rewrite elem_of_list_fmap. split.
  - intros ([k' v] & -> & Hin). apply elem_of_list_filter in Hin as [Hp Hin].
    apply elem_of_map_to_list in Hin. exists v. simpl in *. auto.
  - intros (v & Hl & Hp). exists (k, v). split; [reflexivity|].
    apply elem_of_list_filter. split; [exact Hp|]. apply elem_of_map_to_list. exact Hl.
Qed.

Lemma keys_where_nil {A} (p : positive -> A -> bool) (m : gmap positive A) :
  keys_where p m = [] <-> forall k v, m !! k = Some v -> p k v = false.
Proof.
  split.
  - intros Hnil k v Hl. destruct (p k v) eqn:E; [|reflexivity].
    assert (k ∈ keys_where p m) as Hin by (apply elem_of_keys_where; eauto).
    rewrite Hnil in Hin. inversion Hin.
  - intros H. destruct (keys_where p m) as [|k l] eqn:E; [reflexivity|].
    assert (k ∈ keys_where p m) as Hin by (rewrite E; left).
    apply elem_of_keys_where in Hin as (v & Hl & Hp). rewrite (H k v Hl) in Hp. discriminate.
Qed.

Section Laws.
Variable eps : Z.
Hypothesis eps_pos : 0 < eps.

Lemma lt_spec l r : lt l r = true <-> l < r.
Proof. unfold lt. apply bool_decide_eq_true. Qed.
Lemma le_spec l r : le eps l r = true <-> l < r + eps.
Proof.
  unfold le. rewrite orb_true_iff, !bool_decide_eq_true. lia.
Qed.
Lemma le_false l r : le eps l r = false <-> r + eps <= l.
Proof. rewrite <- not_true_iff_false, le_spec. lia. Qed.
Lemma eqv_spec l r : eqv eps l r = true <-> Z.abs (l - r) < eps.
Proof. unfold eqv. rewrite orb_true_iff, !bool_decide_eq_true. lia. Qed.
Lemma le_refl x : le eps x x = true.
Proof. apply le_spec. lia. Qed.
Lemma lt_le l r : lt l r = true -> le eps l r = true.
Proof. rewrite lt_spec, le_spec. lia. Qed.

(* ---------- pointwise view of the mutators ---------- *)

Lemma add_cpu r x : cpu (add r x) = cpu r + cpu x. Proof. reflexivity. Qed.
Lemma add_mem r x : mem (add r x) = mem r + mem x. Proof. reflexivity. Qed.

Lemma add_lookup r x k :
  scm (add r x) !! k = union_with (fun a b => Some (a + b)) (scm r !! k) (scm x !! k).
Proof.
  unfold add, scm at 1. simpl. case_bool_decide as He.
  - rewrite He, lookup_empty. fold (scm r). destruct (scm r !! k); reflexivity.
  - simpl. apply lookup_union_with.
Qed.

Lemma add_sget r x k : sget (add r x) k = sget r k + sget x k.
Proof.
  unfold sget. rewrite add_lookup.
  destruct (scm r !! k), (scm x !! k); simpl; lia.
Qed.

Lemma sub_cpu r x : cpu (sub r x) = cpu r - cpu x. Proof. reflexivity. Qed.
Lemma sub_mem r x : mem (sub r x) = mem r - mem x. Proof. reflexivity. Qed.

Lemma sub_lookup_some r x m k :
  sc r = Some m -> scm (sub r x) !! k = sub_f (m !! k) (scm x !! k).
Proof.
  intros Hm. unfold sub, scm at 1. simpl. rewrite Hm. simpl.
  rewrite lookup_merge. unfold diag_None. destruct (m !! k), (scm x !! k); reflexivity.
Qed.

(* the nil-map exception: subtracting from a vector without a scalar map
   silently drops the scalars of the subtrahend *)
Lemma sub_nil_drops_scalars r x : sc r = None -> sc (sub r x) = None.
Proof. intros H. unfold sub. simpl. rewrite H. reflexivity. Qed.

Lemma sub_sget r x k : sc r <> None -> sget (sub r x) k = sget r k - sget x k.
Proof.
  intros Hn. destruct (sc r) as [m|] eqn:Hm; [|congruence].
  unfold sget at 1. rewrite (sub_lookup_some r x m k Hm).
  unfold sget. replace (scm r) with m by (unfold scm; rewrite Hm; reflexivity).
  destruct (m !! k), (scm x !! k); simpl; lia.
Qed.

(* ---------- group laws ---------- *)

(* add then sub returns the original amounts in every dimension ... *)
Theorem add_sub_pointwise r x :
  cpu (sub (add r x) x) = cpu r /\ mem (sub (add r x) x) = mem r /\
  forall k, sget (sub (add r x) x) k = sget r k.
Proof.
  split; [simpl; lia|]. split; [simpl; lia|]. intros k.
  destruct (sc (add r x)) as [m|] eqn:Hm.
  - rewrite sub_sget by congruence. rewrite add_sget. lia.
  - (* the sum has no scalar map: then x had no scalars and neither had r *)
    assert (Hs : sc (sub (add r x) x) = None) by (apply sub_nil_drops_scalars; exact Hm).
    unfold add in Hm. simpl in Hm. case_bool_decide as He; [|discriminate].
    unfold sget, scm. rewrite Hs, Hm. reflexivity.
Qed.

(* ... and returns the very same vector when x introduces no new scalar key *)
Theorem add_sub_exact r x :
  (forall k, is_Some (scm x !! k) -> is_Some (scm r !! k)) ->
  sub (add r x) x = r.
Proof.
  intros Hsub. apply res_eq; [simpl; lia|simpl; lia|].
  unfold sub, add. simpl. case_bool_decide as He.
  - destruct (sc r) as [m|] eqn:Hm; [|reflexivity].
    f_equal. apply map_eq. intros k. rewrite lookup_merge, He, lookup_empty.
    unfold diag_None. destruct (m !! k); reflexivity.
  - destruct (sc r) as [m|] eqn:Hm.
    + f_equal. apply map_eq. intros k. rewrite lookup_merge, lookup_union_with.
      unfold scm at 1. rewrite Hm. simpl. unfold diag_None.
      destruct (m !! k) eqn:E1, (scm x !! k) eqn:E2; simpl; try reflexivity.
      * f_equal. lia.
      * exfalso. destruct (Hsub k) as [v Hv]; [rewrite E2; eauto|].
        unfold scm in Hv. rewrite Hm in Hv. simpl in Hv. congruence.
    + exfalso. apply He. apply map_eq. intros k. rewrite lookup_empty.
      destruct (scm x !! k) eqn:E; [|reflexivity].
      destruct (Hsub k) as [v Hv]; [rewrite E; eauto|].
      unfold scm in Hv. rewrite Hm in Hv. simpl in Hv. rewrite lookup_empty in Hv. discriminate.
Qed.

Theorem add_comm_pointwise r x :
  cpu (add r x) = cpu (add x r) /\ mem (add r x) = mem (add x r) /\
  forall k, scm (add r x) !! k = scm (add x r) !! k.
Proof.
  split; [simpl; lia|]. split; [simpl; lia|]. intros k.
  rewrite !add_lookup. destruct (scm r !! k), (scm x !! k); simpl; try reflexivity. f_equal. lia.
Qed.

Theorem add_assoc_pointwise r x y :
  cpu (add (add r x) y) = cpu (add r (add x y)) /\ mem (add (add r x) y) = mem (add r (add x y)) /\
  forall k, scm (add (add r x) y) !! k = scm (add r (add x y)) !! k.
Proof.
  split; [simpl; lia|]. split; [simpl; lia|]. intros k.
  rewrite !add_lookup. destruct (scm r !! k), (scm x !! k), (scm y !! k); simpl; try reflexivity. f_equal. lia.
Qed.

(* ---------- pointwise view of the comparisons ---------- *)

Lemma has_missing_spec r rr :
  has_missing r rr = true <-> exists k, is_Some (scm rr !! k) /\ scm r !! k = None.
Proof.
  unfold has_missing. rewrite map_anyb_spec. split.
  - intros (k & v & Hl & Hp). exists k. split; [eauto|].
    apply negb_true_iff, bool_decide_eq_false in Hp.
    destruct (scm r !! k) eqn:E; [exfalso; apply Hp; eauto|reflexivity].
  - intros (k & [v Hv] & Hn). exists k, v. split; [exact Hv|].
    apply negb_true_iff, bool_decide_eq_false. rewrite Hn. intros [? ?]. discriminate.
Qed.

Lemma has_missing_false r rr :
  has_missing r rr = false <-> forall k, is_Some (scm rr !! k) -> is_Some (scm r !! k).
Proof.
  rewrite <- not_true_iff_false, has_missing_spec. split.
  - intros H k Hk. destruct (scm r !! k) eqn:E; [eauto|]. exfalso. apply H. eauto.
  - intros H (k & Hk & Hn). destruct (H k Hk) as [v Hv]. congruence.
Qed.

(* LessEqual under the Zero default: every dimension of r, compared with the
   amount rr has there (0 if rr lacks it) *)
Lemma less_equal_zero_spec r rr :
  less_equal eps r rr DZero = true <->
  cpu r < cpu rr + eps /\ mem r < mem rr + eps /\
  forall k v, scm r !! k = Some v -> v < sget rr k + eps.
Proof.
  unfold less_equal, all_sc. rewrite !andb_true_iff, !le_spec, map_allb_spec.
  split.
  - intros (((Hc & Hm) & _) & Hs). repeat split; try assumption.
    intros k v Hl. specialize (Hs k v Hl). unfold cmp_at in Hs. unfold sget.
    destruct (scm rr !! k); simpl; apply le_spec in Hs; exact Hs.
  - intros (Hc & Hm & Hs). repeat split; try assumption.
    intros k v Hl. specialize (Hs k v Hl). unfold cmp_at. unfold sget in Hs.
    destruct (scm rr !! k); simpl in *; apply le_spec; exact Hs.
Qed.

Lemma less_equal_inf_spec r rr :
  less_equal eps r rr DInf = true <->
  cpu r < cpu rr + eps /\ mem r < mem rr + eps /\
  (forall k, is_Some (scm rr !! k) -> is_Some (scm r !! k)) /\
  forall k v w, scm r !! k = Some v -> scm rr !! k = Some w -> v < w + eps.
Proof.
  unfold less_equal, all_sc. rewrite !andb_true_iff, !le_spec, map_allb_spec, negb_true_iff, has_missing_false.
  split.
  - intros (((Hc & Hm) & Hmiss) & Hs). repeat split; try assumption.
    intros k v w Hl Hr. specialize (Hs k v Hl). unfold cmp_at in Hs. rewrite Hr in Hs.
    apply le_spec in Hs; exact Hs.
  - intros (Hc & Hm & Hmiss & Hs). repeat split; try assumption.
    intros k v Hl. unfold cmp_at. destruct (scm rr !! k) eqn:E; [|reflexivity].
    apply le_spec. eapply Hs; eauto.
Qed.

Lemma less_zero_spec r rr :
  less r rr DZero = true <->
  cpu r < cpu rr /\ mem r < mem rr /\
  forall k v, scm r !! k = Some v -> v < sget rr k.
Proof.
  unfold less, all_sc. rewrite !andb_true_iff, !lt_spec, map_allb_spec.
  split.
  - intros (((Hc & Hm) & _) & Hs). repeat split; try assumption.
    intros k v Hl. specialize (Hs k v Hl). unfold cmp_at in Hs. unfold sget.
    destruct (scm rr !! k); simpl; apply lt_spec in Hs; exact Hs.
  - intros (Hc & Hm & Hs). repeat split; try assumption.
    intros k v Hl. specialize (Hs k v Hl). unfold cmp_at. unfold sget in Hs.
    destruct (scm rr !! k); simpl in *; apply lt_spec; exact Hs.
Qed.

(* ---------- order laws ---------- *)

Theorem less_equal_refl r d : less_equal eps r r d = true.
Proof.
  destruct d.
  - apply less_equal_zero_spec. repeat split; try lia.
    intros k v Hl. rewrite (sget_lookup _ _ _ Hl). lia.
  - apply less_equal_inf_spec. repeat split; try lia; [auto|].
    intros k v w H1 H2. rewrite H1 in H2. inversion H2. lia.
Qed.

Theorem less_implies_less_equal r rr d : less r rr d = true -> less_equal eps r rr d = true.
Proof.
  unfold less, less_equal, all_sc. rewrite !andb_true_iff, !map_allb_spec.
  intros (((Hc & Hm) & Hmiss) & Hs). repeat split; auto using lt_le.
  intros k v Hl. specialize (Hs k v Hl). unfold cmp_at in *.
  destruct (scm rr !! k); [apply lt_le; exact Hs|]. destruct d; [apply lt_le; exact Hs|reflexivity].
Qed.

(* "LessEqualWithResourcesName is the same as LessEqual": exactly so under the
   Zero default; under Infinity the named form omits the missing-key test. *)
Theorem less_equal_names_zero r rr :
  less_equal_names eps r rr DZero = less_equal eps r rr DZero.
Proof.
  unfold less_equal_names, le_names, names_none, less_equal, all_sc.
  rewrite !negb_involutive, andb_true_r.
  destruct (le eps (cpu r) (cpu rr)); simpl; [|reflexivity].
  destruct (le eps (mem r) (mem rr)); simpl; [|reflexivity].
  apply eq_true_iff_eq. rewrite bool_decide_eq_true, keys_where_nil, map_allb_spec.
  split; intros H k v Hl; specialize (H k v Hl).
  - apply negb_false_iff in H. exact H.
  - rewrite H. reflexivity.
Qed.

Theorem less_equal_names_inf r rr :
  less_equal eps r rr DInf = less_equal_names eps r rr DInf && negb (has_missing r rr).
Proof.
  unfold less_equal_names, le_names, names_none, less_equal, all_sc.
  rewrite !negb_involutive.
  destruct (le eps (cpu r) (cpu rr)); simpl; [|reflexivity].
  destruct (le eps (mem r) (mem rr)); simpl; [|reflexivity].
  rewrite andb_comm. f_equal.
  apply eq_true_iff_eq. rewrite bool_decide_eq_true, keys_where_nil, map_allb_spec.
  split; intros H k v Hl; specialize (H k v Hl).
  - rewrite H. reflexivity.
  - apply negb_false_iff in H. exact H.
Qed.

Theorem greater_partly_is_negation r rr d :
  greater_partly eps r rr d = negb (less_equal_names eps r rr d).
Proof. reflexivity. Qed.

(* consistency of the non-strict whole-vector form with the strict partial
   form: if r <= s in every dimension then s can be strictly below r only
   inside the tolerance band -- or through LessPartly's missing-key rule, which
   answers "less" for a key s lacks whatever amount r has there (kept visible
   as the last disjunct; see DESIGN C16) *)
Theorem less_equal_vs_less_partly r s :
  (forall k v, scm s !! k = Some v -> 0 <= v) ->
  less_equal eps r s DZero = true -> less_partly s r DZero = true ->
  (0 < cpu r - cpu s < eps) \/ (0 < mem r - mem s < eps) \/
  (exists k, 0 < sget r k - sget s k < eps) \/
  (exists k, scm s !! k = None /\ is_Some (scm r !! k) /\ sget r k < eps).
Proof.
  intros Hnn. rewrite less_equal_zero_spec. intros (Hc & Hm & Hs).
  unfold less_partly. rewrite !orb_true_iff, !lt_spec.
  intros [[[H|H]|H]|H]; [left; lia|right; left; lia| |].
  - apply has_missing_spec in H as (k & [v Hv] & Hn).
    specialize (Hs k v Hv). rewrite (sget_none _ _ Hn) in Hs.
    right; right; right. exists k. rewrite (sget_lookup _ _ _ Hv). eauto with lia.
  - apply map_anyb_spec in H as (k & v & Hl & Hp). unfold cmp_at in Hp.
    destruct (scm r !! k) as [w|] eqn:E.
    + apply lt_spec in Hp. specialize (Hs k w E).
      right; right; left. exists k. rewrite (sget_lookup _ _ _ E), (sget_lookup _ _ _ Hl) in *. lia.
    + apply lt_spec in Hp.
      (* s has a negative amount at a key r lacks: r's 0 is above it, and the
         hypothesis says nothing about keys outside r *)
      specialize (Hnn k v Hl). lia.
Qed.


(* ---------- Diff / min / max ---------- *)

Theorem diff_decomposes r s inc dec :
  diff_zero r s = (inc, dec) ->
  cpu r + cpu dec = cpu s + cpu inc /\ mem r + mem dec = mem s + mem inc /\
  0 <= cpu inc /\ 0 <= cpu dec /\ Z.min (cpu inc) (cpu dec) = 0 /\
  0 <= mem inc /\ 0 <= mem dec /\ Z.min (mem inc) (mem dec) = 0 /\
  forall k, sget r k + sget dec k = sget s k + sget inc k /\
            0 <= sget inc k /\ 0 <= sget dec k /\ Z.min (sget inc k) (sget dec k) = 0.
Proof.
  unfold diff_zero. intros H. inversion H; subst; clear H. simpl.
  repeat split; try (repeat case_bool_decide; lia).
  all: unfold sget; rewrite !scm_mk, !lookup_merge; unfold diag_None, diff_f_inc, diff_f_dec;
    destruct (scm r !! k), (scm s !! k); simpl; repeat case_bool_decide; simpl; lia.
Qed.

(* every key of either operand is reported in exactly one of the two results *)
Theorem diff_keys r s inc dec k :
  diff_zero r s = (inc, dec) ->
  (is_Some (scm r !! k) \/ is_Some (scm s !! k)) <->
  (is_Some (scm inc !! k) /\ scm dec !! k = None) \/ (scm inc !! k = None /\ is_Some (scm dec !! k)).
Proof.
  unfold diff_zero. intros H. inversion H; subst; clear H. rewrite !scm_mk.
  rewrite !lookup_merge. unfold diag_None, diff_f_inc, diff_f_dec.
  destruct (scm r !! k), (scm s !! k); simpl; repeat case_bool_decide; simpl;
    split; intros; try tauto; eauto.
  all: try (destruct H as [[? ?]|[? ?]]; try discriminate; destruct H as [? ?]; discriminate).
  all: try (destruct H as [[? ?]|[? ?]]; discriminate).
Qed.

Theorem set_max_spec r rr :
  cpu (set_max r rr) = Z.max (cpu r) (cpu rr) /\ mem (set_max r rr) = Z.max (mem r) (mem rr) /\
  forall k, scm (set_max r rr) !! k =
            union_with (fun a b => Some (Z.max a b)) (scm r !! k) (scm rr !! k).
Proof.
  split; [reflexivity|]. split; [reflexivity|]. intros k.
  unfold set_max, scm at 1. simpl. case_bool_decide as He.
  - rewrite He, lookup_empty. fold (scm r). destruct (scm r !! k); reflexivity.
  - simpl. apply lookup_union_with.
Qed.

Theorem min_dim_spec r rr d m :
  sc r = Some m ->
  cpu (min_dim r rr d) = Z.min (cpu r) (cpu rr) /\ mem (min_dim r rr d) = Z.min (mem r) (mem rr) /\
  forall k, scm (min_dim r rr d) !! k =
            match m !! k with
            | None => None
            | Some v => match scm rr !! k with
                        | Some w => Some (Z.min v w)
                        | None => match d with DInf => Some v | DZero => Some 0 end
                        end
            end.
Proof.
  intros Hm. split; [reflexivity|]. split; [reflexivity|]. intros k.
  unfold min_dim, scm at 1. simpl. rewrite Hm. simpl. rewrite map_lookup_imap.
  destruct (m !! k); simpl; [|reflexivity]. destruct (scm rr !! k); [reflexivity|]. destruct d; reflexivity.
Qed.

(* the result of MinDimensionResource is below both operands (Zero default,
   non-negative operands): it is the per-dimension minimum *)
Theorem min_dim_le_left r rr d :
  (forall k v, scm r !! k = Some v -> 0 <= v) ->
  less_equal eps (min_dim r rr d) r DZero = true.
Proof.
  intros Hnn. apply less_equal_zero_spec. split; [simpl; lia|]. split; [simpl; lia|].
  intros k v Hl. destruct (sc r) as [m|] eqn:Hm.
  - destruct (min_dim_spec r rr d m Hm) as (_ & _ & Hk). rewrite Hk in Hl.
    assert (Hrm : scm r = m) by (unfold scm; rewrite Hm; reflexivity).
    destruct (m !! k) as [v0|] eqn:E; [|discriminate].
    rewrite <- Hrm in E. rewrite (sget_lookup _ _ _ E). specialize (Hnn k v0 E).
    destruct (scm rr !! k); [inversion Hl; lia|]. destruct d; inversion Hl; lia.
  - unfold min_dim, scm in Hl. simpl in Hl. rewrite Hm in Hl. simpl in Hl. rewrite lookup_empty in Hl. discriminate.
Qed.

(* ---------- the per-dimension forms agree with the whole-vector forms ---------- *)

(* GreaterPartlyWithDimension with every dimension requested is the exact
   (tolerance-free) negation of "r <= rr in every dimension" *)
Theorem gp_dim_spec r rr req :
  gp_dim r rr req = true <->
  (0 < cpu req /\ cpu rr < cpu r) \/ (0 < mem req /\ mem rr < mem r) \/
  exists k q, scm req !! k = Some q /\ k <> pods_name /\ 0 < q /\ sget rr k < sget r k.
Proof.
  unfold gp_dim, names_any, names_none, gp_dim_names.
  rewrite negb_true_iff, !andb_false_iff, !negb_false_iff, !andb_true_iff, !bool_decide_eq_true, bool_decide_eq_false.
  rewrite keys_where_nil. split.
  - intros [[H|H]|H]; [left; exact H|right; left; exact H|].
    right; right.
    destruct (map_anyb (fun k q => req_sel k q && bool_decide (sget rr k < sget r k)) (scm req)) eqn:E.
    + apply map_anyb_spec in E as (k & q & Hl & Hp). exists k, q.
      unfold req_sel, ignored in Hp. rewrite !andb_true_iff, negb_true_iff, !bool_decide_eq_true, bool_decide_eq_false in Hp.
      tauto.
    + exfalso. apply H. intros k q Hl. unfold map_anyb in E. apply negb_false_iff in E.
      rewrite map_allb_spec in E. specialize (E k q Hl). apply negb_true_iff in E. exact E.
  - intros [H|[H|(k & q & Hl & Hk & Hq & Hlt)]]; [left; left; exact H|left; right; exact H|].
    right. intros Hall. specialize (Hall k q Hl).
    unfold req_sel, ignored in Hall. rewrite !andb_false_iff, negb_false_iff, !bool_decide_eq_false, bool_decide_eq_true in Hall.
    tauto.
Qed.

Theorem le_dim_is_not_gp_dim r rr req :
  sc r <> None -> le_dim r rr req = negb (gp_dim r rr req).
Proof.
  intros Hn. unfold le_dim, gp_dim, names_any, le_dim_names, gp_dim_names.
  destruct (sc r); [|congruence]. rewrite negb_involutive. reflexivity.
Qed.

End Laws.
