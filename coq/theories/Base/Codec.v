(* Token codec shared by every property: cases travel between the Go harness,
   the extracted OCaml driver and vm_compute as flat lists of integers.
   Decoders are total (None on malformed input); nothing here is proved about
   them: they are glue of the correspondence check, not part of any theorem. *)
From Coq Require Import ZArith List Bool.
Import ListNotations.
Open Scope Z_scope.

Definition dec (A : Type) := list Z -> option (A * list Z).

Definition ret {A} (a : A) : dec A := fun l => Some (a, l).
Definition fail {A} : dec A := fun _ => None.
Definition bind {A B} (p : dec A) (f : A -> dec B) : dec B :=
  fun l => match p l with None => None | Some (a, r) => f a r end.

Notation "'let*' x ':=' p 'in' q" := (bind p (fun x => q))
  (at level 200, x name, p at level 100, q at level 200, right associativity).

Definition dZ : dec Z := fun l => match l with [] => None | x :: r => Some (x, r) end.
Definition dBool : dec bool := let* x := dZ in ret (negb (x =? 0)).
Definition dNat : dec nat := let* x := dZ in if x <? 0 then fail else ret (Z.to_nat x).
Definition dPos : dec positive := let* x := dZ in if x <=? 0 then fail else ret (Z.to_pos x).

Fixpoint dRep {A} (n : nat) (p : dec A) : dec (list A) :=
  match n with
  | O => ret []
  | S k => let* a := p in let* r := dRep k p in ret (a :: r)
  end.
Definition dList {A} (p : dec A) : dec (list A) := let* n := dNat in dRep n p.
Definition dOpt {A} (p : dec A) : dec (option A) :=
  let* t := dZ in if t =? 0 then ret None else let* a := p in ret (Some a).
Definition dPair {A B} (p : dec A) (q : dec B) : dec (A * B) :=
  let* a := p in let* b := q in ret (a, b).

(* run a decoder on a whole token list; trailing tokens are an error *)
Definition run_dec {A} (p : dec A) (l : list Z) : option A :=
  match p l with Some (a, []) => Some a | _ => None end.

Definition eBool (b : bool) : list Z := [if b then 1 else 0].
Definition eNat (n : nat) : list Z := [Z.of_nat n].
Definition ePos (p : positive) : list Z := [Zpos p].
Definition eList {A} (e : A -> list Z) (l : list A) : list Z :=
  Z.of_nat (length l) :: flat_map e l.
Definition eOpt {A} (e : A -> list Z) (o : option A) : list Z :=
  match o with None => [0] | Some a => 1 :: e a end.

(* the output every entry point returns on undecodable input *)
Definition bad_input : list Z := [-999999].

(* helpers the OCaml driver uses to move between decimal text and Z *)
Definition z_mul10_add (a d : Z) : Z := a * 10 + d.
Definition z_divmod10 (a : Z) : Z * Z := Z.quotrem a 10.
Definition z_neg (a : Z) : Z := - a.
Definition z_sign (a : Z) : Z := Z.sgn a.

(* insertion sort of (key, value) pairs by key: gmap's map_to_list order is
   deterministic but not ascending, and the Go side sorts by name *)
Fixpoint ins_kv {A} (k : positive) (a : A) (l : list (positive * A)) : list (positive * A) :=
  match l with
  | [] => [(k, a)]
  | (k', a') :: r => if Pos.leb k k' then (k, a) :: l else (k', a') :: ins_kv k a r
  end.
Definition sort_kv {A} (l : list (positive * A)) : list (positive * A) :=
  fold_right (fun ka acc => ins_kv (fst ka) (snd ka) acc) [] l.
Definition sort_pos (l : list positive) : list positive :=
  map fst (sort_kv (map (fun k => (k, tt)) l)).
