(* wire format of a Resource:  cpu mem nilflag n (key val)*n   (keys ascending) *)
From stdpp Require Import gmap.
From Coq Require Import ZArith List.
From V Require Import Base.Codec Base.Res.
Import ListNotations.
Open Scope Z_scope.

Definition dRes : dec res :=
  let* c := dZ in let* m := dZ in let* nn := dBool in let* kvs := dList (dPair dPos dZ) in
  ret (mkRes c m (if nn then Some (list_to_map kvs) else None)).

Definition dDflt : dec dflt := let* b := dBool in ret (if b then DInf else DZero).

Definition eRes (r : res) : list Z :=
  [cpu r; mem r] ++
  match sc r with
  | None => [0; 0]
  | Some m => 1 :: eList (fun kv => [Zpos (fst kv); snd kv]) (sort_kv (map_to_list m))
  end.

Definition eNames (x : bool * bool * list positive) : list Z :=
  match x with (c, m, l) => eBool c ++ eBool m ++ eList ePos (sort_pos l) end.
