(* C03: executable law of the reclaim regression stream (harness/cmd/c03/reclaim_stream.go).
   The harness runs the real reclaim action on a hierarchical-queue cluster and reports
     [Preemptive before; Allocatable before; task pipelined; #evictions; n;
      (allocated, held, realCapability) * n]
   for the task's leaf queue and its ancestors (cpu, milli-units): [allocated] is the capacity
   plugin's own per-queue ledger after the action, [held] is recomputed by the harness from the
   session's task statuses (requests of the tasks of the queue's subtree that are Allocated,
   Pipelined, Binding, Bound or Running).  Law: the ledger equals the recomputed sum, and a
   placement leaves every queue of the chain within its realCapability -- the property's "the same
   bound holds for every ancestor queue".  (Before /repo bd1440f the real action violated it:
   capacity's PreemptiveFn looks at the leaf only and reclaim asked nothing else.) *)
From Coq Require Import ZArith List Lia.
Import ListNotations.
Open Scope Z_scope.

Fixpoint triples_ok (placed : bool) (l : list Z) : bool :=
  match l with
  | [] => true
  | a :: h :: c :: r => (a =? h) && (negb placed || ((a <=? c) && (h <=? c))) && triples_ok placed r
  | _ => false
  end.

Definition law_reclaim (toks : list Z) : option bool :=
  match toks with
  | _ :: _ :: placed :: _ :: n :: rest =>
    if Z.of_nat (length rest) =? 3 * n then Some (triples_ok (negb (placed =? 0)) rest) else None
  | _ => None
  end.

(* what the law says *)
Lemma triples_ok_spec placed l : triples_ok placed l = true ->
  forall i a h c, nth_error l (3 * i) = Some a -> nth_error l (3 * i + 1) = Some h ->
                  nth_error l (3 * i + 2) = Some c ->
  a = h /\ (placed = true -> h <= c).
Proof.
  intros H i. revert l H. induction i as [|i IH]; intros l H a h c Ha Hh Hc;
    destruct l as [|a0 [|h0 [|c0 r]]]; simpl in H; try discriminate.
  - apply andb_prop in H as [H12 H3]. apply andb_prop in H12 as [H1 H2].
    simpl in Ha, Hh, Hc. inversion Ha; inversion Hh; inversion Hc; subst.
    apply Z.eqb_eq in H1. split; [exact H1|]. intros ->. simpl in H2.
    apply andb_prop in H2 as [_ H2]. apply Z.leb_le, H2.
  - apply andb_prop in H as [H12 H3].
    replace (3 * S i)%nat with (S (S (S (3 * i)))) in Ha by lia.
    replace (3 * S i + 1)%nat with (S (S (S (3 * i + 1)))) in Hh by lia.
    replace (3 * S i + 2)%nat with (S (S (S (3 * i + 2)))) in Hc by lia.
    simpl in Ha, Hh, Hc. exact (IH r H3 a h c Ha Hh Hc).
Qed.
