(* C03, part B: theorems about the queue votes modelled in CapacityModel.v.
   Everything is quantified over all records, requests, hierarchies (no well-formedness assumed). *)
From stdpp Require Import gmap.
From Coq Require Import ZArith Lia.
From V Require Import Base.Res Base.ResLemmas Sched.LedgerInvP Sched.QueueLemmasBase C03.CapacityModel.
Open Scope Z_scope.

(* ---------- small facts ---------- *)

Lemma amt_clone r d : amt (clone r) d = amt r d.
Proof. destruct r, d; reflexivity. Qed.

Lemma sc_clone r : sc (clone r) = sc r.
Proof. destruct r; reflexivity. Qed.

Lemma add_sc_none_l a x : sc (add a x) = None -> sc a = None.
Proof. unfold add. simpl. case_bool_decide; [tauto|discriminate]. Qed.

Lemma sub_sc_some a x : sc a <> None -> sc (sub a x) <> None.
Proof. unfold sub. simpl. destruct (sc a); [discriminate|congruence]. Qed.

Lemma sget_sc_none r k : sc r = None -> sget r k = 0.
Proof. intros H. unfold sget, scm. rewrite H. simpl. rewrite lookup_empty. reflexivity. Qed.

(* le_dim (base + req) c req: the bound in every requested dimension, scalars included *)
Lemma le_dim_add_bound base req c :
  le_dim (add base req) c req = true ->
  forall d, requested req d -> amt base d + amt req d <= amt c d.
Proof.
  intros Hle d Hd. destruct (le_dim_bound _ _ _ Hle) as (Hc & Hm & Hs).
  rewrite <- amt_add. destruct d.
  - apply Hc, Hd.
  - apply Hm, Hd.
  - destruct Hd as [Hk Hq]. destruct (sc (add base req)) eqn:E.
    + apply Hs; [congruence|exact Hk|exact Hq].
    + rewrite (add_sc_none _ _ E k) in Hq. lia.
Qed.

Lemma forallb_chain {A} (f : A -> bool) (l : list A) (q : A) :
  forallb f (l ++ [q]) = true -> forall a, a = q \/ a ∈ l -> f a = true.
Proof.
  rewrite forallb_app. simpl. rewrite !andb_true_iff. intros [Hl [Hq _]] a [->|Ha]; [exact Hq|].
  rewrite forallb_forall in Hl. apply Hl. apply elem_of_list_In. exact Ha.
Qed.

Lemma total_req_amt reqs d :
  amt (total_req reqs) d = foldr (fun x acc => amt x d + acc) 0 reqs.
Proof.
  unfold total_req.
  assert (forall acc, amt (fold_left add reqs acc) d = amt acc d + foldr (fun x a => amt x d + a) 0 reqs) as H.
  { induction reqs as [|x l IH]; intros acc; simpl; [lia|]. rewrite IH, amt_add. lia. }
  rewrite H, amt_empty. lia.
Qed.

Lemma total_req_single req d : amt (total_req [req]) d = amt req d.
Proof. rewrite total_req_amt. simpl. lia. Qed.

Lemma requested_amt r s : (forall d, amt r d = amt s d) -> forall d, requested r d <-> requested s d.
Proof.
  intros E d. destruct d; simpl.
  - pose proof (E DCpu) as H. simpl in H. rewrite H. reflexivity.
  - pose proof (E DMem) as H. simpl in H. rewrite H. reflexivity.
  - pose proof (E (DSc k)) as H. simpl in H. rewrite H. reflexivity.
Qed.

(* ---------- capacity: AllocatableFn ---------- *)

(* one queue of the chain accepts: its record exists, has a realCapability, and
   allocated + reserved + request stays under it in every requested dimension *)
Lemma queue_fits_bound qs reserved req a :
  queue_fits qs reserved req a = true ->
  exists ra c, qs !! a = Some ra /\ qr_realcap ra = Some c /\
    forall d, requested req d -> amt (qr_alloc ra) d + amt (reserved a) d + amt req d <= amt c d.
Proof.
  unfold queue_fits, le_dim_opt, future_used.
  destruct (qs !! a) as [ra|]; [|discriminate]. destruct (qr_realcap ra) as [c|] eqn:Hrc; [|discriminate].
  intros H. exists ra, c. split; [reflexivity|]. split; [exact Hrc|].
  intros d Hd. pose proof (le_dim_add_bound _ _ _ H d Hd) as B.
  rewrite amt_add, amt_clone in B. exact B.
Qed.

Theorem capacity_allocatable_bound hier ready qs reserved q req :
  cap_allocatable hier ready qs reserved q req = true ->
  exists r, qs !! q = Some r /\ qr_open r = true /\ ready = true /\
    (hier = true -> qr_children r = 0%nat) /\
    forall a, a = q \/ a ∈ qr_ancestors r ->
      exists ra c, qs !! a = Some ra /\ qr_realcap ra = Some c /\
        forall d, requested req d ->
          amt (qr_alloc ra) d + amt (reserved a) d + amt req d <= amt c d.
Proof.
  unfold cap_allocatable. destruct (qs !! q) as [r|]; [|discriminate].
  rewrite !andb_true_iff. intros [[[Ho Hr] Hl] Hf]. exists r.
  split; [reflexivity|]. split; [exact Ho|]. split; [exact Hr|]. split.
  - intros ->. simpl in Hl. unfold is_leaf in Hl. apply bool_decide_eq_true in Hl. exact Hl.
  - intros a Ha. apply queue_fits_bound. exact (forallb_chain _ _ _ Hf a Ha).
Qed.

(* ---------- capacity: PreemptiveFn (the queue itself only: no ancestor is consulted) ---------- *)

Theorem cap_preemptive_bound eps ready qs q reqs :
  cap_preemptive eps ready qs q reqs = true ->
  exists r c, qs !! q = Some r /\ ready = true /\ qr_open r = true /\ qr_realcap r = Some c /\
    forall d, requested (total_req reqs) d ->
      amt (qr_alloc r) d + amt (total_req reqs) d <= amt c d.
Proof.
  unfold cap_preemptive, le_dim_opt. destruct (qs !! q) as [r|]; [|discriminate].
  rewrite !andb_true_iff. intros [[Hr Ho] [Hle _]].
  destruct (qr_realcap r) as [c|] eqn:Hrc; [|discriminate]. exists r, c.
  repeat (split; [first [reflexivity|assumption]|]).
  intros d Hd. pose proof (le_dim_add_bound _ _ _ Hle d Hd) as B. rewrite amt_clone in B. exact B.
Qed.

(* ---------- capacity: JobEnqueueableFn ---------- *)

Lemma enq_total_bound ra m c :
  le_dim (enq_total ra m) c m = true ->
  forall d, requested m d ->
    amt m d + amt (qr_alloc ra) d + amt (qr_inqueue ra) d - amt (qr_elastic ra) d <= amt c d.
Proof.
  unfold enq_total. intros Hle d Hd.
  set (X := add (add (clone m) (qr_alloc ra)) (qr_inqueue ra)) in *.
  assert (forall e, amt X e = amt m e + amt (qr_alloc ra) e + amt (qr_inqueue ra) e) as HX.
  { intros e. unfold X. rewrite !amt_add, amt_clone. reflexivity. }
  destruct (le_dim_bound _ _ _ Hle) as (Hc & Hm & Hs). destruct d.
  - specialize (Hc Hd). rewrite sub_cpu in Hc. pose proof (HX DCpu) as E. simpl in *. lia.
  - specialize (Hm Hd). rewrite sub_mem in Hm. pose proof (HX DMem) as E. simpl in *. lia.
  - destruct Hd as [Hk Hq]. destruct (sc X) eqn:E.
    + assert (sc X <> None) as Hn by congruence.
      specialize (Hs (sub_sc_some _ _ Hn) k Hk Hq). rewrite (sub_sget _ _ _ Hn) in Hs.
      pose proof (HX (DSc k)) as E2. simpl in *. lia.
    + (* no scalar map at all: then minResources has none either, nothing scalar is requested *)
      unfold X in E. apply add_sc_none_l, add_sc_none_l in E. rewrite sc_clone in E.
      rewrite (sget_sc_none _ _ E) in Hq. lia.
Qed.

Lemma enq_fits_bound qs m a :
  enq_fits qs m a = true ->
  exists ra c, qs !! a = Some ra /\ qr_realcap ra = Some c /\
    forall d, requested m d ->
      amt m d + amt (qr_alloc ra) d + amt (qr_inqueue ra) d - amt (qr_elastic ra) d <= amt c d.
Proof.
  unfold enq_fits, le_dim_opt. destruct (qs !! a) as [ra|]; [|discriminate].
  destruct (qr_realcap ra) as [c|] eqn:Hrc; [|discriminate]. intros H. exists ra, c.
  split; [reflexivity|]. split; [exact Hrc|]. apply enq_total_bound. exact H.
Qed.

(* a Permit always means: ready, record, Open, leaf; with minResources and a realCapability on
   the queue, the admission bound holds for the queue and every ancestor.  The bound is exact in
   every dimension (the nil-map quirk of Resource.sub cannot bite: see enq_total_bound). *)
Theorem enqueue_vote_bound hier ready qs q minres :
  cap_enqueueable hier ready qs q minres = Permit ->
  exists r, qs !! q = Some r /\ ready = true /\ qr_open r = true /\
    (hier = true -> qr_children r = 0%nat) /\
    forall m, minres = Some m -> qr_realcap r <> None ->
      forall a, a = q \/ a ∈ qr_ancestors r ->
        exists ra c, qs !! a = Some ra /\ qr_realcap ra = Some c /\
          forall d, requested m d ->
            amt m d + amt (qr_alloc ra) d + amt (qr_inqueue ra) d - amt (qr_elastic ra) d <= amt c d.
Proof.
  unfold cap_enqueueable. destruct ready; simpl; [|discriminate].
  destruct (qs !! q) as [r|]; [|discriminate].
  destruct (hier && negb (is_leaf r)) eqn:Hl; [discriminate|].
  destruct (qr_open r) eqn:Ho; simpl; [|discriminate].
  intros H. exists r. split; [reflexivity|]. split; [reflexivity|]. split; [exact Ho|]. split.
  - intros ->. simpl in Hl. apply negb_false_iff in Hl. unfold is_leaf in Hl.
    apply bool_decide_eq_true in Hl. exact Hl.
  - intros m -> Hrc. destruct (qr_realcap r); [|congruence].
    destruct (forallb (enq_fits qs m) (chain r q)) eqn:Hf; [|discriminate].
    intros a Ha. apply enq_fits_bound. exact (forallb_chain _ _ _ Hf a Ha).
Qed.

(* ---------- only leaf queues receive pods / PodGroups; closed queues receive nothing ---------- *)

Theorem only_leaf_receives ready qs reserved q r req minres :
  qs !! q = Some r -> (0 < qr_children r)%nat ->
  cap_allocatable true ready qs reserved q req = false /\
  cap_enqueueable true ready qs q minres = Reject.
Proof.
  intros Hq Hc. assert (is_leaf r = false) as Hl.
  { unfold is_leaf. apply bool_decide_eq_false. lia. }
  unfold cap_allocatable, cap_enqueueable. rewrite Hq, Hl. simpl. split.
  - rewrite andb_false_r. reflexivity.
  - destruct ready; reflexivity.
Qed.

Theorem closed_queue_receives_nothing eps hier ready qs reserved q r :
  qs !! q = Some r -> qr_open r = false ->
  (forall req, cap_allocatable hier ready qs reserved q req = false) /\
  (forall reqs, cap_preemptive eps ready qs q reqs = false) /\
  (forall minres, cap_enqueueable hier ready qs q minres = Reject) /\
  (forall reqs, prop_allocatable qs q reqs = false) /\
  (forall minres, prop_enqueueable qs q minres = Reject).
Proof.
  intros Hq Ho. unfold cap_allocatable, cap_preemptive, cap_enqueueable, prop_allocatable, prop_enqueueable.
  rewrite Hq, Ho. simpl. repeat split; intros.
  - rewrite andb_false_r. reflexivity.
  - destruct ready; [|reflexivity]. destruct (hier && negb (is_leaf r)); reflexivity.
Qed.

(* a queue the plugin holds no record for never gets a positive answer (Go: nil dereference) *)
Theorem no_record_no_vote eps hier ready qs reserved q :
  qs !! q = None ->
  (forall req, cap_allocatable hier ready qs reserved q req = false) /\
  (forall reqs, cap_preemptive eps ready qs q reqs = false) /\
  (forall minres, cap_enqueueable hier ready qs q minres = Reject) /\
  (forall reqs, prop_allocatable qs q reqs = false) /\
  (forall minres, prop_enqueueable qs q minres = Reject).
Proof.
  intros Hq. unfold cap_allocatable, cap_preemptive, cap_enqueueable, prop_allocatable, prop_enqueueable.
  rewrite Hq. repeat split; intros; try reflexivity. destruct ready; reflexivity.
Qed.

(* ---------- proportion ---------- *)

Theorem proportion_preemptive_bound qs q reqs :
  prop_allocatable qs q reqs = true ->
  exists r, qs !! q = Some r /\ qr_open r = true /\
    forall d, requested (total_req reqs) d ->
      amt (qr_alloc r) d + amt (total_req reqs) d <= amt (qr_deserved r) d.
Proof.
  unfold prop_allocatable. destruct (qs !! q) as [r|]; [|discriminate].
  rewrite andb_true_iff. intros [Ho Hle]. exists r. split; [reflexivity|]. split; [exact Ho|].
  intros d Hd. pose proof (le_dim_add_bound _ _ _ Hle d Hd) as B. rewrite amt_clone in B. exact B.
Qed.

(* AllocatableFn = queueAllocatable on the one-element candidate list *)
Theorem proportion_allocatable_bound qs q req :
  prop_allocatable qs q [req] = true ->
  exists r, qs !! q = Some r /\ qr_open r = true /\
    forall d, requested req d -> amt (qr_alloc r) d + amt req d <= amt (qr_deserved r) d.
Proof.
  intros H. destruct (proportion_preemptive_bound _ _ _ H) as (r & Hq & Ho & B).
  exists r. split; [exact Hq|]. split; [exact Ho|]. intros d Hd.
  rewrite <- (total_req_single req d). apply B.
  apply (requested_amt _ _ (total_req_single req)). exact Hd.
Qed.

Theorem prop_enqueue_vote_bound qs q minres :
  prop_enqueueable qs q minres = Permit ->
  exists r, qs !! q = Some r /\ qr_open r = true /\
    forall m c, minres = Some m -> qr_realcap r = Some c ->
      forall d, requested m d ->
        amt m d + amt (qr_alloc r) d + amt (qr_inqueue r) d - amt (qr_elastic r) d <= amt c d.
Proof.
  unfold prop_enqueueable. destruct (qs !! q) as [r|]; [|discriminate].
  destruct (qr_open r) eqn:Ho; simpl; [|discriminate]. intros H. exists r.
  split; [reflexivity|]. split; [exact Ho|]. intros m c -> Hc. rewrite Hc in H.
  destruct (le_dim (enq_total r m) c m) eqn:Hle; [|discriminate]. apply enq_total_bound. exact Hle.
Qed.

(* proportion's OverusedFn: true exactly when deserved <= allocated up to the tolerance in every
   dimension of deserved (missing allocated scalar = 0) *)
Theorem prop_overused_spec eps qs q r :
  0 < eps -> qs !! q = Some r ->
  (prop_overused eps qs q = true <->
   cpu (qr_deserved r) < cpu (qr_alloc r) + eps /\ mem (qr_deserved r) < mem (qr_alloc r) + eps /\
   forall k v, scm (qr_deserved r) !! k = Some v -> v < sget (qr_alloc r) k + eps).
Proof.
  intros He Hq. unfold prop_overused. rewrite Hq. apply less_equal_zero_spec. exact He.
Qed.

(* ---------- the laws say what the theorems say ---------- *)

Lemma requestedb_spec req d : requestedb req d = true <-> requested req d.
Proof.
  destruct d; simpl; rewrite ?bool_decide_eq_true; try reflexivity.
  unfold ignored. rewrite andb_true_iff, negb_true_iff, bool_decide_eq_false, bool_decide_eq_true. reflexivity.
Qed.

Lemma requested_in_dims req d : requested req d -> d ∈ dims_of req.
Proof.
  unfold dims_of. destruct d; simpl; intros H.
  - apply elem_of_list_here.
  - apply elem_of_list_further, elem_of_list_here.
  - do 2 apply elem_of_list_further. destruct H as [_ H].
    destruct (scm req !! k) as [v|] eqn:E; [|rewrite (sget_none _ _ E) in H; lia].
    apply elem_of_list_fmap. exists k. split; [reflexivity|].
    apply elem_of_list_fmap. exists (k, v). split; [reflexivity|]. apply elem_of_map_to_list. exact E.
Qed.

Theorem bound_okb_spec req lhs rhs :
  bound_okb req lhs rhs = true <-> forall d, requested req d -> lhs d <= rhs d.
Proof.
  unfold bound_okb. rewrite forallb_forall. split.
  - intros H d Hd. specialize (H d). rewrite <- elem_of_list_In in H. specialize (H (requested_in_dims _ _ Hd)).
    apply orb_true_iff in H as [H|H].
    + apply negb_true_iff in H. apply requestedb_spec in Hd. congruence.
    + apply bool_decide_eq_true in H. exact H.
  - intros H d _. destruct (requestedb req d) eqn:E; simpl; [|reflexivity].
    apply bool_decide_eq_true. apply H. apply requestedb_spec. exact E.
Qed.

(* law 110 accepts exactly the answers that satisfy the conclusion of capacity_allocatable_bound
   (shown here in the direction used by the check: the model's own answer passes the law) *)
Theorem law_alloc_accepts_model (hier ready : bool) qs reserved q req :
  law_alloc_one (if hier then KHier else KFlat) qs reserved q req
                (cap_allocatable hier ready qs reserved q req) = true.
Proof.
  unfold law_alloc_one. destruct (cap_allocatable hier ready qs reserved q req) eqn:H; [|reflexivity].
  simpl. destruct (capacity_allocatable_bound _ _ _ _ _ _ H) as (r & Hq & Ho & _ & Hl & B).
  rewrite Hq, Ho. simpl.
  assert (leaf_ok (if hier then KHier else KFlat) r = true) as ->.
  { destruct hier; [|reflexivity]. simpl. unfold is_leaf. apply bool_decide_eq_true. auto. }
  simpl. assert (chain_of (if hier then KHier else KFlat) r q = chain r q) as -> by (destruct hier; reflexivity).
  apply forallb_forall. intros a Ha. apply elem_of_list_In in Ha. unfold chain in Ha.
  apply elem_of_app in Ha. destruct (B a) as (ra & c & Hra & Hc & Hb).
  { destruct Ha as [Ha|Ha]; [right; exact Ha|left]. apply elem_of_list_singleton in Ha. exact Ha. }
  rewrite Hra. assert (limit_of (if hier then KHier else KFlat) ra = Some c) as -> by (destruct hier; exact Hc).
  apply bound_okb_spec. exact Hb.
Qed.

(* ---------- what the faithful model refutes ---------- *)

(* PreemptiveFn consults the queue itself only.  Hierarchy root(1) > parent(2) > {A(3), B(4)}:
   the parent's realCapability is cpu 10, A holds 6, B holds 4 (parent: 10); B asks for 2 more with
   deserved 8 and its own realCapability 10: Preemptive says yes, Allocatable (which walks the
   ancestors) says no.  An action that places on Preemptive alone (reclaim before the fix
   bd1440f) lifts the parent above its capability. *)
Definition cpu_res (c : Z) : res := mkRes c 0 None.
Definition wit_qs : qmap :=
  list_to_map
    [(1%positive, mkQrec true (cpu_res 10) empty_res empty_res (cpu_res 0) (Some (cpu_res 1000)) [] 1);
     (2%positive, mkQrec true (cpu_res 10) empty_res empty_res (cpu_res 10) (Some (cpu_res 10)) [1%positive] 2);
     (3%positive, mkQrec true (cpu_res 6) empty_res empty_res (cpu_res 6) (Some (cpu_res 10)) [1%positive; 2%positive] 0);
     (4%positive, mkQrec true (cpu_res 4) empty_res empty_res (cpu_res 8) (Some (cpu_res 10)) [1%positive; 2%positive] 0)].

Theorem cap_preemptive_leaf_only_refuted :
  exists eps qs q req,
    cap_preemptive eps true qs q [req] = true /\
    cap_allocatable true true qs (fun _ => empty_res) q req = false.
Proof. exists 2, wit_qs, 4%positive, (cpu_res 2). split; vm_compute; reflexivity. Qed.

(* proportion compares with deserved, not with realCapability: nothing in the vote itself keeps
   allocated + request under realCapability when the record has deserved > realCapability (the
   fair-share loop gives deserved >= guarantee, so guarantee > capability is enough; the queue
   admission webhook rejects such a queue). *)
Theorem proportion_realcap_bound_refuted :
  exists qs q req r c,
    prop_allocatable qs q [req] = true /\ qs !! q = Some r /\ qr_realcap r = Some c /\
    requested req DCpu /\ amt c DCpu < amt (qr_alloc r) DCpu + amt req DCpu.
Proof.
  exists (list_to_map [(1%positive, mkQrec true (cpu_res 0) empty_res empty_res (cpu_res 64) (Some (cpu_res 32)) [] 0)]),
         1%positive, (cpu_res 48), (mkQrec true (cpu_res 0) empty_res empty_res (cpu_res 64) (Some (cpu_res 32)) [] 0), (cpu_res 32).
  vm_compute. repeat split; try reflexivity; discriminate.
Qed.

(* ---------- non-vacuity ---------- *)

(* three levels below the root; the grandparent's realCapability is the binding one:
   root(1) > gp(2, realCapability cpu 4, holds 3) > p(3, holds 1) > leaf(4, holds 1) *)
Definition ex_qs : qmap :=
  list_to_map
    [(1%positive, mkQrec true (cpu_res 3) empty_res empty_res empty_res (Some (cpu_res 1000)) [] 1);
     (2%positive, mkQrec true (cpu_res 3) empty_res empty_res empty_res (Some (cpu_res 4)) [1%positive] 2);
     (3%positive, mkQrec true (cpu_res 1) empty_res empty_res empty_res (Some (cpu_res 4)) [1%positive; 2%positive] 1);
     (4%positive, mkQrec true (cpu_res 1) empty_res empty_res empty_res (Some (cpu_res 4)) [1%positive; 2%positive; 3%positive] 0)].

Example ex_grandparent_binds :
  queue_fits ex_qs (fun _ => empty_res) (cpu_res 2) 4%positive = true /\
  queue_fits ex_qs (fun _ => empty_res) (cpu_res 2) 3%positive = true /\
  queue_fits ex_qs (fun _ => empty_res) (cpu_res 2) 2%positive = false /\
  cap_allocatable true true ex_qs (fun _ => empty_res) 4%positive (cpu_res 2) = false.
Proof. vm_compute. repeat split; reflexivity. Qed.

Example ex_accepted :
  cap_allocatable true true ex_qs (fun _ => empty_res) 4%positive (cpu_res 1) = true /\
  cap_enqueueable true true ex_qs 4%positive (Some (cpu_res 1)) = Permit /\
  cap_enqueueable true true ex_qs 4%positive (Some (cpu_res 2)) = Reject /\
  cap_allocatable true true ex_qs (fun _ => empty_res) 3%positive (cpu_res 1) = false.
Proof. vm_compute. repeat split; reflexivity. Qed.

Print Assumptions capacity_allocatable_bound.
Print Assumptions cap_preemptive_bound.
Print Assumptions enqueue_vote_bound.
Print Assumptions only_leaf_receives.
Print Assumptions closed_queue_receives_nothing.
Print Assumptions no_record_no_vote.
Print Assumptions proportion_allocatable_bound.
Print Assumptions proportion_preemptive_bound.
Print Assumptions prop_enqueue_vote_bound.
Print Assumptions prop_overused_spec.
Print Assumptions bound_okb_spec.
Print Assumptions law_alloc_accepts_model.
Print Assumptions cap_preemptive_leaf_only_refuted.
Print Assumptions proportion_realcap_bound_refuted.
Print Assumptions ex_grandparent_binds.
Print Assumptions ex_accepted.

(* ---------- audit W8 / W12: the literal enqueue clause is false; what law 110 means ---------- *)

(* the property text says "minResources fit under the capability together with what the queue has
   already allocated or admitted"; the plugins subtract the ELASTIC part of the allocation (what
   jobs hold beyond their own minResources; everything, for a job without minResources).  A queue
   of realCapability 4 whose 4 cpus are held by a job without minResources admits a PodGroup with
   minResources 4: reproduced on the real capacity and proportion plugins (docs/notes/C03.md). *)
Definition elastic_qs : qmap :=
  list_to_map [(1%positive, mkQrec true (cpu_res 4) empty_res (cpu_res 4) (cpu_res 4) (Some (cpu_res 4)) [] 0)].

Theorem enqueue_literal_refuted :
  exists qs q m r c,
    prop_enqueueable qs q (Some m) = Permit /\ cap_enqueueable false true qs q (Some m) = Permit /\
    qs !! q = Some r /\ qr_realcap r = Some c /\
    amt c DCpu < amt m DCpu + amt (qr_alloc r) DCpu + amt (qr_inqueue r) DCpu.
Proof.
  exists elastic_qs, 1%positive, (cpu_res 4),
         (mkQrec true (cpu_res 4) empty_res (cpu_res 4) (cpu_res 4) (Some (cpu_res 4)) [] 0), (cpu_res 4).
  vm_compute. repeat split; try reflexivity.
Qed.

(* law 110, as a Prop: a positive observed answer passes the law only if the queue is Open, a leaf
   where hierarchy applies, and the bound holds for every queue of the chain against the limit the
   plugin uses (realCapability; deserved for proportion) *)
Theorem law_alloc_one_sound k qs reserved q req :
  law_alloc_one k qs reserved q req true = true ->
  exists r, qs !! q = Some r /\ qr_open r = true /\ leaf_ok k r = true /\
    forall a, a ∈ chain_of k r q ->
      exists ra c, qs !! a = Some ra /\ limit_of k ra = Some c /\
        forall d, requested req d -> amt (qr_alloc ra) d + amt (reserved a) d + amt req d <= amt c d.
Proof.
  unfold law_alloc_one. cbn [negb orb]. destruct (qs !! q) as [r|]; [|discriminate].
  rewrite !andb_true_iff, forallb_forall. intros [[Ho Hl] Hall].
  exists r. split; [reflexivity|]. split; [exact Ho|]. split; [exact Hl|]. intros a Ha. apply elem_of_list_In in Ha.
  specialize (Hall a Ha). destruct (qs !! a) as [ra|]; [|discriminate].
  destruct (limit_of k ra) as [c|] eqn:El; [|discriminate].
  exists ra, c. split; [reflexivity|]. split; [exact El|]. intros d Hd.
  exact (proj1 (bound_okb_spec _ _ _) Hall d Hd).
Qed.
Print Assumptions enqueue_literal_refuted.
Print Assumptions law_alloc_one_sound.
