(* C03: executable laws of two further streams on the REAL actions.

   Law 119 (harness/cmd/c03/enqueue_stream.go): the JobEnqueueable vote and the enqueue action, judged
   against amounts RECOMPUTED here from the PodGroup objects and the pods -- not from the plugin's
   own allocated / inqueue / elastic records (a plugin that forgets to reserve for an admitted
   PodGroup whose pods do not exist yet agrees with itself).  Per job and dimension d
   (cpu, memory, gpu), what a job counts for in its queue is

       counted_j d = a + inq - elastic      a       = requests of its pods in an allocated status
                                            inq     = max (max (min_j d - a, 0) - gated_j d, 0) when minResources lists d and the
                                                      PodGroup is Inqueue (or Running with >= minMember pods allocated)
                                            elastic = max (a - min_j d, 0)   (min_j d = 0 when not listed / no minResources)

   i.e. exactly minResources for an admitted PodGroup, whether or not its pods exist.
     vote part:   JobEnqueueable = true for a Pending PodGroup with minResources M  =>  queue Open, leaf
                  (hierarchy), and for the queue and every ancestor a whose spec.capability limits d,
                  for every d with M d > 0:   M d + Σ_{j in the subtree of a} counted_j d <= capability_a d
     action part: a PodGroup with minResources that the real enqueue action moved Pending -> Inqueue
                  => queue Open, leaf, and the same sums over the FINAL phases are within capability.

   Law 118 (preempt_stream.go): after the real preempt action, if the preemptor was pipelined its
   queue is Open and every queue of the chain holds (recomputed from pod specs) at most its capability. *)
From Coq Require Import ZArith List Bool Lia.
Import ListNotations.
Open Scope Z_scope.

Record equeue := mkEQ { eq_id : Z; eq_parent : Z; eq_open : bool; eq_cap : list (option Z) }.
Record ejob := mkEJ {
  ej_queue : Z; ej_before : Z; ej_after : Z;          (* phases: 1 Pending 2 Inqueue 3 Running *)
  ej_min : option (list (option Z));                  (* minResources: per dimension, None = not listed *)
  ej_member : Z; ej_anum : Z; ej_alloc : list Z;      (* minMember, #pods allocated, their requests *)
  ej_vote : Z;                                        (* JobEnqueueable: 0 false, 1 true, 2 not asked *)
  ej_gated : list Z;                                  (* requests of the job's scheduling-gated pods *)
  ej_avote : Z;                                       (* Allocatable(queue, a pending pod): 0 / 1 / 2 *)
  ej_cand : list Z }.                                 (* the request of that pending pod *)

Definition dims : list nat := [0%nat; 1%nat; 2%nat].

Definition min_at (j : ejob) (d : nat) : option Z :=
  match ej_min j with Some l => nth d l None | None => None end.

Definition counted (phase : Z) (j : ejob) (d : nat) : Z :=
  let a := nth d (ej_alloc j) 0 in
  let m0 := match min_at j d with Some v => v | None => 0 end in
  let reserves := (phase =? 2) || ((phase =? 3) && (ej_member j <=? ej_anum j)) in
  (* what an admitted PodGroup RESERVES is reduced by the requests of its scheduling-gated pods
     (JobInfo.DeductSchGatedResources, in OnSessionOpen and in JobEnqueuedFn); the VOTE for a
     PodGroup is on its full minResources *)
  let g := nth d (ej_gated j) 0 in
  let inq := match min_at j d with Some v => if reserves then Z.max (Z.max (v - a) 0 - g) 0 else 0 | None => 0 end in
  a + inq - Z.max (a - m0) 0.

Definition find_queue (qs : list equeue) (id : Z) : option equeue :=
  find (fun q => eq_id q =? id) qs.

(* q :: ancestors of q (parent 0 = none), bounded by the number of queues *)
Fixpoint chain_of (fuel : nat) (qs : list equeue) (id : Z) : list Z :=
  match fuel with
  | O => []
  | S f => match find_queue qs id with
           | Some q => id :: (if eq_parent q =? 0 then [] else chain_of f qs (eq_parent q))
           | None => []
           end
  end.

Definition chain (hier : bool) (qs : list equeue) (id : Z) : list Z :=
  if hier then chain_of (S (length qs)) qs id else [id].

Definition in_subtree (hier : bool) (qs : list equeue) (a q : Z) : bool :=
  existsb (fun x => x =? a) (chain hier qs q).

Definition subtree_sum (hier : bool) (qs : list equeue) (js : list ejob) (phase_of : ejob -> Z) (a : Z) (d : nat) : Z :=
  fold_left (fun acc j => if in_subtree hier qs a (ej_queue j) then acc + counted (phase_of j) j d else acc) js 0.

Definition is_leaf (qs : list equeue) (id : Z) : bool := negb (existsb (fun q => eq_parent q =? id) qs).

(* for every queue a of the chain and every dimension d that M asks for and a's capability limits *)
Definition within (hier : bool) (qs : list equeue) (q : Z) (j : ejob) (lhs : Z -> nat -> Z) : bool :=
  forallb (fun a =>
    match find_queue qs a with
    | None => false
    | Some qa =>
      forallb (fun d =>
        match min_at j d, nth d (eq_cap qa) None with
        | Some m, Some c => negb (0 <? m) || (lhs a d <=? c)
        | _, _ => true
        end) dims
    end) (chain hier qs q).

Definition open_leaf (hier : bool) (qs : list equeue) (q : Z) : bool :=
  match find_queue qs q with
  | Some x => eq_open x && (negb hier || is_leaf qs q)
  | None => false
  end.

(* the allocation bound for a positive placement vote: along the chain, in every dimension the
   candidate pod requests and the capability limits, candidate + requests of the pods of the
   subtree that are in an allocated status <= capability (also when the candidate sits in the
   capacity plugin's gate-reserved cache, feature gate SchedulingGatesQueueAdmission) *)
Definition alloc_sum (hier : bool) (qs : list equeue) (js : list ejob) (a : Z) (d : nat) : Z :=
  fold_left (fun acc j => if in_subtree hier qs a (ej_queue j) then acc + nth d (ej_alloc j) 0 else acc) js 0.

Definition place_within (hier : bool) (qs : list equeue) (js : list ejob) (j : ejob) : bool :=
  forallb (fun a =>
    match find_queue qs a with
    | None => false
    | Some qa =>
      forallb (fun d =>
        match nth d (eq_cap qa) None with
        | Some c => negb (0 <? nth d (ej_cand j) 0) || (nth d (ej_cand j) 0 + alloc_sum hier qs js a d <=? c)
        | None => true
        end) dims
    end) (chain hier qs (ej_queue j)).

(* kind: 1 capacity flat, 2 capacity hierarchical, 3 proportion; + 10 = the gate-reserved family *)
Definition law_enqueue (kind : Z) (qs : list equeue) (js : list ejob) : bool :=
  let hier := (kind mod 10) =? 2 in
  forallb (fun j => negb (ej_avote j =? 1) || place_within hier qs js j) js &&
  (* placement vote: Allocatable = true only for an Open queue that has no child queue at all
     (leafness computed from the Queue objects' parents, whatever the children's state) *)
  forallb (fun j => negb (ej_avote j =? 1) || open_leaf hier qs (ej_queue j)) js &&
  forallb (fun j =>
    match ej_min j with
    | None => true
    | Some _ =>
      (* the vote *)
      (negb ((ej_vote j =? 1) && (ej_before j =? 1)) ||
       (open_leaf hier qs (ej_queue j) &&
        within hier qs (ej_queue j) j
          (fun a d => match min_at j d with Some m => m | None => 0 end + subtree_sum hier qs js ej_before a d))) &&
      (* the action *)
      (negb ((ej_before j =? 1) && (ej_after j =? 2)) ||
       (open_leaf hier qs (ej_queue j) &&
        within hier qs (ej_queue j) j (fun a d => subtree_sum hier qs js ej_after a d)))
    end) js.

(* ---- decoding (plain token lists; mask bit i = dimension i listed) ---- *)
Definition masked (mask : Z) (vals : list Z) : list (option Z) :=
  map (fun iv => if Z.testbit mask (Z.of_nat (fst iv)) then Some (snd iv) else None)
      (combine [0%nat; 1%nat; 2%nat] vals).

Fixpoint dec_queues (n : nat) (l : list Z) : option (list equeue * list Z) :=
  match n with
  | O => Some ([], l)
  | S k => match l with
           | id :: par :: op :: mask :: c0 :: c1 :: c2 :: r =>
             match dec_queues k r with
             | Some (qs, r') => Some (mkEQ id par (negb (op =? 0)) (masked mask [c0; c1; c2]) :: qs, r')
             | None => None end
           | _ => None end
  end.

Fixpoint dec_jobs (n : nat) (l : list Z) : option (list ejob * list Z) :=
  match n with
  | O => Some ([], l)
  | S k => match l with
           | _id :: q :: pb :: pa :: hasmin :: mask :: m0 :: m1 :: m2 :: mem :: an :: a0 :: a1 :: a2 :: vote ::
             g0 :: g1 :: g2 :: avote :: c0 :: c1 :: c2 :: r =>
             match dec_jobs k r with
             | Some (js, r') =>
               Some (mkEJ q pb pa (if hasmin =? 0 then None else Some (masked mask [m0; m1; m2])) mem an [a0; a1; a2] vote
                          [g0; g1; g2] avote [c0; c1; c2] :: js, r')
             | None => None end
           | _ => None end
  end.

Definition law_enqueue_toks (toks : list Z) : option bool :=
  match toks with
  | kind :: nq :: r =>
    if (nq <? 0) || (1000 <? nq) then None else
    match dec_queues (Z.to_nat nq) r with
    | Some (qs, nj :: r') =>
      if (nj <? 0) || (1000 <? nj) then None else
      match dec_jobs (Z.to_nat nj) r' with
      | Some (js, []) => Some (law_enqueue kind qs js)
      | _ => None end
    | _ => None end
  | _ => None
  end.

(* an admitted PodGroup counts for exactly its minResources, whether or not its pods exist *)
(* without scheduling-gated pods an admitted PodGroup counts for exactly its minResources *)
Lemma counted_inqueue_is_min (j : ejob) (d : nat) (m : Z) :
  min_at j d = Some m -> 0 <= nth d (ej_alloc j) 0 -> nth d (ej_gated j) 0 = 0 -> counted 2 j d = m.
Proof. intros Hm Ha Hg. unfold counted. rewrite Hm, Hg. simpl. lia. Qed.

(* a job without minResources (or a dimension its minResources do not list) counts for nothing:
   all of its allocation is "elastic" for the enqueue vote *)
Lemma counted_unlisted (phase : Z) (j : ejob) (d : nat) :
  min_at j d = None -> 0 <= nth d (ej_alloc j) 0 -> counted phase j d = 0.
Proof. intros Hm Ha. unfold counted. rewrite Hm. lia. Qed.

(* ---- law 118 ---- *)
Fixpoint pairs_under (l : list Z) : bool :=
  match l with
  | [] => true
  | h :: c :: r => ((c =? 0) || (h <=? c)) && pairs_under r
  | _ => false
  end.

Definition law_preempt (toks : list Z) : option bool :=
  match toks with
  | pipelined :: _ :: leaf_open :: n :: rest =>
    if Z.of_nat (length rest) =? 2 * n then
      Some ((pipelined <=? 0) || ((leaf_open =? 1) && pairs_under rest))
    else None
  | _ => None
  end.

(* ---------- what law 119 says, as Props (third audit E9) ---------- *)

Lemma counted_inqueue_gated (j : ejob) (d : nat) (m : Z) :
  min_at j d = Some m -> 0 <= nth d (ej_alloc j) 0 ->
  counted 2 j d = Z.min (nth d (ej_alloc j) 0) m + Z.max (Z.max (m - nth d (ej_alloc j) 0) 0 - nth d (ej_gated j) 0) 0.
Proof. intros Hm Ha. unfold counted. rewrite Hm. simpl. lia. Qed.

(* an admitted PodGroup none of whose pods is allocated reserves its minResources minus what its
   scheduling-gated pods request *)
Lemma counted_inqueue_gated_unplaced (j : ejob) (d : nat) (m : Z) :
  min_at j d = Some m -> nth d (ej_alloc j) 0 = 0 -> 0 <= m ->
  counted 2 j d = Z.max (m - nth d (ej_gated j) 0) 0.
Proof. intros Hm Ha Hm0. rewrite (counted_inqueue_gated j d m Hm) by lia. rewrite Ha. lia. Qed.

Lemma place_within_spec hier qs js j :
  place_within hier qs js j = true ->
  forall a, In a (chain hier qs (ej_queue j)) ->
    exists qa, find_queue qs a = Some qa /\
      forall d c, In d dims -> nth d (eq_cap qa) None = Some c -> 0 < nth d (ej_cand j) 0 ->
        nth d (ej_cand j) 0 + alloc_sum hier qs js a d <= c.
Proof.
  unfold place_within. rewrite forallb_forall. intros H a Ha. specialize (H a Ha).
  destruct (find_queue qs a) as [qa|]; [|discriminate]. exists qa. split; [reflexivity|].
  rewrite forallb_forall in H. intros d c Hd Hc Hpos. specialize (H d Hd). rewrite Hc in H.
  apply orb_prop in H as [H|H]; [apply negb_true_iff, Z.ltb_ge in H; lia|apply Z.leb_le, H].
Qed.

(* a positive placement vote that passes law 119: the queue is Open and has no child queue, and
   along the chain the candidate pod plus the allocated pods of the subtree fit the capability *)
Theorem law_enqueue_alloc_sound kind qs js j :
  law_enqueue kind qs js = true -> In j js -> ej_avote j = 1 ->
  let hier := (kind mod 10) =? 2 in
  open_leaf hier qs (ej_queue j) = true /\
  forall a, In a (chain hier qs (ej_queue j)) ->
    exists qa, find_queue qs a = Some qa /\
      forall d c, In d dims -> nth d (eq_cap qa) None = Some c -> 0 < nth d (ej_cand j) 0 ->
        nth d (ej_cand j) 0 + alloc_sum hier qs js a d <= c.
Proof.
  unfold law_enqueue. cbv zeta. rewrite !andb_true_iff, !forallb_forall. intros [[H1 H2] _] Hin Hv.
  specialize (H1 j Hin). specialize (H2 j Hin). rewrite Hv in H1, H2. simpl in H1, H2.
  split; [exact H2|]. apply place_within_spec, H1.
Qed.

(* a positive enqueue vote for a Pending PodGroup with minResources that passes law 119: Open, leaf *)
Theorem law_enqueue_leaf_sound kind qs js j l :
  law_enqueue kind qs js = true -> In j js -> ej_min j = Some l -> ej_vote j = 1 -> ej_before j = 1 ->
  open_leaf ((kind mod 10) =? 2) qs (ej_queue j) = true.
Proof.
  unfold law_enqueue. cbv zeta. rewrite !andb_true_iff, !forallb_forall. intros [_ H3] Hin Hm Hv Hb.
  specialize (H3 j Hin). rewrite Hm, Hv, Hb in H3. simpl in H3.
  apply andb_prop in H3 as [H3 _]. apply andb_prop in H3 as [H3 _]. exact H3.
Qed.

(* ---------- third audit E10: the gated deduction is the code's reading, not the property's ----------
   capability 4 cpu; an admitted PodGroup (minResources 3 cpu) whose three 1-cpu pods are all
   scheduling-gated reserves nothing; the real capacity and proportion plugins admit a Pending
   PodGroup with minResources 2 cpu (observed: vote 1, Pending -> Inqueue); law 119, which follows
   DeductSchGatedResources, accepts the observation although 2 + 3 > 4 *)
Definition gated_strict_qs : list equeue := [mkEQ 1 0 true [Some 4000; None; None]].
Definition gated_strict_js : list ejob :=
  [mkEJ 1 2 2 (Some [Some 3000; None; None]) 1 0 [0; 0; 0] 2 [3000; 3; 0] 2 [0; 0; 0];
   mkEJ 1 1 2 (Some [Some 2000; None; None]) 1 0 [0; 0; 0] 1 [0; 0; 0] 2 [0; 0; 0]].

Theorem enqueue_gated_strict_reading_refuted :
  law_enqueue 1 gated_strict_qs gated_strict_js = true /\
  (* the admitted minResources, counted in full, do not fit *)
  4000 < 2000 + 3000.
Proof. split; [vm_compute; reflexivity|lia]. Qed.
