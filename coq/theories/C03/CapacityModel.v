(* C03, part B: executable model of the queue votes of the capacity plugin (flat and
   hierarchical) and of the proportion plugin.

     pkg/scheduler/plugins/capacity/capacity.go
       648-715  PreemptiveFn (ancestorReclaimLevel = 0)          cap_preemptive
       717-740  AllocatableFn                                     cap_allocatable
       742-779  JobEnqueueableFn                                  cap_enqueueable
       1585     isLeafQueue                                       is_leaf
       1646-1677 queueAllocatableWithReserved                     queue_fits
       1679-1695 checkQueueAllocatableHierarchically              (forallb over ancestors ++ [q])
       1697-1723 jobEnqueueable                                   enq_fits
       1725-1744 checkJobEnqueueableHierarchically                (forallb over ancestors ++ [q])
     pkg/scheduler/plugins/proportion/proportion.go
       321-333  OverusedFn                                        prop_overused
       335-361  queueAllocatable / AllocatableFn                  prop_allocatable
       385-388  PreemptiveFn                                      prop_preemptive
       404-439  JobEnqueueableFn                                  prop_enqueueable

   What is NOT computed here: the per-queue records themselves (allocated, inqueue, elastic,
   deserved, realCapability, ancestors, children).  They are inputs: the harness reads them from
   the real plugin after OnSessionOpen.  DRA branches are out of scope (no DRA quota configured).
   [reserved] (feature gate SchedulingGatesQueueAdmission, default off) is an explicit input; the
   Go code looks the reservation up under the id of the queue being checked (capacity.go:1658), so
   an ancestor only counts reservations filed under its own id (none: they are filed per job queue).

   Totalisation: where the Go code would dereference a nil record (a queue the plugin holds no
   record for: capacity.go:1590, 1586, 754) the model answers false / Reject; the theorems show that
   a positive answer implies that every record consulted exists.  A nil realCapability in a
   comparison is Go's [rr == nil] branch of LessEqualWithDimensionAndResourcesName: false. *)
From stdpp Require Import gmap.
From Coq Require Import ZArith.
From V Require Import Base.Res Sched.LedgerInvP.
Open Scope Z_scope.

Inductive vote := Permit | Reject.

Global Instance vote_eq_dec : EqDecision vote.
Proof. solve_decision. Defined.

Record qrec := mkQrec {
  qr_open : bool;               (* queue.Queue.Status.State == Open *)
  qr_alloc : res;               (* attr.allocated *)
  qr_inqueue : res;             (* attr.inqueue *)
  qr_elastic : res;             (* attr.elastic *)
  qr_deserved : res;            (* attr.deserved *)
  qr_realcap : option res;      (* attr.realCapability (nil = None) *)
  qr_ancestors : list positive; (* attr.ancestors: root first, parent last; nil in flat mode *)
  qr_children : nat             (* len(attr.children) *)
}.

Notation qmap := (gmap positive qrec).

Definition is_leaf (r : qrec) : bool := bool_decide (qr_children r = 0%nat).

(* total request of a candidate list: EmptyResource() then Add of each *)
Definition total_req (reqs : list res) : res := fold_left add reqs empty_res.

(* r.LessEqualWithDimensionAndResourcesName(rr, req) with rr possibly nil *)
Definition le_dim_opt (r : res) (rr : option res) (req : res) : bool :=
  match rr with None => false | Some c => le_dim r c req end.

(* ---------------- capacity ---------------- *)

(* queueAllocatableWithReserved for queue [a] (1668-1669) *)
Definition future_used (ra : qrec) (reserved req : res) : res :=
  add (add (clone (qr_alloc ra)) reserved) req.

Definition queue_fits (qs : qmap) (reserved : positive -> res) (req : res) (a : positive) : bool :=
  match qs !! a with
  | None => false
  | Some ra => le_dim_opt (future_used ra (reserved a) req) (qr_realcap ra) req
  end.

(* the list walked by checkQueueAllocatableHierarchically / checkJobEnqueueableHierarchically *)
Definition chain (r : qrec) (q : positive) : list positive := qr_ancestors r ++ [q].

Definition cap_allocatable (hier ready : bool) (qs : qmap) (reserved : positive -> res)
    (q : positive) (req : res) : bool :=
  match qs !! q with
  | None => false
  | Some r =>
    qr_open r && ready && (negb hier || is_leaf r) &&
    forallb (queue_fits qs reserved req) (chain r q)
  end.

Section WithEps.
Variable eps : Z.

(* PreemptiveFn, ancestorReclaimLevel = 0 *)
Definition cap_preemptive (ready : bool) (qs : qmap) (q : positive) (reqs : list res) : bool :=
  match qs !! q with
  | None => false
  | Some r =>
    ready && qr_open r &&
    let tot := total_req reqs in
    let fu := add (clone (qr_alloc r)) tot in
    le_dim_opt fu (qr_realcap r) tot && lep_zf eps fu (qr_deserved r) tot
  end.

(* proportion OverusedFn: deserved.LessEqual(allocated, Zero) *)
Definition prop_overused (qs : qmap) (q : positive) : bool :=
  match qs !! q with
  | None => false
  | Some r => less_equal eps (qr_deserved r) (qr_alloc r) DZero
  end.

End WithEps.

(* jobEnqueueable for queue [a] (1704-1706) *)
Definition enq_total (ra : qrec) (m : res) : res :=
  sub (add (add (clone m) (qr_alloc ra)) (qr_inqueue ra)) (qr_elastic ra).

Definition enq_fits (qs : qmap) (m : res) (a : positive) : bool :=
  match qs !! a with
  | None => false
  | Some ra => le_dim_opt (enq_total ra m) (qr_realcap ra) m
  end.

Definition cap_enqueueable (hier ready : bool) (qs : qmap) (q : positive) (minres : option res) : vote :=
  if negb ready then Reject else
  match qs !! q with
  | None => Reject
  | Some r =>
    if hier && negb (is_leaf r) then Reject else
    if negb (qr_open r) then Reject else
    match qr_realcap r with
    | None => Permit
    | Some _ =>
      match minres with
      | None => Permit
      | Some m => if forallb (enq_fits qs m) (chain r q) then Permit else Reject
      end
    end
  end.

(* ---------------- proportion ---------------- *)

Definition prop_allocatable (qs : qmap) (q : positive) (reqs : list res) : bool :=
  match qs !! q with
  | None => false
  | Some r =>
    qr_open r &&
    let tot := total_req reqs in
    le_dim (add (clone (qr_alloc r)) tot) (qr_deserved r) tot
  end.

Definition prop_preemptive := prop_allocatable.

Definition prop_enqueueable (qs : qmap) (q : positive) (minres : option res) : vote :=
  match qs !! q with
  | None => Reject
  | Some r =>
    if negb (qr_open r) then Reject else
    match qr_realcap r with
    | None => Permit
    | Some c =>
      match minres with
      | None => Permit
      | Some m => if le_dim (enq_total r m) c m then Permit else Reject
      end
    end
  end.

(* ---------------- what the session answers with one queue plugin ----------------
   session_plugins.go 374-431, 591-619: Overused = some plugin says true (capacity registers no
   OverusedFn: false); Preemptive / Allocatable = every plugin says true; JobEnqueueable: a vote
   < 0 is false, everything else true. *)
Definition vote_to_bool (v : vote) : bool := match v with Permit => true | Reject => false end.
Definition cap_overused : bool := false.

(* ================= executable laws =================
   Evaluated on the IMPLEMENTATION's answers (never on the votes modelled above): they restate
   the bounds of CapacityLemmas.v dimension by dimension, from the per-queue records. *)

Inductive pkind := KFlat | KHier | KProp.

Definition dims_of (req : res) : list dim :=
  DCpu :: DMem :: map DSc (map fst (map_to_list (scm req))).

Definition requestedb (req : res) (d : dim) : bool :=
  match d with
  | DCpu => bool_decide (0 < cpu req)
  | DMem => bool_decide (0 < mem req)
  | DSc k => negb (ignored k) && bool_decide (0 < sget req k)
  end.

(* for every dimension requested by req: lhs d <= rhs d *)
Definition bound_okb (req : res) (lhs rhs : dim -> Z) : bool :=
  forallb (fun d => negb (requestedb req d) || bool_decide (lhs d <= rhs d)) (dims_of req).

(* the limit the plugin compares with, and the queues it walks *)
Definition limit_of (k : pkind) (ra : qrec) : option res :=
  match k with KProp => Some (qr_deserved ra) | _ => qr_realcap ra end.
Definition chain_of (k : pkind) (r : qrec) (q : positive) : list positive :=
  match k with KProp => [q] | _ => chain r q end.
Definition leaf_ok (k : pkind) (r : qrec) : bool :=
  match k with KHier => is_leaf r | _ => true end.

(* a dimension of the Queue's spec.capability that is a limit: cpu / memory positive, scalar listed *)
Definition cap_limited (c : res) (d : dim) : bool :=
  match d with
  | DCpu => bool_decide (0 < cpu c)
  | DMem => bool_decide (0 < mem c)
  | DSc k => bool_decide (is_Some (scm c !! k))
  end.
Definition cap_okb (req : res) (c : res) (lhs : dim -> Z) : bool :=
  forallb (fun d => negb (requestedb req d) || negb (cap_limited c d) || bool_decide (lhs d <= amt c d)) (dims_of req).

Definition alloc_lhs (ra : qrec) (rsv req : res) (d : dim) : Z := amt (qr_alloc ra) d + amt rsv d + amt req d.
Definition enq_lhs (ra : qrec) (m : res) (d : dim) : Z :=
  amt m d + amt (qr_alloc ra) d + amt (qr_inqueue ra) d - amt (qr_elastic ra) d.

(* law 110: Allocatable = true  =>  Open, leaf (hierarchy), bound along the chain *)
Definition law_alloc_one (k : pkind) (qs : qmap) (reserved : positive -> res)
    (q : positive) (req : res) (ans : bool) : bool :=
  negb ans ||
  match qs !! q with
  | None => false
  | Some r =>
    qr_open r && leaf_ok k r &&
    forallb (fun a => match qs !! a with
                      | None => false
                      | Some ra => match limit_of k ra with
                                   | None => false
                                   | Some c => bound_okb req (alloc_lhs ra (reserved a) req) (amt c)
                                   end
                      end) (chain_of k r q)
  end.

(* law 113: Allocatable = true  =>  allocated + request stays under spec.capability of the queue
   and of every ancestor, in every requested dimension the capability limits *)
Definition law_alloc_cap_one (k : pkind) (qs : qmap) (caps : gmap positive res)
    (q : positive) (req : res) (ans : bool) : bool :=
  negb ans ||
  match qs !! q with
  | None => false
  | Some r =>
    forallb (fun a => match qs !! a with
                      | None => false
                      | Some ra => match caps !! a with
                                   | None => true
                                   | Some c => cap_okb req c (alloc_lhs ra empty_res req)
                                   end
                      end) (chain_of k r q)
  end.

(* law 111: JobEnqueueable = true  =>  Open, leaf (hierarchy); with minResources and a
   realCapability: the bound along the chain *)
Definition law_enq_one (k : pkind) (qs : qmap) (q : positive) (minres : option res) (ans : bool) : bool :=
  negb ans ||
  match qs !! q with
  | None => false
  | Some r =>
    qr_open r && leaf_ok k r &&
    match minres, qr_realcap r with
    | Some m, Some _ =>
      forallb (fun a => match qs !! a with
                        | None => false
                        | Some ra => match qr_realcap ra with
                                     | None => false
                                     | Some c => bound_okb m (enq_lhs ra m) (amt c)
                                     end
                        end) (chain_of k r q)
    | _, _ => true
    end
  end.

(* law 114: the same against spec.capability *)
Definition law_enq_cap_one (k : pkind) (qs : qmap) (caps : gmap positive res)
    (q : positive) (minres : option res) (ans : bool) : bool :=
  negb ans ||
  match qs !! q, minres with
  | None, _ => false
  | Some r, None => true
  | Some r, Some m =>
    forallb (fun a => match qs !! a with
                      | None => false
                      | Some ra => match caps !! a with
                                   | None => true
                                   | Some c => cap_okb m c (enq_lhs ra m)
                                   end
                      end) (chain_of k r q)
  end.

(* law 112: Preemptive = true => Open and allocated + total request under the limit of the queue
   itself; Overused (proportion) = true => deserved <= allocated up to the tolerance in every
   dimension of deserved; capacity registers no OverusedFn: the answer must be false *)
Definition law_preemptive_one (k : pkind) (qs : qmap) (q : positive) (reqs : list res) (ans : bool) : bool :=
  negb ans ||
  match qs !! q with
  | None => false
  | Some r =>
    qr_open r &&
    match limit_of k r with
    | None => false
    | Some c => let tot := total_req reqs in bound_okb tot (alloc_lhs r empty_res tot) (amt c)
    end
  end.

Definition law_overused_one (eps : Z) (k : pkind) (qs : qmap) (q : positive) (ans : bool) : bool :=
  negb ans ||
  match k with
  | KProp =>
    match qs !! q with
    | None => false
    | Some r => forallb (fun d => bool_decide (amt (qr_deserved r) d < amt (qr_alloc r) d + eps))
                        (dims_of (qr_deserved r))
    end
  | _ => false
  end.
