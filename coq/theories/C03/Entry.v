(* C03 entry: selector 1 / 101-103 are the shared cycle entry (action skeleton); the selectors
   below are the queue votes of the capacity / proportion plugins (CapacityModel.v).

   correspondence
     2   capacity plugin (flat or hierarchical: flag in the input)
     3   proportion plugin
   laws (input carries the implementation's answers)
     110 Allocatable = true  => Open, leaf, allocated (+reserved) + request <= limit along the chain
     111 JobEnqueueable = true => Open, leaf, minResources + allocated + inqueue - elastic <= realCapability
     112 Preemptive / Overused consistency
     113 Allocatable = true  => allocated + request <= spec.capability (queue and ancestors)
     114 JobEnqueueable = true => minResources + allocated + inqueue - elastic <= spec.capability

   regression streams (the real reclaim action / vote isolation; the correspondence part only
   validates the shape of the input, the substance is the law on the observed results)
     4 / 116   reclaim on hierarchical queues: a placement leaves the leaf and every ancestor within
               its realCapability; the plugin's ledger equals the recomputed sum (ReclaimLaw.v)
     5 / 117   a vote changes neither the stored ancestors nor a later vote (AliasModel.v)
     6 / 118   the real preempt action with topology-aware preemption on hierarchical capacity:
               a pipelined preemptor's queue is Open and the chain is within capability (EnqueueLaw.v)
     121       every cycle case (sel 1, sel 8) is inside the main theorem: hyp_guardb of the decoded
               cluster = true (Sched/QueueLemmasBuild.v: distinct task ids, no Pipelined task at
               session open, world_okb, ledger_okb, sess_wfb), hence world_ok_held by
               built_sessions_satisfy_hypotheses
     122       stream 8: number of assertion failures of the code under test = 0
     8 / 103   the real allocate action with a handler ahead of the queue plugin failing its allocate
               callback; verdict = law 103 (CycleLaws.law_queues) on the final session
     7 / 119   JobEnqueueable votes and the real enqueue action against amounts recomputed from the
               PodGroups and pods (EnqueueLaw.v)

   wire format of a vote case (sel 2 / 3):
     L  (L tokens: the cluster spec the Go side rebuilt the session from; skipped here)
     eps hier ready
     phases: list of ( records: list qrecord ; reserved: list (queue, res) ; queries: list query )
     qrecord := id open alloc inqueue elastic deserved (opt realCapability) (list ancestor) children
     query   := 1 q req | 2 q | 3 q (list req) | 4 q (opt minResources)
   output: per phase -101, then per query  -(110 + kind)  answer. *)
From stdpp Require Import gmap.
From Coq Require Import ZArith List.
From V Require Import Base.Codec Base.Res Base.ResCodec Sched.CycleEntry C03.CapacityModel C03.ReclaimLaw C03.AliasModel C03.EnqueueLaw Sched.CycleCodec Sched.QueueLemmasBuild.
Import ListNotations.
Open Scope Z_scope.

Definition dSkip : dec unit :=
  let* n := dNat in
  fun l => if (length l <? n)%nat then None else Some (tt, skipn n l).

Definition dQrec : dec (positive * qrec) :=
  let* id := dPos in let* o := dBool in let* al := dRes in let* iq := dRes in let* el := dRes in
  let* de := dRes in let* rc := dOpt dRes in let* an := dList dPos in let* ch := dNat in
  ret (id, mkQrec o al iq el de rc an ch).

Inductive query :=
| QAlloc (q : positive) (req : res)
| QOver (q : positive)
| QPreempt (q : positive) (reqs : list res)
| QEnq (q : positive) (minres : option res).

Definition dQuery : dec query :=
  let* k := dZ in
  match k with
  | 1 => let* q := dPos in let* r := dRes in ret (QAlloc q r)
  | 2 => let* q := dPos in ret (QOver q)
  | 3 => let* q := dPos in let* l := dList dRes in ret (QPreempt q l)
  | 4 => let* q := dPos in let* m := dOpt dRes in ret (QEnq q m)
  | _ => fail
  end.

Definition reserved_of (l : list (positive * res)) : positive -> res :=
  let m : gmap positive res := list_to_map l in fun a => default empty_res (m !! a).

Record phase := mkPhase { ph_qs : qmap; ph_reserved : positive -> res; ph_queries : list query }.

Definition dPhase : dec phase :=
  let* rs := dList dQrec in let* rv := dList (dPair dPos dRes) in let* qs := dList dQuery in
  ret (mkPhase (list_to_map rs) (reserved_of rv) qs).

Definition dVoteCase : dec (Z * bool * bool * list phase) :=
  let* _ := dSkip in let* eps := dZ in let* hier := dBool in let* ready := dBool in
  let* ps := dList dPhase in ret (eps, hier, ready, ps).

Definition query_tag (q : query) : Z :=
  match q with QAlloc _ _ => -111 | QOver _ => -112 | QPreempt _ _ => -113 | QEnq _ _ => -114 end.

Definition answer_cap (eps : Z) (hier ready : bool) (p : phase) (q : query) : bool :=
  match q with
  | QAlloc a r => cap_allocatable hier ready (ph_qs p) (ph_reserved p) a r
  | QOver _ => cap_overused
  | QPreempt a l => cap_preemptive eps ready (ph_qs p) a l
  | QEnq a m => vote_to_bool (cap_enqueueable hier ready (ph_qs p) a m)
  end.

Definition answer_prop (eps : Z) (p : phase) (q : query) : bool :=
  match q with
  | QAlloc a r => prop_allocatable (ph_qs p) a [r]
  | QOver a => prop_overused eps (ph_qs p) a
  | QPreempt a l => prop_preemptive (ph_qs p) a l
  | QEnq a m => vote_to_bool (prop_enqueueable (ph_qs p) a m)
  end.

Definition run_votes (ans : phase -> query -> bool) (ps : list phase) : list Z :=
  flat_map (fun p => -101 :: flat_map (fun q => query_tag q :: eBool (ans p q)) (ph_queries p)) ps.

(* ---- law inputs:  kind eps caps, then per phase: records reserved observations ---- *)
Definition dKind : dec pkind :=
  let* k := dZ in match k with 1 => ret KFlat | 2 => ret KHier | 3 => ret KProp | _ => fail end.

Definition dObs : dec (query * bool) := let* q := dQuery in let* a := dBool in ret (q, a).

Record law_in := mkLawIn { li_kind : pkind; li_eps : Z; li_qs : qmap; li_reserved : positive -> res;
                           li_caps : gmap positive res; li_obs : list (query * bool) }.

Definition dLawPhase (k : pkind) (eps : Z) (cs : gmap positive res) : dec law_in :=
  let* rs := dList dQrec in let* rv := dList (dPair dPos dRes) in let* ob := dList dObs in
  ret (mkLawIn k eps (list_to_map rs) (reserved_of rv) cs ob).

(* kind eps caps phases *)
Definition dLawIn : dec (list law_in) :=
  let* k := dKind in let* eps := dZ in let* cs := dList (dPair dPos dRes) in
  dList (dLawPhase k eps (list_to_map cs)).

Definition law_110 (x : law_in) : bool :=
  forallb (fun o => match o with
                    | (QAlloc q r, a) => law_alloc_one (li_kind x) (li_qs x) (li_reserved x) q r a
                    | _ => true end) (li_obs x).
Definition law_111 (x : law_in) : bool :=
  forallb (fun o => match o with
                    | (QEnq q m, a) => law_enq_one (li_kind x) (li_qs x) q m a
                    | _ => true end) (li_obs x).
Definition law_112 (x : law_in) : bool :=
  forallb (fun o => match o with
                    | (QPreempt q l, a) => law_preemptive_one (li_kind x) (li_qs x) q l a
                    | (QOver q, a) => law_overused_one (li_eps x) (li_kind x) (li_qs x) q a
                    | _ => true end) (li_obs x).
Definition law_113 (x : law_in) : bool :=
  forallb (fun o => match o with
                    | (QAlloc q r, a) => law_alloc_cap_one (li_kind x) (li_qs x) (li_caps x) q r a
                    | _ => true end) (li_obs x).
Definition law_114 (x : law_in) : bool :=
  forallb (fun o => match o with
                    | (QEnq q m, a) => law_enq_cap_one (li_kind x) (li_qs x) (li_caps x) q m a
                    | _ => true end) (li_obs x).

Definition law_entry (f : law_in -> bool) (toks : list Z) : list Z :=
  match run_dec dLawIn toks with Some xs => eBool (forallb f xs) | None => bad_input end.

Definition entry (sel : Z) (toks : list Z) : list Z :=
  match sel with
  | 2 => match run_dec dVoteCase toks with
         | Some (eps, hier, ready, ps) => run_votes (answer_cap eps hier ready) ps
         | None => bad_input end
  | 3 => match run_dec dVoteCase toks with
         | Some (eps, _, _, ps) => run_votes (answer_prop eps) ps
         | None => bad_input end
  | 4 => eBool (Nat.eqb (length toks) 8 || Nat.eqb (length toks) 11)
  | 5 => eBool (Nat.eqb (length toks) 5 || Nat.eqb (length toks) 6)
  | 6 => eBool (Nat.eqb (length toks) 8)
  | 7 => eBool (match toks with _ :: _ :: _ => true | _ => false end)
  | 8 => eBool (match toks with _ :: _ :: _ => true | _ => false end)
  | 121 => match run_dec dCycle toks with Some c => eBool (hyp_guardb c) | None => bad_input end
  | 122 => match toks with [n] => eBool (n =? 0) | _ => bad_input end
  | 118 => match law_preempt toks with Some b => eBool b | None => bad_input end
  | 119 => match law_enqueue_toks toks with Some b => eBool b | None => bad_input end
  | 116 => match law_reclaim toks with Some b => eBool b | None => bad_input end
  | 117 => match law_alias toks with Some b => eBool b | None => bad_input end
  | 110 => law_entry law_110 toks
  | 111 => law_entry law_111 toks
  | 112 => law_entry law_112 toks
  | 113 => law_entry law_113 toks
  | 114 => law_entry law_114 toks
  | _ => cycle_entry sel toks
  end.
